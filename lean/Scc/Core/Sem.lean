/-
  Scc.Core.Sem — SPECIFICATION: the abstract machine of Core (unfocused, with ς-steps) and of focused
  Core.  This file is the *meaning* of Core programs used by C02, C03, C04; it is not transcribed
  from any Rust code (DESIGN.md §4 "Core machine").  Core imports only; executable.

  * Environments map identifiers `(name, id)` to values (one namespace for variables and
    covariables, like the scoping of the implementation).
  * Producer values: `int n`, `con K vs`, `cocase ρ clauses`, `thunk ρ a s` (= suspended `μa.s`,
    only at codata types).  Consumer values: `dtor D vs`, `case ρ clauses`, `mutilde ρ x s`, `halt`
    (the top-level continuation of `main`).
  * `⟨p | c⟩` at an integer or data type: producer first.  `μa.s` binds `a` to the value of `c` and
    runs `s`; otherwise the value of `p` is passed to the value of `c`.
    At a codata type: consumer first.  `μ~x.s` binds `x` to the value of `p` (a `μa.s` is suspended
    as a thunk = call by name); a destructor `D(vs)` selects the clause of a `cocase`, or re-enters
    a thunk with `a ↦ D(vs)`.
  * A statement whose arguments are not all variables is *unfocused*; the machine then performs the
    classical ς-step on the LEFTMOST non-variable argument `t`:
        S[t] ↦ ⟨t | μ~x.S[x]⟩   (t a producer)         S[t] ↦ ⟨μa.S[a] | t⟩   (t a consumer)
    with a machine-fresh `x`/`a` (name `"ς"`, running number), at the type of `t`.
  * Integers are `BitVec 64`: wrapping `+ - *`, truncating signed `/ %`, which are
    `stuck divByZero` for divisor 0 and `stuck overflow` for `MIN / -1`, `MIN % -1`.
-/
import Scc.Core.Syntax

namespace Scc.Core

/-! ## observable behaviour -/

inductive Why where
  | divByZero | overflow
  | unbound (x : Ident)        -- variable not in the environment
  | noDef (f : Ident)          -- call of an unknown definition / no `main`
  | noClause (k : Ident)       -- no clause for the xtor
  | arity                      -- wrong number of arguments
  | shape                      -- a value of the wrong shape meets a term (ill-typed program)
  deriving DecidableEq, Repr, Inhabited

inductive Res where
  | done (v : BitVec 64)
  | stuck (why : Why)
  | outOfFuel
  deriving DecidableEq, Repr, Inhabited

structure Behaviour where
  /-- print trace: (newline?, value) in order of execution -/
  out : List (Bool × BitVec 64)
  res : Res
  deriving DecidableEq, Repr, Inhabited

/-! ## values (`S` = statements, `C` = clause lists of the language in question) -/

inductive Val (S C : Type) where
  | int (n : BitVec 64)
  | con (k : Ident) (vs : List (Val S C))
  | cocase (ρ : List (Ident × Val S C)) (clauses : C)
  | thunk (ρ : List (Ident × Val S C)) (a : Ident) (s : S)
  | dtor (d : Ident) (vs : List (Val S C))
  | case (ρ : List (Ident × Val S C)) (clauses : C)
  | mutilde (ρ : List (Ident × Val S C)) (x : Ident) (s : S)
  | halt

abbrev Env (S C : Type) := List (Ident × Val S C)

section generic
variable {S C : Type}

def Env.lookup : Env S C → Ident → Except Why (Val S C)
  | [], x => .error (.unbound x)
  | (y, v) :: r, x => if y = x then .ok v else Env.lookup r x

def Env.lookupInt (ρ : Env S C) (x : Ident) : Except Why (BitVec 64) :=
  match ρ.lookup x with
  | .ok (.int n) => .ok n
  | .ok _ => .error .shape
  | .error e => .error e

def Env.lookupAll (ρ : Env S C) : Ctx → Except Why (List (Val S C))
  | [] => .ok []
  | b :: r =>
    match ρ.lookup b.var, Env.lookupAll ρ r with
    | .ok v, .ok vs => .ok (v :: vs)
    | .error e, _ => .error e
    | _, .error e => .error e

/-- bind the binders of a context positionally to values, in front of `ρ` -/
def Env.bind (ρ : Env S C) : Ctx → List (Val S C) → Except Why (Env S C)
  | [], [] => .ok ρ
  | b :: bs, v :: vs =>
    match Env.bind ρ bs vs with
    | .ok ρ' => .ok ((b.var, v) :: ρ')
    | .error e => .error e
  | _, _ => .error .arity

end generic

def minInt64 : BitVec 64 := BitVec.intMin 64

def arith (o : BinOp) (a b : BitVec 64) : Except Why (BitVec 64) :=
  match o with
  | .sum => .ok (a + b)
  | .sub => .ok (a - b)
  | .prod => .ok (a * b)
  | .div =>
    if b = 0 then .error .divByZero
    else if a = minInt64 ∧ b = -1 then .error .overflow
    else .ok (a.sdiv b)
  | .rem =>
    if b = 0 then .error .divByZero
    else if a = minInt64 ∧ b = -1 then .error .overflow
    else .ok (a.srem b)

def compare (s : IfSort) (a b : BitVec 64) : Bool :=
  match s with
  | .eq => a == b
  | .ne => a != b
  | .lt => a.slt b
  | .le => a.sle b
  | .gt => b.slt a
  | .ge => b.sle a

def isCodata (codataTypes : List TypeDecl) : Ty → Bool
  | .i64 => false
  | .decl n => codataTypes.any fun d => d.name == n

/-- the entry environment: producer parameters of `main` take the argument integers in order,
    covariable parameters are bound to `halt` -/
def entryEnv {S C : Type} : Ctx → List (BitVec 64) → Except Why (Env S C)
  | [], [] => .ok []
  | b :: bs, as =>
    match b.chi, as with
    | .cns, as =>
      match entryEnv bs as with
      | .ok ρ => .ok ((b.var, .halt) :: ρ)
      | .error e => .error e
    | .prd, a :: as =>
      match entryEnv bs as with
      | .ok ρ => .ok ((b.var, .int a) :: ρ)
      | .error e => .error e
    | .prd, [] => .error .arity
  | [], _ :: _ => .error .arity

/-- result of one machine step -/
inductive Step (σ : Type) where
  | next (s : σ)
  | final (r : Res)

/-! ## the machine for (unfocused) Core -/

abbrev CVal := Val Stmt Clauses
abbrev CEnv := Env Stmt Clauses

structure State where
  stmt : Stmt
  env : CEnv
  out : List (Bool × BitVec 64)
  /-- number of the next machine-fresh name -/
  fresh : Nat

def Term.isVar : Term → Bool
  | .var _ _ _ => true
  | _ => false

/-- the type annotation of a term (`Typed::get_type`) -/
def Term.ty : Term → Ty
  | .var _ _ t => t
  | .lit _ => .i64
  | .op _ _ _ => .i64
  | .mu _ _ t _ => t
  | .xtor _ _ _ t => t
  | .xcase _ t _ => t

def sigmaName (k : Nat) : Ident := ⟨"ς", k⟩

/-- `S[t] ↦ ⟨t | μ~x.S[x]⟩` resp. `⟨μa.S[a] | t⟩`; `body` is `S[x]` -/
def sigmaCut (pc : PC) (t : Term) (x : Ident) (body : Stmt) : Stmt :=
  match pc with
  | .prd => .cut t.ty t (.mu .cns x t.ty body)
  | .cns => .cut t.ty (.mu .prd x t.ty body) t

/-- split an argument list at its leftmost non-variable argument `t`: returns the chirality of
    `t`, `t` itself, and the list as a context `A[·]` around it -/
def Args.split : Args → Option (PC × Term × (Term → Args))
  | .nil => none
  | .cons pc t r =>
    if t.isVar then
      match Args.split r with
      | some (c, u, A) => some (c, u, fun h => .cons pc t (A h))
      | none => none
    else some (pc, t, fun h => .cons pc h r)

/-- an unfocused statement read as `S[t]`: the leftmost non-variable argument `t` (of a
    constructor/destructor/operator in a cut, a comparison, print, call or exit), its chirality,
    and the context `S[·]`; `none` if all arguments are variables -/
def Stmt.split : Stmt → Option (PC × Term × (Term → Stmt))
  | .cut ty (.xtor pc k as t) c =>
    match as.split with
    | some (c', u, A) => some (c', u, fun h => .cut ty (.xtor pc k (A h) t) c)
    | none =>
      match c with
      | .xtor dpc d ds dt =>
        match ds.split with
        | some (c', u, D) => some (c', u, fun h => .cut ty (.xtor pc k as t) (.xtor dpc d (D h) dt))
        | none => none
      | _ => none
  | .cut ty p (.xtor dpc d ds dt) =>
    match ds.split with
    | some (c', u, D) => some (c', u, fun h => .cut ty p (.xtor dpc d (D h) dt))
    | none => none
  | .cut ty (.op a o b) c =>
    if !a.isVar then some (.prd, a, fun h => .cut ty (.op h o b) c)
    else if !b.isVar then some (.prd, b, fun h => .cut ty (.op a o h) c)
    else none
  | .cut _ _ _ => none
  | .ifc s a b t e =>
    if !a.isVar then some (.prd, a, fun h => .ifc s h b t e)
    else if !b.isVar then some (.prd, b, fun h => .ifc s a h t e)
    else none
  | .ifz s a t e => if !a.isVar then some (.prd, a, fun h => .ifz s h t e) else none
  | .print nl a n => if !a.isVar then some (.prd, a, fun h => .print nl h n) else none
  | .call f as ty =>
    match as.split with
    | some (c', u, A) => some (c', u, fun h => .call f (A h) ty)
    | none => none
  | .exit a ty => if !a.isVar then some (.prd, a, fun h => .exit h ty) else none

/-- the ς-step of an unfocused statement `S[t]`, with the fresh name `x`:
    `⟨t | μ~x.S[x]⟩` for a producer `t`, `⟨μx.S[x] | t⟩` for a consumer `t` -/
def sigmaStep (x : Ident) (s : Stmt) : Option Stmt :=
  match s.split with
  | some (pc, t, S) => some (sigmaCut pc t x (S (.var pc x t.ty)))
  | none => none

/-- values of arguments that are all variables -/
def argVals (ρ : CEnv) : Args → Except Why (List CVal)
  | .nil => .ok []
  | .cons _ (.var _ v _) r =>
    match ρ.lookup v, argVals ρ r with
    | .ok v, .ok vs => .ok (v :: vs)
    | .error e, _ => .error e
    | _, .error e => .error e
  | .cons _ _ _ => .error .shape

/-- value of a producer in a focused cut (`μ` is suspended: used at codata types only) -/
def prdVal (ρ : CEnv) : Term → Except Why CVal
  | .var _ v _ => ρ.lookup v
  | .lit n => .ok (.int (BitVec.ofInt 64 n))
  | .op (.var _ a _) o (.var _ b _) =>
    match ρ.lookupInt a, ρ.lookupInt b with
    | .ok x, .ok y => match arith o x y with
      | .ok z => .ok (.int z)
      | .error e => .error e
    | .error e, _ => .error e
    | _, .error e => .error e
  | .op _ _ _ => .error .shape
  | .mu _ a _ s => .ok (.thunk ρ a s)
  | .xtor _ k as _ => match argVals ρ as with
    | .ok vs => .ok (.con k vs)
    | .error e => .error e
  | .xcase _ _ cl => .ok (.cocase ρ cl)

/-- value of a consumer in a focused cut -/
def cnsVal (ρ : CEnv) : Term → Except Why CVal
  | .var _ v _ => ρ.lookup v
  | .mu _ x _ s => .ok (.mutilde ρ x s)
  | .xtor _ d as _ => match argVals ρ as with
    | .ok vs => .ok (.dtor d vs)
    | .error e => .error e
  | .xcase _ _ cl => .ok (.case ρ cl)
  | .lit _ => .error .shape
  | .op _ _ _ => .error .shape

def Clauses.find : Clauses → Ident → Option (Ctx × Stmt)
  | .nil, _ => none
  | .cons x ctx b r, k => if x = k then some (ctx, b) else Clauses.find r k

def State.goto (st : State) (s : Stmt) (ρ : CEnv) : Step State :=
  .next { st with stmt := s, env := ρ }

def stuck {σ : Type} (w : Why) : Step σ := .final (.stuck w)

/-- enter the clause for `k` with the values `vs` -/
def State.select (st : State) (ρ : CEnv) (cl : Clauses) (k : Ident) (vs : List CVal) : Step State :=
  match cl.find k with
  | none => stuck (.noClause k)
  | some (ctx, body) =>
    match ρ.bind ctx vs with
    | .ok ρ' => st.goto body ρ'
    | .error e => stuck e

/-- a producer value is passed to a consumer value (cut at an integer or data type) -/
def State.pass (st : State) (pv cv : CVal) : Step State :=
  match cv with
  | .mutilde ρ' x s => st.goto s ((x, pv) :: ρ')
  | .case ρ' cl =>
    match pv with
    | .con k vs => st.select ρ' cl k vs
    | _ => stuck .shape
  | .halt =>
    match pv with
    | .int n => .final (.done n)
    | _ => stuck .shape
  | _ => stuck .shape

/-- the destructor `d(vs)` is sent to a producer value (cut at a codata type) -/
def State.invoke (st : State) (pv : CVal) (d : Ident) (vs : List CVal) : Step State :=
  match pv with
  | .cocase ρ' cl => st.select ρ' cl d vs
  | .thunk ρ' a s => st.goto s ((a, .dtor d vs) :: ρ')
  | _ => stuck .shape

/-- a cut whose arguments are all variables -/
def stepCut (codata : Bool) (st : State) (p c : Term) : Step State :=
  let ρ := st.env
  if codata then
    -- consumer first
    match cnsVal ρ c with
    | .error e => stuck e
    | .ok (.mutilde ρ' x s) =>
      match prdVal ρ p with
      | .ok pv => st.goto s ((x, pv) :: ρ')
      | .error e => stuck e
    | .ok (.dtor d vs) =>
      match prdVal ρ p with
      | .ok pv => st.invoke pv d vs
      | .error e => stuck e
    | .ok _ => stuck .shape
  else
    -- producer first
    match p with
    | .mu _ a _ s =>
      match cnsVal ρ c with
      | .ok cv => st.goto s ((a, cv) :: ρ)
      | .error e => stuck e
    | _ =>
      match prdVal ρ p with
      | .error e => stuck e
      | .ok pv =>
        match cnsVal ρ c with
        | .error e => stuck e
        | .ok cv => st.pass pv cv

def step (p : Prog) (st : State) : Step State :=
  match sigmaStep (sigmaName st.fresh) st.stmt with
  | some s => .next { st with stmt := s, fresh := st.fresh + 1 }
  | none =>
    let ρ := st.env
    match st.stmt with
    | .cut ty prd cns => stepCut (isCodata p.codataTypes ty) st prd cns
    | .ifc srt (.var _ a _) (.var _ b _) t e =>
      match ρ.lookupInt a, ρ.lookupInt b with
      | .ok x, .ok y => st.goto (if compare srt x y then t else e) ρ
      | .error err, _ => stuck err
      | _, .error err => stuck err
    | .ifz srt (.var _ a _) t e =>
      match ρ.lookupInt a with
      | .ok x => st.goto (if compare srt x 0 then t else e) ρ
      | .error err => stuck err
    | .print nl (.var _ a _) next =>
      match ρ.lookupInt a with
      | .ok x => .next { st with stmt := next, out := st.out ++ [(nl, x)] }
      | .error err => stuck err
    | .call f as _ =>
      match p.defs.find? (fun d => d.name = f) with
      | none => stuck (.noDef f)
      | some d =>
        match argVals ρ as with
        | .error err => stuck err
        | .ok vs =>
          match Env.bind [] d.ctx vs with
          | .ok ρ' => st.goto d.body ρ'
          | .error err => stuck err
    | .exit (.var _ a _) _ =>
      match ρ.lookupInt a with
      | .ok x => .final (.done x)
      | .error err => stuck err
    | _ => stuck .shape     -- unreachable: `sigmaStep` returned `none`

def stepN (p : Prog) : Nat → State → Behaviour
  | 0, st => ⟨st.out, .outOfFuel⟩
  | fuel + 1, st =>
    match step p st with
    | .next st' => stepN p fuel st'
    | .final r => ⟨st.out, r⟩

def mainName : String := "main"

def run (p : Prog) (args : List (BitVec 64)) (fuel : Nat) : Behaviour :=
  match p.defs.find? (fun d => d.name.name = mainName) with
  | none => ⟨[], .stuck (.noDef ⟨mainName, 0⟩)⟩
  | some d =>
    match entryEnv d.ctx args with
    | .error e => ⟨[], .stuck e⟩
    | .ok ρ => stepN p fuel ⟨d.body, ρ, [], 0⟩

/-! ## the machine for focused Core (no ς-steps: all arguments are variables) -/

abbrev FVal := Val FsStmt FsClauses
abbrev FEnv := Env FsStmt FsClauses

structure FsState where
  stmt : FsStmt
  env : FEnv
  out : List (Bool × BitVec 64)

def fsPrdVal (ρ : FEnv) : FsTerm → Except Why FVal
  | .var _ v _ => ρ.lookup v
  | .lit n => .ok (.int (BitVec.ofInt 64 n))
  | .op a o b =>
    match ρ.lookupInt a, ρ.lookupInt b with
    | .ok x, .ok y => match arith o x y with
      | .ok z => .ok (.int z)
      | .error e => .error e
    | .error e, _ => .error e
    | _, .error e => .error e
  | .mu _ a _ s => .ok (.thunk ρ a s)
  | .xtor _ k as _ => match ρ.lookupAll as with
    | .ok vs => .ok (.con k vs)
    | .error e => .error e
  | .xcase _ _ cl => .ok (.cocase ρ cl)

def fsCnsVal (ρ : FEnv) : FsTerm → Except Why FVal
  | .var _ v _ => ρ.lookup v
  | .mu _ x _ s => .ok (.mutilde ρ x s)
  | .xtor _ d as _ => match ρ.lookupAll as with
    | .ok vs => .ok (.dtor d vs)
    | .error e => .error e
  | .xcase _ _ cl => .ok (.case ρ cl)
  | .lit _ => .error .shape
  | .op _ _ _ => .error .shape

def FsClauses.find : FsClauses → Ident → Option (Ctx × FsStmt)
  | .nil, _ => none
  | .cons x ctx b r, k => if x = k then some (ctx, b) else FsClauses.find r k

def FsState.goto (st : FsState) (s : FsStmt) (ρ : FEnv) : Step FsState :=
  .next { st with stmt := s, env := ρ }

def FsState.select (st : FsState) (ρ : FEnv) (cl : FsClauses) (k : Ident) (vs : List FVal) :
    Step FsState :=
  match cl.find k with
  | none => stuck (.noClause k)
  | some (ctx, body) =>
    match ρ.bind ctx vs with
    | .ok ρ' => st.goto body ρ'
    | .error e => stuck e

def FsState.pass (st : FsState) (pv cv : FVal) : Step FsState :=
  match cv with
  | .mutilde ρ' x s => st.goto s ((x, pv) :: ρ')
  | .case ρ' cl =>
    match pv with
    | .con k vs => st.select ρ' cl k vs
    | _ => stuck .shape
  | .halt =>
    match pv with
    | .int n => .final (.done n)
    | _ => stuck .shape
  | _ => stuck .shape

def FsState.invoke (st : FsState) (pv : FVal) (d : Ident) (vs : List FVal) : Step FsState :=
  match pv with
  | .cocase ρ' cl => st.select ρ' cl d vs
  | .thunk ρ' a s => st.goto s ((a, .dtor d vs) :: ρ')
  | _ => stuck .shape

def fsStepCut (codata : Bool) (st : FsState) (p c : FsTerm) : Step FsState :=
  let ρ := st.env
  if codata then
    match fsCnsVal ρ c with
    | .error e => stuck e
    | .ok (.mutilde ρ' x s) =>
      match fsPrdVal ρ p with
      | .ok pv => st.goto s ((x, pv) :: ρ')
      | .error e => stuck e
    | .ok (.dtor d vs) =>
      match fsPrdVal ρ p with
      | .ok pv => st.invoke pv d vs
      | .error e => stuck e
    | .ok _ => stuck .shape
  else
    match p with
    | .mu _ a _ s =>
      match fsCnsVal ρ c with
      | .ok cv => st.goto s ((a, cv) :: ρ)
      | .error e => stuck e
    | _ =>
      match fsPrdVal ρ p with
      | .error e => stuck e
      | .ok pv =>
        match fsCnsVal ρ c with
        | .error e => stuck e
        | .ok cv => st.pass pv cv

def fsStep (p : FsProg) (st : FsState) : Step FsState :=
  let ρ := st.env
  match st.stmt with
  | .cut ty prd cns => fsStepCut (isCodata p.codataTypes ty) st prd cns
  | .ifc srt a (some b) t e =>
    match ρ.lookupInt a, ρ.lookupInt b with
    | .ok x, .ok y => st.goto (if compare srt x y then t else e) ρ
    | .error err, _ => stuck err
    | _, .error err => stuck err
  | .ifc srt a none t e =>
    match ρ.lookupInt a with
    | .ok x => st.goto (if compare srt x 0 then t else e) ρ
    | .error err => stuck err
  | .print nl a next =>
    match ρ.lookupInt a with
    | .ok x => .next { st with stmt := next, out := st.out ++ [(nl, x)] }
    | .error err => stuck err
  | .call f as =>
    match p.defs.find? (fun d => d.name = f) with
    | none => stuck (.noDef f)
    | some d =>
      match ρ.lookupAll as with
      | .error err => stuck err
      | .ok vs =>
        match Env.bind [] d.ctx vs with
        | .ok ρ' => st.goto d.body ρ'
        | .error err => stuck err
  | .exit a =>
    match ρ.lookupInt a with
    | .ok x => .final (.done x)
    | .error err => stuck err

def fsStepN (p : FsProg) : Nat → FsState → Behaviour
  | 0, st => ⟨st.out, .outOfFuel⟩
  | fuel + 1, st =>
    match fsStep p st with
    | .next st' => fsStepN p fuel st'
    | .final r => ⟨st.out, r⟩

def fsRun (p : FsProg) (args : List (BitVec 64)) (fuel : Nat) : Behaviour :=
  match p.defs.find? (fun d => d.name.name = mainName) with
  | none => ⟨[], .stuck (.noDef ⟨mainName, 0⟩)⟩
  | some d =>
    match entryEnv d.ctx args with
    | .error e => ⟨[], .stuck e⟩
    | .ok ρ => fsStepN p fuel ⟨d.body, ρ, []⟩

/-! ## line interface -/

def Why.render : Why → String
  | .divByZero => "divByZero"
  | .overflow => "overflow"
  | .unbound x => "unbound:" ++ x.print
  | .noDef f => "noDef:" ++ f.print
  | .noClause k => "noClause:" ++ k.print
  | .arity => "arity"
  | .shape => "shape"

def Res.render : Res → String
  | .done v => "done " ++ toString v.toInt
  | .stuck w => "stuck " ++ w.render
  | .outOfFuel => "outOfFuel"

/-- `OK out=[nl:1,nonl:-2] res=done 0` -/
def Behaviour.render (b : Behaviour) : String :=
  "OK out=[" ++ ",".intercalate (b.out.map fun (nl, v) =>
    (if nl then "nl:" else "nonl:") ++ toString v.toInt) ++ "] res=" ++ b.res.render

/-- run the ς-machine on a Core dump (S2 or S2u text) -/
def runLineCore (dump : String) (args : List (BitVec 64)) (fuel : Nat) : String :=
  match Sexp.parse dump with
  | none => "ERR sexp"
  | some sx =>
    match readProg (dump.length + 10) sx with
    | none => "ERR read"
    | some p => (run p args fuel).render

/-- run the focused machine on a focused-Core dump (S3 text) -/
def runLineFs (dump : String) (args : List (BitVec 64)) (fuel : Nat) : String :=
  match Sexp.parse dump with
  | none => "ERR sexp"
  | some sx =>
    match readFsProg (dump.length + 10) sx with
    | none => "ERR read"
    | some p => (fsRun p args fuel).render

end Scc.Core
