/-
  Scc.Core.Focus — model of static focusing (`Focusing::focus`, `Bind::bind`, `bind_many`) on Core,
  transcribed from /repo/lang/core_lang/src
    traits/focus.rs (bind_many), syntax/program.rs (Prog::focus), syntax/def.rs (Def::focus),
    syntax/statements/{mod,cut,ifc,print,call,exit}.rs  (impl Focusing),
    syntax/terms/{mod,xvar,literal,op,mu,xtor,xcase,clause}.rs, syntax/arguments.rs
    (impl Focusing / impl Bind), syntax/names.rs (fresh_var, fresh_covar).
  Core imports only; executable.

  Rust's continuations `Box<dyn FnOnce(ContextBinding, &mut ID) -> FsStatement>` are Lean functions
  `Binding → Nat → FsStmt × Nat` (counter in, counter out); the counter is threaded in exactly the
  order in which Rust evaluates (arguments of a constructor call left to right).

  Panics of the Rust code (all on ill-typed input) and how they appear here:
   * `Term<Cns>::focus/bind` on `Literal`/`Op` ("Cannot happen"): consumer-position literal/operator,
     excluded by `Prog.chiralityOk` (Uniquify.lean);
   * `Xtor::focus` ("Constructors and destructors should always be focused in cuts directly"):
     reached only for `⟨K(..) | D(..)⟩` (first arm of `Cut::focus` focuses the consumer);
   * `Op::focus` ("Arithmetic operators should always be focused in cuts directly"): reached only for
     `⟨p ⊙ q | D(..)⟩` (second arm of `Cut::focus` focuses the producer).
  `Prog.focusPanicFree` is the exact complement of these situations, `focusProgE` checks it and
  reports the panic; the total functions return `panicTerm` at the two unreachable places.
-/
import Scc.Core.Uniquify

namespace Scc.Core

-- names.rs: fn fresh_var / fn fresh_covar
def freshVar (maxId : Nat) : Ident × Nat := freshIdentifier maxId "x"
def freshCovar (maxId : Nat) : Ident × Nat := freshIdentifier maxId "a"

/-- `Continuation` of traits/focus.rs -/
abbrev Cont := Binding → Nat → FsStmt × Nat
/-- `ContinuationVec` of traits/focus.rs -/
abbrev ContVec := List Binding → Nat → FsStmt × Nat

/-- placeholder returned where Rust panics (never produced under `focusPanicFree`) -/
def panicTerm : FsTerm := .lit 0

mutual
  -- terms/mod.rs: impl Focusing for Term<Prd> / Term<Cns>; mu.rs, xcase.rs (xtor.rs, op.rs: panic)
  def focusTerm : Term → Nat → FsTerm × Nat
    | .var pc v ty, n => (.var pc v ty, n)
    | .lit k, n => (.lit k, n)
    | .op _ _ _, n => (panicTerm, n)          -- op.rs: Op::focus panics
    | .mu pc v ty s, n =>
      let (s', n1) := focusStmt s n
      (.mu pc v ty s', n1)
    | .xtor _ _ _ _, n => (panicTerm, n)      -- xtor.rs: Xtor::focus panics
    | .xcase pc ty cl, n =>
      let (cl', n1) := focusClauses cl n
      (.xcase pc ty cl', n1)
  -- clause.rs: impl Focusing for Clause; traits/focus.rs: Vec<T>::focus (left to right)
  def focusClauses : Clauses → Nat → FsClauses × Nat
    | .nil, n => (.nil, n)
    | .cons x ctx b r, n =>
      let (b', n1) := focusStmt b n
      let (r', n2) := focusClauses r n1
      (.cons x ctx b' r', n2)
  -- statements/mod.rs: impl Focusing for Statement
  def focusStmt : Stmt → Nat → FsStmt × Nat
    -- cut.rs: impl Focusing for Cut (four arms, in this order)
    | .cut ty (.xtor pc name as _) c, n =>
      bindMany as (fun bs n =>
        let (c', n1) := focusTerm c n
        (.cut ty (.xtor pc name bs ty) c', n1)) n
    | .cut ty p (.xtor dpc name as _), n =>
      bindMany as (fun bs n =>
        let (p', n1) := focusTerm p n
        (.cut ty p' (.xtor dpc name bs ty), n1)) n
    | .cut ty (.op a o b) c, n =>
      bindTerm a (fun b1 n =>
        bindTerm b (fun b2 n =>
          let (c', n1) := focusTerm c n
          (.cut ty (.op b1.var o b2.var) c', n1)) n) n
    | .cut ty p c, n =>
      let (p', n1) := focusTerm p n
      let (c', n2) := focusTerm c n1
      (.cut ty p' c', n2)
    -- ifc.rs: impl Focusing for IfC
    | .ifc srt a b t e, n =>
      bindTerm a (fun b1 n =>
        bindTerm b (fun b2 n =>
          let (t', n1) := focusStmt t n
          let (e', n2) := focusStmt e n1
          (.ifc srt b1.var (some b2.var) t' e', n2)) n) n
    | .ifz srt a t e, n =>
      bindTerm a (fun b1 n =>
        let (t', n1) := focusStmt t n
        let (e', n2) := focusStmt e n1
        (.ifc srt b1.var none t' e', n2)) n
    -- print.rs: impl Focusing for PrintI64
    | .print nl a nx, n =>
      bindTerm a (fun b n =>
        let (nx', n1) := focusStmt nx n
        (.print nl b.var nx', n1)) n
    -- call.rs: impl Focusing for Call
    | .call f as _, n => bindMany as (fun bs n => (.call f bs, n)) n
    -- exit.rs: impl Focusing for Exit
    | .exit a _, n => bindTerm a (fun b n => (.exit b.var, n)) n
  -- terms/mod.rs: impl Bind for Term<Prd> / Term<Cns>
  def bindTerm : Term → Cont → Nat → FsStmt × Nat
    -- xvar.rs: impl Bind for XVar
    | .var pc v ty, k, n => k ⟨v, pc, ty⟩ n
    -- literal.rs: impl Bind for Literal
    | .lit i, k, n =>
      let (x, n1) := freshVar n
      let (r, n2) := k ⟨x, .prd, .i64⟩ n1
      (.cut .i64 (.lit i) (.mu .cns x .i64 r), n2)
    -- op.rs: impl Bind for Op
    | .op a o b, k, n =>
      bindTerm a (fun b1 n =>
        bindTerm b (fun b2 n =>
          let (x, n1) := freshVar n
          let (r, n2) := k ⟨x, .prd, .i64⟩ n1
          (.cut .i64 (.op b1.var o b2.var) (.mu .cns x .i64 r), n2)) n) n
    -- mu.rs: impl Bind for Mu<Prd>   (fresh_var; self.focus; k)
    | .mu .prd v ty s, k, n =>
      let (x, n1) := freshVar n
      let (s', n2) := focusStmt s n1
      let (r, n3) := k ⟨x, .prd, ty⟩ n2
      (.cut ty (.mu .prd v ty s') (.mu .cns x ty r), n3)
    -- mu.rs: impl Bind for Mu<Cns>   (fresh_covar; k; self.focus)
    | .mu .cns v ty s, k, n =>
      let (a, n1) := freshCovar n
      let (r, n2) := k ⟨a, .cns, ty⟩ n1
      let (s', n3) := focusStmt s n2
      (.cut ty (.mu .prd a ty r) (.mu .cns v ty s'), n3)
    -- xtor.rs: impl Bind for Xtor<Prd>
    | .xtor .prd name as ty, k, n =>
      bindMany as (fun bs n =>
        let (x, n1) := freshVar n
        let (r, n2) := k ⟨x, .prd, ty⟩ n1
        (.cut ty (.xtor .prd name bs ty) (.mu .cns x ty r), n2)) n
    -- xtor.rs: impl Bind for Xtor<Cns>
    | .xtor .cns name as ty, k, n =>
      bindMany as (fun bs n =>
        let (a, n1) := freshCovar n
        let (r, n2) := k ⟨a, .cns, ty⟩ n1
        (.cut ty (.mu .prd a ty r) (.xtor .cns name bs ty), n2)) n
    -- xcase.rs: impl Bind for XCase<Prd>   (fresh_var; k; self.focus)
    | .xcase .prd ty cl, k, n =>
      let (x, n1) := freshVar n
      let (r, n2) := k ⟨x, .prd, ty⟩ n1
      let (cl', n3) := focusClauses cl n2
      (.cut ty (.xcase .prd ty cl') (.mu .cns x ty r), n3)
    -- xcase.rs: impl Bind for XCase<Cns>   (fresh_covar; k; self.focus)
    | .xcase .cns ty cl, k, n =>
      let (a, n1) := freshCovar n
      let (r, n2) := k ⟨a, .cns, ty⟩ n1
      let (cl', n3) := focusClauses cl n2
      (.cut ty (.mu .prd a ty r) (.xcase .cns ty cl'), n3)
  -- traits/focus.rs: fn bind_many
  def bindMany : Args → ContVec → Nat → FsStmt × Nat
    | .nil, k, n => k [] n
    | .cons _ t r, k, n =>
      bindTerm t (fun b n => bindMany r (fun bs n => k (b :: bs) n) n) n
end

-- def.rs: fn Def::focus
def focusDef (d : Def) (n : Nat) : FsDef × Nat :=
  let (b', n1) := focusStmt d.body n
  (⟨d.name, d.ctx, b'⟩, n1)

-- program.rs: fn Prog::focus, the loop over the definitions
def focusDefs : List Def → Nat → List FsDef × Nat
  | [], n => ([], n)
  | d :: r, n =>
    let (d', n1) := focusDef d n
    let (r', n2) := focusDefs r n1
    (d' :: r', n2)

/-- focusing of an already uniquified program (the second half of `Prog::focus`) -/
def focusOnly (p : Prog) : FsProg :=
  let (ds, n) := focusDefs p.defs p.maxId
  ⟨ds, p.dataTypes, p.codataTypes, n⟩

-- program.rs: fn Prog::focus  (`self.uniquify()` first)
def focusProg (p : Prog) : FsProg := focusOnly (uniquifyProg p)

/-! ## the situations in which `Xtor::focus` / `Op::focus` panic -/

mutual
  def Term.cutsOk : Term → Bool
    | .var _ _ _ => true
    | .lit _ => true
    | .op a _ b => a.cutsOk && b.cutsOk
    | .mu _ _ _ s => s.cutsOk
    | .xtor _ _ as _ => as.cutsOk
    | .xcase _ _ cl => cl.cutsOk
  def Args.cutsOk : Args → Bool
    | .nil => true
    | .cons _ t r => t.cutsOk && r.cutsOk
  def Clauses.cutsOk : Clauses → Bool
    | .nil => true
    | .cons _ _ b r => b.cutsOk && r.cutsOk
  def Stmt.cutsOk : Stmt → Bool
    | .cut _ (.xtor _ _ as _) (.xtor _ _ _ _) => as.cutsOk && false   -- ⟨K(..) | D(..)⟩
    | .cut _ (.op _ _ _) (.xtor _ _ as _) => as.cutsOk && false       -- ⟨p ⊙ q | D(..)⟩
    | .cut _ p c => p.cutsOk && c.cutsOk
    | .ifc _ a b t e => a.cutsOk && b.cutsOk && t.cutsOk && e.cutsOk
    | .ifz _ a t e => a.cutsOk && t.cutsOk && e.cutsOk
    | .print _ a n => a.cutsOk && n.cutsOk
    | .call _ as _ => as.cutsOk
    | .exit a _ => a.cutsOk
end

def Prog.focusPanicFree (p : Prog) : Bool :=
  p.chiralityOk && p.defs.all fun d => d.body.cutsOk

def focusProgE (p : Prog) : Except String FsProg :=
  if !p.chiralityOk then
    .error "PANIC core_lang terms/mod.rs: literal/operator in consumer position (\"cannot happen\")"
  else if !(p.defs.all fun d => d.body.cutsOk) then
    .error "PANIC core_lang xtor.rs/op.rs: Xtor::focus / Op::focus reached (cut of a constructor or operator with a destructor)"
  else .ok (focusProg p)

/-- input: the S2 dump text; output: `OK <S3 dump>` or `ERR ..` -/
def runLineFocus (dumpS2 : String) : String :=
  match Sexp.parse dumpS2 with
  | none => "ERR sexp"
  | some sx =>
    match readProg (dumpS2.length + 10) sx with
    | none => "ERR read"
    | some p =>
      match focusProgE p with
      | .ok q => "OK " ++ q.toSexp.render
      | .error e => "ERR " ++ e

end Scc.Core
