/-
  Scc.Core.ProofsEmbed — consistency of the two machines of Sem.lean: a focused program, read as an
  (unfocused) Core program all of whose arguments are variables (`FsProg.embed`), never takes a
  ς-step, and the ς-machine on it runs in lock-step with the focused machine:
      `run q.embed args fuel = fsRun q args fuel`.
  So the focused machine IS the specification machine restricted to focused programs.
-/
import Scc.Core.Sem

namespace Scc.Core

def ctxToArgs : Ctx → Args
  | [] => .nil
  | b :: r => .cons b.chi (.var b.chi b.var b.ty) (ctxToArgs r)

def varI64 (x : Ident) : Term := .var .prd x .i64

mutual
  def FsTerm.embed : FsTerm → Term
    | .var pc v ty => .var pc v ty
    | .lit n => .lit n
    | .op a o b => .op (varI64 a) o (varI64 b)
    | .mu pc v ty s => .mu pc v ty s.embed
    | .xtor pc n as ty => .xtor pc n (ctxToArgs as) ty
    | .xcase pc ty cl => .xcase pc ty cl.embed
  def FsClauses.embed : FsClauses → Clauses
    | .nil => .nil
    | .cons x ctx b r => .cons x ctx b.embed r.embed
  def FsStmt.embed : FsStmt → Stmt
    | .cut ty p c => .cut ty p.embed c.embed
    | .ifc s a (some b) t e => .ifc s (varI64 a) (varI64 b) t.embed e.embed
    | .ifc s a none t e => .ifz s (varI64 a) t.embed e.embed
    | .print nl a n => .print nl (varI64 a) n.embed
    | .call f as => .call f (ctxToArgs as) .i64
    | .exit a => .exit (varI64 a) .i64
end

def FsDef.embed (d : FsDef) : Def := ⟨d.name, d.ctx, d.body.embed⟩

def FsProg.embed (p : FsProg) : Prog := ⟨p.defs.map FsDef.embed, p.dataTypes, p.codataTypes, p.maxId⟩

/-! ## values of the focused machine and values of the ς-machine -/

mutual
  inductive VRel : FVal → CVal → Prop
    | int (n) : VRel (.int n) (.int n)
    | con (k) {vs vs'} : VsRel vs vs' → VRel (.con k vs) (.con k vs')
    | cocase {ρ ρ'} (cl : FsClauses) : ERel ρ ρ' → VRel (.cocase ρ cl) (.cocase ρ' cl.embed)
    | thunk {ρ ρ'} (a) (s : FsStmt) : ERel ρ ρ' → VRel (.thunk ρ a s) (.thunk ρ' a s.embed)
    | dtor (d) {vs vs'} : VsRel vs vs' → VRel (.dtor d vs) (.dtor d vs')
    | case {ρ ρ'} (cl : FsClauses) : ERel ρ ρ' → VRel (.case ρ cl) (.case ρ' cl.embed)
    | mutilde {ρ ρ'} (x) (s : FsStmt) : ERel ρ ρ' → VRel (.mutilde ρ x s) (.mutilde ρ' x s.embed)
    | halt : VRel .halt .halt
  inductive VsRel : List FVal → List CVal → Prop
    | nil : VsRel [] []
    | cons {v v' vs vs'} : VRel v v' → VsRel vs vs' → VsRel (v :: vs) (v' :: vs')
  inductive ERel : FEnv → CEnv → Prop
    | nil : ERel [] []
    | cons (x) {v v' ρ ρ'} : VRel v v' → ERel ρ ρ' → ERel ((x, v) :: ρ) ((x, v') :: ρ')
end

/-- related results -/
def ExRel {α β : Type} (R : α → β → Prop) : Except Why α → Except Why β → Prop
  | .ok a, .ok b => R a b
  | .error e, .error e' => e = e'
  | _, _ => False

theorem lookup_rel {ρ : FEnv} {ρ' : CEnv} (h : ERel ρ ρ') (x : Ident) :
    ExRel VRel (ρ.lookup x) (ρ'.lookup x) := by
  induction ρ generalizing ρ' with
  | nil => cases h; simp [Env.lookup, ExRel]
  | cons e r ih =>
    cases h with
    | cons y hv hr =>
      simp only [Env.lookup]
      split
      · exact hv
      · exact ih hr

theorem lookupInt_rel {ρ : FEnv} {ρ' : CEnv} (h : ERel ρ ρ') (x : Ident) :
    ρ.lookupInt x = ρ'.lookupInt x := by
  have := lookup_rel h x
  unfold Env.lookupInt
  cases h1 : ρ.lookup x <;> cases h2 : ρ'.lookup x <;> simp only [h1, h2, ExRel] at this
  · simp [this]
  · cases this <;> rfl

theorem lookupAll_rel {ρ : FEnv} {ρ' : CEnv} (h : ERel ρ ρ') (as : Ctx) :
    ExRel VsRel (ρ.lookupAll as) (argVals ρ' (ctxToArgs as)) := by
  induction as with
  | nil => simp [Env.lookupAll, argVals, ctxToArgs, ExRel, VsRel.nil]
  | cons b r ih =>
    have hb := lookup_rel h b.var
    simp only [Env.lookupAll, argVals, ctxToArgs]
    cases h1 : ρ.lookup b.var <;> cases h2 : ρ'.lookup b.var <;> simp only [h1, h2, ExRel] at hb
    · simp [ExRel, hb]
    · cases h3 : ρ.lookupAll r <;> cases h4 : argVals ρ' (ctxToArgs r) <;>
        simp only [h3, h4, ExRel] at ih
      · simpa [ExRel] using ih
      · exact VsRel.cons hb ih

theorem bind_rel {ρ : FEnv} {ρ' : CEnv} (h : ERel ρ ρ') (ctx : Ctx) {vs vs'} (hv : VsRel vs vs') :
    ExRel ERel (ρ.bind ctx vs) (ρ'.bind ctx vs') := by
  induction ctx generalizing vs vs' with
  | nil => cases hv <;> simp [Env.bind, ExRel, h]
  | cons b bs ih =>
    cases hv with
    | nil => simp [Env.bind, ExRel]
    | cons hv1 hvs =>
      have := ih hvs
      simp only [Env.bind]
      cases h1 : Env.bind ρ bs _ <;> cases h2 : Env.bind ρ' bs _ <;> simp only [h1, h2, ExRel] at this
      · simpa [ExRel] using this
      · exact ERel.cons _ hv1 this

theorem find_embed (cl : FsClauses) (k : Ident) :
    cl.embed.find k = (cl.find k).map fun cb => (cb.1, cb.2.embed) := by
  match cl with
  | .nil => simp [FsClauses.embed, Clauses.find, FsClauses.find]
  | .cons x ctx b r =>
    simp only [FsClauses.embed, Clauses.find, FsClauses.find]
    split <;> simp [find_embed r k]

theorem split_ctxToArgs (as : Ctx) : (ctxToArgs as).split = none := by
  induction as with
  | nil => simp [ctxToArgs, Args.split]
  | cons b r ih => simp [ctxToArgs, Args.split, Term.isVar, ih]

theorem split_embed (s : FsStmt) : s.embed.split = none := by
  cases s with
  | cut ty p c =>
    cases p <;> cases c <;>
      simp [FsStmt.embed, FsTerm.embed, Stmt.split, split_ctxToArgs, varI64, Term.isVar]
  | ifc srt a b t e =>
    cases b <;> simp [FsStmt.embed, Stmt.split, varI64, Term.isVar]
  | print nl a n => simp [FsStmt.embed, Stmt.split, varI64, Term.isVar]
  | call f as => simp [FsStmt.embed, Stmt.split, split_ctxToArgs]
  | exit a => simp [FsStmt.embed, Stmt.split, varI64, Term.isVar]

theorem prdVal_rel {ρ : FEnv} {ρ' : CEnv} (h : ERel ρ ρ') (p : FsTerm) :
    ExRel VRel (fsPrdVal ρ p) (prdVal ρ' p.embed) := by
  cases p with
  | var pc v ty => exact lookup_rel h v
  | lit n => simp [fsPrdVal, prdVal, FsTerm.embed, ExRel, VRel.int]
  | op a o b =>
    simp only [fsPrdVal, prdVal, FsTerm.embed, varI64, lookupInt_rel h]
    cases ρ'.lookupInt a <;> cases ρ'.lookupInt b <;> simp only [ExRel]
    cases arith o _ _ <;> simp [VRel.int]
  | mu pc a ty s => simp [fsPrdVal, prdVal, FsTerm.embed, ExRel, VRel.thunk, h]
  | xtor pc k as ty =>
    have := lookupAll_rel h as
    simp only [fsPrdVal, prdVal, FsTerm.embed]
    cases h1 : ρ.lookupAll as <;> cases h2 : argVals ρ' (ctxToArgs as) <;>
      simp only [h1, h2, ExRel] at this ⊢
    · exact this
    · exact VRel.con k this
  | xcase pc ty cl => simp [fsPrdVal, prdVal, FsTerm.embed, ExRel, VRel.cocase, h]

theorem cnsVal_rel {ρ : FEnv} {ρ' : CEnv} (h : ERel ρ ρ') (c : FsTerm) :
    ExRel VRel (fsCnsVal ρ c) (cnsVal ρ' c.embed) := by
  cases c with
  | var pc v ty => exact lookup_rel h v
  | lit n => simp [fsCnsVal, cnsVal, FsTerm.embed, ExRel]
  | op a o b => simp [fsCnsVal, cnsVal, FsTerm.embed, ExRel]
  | mu pc a ty s => simp [fsCnsVal, cnsVal, FsTerm.embed, ExRel, VRel.mutilde, h]
  | xtor pc k as ty =>
    have := lookupAll_rel h as
    simp only [fsCnsVal, cnsVal, FsTerm.embed]
    cases h1 : ρ.lookupAll as <;> cases h2 : argVals ρ' (ctxToArgs as) <;>
      simp only [h1, h2, ExRel] at this ⊢
    · exact this
    · exact VRel.dtor k this
  | xcase pc ty cl => simp [fsCnsVal, cnsVal, FsTerm.embed, ExRel, VRel.case, h]

/-! ## states and steps -/

def StRel (F : FsState) (U : State) : Prop :=
  U.stmt = F.stmt.embed ∧ ERel F.env U.env ∧ U.out = F.out

def StepRel : Step FsState → Step State → Prop
  | .next F, .next U => StRel F U
  | .final r, .final r' => r = r'
  | _, _ => False

theorem goto_rel {F : FsState} {U : State} (h : StRel F U) (s : FsStmt) {ρ : FEnv} {ρ' : CEnv}
    (he : ERel ρ ρ') : StepRel (F.goto s ρ) (U.goto s.embed ρ') := by
  simp only [FsState.goto, State.goto, StepRel, StRel]
  exact ⟨trivial, he, h.2.2⟩

theorem select_rel {F : FsState} {U : State} (h : StRel F U) {ρ : FEnv} {ρ' : CEnv}
    (he : ERel ρ ρ') (cl : FsClauses) (k : Ident) {vs vs'} (hv : VsRel vs vs') :
    StepRel (F.select ρ cl k vs) (U.select ρ' cl.embed k vs') := by
  simp only [FsState.select, State.select, find_embed]
  cases hf : cl.find k with
  | none => simp [StepRel, stuck]
  | some cb =>
    obtain ⟨ctx, body⟩ := cb
    have := bind_rel he ctx hv
    simp only [Option.map_some]
    cases h1 : Env.bind ρ ctx vs <;> cases h2 : Env.bind ρ' ctx vs' <;>
      simp only [h1, h2, ExRel] at this ⊢
    · simp [StepRel, stuck, this]
    · exact goto_rel h body this

theorem pass_rel {F : FsState} {U : State} (h : StRel F U) {pv cv pv' cv'} (hp : VRel pv pv')
    (hc : VRel cv cv') : StepRel (F.pass pv cv) (U.pass pv' cv') := by
  cases hc with
  | mutilde x s hr => exact goto_rel h s (ERel.cons x hp hr)
  | case cl hr =>
    cases hp with
    | con k hvs => exact select_rel h hr cl k hvs
    | _ => simp [FsState.pass, State.pass, StepRel, stuck]
  | halt =>
    cases hp with
    | int n => simp [FsState.pass, State.pass, StepRel]
    | _ => simp [FsState.pass, State.pass, StepRel, stuck]
  | _ => simp [FsState.pass, State.pass, StepRel, stuck]

theorem invoke_rel {F : FsState} {U : State} (h : StRel F U) {pv pv'} (hp : VRel pv pv')
    (d : Ident) {vs vs'} (hvs : VsRel vs vs') :
    StepRel (F.invoke pv d vs) (U.invoke pv' d vs') := by
  cases hp with
  | cocase cl hr => exact select_rel h hr cl d hvs
  | thunk a s hr => exact goto_rel h s (ERel.cons a (VRel.dtor d hvs) hr)
  | _ => simp [FsState.invoke, State.invoke, StepRel, stuck]

theorem stepCut_rel {F : FsState} {U : State} (h : StRel F U) (cod : Bool) (p c : FsTerm) :
    StepRel (fsStepCut cod F p c) (stepCut cod U p.embed c.embed) := by
  have he := h.2.1
  have hc := cnsVal_rel he c
  have hp := prdVal_rel he p
  unfold fsStepCut stepCut
  cases cod
  · -- data / integer type: producer first
    simp only [Bool.false_eq_true, if_false]
    cases p with
    | mu pc a ty s =>
      simp only [FsTerm.embed]
      cases h1 : fsCnsVal F.env c <;> cases h2 : cnsVal U.env c.embed <;>
        simp only [h1, h2, ExRel] at hc ⊢
      · simp [StepRel, stuck, hc]
      · exact goto_rel h s (ERel.cons a hc he)
    | _ =>
      simp only [FsTerm.embed] at hp ⊢
      cases h1 : fsPrdVal F.env _ <;> cases h2 : prdVal U.env _ <;>
        simp only [h1, h2, ExRel] at hp ⊢
      · simp [StepRel, stuck, hp]
      · cases h3 : fsCnsVal F.env c <;> cases h4 : cnsVal U.env c.embed <;>
          simp only [h3, h4, ExRel] at hc ⊢
        · simp [StepRel, stuck, hc]
        · exact pass_rel h hp hc
  · -- codata type: consumer first
    simp only [if_true]
    cases h3 : fsCnsVal F.env c <;> cases h4 : cnsVal U.env c.embed <;>
      simp only [h3, h4, ExRel] at hc ⊢
    · simp [StepRel, stuck, hc]
    · cases hc with
      | mutilde x s hr =>
        cases h1 : fsPrdVal F.env p <;> cases h2 : prdVal U.env p.embed <;>
          simp only [h1, h2, ExRel] at hp ⊢
        · simp [StepRel, stuck, hp]
        · exact goto_rel h s (ERel.cons x hp hr)
      | dtor d hvs =>
        cases h1 : fsPrdVal F.env p <;> cases h2 : prdVal U.env p.embed <;>
          simp only [h1, h2, ExRel] at hp ⊢
        · simp [StepRel, stuck, hp]
        · exact invoke_rel h hp d hvs
      | _ => simp [StepRel, stuck]

theorem find_def_embed (ds : List FsDef) (q : Ident → Bool) :
    (ds.map FsDef.embed).find? (fun d => q d.name) = (ds.find? (fun d => q d.name)).map FsDef.embed := by
  induction ds with
  | nil => simp
  | cons d r ih =>
    simp only [List.map_cons, List.find?_cons, FsDef.embed]
    split <;> simp_all [FsDef.embed]

theorem sigmaStep_embed (x : Ident) (s : FsStmt) : sigmaStep x s.embed = none := by
  simp [sigmaStep, split_embed]

theorem step_rel (q : FsProg) {F : FsState} {U : State} (h : StRel F U) :
    StepRel (fsStep q F) (step q.embed U) := by
  obtain ⟨hs, he, ho⟩ := h
  have h : StRel F U := ⟨hs, he, ho⟩
  unfold step fsStep
  rw [hs, sigmaStep_embed]
  simp only
  cases hF : F.stmt with
  | cut ty p c =>
    simp only [FsStmt.embed]
    exact stepCut_rel h _ p c
  | ifc srt a b t e =>
    cases b with
    | some b =>
      simp only [FsStmt.embed, varI64, lookupInt_rel he]
      cases U.env.lookupInt a with
      | error _ => simp [StepRel, stuck]
      | ok x =>
        cases U.env.lookupInt b with
        | error _ => simp [StepRel, stuck]
        | ok y =>
          by_cases hc : compare srt x y = true
          · simpa only [hc, if_true] using goto_rel h t he
          · simpa only [hc, Bool.false_eq_true, if_false] using goto_rel h e he
    | none =>
      simp only [FsStmt.embed, varI64, lookupInt_rel he]
      cases U.env.lookupInt a with
      | error _ => simp [StepRel, stuck]
      | ok x =>
        by_cases hc : compare srt x 0 = true
        · simpa only [hc, if_true] using goto_rel h t he
        · simpa only [hc, Bool.false_eq_true, if_false] using goto_rel h e he
  | print nl a n =>
    simp only [FsStmt.embed, varI64, lookupInt_rel he]
    cases U.env.lookupInt a with
    | error _ => simp [StepRel, stuck]
    | ok x => simp only [StepRel, StRel]; exact ⟨trivial, he, by rw [ho]⟩
  | call f as =>
    simp only [FsStmt.embed, FsProg.embed]
    rw [find_def_embed q.defs (fun n => decide (n = f))]
    cases hd : q.defs.find? (fun d => decide (d.name = f)) with
    | none => simp [StepRel, stuck]
    | some d =>
      simp only [Option.map_some]
      have hl := lookupAll_rel he as
      cases h1 : F.env.lookupAll as <;> cases h2 : argVals U.env (ctxToArgs as) <;>
        simp only [h1, h2, ExRel] at hl ⊢
      · simp [StepRel, stuck, hl]
      · have hb := bind_rel ERel.nil d.ctx hl
        simp only [FsDef.embed]
        cases h3 : Env.bind ([] : FEnv) d.ctx _ <;> cases h4 : Env.bind ([] : CEnv) d.ctx _ <;>
          simp only [h3, h4, ExRel] at hb ⊢
        · simp [StepRel, stuck, hb]
        · exact goto_rel h d.body hb
  | exit a =>
    simp only [FsStmt.embed, varI64, lookupInt_rel he]
    cases U.env.lookupInt a <;> simp [StepRel, stuck]

theorem stepN_rel (q : FsProg) (fuel : Nat) {F : FsState} {U : State} (h : StRel F U) :
    stepN q.embed fuel U = fsStepN q fuel F := by
  induction fuel generalizing F U with
  | zero => simp [stepN, fsStepN, h.2.2]
  | succ n ih =>
    have hs := step_rel q h
    simp only [stepN, fsStepN]
    cases h1 : fsStep q F <;> cases h2 : step q.embed U <;> simp only [h1, h2, StepRel] at hs ⊢
    · exact ih hs
    · simp [hs, h.2.2]

theorem entryEnv_rel (ctx : Ctx) (args : List (BitVec 64)) :
    ExRel ERel (entryEnv ctx args : Except Why FEnv) (entryEnv ctx args : Except Why CEnv) := by
  induction ctx generalizing args with
  | nil => cases args <;> simp [entryEnv, ExRel, ERel.nil]
  | cons b bs ih =>
    cases hb : b.chi with
    | cns =>
      have := ih args
      simp only [entryEnv, hb]
      cases h1 : (entryEnv bs args : Except Why FEnv) <;>
        cases h2 : (entryEnv bs args : Except Why CEnv) <;> simp only [h1, h2, ExRel] at this ⊢
      · exact this
      · exact ERel.cons _ VRel.halt this
    | prd =>
      cases args with
      | nil => simp [entryEnv, hb, ExRel]
      | cons a as =>
        have := ih as
        simp only [entryEnv, hb]
        cases h1 : (entryEnv bs as : Except Why FEnv) <;>
          cases h2 : (entryEnv bs as : Except Why CEnv) <;> simp only [h1, h2, ExRel] at this ⊢
        · exact this
        · exact ERel.cons _ (VRel.int a) this

/-- the focused machine is the ς-machine on the embedded program, step for step -/
theorem run_embed (q : FsProg) (args : List (BitVec 64)) (fuel : Nat) :
    run q.embed args fuel = fsRun q args fuel := by
  unfold run fsRun
  simp only [FsProg.embed]
  rw [find_def_embed q.defs (fun n => decide (n.name = mainName))]
  cases hd : q.defs.find? (fun d => decide (d.name.name = mainName)) with
  | none => simp
  | some d =>
    simp only [Option.map_some, FsDef.embed]
    have := entryEnv_rel d.ctx args
    cases h1 : (entryEnv d.ctx args : Except Why FEnv) <;>
      cases h2 : (entryEnv d.ctx args : Except Why CEnv) <;> simp only [h1, h2, ExRel] at this ⊢
    · simp [this]
    · exact stepN_rel q fuel ⟨rfl, this, rfl⟩

end Scc.Core
