/-
  Scc.Core.ProofsScopeA — proof side of C03 "binders are distinct from every free name", part A:
  variable occurrences and free ids (by numeric id) of unfocused Core; substitution by variables
  only introduces the ids of its range; free ids are antitone in the bound set.
-/
import Scc.Core.ProofsUniqueB

namespace Scc.Core

theorem mem_unbound {bound l : List Nat} {i : Nat} : i ∈ unbound bound l ↔ i ∈ l ∧ i ∉ bound := by
  simp [unbound]

mutual
  /-- ids of all variable occurrences -/
  def Term.occIds : Term → List Nat
    | .var _ v _ => [v.id]
    | .lit _ => []
    | .op a _ b => a.occIds ++ b.occIds
    | .mu _ _ _ s => s.occIds
    | .xtor _ _ as _ => as.occIds
    | .xcase _ _ cl => cl.occIds
  def Args.occIds : Args → List Nat
    | .nil => []
    | .cons _ t r => t.occIds ++ r.occIds
  def Clauses.occIds : Clauses → List Nat
    | .nil => []
    | .cons _ _ b r => b.occIds ++ r.occIds
  def Stmt.occIds : Stmt → List Nat
    | .cut _ p c => p.occIds ++ c.occIds
    | .ifc _ a b t e => a.occIds ++ b.occIds ++ t.occIds ++ e.occIds
    | .ifz _ a t e => a.occIds ++ t.occIds ++ e.occIds
    | .print _ a n => a.occIds ++ n.occIds
    | .call _ as _ => as.occIds
    | .exit a _ => a.occIds
end

mutual
  /-- ids of the variable occurrences not bound by `bound` or an enclosing binder (by id) -/
  def Term.freeIds (bound : List Nat) : Term → List Nat
    | .var _ v _ => unbound bound [v.id]
    | .lit _ => []
    | .op a _ b => a.freeIds bound ++ b.freeIds bound
    | .mu _ v _ s => s.freeIds (v.id :: bound)
    | .xtor _ _ as _ => as.freeIds bound
    | .xcase _ _ cl => cl.freeIds bound
  def Args.freeIds (bound : List Nat) : Args → List Nat
    | .nil => []
    | .cons _ t r => t.freeIds bound ++ r.freeIds bound
  def Clauses.freeIds (bound : List Nat) : Clauses → List Nat
    | .nil => []
    | .cons _ ctx b r => b.freeIds (ctxIds ctx ++ bound) ++ r.freeIds bound
  def Stmt.freeIds (bound : List Nat) : Stmt → List Nat
    | .cut _ p c => p.freeIds bound ++ c.freeIds bound
    | .ifc _ a b t e => a.freeIds bound ++ b.freeIds bound ++ t.freeIds bound ++ e.freeIds bound
    | .ifz _ a t e => a.freeIds bound ++ t.freeIds bound ++ e.freeIds bound
    | .print _ a n => a.freeIds bound ++ n.freeIds bound
    | .call _ as _ => as.freeIds bound
    | .exit a _ => a.freeIds bound
end

/-! ## free ids shrink when more ids are bound -/

mutual
  theorem Term.freeIds_mono : (t : Term) → (B B' : List Nat) → (∀ x ∈ B, x ∈ B') →
      ∀ i ∈ t.freeIds B', i ∈ t.freeIds B
    | .var _ v _, B, B', h => by
      intro i; simp only [Term.freeIds, mem_unbound]; grind
    | .lit _, _, _, _ => by simp [Term.freeIds]
    | .op a _ b, B, B', h => by
      intro i; simp only [Term.freeIds, List.mem_append]
      have := Term.freeIds_mono a B B' h i; have := Term.freeIds_mono b B B' h i; grind
    | .mu _ v _ s, B, B', h => by
      intro i; simp only [Term.freeIds]
      exact Stmt.freeIds_mono s (v.id :: B) (v.id :: B') (by simp; grind) i
    | .xtor _ _ as _, B, B', h => by
      intro i; simp only [Term.freeIds]; exact Args.freeIds_mono as B B' h i
    | .xcase _ _ cl, B, B', h => by
      intro i; simp only [Term.freeIds]; exact Clauses.freeIds_mono cl B B' h i
  theorem Args.freeIds_mono : (as : Args) → (B B' : List Nat) → (∀ x ∈ B, x ∈ B') →
      ∀ i ∈ as.freeIds B', i ∈ as.freeIds B
    | .nil, _, _, _ => by simp [Args.freeIds]
    | .cons _ t r, B, B', h => by
      intro i; simp only [Args.freeIds, List.mem_append]
      have := Term.freeIds_mono t B B' h i; have := Args.freeIds_mono r B B' h i; grind
  theorem Clauses.freeIds_mono : (cl : Clauses) → (B B' : List Nat) → (∀ x ∈ B, x ∈ B') →
      ∀ i ∈ cl.freeIds B', i ∈ cl.freeIds B
    | .nil, _, _, _ => by simp [Clauses.freeIds]
    | .cons _ ctx b r, B, B', h => by
      intro i; simp only [Clauses.freeIds, List.mem_append]
      have := Stmt.freeIds_mono b (ctxIds ctx ++ B) (ctxIds ctx ++ B') (by simp; grind) i
      have := Clauses.freeIds_mono r B B' h i; grind
  theorem Stmt.freeIds_mono : (s : Stmt) → (B B' : List Nat) → (∀ x ∈ B, x ∈ B') →
      ∀ i ∈ s.freeIds B', i ∈ s.freeIds B
    | .cut _ p c, B, B', h => by
      intro i; simp only [Stmt.freeIds, List.mem_append]
      have := Term.freeIds_mono p B B' h i; have := Term.freeIds_mono c B B' h i; grind
    | .ifc _ a b t e, B, B', h => by
      intro i; simp only [Stmt.freeIds, List.mem_append]
      have := Term.freeIds_mono a B B' h i; have := Term.freeIds_mono b B B' h i
      have := Stmt.freeIds_mono t B B' h i; have := Stmt.freeIds_mono e B B' h i; grind
    | .ifz _ a t e, B, B', h => by
      intro i; simp only [Stmt.freeIds, List.mem_append]
      have := Term.freeIds_mono a B B' h i
      have := Stmt.freeIds_mono t B B' h i; have := Stmt.freeIds_mono e B B' h i; grind
    | .print _ a n, B, B', h => by
      intro i; simp only [Stmt.freeIds, List.mem_append]
      have := Term.freeIds_mono a B B' h i; have := Stmt.freeIds_mono n B B' h i; grind
    | .call _ as _, B, B', h => by
      intro i; simp only [Stmt.freeIds]; exact Args.freeIds_mono as B B' h i
    | .exit a _, B, B', h => by
      intro i; simp only [Stmt.freeIds]; exact Term.freeIds_mono a B B' h i
end

/-! ## occurrences after a substitution by variables -/

/-- ids of the variables in the range of a substitution -/
def Subst.rangeIds : Subst → List Nat
  | [] => []
  | (_, t) :: r => t.occIds ++ Subst.rangeIds r

theorem Subst.find_range {σ : Subst} {v : Ident} {t : Term} (hf : substFind σ v = some t) :
    ∀ i ∈ t.occIds, i ∈ σ.rangeIds := by
  induction σ with
  | nil => simp [substFind] at hf
  | cons e r ih =>
    obtain ⟨w, u⟩ := e
    simp only [substFind] at hf
    simp only [Subst.rangeIds, List.mem_append]
    split at hf
    · cases hf; exact fun i hi => Or.inl hi
    · exact fun i hi => Or.inr (ih hf i hi)

theorem Subst.remove_range (σ : Subst) (v : Ident) :
    ∀ i ∈ (substRemove σ v).rangeIds, i ∈ σ.rangeIds := by
  induction σ with
  | nil => simp [substRemove]
  | cons e r ih =>
    obtain ⟨w, u⟩ := e
    simp only [substRemove]
    split <;> simp only [Subst.rangeIds, List.mem_append] <;> grind

theorem Subst.removeCtx_range (σ : Subst) (c : Ctx) :
    ∀ i ∈ (substRemoveCtx σ c).rangeIds, i ∈ σ.rangeIds := by
  induction σ with
  | nil => simp [substRemoveCtx]
  | cons e r ih =>
    obtain ⟨w, u⟩ := e
    simp only [substRemoveCtx]
    split <;> simp only [Subst.rangeIds, List.mem_append] <;> grind

/-- `P i` holds for the occurrences of the original and for the range of the substitution -/
def OccSub (ps cs : Subst) (old : List Nat) (i : Nat) : Prop :=
  i ∈ old ∨ i ∈ ps.rangeIds ∨ i ∈ cs.rangeIds

mutual
  theorem occIds_substTerm (ps cs : Subst) :
      (t : Term) → ∀ i ∈ (substTerm ps cs t).occIds, OccSub ps cs t.occIds i
    | .var .prd v ty => by
      intro i; simp only [substTerm]
      split
      · intro h; exact Or.inl h
      · next h => intro hi; exact Or.inr (Or.inl (Subst.find_range h i hi))
    | .var .cns v ty => by
      intro i; simp only [substTerm]
      split
      · intro h; exact Or.inl h
      · next h => intro hi; exact Or.inr (Or.inr (Subst.find_range h i hi))
    | .lit n => by simp [substTerm, Term.occIds]
    | .op a o b => by
      intro i; simp only [substTerm, Term.occIds, List.mem_append, OccSub]
      have := occIds_substTerm ps cs a i; have := occIds_substTerm ps cs b i
      unfold OccSub at *; grind
    | .mu pc v ty s => by
      intro i; simp only [substTerm, Term.occIds]
      have := occIds_substStmt (substRemove ps v) (substRemove cs v) s i
      have := Subst.remove_range ps v i; have := Subst.remove_range cs v i
      unfold OccSub at *; grind
    | .xtor pc n as ty => by
      intro i; simp only [substTerm, Term.occIds]; exact occIds_substArgs ps cs as i
    | .xcase pc ty cl => by
      intro i; simp only [substTerm, Term.occIds]; exact occIds_substClauses ps cs cl i
  theorem occIds_substArgs (ps cs : Subst) :
      (as : Args) → ∀ i ∈ (substArgs ps cs as).occIds, OccSub ps cs as.occIds i
    | .nil => by simp [substArgs, Args.occIds]
    | .cons pc t r => by
      intro i; simp only [substArgs, Args.occIds, List.mem_append]
      have := occIds_substTerm ps cs t i; have := occIds_substArgs ps cs r i
      unfold OccSub at *; grind
  theorem occIds_substClauses (ps cs : Subst) :
      (cl : Clauses) → ∀ i ∈ (substClauses ps cs cl).occIds, OccSub ps cs cl.occIds i
    | .nil => by simp [substClauses, Clauses.occIds]
    | .cons x ctx b r => by
      intro i; simp only [substClauses, Clauses.occIds, List.mem_append]
      have := occIds_substStmt (substRemoveCtx ps ctx) (substRemoveCtx cs ctx) b i
      have := Subst.removeCtx_range ps ctx i; have := Subst.removeCtx_range cs ctx i
      have := occIds_substClauses ps cs r i
      unfold OccSub at *; grind
  theorem occIds_substStmt (ps cs : Subst) :
      (s : Stmt) → ∀ i ∈ (substStmt ps cs s).occIds, OccSub ps cs s.occIds i
    | .cut ty p c => by
      intro i; simp only [substStmt, Stmt.occIds, List.mem_append]
      have := occIds_substTerm ps cs p i; have := occIds_substTerm ps cs c i
      unfold OccSub at *; grind
    | .ifc srt a b t e => by
      intro i; simp only [substStmt, Stmt.occIds, List.mem_append]
      have := occIds_substTerm ps cs a i; have := occIds_substTerm ps cs b i
      have := occIds_substStmt ps cs t i; have := occIds_substStmt ps cs e i
      unfold OccSub at *; grind
    | .ifz srt a t e => by
      intro i; simp only [substStmt, Stmt.occIds, List.mem_append]
      have := occIds_substTerm ps cs a i
      have := occIds_substStmt ps cs t i; have := occIds_substStmt ps cs e i
      unfold OccSub at *; grind
    | .print nl a n => by
      intro i; simp only [substStmt, Stmt.occIds, List.mem_append]
      have := occIds_substTerm ps cs a i; have := occIds_substStmt ps cs n i
      unfold OccSub at *; grind
    | .call f as ty => by
      intro i; simp only [substStmt, Stmt.occIds]; exact occIds_substArgs ps cs as i
    | .exit a ty => by
      intro i; simp only [substStmt, Stmt.occIds]; exact occIds_substTerm ps cs a i
end

theorem occIds_substIfAny (ps cs : Subst) (s : Stmt) :
    ∀ i ∈ (substIfAny ps cs s).occIds, OccSub ps cs s.occIds i := by
  unfold substIfAny; split
  · exact fun i hi => Or.inl hi
  · exact occIds_substStmt ps cs s

theorem uniquifyCtx_range (c : Ctx) (n : Nat) :
    (∀ i ∈ (uniquifyCtx c n).varSubst.rangeIds, i ∈ ctxIds (uniquifyCtx c n).ctx) ∧
    (∀ i ∈ (uniquifyCtx c n).covarSubst.rangeIds, i ∈ ctxIds (uniquifyCtx c n).ctx) := by
  induction c generalizing n with
  | nil => simp [uniquifyCtx, Subst.rangeIds]
  | cons b r ih =>
    simp only [uniquifyCtx, freshIdentifier]
    split
    · have := ih (n + 1)
      split <;> simp only [Subst.rangeIds, Term.occIds, ctxIds, List.map_cons, List.mem_append,
        List.mem_cons] at * <;> grind
    · have := ih n
      simp only [ctxIds, List.map_cons, List.mem_cons] at *
      grind

end Scc.Core
