/-
  Scc.Core.ProofsAlphaC — focusing respects α-equivalence and does not depend on the name counter:
      dbS sc s = dbS sc' s'  →  dbS sc (focus s n) = dbS sc' (focus s' n')
  whenever the counters `n`, `n'` are above the generated names occurring in `s`, `s'`
  (`focusStmt_cong`).  The statement for `bind` is relative to continuations that themselves respect
  α-equivalence in every extension of the scope by generated names (`KCong`).
-/
import Scc.Core.ProofsAlphaB

namespace Scc.Core

def xN (n : Nat) : Ident := ⟨"x", n + 1⟩
def aN (n : Nat) : Ident := ⟨"a", n + 1⟩

/-! ## `focus`/`bind` equations in projection form -/

theorem focusTerm_mu_eq (pc : PC) (v : Ident) (ty : Ty) (s : Stmt) (n : Nat) :
    focusTerm (.mu pc v ty s) n = (.mu pc v ty (focusStmt s n).1, (focusStmt s n).2) := rfl

theorem focusTerm_xcase_eq (pc : PC) (ty : Ty) (cl : Clauses) (n : Nat) :
    focusTerm (.xcase pc ty cl) n = (.xcase pc ty (focusClauses cl n).1, (focusClauses cl n).2) := rfl

theorem focusClauses_cons_eq (x : Ident) (ctx : Ctx) (b : Stmt) (r : Clauses) (n : Nat) :
    focusClauses (.cons x ctx b r) n =
      (.cons x ctx (focusStmt b n).1 (focusClauses r (focusStmt b n).2).1,
        (focusClauses r (focusStmt b n).2).2) := rfl

theorem bindTerm_lit_eq (i : Int) (k : Cont) (n : Nat) :
    bindTerm (.lit i) k n =
      (.cut .i64 (.lit i) (.mu .cns (xN n) .i64 (k ⟨xN n, .prd, .i64⟩ (n + 1)).1),
        (k ⟨xN n, .prd, .i64⟩ (n + 1)).2) := rfl

/-- continuation of the second operand of an operator -/
def kOp2 (b1 : Binding) (o : BinOp) (k : Cont) : Cont := fun b2 n2 =>
  (.cut .i64 (.op b1.var o b2.var) (.mu .cns (xN n2) .i64 (k ⟨xN n2, .prd, .i64⟩ (n2 + 1)).1),
    (k ⟨xN n2, .prd, .i64⟩ (n2 + 1)).2)

theorem bindTerm_op_eq (a b : Term) (o : BinOp) (k : Cont) (n : Nat) :
    bindTerm (.op a o b) k n = bindTerm a (fun b1 n1 => bindTerm b (kOp2 b1 o k) n1) n := rfl

theorem bindTerm_muP_eq (v : Ident) (ty : Ty) (s : Stmt) (k : Cont) (n : Nat) :
    bindTerm (.mu .prd v ty s) k n =
      (.cut ty (.mu .prd v ty (focusStmt s (n + 1)).1)
          (.mu .cns (xN n) ty (k ⟨xN n, .prd, ty⟩ (focusStmt s (n + 1)).2).1),
        (k ⟨xN n, .prd, ty⟩ (focusStmt s (n + 1)).2).2) := rfl

theorem bindTerm_muC_eq (v : Ident) (ty : Ty) (s : Stmt) (k : Cont) (n : Nat) :
    bindTerm (.mu .cns v ty s) k n =
      (.cut ty (.mu .prd (aN n) ty (k ⟨aN n, .cns, ty⟩ (n + 1)).1)
          (.mu .cns v ty (focusStmt s (k ⟨aN n, .cns, ty⟩ (n + 1)).2).1),
        (focusStmt s (k ⟨aN n, .cns, ty⟩ (n + 1)).2).2) := rfl

def kXtorP (name : Ident) (ty : Ty) (k : Cont) : ContVec := fun bs n =>
  (.cut ty (.xtor .prd name bs ty) (.mu .cns (xN n) ty (k ⟨xN n, .prd, ty⟩ (n + 1)).1),
    (k ⟨xN n, .prd, ty⟩ (n + 1)).2)

def kXtorC (name : Ident) (ty : Ty) (k : Cont) : ContVec := fun bs n =>
  (.cut ty (.mu .prd (aN n) ty (k ⟨aN n, .cns, ty⟩ (n + 1)).1) (.xtor .cns name bs ty),
    (k ⟨aN n, .cns, ty⟩ (n + 1)).2)

theorem bindTerm_xtorP_eq (name : Ident) (as : Args) (ty : Ty) (k : Cont) (n : Nat) :
    bindTerm (.xtor .prd name as ty) k n = bindMany as (kXtorP name ty k) n := rfl

theorem bindTerm_xtorC_eq (name : Ident) (as : Args) (ty : Ty) (k : Cont) (n : Nat) :
    bindTerm (.xtor .cns name as ty) k n = bindMany as (kXtorC name ty k) n := rfl

theorem bindTerm_xcaseP_eq (ty : Ty) (cl : Clauses) (k : Cont) (n : Nat) :
    bindTerm (.xcase .prd ty cl) k n =
      (.cut ty (.xcase .prd ty (focusClauses cl (k ⟨xN n, .prd, ty⟩ (n + 1)).2).1)
          (.mu .cns (xN n) ty (k ⟨xN n, .prd, ty⟩ (n + 1)).1),
        (focusClauses cl (k ⟨xN n, .prd, ty⟩ (n + 1)).2).2) := rfl

theorem bindTerm_xcaseC_eq (ty : Ty) (cl : Clauses) (k : Cont) (n : Nat) :
    bindTerm (.xcase .cns ty cl) k n =
      (.cut ty (.mu .prd (aN n) ty (k ⟨aN n, .cns, ty⟩ (n + 1)).1)
          (.xcase .cns ty (focusClauses cl (k ⟨aN n, .cns, ty⟩ (n + 1)).2).1),
        (focusClauses cl (k ⟨aN n, .cns, ty⟩ (n + 1)).2).2) := rfl

theorem bindMany_cons_eq (pc : PC) (t : Term) (r : Args) (k : ContVec) (n : Nat) :
    bindMany (.cons pc t r) k n =
      bindTerm t (fun b n1 => bindMany r (fun bs n2 => k (b :: bs) n2) n1) n := rfl

def kCut1 (ty : Ty) (pc : PC) (name : Ident) (c : Term) : ContVec := fun bs n =>
  (.cut ty (.xtor pc name bs ty) (focusTerm c n).1, (focusTerm c n).2)

def kCut2 (ty : Ty) (p : Term) (dpc : PC) (name : Ident) : ContVec := fun bs n =>
  (.cut ty (focusTerm p n).1 (.xtor dpc name bs ty), (focusTerm p n).2)

def kCut3 (ty : Ty) (b1 : Binding) (o : BinOp) (c : Term) : Cont := fun b2 n =>
  (.cut ty (.op b1.var o b2.var) (focusTerm c n).1, (focusTerm c n).2)

theorem focusStmt_cut1_eq (ty : Ty) (pc : PC) (name : Ident) (as : Args) (t1 : Ty) (c : Term)
    (n : Nat) :
    focusStmt (.cut ty (.xtor pc name as t1) c) n = bindMany as (kCut1 ty pc name c) n := rfl

theorem focusStmt_cut2_eq (ty : Ty) (p : Term) (dpc : PC) (name : Ident) (as : Args) (t1 : Ty)
    (n : Nat) (hnx : ∀ pc name as ty, p = .xtor pc name as ty → False) :
    focusStmt (.cut ty p (.xtor dpc name as t1)) n = bindMany as (kCut2 ty p dpc name) n := by
  rw [focusStmt.eq_2 _ _ _ _ _ _ _ hnx]; rfl

theorem focusStmt_cut3_eq (ty : Ty) (a : Term) (o : BinOp) (b c : Term) (n : Nat)
    (hnx : ∀ dpc name as ty, c = .xtor dpc name as ty → False) :
    focusStmt (.cut ty (.op a o b) c) n =
      bindTerm a (fun b1 n1 => bindTerm b (kCut3 ty b1 o c) n1) n := by
  rw [focusStmt.eq_3 _ _ _ _ _ _ hnx]; rfl

theorem focusStmt_cut4_eq (ty : Ty) (p c : Term) (n : Nat)
    (hnp : ∀ pc name as ty, p = .xtor pc name as ty → False)
    (hnc : ∀ dpc name as ty, c = .xtor dpc name as ty → False)
    (hnop : ∀ a o b, p = .op a o b → False) :
    focusStmt (.cut ty p c) n =
      (.cut ty (focusTerm p n).1 (focusTerm c (focusTerm p n).2).1,
        (focusTerm c (focusTerm p n).2).2) := by
  rw [focusStmt.eq_4 _ _ _ _ hnp hnc hnop]

def kIfc (srt : IfSort) (b1 : Binding) (t e : Stmt) : Cont := fun b2 n2 =>
  (.ifc srt b1.var (some b2.var) (focusStmt t n2).1 (focusStmt e (focusStmt t n2).2).1,
    (focusStmt e (focusStmt t n2).2).2)

def kIfz (srt : IfSort) (t e : Stmt) : Cont := fun b1 n2 =>
  (.ifc srt b1.var none (focusStmt t n2).1 (focusStmt e (focusStmt t n2).2).1,
    (focusStmt e (focusStmt t n2).2).2)

def kPrint (nl : Bool) (nx : Stmt) : Cont := fun b n =>
  (.print nl b.var (focusStmt nx n).1, (focusStmt nx n).2)

def kCall (f : Ident) : ContVec := fun bs n => (.call f bs, n)

def kExit : Cont := fun b n => (.exit b.var, n)

theorem focusStmt_ifc_eq (srt : IfSort) (a b : Term) (t e : Stmt) (n : Nat) :
    focusStmt (.ifc srt a b t e) n =
      bindTerm a (fun b1 n1 => bindTerm b (kIfc srt b1 t e) n1) n := rfl

theorem focusStmt_ifz_eq (srt : IfSort) (a : Term) (t e : Stmt) (n : Nat) :
    focusStmt (.ifz srt a t e) n = bindTerm a (kIfz srt t e) n := rfl

theorem focusStmt_print_eq (nl : Bool) (a : Term) (nx : Stmt) (n : Nat) :
    focusStmt (.print nl a nx) n = bindTerm a (kPrint nl nx) n := rfl

theorem focusStmt_call_eq (f : Ident) (as : Args) (ty : Ty) (n : Nat) :
    focusStmt (.call f as ty) n = bindMany as (kCall f) n := rfl

theorem focusStmt_exit_eq (a : Term) (ty : Ty) (n : Nat) :
    focusStmt (.exit a ty) n = bindTerm a kExit n := rfl

/-! ## continuations that respect α-equivalence -/

/-- the generated names pushed on the scope between counter `n` and counter `m` -/
def ExtOK (n m : Nat) (ext : List Ident) : Prop := ∀ i ∈ ext, Gen n i ∧ ¬ Gen m i

theorem ExtOK.nil (n m : Nat) : ExtOK n m [] := by simp [ExtOK]

theorem ExtOK.append {n m1 m2 : Nat} {e1 e2 : List Ident} (h1 : ExtOK n m1 e1) (h2 : ExtOK m1 m2 e2)
    (hn : n ≤ m1) (hm : m1 ≤ m2) : ExtOK n m2 (e2 ++ e1) := by
  intro i hi
  rcases List.mem_append.mp hi with hi | hi
  · exact ⟨(h2 i hi).1.mono hn, (h2 i hi).2⟩
  · exact ⟨(h1 i hi).1, fun hg => (h1 i hi).2 (hg.mono hm)⟩

theorem ExtOK.consX {n m j : Nat} {e : List Ident} (h : ExtOK n j e) (hn : n ≤ j) (hm : j < m) :
    ExtOK n m (xN j :: e) := by
  intro i hi
  rcases List.mem_cons.mp hi with rfl | hi
  · exact ⟨gen_x n j hn, fun hg => by have := hg.2; simp [xN] at this; omega⟩
  · exact ⟨(h i hi).1, fun hg => (h i hi).2 (hg.mono (by omega))⟩

theorem ExtOK.consA {n m j : Nat} {e : List Ident} (h : ExtOK n j e) (hn : n ≤ j) (hm : j < m) :
    ExtOK n m (aN j :: e) := by
  intro i hi
  rcases List.mem_cons.mp hi with rfl | hi
  · exact ⟨gen_a n j hn, fun hg => by have := hg.2; simp [aN] at this; omega⟩
  · exact ⟨(h i hi).1, fun hg => (h i hi).2 (hg.mono (by omega))⟩

/-- names generated after `m` do not occur in a list that is fresh for `n ≤ m` … -/
theorem ExtOK.not_mem {n m : Nat} {ext : List Ident} (h : ExtOK n m ext) {l : List Ident}
    (hl : FreshL n l) : ∀ y ∈ ext, y ∉ l := fun y hy hyl => hl y hyl (h y hy).1

structure KCong (n n' : Nat) (sc sc' : List Ident) (k k' : Cont) : Prop where
  mono : MonoK k
  mono' : MonoK k'
  cong : ∀ ext ext' b b' m m', n ≤ m → n' ≤ m' → ext.length = ext'.length →
    ExtOK n m ext → ExtOK n' m' ext' → b.chi = b'.chi → ¬ Gen m b.var → ¬ Gen m' b'.var →
    dbVar (ext ++ sc) b.var = dbVar (ext' ++ sc') b'.var →
    dbS (ext ++ sc) (k b m).1.embed = dbS (ext' ++ sc') (k' b' m').1.embed

structure KCongV (n n' : Nat) (sc sc' : List Ident) (k k' : ContVec) : Prop where
  mono : MonoKV k
  mono' : MonoKV k'
  cong : ∀ ext ext' bs bs' m m', n ≤ m → n' ≤ m' → ext.length = ext'.length →
    ExtOK n m ext → ExtOK n' m' ext' → (∀ b ∈ bs, ¬ Gen m b.var) → (∀ b ∈ bs', ¬ Gen m' b.var) →
    dbA (ext ++ sc) (ctxToArgs bs) = dbA (ext' ++ sc') (ctxToArgs bs') →
    dbS (ext ++ sc) (k bs m).1.embed = dbS (ext' ++ sc') (k' bs' m').1.embed

theorem dbVar_head (x : Ident) (sc : List Ident) : dbVar (x :: sc) x = .bound 0 := by
  simp [dbVar]

/-- `k` under the fresh binder `x_j`, called at a later counter `m` -/
theorem KCong.underX {n n' sc sc' k k'} (hk : KCong n n' sc sc' k k') {ext ext' : List Ident}
    {j j' m m' : Nat} (hn : n ≤ j) (hn' : n' ≤ j') (hm : j < m) (hm' : j' < m')
    (hl : ext.length = ext'.length) (he : ExtOK n j ext) (he' : ExtOK n' j' ext') (ty ty' : Ty) :
    dbS (xN j :: (ext ++ sc)) (k ⟨xN j, .prd, ty⟩ m).1.embed =
      dbS (xN j' :: (ext' ++ sc')) (k' ⟨xN j', .prd, ty'⟩ m').1.embed := by
  have := hk.cong (xN j :: ext) (xN j' :: ext') ⟨xN j, .prd, ty⟩ ⟨xN j', .prd, ty'⟩ m m'
    (by omega) (by omega) (by simp [hl]) (he.consX hn hm) (he'.consX hn' hm') rfl
    (fun hg => by have := hg.2; simp [xN] at this; omega)
    (fun hg => by have := hg.2; simp [xN] at this; omega)
    (by simp [dbVar_head])
  simpa using this

theorem KCong.underA {n n' sc sc' k k'} (hk : KCong n n' sc sc' k k') {ext ext' : List Ident}
    {j j' m m' : Nat} (hn : n ≤ j) (hn' : n' ≤ j') (hm : j < m) (hm' : j' < m')
    (hl : ext.length = ext'.length) (he : ExtOK n j ext) (he' : ExtOK n' j' ext') (ty ty' : Ty) :
    dbS (aN j :: (ext ++ sc)) (k ⟨aN j, .cns, ty⟩ m).1.embed =
      dbS (aN j' :: (ext' ++ sc')) (k' ⟨aN j', .cns, ty'⟩ m').1.embed := by
  have := hk.cong (aN j :: ext) (aN j' :: ext') ⟨aN j, .cns, ty⟩ ⟨aN j', .cns, ty'⟩ m m'
    (by omega) (by omega) (by simp [hl]) (he.consA hn hm) (he'.consA hn' hm') rfl
    (fun hg => by have := hg.2; simp [aN] at this; omega)
    (fun hg => by have := hg.2; simp [aN] at this; omega)
    (by simp [dbVar_head])
  simpa using this

end Scc.Core
