/-
  Scc.Core.Syntax — the Core language (unfocused) and focused Core (Fs*), as in
  /repo/lang/core_lang/src/syntax/**, with reader/writer for the S-expression dump format of
  /verif/harness/src/dump_core.rs.   Core imports only; executable.

  Representation notes:
  * Rust's `Term<Prd>` / `Term<Cns>` (chirality as a type parameter, `prdcns` field) is one type
    `Term` whose binder-like constructors carry an explicit `PC` flag; in the dump the chirality is
    implied by the position, so the reader takes the expected chirality as an argument;
  * `Option<Rc<Term>>` in `IfC` is split into two constructors `ifc` (two operands) and `ifz`
    (comparison with zero) to keep the mutual inductive non-nested;
  * `Vec<Argument>` / `Vec<Clause>` are dedicated list types `Args` / `Clauses`.
-/
import Scc.Sexp

namespace Scc.Core

structure Ident where
  name : String
  id : Nat
  deriving DecidableEq, Repr, BEq, Inhabited, Hashable

inductive Ty where
  | i64
  | decl (name : Ident)
  deriving DecidableEq, Repr, BEq, Inhabited

/-- chirality -/
inductive PC where
  | prd | cns
  deriving DecidableEq, Repr, BEq, Inhabited

structure Binding where
  var : Ident
  chi : PC
  ty : Ty
  deriving DecidableEq, Repr, BEq, Inhabited

abbrev Ctx := List Binding

inductive BinOp where
  | div | prod | rem | sum | sub
  deriving DecidableEq, Repr, BEq, Inhabited

inductive IfSort where
  | eq | ne | lt | le | gt | ge
  deriving DecidableEq, Repr, BEq, Inhabited

structure XtorSig where
  name : Ident
  args : Ctx
  deriving Repr, BEq, Inhabited, DecidableEq

structure TypeDecl where
  name : Ident
  xtors : List XtorSig
  deriving Repr, BEq, Inhabited, DecidableEq

/-! ## unfocused Core -/

mutual
  inductive Term where
    | var (pc : PC) (v : Ident) (ty : Ty)
    | lit (n : Int)
    | op (fst : Term) (o : BinOp) (snd : Term)
    | mu (pc : PC) (v : Ident) (ty : Ty) (s : Stmt)          -- pc = prd: μ binding a covariable
    | xtor (pc : PC) (name : Ident) (args : Args) (ty : Ty)  -- prd: constructor, cns: destructor
    | xcase (pc : PC) (ty : Ty) (clauses : Clauses)          -- prd: cocase/new, cns: case
  inductive Args where
    | nil
    | cons (pc : PC) (t : Term) (rest : Args)
  inductive Clauses where
    | nil
    | cons (xtor : Ident) (ctx : Ctx) (body : Stmt) (rest : Clauses)
  inductive Stmt where
    | cut (ty : Ty) (p : Term) (c : Term)
    | ifc (sort : IfSort) (fst : Term) (snd : Term) (thenc : Stmt) (elsec : Stmt)
    | ifz (sort : IfSort) (fst : Term) (thenc : Stmt) (elsec : Stmt)
    | print (newline : Bool) (arg : Term) (next : Stmt)
    | call (name : Ident) (args : Args) (ty : Ty)
    | exit (arg : Term) (ty : Ty)
end

instance : Inhabited Term := ⟨.lit 0⟩
instance : Inhabited Stmt := ⟨.exit (.lit 0) .i64⟩

def Args.toList : Args → List (PC × Term)
  | .nil => []
  | .cons pc t r => (pc, t) :: r.toList

def Args.ofList : List (PC × Term) → Args
  | [] => .nil
  | (pc, t) :: r => .cons pc t (Args.ofList r)

structure Clause where
  xtor : Ident
  ctx : Ctx
  body : Stmt

def Clauses.toList : Clauses → List Clause
  | .nil => []
  | .cons x c b r => ⟨x, c, b⟩ :: r.toList

def Clauses.ofList : List Clause → Clauses
  | [] => .nil
  | c :: cs => .cons c.xtor c.ctx c.body (Clauses.ofList cs)

structure Def where
  name : Ident
  ctx : Ctx
  body : Stmt

structure Prog where
  defs : List Def
  dataTypes : List TypeDecl
  codataTypes : List TypeDecl
  maxId : Nat

/-! ## focused Core -/

mutual
  inductive FsTerm where
    | var (pc : PC) (v : Ident) (ty : Ty)
    | lit (n : Int)
    | op (fst : Ident) (o : BinOp) (snd : Ident)
    | mu (pc : PC) (v : Ident) (ty : Ty) (s : FsStmt)
    | xtor (pc : PC) (name : Ident) (args : Ctx) (ty : Ty)
    | xcase (pc : PC) (ty : Ty) (clauses : FsClauses)
  inductive FsClauses where
    | nil
    | cons (xtor : Ident) (ctx : Ctx) (body : FsStmt) (rest : FsClauses)
  inductive FsStmt where
    | cut (ty : Ty) (p : FsTerm) (c : FsTerm)
    | ifc (sort : IfSort) (fst : Ident) (snd : Option Ident) (thenc : FsStmt) (elsec : FsStmt)
    | print (newline : Bool) (arg : Ident) (next : FsStmt)
    | call (name : Ident) (args : Ctx)
    | exit (arg : Ident)
end

instance : Inhabited FsTerm := ⟨.lit 0⟩
instance : Inhabited FsStmt := ⟨.exit default⟩

structure FsClause where
  xtor : Ident
  ctx : Ctx
  body : FsStmt

def FsClauses.toList : FsClauses → List FsClause
  | .nil => []
  | .cons x c b r => ⟨x, c, b⟩ :: r.toList

def FsClauses.ofList : List FsClause → FsClauses
  | [] => .nil
  | c :: cs => .cons c.xtor c.ctx c.body (FsClauses.ofList cs)

structure FsDef where
  name : Ident
  ctx : Ctx
  body : FsStmt

structure FsProg where
  defs : List FsDef
  dataTypes : List TypeDecl
  codataTypes : List TypeDecl
  maxId : Nat

/-! ## writer -/

section
open Sexp

def Ident.toSexp (i : Ident) : Sexp := node "id" [.str i.name, nat i.id]

def Ty.toSexp : Ty → Sexp
  | .i64 => .atom "i64"
  | .decl n => node "ty" [n.toSexp]

def PC.toSexp : PC → Sexp
  | .prd => .atom "prd" | .cns => .atom "cns"

def Binding.toSexp (b : Binding) : Sexp := node "b" [b.var.toSexp, b.chi.toSexp, b.ty.toSexp]

def ctxToSexp (c : Ctx) : Sexp := node "ctx" (c.map Binding.toSexp)

def BinOp.sym : BinOp → String
  | .div => "/" | .prod => "*" | .rem => "%" | .sum => "+" | .sub => "-"

def IfSort.sym : IfSort → String
  | .eq => "eq" | .ne => "ne" | .lt => "lt" | .le => "le" | .gt => "gt" | .ge => "ge"

def TypeDecl.toSexp (d : TypeDecl) : Sexp :=
  node "type" (d.name.toSexp :: d.xtors.map fun x => node "xtor" [x.name.toSexp, ctxToSexp x.args])

mutual
  def Term.toSexp : Term → Sexp
    | .var _ v t => node "var" [v.toSexp, t.toSexp]
    | .lit n => node "lit" [int n]
    | .op a o b => node "op" [.atom o.sym, a.toSexp, b.toSexp]
    | .mu _ v t s => node "mu" [v.toSexp, t.toSexp, s.toSexp]
    | .xtor _ n a t => node "xtor" [n.toSexp, node "args" a.toSexps, t.toSexp]
    | .xcase _ t cs => node "xcase" (t.toSexp :: cs.toSexps)
  def Args.toSexps : Args → List Sexp
    | .nil => []
    | .cons .prd t r => node "prd" [t.toSexp] :: r.toSexps
    | .cons .cns t r => node "cns" [t.toSexp] :: r.toSexps
  def Clauses.toSexps : Clauses → List Sexp
    | .nil => []
    | .cons x c b r => node "clause" [x.toSexp, ctxToSexp c, b.toSexp] :: r.toSexps
  def Stmt.toSexp : Stmt → Sexp
    | .cut t p c => node "cut" [t.toSexp, p.toSexp, c.toSexp]
    | .ifc s a b t e => node "ifc" [.atom s.sym, a.toSexp, b.toSexp, t.toSexp, e.toSexp]
    | .ifz s a t e => node "ifc" [.atom s.sym, a.toSexp, .atom "none", t.toSexp, e.toSexp]
    | .print nl a n => node "print" [.atom (if nl then "nl" else "nonl"), a.toSexp, n.toSexp]
    | .call n a t => node "call" [n.toSexp, node "args" a.toSexps, t.toSexp]
    | .exit a t => node "exit" [a.toSexp, t.toSexp]
end

def Prog.toSexp (p : Prog) : Sexp :=
  node "prog" [nat p.maxId, node "datas" (p.dataTypes.map TypeDecl.toSexp),
    node "codatas" (p.codataTypes.map TypeDecl.toSexp),
    node "defs" (p.defs.map fun d => node "def" [d.name.toSexp, ctxToSexp d.ctx, d.body.toSexp])]

def optIdent : Option Ident → Sexp
  | none => .atom "none"
  | some i => i.toSexp

mutual
  def FsTerm.toSexp : FsTerm → Sexp
    | .var _ v t => node "var" [v.toSexp, t.toSexp]
    | .lit n => node "lit" [int n]
    | .op a o b => node "op" [.atom o.sym, a.toSexp, b.toSexp]
    | .mu _ v t s => node "mu" [v.toSexp, t.toSexp, s.toSexp]
    | .xtor _ n a t => node "xtor" [n.toSexp, ctxToSexp a, t.toSexp]
    | .xcase _ t cs => node "xcase" (t.toSexp :: cs.toSexps)
  def FsClauses.toSexps : FsClauses → List Sexp
    | .nil => []
    | .cons x c b r => node "clause" [x.toSexp, ctxToSexp c, b.toSexp] :: r.toSexps
  def FsStmt.toSexp : FsStmt → Sexp
    | .cut t p c => node "cut" [t.toSexp, p.toSexp, c.toSexp]
    | .ifc s a b t e => node "ifc" [.atom s.sym, a.toSexp, optIdent b, t.toSexp, e.toSexp]
    | .print nl a n => node "print" [.atom (if nl then "nl" else "nonl"), a.toSexp, n.toSexp]
    | .call n a => node "call" [n.toSexp, ctxToSexp a]
    | .exit a => node "exit" [a.toSexp]
end

def FsProg.toSexp (p : FsProg) : Sexp :=
  node "fsprog" [nat p.maxId, node "datas" (p.dataTypes.map TypeDecl.toSexp),
    node "codatas" (p.codataTypes.map TypeDecl.toSexp),
    node "defs" (p.defs.map fun d => node "def" [d.name.toSexp, ctxToSexp d.ctx, d.body.toSexp])]

end

/-! ## reader -/

def readIdent (s : Sexp) : Option Ident :=
  match s.tagged "id" with
  | some [n, i] => do pure ⟨← n.asStr, ← i.asNat⟩
  | _ => none

def readTy : Sexp → Option Ty
  | .atom "i64" => some .i64
  | s => match s.tagged "ty" with
    | some [n] => do pure (.decl (← readIdent n))
    | _ => none

def readPC : Sexp → Option PC
  | .atom "prd" => some .prd
  | .atom "cns" => some .cns
  | _ => none

def readBinding (s : Sexp) : Option Binding :=
  match s.tagged "b" with
  | some [v, c, t] => do pure ⟨← readIdent v, ← readPC c, ← readTy t⟩
  | _ => none

def readCtx (s : Sexp) : Option Ctx := do
  let items ← s.tagged "ctx"
  items.mapM readBinding

def readBinOp : Sexp → Option BinOp
  | .atom "/" => some .div | .atom "*" => some .prod | .atom "%" => some .rem
  | .atom "+" => some .sum | .atom "-" => some .sub | _ => none

def readIfSort : Sexp → Option IfSort
  | .atom "eq" => some .eq | .atom "ne" => some .ne | .atom "lt" => some .lt
  | .atom "le" => some .le | .atom "gt" => some .gt | .atom "ge" => some .ge | _ => none

def readTypeDecl (s : Sexp) : Option TypeDecl :=
  match s.tagged "type" with
  | some (n :: xs) => do
    let xtors ← xs.mapM fun x =>
      match x.tagged "xtor" with
      | some [xn, a] => do pure (⟨← readIdent xn, ← readCtx a⟩ : XtorSig)
      | _ => none
    pure ⟨← readIdent n, xtors⟩
  | _ => none

mutual
  /-- `pc` = chirality expected at this position -/
  def readTerm : Nat → PC → Sexp → Option Term
    | 0, _, _ => none
    | fuel + 1, pc, s =>
      match s.headOf with
      | some ("var", [v, t]) => do pure (.var pc (← readIdent v) (← readTy t))
      | some ("lit", [n]) => do pure (.lit (← n.asInt))
      | some ("op", [o, a, b]) => do
        pure (.op (← readTerm fuel .prd a) (← readBinOp o) (← readTerm fuel .prd b))
      | some ("mu", [v, t, st]) => do pure (.mu pc (← readIdent v) (← readTy t) (← readStmt fuel st))
      | some ("xtor", [n, a, t]) => do
        pure (.xtor pc (← readIdent n) (← readArgs fuel (← a.tagged "args")) (← readTy t))
      | some ("xcase", t :: cs) => do pure (.xcase pc (← readTy t) (← readClauses fuel cs))
      | _ => none
  def readArgs : Nat → List Sexp → Option Args
    | 0, _ => none
    | _, [] => some .nil
    | fuel + 1, a :: as =>
      match a.headOf with
      | some ("prd", [t]) => do pure (.cons .prd (← readTerm fuel .prd t) (← readArgs fuel as))
      | some ("cns", [t]) => do pure (.cons .cns (← readTerm fuel .cns t) (← readArgs fuel as))
      | _ => none
  def readClauses : Nat → List Sexp → Option Clauses
    | 0, _ => none
    | _, [] => some .nil
    | fuel + 1, c :: cs =>
      match c.tagged "clause" with
      | some [x, ctx, b] => do
        pure (.cons (← readIdent x) (← readCtx ctx) (← readStmt fuel b) (← readClauses fuel cs))
      | _ => none
  def readStmt : Nat → Sexp → Option Stmt
    | 0, _ => none
    | fuel + 1, s =>
      match s.headOf with
      | some ("cut", [t, p, c]) => do
        pure (.cut (← readTy t) (← readTerm fuel .prd p) (← readTerm fuel .cns c))
      | some ("ifc", [srt, a, .atom "none", t, e]) => do
        pure (.ifz (← readIfSort srt) (← readTerm fuel .prd a) (← readStmt fuel t) (← readStmt fuel e))
      | some ("ifc", [srt, a, b, t, e]) => do
        pure (.ifc (← readIfSort srt) (← readTerm fuel .prd a) (← readTerm fuel .prd b)
          (← readStmt fuel t) (← readStmt fuel e))
      | some ("print", [nl, a, n]) => do
        pure (.print ((← nl.asAtom) == "nl") (← readTerm fuel .prd a) (← readStmt fuel n))
      | some ("call", [n, a, t]) => do
        pure (.call (← readIdent n) (← readArgs fuel (← a.tagged "args")) (← readTy t))
      | some ("exit", [a, t]) => do pure (.exit (← readTerm fuel .prd a) (← readTy t))
      | _ => none
end

def readProg (fuel : Nat) (s : Sexp) : Option Prog :=
  match s.tagged "prog" with
  | some [m, ds, cs, fs] => do
    let datas ← (← ds.tagged "datas").mapM readTypeDecl
    let codatas ← (← cs.tagged "codatas").mapM readTypeDecl
    let defs ← (← fs.tagged "defs").mapM fun d =>
      match d.tagged "def" with
      | some [n, c, b] => do pure (⟨← readIdent n, ← readCtx c, ← readStmt fuel b⟩ : Def)
      | _ => none
    pure ⟨defs, datas, codatas, ← m.asNat⟩
  | _ => none

mutual
  def readFsTerm : Nat → PC → Sexp → Option FsTerm
    | 0, _, _ => none
    | fuel + 1, pc, s =>
      match s.headOf with
      | some ("var", [v, t]) => do pure (.var pc (← readIdent v) (← readTy t))
      | some ("lit", [n]) => do pure (.lit (← n.asInt))
      | some ("op", [o, a, b]) => do pure (.op (← readIdent a) (← readBinOp o) (← readIdent b))
      | some ("mu", [v, t, st]) => do pure (.mu pc (← readIdent v) (← readTy t) (← readFsStmt fuel st))
      | some ("xtor", [n, a, t]) => do pure (.xtor pc (← readIdent n) (← readCtx a) (← readTy t))
      | some ("xcase", t :: cs) => do pure (.xcase pc (← readTy t) (← readFsClauses fuel cs))
      | _ => none
  def readFsClauses : Nat → List Sexp → Option FsClauses
    | 0, _ => none
    | _, [] => some .nil
    | fuel + 1, c :: cs =>
      match c.tagged "clause" with
      | some [x, ctx, b] => do
        pure (.cons (← readIdent x) (← readCtx ctx) (← readFsStmt fuel b) (← readFsClauses fuel cs))
      | _ => none
  def readFsStmt : Nat → Sexp → Option FsStmt
    | 0, _ => none
    | fuel + 1, s =>
      match s.headOf with
      | some ("cut", [t, p, c]) => do
        pure (.cut (← readTy t) (← readFsTerm fuel .prd p) (← readFsTerm fuel .cns c))
      | some ("ifc", [srt, a, b, t, e]) => do
        let b' ← match b with
          | .atom "none" => some none
          | x => (readIdent x).map some
        pure (.ifc (← readIfSort srt) (← readIdent a) b' (← readFsStmt fuel t) (← readFsStmt fuel e))
      | some ("print", [nl, a, n]) => do
        pure (.print ((← nl.asAtom) == "nl") (← readIdent a) (← readFsStmt fuel n))
      | some ("call", [n, a]) => do pure (.call (← readIdent n) (← readCtx a))
      | some ("exit", [a]) => do pure (.exit (← readIdent a))
      | _ => none
end

def readFsProg (fuel : Nat) (s : Sexp) : Option FsProg :=
  match s.tagged "fsprog" with
  | some [m, ds, cs, fs] => do
    let datas ← (← ds.tagged "datas").mapM readTypeDecl
    let codatas ← (← cs.tagged "codatas").mapM readTypeDecl
    let defs ← (← fs.tagged "defs").mapM fun d =>
      match d.tagged "def" with
      | some [n, c, b] => do pure (⟨← readIdent n, ← readCtx c, ← readFsStmt fuel b⟩ : FsDef)
      | _ => none
    pure ⟨defs, datas, codatas, ← m.asNat⟩
  | _ => none

/-- printed form of an identifier (names.rs Print): `name` if id = 0 else `name_id` -/
def Ident.print (i : Ident) : String :=
  if i.id == 0 then i.name else i.name ++ "_" ++ toString i.id

end Scc.Core
