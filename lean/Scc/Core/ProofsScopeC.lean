/-
  Scc.Core.ProofsScopeC — proof side of C03 "binders are distinct from every free name", part C:
  focusing does not create free names: every free id of `focusStmt s` is a free id of `s` or `≤ m0`
  (`focusStmt_scoped`); the variables introduced by `bind` are used only under their binder.
-/
import Scc.Core.ProofsScopeA

namespace Scc.Core

section
variable (m0 : Nat)

/-- the binding handed to a continuation refers to a bound or an old id -/
def BindOK (B : List Nat) (b : Binding) : Prop := b.var.id ≤ m0 ∨ b.var.id ∈ B

private def f1 (t : Term) (n : Nat) : Prop :=
  ∀ B, (∀ i ∈ t.freeIds B, i ≤ m0) → ∀ i ∈ (focusTerm t n).1.freeIds B, i ≤ m0
private def f2 (cl : Clauses) (n : Nat) : Prop :=
  ∀ B, (∀ i ∈ cl.freeIds B, i ≤ m0) → ∀ i ∈ (focusClauses cl n).1.freeIds B, i ≤ m0
private def f3 (s : Stmt) (n : Nat) : Prop :=
  ∀ B, (∀ i ∈ s.freeIds B, i ≤ m0) → ∀ i ∈ (focusStmt s n).1.freeIds B, i ≤ m0
private def f4 (t : Term) (k : Cont) (n : Nat) : Prop :=
  ∀ B, (∀ i ∈ t.freeIds B, i ≤ m0) →
    (∀ b n1 B', (∀ x ∈ B, x ∈ B') → BindOK m0 B' b → ∀ i ∈ (k b n1).1.freeIds B', i ≤ m0) →
    ∀ i ∈ (bindTerm t k n).1.freeIds B, i ≤ m0
private def f5 (as : Args) (k : ContVec) (n : Nat) : Prop :=
  ∀ B, (∀ i ∈ as.freeIds B, i ≤ m0) →
    (∀ bs n1 B', (∀ x ∈ B, x ∈ B') → (∀ b ∈ bs, BindOK m0 B' b) →
      ∀ i ∈ (k bs n1).1.freeIds B', i ≤ m0) →
    ∀ i ∈ (bindMany as k n).1.freeIds B, i ≤ m0

theorem BindOK.mono {B B' : List Nat} {b : Binding} (h : BindOK m0 B b) (hs : ∀ x ∈ B, x ∈ B') :
    BindOK m0 B' b := by
  unfold BindOK at *; grind

theorem focusStmt_scoped (s : Stmt) (n : Nat) : f3 m0 s n := by
  apply focusStmt.induct (motive_1 := f1 m0) (motive_2 := f2 m0) (motive_3 := f3 m0)
    (motive_4 := f4 m0) (motive_5 := f5 m0)
  -- focusTerm
  · intro pc v ty n B h
    simpa only [focusTerm, Term.freeIds, FsTerm.freeIds] using h
  · intro k n B _
    simp [focusTerm, FsTerm.freeIds]
  · intro a o b n B _
    simp [focusTerm, panicTerm, FsTerm.freeIds]
  · intro pc v ty s n s' n1 heq ih B h
    simp only [Term.freeIds] at h
    have := ih (v.id :: B) h
    rw [heq] at this
    simpa only [focusTerm, heq, FsTerm.freeIds] using this
  · intro pc name as ty n B _
    simp [focusTerm, panicTerm, FsTerm.freeIds]
  · intro pc ty cl n cl' n1 heq ih B h
    simp only [Term.freeIds] at h
    have := ih B h
    rw [heq] at this
    simpa only [focusTerm, heq, FsTerm.freeIds] using this
  -- bindTerm
  · intro pc v ty k n B h hk
    simp only [bindTerm]
    apply hk _ n B (fun _ hx => hx)
    simp only [Term.freeIds, mem_unbound, List.mem_singleton] at h
    unfold BindOK
    by_cases hv : v.id ∈ B
    · exact Or.inr hv
    · exact Or.inl (h v.id ⟨rfl, hv⟩)
  · intro i k n x n1 hfresh r n2 hkeq B h hk
    simp only [freshVar, freshIdentifier, Prod.mk.injEq] at hfresh
    obtain ⟨rfl, rfl⟩ := hfresh
    have := hk ⟨⟨"x", n + 1⟩, .prd, .i64⟩ (n + 1) ((n + 1) :: B) (by simp; grind)
      (Or.inr (by simp))
    rw [hkeq] at this
    simpa only [bindTerm, freshVar, freshIdentifier, hkeq, FsStmt.freeIds, FsTerm.freeIds,
      List.nil_append] using this
  · intro a o b k n ih1 ih2 B h hk
    simp only [Term.freeIds, List.mem_append] at h
    simp only [bindTerm]
    apply ih2 B (fun i hi => h i (Or.inl hi))
    intro b1 n1 B1 hB1 hb1
    apply ih1 b1 n1 B1 (fun i hi => h i (Or.inr (Term.freeIds_mono b B B1 hB1 i hi)))
    intro b2 n2 B2 hB2 hb2
    have hb1' := hb1.mono m0 hB2
    have := hk ⟨⟨"x", n2 + 1⟩, .prd, .i64⟩ (n2 + 1) ((n2 + 1) :: B2) (by simp; grind)
      (Or.inr (by simp))
    simp only [freshVar, freshIdentifier, FsStmt.freeIds, FsTerm.freeIds, List.mem_append,
      mem_unbound, List.mem_cons, List.not_mem_nil, or_false]
    unfold BindOK at hb1' hb2
    grind
  · intro v ty s k n x n1 hfresh s' n2 hs r n3 hkeq ih B h hk
    simp only [freshVar, freshIdentifier, Prod.mk.injEq] at hfresh
    obtain ⟨rfl, rfl⟩ := hfresh
    simp only [Term.freeIds] at h
    have h1 := ih (v.id :: B) h
    rw [hs] at h1
    have h2 := hk ⟨⟨"x", n + 1⟩, .prd, ty⟩ n2 ((n + 1) :: B) (by simp; grind) (Or.inr (by simp))
    rw [hkeq] at h2
    simp only [bindTerm, freshVar, freshIdentifier, hs, hkeq, FsStmt.freeIds, FsTerm.freeIds,
      List.mem_append]
    grind
  · intro v ty s k n x n1 hfresh r n2 hkeq s' n3 hs ih B h hk
    simp only [freshCovar, freshIdentifier, Prod.mk.injEq] at hfresh
    obtain ⟨rfl, rfl⟩ := hfresh
    simp only [Term.freeIds] at h
    have h1 := ih (v.id :: B) h
    rw [hs] at h1
    have h2 := hk ⟨⟨"a", n + 1⟩, .cns, ty⟩ (n + 1) ((n + 1) :: B) (by simp; grind)
      (Or.inr (by simp))
    rw [hkeq] at h2
    simp only [bindTerm, freshCovar, freshIdentifier, hs, hkeq, FsStmt.freeIds, FsTerm.freeIds,
      List.mem_append]
    grind
  · intro name as ty k n ih B h hk
    simp only [Term.freeIds] at h
    simp only [bindTerm]
    apply ih B h
    intro bs n2 B2 hB2 hbs
    have := hk ⟨⟨"x", n2 + 1⟩, .prd, ty⟩ (n2 + 1) ((n2 + 1) :: B2) (by simp; grind)
      (Or.inr (by simp))
    simp only [freshVar, freshIdentifier, FsStmt.freeIds, FsTerm.freeIds, List.mem_append,
      mem_unbound, ctxIds, List.mem_map]
    unfold BindOK at hbs
    grind
  · intro name as ty k n ih B h hk
    simp only [Term.freeIds] at h
    simp only [bindTerm]
    apply ih B h
    intro bs n2 B2 hB2 hbs
    have := hk ⟨⟨"a", n2 + 1⟩, .cns, ty⟩ (n2 + 1) ((n2 + 1) :: B2) (by simp; grind)
      (Or.inr (by simp))
    simp only [freshCovar, freshIdentifier, FsStmt.freeIds, FsTerm.freeIds, List.mem_append,
      mem_unbound, ctxIds, List.mem_map]
    unfold BindOK at hbs
    grind
  · intro ty cl k n x n1 hfresh r n2 hkeq cl' n3 hs ih B h hk
    simp only [freshVar, freshIdentifier, Prod.mk.injEq] at hfresh
    obtain ⟨rfl, rfl⟩ := hfresh
    simp only [Term.freeIds] at h
    have h1 := ih B h
    rw [hs] at h1
    have h2 := hk ⟨⟨"x", n + 1⟩, .prd, ty⟩ (n + 1) ((n + 1) :: B) (by simp; grind)
      (Or.inr (by simp))
    rw [hkeq] at h2
    simp only [bindTerm, freshVar, freshIdentifier, hs, hkeq, FsStmt.freeIds, FsTerm.freeIds,
      List.mem_append]
    grind
  · intro ty cl k n x n1 hfresh r n2 hkeq cl' n3 hs ih B h hk
    simp only [freshCovar, freshIdentifier, Prod.mk.injEq] at hfresh
    obtain ⟨rfl, rfl⟩ := hfresh
    simp only [Term.freeIds] at h
    have h1 := ih B h
    rw [hs] at h1
    have h2 := hk ⟨⟨"a", n + 1⟩, .cns, ty⟩ (n + 1) ((n + 1) :: B) (by simp; grind)
      (Or.inr (by simp))
    rw [hkeq] at h2
    simp only [bindTerm, freshCovar, freshIdentifier, hs, hkeq, FsStmt.freeIds, FsTerm.freeIds,
      List.mem_append]
    grind
  -- bindMany
  · intro k n B _ hk
    simp only [bindMany]
    exact hk [] n B (fun _ hx => hx) (by simp)
  · intro pc t r k n ih1 ih2 B h hk
    simp only [Args.freeIds, List.mem_append] at h
    simp only [bindMany]
    apply ih2 B (fun i hi => h i (Or.inl hi))
    intro b n1 B1 hB1 hb
    apply ih1 b n1 B1 (fun i hi => h i (Or.inr (Args.freeIds_mono r B B1 hB1 i hi)))
    intro bs n2 B2 hB2 hbs
    apply hk (b :: bs) n2 B2 (fun x hx => hB2 x (hB1 x hx))
    intro b' hb'
    simp only [List.mem_cons] at hb'
    rcases hb' with rfl | hb'
    · exact hb.mono m0 hB2
    · exact hbs b' hb'
  -- focusClauses
  · intro n B _
    simp [focusClauses, FsClauses.freeIds]
  · intro x ctx b r n b' n1 hb r' n2 hr ihb ihr B h
    simp only [Clauses.freeIds, List.mem_append] at h
    have h1 := ihb (ctxIds ctx ++ B) (fun i hi => h i (Or.inl hi))
    have h2 := ihr B (fun i hi => h i (Or.inr hi))
    rw [hb] at h1; rw [hr] at h2
    simp only [focusClauses, hb, hr, FsClauses.freeIds, List.mem_append]
    grind
  -- focusStmt: cut
  · intro ty pc name as ty1 c n ihc ih5 B h
    simp only [Stmt.freeIds, Term.freeIds, List.mem_append] at h
    simp only [focusStmt]
    apply ih5 B (fun i hi => h i (Or.inl hi))
    intro bs n1 B1 hB1 hbs
    have := ihc n1 B1 (fun i hi => h i (Or.inr (Term.freeIds_mono c B B1 hB1 i hi)))
    simp only [FsStmt.freeIds, FsTerm.freeIds, List.mem_append, mem_unbound, ctxIds, List.mem_map]
    unfold BindOK at hbs
    grind
  · intro ty p dpc name as ty1 n hnx ihp ih5 B h
    simp only [Stmt.freeIds, Term.freeIds, List.mem_append] at h
    rw [focusStmt.eq_2 _ _ _ _ _ _ _ hnx]
    apply ih5 B (fun i hi => h i (Or.inr hi))
    intro bs n1 B1 hB1 hbs
    have := ihp n1 B1 (fun i hi => h i (Or.inl (Term.freeIds_mono p B B1 hB1 i hi)))
    simp only [FsStmt.freeIds, FsTerm.freeIds, List.mem_append, mem_unbound, ctxIds, List.mem_map]
    unfold BindOK at hbs
    grind
  · intro ty a o b c n hnx ihc ih1 ih2 B h
    simp only [Stmt.freeIds, Term.freeIds, List.mem_append] at h
    rw [focusStmt.eq_3 _ _ _ _ _ _ hnx]
    apply ih2 B (fun i hi => h i (Or.inl (Or.inl hi)))
    intro b1 n1 B1 hB1 hb1
    apply ih1 b1 n1 B1 (fun i hi => h i (Or.inl (Or.inr (Term.freeIds_mono b B B1 hB1 i hi))))
    intro b2 n2 B2 hB2 hb2
    have hb1' := hb1.mono m0 hB2
    have := ihc n2 B2 (fun i hi => h i (Or.inr (Term.freeIds_mono c B B2
      (fun x hx => hB2 x (hB1 x hx)) i hi)))
    simp only [FsStmt.freeIds, FsTerm.freeIds, List.mem_append, mem_unbound, List.mem_cons,
      List.not_mem_nil, or_false]
    unfold BindOK at hb1' hb2
    grind
  · intro ty p c n hnp hnc hnop p' n1 hp c' n2 hc ihp ihc B h
    simp only [Stmt.freeIds, List.mem_append] at h
    rw [focusStmt.eq_4 _ _ _ _ hnp hnc hnop]
    have h1 := ihp B (fun i hi => h i (Or.inl hi))
    have h2 := ihc B (fun i hi => h i (Or.inr hi))
    rw [hp] at h1; rw [hc] at h2
    simp only [hp, hc, FsStmt.freeIds, List.mem_append]
    grind
  -- focusStmt: ifc, ifz, print, call, exit
  · intro srt a b t e n iht ihe ih1 ih2 B h
    simp only [Stmt.freeIds, List.mem_append] at h
    simp only [focusStmt]
    apply ih2 B (fun i hi => h i (Or.inl (Or.inl (Or.inl hi))))
    intro b1 n1 B1 hB1 hb1
    apply ih1 b1 n1 B1
      (fun i hi => h i (Or.inl (Or.inl (Or.inr (Term.freeIds_mono b B B1 hB1 i hi)))))
    intro b2 n2 B2 hB2 hb2
    have hb1' := hb1.mono m0 hB2
    have hBB : ∀ x ∈ B, x ∈ B2 := fun x hx => hB2 x (hB1 x hx)
    have h1 := iht n2 B2 (fun i hi => h i (Or.inl (Or.inr (Stmt.freeIds_mono t B B2 hBB i hi))))
    have h2 := ihe (focusStmt t n2).2 B2
      (fun i hi => h i (Or.inr (Stmt.freeIds_mono e B B2 hBB i hi)))
    simp only [FsStmt.freeIds, List.mem_append, mem_unbound, List.mem_cons, List.not_mem_nil,
      or_false]
    unfold BindOK at hb1' hb2
    grind
  · intro srt a t e n iht ihe ih1 B h
    simp only [Stmt.freeIds, List.mem_append] at h
    simp only [focusStmt]
    apply ih1 B (fun i hi => h i (Or.inl (Or.inl hi)))
    intro b1 n1 B1 hB1 hb1
    have h1 := iht n1 B1 (fun i hi => h i (Or.inl (Or.inr (Stmt.freeIds_mono t B B1 hB1 i hi))))
    have h2 := ihe (focusStmt t n1).2 B1
      (fun i hi => h i (Or.inr (Stmt.freeIds_mono e B B1 hB1 i hi)))
    simp only [FsStmt.freeIds, List.mem_append, mem_unbound, List.mem_cons, List.not_mem_nil,
      or_false]
    unfold BindOK at hb1
    grind
  · intro nl a nx n ihn ih1 B h
    simp only [Stmt.freeIds, List.mem_append] at h
    simp only [focusStmt]
    apply ih1 B (fun i hi => h i (Or.inl hi))
    intro b1 n1 B1 hB1 hb1
    have h1 := ihn n1 B1 (fun i hi => h i (Or.inr (Stmt.freeIds_mono nx B B1 hB1 i hi)))
    simp only [FsStmt.freeIds, List.mem_append, mem_unbound, List.mem_cons, List.not_mem_nil,
      or_false]
    unfold BindOK at hb1
    grind
  · intro f as ty n ih5 B h
    simp only [Stmt.freeIds] at h
    simp only [focusStmt]
    apply ih5 B h
    intro bs n1 B1 hB1 hbs
    simp only [FsStmt.freeIds, mem_unbound, ctxIds, List.mem_map]
    unfold BindOK at hbs
    grind
  · intro a ty n ih4 B h
    simp only [Stmt.freeIds] at h
    simp only [focusStmt]
    apply ih4 B h
    intro b n1 B1 hB1 hb
    simp only [FsStmt.freeIds, mem_unbound, List.mem_cons, List.not_mem_nil, or_false]
    unfold BindOK at hb
    grind

end

end Scc.Core
