/-
  Scc.Core.ProofsUniqueB — proof side of C03 "unique binders", part B:
  `uniquify` on a program whose binders all have id 0 gives every binder a new id from the counter
  interval, all distinct (`uniquifyStmt_fresh`, `uniquifyDef_fresh`).
-/
import Scc.Core.ProofsUniqueA

namespace Scc.Core

/-! ## variable-for-variable substitution does not touch binders -/

theorem Subst.allVars_find_var {σ : Subst} (h : σ.allVars = true) {v : Ident} {t : Term}
    (hf : substFind σ v = some t) : ∃ pc w ty, t = .var pc w ty := by
  induction σ with
  | nil => simp [substFind] at hf
  | cons e r ih =>
    obtain ⟨w, u⟩ := e
    cases u <;> simp [Subst.allVars] at h
    simp only [substFind] at hf
    split at hf
    · cases hf; exact ⟨_, _, _, rfl⟩
    · exact ih h hf

mutual
  theorem binderIds_substTerm (ps cs : Subst) (hp : ps.allVars = true) (hc : cs.allVars = true) :
      (t : Term) → (substTerm ps cs t).binderIds = t.binderIds
    | .var .prd v ty => by
      simp only [substTerm]
      split
      · rfl
      · next h =>
        obtain ⟨_, _, _, rfl⟩ := Subst.allVars_find_var hp h
        simp [Term.binderIds]
    | .var .cns v ty => by
      simp only [substTerm]
      split
      · rfl
      · next h =>
        obtain ⟨_, _, _, rfl⟩ := Subst.allVars_find_var hc h
        simp [Term.binderIds]
    | .lit n => by simp [substTerm]
    | .op a o b => by
      simp [substTerm, Term.binderIds, binderIds_substTerm ps cs hp hc a,
        binderIds_substTerm ps cs hp hc b]
    | .mu pc v ty s => by
      simp [substTerm, Term.binderIds,
        binderIds_substStmt _ _ (Subst.allVars_remove hp v) (Subst.allVars_remove hc v) s]
    | .xtor pc n as ty => by simp [substTerm, Term.binderIds, binderIds_substArgs ps cs hp hc as]
    | .xcase pc ty cl => by simp [substTerm, Term.binderIds, binderIds_substClauses ps cs hp hc cl]
  theorem binderIds_substArgs (ps cs : Subst) (hp : ps.allVars = true) (hc : cs.allVars = true) :
      (as : Args) → (substArgs ps cs as).binderIds = as.binderIds
    | .nil => by simp [substArgs]
    | .cons pc t r => by
      simp [substArgs, Args.binderIds, binderIds_substTerm ps cs hp hc t,
        binderIds_substArgs ps cs hp hc r]
  theorem binderIds_substClauses (ps cs : Subst) (hp : ps.allVars = true) (hc : cs.allVars = true) :
      (cl : Clauses) → (substClauses ps cs cl).binderIds = cl.binderIds
    | .nil => by simp [substClauses]
    | .cons x ctx b r => by
      simp [substClauses, Clauses.binderIds, binderIds_substClauses ps cs hp hc r,
        binderIds_substStmt _ _ (Subst.allVars_removeCtx hp ctx) (Subst.allVars_removeCtx hc ctx) b]
  theorem binderIds_substStmt (ps cs : Subst) (hp : ps.allVars = true) (hc : cs.allVars = true) :
      (s : Stmt) → (substStmt ps cs s).binderIds = s.binderIds
    | .cut ty p c => by
      simp [substStmt, Stmt.binderIds, binderIds_substTerm ps cs hp hc p,
        binderIds_substTerm ps cs hp hc c]
    | .ifc srt a b t e => by
      simp [substStmt, Stmt.binderIds, binderIds_substTerm ps cs hp hc a,
        binderIds_substTerm ps cs hp hc b, binderIds_substStmt ps cs hp hc t,
        binderIds_substStmt ps cs hp hc e]
    | .ifz srt a t e => by
      simp [substStmt, Stmt.binderIds, binderIds_substTerm ps cs hp hc a,
        binderIds_substStmt ps cs hp hc t, binderIds_substStmt ps cs hp hc e]
    | .print nl a n => by
      simp [substStmt, Stmt.binderIds, binderIds_substTerm ps cs hp hc a,
        binderIds_substStmt ps cs hp hc n]
    | .call f as ty => by simp [substStmt, Stmt.binderIds, binderIds_substArgs ps cs hp hc as]
    | .exit a ty => by simp [substStmt, Stmt.binderIds, binderIds_substTerm ps cs hp hc a]
end

theorem binderIds_substIfAny (ps cs : Subst) (hp : ps.allVars = true) (hc : cs.allVars = true)
    (s : Stmt) : (substIfAny ps cs s).binderIds = s.binderIds := by
  unfold substIfAny; split
  · rfl
  · exact binderIds_substStmt ps cs hp hc s

/-! ## uniquify -/

/-- `l` consists of pairwise distinct ids from the counter interval `(n, n']` -/
def Fresh (l : List Nat) (n n' : Nat) : Prop := n ≤ n' ∧ l.Nodup ∧ ∀ b ∈ l, n < b ∧ b ≤ n'

theorem Fresh.nil {n n'} (h : n ≤ n') : Fresh [] n n' := by simp [Fresh, h]

theorem Fresh.append {l1 l2 n n1 n2} (h1 : Fresh l1 n n1) (h2 : Fresh l2 n1 n2) :
    Fresh (l1 ++ l2) n n2 := by
  unfold Fresh at *
  simp only [List.nodup_append, List.mem_append] at *
  grind

theorem Fresh.cons {l n n'} (h : Fresh l (n + 1) n') : Fresh ((n + 1) :: l) n n' := by
  unfold Fresh at *
  simp only [List.nodup_cons, List.mem_cons] at *
  grind

theorem Fresh.le {l n n'} (h : Fresh l n n') : n ≤ n' := h.1

theorem uniquifyCtx_fresh (c : Ctx) (n : Nat) (hz : ∀ b ∈ ctxIds c, b = 0) :
    Fresh (ctxIds (uniquifyCtx c n).ctx) n (uniquifyCtx c n).maxId := by
  induction c generalizing n with
  | nil => simp [uniquifyCtx, ctxIds, Fresh]
  | cons b r ih =>
    have hb : b.var.id = 0 := hz _ (by simp [ctxIds])
    have hr : ∀ b ∈ ctxIds r, b = 0 := fun x hx => hz x (by simp [ctxIds] at hx ⊢; grind)
    have := ih (n + 1) hr
    simp only [uniquifyCtx, hb, freshIdentifier, if_true]
    split <;> simpa [ctxIds] using this.cons

private def u1 (t : Term) (n : Nat) : Prop :=
  (∀ b ∈ t.binderIds, b = 0) → Fresh (uniquifyTerm t n).1.binderIds n (uniquifyTerm t n).2
private def u2 (cl : Clauses) (n : Nat) : Prop :=
  (∀ b ∈ cl.binderIds, b = 0) → Fresh (uniquifyClauses cl n).1.binderIds n (uniquifyClauses cl n).2
private def u3 (s : Stmt) (n : Nat) : Prop :=
  (∀ b ∈ s.binderIds, b = 0) → Fresh (uniquifyStmt s n).1.binderIds n (uniquifyStmt s n).2
private def u4 (as : Args) (n : Nat) : Prop :=
  (∀ b ∈ as.binderIds, b = 0) → Fresh (uniquifyArgs as n).1.binderIds n (uniquifyArgs as n).2

theorem uniquifyStmt_fresh (s : Stmt) (n : Nat) : u3 s n := by
  apply uniquifyStmt.induct (motive1 := u1) (motive2 := u2) (motive3 := u3) (motive4 := u4)
  -- uniquifyTerm
  · intro n pc v ty _
    simp [uniquifyTerm, Term.binderIds, Fresh]
  · intro n k _
    simp [uniquifyTerm, Term.binderIds, Fresh]
  · intro n a o b a' n1 ha b' n2 hb iha ihb hz
    simp only [Term.binderIds, List.mem_append] at hz
    have h1 := iha (fun x hx => hz x (Or.inl hx))
    have h2 := ihb (fun x hx => hz x (Or.inr hx))
    rw [ha] at h1; rw [hb] at h2
    simp only [uniquifyTerm, ha, hb, Term.binderIds]
    exact h1.append h2
  · intro n v ty s hv newVar n1 hfresh s' n2 hs ih hz
    simp only [freshIdentifier, Prod.mk.injEq] at hfresh
    obtain ⟨rfl, rfl⟩ := hfresh
    simp only [Term.binderIds, List.mem_cons] at hz
    have h := ih (by
      rw [binderIds_substStmt _ _ (by simp [Subst.allVars]) (by simp [Subst.allVars])]
      exact fun x hx => hz x (Or.inr hx))
    rw [hs] at h
    simp only [uniquifyTerm, hv, freshIdentifier, hs, if_true, Term.binderIds]
    exact h.cons
  · intro n v ty s hv newVar n1 hfresh s' n2 hs ih hz
    simp only [freshIdentifier, Prod.mk.injEq] at hfresh
    obtain ⟨rfl, rfl⟩ := hfresh
    simp only [Term.binderIds, List.mem_cons] at hz
    have h := ih (by
      rw [binderIds_substStmt _ _ (by simp [Subst.allVars]) (by simp [Subst.allVars])]
      exact fun x hx => hz x (Or.inr hx))
    rw [hs] at h
    simp only [uniquifyTerm, hv, freshIdentifier, hs, if_true, Term.binderIds]
    exact h.cons
  · intro n pc v ty s hv s' n2 hs ih hz
    exact absurd (hz v.id (by simp [Term.binderIds])) hv
  · intro n pc name as ty as' n1 has ih hz
    simp only [Term.binderIds] at hz
    have h := ih hz
    rw [has] at h
    simpa only [uniquifyTerm, has, Term.binderIds] using h
  · intro n pc ty cs cl' n1 hcl ih hz
    simp only [Term.binderIds] at hz
    have h := ih hz
    rw [hcl] at h
    simpa only [uniquifyTerm, hcl, Term.binderIds] using h
  -- uniquifyClauses
  · intro n _
    simp [uniquifyClauses, Clauses.binderIds, Fresh]
  · intro n x ctx b r u s' n2 hs cl' n1 hr ihb ihr hz
    simp only [u] at hs ihb
    simp only [Clauses.binderIds, List.mem_append] at hz
    have h0 := uniquifyCtx_fresh ctx n (fun y hy => hz y (Or.inl (Or.inl hy)))
    have h1 := ihb (by
      rw [binderIds_substIfAny _ _ (uniquifyCtx_allVars ctx n).1 (uniquifyCtx_allVars ctx n).2]
      exact fun y hy => hz y (Or.inl (Or.inr hy)))
    have h2 := ihr (fun y hy => hz y (Or.inr hy))
    rw [hs] at h1; rw [hr] at h2
    simp only [uniquifyClauses, hs, hr, Clauses.binderIds]
    exact (h0.append h1).append h2
  -- uniquifyStmt
  · intro n ty p c p' n1 hp c' n2 hc ihp ihc hz
    simp only [Stmt.binderIds, List.mem_append] at hz
    have h1 := ihp (fun x hx => hz x (Or.inl hx))
    have h2 := ihc (fun x hx => hz x (Or.inr hx))
    rw [hp] at h1; rw [hc] at h2
    simp only [uniquifyStmt, hp, hc, Stmt.binderIds]
    exact h1.append h2
  · intro n srt a b t e a' n1 ha b' n2 hb t' n3 ht e' n4 he iha ihb iht ihe hz
    simp only [Stmt.binderIds, List.mem_append] at hz
    have h1 := iha (fun x hx => hz x (Or.inl (Or.inl (Or.inl hx))))
    have h2 := ihb (fun x hx => hz x (Or.inl (Or.inl (Or.inr hx))))
    have h3 := iht (fun x hx => hz x (Or.inl (Or.inr hx)))
    have h4 := ihe (fun x hx => hz x (Or.inr hx))
    rw [ha] at h1; rw [hb] at h2; rw [ht] at h3; rw [he] at h4
    simp only [uniquifyStmt, ha, hb, ht, he, Stmt.binderIds]
    exact ((h1.append h2).append h3).append h4
  · intro n srt a t e a' n1 ha t' n3 ht e' n4 he iha iht ihe hz
    simp only [Stmt.binderIds, List.mem_append] at hz
    have h1 := iha (fun x hx => hz x (Or.inl (Or.inl hx)))
    have h3 := iht (fun x hx => hz x (Or.inl (Or.inr hx)))
    have h4 := ihe (fun x hx => hz x (Or.inr hx))
    rw [ha] at h1; rw [ht] at h3; rw [he] at h4
    simp only [uniquifyStmt, ha, ht, he, Stmt.binderIds]
    exact (h1.append h3).append h4
  · intro n nl a nx a' n1 ha nx' n2 hn iha ihn hz
    simp only [Stmt.binderIds, List.mem_append] at hz
    have h1 := iha (fun x hx => hz x (Or.inl hx))
    have h2 := ihn (fun x hx => hz x (Or.inr hx))
    rw [ha] at h1; rw [hn] at h2
    simp only [uniquifyStmt, ha, hn, Stmt.binderIds]
    exact h1.append h2
  · intro n f as ty as' n1 has ih hz
    simp only [Stmt.binderIds] at hz
    have h := ih hz
    rw [has] at h
    simpa only [uniquifyStmt, has, Stmt.binderIds] using h
  · intro n a ty a' n1 ha ih hz
    simp only [Stmt.binderIds] at hz
    have h := ih hz
    rw [ha] at h
    simpa only [uniquifyStmt, ha, Stmt.binderIds] using h
  -- uniquifyArgs
  · intro n _
    simp [uniquifyArgs, Args.binderIds, Fresh]
  · intro n pc t r t' n1 ht r' n2 hr iht ihr hz
    simp only [Args.binderIds, List.mem_append] at hz
    have h1 := iht (fun x hx => hz x (Or.inl hx))
    have h2 := ihr (fun x hx => hz x (Or.inr hx))
    rw [ht] at h1; rw [hr] at h2
    simp only [uniquifyArgs, ht, hr, Args.binderIds]
    exact h1.append h2

theorem uniquifyDef_fresh (d : Def) (n : Nat)
    (hz : ∀ b ∈ ctxIds d.ctx ++ d.body.binderIds, b = 0) :
    Fresh (ctxIds (uniquifyDef d n).1.ctx ++ (uniquifyDef d n).1.body.binderIds) n
      (uniquifyDef d n).2 := by
  simp only [List.mem_append] at hz
  have h0 := uniquifyCtx_fresh d.ctx n (fun y hy => hz y (Or.inl hy))
  have h1 := uniquifyStmt_fresh
    (substIfAny (uniquifyCtx d.ctx n).varSubst (uniquifyCtx d.ctx n).covarSubst d.body)
    (uniquifyCtx d.ctx n).maxId (by
      rw [binderIds_substIfAny _ _ (uniquifyCtx_allVars d.ctx n).1 (uniquifyCtx_allVars d.ctx n).2]
      exact fun y hy => hz y (Or.inr hy))
  simp only [uniquifyDef]
  exact h0.append h1

end Scc.Core
