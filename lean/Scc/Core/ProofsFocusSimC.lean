/-
  Scc.Core.ProofsFocusSimC — the simulation, part C: one step.
  Either the ς-machine takes a ς-step (and the focused machine waits; the relation is kept by
  `sigma_focus`), or both machines take the corresponding proper step.
-/
import Scc.Core.ProofsFocusSimB

namespace Scc.Core
namespace FocusSim

/-! ## states -/

structure SRel (st1 : State) (st2 : FsState) : Prop where
  out : st1.out = st2.out
  env : ER st1.fresh st1.env st2.env
  code : CodeS st1.fresh (keys st1.env) st1.stmt (keys st2.env) st2.stmt

/-- results of a proper step (the ς-counter `k` does not change) -/
def StepR (k : Nat) : Step State → Step FsState → Prop
  | .next st1, .next st2 => SRel st1 st2 ∧ st1.fresh = k
  | .final r, .final r' => r = r'
  | _, _ => False

section
variable {st1 : State} {st2 : FsState}

theorem goto_rel (h : SRel st1 st2) {s : Stmt} {s2 : FsStmt} {ρ : CEnv} {ρ2 : FEnv}
    (he : ER st1.fresh ρ ρ2) (hc : CodeS st1.fresh (keys ρ) s (keys ρ2) s2) :
    StepR st1.fresh (st1.goto s ρ) (st2.goto s2 ρ2) := by
  simp only [State.goto, FsState.goto, StepR]
  exact ⟨⟨h.out, he, hc⟩, trivial⟩

theorem select_rel (h : SRel st1 st2) {ρ : CEnv} {ρ2 : FEnv} (he : ER st1.fresh ρ ρ2)
    {cl : Clauses} {cl2 : FsClauses} (hc : CodeC st1.fresh (keys ρ) cl (keys ρ2) cl2) (x : Ident)
    {vs : List CVal} {vs2 : List FVal} (hv : VsR st1.fresh vs vs2) :
    StepR st1.fresh (st1.select ρ cl x vs) (st2.select ρ2 cl2 x vs2) := by
  obtain ⟨hok, n, hf, hdb⟩ := hc
  simp only [State.select, FsState.select]
  rcases find_rel x cl n cl2 hok hf hdb with ⟨h1, h2⟩ | ⟨ctx, body, ctx2, body2, h1, h2, hl, hcode⟩
  · simp [h1, h2, StepR, stuck]
  · simp only [h1, h2]
    have := bind_rel he ctx ctx2 hl hv
    cases h3 : Env.bind ρ ctx vs <;> cases h4 : Env.bind ρ2 ctx2 vs2 <;>
      simp only [h3, h4, ExRel] at this ⊢
    · simp [StepR, stuck, this]
    · obtain ⟨he', hk1, hk2⟩ := this
      refine goto_rel h he' ?_
      rw [hk1, hk2]
      exact hcode

theorem pass_rel (h : SRel st1 st2) {pv cv : CVal} {pv2 cv2 : FVal} (hp : VR st1.fresh pv pv2)
    (hc : VR st1.fresh cv cv2) : StepR st1.fresh (st1.pass pv cv) (st2.pass pv2 cv2) := by
  cases hc with
  | mutilde he hcode => exact goto_rel h (ER.cons _ _ hp he) hcode
  | case he hcode =>
    cases hp with
    | con c hvs => exact select_rel h he hcode c hvs
    | _ => simp [State.pass, FsState.pass, StepR, stuck]
  | halt =>
    cases hp with
    | int n => simp [State.pass, FsState.pass, StepR]
    | _ => simp [State.pass, FsState.pass, StepR, stuck]
  | _ => simp [State.pass, FsState.pass, StepR, stuck]

theorem invoke_rel (h : SRel st1 st2) {pv : CVal} {pv2 : FVal} (hp : VR st1.fresh pv pv2)
    (d : Ident) {vs : List CVal} {vs2 : List FVal} (hvs : VsR st1.fresh vs vs2) :
    StepR st1.fresh (st1.invoke pv d vs) (st2.invoke pv2 d vs2) := by
  cases hp with
  | cocase he hcode => exact select_rel h he hcode d hvs
  | thunk he hcode => exact goto_rel h (ER.cons _ _ (VR.dtor d hvs) he) hcode
  | _ => simp [State.invoke, FsState.invoke, StepR, stuck]

theorem stepCut_data_nonmu {st : State} {p c : Term} (hm : ¬ ∃ pc a t s, p = .mu pc a t s) :
    stepCut false st p c =
      (match prdVal st.env p with
        | .error e => stuck e
        | .ok pv =>
          match cnsVal st.env c with
          | .error e => stuck e
          | .ok cv => st.pass pv cv) := by
  unfold stepCut
  cases p with
  | mu pc a t s => exact absurd ⟨_, _, _, _, rfl⟩ hm
  | _ => rfl

theorem fsStepCut_data_nonmu {st : FsState} {p c : FsTerm} (hm : ¬ ∃ pc a t s, p = .mu pc a t s) :
    fsStepCut false st p c =
      (match fsPrdVal st.env p with
        | .error e => stuck e
        | .ok pv =>
          match fsCnsVal st.env c with
          | .error e => stuck e
          | .ok cv => st.pass pv cv) := by
  unfold fsStepCut
  cases p with
  | mu pc a t s => exact absurd ⟨_, _, _, _, rfl⟩ hm
  | _ => rfl

theorem stepCut_rel (h : SRel st1 st2) (cod : Bool) {p c : Term} {p2 c2 : FsTerm}
    (hp : ExRel (VR st1.fresh) (prdVal st1.env p) (fsPrdVal st2.env p2))
    (hc : ExRel (VR st1.fresh) (cnsVal st1.env c) (fsCnsVal st2.env c2))
    (hmu : (∃ pc a t s, p = .mu pc a t s) ↔ (∃ pc a t s, p2 = .mu pc a t s)) :
    StepR st1.fresh (stepCut cod st1 p c) (fsStepCut cod st2 p2 c2) := by
  have he := h.env
  cases cod
  · by_cases hm : ∃ pc a t s, p = .mu pc a t s
    · obtain ⟨pc, a, t, s, rfl⟩ := hm
      obtain ⟨pc2, a2, t2, s2, rfl⟩ := hmu.mp ⟨_, _, _, _, rfl⟩
      simp only [prdVal, fsPrdVal, ExRel] at hp
      cases hp with
      | thunk _ hcode =>
        simp only [stepCut, fsStepCut, Bool.false_eq_true, if_false]
        cases h1 : cnsVal st1.env c <;> cases h2 : fsCnsVal st2.env c2 <;>
          simp only [h1, h2, ExRel] at hc ⊢
        · simp [StepR, stuck, hc]
        · exact goto_rel h (ER.cons _ _ hc he) hcode
    · have hm2 : ¬ ∃ pc a t s, p2 = .mu pc a t s := fun e => hm (hmu.mpr e)
      rw [stepCut_data_nonmu hm, fsStepCut_data_nonmu hm2]
      cases h1 : prdVal st1.env p <;> cases h2 : fsPrdVal st2.env p2 <;>
        simp only [h1, h2, ExRel] at hp ⊢
      · simp [StepR, stuck, hp]
      · cases h3 : cnsVal st1.env c <;> cases h4 : fsCnsVal st2.env c2 <;>
          simp only [h3, h4, ExRel] at hc ⊢
        · simp [StepR, stuck, hc]
        · exact pass_rel h hp hc
  · simp only [stepCut, fsStepCut, if_true]
    cases h3 : cnsVal st1.env c <;> cases h4 : fsCnsVal st2.env c2 <;>
      simp only [h3, h4, ExRel] at hc ⊢
    · simp [StepR, stuck, hc]
    · cases hc with
      | mutilde he' hcode =>
        cases h1 : prdVal st1.env p <;> cases h2 : fsPrdVal st2.env p2 <;>
          simp only [h1, h2, ExRel] at hp ⊢
        · simp [StepR, stuck, hp]
        · exact goto_rel h (ER.cons _ _ hp he') hcode
      | dtor d hvs =>
        cases h1 : prdVal st1.env p <;> cases h2 : fsPrdVal st2.env p2 <;>
          simp only [h1, h2, ExRel] at hp ⊢
        · simp [StepR, stuck, hp]
        · exact invoke_rel h hp d hvs
      | _ => simp [StepR, stuck]

end

/-! ## programs -/

structure DefRel (d1 : Def) (d2 : FsDef) : Prop where
  name : d1.name = d2.name
  chis : d1.ctx.map (·.chi) = d2.ctx.map (·.chi)
  code : CodeS 0 (ctxVars d1.ctx) d1.body (ctxVars d2.ctx) d2.body

def DefsRel : List Def → List FsDef → Prop
  | [], [] => True
  | d :: r, d' :: r' => DefRel d d' ∧ DefsRel r r'
  | _, _ => False

structure PRel (p1 : Prog) (q : FsProg) : Prop where
  codata : p1.codataTypes = q.codataTypes
  defs : DefsRel p1.defs q.defs

theorem find_def_rel (f : Ident → Bool) : ∀ {ds : List Def} {ds' : List FsDef}, DefsRel ds ds' →
    (ds.find? (fun d => f d.name) = none ∧ ds'.find? (fun d => f d.name) = none) ∨
    ∃ d d', ds.find? (fun d => f d.name) = some d ∧ ds'.find? (fun d => f d.name) = some d' ∧
      DefRel d d'
  | [], [], _ => Or.inl ⟨rfl, rfl⟩
  | [], _ :: _, h => by simp [DefsRel] at h
  | _ :: _, [], h => by simp [DefsRel] at h
  | d :: r, d' :: r', h => by
    obtain ⟨h1, h2⟩ := h
    simp only [List.find?_cons, ← h1.name]
    cases hf : f d.name
    · exact find_def_rel f h2
    · exact Or.inr ⟨d, d', rfl, rfl, h1⟩

theorem DefRel.ctx_length {d1 : Def} {d2 : FsDef} (h : DefRel d1 d2) :
    d1.ctx.length = d2.ctx.length := by
  have := congrArg List.length h.chis
  simpa using this

/-! ## a proper step -/

theorem step_proper {p1 : Prog} {q : FsProg} (hP : PRel p1 q) {st1 : State} {st2 : FsState}
    (h : SRel st1 st2) (hs : st1.stmt.split = none) :
    StepR st1.fresh (step p1 st1) (fsStep q st2) := by
  obtain ⟨hout, he, hcode⟩ := h
  have h : SRel st1 st2 := ⟨hout, he, hcode⟩
  obtain ⟨hok, n, hf, hdb⟩ := hcode
  unfold step fsStep
  simp only [sigmaStep, hs]
  cases hst : st1.stmt with
  | cut ty p c =>
    rw [hst] at hs hok hf hdb
    obtain ⟨hpv, hcv, hfoc⟩ := cut_none hs hok.cuts hok.pcs n
    rw [hfoc] at hdb
    simp only [FsStmt.embed, dbS] at hdb
    obtain ⟨p2, c2, hst2, hp2, hc2⟩ := fsS_inv_cut hdb.symm
    rw [hst2]
    simp only [Stmt.idents, FreshL_append] at hf
    obtain ⟨hokp, hokc⟩ := hok.cut
    simp only [hP.codata]
    exact stepCut_rel h _ (prdVal_rel he hpv hokp hf.1 hp2.symm)
      (cnsVal_rel he hcv hokc (hf.2.mono (fval_le ty p n)) hc2.symm) (fval_mu_iff hp2.symm)
  | ifc srt a b t e =>
    rw [hst] at hs hok hf hdb
    have hab : a.isVar = true ∧ b.isVar = true := by
      simp only [Stmt.split] at hs
      split at hs
      · simp at hs
      · split at hs
        · simp at hs
        · simp_all
    obtain ⟨pa, va, ta, rfl⟩ := Term.isVar_eq hab.1
    obtain ⟨pb, vb, tb, rfl⟩ := Term.isVar_eq hab.2
    rw [focusStmt_ifc_eq] at hdb
    simp only [bindTerm, kIfc, FsStmt.embed, varI64, dbS, dbT] at hdb
    obtain ⟨a2, b2, t2, e2, hst2, ha2, hb2, ht2, he2⟩ := fsS_inv_ifc hdb.symm
    rw [hst2]
    simp only [Stmt.idents, Term.idents, FreshL_append] at hf
    obtain ⟨h1, h2, h3⟩ := hok
    simp only [Stmt.cutsOk, Bool.and_eq_true] at h1
    simp only [Stmt.pcOk, Bool.and_eq_true] at h2
    simp only [Stmt.idents, SigLt_append] at h3
    simp only [lookupInt_rel he ha2.symm, lookupInt_rel he hb2.symm]
    cases st2.env.lookupInt a2 with
    | error _ => simp [StepR, stuck]
    | ok x =>
      cases st2.env.lookupInt b2 with
      | error _ => simp [StepR, stuck]
      | ok y =>
        by_cases hc : compare srt x y = true
        · simp only [hc, if_true]
          exact goto_rel h he ⟨⟨h1.1.2, h2.1.2, h3.1.2⟩, n, hf.1.2, ht2.symm⟩
        · simp only [hc, Bool.false_eq_true, if_false]
          exact goto_rel h he ⟨⟨h1.2, h2.2, h3.2⟩, _, hf.2.mono (focusStmt_le t n), he2.symm⟩
  | ifz srt a t e =>
    rw [hst] at hs hok hf hdb
    have hab : a.isVar = true := by
      simp only [Stmt.split] at hs
      split at hs
      · simp at hs
      · simp_all
    obtain ⟨pa, va, ta, rfl⟩ := Term.isVar_eq hab
    rw [focusStmt_ifz_eq] at hdb
    simp only [bindTerm, kIfz, FsStmt.embed, varI64, dbS, dbT] at hdb
    obtain ⟨a2, t2, e2, hst2, ha2, ht2, he2⟩ := fsS_inv_ifz hdb.symm
    rw [hst2]
    simp only [Stmt.idents, Term.idents, FreshL_append] at hf
    obtain ⟨h1, h2, h3⟩ := hok
    simp only [Stmt.cutsOk, Bool.and_eq_true] at h1
    simp only [Stmt.pcOk, Bool.and_eq_true] at h2
    simp only [Stmt.idents, SigLt_append] at h3
    simp only [lookupInt_rel he ha2.symm]
    cases st2.env.lookupInt a2 with
    | error _ => simp [StepR, stuck]
    | ok x =>
      by_cases hc : compare srt x 0 = true
      · simp only [hc, if_true]
        exact goto_rel h he ⟨⟨h1.1.2, h2.1.2, h3.1.2⟩, n, hf.1.2, ht2.symm⟩
      · simp only [hc, Bool.false_eq_true, if_false]
        exact goto_rel h he ⟨⟨h1.2, h2.2, h3.2⟩, _, hf.2.mono (focusStmt_le t n), he2.symm⟩
  | print nl a nx =>
    rw [hst] at hs hok hf hdb
    have hab : a.isVar = true := by
      simp only [Stmt.split] at hs
      split at hs
      · simp at hs
      · simp_all
    obtain ⟨pa, va, ta, rfl⟩ := Term.isVar_eq hab
    rw [focusStmt_print_eq] at hdb
    simp only [bindTerm, kPrint, FsStmt.embed, varI64, dbS, dbT] at hdb
    obtain ⟨a2, t2, hst2, ha2, ht2⟩ := fsS_inv_print hdb.symm
    rw [hst2]
    simp only [Stmt.idents, Term.idents, FreshL_append] at hf
    obtain ⟨h1, h2, h3⟩ := hok
    simp only [Stmt.cutsOk, Bool.and_eq_true] at h1
    simp only [Stmt.pcOk, Bool.and_eq_true] at h2
    simp only [Stmt.idents, SigLt_append] at h3
    simp only [lookupInt_rel he ha2.symm]
    cases st2.env.lookupInt a2 with
    | error _ => simp [StepR, stuck]
    | ok x =>
      simp only [StepR]
      exact ⟨⟨by simp [hout], he, ⟨⟨h1.2, h2.2, h3.2⟩, n, hf.2, ht2.symm⟩⟩, trivial⟩
  | call f as ty =>
    rw [hst] at hs hok hf hdb
    have has : as.split = none := by
      simp only [Stmt.split] at hs
      split at hs
      · simp at hs
      · assumption
    rw [focusStmt_call_eq, bindMany_allVars as has] at hdb
    simp only [kCall, FsStmt.embed, dbS] at hdb
    obtain ⟨as2, hst2, hA⟩ := fsS_inv_call hdb.symm
    rw [hst2]
    simp only
    rcases find_def_rel (fun nm => decide (nm = f)) hP.defs with ⟨h1, h2⟩ | ⟨d, d', h1, h2, hd⟩
    · simp [h1, h2, StepR, stuck]
    · simp only [h1, h2]
      have hl := argVals_rel he as has as2 hA.symm
      cases h3 : argVals st1.env as <;> cases h4 : st2.env.lookupAll as2 <;>
        simp only [h3, h4, ExRel] at hl ⊢
      · simp [StepR, stuck, hl]
      · have hb := bind_rel (ρ := []) (ρ' := []) (k := st1.fresh) ER.nil d.ctx d'.ctx
          hd.ctx_length hl
        cases h5 : Env.bind ([] : CEnv) d.ctx _ <;> cases h6 : Env.bind ([] : FEnv) d'.ctx _ <;>
          simp only [h5, h6, ExRel] at hb ⊢
        · simp [StepR, stuck, hb]
        · obtain ⟨he', hk1, hk2⟩ := hb
          refine goto_rel h he' ?_
          rw [hk1, hk2]
          simpa using hd.code.mono (Nat.zero_le _)
  | exit a ty =>
    rw [hst] at hs hok hf hdb
    have hab : a.isVar = true := by
      simp only [Stmt.split] at hs
      split at hs
      · simp at hs
      · simp_all
    obtain ⟨pa, va, ta, rfl⟩ := Term.isVar_eq hab
    rw [focusStmt_exit_eq] at hdb
    simp only [bindTerm, kExit, FsStmt.embed, varI64, dbS, dbT] at hdb
    obtain ⟨a2, hst2, ha2⟩ := fsS_inv_exit hdb.symm
    rw [hst2]
    simp only [lookupInt_rel he ha2.symm]
    cases st2.env.lookupInt a2 <;> simp [StepR, stuck]

end FocusSim
end Scc.Core
