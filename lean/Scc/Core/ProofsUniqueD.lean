/-
  Scc.Core.ProofsUniqueD — proof side of C03 "unique binders", part D:
  global distinctness implies distinctness along every path (`uniqueBinders_of_global`),
  soundness of the executable checker (`uniqueBindersCheck_sound`).
-/
import Scc.Core.Unique

namespace Scc.Core

theorem nodupB_iff (l : List Nat) : nodupB l = true ↔ l.Nodup := by
  induction l with
  | nil => simp [nodupB]
  | cons a l ih => simp [nodupB, ih, List.nodup_cons]

mutual
  theorem FsTerm.uniquePath_of_nodup : (t : FsTerm) → (seen : List Nat) → t.binderIds.Nodup →
      (∀ b ∈ t.binderIds, b ∉ seen) → t.UniquePath seen
    | .var _ _ _, _, _, _ => by simp [FsTerm.UniquePath]
    | .lit _, _, _, _ => by simp [FsTerm.UniquePath]
    | .op _ _ _, _, _, _ => by simp [FsTerm.UniquePath]
    | .xtor _ _ _ _, _, _, _ => by simp [FsTerm.UniquePath]
    | .mu _ v _ s, seen, hn, hs => by
      simp only [FsTerm.binderIds, List.nodup_cons, List.mem_cons] at hn hs
      simp only [FsTerm.UniquePath]
      refine ⟨hs _ (Or.inl rfl), FsStmt.uniquePath_of_nodup s _ hn.2 ?_⟩
      intro b hb
      simp only [List.mem_cons, not_or]
      exact ⟨fun h => hn.1 (h ▸ hb), hs b (Or.inr hb)⟩
    | .xcase _ _ cl, seen, hn, hs => by
      simp only [FsTerm.binderIds] at hn hs
      simp only [FsTerm.UniquePath]
      exact FsClauses.uniquePath_of_nodup cl seen hn hs
  theorem FsClauses.uniquePath_of_nodup : (cl : FsClauses) → (seen : List Nat) →
      cl.binderIds.Nodup → (∀ b ∈ cl.binderIds, b ∉ seen) → cl.UniquePath seen
    | .nil, _, _, _ => by simp [FsClauses.UniquePath]
    | .cons _ ctx b r, seen, hn, hs => by
      simp only [FsClauses.binderIds, List.nodup_append, List.mem_append] at hn hs
      simp only [FsClauses.UniquePath]
      refine ⟨hn.1.1, fun i hi => hs i (Or.inl (Or.inl hi)),
        FsStmt.uniquePath_of_nodup b _ hn.1.2.1 ?_,
        FsClauses.uniquePath_of_nodup r seen hn.2.1 (fun i hi => hs i (Or.inr hi))⟩
      intro i hi
      simp only [List.mem_append, not_or]
      exact ⟨fun h => hn.1.2.2 i h i hi rfl, hs i (Or.inl (Or.inr hi))⟩
  theorem FsStmt.uniquePath_of_nodup : (s : FsStmt) → (seen : List Nat) → s.binderIds.Nodup →
      (∀ b ∈ s.binderIds, b ∉ seen) → s.UniquePath seen
    | .cut _ p c, seen, hn, hs => by
      simp only [FsStmt.binderIds, List.nodup_append, List.mem_append] at hn hs
      simp only [FsStmt.UniquePath]
      exact ⟨FsTerm.uniquePath_of_nodup p seen hn.1 (fun i hi => hs i (Or.inl hi)),
        FsTerm.uniquePath_of_nodup c seen hn.2.1 (fun i hi => hs i (Or.inr hi))⟩
    | .ifc _ _ _ t e, seen, hn, hs => by
      simp only [FsStmt.binderIds, List.nodup_append, List.mem_append] at hn hs
      simp only [FsStmt.UniquePath]
      exact ⟨FsStmt.uniquePath_of_nodup t seen hn.1 (fun i hi => hs i (Or.inl hi)),
        FsStmt.uniquePath_of_nodup e seen hn.2.1 (fun i hi => hs i (Or.inr hi))⟩
    | .print _ _ n, seen, hn, hs => by
      simp only [FsStmt.binderIds] at hn hs
      simp only [FsStmt.UniquePath]
      exact FsStmt.uniquePath_of_nodup n seen hn hs
    | .call _ _, _, _, _ => by simp [FsStmt.UniquePath]
    | .exit _, _, _, _ => by simp [FsStmt.UniquePath]
end

/-- distinctness of all binders implies distinctness along every path -/
theorem uniqueBinders_of_global {m : Nat} {d : FsDef} (h : UniqueBindersGlobal m d) :
    UniqueBinders m d := by
  obtain ⟨hn, hf, hle⟩ := h
  simp only [List.nodup_append] at hn
  refine ⟨hn.1, FsStmt.uniquePath_of_nodup _ _ hn.2.1 ?_, hle⟩
  intro b hb
  simp only [List.mem_append, not_or]
  exact ⟨fun h => hn.2.2 b h b hb rfl, fun h => hf b h hb⟩

theorem uniqueBindersCheckDef_sound {m : Nat} {d : FsDef} (h : uniqueBindersCheckDef m d = true) :
    UniqueBindersGlobal m d := by
  simp only [uniqueBindersCheckDef, Bool.and_eq_true, nodupB_iff, List.all_eq_true,
    Bool.not_eq_true', decide_eq_true_eq] at h
  refine ⟨h.1.1, fun i hi hb => ?_, h.2⟩
  have := h.1.2 i hi
  simp [hb] at this

/-- soundness of the executable checker -/
theorem uniqueBindersCheck_sound {p : FsProg} (h : uniqueBindersCheck p = true) :
    ∀ d ∈ p.defs, UniqueBindersGlobal p.maxId d ∧ UniqueBinders p.maxId d := by
  intro d hd
  simp only [uniqueBindersCheck, List.all_eq_true] at h
  have := uniqueBindersCheckDef_sound (h d hd)
  exact ⟨this, uniqueBinders_of_global this⟩

end Scc.Core
