/-
  Scc.Core.Unique — the "unique binders" predicate of C03 on focused Core, and its executable checker.
  Not transcribed from Rust: this is the *statement* that later id-only substitutions
  (core2axcut `SubstVar::subst_sim(&[(ID, Identifier)])`) rely on.  Identity of a variable is its
  numeric `id` (names are ignored, exactly like `SubstVar`).   Core imports only; executable.
-/
import Scc.Core.Syntax

namespace Scc.Core

def ctxIds (c : Ctx) : List Nat := c.map fun b => b.var.id

/-! ## binders, variable occurrences, free variables (by id) of focused Core -/

mutual
  /-- ids of all binders (μ/μ~ variables, clause parameters), in traversal order -/
  def FsTerm.binderIds : FsTerm → List Nat
    | .var _ _ _ => []
    | .lit _ => []
    | .op _ _ _ => []
    | .mu _ v _ s => v.id :: s.binderIds
    | .xtor _ _ _ _ => []
    | .xcase _ _ cl => cl.binderIds
  def FsClauses.binderIds : FsClauses → List Nat
    | .nil => []
    | .cons _ ctx b r => ctxIds ctx ++ b.binderIds ++ r.binderIds
  def FsStmt.binderIds : FsStmt → List Nat
    | .cut _ p c => p.binderIds ++ c.binderIds
    | .ifc _ _ _ t e => t.binderIds ++ e.binderIds
    | .print _ _ n => n.binderIds
    | .call _ _ => []
    | .exit _ => []
end

/-- the ids in `l` that are not bound -/
def unbound (bound l : List Nat) : List Nat := l.filter fun i => !bound.contains i

mutual
  /-- ids of the variable occurrences that are not bound by `bound` or an enclosing binder -/
  def FsTerm.freeIds (bound : List Nat) : FsTerm → List Nat
    | .var _ v _ => unbound bound [v.id]
    | .lit _ => []
    | .op a _ b => unbound bound [a.id, b.id]
    | .mu _ v _ s => s.freeIds (v.id :: bound)
    | .xtor _ _ as _ => unbound bound (ctxIds as)
    | .xcase _ _ cl => cl.freeIds bound
  def FsClauses.freeIds (bound : List Nat) : FsClauses → List Nat
    | .nil => []
    | .cons _ ctx b r => b.freeIds (ctxIds ctx ++ bound) ++ r.freeIds bound
  def FsStmt.freeIds (bound : List Nat) : FsStmt → List Nat
    | .cut _ p c => p.freeIds bound ++ c.freeIds bound
    | .ifc _ a (some b) t e => unbound bound [a.id, b.id] ++ t.freeIds bound ++ e.freeIds bound
    | .ifc _ a none t e => unbound bound [a.id] ++ t.freeIds bound ++ e.freeIds bound
    | .print _ a n => unbound bound [a.id] ++ n.freeIds bound
    | .call _ as => unbound bound (ctxIds as)
    | .exit a => unbound bound [a.id]
end

mutual
  /-- ids of all variable occurrences -/
  def FsTerm.occIds : FsTerm → List Nat
    | .var _ v _ => [v.id]
    | .lit _ => []
    | .op a _ b => [a.id, b.id]
    | .mu _ _ _ s => s.occIds
    | .xtor _ _ as _ => ctxIds as
    | .xcase _ _ cl => cl.occIds
  def FsClauses.occIds : FsClauses → List Nat
    | .nil => []
    | .cons _ _ b r => b.occIds ++ r.occIds
  def FsStmt.occIds : FsStmt → List Nat
    | .cut _ p c => p.occIds ++ c.occIds
    | .ifc _ a (some b) t e => a.id :: b.id :: (t.occIds ++ e.occIds)
    | .ifc _ a none t e => a.id :: (t.occIds ++ e.occIds)
    | .print _ a n => a.id :: n.occIds
    | .call _ as => ctxIds as
    | .exit a => [a.id]
end

/-! ## the property: along every root-to-leaf path the bound ids are pairwise distinct and
       distinct from the ids in `seen` (parameters, free names, binders further up) -/

mutual
  def FsTerm.UniquePath (seen : List Nat) : FsTerm → Prop
    | .var _ _ _ => True
    | .lit _ => True
    | .op _ _ _ => True
    | .mu _ v _ s => v.id ∉ seen ∧ s.UniquePath (v.id :: seen)
    | .xtor _ _ _ _ => True
    | .xcase _ _ cl => cl.UniquePath seen
  def FsClauses.UniquePath (seen : List Nat) : FsClauses → Prop
    | .nil => True
    | .cons _ ctx b r =>
      (ctxIds ctx).Nodup ∧ (∀ i ∈ ctxIds ctx, i ∉ seen) ∧ b.UniquePath (ctxIds ctx ++ seen) ∧
        r.UniquePath seen
  def FsStmt.UniquePath (seen : List Nat) : FsStmt → Prop
    | .cut _ p c => p.UniquePath seen ∧ c.UniquePath seen
    | .ifc _ _ _ t e => t.UniquePath seen ∧ e.UniquePath seen
    | .print _ _ n => n.UniquePath seen
    | .call _ _ => True
    | .exit _ => True
end

/-- C03, second sentence, for one definition of a program with counter `maxId`:
    parameters pairwise distinct; along every path of the body the binders are pairwise distinct,
    distinct from the parameters and from every free name of the body; every id is `≤ maxId`. -/
def UniqueBinders (maxId : Nat) (d : FsDef) : Prop :=
  (ctxIds d.ctx).Nodup ∧
  d.body.UniquePath (ctxIds d.ctx ++ d.body.freeIds (ctxIds d.ctx)) ∧
  ∀ i ∈ ctxIds d.ctx ++ d.body.binderIds ++ d.body.occIds, i ≤ maxId

/-- the stronger fact that holds for the output of `focus` and that the checker tests: ALL binders
    of a definition (not only those on one path) and its parameters are pairwise distinct, and no
    binder is the id of a free name -/
def UniqueBindersGlobal (maxId : Nat) (d : FsDef) : Prop :=
  (ctxIds d.ctx ++ d.body.binderIds).Nodup ∧
  (∀ i ∈ d.body.freeIds (ctxIds d.ctx), i ∉ d.body.binderIds) ∧
  ∀ i ∈ ctxIds d.ctx ++ d.body.binderIds ++ d.body.occIds, i ≤ maxId

def nodupB : List Nat → Bool
  | [] => true
  | a :: l => !l.contains a && nodupB l

def uniqueBindersCheckDef (maxId : Nat) (d : FsDef) : Bool :=
  nodupB (ctxIds d.ctx ++ d.body.binderIds) &&
  (d.body.freeIds (ctxIds d.ctx)).all (fun i => !d.body.binderIds.contains i) &&
  (ctxIds d.ctx ++ d.body.binderIds ++ d.body.occIds).all (fun i => i ≤ maxId)

/-- executable checker, to be run on the implementation's S3 output -/
def uniqueBindersCheck (p : FsProg) : Bool := p.defs.all (uniqueBindersCheckDef p.maxId)

/-- line interface: S3 dump text ↦ `OK true` / `OK false` -/
def runLineUniqueCheck (dumpS3 : String) : String :=
  match Sexp.parse dumpS3 with
  | none => "ERR sexp"
  | some sx =>
    match readFsProg (dumpS3.length + 10) sx with
    | none => "ERR read"
    | some p => "OK " ++ toString (uniqueBindersCheck p)

end Scc.Core
