/-
  Scc.AxCut.LinRel — SPEC/proof file (C05, T4): a declarative description of "s' is a linearization
  of the named statement s₀ under the ordered context Γ", where `ys` lists, position by position,
  the NAMED variable whose value sits at that position (`ys` and `Γ` have the same length).

  `LinRel` is `LinTyped` with the named statement alongside: every rule says which named variables
  the positions of the context stand for, so that the named machine (environment = map from ids)
  and the positional machine (environment = list) can be run in lockstep
  (Scc/AxCut/LinRelSim.lean).  That `linearize` produces `LinRel`-related output is proved in
  Scc/AxCut/LinRelLin.lean.
-/
import Scc.AxCut.LinTyping

namespace Scc.AxCut

/-- named variable `y` sits at a position of `Γ` whose binding has id `z`, kind `chi`, type `ty` -/
def Occ (ys : List Nat) (Γ : Ctx) (y z : Nat) (chi : Chi) (ty : Ty) : Prop :=
  ∃ (i : Nat) (b : Binding), ys[i]? = some y ∧ Γ[i]? = some b ∧ b.var.id = z ∧ b.chi = chi ∧ b.ty = ty

/-- an explicit substitution `pairs` turns (ys, Γ) into (ys₁, pairs.map fst): the j-th new
position takes the value of the position of Γ that holds the old variable, and stands for the same
named variable -/
def Rearr (ys : List Nat) (Γ : Ctx) : List Nat → List (Binding × Ident) → Prop
  | [], [] => True
  | y :: ys₁, p :: pairs => Occ ys Γ y p.2.id p.1.chi p.1.ty ∧ Rearr ys Γ ys₁ pairs
  | _, _ => False

mutual
  inductive LinRel (T : List TypeDecl) (S : Sigs) : List Nat → Ctx → Stmt → Stmt → Prop where
    | subst {ys ys₁ : List Nat} {Γ : Ctx} {pairs : List (Binding × Ident)} {s₀ s' : Stmt} :
        NodupIds Γ → ys.length = Γ.length →
        Rearr ys Γ ys₁ pairs →
        NodupIds (pairs.map (·.1)) →
        LinRel T S ys₁ (pairs.map (·.1)) s₀ s' →
        LinRel T S ys Γ s₀ (.subst pairs s')
    | call {ys : List Nat} {Γ : Ctx} {l : Ident} {args₀ args' params : Ctx} :
        NodupIds Γ → ys.length = Γ.length →
        findSig S l = some params → Γ.chiTys = params.chiTys →
        args₀.ids = ys →
        LinRel T S ys Γ (.call l args₀) (.call l args')
    | letS {ys ys' : List Nat} {Γ Γ' Γa : Ctx} {x : Ident} {ty : Ty} {tag : Ident}
        {args₀ args' sig : Ctx} {n₀ n' : Stmt} {fv₀ fv' : FV} :
        NodupIds Γ → Γ = Γ' ++ Γa → ys = ys' ++ args₀.ids → ys'.length = Γ'.length →
        Γa.keys = args'.keys → lookupXtor T ty tag = some sig → args'.chiTys = sig.chiTys →
        x.id ∉ Γ'.ids → x.id ∉ ys' →
        LinRel T S (ys' ++ [x.id]) (Γ' ++ [⟨x, .prd, ty⟩]) n₀ n' →
        LinRel T S ys Γ (.letS x ty tag args₀ n₀ fv₀) (.letS x ty tag args' n' fv')
    | switch {ys ys' : List Nat} {Γ Γ' : Ctx} {b : Binding} {x₀ x' : Ident} {ty : Ty}
        {cs₀ cs' : Clauses} {fv₀ fv' : FV} {d : TypeDecl} :
        NodupIds Γ → Γ = Γ' ++ [b] → ys = ys' ++ [x₀.id] → ys'.length = Γ'.length →
        b.key = (x'.id, .prd, ty) → lookupTypeDecl T ty = some d → ClausesMatch d.xtors cs' →
        LinRelClauses T S ys' [] Γ' [] cs₀ cs' →
        LinRel T S ys Γ (.switch x₀ ty cs₀ fv₀) (.switch x' ty cs' fv')
    | create {ys ysn yse : List Nat} {Γ Γn Γe Γc : Ctx} {x : Ident} {ty : Ty} {cs₀ cs' : Clauses}
        {n₀ n' : Stmt} {fc₀ fn₀ fc' fn' : FV} {d : TypeDecl} :
        NodupIds Γ → Γ = Γn ++ Γe → ys = ysn ++ yse → ysn.length = Γn.length →
        Γe.keys = Γc.keys → lookupTypeDecl T ty = some d → ClausesMatch d.xtors cs' →
        LinRelClauses T S [] yse [] Γc cs₀ cs' →
        x.id ∉ Γn.ids → x.id ∉ ysn →
        LinRel T S (ysn ++ [x.id]) (Γn ++ [⟨x, .cns, ty⟩]) n₀ n' →
        LinRel T S ys Γ (.create x ty none cs₀ n₀ fc₀ fn₀) (.create x ty (some Γc) cs' n' fc' fn')
    | invoke {ys : List Nat} {Γ Γa : Ctx} {b : Binding} {x₀ x' tag : Ident} {ty : Ty}
        {args₀ args' sig : Ctx} :
        NodupIds Γ → Γ = Γa ++ [b] → ys = args₀.ids ++ [x₀.id] → args₀.length = Γa.length →
        b.key = (x'.id, .cns, ty) → lookupXtor T ty tag = some sig → Γa.chiTys = sig.chiTys →
        LinRel T S ys Γ (.invoke x₀ tag ty args₀) (.invoke x' tag ty args')
    | lit {ys : List Nat} {Γ : Ctx} {x : Ident} {k : Int} {n₀ n' : Stmt} {fv₀ fv' : FV} :
        NodupIds Γ → ys.length = Γ.length → x.id ∉ Γ.ids → x.id ∉ ys →
        LinRel T S (ys ++ [x.id]) (Γ ++ [⟨x, .ext, .i64⟩]) n₀ n' →
        LinRel T S ys Γ (.lit x k n₀ fv₀) (.lit x k n' fv')
    | op {ys : List Nat} {Γ : Ctx} {x a₀ a' : Ident} {o : BinOp} {b₀ b' : Ident} {n₀ n' : Stmt}
        {fv₀ fv' : FV} :
        NodupIds Γ → ys.length = Γ.length →
        Occ ys Γ a₀.id a'.id .ext .i64 → Occ ys Γ b₀.id b'.id .ext .i64 →
        x.id ∉ Γ.ids → x.id ∉ ys →
        LinRel T S (ys ++ [x.id]) (Γ ++ [⟨x, .ext, .i64⟩]) n₀ n' →
        LinRel T S ys Γ (.op x a₀ o b₀ n₀ fv₀) (.op x a' o b' n' fv')
    | print {ys : List Nat} {Γ : Ctx} {nl : Bool} {a₀ a' : Ident} {n₀ n' : Stmt} {fv₀ fv' : FV} :
        NodupIds Γ → ys.length = Γ.length →
        Occ ys Γ a₀.id a'.id .ext .i64 →
        LinRel T S ys Γ n₀ n' →
        LinRel T S ys Γ (.print nl a₀ n₀ fv₀) (.print nl a' n' fv')
    | ifc {ys : List Nat} {Γ : Ctx} {s : IfSort} {a₀ a' : Ident} {b₀ b' : Option Ident}
        {t₀ t' e₀ e' : Stmt} :
        NodupIds Γ → ys.length = Γ.length →
        Occ ys Γ a₀.id a'.id .ext .i64 →
        (match b₀, b' with
          | none, none => True
          | some c₀, some c' => Occ ys Γ c₀.id c'.id .ext .i64
          | _, _ => False) →
        LinRel T S ys Γ t₀ t' → LinRel T S ys Γ e₀ e' →
        LinRel T S ys Γ (.ifc s a₀ b₀ t₀ e₀) (.ifc s a' b' t' e')
    | exit {ys : List Nat} {Γ : Ctx} {a₀ a' : Ident} :
        NodupIds Γ → ys.length = Γ.length →
        Occ ys Γ a₀.id a'.id .ext .i64 →
        LinRel T S ys Γ (.exit a₀) (.exit a')
  /-- clause lists: same xtors and parameters; bodies related under
  `ysPre ++ (parameter ids) ++ ysPost` / `pre ++ parameters ++ post` -/
  inductive LinRelClauses (T : List TypeDecl) (S : Sigs) :
      List Nat → List Nat → Ctx → Ctx → Clauses → Clauses → Prop where
    | nil {ysPre ysPost : List Nat} {pre post : Ctx} :
        LinRelClauses T S ysPre ysPost pre post .nil .nil
    | cons {ysPre ysPost : List Nat} {pre post : Ctx} {x : Ident} {ctx : Ctx} {b₀ b' : Stmt}
        {r₀ r' : Clauses} :
        NodupIds ctx → (∀ i ∈ ctx.ids, i ∉ ysPre ∧ i ∉ ysPost) →
        LinRel T S (ysPre ++ ctx.ids ++ ysPost) (pre ++ ctx ++ post) b₀ b' →
        LinRelClauses T S ysPre ysPost pre post r₀ r' →
        LinRelClauses T S ysPre ysPost pre post (.cons x ctx b₀ r₀) (.cons x ctx b' r')
end

/-- the linearized program `p'` is, definition by definition, a linearization of `p` -/
def LinRelDefs (T : List TypeDecl) (S : Sigs) : List Def → List Def → Prop
  | [], [] => True
  | d :: ds, d' :: ds' =>
    (d'.name = d.name ∧ d'.ctx = d.ctx ∧ NodupIds d.ctx ∧
      LinRel T S d.ctx.ids d.ctx d.body d'.body) ∧ LinRelDefs T S ds ds'
  | _, _ => False

def LinRelProg (p p' : Prog) : Prop :=
  p'.types = p.types ∧ p'.sigs = p.sigs ∧ LinRelDefs p.types p.sigs p.defs p'.defs

end Scc.AxCut
