/-
  Scc.AxCut.LinMain — proof file (C05, T3): `linearize` succeeds on `WTA` statements and its
  output is `LinTyped`; lifted to definitions and programs.
-/
import Scc.AxCut.LinProofs

namespace Scc.AxCut

/-! ## helpers -/

theorem map_fst_zip_vars (newB old : Ctx) (h : newB.length = old.length) :
    (rearrange newB old).map (·.1) = newB := by
  unfold rearrange Ctx.vars
  have : newB.length ≤ (old.map (·.var)).length := by simp [h]
  exact List.map_fst_zip this

theorem mem_zip_swap' {α β} : ∀ (l1 : List α) (l2 : List β) (a : α) (b : β),
    (a, b) ∈ l1.zip l2 → (b, a) ∈ l2.zip l1 := by
  intro l1
  induction l1 with
  | nil => intro l2 a b h; simp at h
  | cons x xs ih =>
    intro l2 a b h
    cases l2 with
    | nil => simp at h
    | cons y ys =>
      simp only [List.zip_cons_cons, List.mem_cons, Prod.mk.injEq] at h ⊢
      rcases h with ⟨rfl, rfl⟩ | h
      · exact Or.inl ⟨rfl, rfl⟩
      · exact Or.inr (ih ys a b h)

theorem mem_rearrange {newB old : Ctx} {p : Binding × Ident} (h : p ∈ rearrange newB old) :
    ∃ q ∈ old.zip newB, p = (q.2, q.1.var) := by
  unfold rearrange Ctx.vars at h
  rw [List.zip_map_right] at h
  obtain ⟨q, hq, rfl⟩ := List.mem_map.1 h
  refine ⟨(q.2, q.1), ?_, rfl⟩
  exact mem_zip_swap' _ _ q.1 q.2 hq

/-- the one rule that reorders, duplicates and drops: an explicit substitution built by `zip` -/
theorem linTyped_rearrange {T : List TypeDecl} {S : Sigs} {Γ newB old : Ctx} {next : Stmt}
    (hΓ : NodupIds Γ) (hlen : newB.length = old.length)
    (hp : ∀ p ∈ old.zip newB, HasVar Γ p.1.var.id p.2.chi p.2.ty)
    (hnew : NodupIds newB) (hnext : LinTyped T S newB next) :
    LinTyped T S Γ (.subst (rearrange newB old) next) := by
  refine .subst hΓ ?_ ?_ ?_
  · intro p hp'
    obtain ⟨q, hq, rfl⟩ := mem_rearrange hp'
    exact hp q hq
  · rw [map_fst_zip_vars newB old hlen]; exact hnew
  · rw [map_fst_zip_vars newB old hlen]; exact hnext

theorem mem_zip_self {α} : ∀ (l : List α) (p : α × α), p ∈ l.zip l → p.1 = p.2 ∧ p.1 ∈ l := by
  intro l
  induction l with
  | nil => intro p h; simp at h
  | cons x xs ih =>
    intro p h
    simp only [List.zip_cons_cons, List.mem_cons] at h
    rcases h with rfl | h
    · exact ⟨rfl, by simp⟩
    · exact ⟨(ih p h).1, List.mem_cons_of_mem _ (ih p h).2⟩

theorem chiTys_eq_of_zip : ∀ (l1 l2 : Ctx), l2.length = l1.length →
    (∀ p ∈ l1.zip l2, p.2.chi = p.1.chi ∧ p.2.ty = p.1.ty) → l2.chiTys = l1.chiTys := by
  intro l1
  induction l1 with
  | nil => intro l2 hl _; cases l2 with
    | nil => rfl
    | cons _ _ => simp at hl
  | cons x xs ih =>
    intro l2 hl h
    cases l2 with
    | nil => simp at hl
    | cons y ys =>
      have h0 := h (x, y) (by simp)
      simp only [Ctx.chiTys, List.map_cons, List.cons.injEq, Prod.mk.injEq]
      exact ⟨⟨h0.1, h0.2⟩, ih ys (by simpa using hl) (fun p hp => h p (by simp [hp]))⟩

theorem ids_le_of_sub {Γ : Ctx} {A : List Nat} {M : Nat} (hsub : ∀ i ∈ Γ.ids, i ∈ A)
    (hA : ∀ a ∈ A, a ≤ M) : ∀ i ∈ Γ.ids, i ≤ M := fun i hi => hA i (hsub i hi)

theorem filterBySet_ids_sub {Γ : Ctx} {S A : List Nat} (hsub : ∀ i ∈ Γ.ids, i ∈ A) :
    ∀ i ∈ (filterBySet Γ S).ids, i ∈ A := fun i hi => hsub i (mem_ids_filterBySet.1 hi).1

/-- the "identity" rearrangement of literal / op / print: drop what is not needed any more -/
theorem linTyped_drop {T : List TypeDecl} {S : Sigs} {Γ : Ctx} {Sn : List Nat} {s : Stmt}
    (hΓ : NodupIds Γ) (h : LinTyped T S (filterBySet Γ Sn) s) :
    LinTyped T S Γ (.subst (rearrange (filterBySet Γ Sn) (filterBySet Γ Sn)) s) := by
  refine linTyped_rearrange hΓ rfl ?_ (filterBySet_nodup hΓ) h
  intro p hp
  obtain ⟨e, hm⟩ := mem_zip_self _ p hp
  rw [← e]
  exact hasVar_of_mem (filterBySet_sub hm)

/-- what T3 proves for statements, at fuel `n` -/
def StmtGoal (T : List TypeDecl) (S : Sigs) (n : Nat) : Prop :=
  ∀ (s : Stmt) (A : List Nat) (Γ : Ctx) (M : Nat), s.size < n → WTA T S M s A Γ → NodupIds Γ →
    (∀ i ∈ Γ.ids, i ∈ A) → (∀ a ∈ A, a ≤ M) →
    ∃ s' M', linearize n s Γ M = .ok (s', M') ∧ M ≤ M' ∧ LinTyped T S Γ s'

/-- what T3 proves for clause lists, at fuel `n` -/
def ClausesGoal (T : List TypeDecl) (S : Sigs) (n : Nat) : Prop :=
  ∀ (cs : Clauses) (A : List Nat) (pre post : Ctx) (M : Nat), cs.size < n →
    WTAClauses T S M cs A pre post → NodupIds (pre ++ post) →
    (∀ i ∈ (pre ++ post).ids, i ∈ A) → (∀ a ∈ A, a ≤ M) →
    ∃ cs' M', linearizeClauses n cs pre post M = .ok (cs', M') ∧ M ≤ M' ∧
      LinTypedClauses T S pre post cs' ∧ ∀ xs, ClausesMatch xs cs' ↔ ClausesMatch xs cs

section cases
variable {T : List TypeDecl} {S : Sigs}

theorem lin_exit (n : Nat) (x : Ident) (A : List Nat) (Γ : Ctx) (M : Nat)
    (h : WTA T S M (.exit x) A Γ) (hn : NodupIds Γ) :
    ∃ s' M', linearize (n + 1) (.exit x) Γ M = .ok (s', M') ∧ M ≤ M' ∧ LinTyped T S Γ s' := by
  simp only [WTA] at h
  exact ⟨_, _, by simp only [linearize], Nat.le_refl _, .exit hn h⟩

theorem lin_call (n : Nat) (l : Ident) (args : Ctx) (A : List Nat) (Γ : Ctx) (M : Nat)
    (h : WTA T S M (.call l args) A Γ) (hn : NodupIds Γ)
    (hsub : ∀ i ∈ Γ.ids, i ∈ A) (hA : ∀ a ∈ A, a ≤ M) :
    ∃ s' M', linearize (n + 1) (.call l args) Γ M = .ok (s', M') ∧ M ≤ M' ∧ LinTyped T S Γ s' := by
  simp only [WTA] at h
  obtain ⟨params, h1, h2, h3⟩ := h
  simp only [linearize]
  split
  · rename_i e
    subst e
    exact ⟨_, _, rfl, Nat.le_refl _, .call hn h1 h2⟩
  · have hargs : ∀ i ∈ args.ids, i ≤ M := fun i hi => hA i (hsub i (argsIn_ids h3 i hi))
    obtain ⟨f1, f2, f3, f4, f5, f6⟩ := freshen_spec M args [] M hargs (by simp) (Nat.le_refl _)
    generalize freshen args [] M = r at *
    obtain ⟨f, M1⟩ := r
    refine ⟨_, _, rfl, f1, ?_⟩
    refine linTyped_rearrange hn f2 ?_ f4 (.call f4 h1 ?_)
    · intro p hp
      obtain ⟨e1, e2, _⟩ := f3 p hp
      rw [e1, e2]
      exact h3 p.1 (List.of_mem_zip hp).1
    · rw [chiTys_eq_of_zip args f f2 (fun p hp => ⟨(f3 p hp).1, (f3 p hp).2.1⟩)]; exact h2

theorem lin_invoke (n : Nat) (x tag : Ident) (ty : Ty) (args : Ctx) (A : List Nat) (Γ : Ctx) (M : Nat)
    (h : WTA T S M (.invoke x tag ty args) A Γ) (hn : NodupIds Γ)
    (hsub : ∀ i ∈ Γ.ids, i ∈ A) (hA : ∀ a ∈ A, a ≤ M) :
    ∃ s' M', linearize (n + 1) (.invoke x tag ty args) Γ M = .ok (s', M') ∧ M ≤ M' ∧
      LinTyped T S Γ s' := by
  simp only [WTA] at h
  obtain ⟨h1, ⟨sig, h2, h2'⟩, h3⟩ := h
  simp only [linearize]
  split
  · rename_i e
    exact ⟨_, _, rfl, Nat.le_refl _, .invoke hn e rfl h2 h2'⟩
  · have hargs : ∀ i ∈ args.ids, i ≤ M := fun i hi => hA i (hsub i (argsIn_ids h3 i hi))
    have hx : ∀ i ∈ [x.id], i ≤ M := by
      intro i hi; simp at hi; subst hi; exact hA _ (hsub _ h1.mem_ids)
    obtain ⟨f1, f2, f3, f4, f5, f6⟩ := freshen_spec M args [x.id] M hargs hx (Nat.le_refl _)
    generalize freshen args [x.id] M = r at *
    obtain ⟨f, M1⟩ := r
    refine ⟨_, _, rfl, f1, ?_⟩
    have hnew : NodupIds (f ++ [(⟨x, .cns, ty⟩ : Binding)]) :=
      nodupIds_append_singleton f4 (fun hm => f5 _ hm (by simp))
    refine linTyped_rearrange hn (by simp [f2]) ?_ hnew (.invoke hnew rfl rfl h2 ?_)
    · intro p hp
      rw [List.zip_append (by simp [f2])] at hp
      rcases List.mem_append.1 hp with hp | hp
      · obtain ⟨e1, e2, _⟩ := f3 p hp
        rw [e1, e2]
        exact h3 p.1 (List.of_mem_zip hp).1
      · simp at hp; subst hp; exact h1
    · rw [chiTys_eq_of_zip args f f2 (fun p hp => ⟨(f3 p hp).1, (f3 p hp).2.1⟩)]; exact h2'

/-- preparation shared by the binding statements: the continuation under `filter ++ [binder]` -/
theorem prep_next {A : List Nat} {Γ : Ctx} {M : Nat} {Sn : List Nat} {xb : Binding} {next : Stmt}
    (hn : NodupIds Γ) (hsub : ∀ i ∈ Γ.ids, i ∈ A) (hA : ∀ a ∈ A, a ≤ M)
    (hx : xb.var.id ∉ A) (hxM : xb.var.id ≤ M)
    (h : WTA T S M next (A ++ [xb.var.id]) (Γ.filter (inSet Sn) ++ [xb])) :
    WTA T S M next (A ++ [xb.var.id]) (filterBySet Γ Sn ++ [xb]) ∧
    NodupIds (filterBySet Γ Sn ++ [xb]) ∧
    (∀ i ∈ (filterBySet Γ Sn ++ [xb]).ids, i ∈ A ++ [xb.var.id]) ∧
    (∀ a ∈ A ++ [xb.var.id], a ≤ M) ∧
    xb.var.id ∉ (filterBySet Γ Sn).ids := by
  have hnot : xb.var.id ∉ (filterBySet Γ Sn).ids := fun hm => hx (filterBySet_ids_sub hsub _ hm)
  refine ⟨WTA_congr T S M next _ _ _ ((keysEq_filterBySet Γ Sn).symm.append (KeysEq.refl _)) h,
    nodupIds_append_singleton (filterBySet_nodup hn) hnot, ?_, le_append_singleton hA hxM, hnot⟩
  intro i hi
  rcases mem_ids_append_singleton.1 hi with hi | hi
  · exact List.mem_append_left _ (filterBySet_ids_sub hsub i hi)
  · exact List.mem_append_right _ (by simp [hi])

theorem lin_lit (n : Nat) (ih : StmtGoal T S n) (x : Ident) (k : Int) (next : Stmt) (fv : FV)
    (A : List Nat) (Γ : Ctx) (M : Nat) (hsz : (Stmt.lit x k next fv).size < n + 1)
    (h : WTA T S M (.lit x k next fv) A Γ) (hn : NodupIds Γ)
    (hsub : ∀ i ∈ Γ.ids, i ∈ A) (hA : ∀ a ∈ A, a ≤ M) :
    ∃ s' M', linearize (n + 1) (.lit x k next fv) Γ M = .ok (s', M') ∧ M ≤ M' ∧
      LinTyped T S Γ s' := by
  simp only [WTA] at h
  obtain ⟨h1, h2, Sn, rfl, h4, h5⟩ := h
  obtain ⟨p1, p2, p3, p4, p5⟩ := prep_next (xb := ⟨x, .ext, .i64⟩) hn hsub hA h1 h2 h5
  have hsz' : next.size < n := by simp only [Stmt.size] at hsz; omega
  obtain ⟨next', M', e, hle, ht⟩ := ih next _ _ M hsz' p1 p2 p3 p4
  simp only [linearize, e]
  split
  · rename_i e'
    refine ⟨_, _, rfl, hle, .lit hn ?_ ?_⟩
    · rw [e']; exact p5
    · rw [e']; exact ht
  · exact ⟨_, _, rfl, hle, linTyped_drop hn (.lit (filterBySet_nodup hn) p5 ht)⟩

theorem lin_op (n : Nat) (ih : StmtGoal T S n) (x a : Ident) (o : BinOp) (b : Ident) (next : Stmt)
    (fv : FV) (A : List Nat) (Γ : Ctx) (M : Nat) (hsz : (Stmt.op x a o b next fv).size < n + 1)
    (h : WTA T S M (.op x a o b next fv) A Γ) (hn : NodupIds Γ)
    (hsub : ∀ i ∈ Γ.ids, i ∈ A) (hA : ∀ a ∈ A, a ≤ M) :
    ∃ s' M', linearize (n + 1) (.op x a o b next fv) Γ M = .ok (s', M') ∧ M ≤ M' ∧
      LinTyped T S Γ s' := by
  simp only [WTA] at h
  obtain ⟨ha, hb, h1, h2, Sn, rfl, h4, h5⟩ := h
  obtain ⟨p1, p2, p3, p4, p5⟩ := prep_next (xb := ⟨x, .ext, .i64⟩) hn hsub hA h1 h2 h5
  have hsz' : next.size < n := by simp only [Stmt.size] at hsz; omega
  obtain ⟨next', M', e, hle, ht⟩ := ih next _ _ M hsz' p1 p2 p3 p4
  have ha' : HasVar (filterBySet Γ (b.id :: a.id :: Sn)) a.id .ext .i64 :=
    hasVar_filterBySet.2 ⟨ha, by simp⟩
  have hb' : HasVar (filterBySet Γ (b.id :: a.id :: Sn)) b.id .ext .i64 :=
    hasVar_filterBySet.2 ⟨hb, by simp⟩
  simp only [linearize, e]
  split
  · rename_i e'
    refine ⟨_, _, rfl, hle, .op hn ha hb ?_ ?_⟩
    · rw [e']; exact p5
    · rw [e']; exact ht
  · exact ⟨_, _, rfl, hle, linTyped_drop hn (.op (filterBySet_nodup hn) ha' hb' p5 ht)⟩

theorem lin_print (n : Nat) (ih : StmtGoal T S n) (nl : Bool) (a : Ident) (next : Stmt)
    (fv : FV) (A : List Nat) (Γ : Ctx) (M : Nat) (hsz : (Stmt.print nl a next fv).size < n + 1)
    (h : WTA T S M (.print nl a next fv) A Γ) (hn : NodupIds Γ)
    (hsub : ∀ i ∈ Γ.ids, i ∈ A) (hA : ∀ a ∈ A, a ≤ M) :
    ∃ s' M', linearize (n + 1) (.print nl a next fv) Γ M = .ok (s', M') ∧ M ≤ M' ∧
      LinTyped T S Γ s' := by
  simp only [WTA] at h
  obtain ⟨ha, Sn, rfl, h4, h5⟩ := h
  have hsz' : next.size < n := by simp only [Stmt.size] at hsz; omega
  have p1 := WTA_congr T S M next _ _ _ (keysEq_filterBySet Γ (a.id :: Sn)).symm h5
  obtain ⟨next', M', e, hle, ht⟩ := ih next _ _ M hsz' p1 (filterBySet_nodup hn)
    (filterBySet_ids_sub hsub) hA
  have ha' : HasVar (filterBySet Γ (a.id :: Sn)) a.id .ext .i64 :=
    hasVar_filterBySet.2 ⟨ha, by simp⟩
  simp only [linearize, e]
  split
  · rename_i e'
    refine ⟨_, _, rfl, hle, .print hn ha ?_⟩
    rw [e']; exact ht
  · exact ⟨_, _, rfl, hle, linTyped_drop hn (.print (filterBySet_nodup hn) ha' ht)⟩

theorem lin_ifc (n : Nat) (ih : StmtGoal T S n) (s : IfSort) (a : Ident) (b : Option Ident)
    (t e : Stmt) (A : List Nat) (Γ : Ctx) (M : Nat) (hsz : (Stmt.ifc s a b t e).size < n + 1)
    (h : WTA T S M (.ifc s a b t e) A Γ) (hn : NodupIds Γ)
    (hsub : ∀ i ∈ Γ.ids, i ∈ A) (hA : ∀ a ∈ A, a ≤ M) :
    ∃ s' M', linearize (n + 1) (.ifc s a b t e) Γ M = .ok (s', M') ∧ M ≤ M' ∧
      LinTyped T S Γ s' := by
  simp only [WTA] at h
  obtain ⟨ha, hb, ht, he⟩ := h
  have hszt : t.size < n := by simp only [Stmt.size] at hsz; omega
  have hsze : e.size < n := by simp only [Stmt.size] at hsz; omega
  obtain ⟨t', M1, e1, hle1, ht'⟩ := ih t A Γ M hszt ht hn hsub hA
  obtain ⟨e', M2, e2, hle2, he'⟩ := ih e A Γ M1 hsze (WTA_mono T S hle1 e A Γ he) hn hsub
    (fun a ha => Nat.le_trans (hA a ha) hle1)
  simp only [linearize, e1, e2]
  exact ⟨_, _, rfl, Nat.le_trans hle1 hle2, .ifc hn ha hb ht' he'⟩

theorem lin_let (n : Nat) (ih : StmtGoal T S n) (x : Ident) (ty : Ty) (tag : Ident) (args : Ctx)
    (next : Stmt) (fv : FV) (A : List Nat) (Γ : Ctx) (M : Nat)
    (hsz : (Stmt.letS x ty tag args next fv).size < n + 1)
    (h : WTA T S M (.letS x ty tag args next fv) A Γ) (hn : NodupIds Γ)
    (hsub : ∀ i ∈ Γ.ids, i ∈ A) (hA : ∀ a ∈ A, a ≤ M) :
    ∃ s' M', linearize (n + 1) (.letS x ty tag args next fv) Γ M = .ok (s', M') ∧ M ≤ M' ∧
      LinTyped T S Γ s' := by
  simp only [WTA] at h
  obtain ⟨⟨sig, hs, hs'⟩, hargs, h1, h2, Sn, rfl, h4, h5⟩ := h
  obtain ⟨p1, p2, p3, p4, p5⟩ := prep_next (xb := ⟨x, .prd, ty⟩) hn hsub hA h1 h2 h5
  have hsz' : next.size < n := by simp only [Stmt.size] at hsz; omega
  simp only [linearize]
  split
  · rename_i e'
    obtain ⟨next', M', e, hle, ht⟩ := ih next _ _ M hsz' p1 p2 p3 p4
    simp only [e]
    exact ⟨_, _, rfl, hle, .letS hn e' rfl hs hs' p5 ht⟩
  · have hargsM : ∀ i ∈ args.ids, i ≤ M := fun i hi => hA i (hsub i (argsIn_ids hargs i hi))
    have hncM : ∀ i ∈ (filterBySet Γ Sn).ids, i ≤ M := fun i hi => hA i (filterBySet_ids_sub hsub i hi)
    obtain ⟨f1, f2, f3, f4, f5, f6⟩ :=
      freshen_spec M args (filterBySet Γ Sn).ids M hargsM hncM (Nat.le_refl _)
    generalize freshen args (filterBySet Γ Sn).ids M = r at *
    obtain ⟨args', M1⟩ := r
    simp only at f1 f2 f3 f4 f5 f6
    obtain ⟨next', M', e, hle, ht⟩ := ih next _ _ M1 hsz' (WTA_mono T S f1 _ _ _ p1) p2 p3
      (fun a ha => Nat.le_trans (p4 a ha) f1)
    simp only [e]
    have hnew : NodupIds (filterBySet Γ Sn ++ args') :=
      nodupIds_append (filterBySet_nodup hn) f4 (fun i hi => f5 i hi)
    refine ⟨_, _, rfl, Nat.le_trans f1 hle, ?_⟩
    refine linTyped_rearrange hn (by simp [f2]) ?_ hnew (.letS hnew rfl rfl hs ?_ p5 ht)
    · intro p hp
      rw [List.zip_append rfl] at hp
      rcases List.mem_append.1 hp with hp | hp
      · obtain ⟨e0, hm⟩ := mem_zip_self _ p hp
        rw [← e0]
        exact hasVar_of_mem (filterBySet_sub hm)
      · obtain ⟨e1, e2, _⟩ := f3 p hp
        rw [e1, e2]
        exact hargs p.1 (List.of_mem_zip hp).1
    · rw [chiTys_eq_of_zip args args' f2 (fun p hp => ⟨(f3 p hp).1, (f3 p hp).2.1⟩)]; exact hs'

theorem nodupIds_insert {pre ctx post : Ctx} (hn : NodupIds (pre ++ post)) (hc : NodupIds ctx)
    (hdisj : ∀ i ∈ ctx.ids, i ∉ (pre ++ post).ids) : NodupIds (pre ++ ctx ++ post) := by
  have hp : (pre ++ ctx ++ post).Perm ((pre ++ post) ++ ctx) := by
    rw [List.append_assoc, List.append_assoc]
    exact List.Perm.append_left pre List.perm_append_comm
  unfold NodupIds Ctx.ids
  rw [(hp.map _).nodup_iff]
  exact nodupIds_append hn hc hdisj

theorem lin_clauses (n : Nat) (ihs : StmtGoal T S n) (ihc : ClausesGoal T S n) :
    ClausesGoal T S (n + 1) := by
  intro cs A pre post M hsz h hn hsub hA
  cases cs with
  | nil =>
    exact ⟨.nil, M, by simp only [linearizeClauses], Nat.le_refl _, .nil, fun xs => Iff.rfl⟩
  | cons x ctx body rest =>
    simp only [WTAClauses] at h
    obtain ⟨h1, h2, h3, h4⟩ := h
    have hszb : body.size < n := by simp only [Clauses.size] at hsz; omega
    have hszr : rest.size < n := by simp only [Clauses.size] at hsz; omega
    have hnb : NodupIds (pre ++ ctx ++ post) :=
      nodupIds_insert hn h1 (fun i hi hm => (h2 i hi).1 (hsub i hm))
    have hsubb : ∀ i ∈ (pre ++ ctx ++ post).ids, i ∈ A ++ ctx.ids := by
      intro i hi
      simp only [ids_append, List.mem_append] at hi hsub ⊢
      rcases hi with (hi | hi) | hi
      · exact Or.inl (hsub i (Or.inl hi))
      · exact Or.inr hi
      · exact Or.inl (hsub i (Or.inr hi))
    have hAb : ∀ a ∈ A ++ ctx.ids, a ≤ M := by
      intro a ha
      rcases List.mem_append.1 ha with ha | ha
      · exact hA a ha
      · exact (h2 a ha).2
    obtain ⟨body', M1, e1, hle1, ht⟩ := ihs body _ _ M hszb h3 hnb hsubb hAb
    obtain ⟨rest', M2, e2, hle2, htr, hm⟩ := ihc rest A pre post M1 hszr
      (WTAClauses_mono T S hle1 _ _ _ _ h4) hn hsub (fun a ha => Nat.le_trans (hA a ha) hle1)
    simp only [linearizeClauses, e1, e2]
    refine ⟨_, _, rfl, Nat.le_trans hle1 hle2, .cons ht htr, ?_⟩
    intro xs
    cases xs with
    | nil => simp [ClausesMatch]
    | cons y ys => simp only [ClausesMatch, hm ys]

theorem lin_switch (n : Nat) (ihc : ClausesGoal T S n) (x : Ident) (ty : Ty) (cs : Clauses)
    (fv : FV) (A : List Nat) (Γ : Ctx) (M : Nat)
    (hsz : (Stmt.switch x ty cs fv).size < n + 1)
    (h : WTA T S M (.switch x ty cs fv) A Γ) (hn : NodupIds Γ)
    (hsub : ∀ i ∈ Γ.ids, i ∈ A) (hA : ∀ a ∈ A, a ≤ M) :
    ∃ s' M', linearize (n + 1) (.switch x ty cs fv) Γ M = .ok (s', M') ∧ M ≤ M' ∧
      LinTyped T S Γ s' := by
  simp only [WTA] at h
  obtain ⟨hx, ⟨d, hd, hm⟩, Sc, rfl, h4, h5⟩ := h
  have hsz' : cs.size < n := by simp only [Stmt.size] at hsz; omega
  have hnc := filterBySet_nodup (S := Sc) hn
  obtain ⟨cs', M1, e, hle, htc, hmc⟩ := ihc cs A (filterBySet Γ Sc) [] M hsz'
    (WTAClauses_congr T S M cs A _ _ _ _ (keysEq_filterBySet Γ Sc).symm (KeysEq.refl _) h5)
    (by simpa using hnc) (by simpa using filterBySet_ids_sub (S := Sc) hsub) hA
  simp only [linearize, e]
  split
  · rename_i e'
    exact ⟨_, _, rfl, hle, .switch hn e' rfl hd ((hmc _).2 hm) htc⟩
  · have hp : ∀ (x' : Ident), ∀ p ∈ (filterBySet Γ Sc ++ [(⟨x, .prd, ty⟩ : Binding)]).zip
        (filterBySet Γ Sc ++ [(⟨x', .prd, ty⟩ : Binding)]), HasVar Γ p.1.var.id p.2.chi p.2.ty := by
      intro x' p hp
      rw [List.zip_append rfl] at hp
      rcases List.mem_append.1 hp with hp | hp
      · obtain ⟨e0, hm⟩ := mem_zip_self _ p hp
        rw [← e0]
        exact hasVar_of_mem (filterBySet_sub hm)
      · simp at hp; subst hp; exact hx
    by_cases hc : (filterBySet Γ Sc).ids.contains x.id = true
    · rw [if_pos hc]
      have hnew : NodupIds (filterBySet Γ Sc ++ [(⟨⟨x.name, M1 + 1⟩, .prd, ty⟩ : Binding)]) := by
        apply nodupIds_append_singleton hnc
        intro hmem
        have := hA _ (filterBySet_ids_sub hsub _ hmem)
        simp only at this
        omega
      refine ⟨_, _, rfl, by simp only [freshIdentifier]; omega, ?_⟩
      exact linTyped_rearrange hn (by simp) (hp _) hnew
        (.switch hnew rfl rfl hd ((hmc _).2 hm) htc)
    · rw [if_neg hc]
      have hnew : NodupIds (filterBySet Γ Sc ++ [(⟨x, .prd, ty⟩ : Binding)]) := by
        apply nodupIds_append_singleton hnc
        intro hmem
        exact hc (by simpa using hmem)
      refine ⟨_, _, rfl, hle, ?_⟩
      exact linTyped_rearrange hn (by simp) (hp _) hnew
        (.switch hnew rfl rfl hd ((hmc _).2 hm) htc)

mutual
  theorem size_substStmt (σ : Subst) : ∀ s : Stmt, (substStmt σ s).size = s.size
    | .subst _ next => by simp only [substStmt, Stmt.size, size_substStmt σ next]
    | .call _ _ => by simp only [substStmt, Stmt.size]
    | .letS _ _ _ _ next _ => by simp only [substStmt, Stmt.size, size_substStmt σ next]
    | .switch _ _ cs _ => by simp only [substStmt, Stmt.size, size_substClauses σ cs]
    | .create _ _ _ cs next _ _ => by
      simp only [substStmt, Stmt.size, size_substStmt σ next, size_substClauses σ cs]
    | .invoke _ _ _ _ => by simp only [substStmt, Stmt.size]
    | .lit _ _ next _ => by simp only [substStmt, Stmt.size, size_substStmt σ next]
    | .op _ _ _ _ next _ => by simp only [substStmt, Stmt.size, size_substStmt σ next]
    | .print _ _ next _ => by simp only [substStmt, Stmt.size, size_substStmt σ next]
    | .ifc _ _ _ t e => by simp only [substStmt, Stmt.size, size_substStmt σ t, size_substStmt σ e]
    | .exit _ => by simp only [substStmt, Stmt.size]
  theorem size_substClauses (σ : Subst) : ∀ cs : Clauses, (substClauses σ cs).size = cs.size
    | .nil => by simp only [substClauses, Clauses.size]
    | .cons _ _ body rest => by
      simp only [substClauses, Clauses.size, size_substStmt σ body, size_substClauses σ rest]
end

theorem reorder_perm (Γ : Ctx) (k : Nat) : (Γ.drop k ++ Γ.take k).Perm Γ := by
  have := List.perm_append_comm (l₁ := Γ.drop k) (l₂ := Γ.take k)
  rwa [List.take_append_drop] at this

theorem lin_create (n : Nat) (ih : StmtGoal T S n) (ihc : ClausesGoal T S n) (x : Ident) (ty : Ty)
    (env : Option Ctx) (cs : Clauses) (next : Stmt) (fc fn : FV) (A : List Nat) (Γ : Ctx) (M : Nat)
    (hsz : (Stmt.create x ty env cs next fc fn).size < n + 1)
    (h : WTA T S M (.create x ty env cs next fc fn) A Γ) (hn : NodupIds Γ)
    (hsub : ∀ i ∈ Γ.ids, i ∈ A) (hA : ∀ a ∈ A, a ≤ M) :
    ∃ s' M', linearize (n + 1) (.create x ty env cs next fc fn) Γ M = .ok (s', M') ∧ M ≤ M' ∧
      LinTyped T S Γ s' := by
  simp only [WTA] at h
  obtain ⟨⟨d, hd, hm⟩, h1, h2, Sc, Sn, rfl, rfl, h6, h7, h8, h9⟩ := h
  obtain ⟨p1, p2, p3, p4, p5⟩ := prep_next (xb := ⟨x, .cns, ty⟩) hn hsub hA h1 h2 h9
  have hszc : cs.size < n := by simp only [Stmt.size] at hsz; omega
  have hszn : next.size < n := by simp only [Stmt.size] at hsz; omega
  -- the closure environment
  have hperm := reorder_perm Γ (filterBySet Γ Sn).length
  generalize hre : Γ.drop (filterBySet Γ Sn).length ++ Γ.take (filterBySet Γ Sn).length = reord at *
  have hnre : NodupIds reord := by
    unfold NodupIds Ctx.ids; rw [(hperm.map _).nodup_iff]; exact hn
  have hncc : NodupIds (filterBySet reord Sc) := filterBySet_nodup hnre
  have hkcc : KeysEq (filterBySet reord Sc) (Γ.filter (inSet Sc)) :=
    (keysEq_filterBySet reord Sc).trans (KeysEq.of_perm (hperm.filter _))
  have hccΓ : ∀ b ∈ filterBySet reord Sc, b ∈ Γ := fun b hb => hperm.mem_iff.1 (filterBySet_sub hb)
  have hccA : ∀ i ∈ (filterBySet reord Sc).ids, i ∈ A := by
    intro i hi
    obtain ⟨b, hb, rfl⟩ := List.mem_map.1 hi
    exact hsub _ (List.mem_map.2 ⟨b, hccΓ b hb, rfl⟩)
  obtain ⟨cs', M1, e, hle1, htc, hmc⟩ := ihc cs A [] (filterBySet reord Sc) M hszc
    (WTAClauses_congr T S M cs A _ _ _ _ (KeysEq.refl _) hkcc.symm h8)
    (by simpa using hncc) (by simpa using hccA) hA
  have hA1 : ∀ a ∈ A ++ [x.id], a ≤ M1 := fun a ha => Nat.le_trans (p4 a ha) hle1
  simp only [linearize, hre, e]
  split
  · rename_i e'
    obtain ⟨next', M2, e2, hle2, ht⟩ := ih next _ _ M1 hszn (WTA_mono T S hle1 _ _ _ p1) p2 p3 hA1
    simp only [e2]
    exact ⟨_, _, rfl, Nat.le_trans hle1 hle2,
      .create hn e' rfl hd ((hmc _).2 hm) htc p5 ht⟩
  · have hcnM : ∀ i ∈ (filterBySet Γ Sn).ids, i ≤ M1 :=
      fun i hi => Nat.le_trans (hA i (filterBySet_ids_sub hsub i hi)) hle1
    have hccM : ∀ i ∈ (filterBySet reord Sc).ids, i ≤ M1 :=
      fun i hi => Nat.le_trans (hA i (hccA i hi)) hle1
    have hncn := filterBySet_nodup (S := Sn) hn
    have g := goodSubst_of_freshen (Γ := filterBySet Γ Sn) (C := (filterBySet reord Sc).ids)
      (A := A) (M := M1) hcnM hccM (filterBySet_ids_sub hsub)
    obtain ⟨f1, f2, f3, f4, f5, f6⟩ :=
      freshen_spec M1 (filterBySet Γ Sn) (filterBySet reord Sc).ids M1 hcnM hccM (Nat.le_refl _)
    generalize freshen (filterBySet Γ Sn) (filterBySet reord Sc).ids M1 = r at *
    obtain ⟨cnf, M2⟩ := r
    simp only at f1 f2 f3 f4 f5 f6 g
    -- the renamed continuation
    have hctx : substCtx ((filterBySet Γ Sn).ids.zip cnf.vars)
        (filterBySet Γ Sn ++ [(⟨x, .cns, ty⟩ : Binding)]) = cnf ++ [⟨x, .cns, ty⟩] := by
      rw [substCtx_append, substCtx_zip_eq _ _ hncn f2 (fun p hp => ⟨(f3 p hp).1, (f3 p hp).2.1⟩),
        substCtx_fix g (by simp [Ctx.ids]; exact h1)]
    have hren := WTA_rename T S ((filterBySet Γ Sn).ids.zip cnf.vars) next (A ++ [x.id]) _
      (g.mono (fun a ha => List.mem_append_left _ ha)) hA1
      (fun i hi => hA1 i (p3 i hi)) (WTA_mono T S hle1 _ _ _ p1)
    rw [hctx] at hren
    have hxcnf : x.id ∉ cnf.ids := by
      intro hmem
      rcases f6 _ hmem with h' | h'
      · exact p5 h'
      · omega
    have hnd2 : NodupIds (cnf ++ [(⟨x, .cns, ty⟩ : Binding)]) := nodupIds_append_singleton f4 hxcnf
    have hsub2 : ∀ i ∈ (cnf ++ [(⟨x, .cns, ty⟩ : Binding)]).ids,
        i ∈ (A ++ [x.id]).map (substId ((filterBySet Γ Sn).ids.zip cnf.vars)) := by
      intro i hi
      rw [← hctx, substCtx_ids] at hi
      obtain ⟨j, hj, rfl⟩ := List.mem_map.1 hi
      exact List.mem_map.2 ⟨j, p3 j hj, rfl⟩
    have hA2 : ∀ a ∈ (A ++ [x.id]).map (substId ((filterBySet Γ Sn).ids.zip cnf.vars)), a ≤ M2 := by
      intro a ha
      obtain ⟨j, hj, rfl⟩ := List.mem_map.1 ha
      exact g.bound j (hA1 j hj)
    obtain ⟨next', M3, e3, hle3, ht⟩ := ih _ _ _ M2 (by rw [size_substStmt]; exact hszn) hren hnd2
      hsub2 hA2
    simp only [e3]
    have hnew : NodupIds (cnf ++ filterBySet reord Sc) :=
      nodupIds_append f4 hncc (fun i hi hi' => f5 i hi' hi)
    refine ⟨_, _, rfl, Nat.le_trans hle1 (Nat.le_trans f1 hle3), ?_⟩
    refine linTyped_rearrange hn (by simp [f2]) ?_ hnew
      (.create hnew rfl rfl hd ((hmc _).2 hm) htc hxcnf ht)
    intro p hp
    rw [List.zip_append f2.symm] at hp
    rcases List.mem_append.1 hp with hp | hp
    · obtain ⟨e1, e2, _⟩ := f3 p hp
      rw [e1, e2]
      exact hasVar_of_mem (filterBySet_sub (List.of_mem_zip hp).1)
    · obtain ⟨e0, hm'⟩ := mem_zip_self _ p hp
      rw [← e0]
      exact hasVar_of_mem (hccΓ _ hm')

end cases

/-- T3, statement level: on `WTA` input with enough fuel `linearize` succeeds, only increases
`max_id`, and its output is ordered-linearly typed under the given context. -/
theorem linearize_ok (T : List TypeDecl) (S : Sigs) : ∀ n, StmtGoal T S n ∧ ClausesGoal T S n := by
  intro n
  induction n with
  | zero =>
    exact ⟨fun s A Γ M h => absurd h (Nat.not_lt_zero _), fun cs A pre post M h => absurd h (Nat.not_lt_zero _)⟩
  | succ n ih =>
    obtain ⟨ihs, ihc⟩ := ih
    refine ⟨?_, lin_clauses n ihs ihc⟩
    intro s A Γ M hsz h hn hsub hA
    cases s with
    | subst pairs next => simp [WTA] at h
    | call l args => exact lin_call n l args A Γ M h hn hsub hA
    | letS x ty tag args next fv => exact lin_let n ihs x ty tag args next fv A Γ M hsz h hn hsub hA
    | switch x ty cs fv => exact lin_switch n ihc x ty cs fv A Γ M hsz h hn hsub hA
    | create x ty env cs next fc fn =>
      exact lin_create n ihs ihc x ty env cs next fc fn A Γ M hsz h hn hsub hA
    | invoke x tag ty args => exact lin_invoke n x tag ty args A Γ M h hn hsub hA
    | lit x k next fv => exact lin_lit n ihs x k next fv A Γ M hsz h hn hsub hA
    | op x a o b next fv => exact lin_op n ihs x a o b next fv A Γ M hsz h hn hsub hA
    | print nl a next fv => exact lin_print n ihs nl a next fv A Γ M hsz h hn hsub hA
    | ifc s a b t e => exact lin_ifc n ihs s a b t e A Γ M hsz h hn hsub hA
    | exit x => exact lin_exit n x A Γ M h hn

/-! ## definitions and programs -/

theorem linearizeDef_ok (T : List TypeDecl) (S : Sigs) (d : Def) (M0 M : Nat)
    (hn : NodupIds d.ctx) (hM : ∀ i ∈ d.ctx.ids, i ≤ M0) (hwt : WT T S M0 d.body d.ctx)
    (hle : M0 ≤ M) :
    ∃ d' M', linearizeDef d M = .ok (d', M') ∧ M ≤ M' ∧ d'.name = d.name ∧ d'.ctx = d.ctx ∧
      LinTyped T S d.ctx d'.body := by
  have hfv := fv_sub T S M0 d.body d.ctx hwt
  have hwta := freeVars_WTA T S M0 d.body d.ctx hwt hn hM d.ctx (fun _ _ _ h => h) hfv
  have hwta' := WTA_mono T S hle _ _ _ hwta
  obtain ⟨body', M', e, hle', ht⟩ := (linearize_ok T S ((freeVars d.body).1.size + 1)).1
    (freeVars d.body).1 d.ctx.ids d.ctx M (Nat.lt_succ_self _) hwta' hn (fun i hi => hi)
    (fun a ha => Nat.le_trans (hM a ha) hle)
  refine ⟨{ d with body := body' }, M', ?_, hle', rfl, rfl, ht⟩
  simp only [linearizeDef, e]

theorem linearizeDefs_ok (T : List TypeDecl) (S : Sigs) (M0 : Nat) :
    ∀ (ds : List Def) (M : Nat), M0 ≤ M →
      (∀ d ∈ ds, NodupIds d.ctx ∧ (∀ i ∈ d.ctx.ids, i ≤ M0) ∧ WT T S M0 d.body d.ctx) →
      ∃ ds' M', linearizeDefs ds M = .ok (ds', M') ∧ M ≤ M' ∧
        ds'.map (fun d => (d.name, d.ctx)) = ds.map (fun d => (d.name, d.ctx)) ∧
        ∀ d' ∈ ds', LinTyped T S d'.ctx d'.body := by
  intro ds
  induction ds with
  | nil => intro M _ _; exact ⟨[], M, rfl, Nat.le_refl _, rfl, fun _ h => by cases h⟩
  | cons d ds ih =>
    intro M hle h
    obtain ⟨hn, hM, hwt⟩ := h d (by simp)
    obtain ⟨d', M1, e1, hle1, en, ec, ht⟩ := linearizeDef_ok T S d M0 M hn hM hwt hle
    obtain ⟨ds', M2, e2, hle2, es, hts⟩ := ih M1 (Nat.le_trans hle hle1)
      (fun d0 hd0 => h d0 (List.mem_cons_of_mem _ hd0))
    refine ⟨d' :: ds', M2, by simp only [linearizeDefs, e1, e2], Nat.le_trans hle1 hle2, ?_, ?_⟩
    · simp only [List.map_cons, en, ec, es]
    · intro d0 hd0
      rcases List.mem_cons.1 hd0 with rfl | hd0
      · rw [ec]; exact ht
      · exact hts d0 hd0

/-- T3 (C05 a, b): linearization of a well-formed non-linear program succeeds and every definition
of the result is ordered-linearly typed under its parameter list. -/
theorem linearizeProg_LinTyped (p : Prog) (h : WfNonLinear p) :
    ∃ p', linearizeProg p = .ok p' ∧ LinTypedProg p' ∧ p'.types = p.types ∧ p'.sigs = p.sigs ∧
      p.maxId ≤ p'.maxId := by
  obtain ⟨ds', M', e, hle, es, hts⟩ :=
    linearizeDefs_ok p.types p.sigs p.maxId p.defs p.maxId (Nat.le_refl _) h
  refine ⟨{ p with defs := ds', maxId := M' }, by simp only [linearizeProg, e], ?_, rfl, ?_, hle⟩
  · intro d hd
    have : ({ p with defs := ds', maxId := M' } : Prog).sigs = p.sigs := by
      simp only [Prog.sigs]; exact es
    rw [this]
    exact hts d hd
  · simp only [Prog.sigs]; exact es

end Scc.AxCut
