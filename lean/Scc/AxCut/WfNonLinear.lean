/-
  Scc.AxCut.WfNonLinear — SPEC: the decidable precondition of C05: well-scoped, well-typed
  NON-LINEAR AxCut (dump S4) with unique binders and without explicit substitutions.

  `WT types sigs M s Γ` — statement `s` is well-typed under the (unordered, named) context `Γ`:
    * every variable occurrence is in Γ with the kind and type the statement needs
      (variables are identified by their id; they may be used any number of times);
    * arguments of `let` / `invoke` / `call` match the signature of the xtor / label
      (length, kinds, types);  `switch` and `create` have exactly the clauses of the declaration
      of the type, in declaration order, binding variables of the declared kinds and types;
    * every binder (let / create / lit / op variable, clause parameters) has an id that is not yet
      in scope (no shadowing; "all variable bindings in each path through a program are unique",
      axcut/src/traits/mod.rs) and is `≤ M` (the program's `max_id`);
    * there is no `subst`.
  `WfNonLinear p` — all definitions are `WT` under their duplicate-free parameter lists.
  Core imports only; decidable (`wfNonLinearCheck`).
-/
import Scc.AxCut.LinTyping

namespace Scc.AxCut

/-- every argument occurrence is in Γ with its kind and type -/
def ArgsIn (Γ : Ctx) (args : Ctx) : Prop := ∀ a ∈ args, HasVar Γ a.var.id a.chi a.ty

instance (Γ args : Ctx) : Decidable (ArgsIn Γ args) := by unfold ArgsIn; infer_instance

/-- a binder: not in scope yet, and below the id bound -/
def FreshBinder (M : Nat) (Γ : Ctx) (x : Nat) : Prop := x ∉ Γ.ids ∧ x ≤ M

instance (M : Nat) (Γ : Ctx) (x : Nat) : Decidable (FreshBinder M Γ x) := by
  unfold FreshBinder; infer_instance

instance decExistsSome {α} (o : Option α) (P : α → Prop) [∀ a, Decidable (P a)] :
    Decidable (∃ a, o = some a ∧ P a) :=
  match o with
  | none => isFalse (by simp)
  | some a => decidable_of_iff (P a) (by simp)

mutual
  def WT (T : List TypeDecl) (S : Sigs) (M : Nat) : Stmt → Ctx → Prop
    | .subst _ _, _ => False
    | .call l args, Γ =>
      ∃ params, findSig S l = some params ∧ (args.chiTys = params.chiTys ∧ ArgsIn Γ args)
    | .letS x ty tag args next _, Γ =>
      (∃ sig, lookupXtor T ty tag = some sig ∧ args.chiTys = sig.chiTys) ∧ ArgsIn Γ args ∧
        FreshBinder M Γ x.id ∧ WT T S M next (Γ ++ [⟨x, .prd, ty⟩])
    | .switch x ty cs _, Γ =>
      HasVar Γ x.id .prd ty ∧
        (∃ d, lookupTypeDecl T ty = some d ∧ ClausesMatch d.xtors cs) ∧ WTClauses T S M cs Γ
    | .create x ty _ cs next _ _, Γ =>
      (∃ d, lookupTypeDecl T ty = some d ∧ ClausesMatch d.xtors cs) ∧ WTClauses T S M cs Γ ∧
        FreshBinder M Γ x.id ∧ WT T S M next (Γ ++ [⟨x, .cns, ty⟩])
    | .invoke x tag ty args, Γ =>
      HasVar Γ x.id .cns ty ∧
        (∃ sig, lookupXtor T ty tag = some sig ∧ args.chiTys = sig.chiTys) ∧ ArgsIn Γ args
    | .lit x _ next _, Γ => FreshBinder M Γ x.id ∧ WT T S M next (Γ ++ [⟨x, .ext, .i64⟩])
    | .op x a _ b next _, Γ =>
      HasVar Γ a.id .ext .i64 ∧ HasVar Γ b.id .ext .i64 ∧ FreshBinder M Γ x.id ∧
        WT T S M next (Γ ++ [⟨x, .ext, .i64⟩])
    | .print _ a next _, Γ => HasVar Γ a.id .ext .i64 ∧ WT T S M next Γ
    | .ifc _ a b t e, Γ =>
      HasVar Γ a.id .ext .i64 ∧ (∀ b', b = some b' → HasVar Γ b'.id .ext .i64) ∧
        WT T S M t Γ ∧ WT T S M e Γ
    | .exit x, Γ => HasVar Γ x.id .ext .i64
  /-- clause bodies are typed under Γ extended by the (fresh, pairwise distinct) clause parameters -/
  def WTClauses (T : List TypeDecl) (S : Sigs) (M : Nat) : Clauses → Ctx → Prop
    | .nil, _ => True
    | .cons _ ctx body rest, Γ =>
      NodupIds ctx ∧ (∀ i ∈ ctx.ids, FreshBinder M Γ i) ∧ WT T S M body (Γ ++ ctx) ∧
        WTClauses T S M rest Γ
end

instance decOptIdent (Γ : Ctx) (b : Option Ident) :
    Decidable (∀ b', b = some b' → HasVar Γ b'.id .ext .i64) :=
  match b with
  | none => isTrue (by simp)
  | some b' => decidable_of_iff (HasVar Γ b'.id .ext .i64) (by simp)

mutual
  def decWT (T : List TypeDecl) (S : Sigs) (M : Nat) : (s : Stmt) → (Γ : Ctx) → Decidable (WT T S M s Γ)
    | .subst _ _, _ => by unfold WT; infer_instance
    | .call _ _, _ => by unfold WT; infer_instance
    | .letS x ty _ _ next _, Γ =>
      have := decWT T S M next (Γ ++ [⟨x, .prd, ty⟩])
      by unfold WT; infer_instance
    | .switch _ _ cs _, Γ =>
      have := decWTClauses T S M cs Γ
      by unfold WT; infer_instance
    | .create x ty _ cs next _ _, Γ =>
      have := decWTClauses T S M cs Γ
      have := decWT T S M next (Γ ++ [⟨x, .cns, ty⟩])
      by unfold WT; infer_instance
    | .invoke _ _ _ _, _ => by unfold WT; infer_instance
    | .lit x _ next _, Γ =>
      have := decWT T S M next (Γ ++ [⟨x, .ext, .i64⟩])
      by unfold WT; infer_instance
    | .op x _ _ _ next _, Γ =>
      have := decWT T S M next (Γ ++ [⟨x, .ext, .i64⟩])
      by unfold WT; infer_instance
    | .print _ _ next _, Γ =>
      have := decWT T S M next Γ
      by unfold WT; infer_instance
    | .ifc _ _ _ t e, Γ =>
      have := decWT T S M t Γ
      have := decWT T S M e Γ
      by unfold WT; infer_instance
    | .exit _, _ => by unfold WT; infer_instance
  def decWTClauses (T : List TypeDecl) (S : Sigs) (M : Nat) :
      (cs : Clauses) → (Γ : Ctx) → Decidable (WTClauses T S M cs Γ)
    | .nil, _ => by unfold WTClauses; infer_instance
    | .cons _ ctx body rest, Γ =>
      have := decWT T S M body (Γ ++ ctx)
      have := decWTClauses T S M rest Γ
      by unfold WTClauses; infer_instance
end

instance (T : List TypeDecl) (S : Sigs) (M : Nat) (s : Stmt) (Γ : Ctx) : Decidable (WT T S M s Γ) :=
  decWT T S M s Γ

/-- the precondition of C05 -/
def WfNonLinear (p : Prog) : Prop :=
  ∀ d ∈ p.defs, NodupIds d.ctx ∧ (∀ i ∈ d.ctx.ids, i ≤ p.maxId) ∧ WT p.types p.sigs p.maxId d.body d.ctx

instance (p : Prog) : Decidable (WfNonLinear p) := by unfold WfNonLinear; infer_instance

/-- executable checker of the precondition -/
def wfNonLinearCheck (p : Prog) : Bool := decide (WfNonLinear p)

theorem wfNonLinearCheck_iff (p : Prog) : wfNonLinearCheck p = true ↔ WfNonLinear p := by
  simp [wfNonLinearCheck]

end Scc.AxCut
