/-
  Scc.AxCut.LinLemmas — proof file (C05, T1): lemmas on `filterBySet`, `freshen` and the
  id-substitution of Scc/AxCut/Linearize.lean.
-/
import Scc.AxCut.LinTyping

namespace Scc.AxCut

/-! ## filterBySet -/

/-- the predicate `set.contains(&binding.var.id)` -/
def inSet (S : List Nat) (b : Binding) : Bool := S.contains b.var.id

theorem filterWhile_spec (S : List Nat) (pre : List Binding) (b : Binding) :
    ∀ (n : Nat) (m : List Binding), n = (pre ++ b :: m).length →
      (∃ l m0 junk, m = m0 ++ l :: junk ∧ inSet S l = true ∧ (∀ j ∈ junk, inSet S j = false) ∧
          filterWhile S pre.length n (pre ++ b :: m) = (pre ++ l :: m0, true))
      ∨ ((∀ j ∈ m, inSet S j = false) ∧
          filterWhile S pre.length n (pre ++ b :: m) = (pre ++ [b], false)) := by
  intro n
  induction n with
  | zero => intro m h; simp at h
  | succ n ih =>
    intro m h
    rcases List.eq_nil_or_concat m with rfl | ⟨m', l, hm⟩
    · right
      refine ⟨by simp, ?_⟩
      simp [filterWhile]
    · rw [List.concat_eq_append] at hm
      subst hm
      have e : pre ++ b :: (m' ++ [l]) = (pre ++ b :: m') ++ [l] := by simp
      have hlen : n = (pre ++ b :: m').length := by simp at h ⊢; omega
      unfold filterWhile
      rw [e]
      have hc : ((pre ++ b :: m') ++ [l]).length - 1 > pre.length := by simp
      simp only [hc, if_true, List.getLast?_concat, List.dropLast_concat]
      by_cases hl : S.contains l.var.id = true
      · left
        refine ⟨l, m', [], by simp, hl, by simp, ?_⟩
        rw [if_pos hl]
        have : (pre ++ b :: m').set pre.length l = pre ++ l :: m' := by simp
        rw [this]
      · have hl' : inSet S l = false := by simpa [inSet] using hl
        rw [if_neg hl]
        rcases ih m' hlen with ⟨l0, m0, junk, hm, h1, h2, h3⟩ | ⟨h1, h2⟩
        · left
          refine ⟨l0, m0, junk ++ [l], by simp [hm], h1, ?_, h3⟩
          intro j hj
          rcases List.mem_append.1 hj with hj | hj
          · exact h2 j hj
          · simp at hj; subst hj; exact hl'
        · right
          refine ⟨?_, h2⟩
          intro j hj
          rcases List.mem_append.1 hj with hj | hj
          · exact h1 j hj
          · simp at hj; subst hj; exact hl'

theorem filterLoop_perm (S : List Nat) :
    ∀ (rest pre mid tail : List Binding), rest = mid ++ tail →
      (filterLoop S rest pre.length (pre ++ mid)).Perm (pre ++ mid.filter (inSet S)) := by
  intro rest
  induction rest with
  | nil =>
    intro pre mid tail h
    have : mid = [] := by
      cases mid with
      | nil => rfl
      | cons a b => simp at h
    subst this
    simp [filterLoop]
  | cons b rest ih =>
    intro pre mid tail h
    cases mid with
    | nil => simp [filterLoop]
    | cons b' mid' =>
      have hb : b = b' := by simp at h; exact h.1
      have hrest : rest = mid' ++ tail := by simp at h; exact h.2
      subst hb
      unfold filterLoop
      have hc : ¬ (pre.length ≥ (pre ++ b :: mid').length) := by simp
      rw [if_neg hc]
      by_cases hin : S.contains b.var.id = true
      · have : (!S.contains b.var.id) = false := by rw [hin]; rfl
        simp only [this, Bool.false_eq_true, if_false]
        have hb' : inSet S b = true := hin
        have e1 : pre ++ b :: mid' = (pre ++ [b]) ++ mid' := by simp
        have e2 : pre.length + 1 = (pre ++ [b]).length := by simp
        rw [e1, e2]
        refine (ih (pre ++ [b]) mid' tail hrest).trans ?_
        simp [List.filter_cons, hb']
      · have hnb : inSet S b = false := by simpa [inSet] using hin
        have hin' : S.contains b.var.id = false := Bool.eq_false_iff.2 hin
        have : (!S.contains b.var.id) = true := by rw [hin']; rfl
        simp only [this, if_true]
        rcases filterWhile_spec S pre b _ mid' rfl with ⟨l, m0, junk, hm, h1, h2, h3⟩ | ⟨h1, h2⟩
        · rw [h3]
          simp only [Bool.not_true, Bool.false_eq_true, if_false]
          have e1 : pre ++ l :: m0 = (pre ++ [l]) ++ m0 := by simp
          have e2 : pre.length + 1 = (pre ++ [l]).length := by simp
          rw [e1, e2]
          have hr : rest = m0 ++ (l :: junk ++ tail) := by rw [hrest, hm]; simp
          refine (ih (pre ++ [l]) m0 _ hr).trans ?_
          have hj : junk.filter (inSet S) = [] := by
            rw [List.filter_eq_nil_iff]; intro j hj; simp [h2 j hj]
          simp only [List.filter_cons, hnb, hm, List.filter_append, h1, if_true, hj,
            Bool.false_eq_true, if_false, List.append_assoc]
          refine List.Perm.append_left pre ?_
          simpa using (List.perm_append_comm (l₁ := [l]) (l₂ := m0.filter (inSet S)))
        · rw [h2]
          simp only [Bool.not_false, if_true, List.dropLast_concat]
          have hj : mid'.filter (inSet S) = [] := by
            rw [List.filter_eq_nil_iff]; intro j hj; simp [h1 j hj]
          simp [List.filter_cons, hnb, hj]

/-- T1: `filter_by_set` returns a permutation of the order-preserving filter -/
theorem filterBySet_perm (Γ : Ctx) (S : List Nat) :
    (filterBySet Γ S).Perm (Γ.filter (inSet S)) := by
  have := filterLoop_perm S Γ [] Γ [] (by simp)
  simpa [filterBySet] using this

theorem mem_filterBySet {Γ : Ctx} {S : List Nat} {b : Binding} :
    b ∈ filterBySet Γ S ↔ b ∈ Γ ∧ b.var.id ∈ S := by
  rw [(filterBySet_perm Γ S).mem_iff]
  simp [inSet]

/-- T1: every kept binding is a binding of Γ (so it keeps its kind and type) -/
theorem filterBySet_sub {Γ : Ctx} {S : List Nat} {b : Binding} (h : b ∈ filterBySet Γ S) : b ∈ Γ :=
  (mem_filterBySet.1 h).1

/-- T1: the id set of the result is `ids Γ ∩ S` -/
theorem mem_ids_filterBySet {Γ : Ctx} {S : List Nat} {i : Nat} :
    i ∈ (filterBySet Γ S).ids ↔ i ∈ Γ.ids ∧ i ∈ S := by
  simp only [Ctx.ids, List.mem_map]
  constructor
  · rintro ⟨b, hb, rfl⟩
    have := mem_filterBySet.1 hb
    exact ⟨⟨b, this.1, rfl⟩, this.2⟩
  · rintro ⟨⟨b, hb, rfl⟩, hs⟩
    exact ⟨b, mem_filterBySet.2 ⟨hb, hs⟩, rfl⟩

/-- T1: the result is duplicate-free if Γ is -/
theorem filterBySet_nodup {Γ : Ctx} {S : List Nat} (h : NodupIds Γ) : NodupIds (filterBySet Γ S) := by
  unfold NodupIds Ctx.ids at *
  have hp := (filterBySet_perm Γ S).map (fun b => b.var.id)
  rw [hp.nodup_iff]
  exact (List.filter_sublist.map _).nodup h

theorem filterBySet_length_le (Γ : Ctx) (S : List Nat) : (filterBySet Γ S).length ≤ Γ.length := by
  rw [(filterBySet_perm Γ S).length_eq]
  exact List.length_filter_le _ _

/-- T1 (fuel): more iterations than `new.length` do not change the result of the inner loop -/
theorem filterWhile_fuel (S : List Nat) (pos : Nat) :
    ∀ (k : Nat) (new : List Binding),
      filterWhile S pos (new.length + k) new = filterWhile S pos new.length new := by
  intro k new
  generalize hn : new.length = n
  induction n generalizing new with
  | zero =>
    have : new = [] := List.eq_nil_of_length_eq_zero hn
    subst this
    cases k <;> simp [filterWhile]
  | succ n ih =>
    rw [show n + 1 + k = (n + k) + 1 by omega]
    unfold filterWhile
    split
    · cases hl : new.getLast? with
      | none => rfl
      | some l =>
        simp only
        split
        · rfl
        · have : new.dropLast.length = n := by simp [hn]
          exact ih new.dropLast this
    · rfl

/-! ## freshen -/

theorem mem_ids {Γ : Ctx} {i : Nat} : i ∈ Γ.ids ↔ ∃ b ∈ Γ, b.var.id = i := by
  simp [Ctx.ids]

theorem freshen_cons_clash {b : Binding} {rest : Ctx} {C : List Nat} {M : Nat}
    (hc : C.contains b.var.id = true) :
    freshen (b :: rest) C M =
      (⟨⟨b.var.name, M + 1⟩, b.chi, b.ty⟩ :: (freshen rest C (M + 1)).1, (freshen rest C (M + 1)).2) := by
  conv => lhs; rw [freshen]
  rw [if_pos hc]; rfl

theorem freshen_cons_keep {b : Binding} {rest : Ctx} {C : List Nat} {M : Nat}
    (hc : ¬ C.contains b.var.id = true) :
    freshen (b :: rest) C M =
      (b :: (freshen rest (b.var.id :: C) M).1, (freshen rest (b.var.id :: C) M).2) := by
  conv => lhs; rw [freshen]
  rw [if_neg hc]

/-- T1: `freshen` keeps length, kinds and types; every binding is either kept or gets an id in
`(maxId, maxId']`; the result is duplicate-free and disjoint from the clash set, provided all ids
involved are `≤ maxId`. -/
theorem freshen_spec (M0 : Nat) :
    ∀ (Γ : Ctx) (C : List Nat) (M : Nat), (∀ i ∈ Γ.ids, i ≤ M0) → (∀ i ∈ C, i ≤ M0) → M0 ≤ M →
      M ≤ (freshen Γ C M).2 ∧
      (freshen Γ C M).1.length = Γ.length ∧
      (∀ p ∈ Γ.zip (freshen Γ C M).1, p.2.chi = p.1.chi ∧ p.2.ty = p.1.ty ∧
          (p.2 = p.1 ∨ (M < p.2.var.id ∧ p.2.var.id ≤ (freshen Γ C M).2))) ∧
      (freshen Γ C M).1.ids.Nodup ∧
      (∀ i ∈ (freshen Γ C M).1.ids, i ∉ C) ∧
      (∀ i ∈ (freshen Γ C M).1.ids, i ∈ Γ.ids ∨ (M < i ∧ i ≤ (freshen Γ C M).2)) := by
  intro Γ
  induction Γ with
  | nil => intro C M _ _ _; simp [freshen, Ctx.ids]
  | cons b rest ih =>
    intro C M hΓ hC hM
    have hrest : ∀ i ∈ Ctx.ids rest, i ≤ M0 := fun i hi => hΓ i (by simp [Ctx.ids] at hi ⊢; exact Or.inr hi)
    have hb : b.var.id ≤ M0 := hΓ _ (by simp [Ctx.ids])
    by_cases hc : C.contains b.var.id = true
    · rw [freshen_cons_clash hc]
      obtain ⟨h1, h2, h3, h4, h5, h6⟩ := ih C (M + 1) hrest hC (by omega)
      generalize freshen rest C (M + 1) = r at h1 h2 h3 h4 h5 h6
      refine ⟨by simp only; omega, by simp [h2], ?_, ?_, ?_, ?_⟩
      · intro p hp
        simp only [List.zip_cons_cons, List.mem_cons] at hp
        rcases hp with rfl | hp
        · exact ⟨rfl, rfl, Or.inr ⟨by simp, by simpa using h1⟩⟩
        · obtain ⟨a1, a2, a3⟩ := h3 p hp
          refine ⟨a1, a2, ?_⟩
          rcases a3 with a3 | a3
          · exact Or.inl a3
          · exact Or.inr ⟨by omega, a3.2⟩
      · simp only [Ctx.ids, List.map_cons, List.nodup_cons]
        refine ⟨?_, h4⟩
        intro hmem
        rcases h6 _ hmem with h | h
        · have := hrest _ h; omega
        · omega
      · intro i hi
        simp only [Ctx.ids, List.map_cons, List.mem_cons] at hi
        rcases hi with rfl | hi
        · intro hin
          have := hC _ hin
          omega
        · exact h5 i hi
      · intro i hi
        simp only [Ctx.ids, List.map_cons, List.mem_cons] at hi
        rcases hi with rfl | hi
        · exact Or.inr ⟨by simp, by simpa using h1⟩
        · rcases h6 i hi with h | h
          · exact Or.inl (by simp [Ctx.ids] at h ⊢; exact Or.inr h)
          · exact Or.inr ⟨by omega, h.2⟩
    · rw [freshen_cons_keep hc]
      have hC' : ∀ i ∈ b.var.id :: C, i ≤ M0 := by
        intro i hi
        rcases List.mem_cons.1 hi with rfl | hi
        · exact hb
        · exact hC i hi
      obtain ⟨h1, h2, h3, h4, h5, h6⟩ := ih (b.var.id :: C) M hrest hC' hM
      generalize freshen rest (b.var.id :: C) M = r at h1 h2 h3 h4 h5 h6
      refine ⟨h1, by simp [h2], ?_, ?_, ?_, ?_⟩
      · intro p hp
        simp only [List.zip_cons_cons, List.mem_cons] at hp
        rcases hp with rfl | hp
        · exact ⟨rfl, rfl, Or.inl rfl⟩
        · exact h3 p hp
      · simp only [Ctx.ids, List.map_cons, List.nodup_cons]
        refine ⟨?_, h4⟩
        intro hmem
        exact h5 _ hmem (by simp)
      · intro i hi
        simp only [Ctx.ids, List.map_cons, List.mem_cons] at hi
        rcases hi with rfl | hi
        · intro hin; exact hc (by simpa using hin)
        · intro hin; exact h5 i hi (by simp [hin])
      · intro i hi
        simp only [Ctx.ids, List.map_cons, List.mem_cons] at hi
        rcases hi with rfl | hi
        · exact Or.inl (by simp [Ctx.ids])
        · rcases h6 i hi with h | h
          · exact Or.inl (by simp [Ctx.ids] at h ⊢; exact Or.inr h)
          · exact Or.inr h

/-! ## id-substitution -/

theorem substIdent_id (σ : Subst) (x : Ident) : (substIdent σ x).id = substId σ x.id := by
  unfold substIdent substId
  cases σ.find? (fun p => p.1 == x.id) <;> rfl

theorem substIdent_cases (σ : Subst) (x : Ident) :
    (substIdent σ x = x ∧ ∀ p ∈ σ, p.1 ≠ x.id) ∨ (∃ p ∈ σ, p.1 = x.id ∧ substIdent σ x = p.2) := by
  unfold substIdent
  cases h : σ.find? (fun p => p.1 == x.id) with
  | none =>
    left
    refine ⟨rfl, ?_⟩
    intro p hp
    have := List.find?_eq_none.1 h p hp
    simpa using this
  | some p =>
    right
    refine ⟨p, List.mem_of_find?_eq_some h, ?_, rfl⟩
    have := List.find?_some h
    simpa using this

theorem substIdent_fix {σ : Subst} {x : Ident} (h : ∀ p ∈ σ, p.1 ≠ x.id) : substIdent σ x = x := by
  rcases substIdent_cases σ x with h' | ⟨p, hp, h1, _⟩
  · exact h'.1
  · exact absurd h1 (h p hp)

theorem substBinding_chi (σ : Subst) (b : Binding) : (substBinding σ b).chi = b.chi := rfl
theorem substBinding_ty (σ : Subst) (b : Binding) : (substBinding σ b).ty = b.ty := rfl
theorem substBinding_id (σ : Subst) (b : Binding) :
    (substBinding σ b).var.id = substId σ b.var.id := substIdent_id σ b.var

theorem substCtx_ids (σ : Subst) (Γ : Ctx) : (substCtx σ Γ).ids = Γ.ids.map (substId σ) := by
  simp [substCtx, Ctx.ids, substBinding_id, Function.comp_def]

theorem substCtx_chiTys (σ : Subst) (Γ : Ctx) : (substCtx σ Γ).chiTys = Γ.chiTys := by
  simp [substCtx, Ctx.chiTys, substBinding_chi, substBinding_ty, Function.comp_def]

theorem substCtx_length (σ : Subst) (Γ : Ctx) : (substCtx σ Γ).length = Γ.length := by
  simp [substCtx]

theorem substCtx_append (σ : Subst) (Γ Δ : Ctx) :
    substCtx σ (Γ ++ Δ) = substCtx σ Γ ++ substCtx σ Δ := by simp [substCtx]

/-- with duplicate-free `Γ`, substituting `ids Γ ↦ vars Γ'` into `Γ` gives `Γ'` (kinds and types
agreeing pointwise) -/
theorem substCtx_zip_eq : ∀ (Γ Γ' : Ctx), Γ.ids.Nodup → Γ'.length = Γ.length →
    (∀ p ∈ Γ.zip Γ', p.2.chi = p.1.chi ∧ p.2.ty = p.1.ty) →
    substCtx (Γ.ids.zip Γ'.vars) Γ = Γ' := by
  intro Γ
  induction Γ with
  | nil => intro Γ' _ hl _; cases Γ' with
    | nil => rfl
    | cons _ _ => simp at hl
  | cons b rest ih =>
    intro Γ' hnd hl hp
    cases Γ' with
    | nil => simp at hl
    | cons b' rest' =>
      simp only [Ctx.ids, List.map_cons, List.nodup_cons] at hnd
      have hhead := hp (b, b') (by simp)
      have htail : ∀ p ∈ rest.zip rest', p.2.chi = p.1.chi ∧ p.2.ty = p.1.ty :=
        fun p hp' => hp p (by simp [hp'])
      have ih' := ih rest' hnd.2 (by simpa using hl) htail
      simp only [substCtx, Ctx.ids, Ctx.vars, List.map_cons, List.zip_cons_cons]
      congr 1
      · simp only [substBinding, substIdent, List.find?_cons, beq_self_eq_true]
        cases b; cases b'; simp_all
      · rw [← ih'] 
        apply List.map_congr_left
        intro c hc
        have hne : b.var.id ≠ c.var.id := by
          intro e; exact hnd.1 (by rw [e]; exact List.mem_map.2 ⟨c, hc, rfl⟩)
        simp only [substBinding, substIdent, List.find?_cons]
        have : (b.var.id == c.var.id) = false := by simpa using hne
        simp only [this]
        rw [ih']
        rfl

theorem zip_inj_right {α β γ} (f : β → γ) :
    ∀ (l1 : List α) (l2 : List β), (l2.map f).Nodup →
      ∀ a b a' b', (a, b) ∈ l1.zip l2 → (a', b') ∈ l1.zip l2 → f b = f b' → a = a' := by
  intro l1
  induction l1 with
  | nil => intro l2 _ a b a' b' h; simp at h
  | cons x xs ih =>
    intro l2 hnd a b a' b' h h' hf
    cases l2 with
    | nil => simp at h
    | cons y ys =>
      simp only [List.map_cons, List.nodup_cons] at hnd
      simp only [List.zip_cons_cons, List.mem_cons, Prod.mk.injEq] at h h'
      rcases h with ⟨rfl, rfl⟩ | h <;> rcases h' with ⟨rfl, rfl⟩ | h'
      · rfl
      · exact absurd (by rw [hf]; exact List.mem_map.2 ⟨b', (List.of_mem_zip h').2, rfl⟩) hnd.1
      · exact absurd (by rw [← hf]; exact List.mem_map.2 ⟨b, (List.of_mem_zip h).2, rfl⟩) hnd.1
      · exact ih ys hnd.2 a b a' b' h h' hf

/-- what the renaming of `Create::linearize` satisfies: ids `≤ M` go to ids `≤ M2`, injectively;
identifiers outside `A` are fixed; an id is fixed or goes above `M`. -/
structure GoodSubst (σ : Subst) (A : List Nat) (M M2 : Nat) : Prop where
  le : M ≤ M2
  bound : ∀ y, y ≤ M → substId σ y ≤ M2
  inj : ∀ y z, y ≤ M → z ≤ M → substId σ y = substId σ z → y = z
  fix : ∀ x : Ident, x.id ∉ A → substIdent σ x = x
  fresh : ∀ y, y ≤ M → substId σ y = y ∨ M < substId σ y

theorem GoodSubst.mono {σ A A' M M2} (h : GoodSubst σ A M M2) (hA : ∀ a ∈ A, a ∈ A') :
    GoodSubst σ A' M M2 :=
  ⟨h.le, h.bound, h.inj, fun x hx => h.fix x (fun hx' => hx (hA _ hx')), h.fresh⟩

theorem GoodSubst.fixId {σ A M M2} (h : GoodSubst σ A M M2) {y : Nat} (hy : y ∉ A) :
    substId σ y = y := by
  have := h.fix ⟨"", y⟩ hy
  have := congrArg Ident.id this
  rwa [substIdent_id] at this

theorem zip_ids_vars (Γ Γ' : Ctx) :
    Γ.ids.zip Γ'.vars = (Γ.zip Γ').map (fun p => (p.1.var.id, p.2.var)) := by
  simp [Ctx.ids, Ctx.vars, List.zip_map]

theorem goodSubst_of_freshen {Γ : Ctx} {C A : List Nat} {M : Nat}
    (hΓ : ∀ i ∈ Γ.ids, i ≤ M) (hC : ∀ i ∈ C, i ≤ M) (hA : ∀ i ∈ Γ.ids, i ∈ A) :
    GoodSubst (Γ.ids.zip (freshen Γ C M).1.vars) A M (freshen Γ C M).2 := by
  obtain ⟨h1, h2, h3, h4, h5, h6⟩ := freshen_spec M Γ C M hΓ hC (Nat.le_refl _)
  generalize hr : freshen Γ C M = r at *
  -- every pair of σ comes from a pair of the zip
  have hpair : ∀ p ∈ Γ.ids.zip r.1.vars, ∃ q ∈ Γ.zip r.1, p = (q.1.var.id, q.2.var) := by
    intro p hp
    rw [zip_ids_vars] at hp
    obtain ⟨q, hq, rfl⟩ := List.mem_map.1 hp
    exact ⟨q, hq, rfl⟩
  have hcase : ∀ y, substId (Γ.ids.zip r.1.vars) y = y ∨
      ∃ q ∈ Γ.zip r.1, q.1.var.id = y ∧ substId (Γ.ids.zip r.1.vars) y = q.2.var.id := by
    intro y
    rcases substIdent_cases (Γ.ids.zip r.1.vars) ⟨"", y⟩ with h | ⟨p, hp, e1, e2⟩
    · left
      have := congrArg Ident.id h.1
      rwa [substIdent_id] at this
    · right
      obtain ⟨q, hq, rfl⟩ := hpair p hp
      refine ⟨q, hq, e1, ?_⟩
      have := congrArg Ident.id e2
      rwa [substIdent_id] at this
  refine ⟨h1, ?_, ?_, ?_, ?_⟩
  · intro y hy
    rcases hcase y with h | ⟨q, hq, e1, e2⟩
    · omega
    · rcases (h3 q hq).2.2 with h | h
      · rw [e2, h, e1]; omega
      · rw [e2]; exact h.2
  · intro y z hy hz hyz
    rcases hcase y with hy' | ⟨q, hq, e1, e2⟩ <;> rcases hcase z with hz' | ⟨q', hq', e1', e2'⟩
    · omega
    · rcases (h3 q' hq').2.2 with h | h
      · rw [hy', e2', h, e1'] at hyz; exact hyz
      · rw [hy', e2'] at hyz; omega
    · rcases (h3 q hq).2.2 with h | h
      · rw [hz', e2, h, e1] at hyz; exact hyz
      · rw [hz', e2] at hyz; omega
    · rcases (h3 q hq).2.2 with h | h <;> rcases (h3 q' hq').2.2 with h' | h'
      · rw [e2, e2', h, h', e1, e1'] at hyz; exact hyz
      · rw [e2, e2', h, e1] at hyz; omega
      · rw [e2, e2', h', e1'] at hyz; omega
      · rw [e2, e2'] at hyz
        have : q.1 = q'.1 :=
          zip_inj_right (fun b : Binding => b.var.id) Γ r.1 h4 q.1 q.2 q'.1 q'.2 hq hq' hyz
        rw [← e1, ← e1', this]
  · intro x hx
    apply substIdent_fix
    intro p hp e
    apply hx
    apply hA
    rw [← e]
    exact (List.of_mem_zip hp).1
  · intro y hy
    rcases hcase y with h | ⟨q, hq, e1, e2⟩
    · exact Or.inl h
    · rcases (h3 q hq).2.2 with h | h
      · left; rw [e2, h, e1]
      · right; rw [e2]; exact h.1

/-! ## filterBySet keeps positions (optimality; not needed for typing) -/

theorem filterLoop_positions (S : List Nat) :
    ∀ (rest pre mid tail : List Binding), rest = mid ++ tail →
      ∃ X, filterLoop S rest pre.length (pre ++ mid) = pre ++ X ∧ X.length ≤ mid.length ∧
        ∀ j b, mid[j]? = some b → inSet S b = true → j < X.length → X[j]? = some b := by
  intro rest
  induction rest with
  | nil =>
    intro pre mid tail h
    have : mid = [] := by
      cases mid with
      | nil => rfl
      | cons a b => simp at h
    subst this
    exact ⟨[], by simp [filterLoop], by simp, by intro j b h; simp at h⟩
  | cons b rest ih =>
    intro pre mid tail h
    cases mid with
    | nil => exact ⟨[], by simp [filterLoop], by simp, by intro j b h; simp at h⟩
    | cons b' mid' =>
      have hb : b = b' := by simp at h; exact h.1
      have hrest : rest = mid' ++ tail := by simp at h; exact h.2
      subst hb
      unfold filterLoop
      have hc : ¬ (pre.length ≥ (pre ++ b :: mid').length) := by simp
      rw [if_neg hc]
      by_cases hin : S.contains b.var.id = true
      · have : (!S.contains b.var.id) = false := by rw [hin]; rfl
        simp only [this, Bool.false_eq_true, if_false]
        have e1 : pre ++ b :: mid' = (pre ++ [b]) ++ mid' := by simp
        have e2 : pre.length + 1 = (pre ++ [b]).length := by simp
        rw [e1, e2]
        obtain ⟨X, hX1, hX2, hX3⟩ := ih (pre ++ [b]) mid' tail hrest
        refine ⟨b :: X, by rw [hX1]; simp, by simp; omega, ?_⟩
        intro j c hj hc' hlt
        cases j with
        | zero => simp at hj ⊢; exact hj
        | succ j => simp at hj hlt ⊢; exact hX3 j c hj hc' hlt
      · have hnb : inSet S b = false := by simpa [inSet] using hin
        have hin' : S.contains b.var.id = false := Bool.eq_false_iff.2 hin
        have : (!S.contains b.var.id) = true := by rw [hin']; rfl
        simp only [this, if_true]
        rcases filterWhile_spec S pre b _ mid' rfl with ⟨l, m0, junk, hm, h1, h2, h3⟩ | ⟨h1, h2⟩
        · rw [h3]
          simp only [Bool.not_true, Bool.false_eq_true, if_false]
          have e1 : pre ++ l :: m0 = (pre ++ [l]) ++ m0 := by simp
          have e2 : pre.length + 1 = (pre ++ [l]).length := by simp
          rw [e1, e2]
          have hr : rest = m0 ++ (l :: junk ++ tail) := by rw [hrest, hm]; simp
          obtain ⟨X, hX1, hX2, hX3⟩ := ih (pre ++ [l]) m0 _ hr
          refine ⟨l :: X, by rw [hX1]; simp, by simp [hm]; omega, ?_⟩
          intro j c hj hc' hlt
          cases j with
          | zero =>
            simp at hj; subst hj; rw [hnb] at hc'; cases hc'
          | succ j =>
            simp at hj hlt ⊢
            apply hX3 j c ?_ hc' hlt
            have hjm : j < m0.length := by omega
            rw [hm, List.getElem?_append_left hjm] at hj
            exact hj
        · rw [h2]
          simp only [Bool.not_false, if_true, List.dropLast_concat]
          exact ⟨[], by simp, by simp, by intro j c _ _ hlt; simp at hlt⟩

/-- T1 ("preserves positions"): a binding that is kept and whose position still exists in the
result stays at its position. -/
theorem filterBySet_positions (Γ : Ctx) (S : List Nat) (j : Nat) (b : Binding)
    (hj : Γ[j]? = some b) (hb : b.var.id ∈ S) (hlt : j < (filterBySet Γ S).length) :
    (filterBySet Γ S)[j]? = some b := by
  obtain ⟨X, hX1, _, hX3⟩ := filterLoop_positions S Γ [] Γ [] (by simp)
  have e : filterBySet Γ S = X := by simpa [filterBySet] using hX1
  rw [e] at hlt ⊢
  exact hX3 j b hj (by simpa [inSet] using hb) hlt
