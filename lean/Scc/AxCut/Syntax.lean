/-
  Scc.AxCut.Syntax — the AxCut intermediate language (non-linear and linearized), as in
  /repo/lang/axcut/src/syntax/**, with reader/writer for the S-expression dump format of
  /verif/harness/src/dump_axcut.rs.   Core imports only; executable.

  Deviations from the Rust types, all representation-only:
  * `Rc<Statement>` is a plain sub-term; `Vec<Clause>` is the dedicated list type `Clauses`
    (so that recursion over statements is structural);
  * `HashSet<ID>` annotations are sorted duplicate-free `List Nat`;
  * literals are `Int` (always within the i64 range; the machines convert to `BitVec 64`).
-/
import Scc.Sexp

namespace Scc.AxCut

structure Ident where
  name : String
  id : Nat
  deriving DecidableEq, Repr, BEq, Inhabited, Hashable

inductive Ty where
  | i64
  | decl (name : Ident)
  deriving DecidableEq, Repr, BEq, Inhabited

inductive Chi where
  | prd | cns | ext
  deriving DecidableEq, Repr, BEq, Inhabited

structure Binding where
  var : Ident
  chi : Chi
  ty : Ty
  deriving DecidableEq, Repr, BEq, Inhabited

abbrev Ctx := List Binding

inductive BinOp where
  | div | prod | rem | sum | sub
  deriving DecidableEq, Repr, BEq, Inhabited

inductive IfSort where
  | eq | ne | lt | le | gt | ge
  deriving DecidableEq, Repr, BEq, Inhabited

abbrev FV := Option (List Nat)

mutual
  inductive Stmt where
    | subst (pairs : List (Binding × Ident)) (next : Stmt)
    | call (label : Ident) (args : Ctx)
    | letS (var : Ident) (ty : Ty) (tag : Ident) (args : Ctx) (next : Stmt) (fvNext : FV)
    | switch (var : Ident) (ty : Ty) (clauses : Clauses) (fvClauses : FV)
    | create (var : Ident) (ty : Ty) (env : Option Ctx) (clauses : Clauses) (next : Stmt)
        (fvClauses : FV) (fvNext : FV)
    | invoke (var : Ident) (tag : Ident) (ty : Ty) (args : Ctx)
    | lit (var : Ident) (n : Int) (next : Stmt) (fvNext : FV)
    | op (var : Ident) (fst : Ident) (o : BinOp) (snd : Ident) (next : Stmt) (fvNext : FV)
    | print (newline : Bool) (var : Ident) (next : Stmt) (fvNext : FV)
    | ifc (sort : IfSort) (fst : Ident) (snd : Option Ident) (thenc : Stmt) (elsec : Stmt)
    | exit (var : Ident)
  inductive Clauses where
    | nil
    | cons (xtor : Ident) (ctx : Ctx) (body : Stmt) (rest : Clauses)
end

instance : Inhabited Stmt := ⟨.exit default⟩

structure Clause where
  xtor : Ident
  ctx : Ctx
  body : Stmt

def Clauses.toList : Clauses → List Clause
  | .nil => []
  | .cons x c b r => ⟨x, c, b⟩ :: r.toList

def Clauses.ofList : List Clause → Clauses
  | [] => .nil
  | c :: cs => .cons c.xtor c.ctx c.body (Clauses.ofList cs)

def Clauses.length : Clauses → Nat
  | .nil => 0
  | .cons _ _ _ r => r.length + 1

structure XtorSig where
  name : Ident
  args : Ctx
  deriving Repr, BEq, Inhabited, DecidableEq

structure TypeDecl where
  name : Ident
  xtors : List XtorSig
  deriving Repr, BEq, Inhabited, DecidableEq

structure Def where
  name : Ident
  ctx : Ctx
  body : Stmt

structure Prog where
  defs : List Def
  types : List TypeDecl
  maxId : Nat

/-! ## lookups (axcut/src/syntax/types.rs, declaration.rs) — `none` is the Rust `panic!` -/

/-- types.rs: Ty::lookup_type_declaration -/
def lookupTypeDecl (types : List TypeDecl) : Ty → Option TypeDecl
  | .i64 => none
  | .decl n => types.find? (fun d => d.name == n)

/-- declaration.rs: TypeDeclaration::xtor_position -/
def xtorPosition (d : TypeDecl) (tag : Ident) : Option Nat :=
  let rec go : List XtorSig → Nat → Option Nat
    | [], _ => none
    | x :: xs, i => if x.name == tag then some i else go xs (i + 1)
  go d.xtors 0

/-! ## writer -/

open Sexp in
def Ident.toSexp (i : Ident) : Sexp := node "id" [.str i.name, nat i.id]

open Sexp in
def Ty.toSexp : Ty → Sexp
  | .i64 => .atom "i64"
  | .decl n => node "ty" [n.toSexp]

def Chi.toSexp : Chi → Sexp
  | .prd => .atom "prd" | .cns => .atom "cns" | .ext => .atom "ext"

open Sexp in
def Binding.toSexp (b : Binding) : Sexp := node "b" [b.var.toSexp, b.chi.toSexp, b.ty.toSexp]

open Sexp in
def ctxToSexp (c : Ctx) : Sexp := node "ctx" (c.map Binding.toSexp)

def BinOp.sym : BinOp → String
  | .div => "/" | .prod => "*" | .rem => "%" | .sum => "+" | .sub => "-"

def IfSort.sym : IfSort → String
  | .eq => "eq" | .ne => "ne" | .lt => "lt" | .le => "le" | .gt => "gt" | .ge => "ge"

open Sexp in
def fvToSexp : FV → Sexp
  | none => .atom "none"
  | some l => node "fv" (l.map nat)

open Sexp in
def optIdent : Option Ident → Sexp
  | none => .atom "none"
  | some i => i.toSexp

section
open Sexp
mutual
  def Stmt.toSexp : Stmt → Sexp
    | .subst pairs next =>
      node "subst" [node "pairs" (pairs.map fun (b, o) => node "pair" [b.toSexp, o.toSexp]), next.toSexp]
    | .call l a => node "call" [l.toSexp, ctxToSexp a]
    | .letS v t tag a n fv => node "let" [v.toSexp, t.toSexp, tag.toSexp, ctxToSexp a, n.toSexp, fvToSexp fv]
    | .switch v t cs fv => node "switch" [v.toSexp, t.toSexp, node "clauses" cs.toSexps, fvToSexp fv]
    | .create v t env cs n fc fn =>
      node "create" [v.toSexp, t.toSexp,
        (match env with | none => .atom "none" | some c => ctxToSexp c),
        node "clauses" cs.toSexps, n.toSexp, fvToSexp fc, fvToSexp fn]
    | .invoke v tag t a => node "invoke" [v.toSexp, tag.toSexp, t.toSexp, ctxToSexp a]
    | .lit v n nx fv => node "lit" [v.toSexp, int n, nx.toSexp, fvToSexp fv]
    | .op v a o b nx fv => node "op" [v.toSexp, a.toSexp, .atom o.sym, b.toSexp, nx.toSexp, fvToSexp fv]
    | .print nl v nx fv => node "print" [.atom (if nl then "nl" else "nonl"), v.toSexp, nx.toSexp, fvToSexp fv]
    | .ifc s a b t e => node "ifc" [.atom s.sym, a.toSexp, optIdent b, t.toSexp, e.toSexp]
    | .exit v => node "exit" [v.toSexp]
  def Clauses.toSexps : Clauses → List Sexp
    | .nil => []
    | .cons x c b r => node "clause" [x.toSexp, ctxToSexp c, b.toSexp] :: r.toSexps
end
end

open Sexp in
def TypeDecl.toSexp (d : TypeDecl) : Sexp :=
  node "type" (d.name.toSexp :: d.xtors.map fun x => node "xtor" [x.name.toSexp, ctxToSexp x.args])

open Sexp in
def Prog.toSexp (p : Prog) : Sexp :=
  node "axprog" [nat p.maxId, node "types" (p.types.map TypeDecl.toSexp),
    node "defs" (p.defs.map fun d => node "def" [d.name.toSexp, ctxToSexp d.ctx, d.body.toSexp])]

/-! ## reader (fuel = nesting depth bound; `none` on malformed input) -/

def readIdent (s : Sexp) : Option Ident :=
  match s.tagged "id" with
  | some [n, i] => do pure ⟨← n.asStr, ← i.asNat⟩
  | _ => none

def readTy : Sexp → Option Ty
  | .atom "i64" => some .i64
  | s => match s.tagged "ty" with
    | some [n] => do pure (.decl (← readIdent n))
    | _ => none

def readChi : Sexp → Option Chi
  | .atom "prd" => some .prd
  | .atom "cns" => some .cns
  | .atom "ext" => some .ext
  | _ => none

def readBinding (s : Sexp) : Option Binding :=
  match s.tagged "b" with
  | some [v, c, t] => do pure ⟨← readIdent v, ← readChi c, ← readTy t⟩
  | _ => none

def readCtx (s : Sexp) : Option Ctx := do
  let items ← s.tagged "ctx"
  items.mapM readBinding

def readFV : Sexp → Option FV
  | .atom "none" => some none
  | s => do
    let items ← s.tagged "fv"
    pure (some (← items.mapM Sexp.asNat))

def readBinOp : Sexp → Option BinOp
  | .atom "/" => some .div | .atom "*" => some .prod | .atom "%" => some .rem
  | .atom "+" => some .sum | .atom "-" => some .sub | _ => none

def readIfSort : Sexp → Option IfSort
  | .atom "eq" => some .eq | .atom "ne" => some .ne | .atom "lt" => some .lt
  | .atom "le" => some .le | .atom "gt" => some .gt | .atom "ge" => some .ge | _ => none

def readFVAt (l : List Sexp) (i : Nat) : Option FV :=
  match l[i]? with
  | none => some none
  | some s => readFV s

mutual
  def readStmt : Nat → Sexp → Option Stmt
    | 0, _ => none
    | fuel + 1, s =>
      match s.headOf with
      | some ("subst", [ps, next]) => do
        let items ← ps.tagged "pairs"
        let pairs ← items.mapM fun p =>
          match p.tagged "pair" with
          | some [b, o] => do pure (← readBinding b, ← readIdent o)
          | _ => none
        pure (.subst pairs (← readStmt fuel next))
      | some ("call", [l, a]) => do pure (.call (← readIdent l) (← readCtx a))
      | some ("let", v :: t :: tag :: a :: n :: rest) => do
        pure (.letS (← readIdent v) (← readTy t) (← readIdent tag) (← readCtx a) (← readStmt fuel n) (← readFVAt rest 0))
      | some ("switch", v :: t :: cs :: rest) => do
        let items ← cs.tagged "clauses"
        pure (.switch (← readIdent v) (← readTy t) (← readClauses fuel items) (← readFVAt rest 0))
      | some ("create", v :: t :: env :: cs :: n :: rest) => do
        let items ← cs.tagged "clauses"
        let env' ← match env with
          | .atom "none" => some none
          | e => (readCtx e).map some
        pure (.create (← readIdent v) (← readTy t) env' (← readClauses fuel items) (← readStmt fuel n)
          (← readFVAt rest 0) (← readFVAt rest 1))
      | some ("invoke", [v, tag, t, a]) => do
        pure (.invoke (← readIdent v) (← readIdent tag) (← readTy t) (← readCtx a))
      | some ("lit", v :: n :: nx :: rest) => do
        pure (.lit (← readIdent v) (← n.asInt) (← readStmt fuel nx) (← readFVAt rest 0))
      | some ("op", v :: a :: o :: b :: nx :: rest) => do
        pure (.op (← readIdent v) (← readIdent a) (← readBinOp o) (← readIdent b) (← readStmt fuel nx) (← readFVAt rest 0))
      | some ("print", nl :: v :: nx :: rest) => do
        pure (.print ((← nl.asAtom) == "nl") (← readIdent v) (← readStmt fuel nx) (← readFVAt rest 0))
      | some ("ifc", [srt, a, b, t, e]) => do
        let b' ← match b with
          | .atom "none" => some none
          | x => (readIdent x).map some
        pure (.ifc (← readIfSort srt) (← readIdent a) b' (← readStmt fuel t) (← readStmt fuel e))
      | some ("exit", [v]) => do pure (.exit (← readIdent v))
      | _ => none
  def readClauses : Nat → List Sexp → Option Clauses
    | 0, _ => none
    | _, [] => some .nil
    | fuel + 1, c :: cs =>
      match c.tagged "clause" with
      | some [x, ctx, b] => do
        pure (.cons (← readIdent x) (← readCtx ctx) (← readStmt fuel b) (← readClauses fuel cs))
      | _ => none
end

def readTypeDecl (s : Sexp) : Option TypeDecl :=
  match s.tagged "type" with
  | some (n :: xs) => do
    let xtors ← xs.mapM fun x =>
      match x.tagged "xtor" with
      | some [xn, a] => do pure (⟨← readIdent xn, ← readCtx a⟩ : XtorSig)
      | _ => none
    pure ⟨← readIdent n, xtors⟩
  | _ => none

def readProg (fuel : Nat) (s : Sexp) : Option Prog :=
  match s.tagged "axprog" with
  | some [m, ts, ds] => do
    let types ← (← ts.tagged "types").mapM readTypeDecl
    let defs ← (← ds.tagged "defs").mapM fun d =>
      match d.tagged "def" with
      | some [n, c, b] => do pure (⟨← readIdent n, ← readCtx c, ← readStmt fuel b⟩ : Def)
      | _ => none
    pure ⟨defs, types, ← m.asNat⟩
  | _ => none

/-- printed form of an identifier (names.rs Print): `name` if id = 0 else `name_id` -/
def Ident.print (i : Ident) : String :=
  if i.id == 0 then i.name else i.name ++ "_" ++ toString i.id

end Scc.AxCut
