/-
  Scc.AxCut.PosCapacity — a STATIC bound on the length of every context that the positional AxCut
  machine (Scc/AxCut/SemPos.lean) can reach in a run of a program.

  `capStmt n s`   the largest context length while `s` runs, entered with a context of length `n`, up to the
                  next `call` / `invoke` (which replace the context), the bodies of the closures created in
                  `s` included (entered with |clause parameters| + |closure environment|);
  `progCap P`     the maximum of `capStmt |d.ctx| d.body` over the definitions of `P`  (executable);
  `reach_cap`     THEOREM: every state reachable from the entry state of a definition of `P` on integer
                  arguments has a context of length `≤ progCap P` — for ALL programs (no typing needed: the
                  machine is stuck where a shape is violated).
  Use: the capacity hypothesis of Theorem A (`C06Generic.TheoremA_run`: "every context of the run is within
  the numbering of temporaries") becomes the decidable per-program check `2 * progCap P + 2 < T_TEMP`
  (Scc/Props/C06Capacity.lean).
  Definitions: core imports only, executable.  Proof: an invariant of `Pos.step` (`StateCap`): the bound for
  the current statement at the current context length, and for every closure value anywhere in the
  environment the bound for its clauses at |closure environment|.
-/
import Scc.AxCut.SemPos

namespace Scc.AxCut.Pos

open Scc.AxCut

/-! ## the static bound -/

mutual
  def capStmt : Nat → Stmt → Nat
    | n, .subst pairs next => max n (capStmt pairs.length next)
    | n, .call _ _ => n
    | n, .letS _ _ _ _ next _ => max n (capStmt (n + 1) next)
    | n, .switch _ _ cl _ => max n (capClauses n cl)
    | n, .create _ _ env cl next _ _ =>
      max (max n (capStmt (n + 1) next)) (capClauses (env.getD []).length cl)
    | n, .invoke _ _ _ _ => n
    | n, .lit _ _ next _ => max n (capStmt (n + 1) next)
    | n, .op _ _ _ _ next _ => max n (capStmt (n + 1) next)
    | n, .print _ _ next _ => max n (capStmt n next)
    | n, .ifc _ _ _ t e => max n (max (capStmt n t) (capStmt n e))
    | n, .exit _ => n
  /-- the clauses entered with `m` further positions (the rest of the context / the closure
      environment) besides their own parameters -/
  def capClauses : Nat → Clauses → Nat
    | _, .nil => 0
    | m, .cons _ ctx b r => max (capStmt (m + ctx.length) b) (capClauses m r)
end

/-- the bound of a program: the maximum over its definitions -/
def progCap (P : Prog) : Nat := P.defs.foldl (fun acc d => max acc (capStmt d.ctx.length d.body)) 0

/-! ## basic facts -/

theorem le_capStmt : ∀ (n : Nat) (s : Stmt), n ≤ capStmt n s
  | n, .subst _ _ => by simp only [capStmt]; omega
  | n, .call _ _ => by simp [capStmt]
  | n, .letS _ _ _ _ _ _ => by simp only [capStmt]; omega
  | n, .switch _ _ _ _ => by simp only [capStmt]; omega
  | n, .create _ _ _ _ _ _ _ => by simp only [capStmt]; omega
  | n, .invoke _ _ _ _ => by simp [capStmt]
  | n, .lit _ _ _ _ => by simp only [capStmt]; omega
  | n, .op _ _ _ _ _ _ => by simp only [capStmt]; omega
  | n, .print _ _ _ _ => by simp only [capStmt]; omega
  | n, .ifc _ _ _ _ _ => by simp only [capStmt]; omega
  | n, .exit _ => by simp [capStmt]

mutual
  theorem capStmt_mono : ∀ (s : Stmt) {n m : Nat}, n ≤ m → capStmt n s ≤ capStmt m s
    | .subst _ _, n, m, h => by simp only [capStmt]; omega
    | .call _ _, n, m, h => by simpa [capStmt] using h
    | .letS _ _ _ _ next _, n, m, h => by
      have := capStmt_mono next (show n + 1 ≤ m + 1 by omega)
      simp only [capStmt]; omega
    | .switch _ _ cl _, n, m, h => by
      have := capClauses_mono cl h
      simp only [capStmt]; omega
    | .create _ _ _ _ next _ _, n, m, h => by
      have := capStmt_mono next (show n + 1 ≤ m + 1 by omega)
      simp only [capStmt]; omega
    | .invoke _ _ _ _, n, m, h => by simpa [capStmt] using h
    | .lit _ _ next _, n, m, h => by
      have := capStmt_mono next (show n + 1 ≤ m + 1 by omega)
      simp only [capStmt]; omega
    | .op _ _ _ _ next _, n, m, h => by
      have := capStmt_mono next (show n + 1 ≤ m + 1 by omega)
      simp only [capStmt]; omega
    | .print _ _ next _, n, m, h => by
      have := capStmt_mono next h
      simp only [capStmt]; omega
    | .ifc _ _ _ t e, n, m, h => by
      have := capStmt_mono t h
      have := capStmt_mono e h
      simp only [capStmt]; omega
    | .exit _, n, m, h => by simpa [capStmt] using h
  theorem capClauses_mono : ∀ (cl : Clauses) {n m : Nat}, n ≤ m → capClauses n cl ≤ capClauses m cl
    | .nil, _, _, _ => by simp [capClauses]
    | .cons _ ctx b r, n, m, h => by
      have := capStmt_mono b (show n + ctx.length ≤ m + ctx.length by omega)
      have := capClauses_mono r h
      simp only [capClauses]; omega
end

theorem capClauses_nth : ∀ (cl : Clauses) (i : Nat) (c : Clause) (m : Nat), nthClause cl i = some c →
    capStmt (m + c.ctx.length) c.body ≤ capClauses m cl
  | .nil, _, _, _, h => by simp [nthClause] at h
  | .cons x ctx b r, 0, c, m, h => by
    simp only [nthClause, Option.some.injEq] at h
    subst h
    simp only [capClauses]; omega
  | .cons x ctx b r, i + 1, c, m, h => by
    simp only [nthClause] at h
    have := capClauses_nth r i c m h
    simp only [capClauses]; omega

theorem foldl_cap_ge (f : Def → Nat) : ∀ (l : List Def) (a : Nat),
    a ≤ l.foldl (fun acc d => max acc (f d)) a ∧ ∀ d ∈ l, f d ≤ l.foldl (fun acc d => max acc (f d)) a
  | [], a => ⟨Nat.le_refl _, fun d hd => by cases hd⟩
  | x :: l, a => by
    obtain ⟨h1, h2⟩ := foldl_cap_ge f l (max a (f x))
    refine ⟨by simp only [List.foldl_cons]; omega, ?_⟩
    intro d hd
    simp only [List.foldl_cons]
    rcases List.mem_cons.1 hd with rfl | hd
    · omega
    · exact h2 d hd

/-- every definition is within the bound of the program -/
theorem progCap_def (P : Prog) : ∀ d ∈ P.defs, capStmt d.ctx.length d.body ≤ progCap P :=
  (foldl_cap_ge (fun d => capStmt d.ctx.length d.body) P.defs 0).2

/-! ## the invariant -/

mutual
  /-- every closure inside the value has clauses within the bound `B` at its environment's length -/
  inductive ValCap (B : Nat) : Value → Prop where
    | int (n : BitVec 64) : ValCap B (.int n)
    | obj {tag : Nat} {fields : List Value} : ValsCap B fields → ValCap B (.obj tag fields)
    | clo {Γc : Ctx} {env : List Value} {cl : Clauses} :
        ValsCap B env → capClauses Γc.length cl ≤ B → ValCap B (.clo Γc env cl)
  inductive ValsCap (B : Nat) : List Value → Prop where
    | nil : ValsCap B []
    | cons {v : Value} {vs : List Value} : ValCap B v → ValsCap B vs → ValsCap B (v :: vs)
end

theorem ValsCap.mem {B : Nat} : ∀ {vs : List Value}, ValsCap B vs → ∀ v ∈ vs, ValCap B v
  | [], _, v, hv => by cases hv
  | _ :: _, .cons h hs, v, hv => by
    rcases List.mem_cons.1 hv with rfl | hv
    · exact h
    · exact ValsCap.mem hs v hv

theorem ValsCap.of_mem {B : Nat} : ∀ {vs : List Value}, (∀ v ∈ vs, ValCap B v) → ValsCap B vs
  | [], _ => .nil
  | v :: vs, h => .cons (h v (by simp)) (ValsCap.of_mem fun w hw => h w (by simp [hw]))

theorem ValsCap.append {B : Nat} {a b : List Value} (ha : ValsCap B a) (hb : ValsCap B b) :
    ValsCap B (a ++ b) :=
  ValsCap.of_mem fun v hv => by
    rcases List.mem_append.1 hv with h | h
    · exact ha.mem v h
    · exact hb.mem v h

theorem ValsCap.sub {B : Nat} {a b : List Value} (ha : ValsCap B a) (h : ∀ v ∈ b, v ∈ a) :
    ValsCap B b :=
  ValsCap.of_mem fun v hv => ha.mem v (h v hv)

theorem ValsCap.ints {B : Nat} (args : List (BitVec 64)) : ValsCap B (args.map .int) :=
  ValsCap.of_mem fun v hv => by
    obtain ⟨a, _, rfl⟩ := List.mem_map.1 hv
    exact .int a

/-- the invariant of a state: the statement is within the bound at the current context length, and
    so is every closure in the environment -/
structure StateCap (B : Nat) (st : State) : Prop where
  stmt : capStmt st.ctx.length st.stmt ≤ B
  env : ValsCap B st.env

theorem StateCap.ctx_le {B : Nat} {st : State} (h : StateCap B st) : st.ctx.length ≤ B :=
  Nat.le_trans (le_capStmt _ _) h.stmt

theorem readVar_mem {Γ : Ctx} {ρ : List Value} {x : Ident} {v : Value}
    (h : readVar Γ ρ x = .ok v) : v ∈ ρ := by
  unfold readVar at h
  split at h
  · cases h
  · rename_i i _
    split at h
    · cases h
    · rename_i w hw
      injection h with h
      subst h
      exact List.mem_of_getElem? hw

theorem build_mem {Γ : Ctx} {ρ : List Value} : ∀ (pairs : List (Binding × Ident)) (vs : List Value),
    step.build Γ ρ pairs = .ok vs → vs.length = pairs.length ∧ ∀ v ∈ vs, v ∈ ρ
  | [], vs, h => by
    simp only [step.build, Except.ok.injEq] at h
    subst h
    exact ⟨rfl, fun v hv => by cases hv⟩
  | p :: ps, vs, h => by
    simp only [step.build] at h
    split at h
    · cases h
    · rename_i v hv
      split at h
      · cases h
      · rename_i ws hws
        injection h with h
        subst h
        obtain ⟨h1, h2⟩ := build_mem ps ws hws
        refine ⟨by simp [h1], fun w hw => ?_⟩
        rcases List.mem_cons.1 hw with rfl | hw
        · exact readVar_mem hv
        · exact h2 w hw

theorem mem_of_mem_dropLast' {α : Type} {l : List α} {a : α} (h : a ∈ l.dropLast) : a ∈ l := by
  rw [List.dropLast_eq_take] at h
  exact List.mem_of_mem_take h

theorem getLast?_mem {α : Type} {l : List α} {a : α} (h : l.getLast? = some a) : a ∈ l :=
  List.mem_of_getLast? h

/-- **the invariant is preserved by every step** -/
theorem step_cap {P : Prog} {B : Nat} (hP : ∀ d ∈ P.defs, capStmt d.ctx.length d.body ≤ B)
    {st st' : State} {o : Option (Bool × BitVec 64)} (I : StateCap B st)
    (hs : step P st = .next st' o) : StateCap B st' := by
  obtain ⟨Γ, ρ, s⟩ := st
  obtain ⟨hst, henv⟩ := I
  simp only at hst henv
  cases s with
  | lit x n next fv =>
    simp only [step, StepResult.next.injEq] at hs
    obtain ⟨rfl, _⟩ := hs
    simp only [capStmt] at hst
    exact ⟨by simp only [List.length_append, List.length_singleton]; omega,
      henv.append (.cons (.int _) .nil)⟩
  | op x a o' b next fv =>
    simp only [step] at hs
    split at hs
    · cases hs
    · split at hs
      · cases hs
      · split at hs
        · cases hs
        · simp only [StepResult.next.injEq] at hs
          obtain ⟨rfl, _⟩ := hs
          simp only [capStmt] at hst
          exact ⟨by simp only [List.length_append, List.length_singleton]; omega,
            henv.append (.cons (.int _) .nil)⟩
  | print nl a next fv =>
    simp only [step] at hs
    split at hs
    · cases hs
    · simp only [StepResult.next.injEq] at hs
      obtain ⟨rfl, _⟩ := hs
      simp only [capStmt] at hst
      exact ⟨by simp only; omega, henv⟩
  | ifc srt a b t e =>
    simp only [step] at hs
    simp only [capStmt] at hst
    split at hs
    · cases hs
    · split at hs
      · simp only [StepResult.next.injEq] at hs
        obtain ⟨rfl, _⟩ := hs
        refine ⟨?_, henv⟩
        simp only
        split <;> omega
      · split at hs
        · cases hs
        · simp only [StepResult.next.injEq] at hs
          obtain ⟨rfl, _⟩ := hs
          refine ⟨?_, henv⟩
          simp only
          split <;> omega
  | exit a =>
    simp only [step] at hs
    split at hs <;> cases hs
  | letS x ty tag args next fv =>
    simp only [step] at hs
    split at hs
    · cases hs
    · split at hs
      · cases hs
      · simp only [StepResult.next.injEq] at hs
        obtain ⟨rfl, _⟩ := hs
        simp only [capStmt] at hst
        refine ⟨?_, ?_⟩
        · simp only [List.length_append, List.length_take, List.length_singleton]
          have := capStmt_mono next (show min (Γ.length - args.length) Γ.length + 1 ≤ Γ.length + 1 by omega)
          omega
        · exact (henv.sub fun v hv => List.mem_of_mem_take hv).append
            (.cons (.obj (henv.sub fun v hv => List.mem_of_mem_drop hv)) .nil)
  | switch x ty cl fv =>
    simp only [step] at hs
    split at hs
    · rename_i b v hb hv
      split at hs
      · cases hs
      · split at hs
        · rename_i pos fields
          split at hs
          · cases hs
          · rename_i c hc
            split at hs
            · cases hs
            · simp only [StepResult.next.injEq] at hs
              obtain ⟨rfl, _⟩ := hs
              simp only [capStmt] at hst
              have hcl := capClauses_nth cl pos c Γ.length hc
              refine ⟨?_, ?_⟩
              · simp only [List.length_append, List.length_dropLast]
                have := capStmt_mono c.body
                  (show Γ.length - 1 + c.ctx.length ≤ Γ.length + c.ctx.length by omega)
                omega
              · have hv' := henv.mem _ (getLast?_mem hv)
                cases hv' with
                | obj hf => exact (henv.sub fun w hw => mem_of_mem_dropLast' hw).append hf
        · cases hs
    · cases hs
  | create x ty env cl next fv1 fv2 =>
    simp only [step] at hs
    split at hs
    · cases hs
    · rename_i Γc
      split at hs
      · cases hs
      · simp only [StepResult.next.injEq] at hs
        obtain ⟨rfl, _⟩ := hs
        simp only [capStmt, Option.getD_some] at hst
        refine ⟨?_, ?_⟩
        · simp only [List.length_append, List.length_take, List.length_singleton]
          have := capStmt_mono next (show min (Γ.length - Γc.length) Γ.length + 1 ≤ Γ.length + 1 by omega)
          omega
        · exact (henv.sub fun v hv => List.mem_of_mem_take hv).append
            (.cons (.clo (henv.sub fun v hv => List.mem_of_mem_drop hv) (by omega)) .nil)
  | invoke x tag ty args =>
    simp only [step] at hs
    split at hs
    · rename_i b v hb hv
      split at hs
      · cases hs
      · split at hs
        · rename_i Γc ρc cl
          split at hs
          · cases hs
          · rename_i pos _
            split at hs
            · cases hs
            · rename_i c hc
              split at hs
              · cases hs
              · simp only [StepResult.next.injEq] at hs
                obtain ⟨rfl, _⟩ := hs
                have hv' := henv.mem _ (getLast?_mem hv)
                cases hv' with
                | clo he hcap =>
                  have hcl := capClauses_nth cl pos c Γc.length hc
                  refine ⟨?_, ?_⟩
                  · simp only [List.length_append]
                    rw [Nat.add_comm]
                    omega
                  · exact (henv.sub fun w hw => mem_of_mem_dropLast' hw).append he
        · cases hs
    · cases hs
  | call l args =>
    simp only [step] at hs
    split at hs
    · cases hs
    · rename_i d hd
      split at hs
      · cases hs
      · simp only [StepResult.next.injEq] at hs
        obtain ⟨rfl, _⟩ := hs
        have hmem : d ∈ P.defs := by
          unfold findDef at hd
          exact List.mem_of_find?_eq_some hd
        exact ⟨hP d hmem, henv⟩
  | subst pairs next =>
    simp only [step] at hs
    split at hs
    · cases hs
    · rename_i vs hvs
      simp only [StepResult.next.injEq] at hs
      obtain ⟨rfl, _⟩ := hs
      obtain ⟨_, hm⟩ := build_mem pairs vs hvs
      simp only [capStmt] at hst
      exact ⟨by simp only [List.length_map]; omega, henv.sub hm⟩

/-- the entry state of a definition of the program on integer arguments satisfies the invariant -/
theorem init_cap {P : Prog} {B : Nat} (hP : ∀ d ∈ P.defs, capStmt d.ctx.length d.body ≤ B)
    {d : Def} (hd : d ∈ P.defs) (args : List (BitVec 64)) :
    StateCap B ⟨d.ctx, args.map .int, d.body⟩ :=
  ⟨hP d hd, ValsCap.ints args⟩

end Scc.AxCut.Pos
