/-
  Scc.AxCut.LinRelLin — proof file (C05, T4, part B): the output of `linearize` is a linearization
  (`LinRel`, Scc/AxCut/LinRel.lean) of the ORIGINAL named statement.

  The linearizer works on an annotated and, after `Create`, renamed copy `s₁` of the original
  statement `s₀`; `Ren θ s₀ s₁` records the correspondence of free variables (θ = the pairs
  (named id, id in the current context)), bound variables being identical on both sides.
-/
import Scc.AxCut.LinMain
import Scc.AxCut.LinRel

namespace Scc.AxCut

/-! ## the named variable at a position -/

/-- the named variable standing at the position of `Γ` whose binding has id `z` -/
def preId (ys : List Nat) (Γ : Ctx) (z : Nat) : Nat :=
  match Γ.findIdx? (fun b => b.var.id == z) with
  | some i => ys.getD i 0
  | none => 0

theorem findIdx_of_get : ∀ (Γ : Ctx) (i : Nat) (b : Binding), NodupIds Γ → Γ[i]? = some b →
    Γ.findIdx? (fun c => c.var.id == b.var.id) = some i
  | [], i, b, _, h => by simp at h
  | c :: Γ, 0, b, _, h => by
    simp at h; subst h
    simp [List.findIdx?_cons]
  | c :: Γ, i + 1, b, hn, h => by
    simp only [NodupIds, Ctx.ids, List.map_cons, List.nodup_cons] at hn
    simp only [List.getElem?_cons_succ] at h
    have hmem : b ∈ Γ := List.mem_of_getElem? h
    have hne : (c.var.id == b.var.id) = false := by
      have : c.var.id ≠ b.var.id := fun e => hn.1 (e ▸ List.mem_map.2 ⟨b, hmem, rfl⟩)
      simpa using this
    have ih := findIdx_of_get Γ i b hn.2 h
    simp [List.findIdx?_cons, hne, ih]

theorem preId_of_get {ys : List Nat} {Γ : Ctx} (hn : NodupIds Γ) (hl : ys.length = Γ.length)
    {i : Nat} {b : Binding} (h : Γ[i]? = some b) : ys[i]? = some (preId ys Γ b.var.id) := by
  have hi : i < ys.length := by
    rw [hl]; exact (List.getElem?_eq_some_iff.1 h).1
  simp only [preId, findIdx_of_get Γ i b hn h, List.getD_eq_getElem?_getD,
    List.getElem?_eq_getElem hi, Option.getD_some]

theorem get_of_hasVar {Γ : Ctx} {z : Nat} {c : Chi} {t : Ty} (h : HasVar Γ z c t) :
    ∃ (i : Nat) (b : Binding), Γ[i]? = some b ∧ b.var.id = z ∧ b.chi = c ∧ b.ty = t := by
  obtain ⟨b, hb, h1, h2, h3⟩ := h
  obtain ⟨i, hi⟩ := List.getElem?_of_mem hb
  exact ⟨i, b, hi, h1, h2, h3⟩

theorem occ_of_hasVar {ys : List Nat} {Γ : Ctx} (hn : NodupIds Γ) (hl : ys.length = Γ.length)
    {z : Nat} {c : Chi} {t : Ty} (h : HasVar Γ z c t) : Occ ys Γ (preId ys Γ z) z c t := by
  obtain ⟨i, b, h1, rfl, rfl, rfl⟩ := get_of_hasVar h
  exact ⟨i, b, preId_of_get hn hl h1, h1, rfl, rfl, rfl⟩

theorem mem_zip_get {α β} : ∀ (l1 : List α) (l2 : List β) (a : α) (b : β), (a, b) ∈ l1.zip l2 →
    ∃ i : Nat, l1[i]? = some a ∧ l2[i]? = some b
  | [], _, _, _, h => by simp at h
  | _ :: _, [], _, _, h => by simp at h
  | x :: xs, y :: ys, a, b, h => by
    simp only [List.zip_cons_cons, List.mem_cons, Prod.mk.injEq] at h
    rcases h with ⟨rfl, rfl⟩ | h
    · exact ⟨0, rfl, rfl⟩
    · obtain ⟨i, h1, h2⟩ := mem_zip_get xs ys a b h
      exact ⟨i + 1, by simpa using h1, by simpa using h2⟩

theorem get_mem_zip {α β} : ∀ (l1 : List α) (l2 : List β) (i : Nat) (a : α) (b : β),
    l1[i]? = some a → l2[i]? = some b → (a, b) ∈ l1.zip l2
  | [], _, _, _, _, h, _ => by simp at h
  | _ :: _, [], _, _, _, _, h => by simp at h
  | x :: xs, y :: ys, 0, a, b, h1, h2 => by
    simp at h1 h2; subst h1; subst h2; simp
  | x :: xs, y :: ys, i + 1, a, b, h1, h2 => by
    simp at h1 h2
    simp only [List.zip_cons_cons, List.mem_cons]
    exact Or.inr (get_mem_zip xs ys i a b h1 h2)

theorem ids_get {Γ : Ctx} {i : Nat} {b : Binding} (h : Γ[i]? = some b) :
    (Ctx.ids Γ)[i]? = some b.var.id := by
  simp [Ctx.ids, List.getElem?_map, h]

theorem ids_get_inv {Γ : Ctx} {i : Nat} {z : Nat} (h : (Ctx.ids Γ)[i]? = some z) :
    ∃ b, Γ[i]? = some b ∧ b.var.id = z := by
  simp only [Ctx.ids, List.getElem?_map, Option.map_eq_some_iff] at h
  exact h

/-- a pair of the correspondence determines the named variable -/
theorem preId_of_mem_zip {ys : List Nat} {Γ : Ctx} (hn : NodupIds Γ) (hl : ys.length = Γ.length)
    {y z : Nat} (h : (y, z) ∈ ys.zip Γ.ids) : preId ys Γ z = y := by
  obtain ⟨i, h1, h2⟩ := mem_zip_get _ _ _ _ h
  obtain ⟨b, hb, rfl⟩ := ids_get_inv h2
  have := preId_of_get hn hl hb
  rw [h1] at this
  injection this with this
  exact this.symm

theorem mem_zip_preId {ys : List Nat} {Γ : Ctx} (hn : NodupIds Γ) (hl : ys.length = Γ.length)
    {z : Nat} (h : z ∈ Γ.ids) : (preId ys Γ z, z) ∈ ys.zip Γ.ids := by
  obtain ⟨b, hb, rfl⟩ := List.mem_map.1 h
  obtain ⟨i, hi⟩ := List.getElem?_of_mem hb
  exact get_mem_zip _ _ i _ _ (preId_of_get hn hl hi) (ids_get hi)

theorem map_preId_ids {ys : List Nat} {Γ : Ctx} (hn : NodupIds Γ) (hl : ys.length = Γ.length) :
    Γ.ids.map (preId ys Γ) = ys := by
  apply List.ext_getElem?
  intro i
  simp only [List.getElem?_map]
  cases hg : Γ[i]? with
  | none =>
    have : Γ.length ≤ i := by simpa using hg
    have h1 : (Ctx.ids Γ)[i]? = none := by simp [Ctx.ids, hg]
    have h2 : ys[i]? = none := by simp; omega
    simp [h1, h2]
  | some b =>
    rw [ids_get hg, preId_of_get hn hl hg]
    rfl

theorem preId_mem {ys : List Nat} {Γ : Ctx} (hn : NodupIds Γ) (hl : ys.length = Γ.length)
    {z : Nat} (h : z ∈ Γ.ids) : preId ys Γ z ∈ ys :=
  (List.of_mem_zip (mem_zip_preId hn hl h)).1

/-- positions of a sub-context read through any function of the ids -/
theorem occ_map {Δ : Ctx} (f : Nat → Nat) {z : Nat} {c : Chi} {t : Ty} (h : HasVar Δ z c t) :
    Occ (Δ.ids.map f) Δ (f z) z c t := by
  obtain ⟨i, b, h1, rfl, rfl, rfl⟩ := get_of_hasVar h
  exact ⟨i, b, by simp [Ctx.ids, List.getElem?_map, h1], h1, rfl, rfl, rfl⟩

/-! ## correspondence between the original statement and the linearizer's working copy -/

abbrev Corr := List (Nat × Nat)

def Corr.dom (θ : Corr) : List Nat := θ.map (·.1)

def diag (xs : List Nat) : Corr := xs.map fun i => (i, i)

/-- arguments correspond position by position (ids through θ; kinds and types equal) -/
def RenArgs (θ : Corr) : Ctx → Ctx → Prop
  | [], [] => True
  | a :: as, b :: bs => (a.var.id, b.var.id) ∈ θ ∧ a.chi = b.chi ∧ a.ty = b.ty ∧ RenArgs θ as bs
  | _, _ => False

def RenOpt (θ : Corr) : Option Ident → Option Ident → Prop
  | none, none => True
  | some a, some b => (a.id, b.id) ∈ θ
  | _, _ => False

mutual
  /-- `s₁` is `s₀` with its free variables renamed along θ (names and annotations are irrelevant);
  binders are identical and fresh for the named side of θ; `create` carries no environment
  annotation in `s₀` -/
  def Ren : Corr → Stmt → Stmt → Prop
    | θ, .call l a, .call l' a' => l' = l ∧ RenArgs θ a a'
    | θ, .letS x ty tag a n _, .letS x' ty' tag' a' n' _ =>
      x' = x ∧ ty' = ty ∧ tag' = tag ∧ RenArgs θ a a' ∧ x.id ∉ θ.dom ∧ Ren (θ ++ [(x.id, x.id)]) n n'
    | θ, .switch x ty cs _, .switch x' ty' cs' _ =>
      (x.id, x'.id) ∈ θ ∧ ty' = ty ∧ RenClauses θ cs cs'
    | θ, .create x ty env cs n _ _, .create x' ty' _ cs' n' _ _ =>
      x' = x ∧ ty' = ty ∧ env = none ∧ RenClauses θ cs cs' ∧ x.id ∉ θ.dom ∧
        Ren (θ ++ [(x.id, x.id)]) n n'
    | θ, .invoke x tag ty a, .invoke x' tag' ty' a' =>
      (x.id, x'.id) ∈ θ ∧ tag' = tag ∧ ty' = ty ∧ RenArgs θ a a'
    | θ, .lit x k n _, .lit x' k' n' _ =>
      x' = x ∧ k' = k ∧ x.id ∉ θ.dom ∧ Ren (θ ++ [(x.id, x.id)]) n n'
    | θ, .op x a o b n _, .op x' a' o' b' n' _ =>
      x' = x ∧ o' = o ∧ (a.id, a'.id) ∈ θ ∧ (b.id, b'.id) ∈ θ ∧ x.id ∉ θ.dom ∧
        Ren (θ ++ [(x.id, x.id)]) n n'
    | θ, .print nl a n _, .print nl' a' n' _ => nl' = nl ∧ (a.id, a'.id) ∈ θ ∧ Ren θ n n'
    | θ, .ifc s a b t e, .ifc s' a' b' t' e' =>
      s' = s ∧ (a.id, a'.id) ∈ θ ∧ RenOpt θ b b' ∧ Ren θ t t' ∧ Ren θ e e'
    | θ, .exit a, .exit a' => (a.id, a'.id) ∈ θ
    | _, _, _ => False
  def RenClauses : Corr → Clauses → Clauses → Prop
    | _, .nil, .nil => True
    | θ, .cons x ctx b r, .cons x' ctx' b' r' =>
      x' = x ∧ ctx' = ctx ∧ (∀ i ∈ ctx.ids, i ∉ θ.dom) ∧ Ren (θ ++ diag ctx.ids) b b' ∧
        RenClauses θ r r'
    | _, _, _ => False
end

mutual
  /-- no `create` of the statement carries an environment annotation (true of every S4 dump) -/
  def noEnvAnn : Stmt → Bool
    | .subst _ n => noEnvAnn n
    | .call _ _ => true
    | .letS _ _ _ _ n _ => noEnvAnn n
    | .switch _ _ cs _ => noEnvAnnClauses cs
    | .create _ _ env cs n _ _ => env.isNone && noEnvAnnClauses cs && noEnvAnn n
    | .invoke _ _ _ _ => true
    | .lit _ _ n _ => noEnvAnn n
    | .op _ _ _ _ n _ => noEnvAnn n
    | .print _ _ n _ => noEnvAnn n
    | .ifc _ _ _ t e => noEnvAnn t && noEnvAnn e
    | .exit _ => true
  def noEnvAnnClauses : Clauses → Bool
    | .nil => true
    | .cons _ _ b r => noEnvAnn b && noEnvAnnClauses r
end

theorem mem_diag {xs : List Nat} {y z : Nat} : (y, z) ∈ diag xs ↔ y ∈ xs ∧ z = y := by
  simp only [diag, List.mem_map, Prod.mk.injEq]
  constructor
  · rintro ⟨i, hi, e1, e2⟩; subst e1; subst e2; exact ⟨hi, rfl⟩
  · rintro ⟨hi, e⟩; exact ⟨y, hi, rfl, e.symm⟩

theorem dom_append (θ θ' : Corr) : (θ ++ θ').dom = θ.dom ++ θ'.dom := by simp [Corr.dom]
theorem dom_diag (xs : List Nat) : (diag xs).dom = xs := by
  simp [Corr.dom, diag, Function.comp_def]

theorem renArgs_of_argsIn : ∀ (args : Ctx) (θ : Corr), (∀ a ∈ args, (a.var.id, a.var.id) ∈ θ) →
    RenArgs θ args args
  | [], _, _ => by simp [RenArgs]
  | a :: as, θ, h => by
    simp only [RenArgs, true_and]
    exact ⟨h a (by simp), renArgs_of_argsIn as θ (fun b hb => h b (List.mem_cons_of_mem _ hb))⟩

/-- hypotheses on θ for R1: it is the identity on everything in scope and nothing else -/
def IdCorr (θ : Corr) (Γ : Ctx) : Prop := (∀ y ∈ Γ.ids, (y, y) ∈ θ) ∧ (∀ y ∈ θ.dom, y ∈ Γ.ids)

theorem IdCorr.push {θ : Corr} {Γ : Ctx} (h : IdCorr θ Γ) (b : Binding) :
    IdCorr (θ ++ [(b.var.id, b.var.id)]) (Γ ++ [b]) := by
  constructor
  · intro y hy
    rcases mem_ids_append_singleton.1 hy with hy | hy
    · exact List.mem_append_left _ (h.1 y hy)
    · subst hy; simp
  · intro y hy
    rw [dom_append] at hy
    rcases List.mem_append.1 hy with hy | hy
    · exact mem_ids_append_singleton.2 (Or.inl (h.2 y hy))
    · simp [Corr.dom] at hy; exact mem_ids_append_singleton.2 (Or.inr hy)

theorem IdCorr.pushCtx {θ : Corr} {Γ : Ctx} (h : IdCorr θ Γ) (ctx : Ctx) :
    IdCorr (θ ++ diag ctx.ids) (Γ ++ ctx) := by
  constructor
  · intro y hy
    rw [ids_append] at hy
    rcases List.mem_append.1 hy with hy | hy
    · exact List.mem_append_left _ (h.1 y hy)
    · exact List.mem_append_right _ (mem_diag.2 ⟨hy, rfl⟩)
  · intro y hy
    rw [dom_append, dom_diag] at hy
    rw [ids_append]
    rcases List.mem_append.1 hy with hy | hy
    · exact List.mem_append_left _ (h.2 y hy)
    · exact List.mem_append_right _ hy

mutual
  /-- R1: the annotated statement corresponds to the original one along the identity -/
  theorem ren_freeVars (T : List TypeDecl) (S : Sigs) (M : Nat) :
      ∀ (s : Stmt) (Γ : Ctx) (θ : Corr), WT T S M s Γ → IdCorr θ Γ → noEnvAnn s = true →
        Ren θ s (freeVars s).1
    | .subst _ _, _, _, h, _, _ => by simp [WT] at h
    | .call l args, Γ, θ, h, hθ, _ => by
      simp only [WT] at h
      obtain ⟨_, _, _, h3⟩ := h
      rw [fv_call]; simp only [Ren, true_and]
      exact renArgs_of_argsIn args θ (fun a ha => hθ.1 _ (h3 a ha).mem_ids)
    | .letS x ty tag args next fv, Γ, θ, h, hθ, hne => by
      simp only [WT] at h
      obtain ⟨_, h2, ⟨h3, _⟩, h4⟩ := h
      simp only [noEnvAnn] at hne
      rw [fv_let]; simp only [Ren, true_and]
      exact ⟨renArgs_of_argsIn args θ (fun a ha => hθ.1 _ (h2 a ha).mem_ids),
        fun hm => h3 (hθ.2 _ hm),
        ren_freeVars T S M next _ _ h4 (hθ.push ⟨x, .prd, ty⟩) hne⟩
    | .switch x ty cs fv, Γ, θ, h, hθ, hne => by
      simp only [WT] at h
      obtain ⟨h1, _, h3⟩ := h
      simp only [noEnvAnn] at hne
      rw [fv_switch]; simp only [Ren, true_and]
      exact ⟨hθ.1 _ h1.mem_ids, renClauses_freeVars T S M cs Γ θ h3 hθ hne⟩
    | .create x ty env cs next fc fn, Γ, θ, h, hθ, hne => by
      simp only [WT] at h
      obtain ⟨_, h2, ⟨h3, _⟩, h4⟩ := h
      simp only [noEnvAnn, Bool.and_eq_true, Option.isNone_iff_eq_none] at hne
      rw [fv_create]; simp only [Ren, true_and]
      exact ⟨hne.1.1, renClauses_freeVars T S M cs Γ θ h2 hθ hne.1.2, fun hm => h3 (hθ.2 _ hm),
        ren_freeVars T S M next _ _ h4 (hθ.push ⟨x, .cns, ty⟩) hne.2⟩
    | .invoke x tag ty args, Γ, θ, h, hθ, _ => by
      simp only [WT] at h
      obtain ⟨h1, _, h3⟩ := h
      rw [fv_invoke]; simp only [Ren, true_and]
      exact ⟨hθ.1 _ h1.mem_ids, renArgs_of_argsIn args θ (fun a ha => hθ.1 _ (h3 a ha).mem_ids)⟩
    | .lit x n next fv, Γ, θ, h, hθ, hne => by
      simp only [WT] at h
      obtain ⟨⟨h3, _⟩, h4⟩ := h
      simp only [noEnvAnn] at hne
      rw [fv_lit]; simp only [Ren, true_and]
      exact ⟨fun hm => h3 (hθ.2 _ hm), ren_freeVars T S M next _ _ h4 (hθ.push ⟨x, .ext, .i64⟩) hne⟩
    | .op x a o b next fv, Γ, θ, h, hθ, hne => by
      simp only [WT] at h
      obtain ⟨h1, h2, ⟨h3, _⟩, h4⟩ := h
      simp only [noEnvAnn] at hne
      rw [fv_op]; simp only [Ren, true_and]
      exact ⟨hθ.1 _ h1.mem_ids, hθ.1 _ h2.mem_ids, fun hm => h3 (hθ.2 _ hm),
        ren_freeVars T S M next _ _ h4 (hθ.push ⟨x, .ext, .i64⟩) hne⟩
    | .print nl a next fv, Γ, θ, h, hθ, hne => by
      simp only [WT] at h
      obtain ⟨h1, h2⟩ := h
      simp only [noEnvAnn] at hne
      rw [fv_print]; simp only [Ren, true_and]
      exact ⟨hθ.1 _ h1.mem_ids, ren_freeVars T S M next Γ θ h2 hθ hne⟩
    | .ifc s a b t e, Γ, θ, h, hθ, hne => by
      simp only [WT] at h
      obtain ⟨h1, h2, h3, h4⟩ := h
      simp only [noEnvAnn, Bool.and_eq_true] at hne
      rw [fv_ifc]; simp only [Ren, true_and]
      refine ⟨hθ.1 _ h1.mem_ids, ?_, ren_freeVars T S M t Γ θ h3 hθ hne.1,
        ren_freeVars T S M e Γ θ h4 hθ hne.2⟩
      cases b with
      | none => simp [RenOpt]
      | some b0 => simp only [RenOpt]; exact hθ.1 _ (h2 b0 rfl).mem_ids
    | .exit x, Γ, θ, h, hθ, _ => by
      simp only [WT] at h
      rw [fv_exit]; simp only [Ren]
      exact hθ.1 _ h.mem_ids
  theorem renClauses_freeVars (T : List TypeDecl) (S : Sigs) (M : Nat) :
      ∀ (cs : Clauses) (Γ : Ctx) (θ : Corr), WTClauses T S M cs Γ → IdCorr θ Γ →
        noEnvAnnClauses cs = true → RenClauses θ cs (freeVarsClauses cs).1
    | .nil, _, _, _, _, _ => by rw [fvc_nil]; simp [RenClauses]
    | .cons x ctx body rest, Γ, θ, h, hθ, hne => by
      simp only [WTClauses] at h
      obtain ⟨_, h2, h3, h4⟩ := h
      simp only [noEnvAnnClauses, Bool.and_eq_true] at hne
      rw [fvc_cons]; simp only [RenClauses, true_and]
      exact ⟨fun i hi hm => (h2 i hi).1 (hθ.2 _ hm),
        ren_freeVars T S M body _ _ h3 (hθ.pushCtx ctx) hne.1,
        renClauses_freeVars T S M rest Γ θ h4 hθ hne.2⟩
end

/-! ## transport of the correspondence (restriction of the context, renaming by `freshen`) -/

/-- θ' contains the σ-image of the part of θ that is still in the context Γ, and names nothing new;
the linear side of θ lies in the avoid set -/
structure CorrStep (σ : Subst) (θ θ' : Corr) (A : List Nat) (Γ : Ctx) : Prop where
  img : ∀ y z, (y, z) ∈ θ → z ∈ Γ.ids → (y, substId σ z) ∈ θ'
  dom : ∀ y ∈ θ'.dom, y ∈ θ.dom
  snd : ∀ p ∈ θ, p.2 ∈ A

theorem CorrStep.mono {σ θ θ' A Γ Γ'} (h : CorrStep σ θ θ' A Γ) (hsub : ∀ i ∈ Γ'.ids, i ∈ Γ.ids) :
    CorrStep σ θ θ' A Γ' :=
  ⟨fun y z hm hz => h.img y z hm (hsub z hz), h.dom, h.snd⟩

theorem CorrStep.push {σ θ θ' A Γ M M2} (h : CorrStep σ θ θ' A Γ) (g : GoodSubst σ A M M2)
    {x : Nat} (hx : x ∉ A) {Γ₁ : Ctx} (hΓ : ∀ i ∈ Γ₁.ids, i ∈ Γ.ids ∨ i = x) :
    CorrStep σ (θ ++ [(x, x)]) (θ' ++ [(x, x)]) (A ++ [x]) Γ₁ := by
  refine ⟨?_, ?_, ?_⟩
  · intro y z hm hz
    rcases List.mem_append.1 hm with hm | hm
    · have hzA := h.snd _ hm
      rcases hΓ z hz with hz' | hz'
      · exact List.mem_append_left _ (h.img y z hm hz')
      · exact absurd (hz' ▸ hzA) hx
    · simp only [List.mem_singleton, Prod.mk.injEq] at hm
      obtain ⟨rfl, rfl⟩ := hm
      rw [g.fixId hx]; simp
  · intro y hy
    rw [dom_append] at hy ⊢
    rcases List.mem_append.1 hy with hy | hy
    · exact List.mem_append_left _ (h.dom y hy)
    · exact List.mem_append_right _ hy
  · intro q hq
    rcases List.mem_append.1 hq with hq | hq
    · exact List.mem_append_left _ (h.snd q hq)
    · simp at hq; subst hq; simp

theorem CorrStep.pushCtx {σ θ θ' A Γ M M2} (h : CorrStep σ θ θ' A Γ) (g : GoodSubst σ A M M2)
    {ctx : Ctx} (hx : ∀ i ∈ ctx.ids, i ∉ A) {Γ₁ : Ctx} (hΓ : ∀ i ∈ Γ₁.ids, i ∈ Γ.ids ∨ i ∈ ctx.ids) :
    CorrStep σ (θ ++ diag ctx.ids) (θ' ++ diag ctx.ids) (A ++ ctx.ids) Γ₁ := by
  refine ⟨?_, ?_, ?_⟩
  · intro y z hm hz
    rcases List.mem_append.1 hm with hm | hm
    · have hzA := h.snd _ hm
      rcases hΓ z hz with hz' | hz'
      · exact List.mem_append_left _ (h.img y z hm hz')
      · exact absurd hzA (hx z hz')
    · obtain ⟨hy, rfl⟩ := mem_diag.1 hm
      rw [g.fixId (hx _ hy)]
      exact List.mem_append_right _ (mem_diag.2 ⟨hy, rfl⟩)
  · intro y hy
    rw [dom_append] at hy ⊢
    rcases List.mem_append.1 hy with hy | hy
    · exact List.mem_append_left _ (h.dom y hy)
    · exact List.mem_append_right _ hy
  · intro q hq
    rcases List.mem_append.1 hq with hq | hq
    · exact List.mem_append_left _ (h.snd q hq)
    · obtain ⟨hy, e⟩ := mem_diag.1 (show (q.1, q.2) ∈ diag ctx.ids from hq)
      rw [e]; exact List.mem_append_right _ hy

theorem renArgs_subst {σ θ θ' A Γ} (h : CorrStep σ θ θ' A Γ) :
    ∀ (a a' : Ctx), RenArgs θ a a' → ArgsIn Γ a' → RenArgs θ' a (substCtx σ a')
  | [], [], _, _ => by simp [substCtx, RenArgs]
  | [], _ :: _, hr, _ => by simp [RenArgs] at hr
  | _ :: _, [], hr, _ => by simp [RenArgs] at hr
  | x :: xs, y :: ys, hr, ha => by
    simp only [RenArgs] at hr
    simp only [substCtx, List.map_cons, RenArgs, substBinding_id, substBinding_chi, substBinding_ty]
    exact ⟨h.img _ _ hr.1 (ha y (by simp)).mem_ids, hr.2.1, hr.2.2.1,
      renArgs_subst h xs ys hr.2.2.2 (fun b hb => ha b (List.mem_cons_of_mem _ hb))⟩

theorem filter_ids_sub {Γ : Ctx} (p : Binding → Bool) : ∀ i ∈ Ctx.ids (Γ.filter p), i ∈ Γ.ids := by
  intro i hi
  obtain ⟨b, hb, rfl⟩ := List.mem_map.1 hi
  exact List.mem_map.2 ⟨b, (List.mem_filter.1 hb).1, rfl⟩

theorem filter_push_ids {Γ : Ctx} (p : Binding → Bool) (b : Binding) :
    ∀ i ∈ Ctx.ids (Γ.filter p ++ [b]), i ∈ Γ.ids ∨ i = b.var.id := by
  intro i hi
  rcases mem_ids_append_singleton.1 hi with hi | hi
  · exact Or.inl (filter_ids_sub p i hi)
  · exact Or.inr hi

mutual
  /-- R2/R3: the correspondence survives the restriction of the context and the renaming of
  `Create::linearize` -/
  theorem ren_subst (T : List TypeDecl) (S : Sigs) (σ : Subst) {M M2 : Nat} :
      ∀ (s₁ s₀ : Stmt) (θ θ' : Corr) (A : List Nat) (Γ : Ctx), GoodSubst σ A M M2 →
        WTA T S M s₁ A Γ → Ren θ s₀ s₁ → CorrStep σ θ θ' A Γ → Ren θ' s₀ (substStmt σ s₁)
    | .subst _ _, _, _, _, _, _, _, h, _, _ => by simp [WTA] at h
    | .call l' a', s₀, θ, θ', A, Γ, g, h, hr, hc => by
      cases s₀ <;> simp only [Ren] at hr
      simp only [WTA] at h
      obtain ⟨_, _, _, h3⟩ := h
      simp only [substStmt, Ren]
      exact ⟨hr.1, renArgs_subst hc _ _ hr.2 h3⟩
    | .letS x' ty' tag' a' n' fv', s₀, θ, θ', A, Γ, g, h, hr, hc => by
      cases s₀ <;> simp only [Ren] at hr
      simp only [WTA] at h
      obtain ⟨_, h2, h3, _, Sn, _, _, h7⟩ := h
      obtain ⟨rfl, rfl, rfl, r4, r5, r6⟩ := hr
      simp only [substStmt, Ren, true_and]
      exact ⟨renArgs_subst hc _ _ r4 h2, fun hm => r5 (hc.dom _ hm),
        ren_subst T S σ n' _ _ _ _ _ (g.mono (fun a ha => List.mem_append_left _ ha)) h7 r6
          (hc.push g h3 (filter_push_ids _ _))⟩
    | .switch x' ty' cs' fv', s₀, θ, θ', A, Γ, g, h, hr, hc => by
      cases s₀ <;> simp only [Ren] at hr
      simp only [WTA] at h
      obtain ⟨h1, _, Sc, _, _, h5⟩ := h
      obtain ⟨r1, rfl, r3⟩ := hr
      simp only [substStmt, Ren, true_and, substIdent_id]
      exact ⟨hc.img _ _ r1 h1.mem_ids,
        renClauses_subst T S σ cs' _ _ _ _ _ _ g h5 r3
          (hc.mono (by simpa using filter_ids_sub (Γ := Γ) (inSet Sc)))⟩
    | .create x' ty' env' cs' n' fc' fn', s₀, θ, θ', A, Γ, g, h, hr, hc => by
      cases s₀ <;> simp only [Ren] at hr
      simp only [WTA] at h
      obtain ⟨_, h2, _, Sc, Sn, _, _, _, _, h8, h9⟩ := h
      obtain ⟨rfl, rfl, r3, r4, r5, r6⟩ := hr
      simp only [substStmt, Ren, true_and]
      exact ⟨r3, renClauses_subst T S σ cs' _ _ _ _ _ _ g h8 r4
          (hc.mono (by simpa using filter_ids_sub (Γ := Γ) (inSet Sc))),
        fun hm => r5 (hc.dom _ hm),
        ren_subst T S σ n' _ _ _ _ _ (g.mono (fun a ha => List.mem_append_left _ ha)) h9 r6
          (hc.push g h2 (filter_push_ids _ _))⟩
    | .invoke x' tag' ty' a', s₀, θ, θ', A, Γ, g, h, hr, hc => by
      cases s₀ <;> simp only [Ren] at hr
      simp only [WTA] at h
      obtain ⟨h1, _, h3⟩ := h
      obtain ⟨r1, rfl, rfl, r4⟩ := hr
      simp only [substStmt, Ren, true_and, substIdent_id]
      exact ⟨hc.img _ _ r1 h1.mem_ids, renArgs_subst hc _ _ r4 h3⟩
    | .lit x' k' n' fv', s₀, θ, θ', A, Γ, g, h, hr, hc => by
      cases s₀ <;> simp only [Ren] at hr
      simp only [WTA] at h
      obtain ⟨h1, _, Sn, _, _, h5⟩ := h
      obtain ⟨rfl, rfl, r3, r4⟩ := hr
      simp only [substStmt, Ren, true_and]
      exact ⟨fun hm => r3 (hc.dom _ hm),
        ren_subst T S σ n' _ _ _ _ _ (g.mono (fun a ha => List.mem_append_left _ ha)) h5 r4
          (hc.push g h1 (filter_push_ids _ _))⟩
    | .op x' a' o' b' n' fv', s₀, θ, θ', A, Γ, g, h, hr, hc => by
      cases s₀ <;> simp only [Ren] at hr
      simp only [WTA] at h
      obtain ⟨h1, h2, h3, _, Sn, _, _, h7⟩ := h
      obtain ⟨rfl, rfl, r3, r4, r5, r6⟩ := hr
      simp only [substStmt, Ren, true_and, substIdent_id]
      exact ⟨hc.img _ _ r3 h1.mem_ids, hc.img _ _ r4 h2.mem_ids, fun hm => r5 (hc.dom _ hm),
        ren_subst T S σ n' _ _ _ _ _ (g.mono (fun a ha => List.mem_append_left _ ha)) h7 r6
          (hc.push g h3 (filter_push_ids _ _))⟩
    | .print nl' a' n' fv', s₀, θ, θ', A, Γ, g, h, hr, hc => by
      cases s₀ <;> simp only [Ren] at hr
      simp only [WTA] at h
      obtain ⟨h1, Sn, _, _, h4⟩ := h
      obtain ⟨rfl, r2, r3⟩ := hr
      simp only [substStmt, Ren, true_and, substIdent_id]
      exact ⟨hc.img _ _ r2 h1.mem_ids,
        ren_subst T S σ n' _ _ _ _ _ g h4 r3 (hc.mono (filter_ids_sub _))⟩
    | .ifc s' a' b' t' e', s₀, θ, θ', A, Γ, g, h, hr, hc => by
      cases s₀ <;> simp only [Ren] at hr
      simp only [WTA] at h
      obtain ⟨h1, h2, h3, h4⟩ := h
      obtain ⟨rfl, r2, r3, r4, r5⟩ := hr
      simp only [substStmt, Ren, true_and, substIdent_id]
      refine ⟨hc.img _ _ r2 h1.mem_ids, ?_, ren_subst T S σ t' _ _ _ _ _ g h3 r4 hc,
        ren_subst T S σ e' _ _ _ _ _ g h4 r5 hc⟩
      rename_i b₀ _ _
      cases b₀ <;> cases b' <;> simp only [RenOpt, Option.map_some, Option.map_none] at r3 ⊢
      rw [substIdent_id]
      exact hc.img _ _ r3 (h2 _ rfl).mem_ids
    | .exit a', s₀, θ, θ', A, Γ, g, h, hr, hc => by
      cases s₀ <;> simp only [Ren] at hr
      simp only [WTA] at h
      simp only [substStmt, Ren, substIdent_id]
      exact hc.img _ _ hr h.mem_ids
  theorem renClauses_subst (T : List TypeDecl) (S : Sigs) (σ : Subst) {M M2 : Nat} :
      ∀ (cs₁ cs₀ : Clauses) (θ θ' : Corr) (A : List Nat) (pre post : Ctx), GoodSubst σ A M M2 →
        WTAClauses T S M cs₁ A pre post → RenClauses θ cs₀ cs₁ → CorrStep σ θ θ' A (pre ++ post) →
        RenClauses θ' cs₀ (substClauses σ cs₁)
    | .nil, cs₀, _, _, _, _, _, _, _, hr, _ => by
      cases cs₀ <;> simp only [RenClauses] at hr
      simp [substClauses, RenClauses]
    | .cons x' ctx' b' r', cs₀, θ, θ', A, pre, post, g, h, hr, hc => by
      cases cs₀ <;> simp only [RenClauses] at hr
      simp only [WTAClauses] at h
      obtain ⟨_, h2, h3, h4⟩ := h
      obtain ⟨rfl, rfl, r3, r4, r5⟩ := hr
      simp only [substClauses, RenClauses, true_and]
      refine ⟨fun i hi hm => r3 i hi (hc.dom _ hm),
        ren_subst T S σ b' _ _ _ _ _ (g.mono (fun a ha => List.mem_append_left _ ha)) h3 r4
          (hc.pushCtx g (fun i hi => (h2 i hi).1) ?_),
        renClauses_subst T S σ r' _ _ _ _ _ _ g h4 r5 hc⟩
      intro i hi
      simp only [ids_append, List.mem_append] at hi ⊢
      rcases hi with (hi | hi) | hi
      · exact Or.inl (Or.inl hi)
      · exact Or.inr hi
      · exact Or.inl (Or.inr hi)
end

/-! ## the empty substitution -/

theorem substIdent_nil (x : Ident) : substIdent [] x = x := by simp [substIdent]
theorem substId_nil (x : Nat) : substId [] x = x := by simp [substId]

theorem goodSubst_nil (A : List Nat) (M : Nat) : GoodSubst [] A M M :=
  ⟨Nat.le_refl _, fun y hy => by rw [substId_nil]; exact hy,
   fun y z _ _ h => by simpa [substId_nil] using h, fun x _ => substIdent_nil x,
   fun y _ => Or.inl (substId_nil y)⟩

/-- R3: restriction of the correspondence to a smaller context -/
theorem ren_restrict (T : List TypeDecl) (S : Sigs) {M : Nat} (s₁ s₀ : Stmt) (θ θ' : Corr)
    (A : List Nat) (Γ : Ctx) (h : WTA T S M s₁ A Γ) (hr : Ren θ s₀ s₁)
    (himg : ∀ y z, (y, z) ∈ θ → z ∈ Γ.ids → (y, z) ∈ θ') (hdom : ∀ y ∈ θ'.dom, y ∈ θ.dom)
    (hsnd : ∀ p ∈ θ, p.2 ∈ A) : ∃ s₁', Ren θ' s₀ s₁' ∧ s₁' = substStmt [] s₁ :=
  ⟨_, ren_subst T S [] s₁ s₀ θ θ' A Γ (goodSubst_nil A M) h hr
    ⟨fun y z hm hz => by rw [substId_nil]; exact himg y z hm hz, hdom, hsnd⟩, rfl⟩

theorem map_substId_nil (l : List Nat) : l.map (substId []) = l := by
  conv => rhs; rw [← List.map_id l]
  apply List.map_congr_left; intro a _; exact substId_nil a

theorem substCtx_nil (Γ : Ctx) : substCtx [] Γ = Γ := by
  unfold substCtx
  conv => rhs; rw [← List.map_id Γ]
  apply List.map_congr_left; intro b _; simp [substBinding, substIdent_nil]

theorem substFV_nil (fv : FV) : substFV [] fv = fv := by
  cases fv <;> simp [substFV, map_substId_nil]

mutual
  theorem substStmt_nil : ∀ s : Stmt, substStmt [] s = s
    | .subst pairs n => by
      simp only [substStmt, substStmt_nil n, substIdent_nil]
      congr 1
      conv => rhs; rw [← List.map_id pairs]
      apply List.map_congr_left; intro p _
      simp [substBinding, substIdent_nil]
    | .call _ a => by simp only [substStmt, substCtx_nil]
    | .letS _ _ _ a n fv => by simp only [substStmt, substCtx_nil, substStmt_nil n, substFV_nil]
    | .switch x _ cs fv => by simp only [substStmt, substIdent_nil, substClauses_nil cs, substFV_nil]
    | .create _ _ env cs n fc fn => by
      simp only [substStmt, substClauses_nil cs, substStmt_nil n, substFV_nil]
      cases env <;> simp [substCtx_nil]
    | .invoke x _ _ a => by simp only [substStmt, substIdent_nil, substCtx_nil]
    | .lit _ _ n fv => by simp only [substStmt, substStmt_nil n, substFV_nil]
    | .op _ a _ b n fv => by simp only [substStmt, substIdent_nil, substStmt_nil n, substFV_nil]
    | .print _ a n fv => by simp only [substStmt, substIdent_nil, substStmt_nil n, substFV_nil]
    | .ifc _ a b t e => by
      simp only [substStmt, substIdent_nil, substStmt_nil t, substStmt_nil e]
      cases b <;> simp [substIdent_nil]
    | .exit a => by simp only [substStmt, substIdent_nil]
  theorem substClauses_nil : ∀ cs : Clauses, substClauses [] cs = cs
    | .nil => by simp only [substClauses]
    | .cons _ _ b r => by simp only [substClauses, substStmt_nil b, substClauses_nil r]
end

/-- R3 in the form used below -/
theorem ren_restrict' (T : List TypeDecl) (S : Sigs) {M : Nat} {s₁ s₀ : Stmt} {θ θ' : Corr}
    {A : List Nat} {Γ : Ctx} (h : WTA T S M s₁ A Γ) (hr : Ren θ s₀ s₁)
    (himg : ∀ y z, (y, z) ∈ θ → z ∈ Γ.ids → (y, z) ∈ θ') (hdom : ∀ y ∈ θ'.dom, y ∈ θ.dom)
    (hsnd : ∀ p ∈ θ, p.2 ∈ A) : Ren θ' s₀ s₁ := by
  obtain ⟨s₁', h1, h2⟩ := ren_restrict T S s₁ s₀ θ θ' A Γ h hr himg hdom hsnd
  rw [h2, substStmt_nil] at h1
  exact h1

theorem renClauses_restrict' (T : List TypeDecl) (S : Sigs) {M : Nat} {cs₁ cs₀ : Clauses}
    {θ θ' : Corr} {A : List Nat} {pre post : Ctx} (h : WTAClauses T S M cs₁ A pre post)
    (hr : RenClauses θ cs₀ cs₁)
    (himg : ∀ y z, (y, z) ∈ θ → z ∈ (pre ++ post).ids → (y, z) ∈ θ')
    (hdom : ∀ y ∈ θ'.dom, y ∈ θ.dom) (hsnd : ∀ p ∈ θ, p.2 ∈ A) : RenClauses θ' cs₀ cs₁ := by
  have := renClauses_subst T S [] cs₁ cs₀ θ θ' A pre post (goodSubst_nil A M) h hr
    ⟨fun y z hm hz => by rw [substId_nil]; exact himg y z hm hz, hdom, hsnd⟩
  rwa [substClauses_nil] at this

/-! ## zips -/

theorem zip_self_eq_diag (xs : List Nat) : xs.zip xs = diag xs := by
  induction xs with
  | nil => rfl
  | cons x xs ih => simp [diag] at ih ⊢; exact ih

theorem dom_zip {ys zs : List Nat} (h : ys.length = zs.length) : Corr.dom (ys.zip zs) = ys := by
  unfold Corr.dom
  exact List.map_fst_zip (by omega)

theorem snd_mem_zip {ys zs : List Nat} {p : Nat × Nat} (h : p ∈ ys.zip zs) : p.2 ∈ zs :=
  (List.of_mem_zip (show (p.1, p.2) ∈ ys.zip zs from h)).2

theorem mem_zip_map_map {α} (f g : α → Nat) : ∀ (l : List α) (z : α), z ∈ l →
    (f z, g z) ∈ (l.map f).zip (l.map g)
  | [], _, h => by cases h
  | x :: xs, z, h => by
    simp only [List.map_cons, List.zip_cons_cons, List.mem_cons, Prod.mk.injEq]
    rcases List.mem_cons.1 h with rfl | h
    · exact Or.inl ⟨rfl, rfl⟩
    · exact Or.inr (mem_zip_map_map f g xs z h)

theorem mem_zip_map_self (f : Nat → Nat) (l : List Nat) (z : Nat) (h : z ∈ l) :
    (f z, z) ∈ (l.map f).zip l := by
  have := mem_zip_map_map f id l z h
  simpa using this

/-- the named arguments are the named variables at the positions of the linear arguments -/
theorem renArgs_pre {ys : List Nat} {Γ : Ctx} (hn : NodupIds Γ) (hl : ys.length = Γ.length) :
    ∀ (a₀ a₁ : Ctx), RenArgs (ys.zip Γ.ids) a₀ a₁ →
      a₁.ids.map (preId ys Γ) = a₀.ids ∧ a₀.chiTys = a₁.chiTys ∧ a₀.length = a₁.length
  | [], [], _ => by simp [Ctx.ids, Ctx.chiTys]
  | [], _ :: _, h => by simp [RenArgs] at h
  | _ :: _, [], h => by simp [RenArgs] at h
  | x :: xs, y :: ys', h => by
    simp only [RenArgs] at h
    obtain ⟨h1, h2, h3⟩ := renArgs_pre hn hl xs ys' h.2.2.2
    simp only [Ctx.ids, Ctx.chiTys, List.map_cons, List.cons.injEq, List.length_cons] at h1 h2 h3 ⊢
    exact ⟨⟨preId_of_mem_zip hn hl h.1, h1⟩, ⟨by rw [h.2.1, h.2.2.1], h2⟩, by omega⟩

/-! ## building `LinRel` derivations -/

section build
variable {T : List TypeDecl} {S : Sigs}

theorem rearr_of_hasVar {ys : List Nat} {Γ : Ctx} (hn : NodupIds Γ) (hl : ys.length = Γ.length) :
    ∀ (newB old : Ctx), newB.length = old.length →
      (∀ p ∈ old.zip newB, HasVar Γ p.1.var.id p.2.chi p.2.ty) →
      Rearr ys Γ (old.ids.map (preId ys Γ)) (rearrange newB old)
  | [], [], _, _ => by simp [rearrange, Ctx.ids, Ctx.vars, Rearr]
  | [], _ :: _, h, _ => by simp at h
  | _ :: _, [], h, _ => by simp at h
  | b :: newB, o :: old, hlen, hp => by
    simp only [rearrange, Ctx.ids, Ctx.vars, List.map_cons, List.zip_cons_cons, Rearr]
    refine ⟨occ_of_hasVar hn hl (hp (o, b) (by simp)), ?_⟩
    exact rearr_of_hasVar hn hl newB old (by simpa using hlen) (fun p hp' => hp p (by simp [hp']))

/-- the explicit substitution built by `zip` -/
theorem linRel_rearrange {ys : List Nat} {Γ newB old : Ctx} {s₀ s' : Stmt}
    (hn : NodupIds Γ) (hl : ys.length = Γ.length) (hlen : newB.length = old.length)
    (hp : ∀ p ∈ old.zip newB, HasVar Γ p.1.var.id p.2.chi p.2.ty)
    (hnew : NodupIds newB) (hnext : LinRel T S (old.ids.map (preId ys Γ)) newB s₀ s') :
    LinRel T S ys Γ s₀ (.subst (rearrange newB old) s') := by
  refine .subst hn hl (rearr_of_hasVar hn hl newB old hlen hp) ?_ ?_
  · rw [map_fst_zip_vars newB old hlen]; exact hnew
  · rw [map_fst_zip_vars newB old hlen]; exact hnext

theorem linRel_drop {ys : List Nat} {Γ : Ctx} {Sn : List Nat} {s₀ s' : Stmt}
    (hn : NodupIds Γ) (hl : ys.length = Γ.length)
    (h : LinRel T S ((filterBySet Γ Sn).ids.map (preId ys Γ)) (filterBySet Γ Sn) s₀ s') :
    LinRel T S ys Γ s₀ (.subst (rearrange (filterBySet Γ Sn) (filterBySet Γ Sn)) s') := by
  refine linRel_rearrange hn hl rfl ?_ (filterBySet_nodup hn) h
  intro p hp
  obtain ⟨e, hm⟩ := mem_zip_self _ p hp
  rw [← e]
  exact hasVar_of_mem (filterBySet_sub hm)

theorem map_pre_sub {ys : List Nat} {Γ Δ : Ctx} (hn : NodupIds Γ) (hl : ys.length = Γ.length)
    (hsub : ∀ b ∈ Δ, b ∈ Γ) : ∀ y ∈ Δ.ids.map (preId ys Γ), y ∈ ys := by
  intro y hy
  obtain ⟨z, hz, rfl⟩ := List.mem_map.1 hy
  obtain ⟨b, hb, rfl⟩ := List.mem_map.1 hz
  exact preId_mem hn hl (List.mem_map.2 ⟨b, hsub b hb, rfl⟩)

/-- the correspondence for the continuation of a binding statement -/
theorem corr_next {ys : List Nat} {Γ nc : Ctx} {A : List Nat} (hn : NodupIds Γ)
    (hl : ys.length = Γ.length) (hsubA : ∀ i ∈ Γ.ids, i ∈ A) (hnc : ∀ b ∈ nc, b ∈ Γ)
    {xb : Binding} (hx : xb.var.id ∉ A) :
    (∀ y z, (y, z) ∈ ys.zip Γ.ids ++ [(xb.var.id, xb.var.id)] → z ∈ Ctx.ids (nc ++ [xb]) →
        (y, z) ∈ (nc.ids.map (preId ys Γ) ++ [xb.var.id]).zip (Ctx.ids (nc ++ [xb]))) ∧
    (∀ y ∈ Corr.dom ((nc.ids.map (preId ys Γ) ++ [xb.var.id]).zip (Ctx.ids (nc ++ [xb]))),
        y ∈ Corr.dom (ys.zip Γ.ids ++ [(xb.var.id, xb.var.id)])) ∧
    (∀ p ∈ ys.zip Γ.ids ++ [(xb.var.id, xb.var.id)], p.2 ∈ A ++ [xb.var.id]) := by
  have hz : (nc.ids.map (preId ys Γ) ++ [xb.var.id]).zip (Ctx.ids (nc ++ [xb])) =
      (nc.ids.map (preId ys Γ)).zip nc.ids ++ [(xb.var.id, xb.var.id)] := by
    rw [ids_append, List.zip_append (by simp)]; simp [Ctx.ids]
  refine ⟨?_, ?_, ?_⟩
  · intro y z hm hzm
    rw [hz]
    rcases List.mem_append.1 hm with hm | hm
    · have hzA : z ∈ A := hsubA z (snd_mem_zip hm)
      rcases mem_ids_append_singleton.1 hzm with hzm | hzm
      · have := preId_of_mem_zip hn hl hm
        rw [← this]
        exact List.mem_append_left _ (mem_zip_map_self _ _ _ hzm)
      · exact absurd (hzm ▸ hzA) hx
    · exact List.mem_append_right _ hm
  · intro y hy
    rw [dom_zip (by simp [ids_append, Ctx.ids])] at hy
    rw [dom_append, dom_zip (by simpa [Ctx.ids] using hl)]
    rcases List.mem_append.1 hy with hy | hy
    · exact List.mem_append_left _ (map_pre_sub hn hl hnc y hy)
    · exact List.mem_append_right _ (by simpa [Corr.dom] using hy)
  · intro q hq
    rcases List.mem_append.1 hq with hq | hq
    · exact List.mem_append_left _ (hsubA _ (snd_mem_zip hq))
    · simp at hq; subst hq; simp

/-- the correspondence for a continuation without new binder (print) or a restricted context -/
theorem corr_restrict {ys : List Nat} {Γ nc : Ctx} {A : List Nat} (hn : NodupIds Γ)
    (hl : ys.length = Γ.length) (hsubA : ∀ i ∈ Γ.ids, i ∈ A) (hnc : ∀ b ∈ nc, b ∈ Γ) :
    (∀ y z, (y, z) ∈ ys.zip Γ.ids → z ∈ nc.ids → (y, z) ∈ (nc.ids.map (preId ys Γ)).zip nc.ids) ∧
    (∀ y ∈ Corr.dom ((nc.ids.map (preId ys Γ)).zip nc.ids), y ∈ Corr.dom (ys.zip Γ.ids)) ∧
    (∀ p ∈ ys.zip Γ.ids, p.2 ∈ A) := by
  refine ⟨?_, ?_, ?_⟩
  · intro y z hm hzm
    have := preId_of_mem_zip hn hl hm
    rw [← this]
    exact mem_zip_map_self _ _ _ hzm
  · intro y hy
    rw [dom_zip (by simp)] at hy
    rw [dom_zip (by simpa [Ctx.ids] using hl)]
    exact map_pre_sub hn hl hnc y hy
  · intro q hq
    exact hsubA _ (snd_mem_zip hq)

theorem filterBySet_sub' {Γ : Ctx} {Sn : List Nat} : ∀ b ∈ filterBySet Γ Sn, b ∈ Γ :=
  fun _ hb => filterBySet_sub hb

/-- what T4-B proves for statements, at fuel `n` -/
def StmtGoalR (T : List TypeDecl) (S : Sigs) (n : Nat) : Prop :=
  ∀ (s₁ s₀ : Stmt) (A : List Nat) (Γ : Ctx) (M : Nat) (ys : List Nat), s₁.size < n →
    WTA T S M s₁ A Γ → NodupIds Γ → (∀ i ∈ Γ.ids, i ∈ A) → (∀ a ∈ A, a ≤ M) →
    ys.length = Γ.length → Ren (ys.zip Γ.ids) s₀ s₁ →
    ∃ s' M', linearize n s₁ Γ M = .ok (s', M') ∧ M ≤ M' ∧ LinRel T S ys Γ s₀ s'

def ClausesGoalR (T : List TypeDecl) (S : Sigs) (n : Nat) : Prop :=
  ∀ (cs₁ cs₀ : Clauses) (A : List Nat) (pre post : Ctx) (M : Nat) (ysPre ysPost : List Nat),
    cs₁.size < n → WTAClauses T S M cs₁ A pre post → NodupIds (pre ++ post) →
    (∀ i ∈ (pre ++ post).ids, i ∈ A) → (∀ a ∈ A, a ≤ M) →
    ysPre.length = pre.length → ysPost.length = post.length →
    RenClauses ((ysPre ++ ysPost).zip (pre ++ post).ids) cs₀ cs₁ →
    ∃ cs' M', linearizeClauses n cs₁ pre post M = .ok (cs', M') ∧ M ≤ M' ∧
      LinRelClauses T S ysPre ysPost pre post cs₀ cs' ∧ ∀ xs, ClausesMatch xs cs' ↔ ClausesMatch xs cs₁

theorem linr_exit (n : Nat) (a₁ : Ident) (s₀ : Stmt) (A : List Nat) (Γ : Ctx) (M : Nat)
    (ys : List Nat) (h : WTA T S M (.exit a₁) A Γ) (hn : NodupIds Γ) (hl : ys.length = Γ.length)
    (hr : Ren (ys.zip Γ.ids) s₀ (.exit a₁)) :
    ∃ s' M', linearize (n + 1) (.exit a₁) Γ M = .ok (s', M') ∧ M ≤ M' ∧ LinRel T S ys Γ s₀ s' := by
  cases s₀ <;> simp only [Ren] at hr
  simp only [WTA] at h
  simp only [linearize]
  refine ⟨_, _, rfl, Nat.le_refl _, .exit hn hl ?_⟩
  have := occ_of_hasVar (ys := ys) hn hl h
  rwa [preId_of_mem_zip hn hl hr] at this

theorem occ_nc {ys : List Nat} {Γ nc : Ctx} (hn : NodupIds Γ) (hl : ys.length = Γ.length)
    {a₀ a₁ : Nat} {c : Chi} {t : Ty} (hr : (a₀, a₁) ∈ ys.zip Γ.ids) (h : HasVar nc a₁ c t) :
    Occ (nc.ids.map (preId ys Γ)) nc a₀ a₁ c t := by
  have := occ_map (preId ys Γ) h
  rwa [preId_of_mem_zip hn hl hr] at this

theorem occ_full {ys : List Nat} {Γ : Ctx} (hn : NodupIds Γ) (hl : ys.length = Γ.length)
    {a₀ a₁ : Nat} {c : Chi} {t : Ty} (hr : (a₀, a₁) ∈ ys.zip Γ.ids) (h : HasVar Γ a₁ c t) :
    Occ ys Γ a₀ a₁ c t := by
  have := occ_of_hasVar (ys := ys) hn hl h
  rwa [preId_of_mem_zip hn hl hr] at this

theorem linr_lit (n : Nat) (ih : StmtGoalR T S n) (x : Ident) (k : Int) (n₁ : Stmt) (fv : FV)
    (s₀ : Stmt) (A : List Nat) (Γ : Ctx) (M : Nat) (ys : List Nat)
    (hsz : (Stmt.lit x k n₁ fv).size < n + 1)
    (h : WTA T S M (.lit x k n₁ fv) A Γ) (hn : NodupIds Γ)
    (hsub : ∀ i ∈ Γ.ids, i ∈ A) (hA : ∀ a ∈ A, a ≤ M) (hl : ys.length = Γ.length)
    (hr : Ren (ys.zip Γ.ids) s₀ (.lit x k n₁ fv)) :
    ∃ s' M', linearize (n + 1) (.lit x k n₁ fv) Γ M = .ok (s', M') ∧ M ≤ M' ∧
      LinRel T S ys Γ s₀ s' := by
  cases s₀ <;> simp only [Ren] at hr
  obtain ⟨rfl, rfl, r3, r4⟩ := hr
  simp only [WTA] at h
  obtain ⟨h1, h2, Sn, rfl, h4, h5⟩ := h
  obtain ⟨p1, p2, p3, p4, p5⟩ := prep_next (xb := ⟨x, .ext, .i64⟩) hn hsub hA h1 h2 h5
  have hsz' : n₁.size < n := by simp only [Stmt.size] at hsz; omega
  obtain ⟨c1, c2, c3⟩ := corr_next (ys := ys) (xb := ⟨x, .ext, .i64⟩) hn hl hsub
    (filterBySet_sub' (Sn := Sn)) h1
  have hren := ren_restrict' T S p1 r4 c1 c2 c3
  obtain ⟨next', M', e, hle, ht⟩ := ih n₁ _ _ _ M _ hsz' p1 p2 p3 p4 (by simp [Ctx.ids]) hren
  rw [dom_zip (by simpa [Ctx.ids] using hl)] at r3
  have hxnc : x.id ∉ (filterBySet Γ Sn).ids.map (preId ys Γ) :=
    fun hm => r3 (map_pre_sub hn hl filterBySet_sub' _ hm)
  simp only [linearize, e]
  split
  · rename_i e'
    refine ⟨_, _, rfl, hle, .lit hn hl (by rw [e']; exact p5) r3 ?_⟩
    have hys : (filterBySet Γ Sn).ids.map (preId ys Γ) = ys := by
      rw [← e']; exact map_preId_ids hn hl
    rw [hys] at ht
    have hΓ : Γ ++ [(⟨x, .ext, .i64⟩ : Binding)] = filterBySet Γ Sn ++ [⟨x, .ext, .i64⟩] := by
      rw [← e']
    rw [hΓ]; exact ht
  · exact ⟨_, _, rfl, hle, linRel_drop hn hl
      (.lit (filterBySet_nodup hn) (by simp [Ctx.ids]) p5 hxnc ht)⟩

theorem linr_op (n : Nat) (ih : StmtGoalR T S n) (x a₁ : Ident) (o : BinOp) (b₁ : Ident) (n₁ : Stmt)
    (fv : FV) (s₀ : Stmt) (A : List Nat) (Γ : Ctx) (M : Nat) (ys : List Nat)
    (hsz : (Stmt.op x a₁ o b₁ n₁ fv).size < n + 1)
    (h : WTA T S M (.op x a₁ o b₁ n₁ fv) A Γ) (hn : NodupIds Γ)
    (hsub : ∀ i ∈ Γ.ids, i ∈ A) (hA : ∀ a ∈ A, a ≤ M) (hl : ys.length = Γ.length)
    (hr : Ren (ys.zip Γ.ids) s₀ (.op x a₁ o b₁ n₁ fv)) :
    ∃ s' M', linearize (n + 1) (.op x a₁ o b₁ n₁ fv) Γ M = .ok (s', M') ∧ M ≤ M' ∧
      LinRel T S ys Γ s₀ s' := by
  cases s₀ <;> simp only [Ren] at hr
  obtain ⟨rfl, rfl, ra, rb, r3, r4⟩ := hr
  simp only [WTA] at h
  obtain ⟨ha, hb, h1, h2, Sn, rfl, h4, h5⟩ := h
  obtain ⟨p1, p2, p3, p4, p5⟩ := prep_next (xb := ⟨x, .ext, .i64⟩) hn hsub hA h1 h2 h5
  have hsz' : n₁.size < n := by simp only [Stmt.size] at hsz; omega
  obtain ⟨c1, c2, c3⟩ := corr_next (ys := ys) (xb := ⟨x, .ext, .i64⟩) hn hl hsub
    (filterBySet_sub' (Sn := b₁.id :: a₁.id :: Sn)) h1
  have hren := ren_restrict' T S p1 r4 c1 c2 c3
  obtain ⟨next', M', e, hle, ht⟩ := ih n₁ _ _ _ M _ hsz' p1 p2 p3 p4 (by simp [Ctx.ids]) hren
  rw [dom_zip (by simpa [Ctx.ids] using hl)] at r3
  have hxnc : x.id ∉ (filterBySet Γ (b₁.id :: a₁.id :: Sn)).ids.map (preId ys Γ) :=
    fun hm => r3 (map_pre_sub hn hl filterBySet_sub' _ hm)
  have ha' : HasVar (filterBySet Γ (b₁.id :: a₁.id :: Sn)) a₁.id .ext .i64 :=
    hasVar_filterBySet.2 ⟨ha, by simp⟩
  have hb' : HasVar (filterBySet Γ (b₁.id :: a₁.id :: Sn)) b₁.id .ext .i64 :=
    hasVar_filterBySet.2 ⟨hb, by simp⟩
  simp only [linearize, e]
  split
  · rename_i e'
    refine ⟨_, _, rfl, hle, .op hn hl (occ_full hn hl ra ha) (occ_full hn hl rb hb)
      (by rw [e']; exact p5) r3 ?_⟩
    have hys : (filterBySet Γ (b₁.id :: a₁.id :: Sn)).ids.map (preId ys Γ) = ys := by
      rw [← e']; exact map_preId_ids hn hl
    rw [hys] at ht
    have hΓ : Γ ++ [(⟨x, .ext, .i64⟩ : Binding)] =
        filterBySet Γ (b₁.id :: a₁.id :: Sn) ++ [⟨x, .ext, .i64⟩] := by rw [← e']
    rw [hΓ]; exact ht
  · exact ⟨_, _, rfl, hle, linRel_drop hn hl
      (.op (filterBySet_nodup hn) (by simp [Ctx.ids]) (occ_nc hn hl ra ha') (occ_nc hn hl rb hb')
        p5 hxnc ht)⟩

theorem linr_print (n : Nat) (ih : StmtGoalR T S n) (nl : Bool) (a₁ : Ident) (n₁ : Stmt)
    (fv : FV) (s₀ : Stmt) (A : List Nat) (Γ : Ctx) (M : Nat) (ys : List Nat)
    (hsz : (Stmt.print nl a₁ n₁ fv).size < n + 1)
    (h : WTA T S M (.print nl a₁ n₁ fv) A Γ) (hn : NodupIds Γ)
    (hsub : ∀ i ∈ Γ.ids, i ∈ A) (hA : ∀ a ∈ A, a ≤ M) (hl : ys.length = Γ.length)
    (hr : Ren (ys.zip Γ.ids) s₀ (.print nl a₁ n₁ fv)) :
    ∃ s' M', linearize (n + 1) (.print nl a₁ n₁ fv) Γ M = .ok (s', M') ∧ M ≤ M' ∧
      LinRel T S ys Γ s₀ s' := by
  cases s₀ <;> simp only [Ren] at hr
  obtain ⟨rfl, ra, r3⟩ := hr
  simp only [WTA] at h
  obtain ⟨ha, Sn, rfl, h4, h5⟩ := h
  have hsz' : n₁.size < n := by simp only [Stmt.size] at hsz; omega
  have p1 := WTA_congr T S M n₁ _ _ _ (keysEq_filterBySet Γ (a₁.id :: Sn)).symm h5
  obtain ⟨c1, c2, c3⟩ := corr_restrict (ys := ys) hn hl hsub (filterBySet_sub' (Sn := a₁.id :: Sn))
  have hren := ren_restrict' T S p1 r3 c1 c2 c3
  obtain ⟨next', M', e, hle, ht⟩ := ih n₁ _ _ _ M _ hsz' p1 (filterBySet_nodup hn)
    (filterBySet_ids_sub hsub) hA (by simp [Ctx.ids]) hren
  have ha' : HasVar (filterBySet Γ (a₁.id :: Sn)) a₁.id .ext .i64 :=
    hasVar_filterBySet.2 ⟨ha, by simp⟩
  simp only [linearize, e]
  split
  · rename_i e'
    refine ⟨_, _, rfl, hle, .print hn hl (occ_full hn hl ra ha) ?_⟩
    have hys : (filterBySet Γ (a₁.id :: Sn)).ids.map (preId ys Γ) = ys := by
      rw [← e']; exact map_preId_ids hn hl
    rw [hys] at ht
    rw [e']; exact ht
  · exact ⟨_, _, rfl, hle, linRel_drop hn hl
      (.print (filterBySet_nodup hn) (by simp [Ctx.ids]) (occ_nc hn hl ra ha') ht)⟩

theorem linr_ifc (n : Nat) (ih : StmtGoalR T S n) (sr : IfSort) (a₁ : Ident) (b₁ : Option Ident)
    (t₁ e₁ : Stmt) (s₀ : Stmt) (A : List Nat) (Γ : Ctx) (M : Nat) (ys : List Nat)
    (hsz : (Stmt.ifc sr a₁ b₁ t₁ e₁).size < n + 1)
    (h : WTA T S M (.ifc sr a₁ b₁ t₁ e₁) A Γ) (hn : NodupIds Γ)
    (hsub : ∀ i ∈ Γ.ids, i ∈ A) (hA : ∀ a ∈ A, a ≤ M) (hl : ys.length = Γ.length)
    (hr : Ren (ys.zip Γ.ids) s₀ (.ifc sr a₁ b₁ t₁ e₁)) :
    ∃ s' M', linearize (n + 1) (.ifc sr a₁ b₁ t₁ e₁) Γ M = .ok (s', M') ∧ M ≤ M' ∧
      LinRel T S ys Γ s₀ s' := by
  cases s₀ <;> simp only [Ren] at hr
  rename_i sr₀ a₀ b₀ t₀ e₀
  obtain ⟨rfl, ra, rb, rt, re⟩ := hr
  simp only [WTA] at h
  obtain ⟨ha, hb, ht, he⟩ := h
  have hszt : t₁.size < n := by simp only [Stmt.size] at hsz; omega
  have hsze : e₁.size < n := by simp only [Stmt.size] at hsz; omega
  obtain ⟨t', M1, e1, hle1, ht'⟩ := ih t₁ t₀ A Γ M ys hszt ht hn hsub hA hl rt
  obtain ⟨e', M2, e2, hle2, he'⟩ := ih e₁ e₀ A Γ M1 ys hsze (WTA_mono T S hle1 e₁ A Γ he) hn hsub
    (fun a ha => Nat.le_trans (hA a ha) hle1) hl re
  simp only [linearize, e1, e2]
  refine ⟨_, _, rfl, Nat.le_trans hle1 hle2, .ifc hn hl (occ_full hn hl ra ha) ?_ ht' he'⟩
  cases b₀ <;> cases b₁ <;> simp only [RenOpt] at rb ⊢
  exact occ_full hn hl rb (hb _ rfl)

theorem linr_call (n : Nat) (l : Ident) (a₁ : Ctx) (s₀ : Stmt) (A : List Nat) (Γ : Ctx) (M : Nat)
    (ys : List Nat) (h : WTA T S M (.call l a₁) A Γ) (hn : NodupIds Γ)
    (hsub : ∀ i ∈ Γ.ids, i ∈ A) (hA : ∀ a ∈ A, a ≤ M) (hl : ys.length = Γ.length)
    (hr : Ren (ys.zip Γ.ids) s₀ (.call l a₁)) :
    ∃ s' M', linearize (n + 1) (.call l a₁) Γ M = .ok (s', M') ∧ M ≤ M' ∧ LinRel T S ys Γ s₀ s' := by
  cases s₀ <;> simp only [Ren] at hr
  rename_i l₀ a₀
  obtain ⟨rfl, ra⟩ := hr
  obtain ⟨q1, q2, q3⟩ := renArgs_pre hn hl a₀ a₁ ra
  simp only [WTA] at h
  obtain ⟨params, h1, h2, h3⟩ := h
  simp only [linearize]
  split
  · rename_i e
    subst e
    refine ⟨_, _, rfl, Nat.le_refl _, .call hn hl h1 h2 ?_⟩
    rw [← q1]; exact map_preId_ids hn hl
  · have hargs : ∀ i ∈ a₁.ids, i ≤ M := fun i hi => hA i (hsub i (argsIn_ids h3 i hi))
    obtain ⟨f1, f2, f3, f4, f5, f6⟩ := freshen_spec M a₁ [] M hargs (by simp) (Nat.le_refl _)
    generalize freshen a₁ [] M = r at *
    obtain ⟨f, M1⟩ := r
    refine ⟨_, _, rfl, f1, ?_⟩
    refine linRel_rearrange hn hl f2 ?_ f4 (.call f4 (by simp [Ctx.ids, f2]) h1 ?_ q1.symm)
    · intro p hp
      obtain ⟨e1, e2, _⟩ := f3 p hp
      rw [e1, e2]
      exact h3 p.1 (List.of_mem_zip hp).1
    · rw [chiTys_eq_of_zip a₁ f f2 (fun p hp => ⟨(f3 p hp).1, (f3 p hp).2.1⟩)]; exact h2

theorem ids_map_append (f : Nat → Nat) (Γ Δ : Ctx) :
    (Γ ++ Δ).ids.map f = Γ.ids.map f ++ Δ.ids.map f := by simp [Ctx.ids]

theorem linr_invoke (n : Nat) (x₁ tag : Ident) (ty : Ty) (a₁ : Ctx) (s₀ : Stmt) (A : List Nat)
    (Γ : Ctx) (M : Nat) (ys : List Nat)
    (h : WTA T S M (.invoke x₁ tag ty a₁) A Γ) (hn : NodupIds Γ)
    (hsub : ∀ i ∈ Γ.ids, i ∈ A) (hA : ∀ a ∈ A, a ≤ M) (hl : ys.length = Γ.length)
    (hr : Ren (ys.zip Γ.ids) s₀ (.invoke x₁ tag ty a₁)) :
    ∃ s' M', linearize (n + 1) (.invoke x₁ tag ty a₁) Γ M = .ok (s', M') ∧ M ≤ M' ∧
      LinRel T S ys Γ s₀ s' := by
  cases s₀ <;> simp only [Ren] at hr
  rename_i x₀ tag₀ ty₀ a₀
  obtain ⟨rx, rfl, rfl, ra⟩ := hr
  obtain ⟨q1, q2, q3⟩ := renArgs_pre hn hl a₀ a₁ ra
  simp only [WTA] at h
  obtain ⟨h1, ⟨sig, h2, h2'⟩, h3⟩ := h
  have hys : ∀ (Δ : Ctx), (Δ ++ [(⟨x₁, .cns, ty⟩ : Binding)]).ids.map (preId ys Γ) =
      Δ.ids.map (preId ys Γ) ++ [x₀.id] := by
    intro Δ
    rw [ids_map_append]
    simp [Ctx.ids, preId_of_mem_zip hn hl rx]
  simp only [linearize]
  split
  · rename_i e
    refine ⟨_, _, rfl, Nat.le_refl _, .invoke hn e ?_ q3 rfl h2 h2'⟩
    have := map_preId_ids (ys := ys) hn hl
    rw [congrArg Ctx.ids e, hys, q1] at this
    exact this.symm
  · have hargs : ∀ i ∈ a₁.ids, i ≤ M := fun i hi => hA i (hsub i (argsIn_ids h3 i hi))
    have hx : ∀ i ∈ [x₁.id], i ≤ M := by
      intro i hi; simp at hi; subst hi; exact hA _ (hsub _ h1.mem_ids)
    obtain ⟨f1, f2, f3, f4, f5, f6⟩ := freshen_spec M a₁ [x₁.id] M hargs hx (Nat.le_refl _)
    generalize freshen a₁ [x₁.id] M = r at *
    obtain ⟨f, M1⟩ := r
    refine ⟨_, _, rfl, f1, ?_⟩
    have hnew : NodupIds (f ++ [(⟨x₁, .cns, ty⟩ : Binding)]) :=
      nodupIds_append_singleton f4 (fun hm => f5 _ hm (by simp))
    refine linRel_rearrange hn hl (by simp [f2]) ?_ hnew ?_
    · intro p hp
      rw [List.zip_append (by simp [f2])] at hp
      rcases List.mem_append.1 hp with hp | hp
      · obtain ⟨e1, e2, _⟩ := f3 p hp
        rw [e1, e2]
        exact h3 p.1 (List.of_mem_zip hp).1
      · simp at hp; subst hp; exact h1
    · rw [hys, q1]
      refine .invoke hnew rfl rfl (by rw [q3, f2]) rfl h2 ?_
      rw [chiTys_eq_of_zip a₁ f f2 (fun p hp => ⟨(f3 p hp).1, (f3 p hp).2.1⟩)]; exact h2'

theorem linr_let (n : Nat) (ih : StmtGoalR T S n) (x : Ident) (ty : Ty) (tag : Ident) (a₁ : Ctx)
    (n₁ : Stmt) (fv : FV) (s₀ : Stmt) (A : List Nat) (Γ : Ctx) (M : Nat) (ys : List Nat)
    (hsz : (Stmt.letS x ty tag a₁ n₁ fv).size < n + 1)
    (h : WTA T S M (.letS x ty tag a₁ n₁ fv) A Γ) (hn : NodupIds Γ)
    (hsub : ∀ i ∈ Γ.ids, i ∈ A) (hA : ∀ a ∈ A, a ≤ M) (hl : ys.length = Γ.length)
    (hr : Ren (ys.zip Γ.ids) s₀ (.letS x ty tag a₁ n₁ fv)) :
    ∃ s' M', linearize (n + 1) (.letS x ty tag a₁ n₁ fv) Γ M = .ok (s', M') ∧ M ≤ M' ∧
      LinRel T S ys Γ s₀ s' := by
  cases s₀ <;> simp only [Ren] at hr
  rename_i x₀ ty₀ tag₀ a₀ n₀ fv₀
  obtain ⟨rfl, rfl, rfl, ra, r3, r4⟩ := hr
  obtain ⟨q1, q2, q3⟩ := renArgs_pre hn hl a₀ a₁ ra
  simp only [WTA] at h
  obtain ⟨⟨sig, hs, hs'⟩, hargs, h1, h2, Sn, rfl, h4, h5⟩ := h
  obtain ⟨p1, p2, p3, p4, p5⟩ := prep_next (xb := ⟨x, .prd, ty⟩) hn hsub hA h1 h2 h5
  have hsz' : n₁.size < n := by simp only [Stmt.size] at hsz; omega
  obtain ⟨c1, c2, c3⟩ := corr_next (ys := ys) (xb := ⟨x, .prd, ty⟩) hn hl hsub
    (filterBySet_sub' (Sn := Sn)) h1
  have hren := ren_restrict' T S p1 r4 c1 c2 c3
  rw [dom_zip (by simpa [Ctx.ids] using hl)] at r3
  have hxnc : x.id ∉ (filterBySet Γ Sn).ids.map (preId ys Γ) :=
    fun hm => r3 (map_pre_sub hn hl filterBySet_sub' _ hm)
  simp only [linearize]
  split
  · rename_i e'
    obtain ⟨next', M', e, hle, ht⟩ := ih n₁ _ _ _ M _ hsz' p1 p2 p3 p4 (by simp [Ctx.ids]) hren
    simp only [e]
    refine ⟨_, _, rfl, hle, .letS hn e' ?_ (by simp [Ctx.ids]) rfl hs hs' p5 hxnc ht⟩
    have := map_preId_ids (ys := ys) hn hl
    rw [congrArg Ctx.ids e', ids_map_append, q1] at this
    exact this.symm
  · have hargsM : ∀ i ∈ a₁.ids, i ≤ M := fun i hi => hA i (hsub i (argsIn_ids hargs i hi))
    have hncM : ∀ i ∈ (filterBySet Γ Sn).ids, i ≤ M := fun i hi => hA i (filterBySet_ids_sub hsub i hi)
    obtain ⟨f1, f2, f3, f4, f5, f6⟩ :=
      freshen_spec M a₁ (filterBySet Γ Sn).ids M hargsM hncM (Nat.le_refl _)
    generalize freshen a₁ (filterBySet Γ Sn).ids M = r at *
    obtain ⟨args', M1⟩ := r
    simp only at f1 f2 f3 f4 f5 f6
    obtain ⟨next', M', e, hle, ht⟩ := ih n₁ _ _ _ M1 _ hsz' (WTA_mono T S f1 _ _ _ p1) p2 p3
      (fun a ha => Nat.le_trans (p4 a ha) f1) (by simp [Ctx.ids]) hren
    simp only [e]
    have hnew : NodupIds (filterBySet Γ Sn ++ args') :=
      nodupIds_append (filterBySet_nodup hn) f4 (fun i hi => f5 i hi)
    refine ⟨_, _, rfl, Nat.le_trans f1 hle, ?_⟩
    refine linRel_rearrange hn hl (by simp [f2]) ?_ hnew ?_
    · intro p hp
      rw [List.zip_append rfl] at hp
      rcases List.mem_append.1 hp with hp | hp
      · obtain ⟨e0, hm⟩ := mem_zip_self _ p hp
        rw [← e0]
        exact hasVar_of_mem (filterBySet_sub hm)
      · obtain ⟨e1, e2, _⟩ := f3 p hp
        rw [e1, e2]
        exact hargs p.1 (List.of_mem_zip hp).1
    · rw [ids_map_append, q1]
      refine .letS hnew rfl rfl (by simp [Ctx.ids]) rfl hs ?_ p5 hxnc ht
      rw [chiTys_eq_of_zip a₁ args' f2 (fun p hp => ⟨(f3 p hp).1, (f3 p hp).2.1⟩)]; exact hs'

/-- correspondence for a clause body: parameters are inserted between `pre` and `post` -/
theorem corr_clause {ysPre ysPost : List Nat} {pre post ctx : Ctx} {A : List Nat}
    (hl1 : ysPre.length = pre.length) (hl2 : ysPost.length = post.length)
    (hsubA : ∀ i ∈ (pre ++ post).ids, i ∈ A) :
    (∀ y z, (y, z) ∈ (ysPre ++ ysPost).zip (pre ++ post).ids ++ diag ctx.ids →
        z ∈ (pre ++ ctx ++ post).ids →
        (y, z) ∈ (ysPre ++ ctx.ids ++ ysPost).zip (pre ++ ctx ++ post).ids) ∧
    (∀ y ∈ Corr.dom ((ysPre ++ ctx.ids ++ ysPost).zip (pre ++ ctx ++ post).ids),
        y ∈ Corr.dom ((ysPre ++ ysPost).zip (pre ++ post).ids ++ diag ctx.ids)) ∧
    (∀ p ∈ (ysPre ++ ysPost).zip (pre ++ post).ids ++ diag ctx.ids, p.2 ∈ A ++ ctx.ids) := by
  have e1 : (ysPre ++ ysPost).zip (pre ++ post).ids =
      ysPre.zip pre.ids ++ ysPost.zip post.ids := by
    rw [ids_append, List.zip_append (by simpa [Ctx.ids] using hl1)]
  have e2 : (ysPre ++ ctx.ids ++ ysPost).zip (pre ++ ctx ++ post).ids =
      ysPre.zip pre.ids ++ diag ctx.ids ++ ysPost.zip post.ids := by
    rw [ids_append, ids_append, List.zip_append (by simp [Ctx.ids, hl1]),
      List.zip_append (by simpa [Ctx.ids] using hl1), zip_self_eq_diag]
  refine ⟨?_, ?_, ?_⟩
  · intro y z hm _
    rw [e2]
    rw [e1] at hm
    simp only [List.mem_append] at hm ⊢
    rcases hm with (hm | hm) | hm
    · exact Or.inl (Or.inl hm)
    · exact Or.inr hm
    · exact Or.inl (Or.inr hm)
  · intro y hy
    rw [dom_zip (by simp [Ctx.ids, hl1, hl2])] at hy
    rw [dom_append, dom_zip (by simp [Ctx.ids, hl1, hl2]), dom_diag]
    simp only [List.mem_append] at hy ⊢
    rcases hy with (hy | hy) | hy
    · exact Or.inl (Or.inl hy)
    · exact Or.inr hy
    · exact Or.inl (Or.inr hy)
  · intro q hq
    rcases List.mem_append.1 hq with hq | hq
    · exact List.mem_append_left _ (hsubA _ (snd_mem_zip hq))
    · obtain ⟨hy, e⟩ := mem_diag.1 (show (q.1, q.2) ∈ diag ctx.ids from hq)
      rw [e]; exact List.mem_append_right _ hy

theorem linr_clauses (n : Nat) (ihs : StmtGoalR T S n) (ihc : ClausesGoalR T S n) :
    ClausesGoalR T S (n + 1) := by
  intro cs₁ cs₀ A pre post M ysPre ysPost hsz h hn hsub hA hl1 hl2 hr
  cases cs₁ with
  | nil =>
    cases cs₀ <;> simp only [RenClauses] at hr
    exact ⟨.nil, M, by simp only [linearizeClauses], Nat.le_refl _, .nil, fun xs => Iff.rfl⟩
  | cons x ctx body rest =>
    cases cs₀ <;> simp only [RenClauses] at hr
    rename_i x₀ ctx₀ body₀ rest₀
    obtain ⟨rfl, rfl, r3, r4, r5⟩ := hr
    simp only [WTAClauses] at h
    obtain ⟨h1, h2, h3, h4⟩ := h
    have hszb : body.size < n := by simp only [Clauses.size] at hsz; omega
    have hszr : rest.size < n := by simp only [Clauses.size] at hsz; omega
    have hnb : NodupIds (pre ++ ctx ++ post) :=
      nodupIds_insert hn h1 (fun i hi hm => (h2 i hi).1 (hsub i hm))
    have hsubb : ∀ i ∈ (pre ++ ctx ++ post).ids, i ∈ A ++ ctx.ids := by
      intro i hi
      simp only [ids_append, List.mem_append] at hi hsub ⊢
      rcases hi with (hi | hi) | hi
      · exact Or.inl (hsub i (Or.inl hi))
      · exact Or.inr hi
      · exact Or.inl (hsub i (Or.inr hi))
    have hAb : ∀ a ∈ A ++ ctx.ids, a ≤ M := by
      intro a ha
      rcases List.mem_append.1 ha with ha | ha
      · exact hA a ha
      · exact (h2 a ha).2
    obtain ⟨c1, c2, c3⟩ := corr_clause (ctx := ctx) hl1 hl2 hsub
    have hren := ren_restrict' T S h3 r4 c1 c2 c3
    obtain ⟨body', M1, e1, hle1, ht⟩ := ihs body _ _ _ M (ysPre ++ ctx.ids ++ ysPost) hszb h3 hnb
      hsubb hAb (by simp [Ctx.ids, hl1, hl2]) hren
    obtain ⟨rest', M2, e2, hle2, htr, hm⟩ := ihc rest _ A pre post M1 ysPre ysPost hszr
      (WTAClauses_mono T S hle1 _ _ _ _ h4) hn hsub (fun a ha => Nat.le_trans (hA a ha) hle1)
      hl1 hl2 r5
    simp only [linearizeClauses, e1, e2]
    rw [dom_zip (by simp [Ctx.ids, hl1, hl2])] at r3
    refine ⟨_, _, rfl, Nat.le_trans hle1 hle2, .cons h1 ?_ ht htr, ?_⟩
    · intro i hi
      have := r3 i hi
      simp only [List.mem_append, not_or] at this
      exact this
    · intro xs
      cases xs with
      | nil => simp [ClausesMatch]
      | cons y ys => simp only [ClausesMatch, hm ys]

theorem linr_switch (n : Nat) (ihc : ClausesGoalR T S n) (x₁ : Ident) (ty : Ty) (cs₁ : Clauses)
    (fv : FV) (s₀ : Stmt) (A : List Nat) (Γ : Ctx) (M : Nat) (ys : List Nat)
    (hsz : (Stmt.switch x₁ ty cs₁ fv).size < n + 1)
    (h : WTA T S M (.switch x₁ ty cs₁ fv) A Γ) (hn : NodupIds Γ)
    (hsub : ∀ i ∈ Γ.ids, i ∈ A) (hA : ∀ a ∈ A, a ≤ M) (hl : ys.length = Γ.length)
    (hr : Ren (ys.zip Γ.ids) s₀ (.switch x₁ ty cs₁ fv)) :
    ∃ s' M', linearize (n + 1) (.switch x₁ ty cs₁ fv) Γ M = .ok (s', M') ∧ M ≤ M' ∧
      LinRel T S ys Γ s₀ s' := by
  cases s₀ <;> simp only [Ren] at hr
  rename_i x₀ ty₀ cs₀ fv₀
  obtain ⟨rx, rfl, rc⟩ := hr
  simp only [WTA] at h
  obtain ⟨hx, ⟨d, hd, hm⟩, Sc, rfl, h4, h5⟩ := h
  have hsz' : cs₁.size < n := by simp only [Stmt.size] at hsz; omega
  have hnc := filterBySet_nodup (S := Sc) hn
  have hwc := WTAClauses_congr T S M cs₁ A _ _ _ _ (keysEq_filterBySet Γ Sc).symm (KeysEq.refl [])
    h5
  obtain ⟨c1, c2, c3⟩ := corr_restrict (ys := ys) hn hl hsub (filterBySet_sub' (Sn := Sc))
  have hrc : RenClauses (((filterBySet Γ Sc).ids.map (preId ys Γ) ++ []).zip
      (filterBySet Γ Sc ++ []).ids) cs₀ cs₁ := by
    simp only [List.append_nil]
    exact renClauses_restrict' T S hwc rc (by simpa using c1) c2 c3
  obtain ⟨cs', M1, e, hle, htc, hmc⟩ := ihc cs₁ cs₀ A (filterBySet Γ Sc) [] M
    ((filterBySet Γ Sc).ids.map (preId ys Γ)) [] hsz' hwc
    (by simpa using hnc) (by simpa using filterBySet_ids_sub (S := Sc) hsub) hA
    (by simp [Ctx.ids]) rfl hrc
  have hys : ∀ (Δ : Ctx) (x' : Ident), (Δ ++ [(⟨x', .prd, ty⟩ : Binding)]).ids.map (preId ys Γ) =
      Δ.ids.map (preId ys Γ) ++ [preId ys Γ x'.id] := by
    intro Δ x'; rw [ids_map_append]; simp [Ctx.ids]
  have hpx : preId ys Γ x₁.id = x₀.id := preId_of_mem_zip hn hl rx
  simp only [linearize, e]
  split
  · rename_i e'
    refine ⟨_, _, rfl, hle, .switch hn e' ?_ (by simp [Ctx.ids]) rfl hd ((hmc _).2 hm) htc⟩
    have := map_preId_ids (ys := ys) hn hl
    rw [congrArg Ctx.ids e', hys, hpx] at this
    exact this.symm
  · have hp : ∀ (x' : Ident), ∀ p ∈ (filterBySet Γ Sc ++ [(⟨x₁, .prd, ty⟩ : Binding)]).zip
        (filterBySet Γ Sc ++ [(⟨x', .prd, ty⟩ : Binding)]), HasVar Γ p.1.var.id p.2.chi p.2.ty := by
      intro x' p hp
      rw [List.zip_append rfl] at hp
      rcases List.mem_append.1 hp with hp | hp
      · obtain ⟨e0, hm⟩ := mem_zip_self _ p hp
        rw [← e0]
        exact hasVar_of_mem (filterBySet_sub hm)
      · simp at hp; subst hp; exact hx
    by_cases hc : (filterBySet Γ Sc).ids.contains x₁.id = true
    · rw [if_pos hc]
      have hnew : NodupIds (filterBySet Γ Sc ++ [(⟨⟨x₁.name, M1 + 1⟩, .prd, ty⟩ : Binding)]) := by
        apply nodupIds_append_singleton hnc
        intro hmem
        have := hA _ (filterBySet_ids_sub hsub _ hmem)
        simp only at this
        omega
      refine ⟨_, _, rfl, by simp only [freshIdentifier]; omega, ?_⟩
      refine linRel_rearrange hn hl (by simp) (hp _) hnew ?_
      rw [hys, hpx]
      exact .switch hnew rfl rfl (by simp [Ctx.ids]) rfl hd ((hmc _).2 hm) htc
    · rw [if_neg hc]
      have hnew : NodupIds (filterBySet Γ Sc ++ [(⟨x₁, .prd, ty⟩ : Binding)]) := by
        apply nodupIds_append_singleton hnc
        intro hmem
        exact hc (by simpa using hmem)
      refine ⟨_, _, rfl, hle, ?_⟩
      refine linRel_rearrange hn hl (by simp) (hp _) hnew ?_
      rw [hys, hpx]
      exact .switch hnew rfl rfl (by simp [Ctx.ids]) rfl hd ((hmc _).2 hm) htc

theorem linr_create (n : Nat) (ih : StmtGoalR T S n) (ihc : ClausesGoalR T S n) (x : Ident) (ty : Ty)
    (env : Option Ctx) (cs₁ : Clauses) (n₁ : Stmt) (fc fn : FV) (s₀ : Stmt) (A : List Nat)
    (Γ : Ctx) (M : Nat) (ys : List Nat)
    (hsz : (Stmt.create x ty env cs₁ n₁ fc fn).size < n + 1)
    (h : WTA T S M (.create x ty env cs₁ n₁ fc fn) A Γ) (hn : NodupIds Γ)
    (hsub : ∀ i ∈ Γ.ids, i ∈ A) (hA : ∀ a ∈ A, a ≤ M) (hl : ys.length = Γ.length)
    (hr : Ren (ys.zip Γ.ids) s₀ (.create x ty env cs₁ n₁ fc fn)) :
    ∃ s' M', linearize (n + 1) (.create x ty env cs₁ n₁ fc fn) Γ M = .ok (s', M') ∧ M ≤ M' ∧
      LinRel T S ys Γ s₀ s' := by
  cases s₀ <;> simp only [Ren] at hr
  rename_i x₀ ty₀ env₀ cs₀ n₀ fc₀ fn₀
  obtain ⟨rfl, rfl, rfl, rc, r3, r4⟩ := hr
  simp only [WTA] at h
  obtain ⟨⟨d, hd, hm⟩, h1, h2, Sc, Sn, rfl, rfl, h6, h7, h8, h9⟩ := h
  obtain ⟨p1, p2, p3, p4, p5⟩ := prep_next (xb := ⟨x, .cns, ty⟩) hn hsub hA h1 h2 h9
  have hszc : cs₁.size < n := by simp only [Stmt.size] at hsz; omega
  have hszn : n₁.size < n := by simp only [Stmt.size] at hsz; omega
  have hperm := reorder_perm Γ (filterBySet Γ Sn).length
  generalize hre : Γ.drop (filterBySet Γ Sn).length ++ Γ.take (filterBySet Γ Sn).length = reord at *
  have hnre : NodupIds reord := by
    unfold NodupIds Ctx.ids; rw [(hperm.map _).nodup_iff]; exact hn
  have hncc : NodupIds (filterBySet reord Sc) := filterBySet_nodup hnre
  have hkcc : KeysEq (filterBySet reord Sc) (Γ.filter (inSet Sc)) :=
    (keysEq_filterBySet reord Sc).trans (KeysEq.of_perm (hperm.filter _))
  have hccΓ : ∀ b ∈ filterBySet reord Sc, b ∈ Γ := fun b hb => hperm.mem_iff.1 (filterBySet_sub hb)
  have hccA : ∀ i ∈ (filterBySet reord Sc).ids, i ∈ A := by
    intro i hi
    obtain ⟨b, hb, rfl⟩ := List.mem_map.1 hi
    exact hsub _ (List.mem_map.2 ⟨b, hccΓ b hb, rfl⟩)
  have hwc := WTAClauses_congr T S M cs₁ A _ _ _ _ (KeysEq.refl []) hkcc.symm h8
  obtain ⟨c1, c2, c3⟩ := corr_restrict (ys := ys) hn hl hsub hccΓ
  have hrc : RenClauses (([] ++ (filterBySet reord Sc).ids.map (preId ys Γ)).zip
      (Ctx.ids ([] ++ filterBySet reord Sc))) cs₀ cs₁ := by
    simp only [List.nil_append]
    exact renClauses_restrict' T S hwc rc (by simpa using c1) c2 c3
  obtain ⟨cs', M1, e, hle1, htc, hmc⟩ := ihc cs₁ cs₀ A [] (filterBySet reord Sc) M []
    ((filterBySet reord Sc).ids.map (preId ys Γ)) hszc hwc
    (by simpa using hncc) (by simpa using hccA) hA rfl (by simp [Ctx.ids]) hrc
  have hA1 : ∀ a ∈ A ++ [x.id], a ≤ M1 := fun a ha => Nat.le_trans (p4 a ha) hle1
  rw [dom_zip (by simpa [Ctx.ids] using hl)] at r3
  have hxcn : x.id ∉ (filterBySet Γ Sn).ids.map (preId ys Γ) :=
    fun hm => r3 (map_pre_sub hn hl filterBySet_sub' _ hm)
  simp only [linearize, hre, e]
  split
  · rename_i e'
    obtain ⟨c1', c2', c3'⟩ := corr_next (ys := ys) (xb := ⟨x, .cns, ty⟩) hn hl hsub
      (filterBySet_sub' (Sn := Sn)) h1
    have hren := ren_restrict' T S p1 r4 c1' c2' c3'
    obtain ⟨next', M2, e2, hle2, ht⟩ := ih n₁ _ _ _ M1 _ hszn (WTA_mono T S hle1 _ _ _ p1) p2 p3 hA1
      (by simp [Ctx.ids]) hren
    simp only [e2]
    refine ⟨_, _, rfl, Nat.le_trans hle1 hle2,
      .create hn e' ?_ (by simp [Ctx.ids]) rfl hd ((hmc _).2 hm) htc p5 hxcn ht⟩
    have := map_preId_ids (ys := ys) hn hl
    rw [congrArg Ctx.ids e', ids_map_append] at this
    exact this.symm
  · have hcnM : ∀ i ∈ (filterBySet Γ Sn).ids, i ≤ M1 :=
      fun i hi => Nat.le_trans (hA i (filterBySet_ids_sub hsub i hi)) hle1
    have hccM : ∀ i ∈ (filterBySet reord Sc).ids, i ≤ M1 :=
      fun i hi => Nat.le_trans (hA i (hccA i hi)) hle1
    have hncn := filterBySet_nodup (S := Sn) hn
    have g := goodSubst_of_freshen (Γ := filterBySet Γ Sn) (C := (filterBySet reord Sc).ids)
      (A := A) (M := M1) hcnM hccM (filterBySet_ids_sub hsub)
    obtain ⟨f1, f2, f3, f4, f5, f6⟩ :=
      freshen_spec M1 (filterBySet Γ Sn) (filterBySet reord Sc).ids M1 hcnM hccM (Nat.le_refl _)
    generalize freshen (filterBySet Γ Sn) (filterBySet reord Sc).ids M1 = r at *
    obtain ⟨cnf, M2⟩ := r
    simp only at f1 f2 f3 f4 f5 f6 g
    have hcn : substCtx ((filterBySet Γ Sn).ids.zip cnf.vars) (filterBySet Γ Sn) = cnf :=
      substCtx_zip_eq _ _ hncn f2 (fun p hp => ⟨(f3 p hp).1, (f3 p hp).2.1⟩)
    have hctx : substCtx ((filterBySet Γ Sn).ids.zip cnf.vars)
        (filterBySet Γ Sn ++ [(⟨x, .cns, ty⟩ : Binding)]) = cnf ++ [⟨x, .cns, ty⟩] := by
      rw [substCtx_append, hcn, substCtx_fix g (by simp [Ctx.ids]; exact h1)]
    have hcnfids : cnf.ids = (filterBySet Γ Sn).ids.map
        (substId ((filterBySet Γ Sn).ids.zip cnf.vars)) := by
      rw [← substCtx_ids, hcn]
    have hren0 := WTA_rename T S ((filterBySet Γ Sn).ids.zip cnf.vars) n₁ (A ++ [x.id]) _
      (g.mono (fun a ha => List.mem_append_left _ ha)) hA1
      (fun i hi => hA1 i (p3 i hi)) (WTA_mono T S hle1 _ _ _ p1)
    rw [hctx] at hren0
    have hxcnf : x.id ∉ cnf.ids := by
      intro hmem
      rcases f6 _ hmem with h' | h'
      · exact p5 h'
      · omega
    have hnd2 : NodupIds (cnf ++ [(⟨x, .cns, ty⟩ : Binding)]) := nodupIds_append_singleton f4 hxcnf
    have hsub2 : ∀ i ∈ (cnf ++ [(⟨x, .cns, ty⟩ : Binding)]).ids,
        i ∈ (A ++ [x.id]).map (substId ((filterBySet Γ Sn).ids.zip cnf.vars)) := by
      intro i hi
      rw [← hctx, substCtx_ids] at hi
      obtain ⟨j, hj, rfl⟩ := List.mem_map.1 hi
      exact List.mem_map.2 ⟨j, p3 j hj, rfl⟩
    have hA2 : ∀ a ∈ (A ++ [x.id]).map (substId ((filterBySet Γ Sn).ids.zip cnf.vars)), a ≤ M2 := by
      intro a ha
      obtain ⟨j, hj, rfl⟩ := List.mem_map.1 ha
      exact g.bound j (hA1 j hj)
    -- the correspondence of the renamed continuation
    have hzz : ((filterBySet Γ Sn).ids.map (preId ys Γ) ++ [x.id]).zip
        (Ctx.ids (cnf ++ [(⟨x, .cns, ty⟩ : Binding)])) =
        ((filterBySet Γ Sn).ids.map (preId ys Γ)).zip cnf.ids ++ [(x.id, x.id)] := by
      rw [ids_append, List.zip_append (by simp [Ctx.ids, f2])]; simp [Ctx.ids]
    have hcs : CorrStep ((filterBySet Γ Sn).ids.zip cnf.vars) (ys.zip Γ.ids ++ [(x.id, x.id)])
        (((filterBySet Γ Sn).ids.map (preId ys Γ) ++ [x.id]).zip
          (Ctx.ids (cnf ++ [(⟨x, .cns, ty⟩ : Binding)])))
        (A ++ [x.id]) (filterBySet Γ Sn ++ [⟨x, .cns, ty⟩]) := by
      refine ⟨?_, ?_, ?_⟩
      · intro y z hm' hzm
        rw [hzz]
        rcases List.mem_append.1 hm' with hm' | hm'
        · have hzA : z ∈ A := hsub z (snd_mem_zip hm')
          rcases mem_ids_append_singleton.1 hzm with hzm | hzm
          · have := preId_of_mem_zip hn hl hm'
            rw [← this, hcnfids]
            exact List.mem_append_left _ (mem_zip_map_map _ _ _ z hzm)
          · exact absurd (hzm ▸ hzA) h1
        · simp only [List.mem_singleton, Prod.mk.injEq] at hm'
          obtain ⟨rfl, rfl⟩ := hm'
          rw [g.fixId h1]; simp
      · intro y hy
        rw [dom_zip (by simp [ids_append, Ctx.ids, f2])] at hy
        rw [dom_append, dom_zip (by simpa [Ctx.ids] using hl)]
        rcases List.mem_append.1 hy with hy | hy
        · exact List.mem_append_left _ (map_pre_sub hn hl filterBySet_sub' y hy)
        · exact List.mem_append_right _ (by simpa [Corr.dom] using hy)
      · intro q hq
        rcases List.mem_append.1 hq with hq | hq
        · exact List.mem_append_left _ (hsub _ (snd_mem_zip hq))
        · simp at hq; subst hq; simp
    have hren := ren_subst T S ((filterBySet Γ Sn).ids.zip cnf.vars) n₁ n₀ _ _ _ _
      (g.mono (fun a ha => List.mem_append_left _ ha)) (WTA_mono T S hle1 _ _ _ p1) r4 hcs
    obtain ⟨next', M3, e3, hle3, ht⟩ := ih _ n₀ _ _ M2
      ((filterBySet Γ Sn).ids.map (preId ys Γ) ++ [x.id])
      (by rw [size_substStmt]; exact hszn) hren0 hnd2 hsub2 hA2 (by simp [Ctx.ids, f2]) hren
    simp only [e3]
    have hnew : NodupIds (cnf ++ filterBySet reord Sc) :=
      nodupIds_append f4 hncc (fun i hi hi' => f5 i hi' hi)
    refine ⟨_, _, rfl, Nat.le_trans hle1 (Nat.le_trans f1 hle3), ?_⟩
    refine linRel_rearrange hn hl (by simp [f2]) ?_ hnew ?_
    · intro p hp
      rw [List.zip_append f2.symm] at hp
      rcases List.mem_append.1 hp with hp | hp
      · obtain ⟨e1, e2, _⟩ := f3 p hp
        rw [e1, e2]
        exact hasVar_of_mem (filterBySet_sub (List.of_mem_zip hp).1)
      · obtain ⟨e0, hm'⟩ := mem_zip_self _ p hp
        rw [← e0]
        exact hasVar_of_mem (hccΓ _ hm')
    · rw [ids_map_append]
      exact .create hnew rfl rfl (by simp [Ctx.ids, f2]) rfl hd ((hmc _).2 hm) htc hxcnf hxcn ht

end build

/-- T4-B, statement level: the output of `linearize` is a linearization of the original statement -/
theorem linearize_linRel (T : List TypeDecl) (S : Sigs) :
    ∀ n, StmtGoalR T S n ∧ ClausesGoalR T S n := by
  intro n
  induction n with
  | zero =>
    exact ⟨fun s₁ s₀ A Γ M ys h => absurd h (Nat.not_lt_zero _),
      fun cs₁ cs₀ A pre post M y1 y2 h => absurd h (Nat.not_lt_zero _)⟩
  | succ n ih =>
    obtain ⟨ihs, ihc⟩ := ih
    refine ⟨?_, linr_clauses n ihs ihc⟩
    intro s₁ s₀ A Γ M ys hsz h hn hsub hA hl hr
    cases s₁ with
    | subst pairs next => simp [WTA] at h
    | call l args => exact linr_call n l args s₀ A Γ M ys h hn hsub hA hl hr
    | letS x ty tag args next fv =>
      exact linr_let n ihs x ty tag args next fv s₀ A Γ M ys hsz h hn hsub hA hl hr
    | switch x ty cs fv => exact linr_switch n ihc x ty cs fv s₀ A Γ M ys hsz h hn hsub hA hl hr
    | create x ty env cs next fc fn =>
      exact linr_create n ihs ihc x ty env cs next fc fn s₀ A Γ M ys hsz h hn hsub hA hl hr
    | invoke x tag ty args => exact linr_invoke n x tag ty args s₀ A Γ M ys h hn hsub hA hl hr
    | lit x k next fv => exact linr_lit n ihs x k next fv s₀ A Γ M ys hsz h hn hsub hA hl hr
    | op x a o b next fv => exact linr_op n ihs x a o b next fv s₀ A Γ M ys hsz h hn hsub hA hl hr
    | print nl a next fv => exact linr_print n ihs nl a next fv s₀ A Γ M ys hsz h hn hsub hA hl hr
    | ifc s a b t e => exact linr_ifc n ihs s a b t e s₀ A Γ M ys hsz h hn hsub hA hl hr
    | exit x => exact linr_exit n x s₀ A Γ M ys h hn hl hr

/-! ## definitions and programs -/

/-- no `create` of the program carries an environment annotation (true of every S4 dump: the
annotation is written by the linearizer) -/
def noEnvAnnProg (p : Prog) : Bool := p.defs.all fun d => noEnvAnn d.body

theorem idCorr_diag (Γ : Ctx) : IdCorr (Γ.ids.zip Γ.ids) Γ := by
  rw [zip_self_eq_diag]
  exact ⟨fun y hy => mem_diag.2 ⟨hy, rfl⟩, fun y hy => by rwa [dom_diag] at hy⟩

theorem linearizeDef_linRel (T : List TypeDecl) (S : Sigs) (d : Def) (M0 M : Nat)
    (hn : NodupIds d.ctx) (hM : ∀ i ∈ d.ctx.ids, i ≤ M0) (hwt : WT T S M0 d.body d.ctx)
    (hne : noEnvAnn d.body = true) (hle : M0 ≤ M) :
    ∃ d' M', linearizeDef d M = .ok (d', M') ∧ M ≤ M' ∧ d'.name = d.name ∧ d'.ctx = d.ctx ∧
      LinRel T S d.ctx.ids d.ctx d.body d'.body := by
  have hfv := fv_sub T S M0 d.body d.ctx hwt
  have hwta := freeVars_WTA T S M0 d.body d.ctx hwt hn hM d.ctx (fun _ _ _ h => h) hfv
  have hwta' := WTA_mono T S hle _ _ _ hwta
  have hren := ren_freeVars T S M0 d.body d.ctx _ hwt (idCorr_diag d.ctx) hne
  obtain ⟨body', M', e, hle', ht⟩ := (linearize_linRel T S ((freeVars d.body).1.size + 1)).1
    (freeVars d.body).1 d.body d.ctx.ids d.ctx M d.ctx.ids (Nat.lt_succ_self _) hwta' hn
    (fun i hi => hi) (fun a ha => Nat.le_trans (hM a ha) hle) (by simp [Ctx.ids]) hren
  refine ⟨{ d with body := body' }, M', ?_, hle', rfl, rfl, ht⟩
  simp only [linearizeDef, e]

theorem linearizeDefs_linRel (T : List TypeDecl) (S : Sigs) (M0 : Nat) :
    ∀ (ds : List Def) (M : Nat), M0 ≤ M →
      (∀ d ∈ ds, NodupIds d.ctx ∧ (∀ i ∈ d.ctx.ids, i ≤ M0) ∧ WT T S M0 d.body d.ctx) →
      (∀ d ∈ ds, noEnvAnn d.body = true) →
      ∃ ds' M', linearizeDefs ds M = .ok (ds', M') ∧ LinRelDefs T S ds ds' := by
  intro ds
  induction ds with
  | nil => intro M _ _ _; exact ⟨[], M, rfl, trivial⟩
  | cons d ds ih =>
    intro M hle h hne
    obtain ⟨hn, hM, hwt⟩ := h d (by simp)
    obtain ⟨d', M1, e1, hle1, en, ec, ht⟩ :=
      linearizeDef_linRel T S d M0 M hn hM hwt (hne d (by simp)) hle
    obtain ⟨ds', M2, e2, hts⟩ := ih M1 (Nat.le_trans hle hle1)
      (fun d0 hd0 => h d0 (List.mem_cons_of_mem _ hd0))
      (fun d0 hd0 => hne d0 (List.mem_cons_of_mem _ hd0))
    exact ⟨d' :: ds', M2, by simp only [linearizeDefs, e1, e2], ⟨en, ec, hn, ht⟩, hts⟩

/-- T4, part B: the output of the linearizer is a linearization of its input -/
theorem linearizeProg_linRel (p p' : Prog) (h : WfNonLinear p) (hne : noEnvAnnProg p = true)
    (hlin : linearizeProg p = .ok p') : LinRelProg p p' := by
  have hne' : ∀ d ∈ p.defs, noEnvAnn d.body = true := by
    simpa [noEnvAnnProg] using hne
  obtain ⟨ds', M', e, hds⟩ :=
    linearizeDefs_linRel p.types p.sigs p.maxId p.defs p.maxId (Nat.le_refl _) h hne'
  obtain ⟨p'', e', _, ht, hs, _⟩ := linearizeProg_LinTyped p h
  rw [hlin] at e'
  injection e' with e'
  subst e'
  refine ⟨ht, hs, ?_⟩
  simp only [linearizeProg, e] at hlin
  injection hlin with hlin
  rw [← hlin]
  exact hds

end Scc.AxCut
