/-
  Scc.AxCut.LinRelStrong — proof file (C05, divergence): the lockstep simulation of `LinRelSim.lean`
  (`sim_step`) relates the TRACES of the named machine on `p` and of the positional machine on a
  linearization `p'` for ALL fuel, not only for finished runs: whatever one machine has printed within
  some number of steps, the other has printed (exactly that) within some number of steps.
-/
import Scc.AxCut.LinRelSim

namespace Scc.AxCut.Sim

open Scc.AxCut

section runs
variable {T : List TypeDecl} {S : Sigs} {p p' : Prog}

/-- forward: the trace of the named machine after `n` steps is the trace of the positional machine after
    some `m` steps -/
theorem sim_trace_forward (hT : p'.types = T) (hS : p.sigs = S) (hdefs : LinRelDefs T S p.defs p'.defs) :
    ∀ (n : Nat) (sn : Named.State) (k : Nat) (sp : Pos.State) (acc : List (Bool × BitVec 64)),
      sp.stmt.size ≤ k → StateRel T S sn sp → sn.out = acc.reverse →
      ∃ m, (Pos.runState p' m sp acc).out = (Named.iterate p n sn).out := by
  intro n
  induction n with
  | zero => intro sn k sp acc _ _ hout; exact ⟨0, by simp [Named.iterate, Pos.runState, hout]⟩
  | succ n ih =>
    intro sn k
    induction k with
    | zero =>
      intro sp acc hk
      have : sp.stmt.size ≥ 1 := by cases sp.stmt <;> simp [Stmt.size]
      omega
    | succ k ihk =>
      intro sp acc hk h hout
      rcases sim_step hT hS hdefs sn sp h with ⟨_, sp', h1, h2, h3⟩ | ⟨_, hstep⟩
      · obtain ⟨m, hm1⟩ := ihk sp' acc (by omega) h3 hout
        exact ⟨m + 1, by simpa [Pos.runState, h1] using hm1⟩
      · simp only [Named.iterate]
        cases hn : Named.step p sn with
        | next sn' =>
          rw [hn] at hstep
          simp only
          cases hp : Pos.step p' sp with
          | done _ => rw [hp] at hstep; simp [StepRel] at hstep
          | stuck _ => rw [hp] at hstep; simp [StepRel] at hstep
          | next sp' o =>
            rw [hp] at hstep
            simp only [StepRel] at hstep
            obtain ⟨hrel, hout'⟩ := hstep
            cases o with
            | none =>
              obtain ⟨m, hm1⟩ := ih sn' sp'.stmt.size sp' acc (Nat.le_refl _) hrel
                (by rw [hout', hout]; simp)
              exact ⟨m + 1, by simpa [Pos.runState, hp] using hm1⟩
            | some x =>
              obtain ⟨m, hm1⟩ := ih sn' sp'.stmt.size sp' (x :: acc) (Nat.le_refl _) hrel
                (by rw [hout', hout]; simp)
              exact ⟨m + 1, by simpa [Pos.runState, hp] using hm1⟩
        | halt out r =>
          rw [hn] at hstep
          simp only
          cases r with
          | outOfFuel => cases hp : Pos.step p' sp <;> rw [hp] at hstep <;> simp [StepRel] at hstep
          | done v =>
            cases hp : Pos.step p' sp with
            | next _ _ => rw [hp] at hstep; simp [StepRel] at hstep
            | stuck _ => rw [hp] at hstep; simp [StepRel] at hstep
            | done w =>
              rw [hp] at hstep
              simp only [StepRel] at hstep
              exact ⟨1, by simp [Pos.runState, hp, hstep.2, hout]⟩
          | stuck why =>
            cases hp : Pos.step p' sp with
            | next _ _ => rw [hp] at hstep; simp [StepRel] at hstep
            | done _ => rw [hp] at hstep; simp [StepRel] at hstep
            | stuck why' =>
              rw [hp] at hstep
              simp only [StepRel] at hstep
              exact ⟨1, by simp [Pos.runState, hp, hstep.1, hout]⟩

/-- backward: the trace of the positional machine after `m` steps is the trace of the named machine after
    some `n` steps -/
theorem sim_trace_backward (hT : p'.types = T) (hS : p.sigs = S) (hdefs : LinRelDefs T S p.defs p'.defs) :
    ∀ (m : Nat) (sn : Named.State) (sp : Pos.State) (acc : List (Bool × BitVec 64)),
      StateRel T S sn sp → sn.out = acc.reverse →
      ∃ n, (Pos.runState p' m sp acc).out = (Named.iterate p n sn).out := by
  intro m
  induction m with
  | zero => intro sn sp acc _ hout; exact ⟨0, by simp [Named.iterate, Pos.runState, hout]⟩
  | succ m ih =>
    intro sn sp acc h hout
    rcases sim_step hT hS hdefs sn sp h with ⟨_, sp', h1, _, h3⟩ | ⟨_, hstep⟩
    · simp only [Pos.runState, h1]
      exact ih sn sp' acc h3 hout
    · cases hp : Pos.step p' sp with
      | next sp' o =>
        rw [hp] at hstep
        simp only [Pos.runState, hp]
        cases hn : Named.step p sn with
        | halt _ r => rw [hn] at hstep; cases r <;> simp [StepRel] at hstep
        | next sn' =>
          rw [hn] at hstep
          simp only [StepRel] at hstep
          obtain ⟨hrel, hout'⟩ := hstep
          cases o with
          | none =>
            obtain ⟨n, hn1⟩ := ih sn' sp' acc hrel (by rw [hout', hout]; simp)
            exact ⟨n + 1, by simpa [Named.iterate, hn] using hn1⟩
          | some x =>
            obtain ⟨n, hn1⟩ := ih sn' sp' (x :: acc) hrel (by rw [hout', hout]; simp)
            exact ⟨n + 1, by simpa [Named.iterate, hn] using hn1⟩
      | done w =>
        rw [hp] at hstep
        cases hn : Named.step p sn with
        | next _ => rw [hn] at hstep; simp [StepRel] at hstep
        | halt out r =>
          rw [hn] at hstep
          cases r with
          | outOfFuel => simp [StepRel] at hstep
          | stuck _ => simp [StepRel] at hstep
          | done v =>
            simp only [StepRel] at hstep
            exact ⟨1, by simp [Pos.runState, hp, Named.iterate, hn, hstep.2, hout]⟩
      | stuck why' =>
        rw [hp] at hstep
        cases hn : Named.step p sn with
        | next _ => rw [hn] at hstep; simp [StepRel] at hstep
        | halt out r =>
          rw [hn] at hstep
          cases r with
          | outOfFuel => simp [StepRel] at hstep
          | done _ => simp [StepRel] at hstep
          | stuck why =>
            simp only [StepRel] at hstep
            exact ⟨1, by simp [Pos.runState, hp, Named.iterate, hn, hstep.1, hout]⟩

/-- the traces of the two runs, for all fuel, in both directions -/
theorem linRelProg_traces (p p' : Prog) (args : List (BitVec 64)) (h : LinRelProg p p')
    (hmain : ∀ d, p.defs.head? = some d → ∀ b ∈ d.ctx, b.chi = .ext ∧ b.ty = .i64) :
    (∀ n, ∃ m, (Pos.run p' args m).out = (Named.run p args n).out) ∧
    (∀ m, ∃ n, (Pos.run p' args m).out = (Named.run p args n).out) := by
  obtain ⟨hT, _, hdefs⟩ := h
  cases hd : p.defs with
  | nil =>
    cases hd' : p'.defs with
    | nil => exact ⟨fun n => ⟨0, by simp [Named.run, Pos.run, hd, hd']⟩, fun m => ⟨0, by simp [Named.run, Pos.run, hd, hd']⟩⟩
    | cons _ _ => rw [hd, hd'] at hdefs; simp [LinRelDefs] at hdefs
  | cons d ds =>
    cases hd' : p'.defs with
    | nil => rw [hd, hd'] at hdefs; simp [LinRelDefs] at hdefs
    | cons d' ds' =>
      have hdefs' := hdefs
      rw [hd, hd'] at hdefs'
      simp only [LinRelDefs] at hdefs'
      obtain ⟨⟨_, hctx, hnd, hlin⟩, _⟩ := hdefs'
      by_cases hlen : d.ctx.length = args.length
      · have hfr := ints_rel (T := p.types) (S := p.sigs) d.ctx args hlen (hmain d (by simp [hd]))
        obtain ⟨env, hb1, hb2, _⟩ := bindParams_rel d.ctx [] hfr hnd
        have hrel : StateRel p.types p.sigs ⟨d.body, env, []⟩ ⟨d'.ctx, args.map .int, d'.body⟩ :=
          ⟨d.ctx.ids, by rw [hctx]; exact hlin, by rw [hctx]; simpa using hb2⟩
        have hc : ¬ (d'.ctx.length ≠ args.length) := by rw [hctx]; simp [hlen]
        constructor
        · intro n
          simp only [Named.run, hd, hb1]
          obtain ⟨m, hm1⟩ := sim_trace_forward hT rfl hdefs n _ _ _ [] (Nat.le_refl _) hrel rfl
          exact ⟨m, by simpa [Pos.run, hd', if_neg hc] using hm1⟩
        · intro m
          simp only [Pos.run, hd', if_neg hc]
          obtain ⟨n, hn1⟩ := sim_trace_backward hT rfl hdefs m _ _ [] hrel rfl
          exact ⟨n, by simpa [Named.run, hd, hb1] using hn1⟩
      · have hc : d'.ctx.length ≠ args.length := by rw [hctx]; exact hlen
        have hnone : Named.bindParams d.ctx (args.map Named.Value.int) = none := by
          cases hb : Named.bindParams d.ctx (args.map Named.Value.int) with
          | none => rfl
          | some e => exact absurd (by simpa using bindParams_length _ _ _ hb) hlen
        exact ⟨fun n => ⟨0, by simp [Named.run, Pos.run, hd, hd', hc, hnone]⟩,
          fun m => ⟨0, by simp [Named.run, Pos.run, hd, hd', hc, hnone]⟩⟩

end runs

end Scc.AxCut.Sim
