/-
  Scc.AxCut.LinTyping — SPEC: the ordered, linear typing discipline of LINEARIZED AxCut programs
  (DESIGN.md §4 "Ordered-linear typing", properties C05 and C12), a decidable checker and its
  soundness proof.

  `LinTyped types sigs Γ s`: under the ordered context `Γ` (the environment the backends keep in
  registers/spill slots, position by position) statement `s` finds exactly the list it expects:
    call      Γ      = the callee's parameters            (kinds and types, position by position)
    invoke    Γ      = arguments ++ [closure]             (arguments: the method's signature)
    let       Γ      = Γ' ++ arguments                     continue with Γ' ++ [x : prd T]
    switch    Γ      = Γ' ++ [scrutinee]                   clause K under Γ' ++ Δ_K
    create    Γ      = Γ_next ++ Γ_closure                 clause K under Δ_K ++ Γ_closure,
                                                           continue with Γ_next ++ [x : cns T]
    lit / op  operands present; continue with Γ ++ [x : ext i64]      (operands are NOT consumed)
    print     operand present;  continue with Γ                       (operand is NOT consumed)
    ifc       operands present; both branches under Γ
    exit      operand present
    subst [(new_i, old_i)]  every old_i ∈ Γ with the kind and type of new_i, the new_i pairwise
              distinct; continue with [new_i]   — the ONLY place where values are duplicated,
              dropped or reordered.
  Every context is duplicate-free (ids).  Variables are identified by their id (names are only for
  printing: the code generators look variables up by id).  "Agree" means: same id, same kind
  (`Chi`), same type.
  Core imports only.
-/
import Scc.AxCut.Linearize

namespace Scc.AxCut

/-- what identifies a binding: id, kind, type (the name is for printing only) -/
def Binding.key (b : Binding) : Nat × Chi × Ty := (b.var.id, b.chi, b.ty)

def Ctx.keys (Γ : Ctx) : List (Nat × Chi × Ty) := Γ.map Binding.key

/-- kinds and types, position by position -/
def Ctx.chiTys (Γ : Ctx) : List (Chi × Ty) := Γ.map fun b => (b.chi, b.ty)

/-- the context is duplicate-free -/
def NodupIds (Γ : Ctx) : Prop := Γ.ids.Nodup

/-- variable `x` is in `Γ` with kind `chi` and type `ty` -/
def HasVar (Γ : Ctx) (x : Nat) (chi : Chi) (ty : Ty) : Prop :=
  ∃ b ∈ Γ, b.var.id = x ∧ b.chi = chi ∧ b.ty = ty

instance (Γ : Ctx) : Decidable (NodupIds Γ) := by unfold NodupIds; infer_instance
instance (Γ : Ctx) (x : Nat) (chi : Chi) (ty : Ty) : Decidable (HasVar Γ x chi ty) := by
  unfold HasVar; infer_instance

/-- signature (field / parameter list) of xtor `tag` of type `ty` -/
def lookupXtor (types : List TypeDecl) (ty : Ty) (tag : Ident) : Option Ctx :=
  match lookupTypeDecl types ty with
  | none => none
  | some d =>
    match d.xtors.find? (fun x => x.name == tag) with
    | none => none
    | some x => some x.args

/-- labels with their parameter lists -/
abbrev Sigs := List (Ident × Ctx)

def findSig (sigs : Sigs) (l : Ident) : Option Ctx :=
  match sigs.find? (fun s => s.1 == l) with
  | none => none
  | some s => some s.2

def Prog.sigs (p : Prog) : Sigs := p.defs.map fun d => (d.name, d.ctx)

/-- the clauses are exactly the xtors of the declaration, in declaration order (the order of the
jump table), each binding variables of the declared kinds and types -/
def ClausesMatch : List XtorSig → Clauses → Prop
  | [], .nil => True
  | x :: xs, .cons n ctx _ rest => x.name = n ∧ x.args.chiTys = ctx.chiTys ∧ ClausesMatch xs rest
  | _, _ => False

instance decClausesMatch : (xs : List XtorSig) → (cs : Clauses) → Decidable (ClausesMatch xs cs)
  | [], .nil => isTrue trivial
  | [], .cons _ _ _ _ => isFalse (by simp [ClausesMatch])
  | _ :: _, .nil => isFalse (by simp [ClausesMatch])
  | x :: xs, .cons n ctx _ rest =>
    have := decClausesMatch xs rest
    by unfold ClausesMatch; infer_instance

mutual
  /-- the ordered-linear typing judgement, one rule per statement form -/
  inductive LinTyped (T : List TypeDecl) (S : Sigs) : Ctx → Stmt → Prop where
    | subst {Γ : Ctx} {pairs : List (Binding × Ident)} {next : Stmt} :
        NodupIds Γ →
        (∀ p ∈ pairs, HasVar Γ p.2.id p.1.chi p.1.ty) →
        NodupIds (pairs.map (·.1)) →
        LinTyped T S (pairs.map (·.1)) next →
        LinTyped T S Γ (.subst pairs next)
    | call {Γ : Ctx} {l : Ident} {args params : Ctx} :
        NodupIds Γ →
        findSig S l = some params →
        Γ.chiTys = params.chiTys →
        LinTyped T S Γ (.call l args)
    | letS {Γ Γ' Γa : Ctx} {x : Ident} {ty : Ty} {tag : Ident} {args sig : Ctx} {next : Stmt}
        {fv : FV} :
        NodupIds Γ →
        Γ = Γ' ++ Γa →
        Γa.keys = args.keys →
        lookupXtor T ty tag = some sig →
        args.chiTys = sig.chiTys →
        x.id ∉ Γ'.ids →
        LinTyped T S (Γ' ++ [⟨x, .prd, ty⟩]) next →
        LinTyped T S Γ (.letS x ty tag args next fv)
    | switch {Γ Γ' : Ctx} {b : Binding} {x : Ident} {ty : Ty} {cs : Clauses} {fv : FV}
        {d : TypeDecl} :
        NodupIds Γ →
        Γ = Γ' ++ [b] →
        b.key = (x.id, .prd, ty) →
        lookupTypeDecl T ty = some d →
        ClausesMatch d.xtors cs →
        LinTypedClauses T S Γ' [] cs →
        LinTyped T S Γ (.switch x ty cs fv)
    | create {Γ Γn Γe Γc : Ctx} {x : Ident} {ty : Ty} {cs : Clauses} {next : Stmt} {fc fn : FV}
        {d : TypeDecl} :
        NodupIds Γ →
        Γ = Γn ++ Γe →
        Γe.keys = Γc.keys →
        lookupTypeDecl T ty = some d →
        ClausesMatch d.xtors cs →
        LinTypedClauses T S [] Γc cs →
        x.id ∉ Γn.ids →
        LinTyped T S (Γn ++ [⟨x, .cns, ty⟩]) next →
        LinTyped T S Γ (.create x ty (some Γc) cs next fc fn)
    | invoke {Γ Γa : Ctx} {b : Binding} {x : Ident} {tag : Ident} {ty : Ty} {args sig : Ctx} :
        NodupIds Γ →
        Γ = Γa ++ [b] →
        b.key = (x.id, .cns, ty) →
        lookupXtor T ty tag = some sig →
        Γa.chiTys = sig.chiTys →
        LinTyped T S Γ (.invoke x tag ty args)
    | lit {Γ : Ctx} {x : Ident} {n : Int} {next : Stmt} {fv : FV} :
        NodupIds Γ →
        x.id ∉ Γ.ids →
        LinTyped T S (Γ ++ [⟨x, .ext, .i64⟩]) next →
        LinTyped T S Γ (.lit x n next fv)
    | op {Γ : Ctx} {x a : Ident} {o : BinOp} {b : Ident} {next : Stmt} {fv : FV} :
        NodupIds Γ →
        HasVar Γ a.id .ext .i64 →
        HasVar Γ b.id .ext .i64 →
        x.id ∉ Γ.ids →
        LinTyped T S (Γ ++ [⟨x, .ext, .i64⟩]) next →
        LinTyped T S Γ (.op x a o b next fv)
    | print {Γ : Ctx} {nl : Bool} {a : Ident} {next : Stmt} {fv : FV} :
        NodupIds Γ →
        HasVar Γ a.id .ext .i64 →
        LinTyped T S Γ next →
        LinTyped T S Γ (.print nl a next fv)
    | ifc {Γ : Ctx} {s : IfSort} {a : Ident} {b : Option Ident} {t e : Stmt} :
        NodupIds Γ →
        HasVar Γ a.id .ext .i64 →
        (∀ b', b = some b' → HasVar Γ b'.id .ext .i64) →
        LinTyped T S Γ t →
        LinTyped T S Γ e →
        LinTyped T S Γ (.ifc s a b t e)
    | exit {Γ : Ctx} {x : Ident} :
        NodupIds Γ →
        HasVar Γ x.id .ext .i64 →
        LinTyped T S Γ (.exit x)
  /-- every clause body is typed under `pre ++ (variables bound by the clause) ++ post` -/
  inductive LinTypedClauses (T : List TypeDecl) (S : Sigs) : Ctx → Ctx → Clauses → Prop where
    | nil {pre post : Ctx} : LinTypedClauses T S pre post .nil
    | cons {pre post : Ctx} {x : Ident} {ctx : Ctx} {body : Stmt} {rest : Clauses} :
        LinTyped T S (pre ++ ctx ++ post) body →
        LinTypedClauses T S pre post rest →
        LinTypedClauses T S pre post (.cons x ctx body rest)
end

/-- every definition body is ordered-linearly typed under the definition's parameter list -/
def LinTypedProg (p : Prog) : Prop :=
  ∀ d ∈ p.defs, LinTyped p.types p.sigs d.ctx d.body

/-- duplicate-freeness of the context is part of every rule -/
theorem LinTyped.nodup {T S Γ s} (h : LinTyped T S Γ s) : NodupIds Γ := by
  cases h <;> assumption

/-! ## the checker -/

def errAt (what why : String) : Except String Unit := .error ("LinTyped: " ++ what ++ ": " ++ why)

mutual
  /-- decides `LinTyped`; the error names the statement and the violated premise -/
  def linTypedCheckStmt (T : List TypeDecl) (S : Sigs) : Ctx → Stmt → Except String Unit
    | Γ, .subst pairs next =>
      if ¬ NodupIds Γ then errAt "subst" "context has duplicates"
      else if ¬ (∀ p ∈ pairs, HasVar Γ p.2.id p.1.chi p.1.ty) then
        errAt "subst" "an old variable is not in the context with the kind and type of the new binding"
      else if ¬ NodupIds (pairs.map (·.1)) then errAt "subst" "new variables not pairwise distinct"
      else linTypedCheckStmt T S (pairs.map (·.1)) next
    | Γ, .call l _ =>
      if ¬ NodupIds Γ then errAt ("call " ++ l.print) "context has duplicates"
      else match findSig S l with
        | none => errAt ("call " ++ l.print) "unknown label"
        | some params =>
          if Γ.chiTys = params.chiTys then .ok ()
          else errAt ("call " ++ l.print) "context is not the callee's parameter list"
    | Γ, .letS x ty tag args next _ =>
      if ¬ NodupIds Γ then errAt ("let " ++ x.print) "context has duplicates"
      else
        let n := Γ.length - args.length
        if Ctx.keys (Γ.drop n) ≠ args.keys then
          errAt ("let " ++ x.print) "arguments are not the suffix of the context"
        else match lookupXtor T ty tag with
          | none => errAt ("let " ++ x.print) "unknown type or xtor"
          | some sig =>
            if args.chiTys ≠ sig.chiTys then
              errAt ("let " ++ x.print) "arguments do not match the xtor signature"
            else if x.id ∈ Ctx.ids (Γ.take n) then errAt ("let " ++ x.print) "bound variable already in context"
            else linTypedCheckStmt T S (Γ.take n ++ [⟨x, .prd, ty⟩]) next
    | Γ, .switch x ty cs _ =>
      if ¬ NodupIds Γ then errAt ("switch " ++ x.print) "context has duplicates"
      else match Γ.getLast? with
        | none => errAt ("switch " ++ x.print) "empty context"
        | some b =>
          if b.key ≠ (x.id, .prd, ty) then
            errAt ("switch " ++ x.print) "scrutinee is not the last variable of the context"
          else match lookupTypeDecl T ty with
            | none => errAt ("switch " ++ x.print) "unknown type"
            | some d =>
              if ¬ ClausesMatch d.xtors cs then
                errAt ("switch " ++ x.print) "clauses do not match the declaration"
              else linTypedCheckClauses T S Γ.dropLast [] cs
    | Γ, .create x ty env cs next _ _ =>
      if ¬ NodupIds Γ then errAt ("create " ++ x.print) "context has duplicates"
      else match env with
        | none => errAt ("create " ++ x.print) "closure environment not annotated"
        | some Γc =>
          let n := Γ.length - Γc.length
          if Ctx.keys (Γ.drop n) ≠ Γc.keys then
            errAt ("create " ++ x.print) "closure environment is not the suffix of the context"
          else match lookupTypeDecl T ty with
            | none => errAt ("create " ++ x.print) "unknown type"
            | some d =>
              if ¬ ClausesMatch d.xtors cs then
                errAt ("create " ++ x.print) "clauses do not match the declaration"
              else match linTypedCheckClauses T S [] Γc cs with
                | .error e => .error e
                | .ok () =>
                  if x.id ∈ Ctx.ids (Γ.take n) then
                    errAt ("create " ++ x.print) "bound variable already in context"
                  else linTypedCheckStmt T S (Γ.take n ++ [⟨x, .cns, ty⟩]) next
    | Γ, .invoke x tag ty _ =>
      if ¬ NodupIds Γ then errAt ("invoke " ++ x.print) "context has duplicates"
      else match Γ.getLast? with
        | none => errAt ("invoke " ++ x.print) "empty context"
        | some b =>
          if b.key ≠ (x.id, .cns, ty) then
            errAt ("invoke " ++ x.print) "closure is not the last variable of the context"
          else match lookupXtor T ty tag with
            | none => errAt ("invoke " ++ x.print) "unknown type or xtor"
            | some sig =>
              if Ctx.chiTys Γ.dropLast = sig.chiTys then .ok ()
              else errAt ("invoke " ++ x.print) "context is not arguments ++ [closure]"
    | Γ, .lit x _ next _ =>
      if ¬ NodupIds Γ then errAt ("lit " ++ x.print) "context has duplicates"
      else if x.id ∈ Γ.ids then errAt ("lit " ++ x.print) "bound variable already in context"
      else linTypedCheckStmt T S (Γ ++ [⟨x, .ext, .i64⟩]) next
    | Γ, .op x a _ b next _ =>
      if ¬ NodupIds Γ then errAt ("op " ++ x.print) "context has duplicates"
      else if ¬ HasVar Γ a.id .ext .i64 then errAt ("op " ++ x.print) "first operand not in context"
      else if ¬ HasVar Γ b.id .ext .i64 then errAt ("op " ++ x.print) "second operand not in context"
      else if x.id ∈ Γ.ids then errAt ("op " ++ x.print) "bound variable already in context"
      else linTypedCheckStmt T S (Γ ++ [⟨x, .ext, .i64⟩]) next
    | Γ, .print _ a next _ =>
      if ¬ NodupIds Γ then errAt ("print " ++ a.print) "context has duplicates"
      else if ¬ HasVar Γ a.id .ext .i64 then errAt ("print " ++ a.print) "operand not in context"
      else linTypedCheckStmt T S Γ next
    | Γ, .ifc _ a b t e =>
      if ¬ NodupIds Γ then errAt ("ifc " ++ a.print) "context has duplicates"
      else if ¬ HasVar Γ a.id .ext .i64 then errAt ("ifc " ++ a.print) "first operand not in context"
      else if ¬ (∀ b', b = some b' → HasVar Γ b'.id .ext .i64) then
        errAt ("ifc " ++ a.print) "second operand not in context"
      else match linTypedCheckStmt T S Γ t with
        | .error err => .error err
        | .ok () => linTypedCheckStmt T S Γ e
    | Γ, .exit x =>
      if ¬ NodupIds Γ then errAt ("exit " ++ x.print) "context has duplicates"
      else if ¬ HasVar Γ x.id .ext .i64 then errAt ("exit " ++ x.print) "operand not in context"
      else .ok ()
  def linTypedCheckClauses (T : List TypeDecl) (S : Sigs) : Ctx → Ctx → Clauses → Except String Unit
    | _, _, .nil => .ok ()
    | pre, post, .cons _ ctx body rest =>
      match linTypedCheckStmt T S (pre ++ ctx ++ post) body with
      | .error e => .error e
      | .ok () => linTypedCheckClauses T S pre post rest
end

def linTypedCheckDefs (T : List TypeDecl) (S : Sigs) : List Def → Except String Unit
  | [] => .ok ()
  | d :: ds =>
    match linTypedCheckStmt T S d.ctx d.body with
    | .error e => .error ("def " ++ d.name.print ++ ": " ++ e)
    | .ok () => linTypedCheckDefs T S ds

/-- the decidable checker for `LinTypedProg` -/
def linTypedCheck (p : Prog) : Except String Unit := linTypedCheckDefs p.types p.sigs p.defs

/-! ## soundness of the checker -/

theorem getLast?_eq_some_append {α} {l : List α} {b : α} (h : l.getLast? = some b) :
    l = l.dropLast ++ [b] := by
  have hne : l ≠ [] := by intro h0; simp [h0] at h
  have := List.dropLast_concat_getLast hne
  rw [List.getLast?_eq_some_getLast hne] at h
  injection h with h
  rw [← h]; exact this.symm

mutual
  theorem linTypedCheckStmt_sound (T : List TypeDecl) (S : Sigs) :
      ∀ (s : Stmt) (Γ : Ctx), linTypedCheckStmt T S Γ s = .ok () → LinTyped T S Γ s
    | .subst pairs next, Γ, h => by
      simp only [linTypedCheckStmt] at h
      split at h; · cases h
      split at h; · cases h
      split at h; · cases h
      rename_i h1 h2 h3
      exact .subst (Decidable.of_not_not h1) (Decidable.of_not_not h2) (Decidable.of_not_not h3)
        (linTypedCheckStmt_sound T S next _ h)
    | .call l args, Γ, h => by
      simp only [linTypedCheckStmt] at h
      split at h; · cases h
      rename_i h1
      split at h
      · cases h
      · rename_i params hp
        split at h
        · rename_i h2; exact .call (Decidable.of_not_not h1) hp h2
        · cases h
    | .letS x ty tag args next fv, Γ, h => by
      simp only [linTypedCheckStmt] at h
      split at h; · cases h
      rename_i h1
      split at h; · cases h
      rename_i h2
      split at h
      · cases h
      · rename_i sig hs
        split at h; · cases h
        rename_i h3
        split at h; · cases h
        rename_i h4
        exact .letS (Γ' := Γ.take (Γ.length - args.length)) (Γa := Γ.drop (Γ.length - args.length))
          (Decidable.of_not_not h1) (List.take_append_drop _ _).symm
          (Decidable.of_not_not h2) hs (Decidable.of_not_not h3) h4
          (linTypedCheckStmt_sound T S next _ h)
    | .switch x ty cs fv, Γ, h => by
      simp only [linTypedCheckStmt] at h
      split at h; · cases h
      rename_i h1
      split at h
      · cases h
      · rename_i b hb
        split at h; · cases h
        rename_i h2
        split at h
        · cases h
        · rename_i d hd
          split at h; · cases h
          rename_i h3
          exact .switch (Decidable.of_not_not h1) (getLast?_eq_some_append hb)
            (Decidable.of_not_not h2) hd (Decidable.of_not_not h3)
            (linTypedCheckClauses_sound T S cs _ _ h)
    | .create x ty env cs next fc fn, Γ, h => by
      simp only [linTypedCheckStmt] at h
      split at h; · cases h
      rename_i h1
      split at h
      · cases h
      · rename_i Γc
        split at h; · cases h
        rename_i h2
        split at h
        · cases h
        · rename_i d hd
          split at h; · cases h
          rename_i h3
          split at h
          · cases h
          · rename_i hc
            split at h; · cases h
            rename_i h4
            exact .create (Γn := Γ.take (Γ.length - Γc.length)) (Γe := Γ.drop (Γ.length - Γc.length))
              (Decidable.of_not_not h1) (List.take_append_drop _ _).symm
              (Decidable.of_not_not h2) hd (Decidable.of_not_not h3)
              (linTypedCheckClauses_sound T S cs _ _ hc) h4
              (linTypedCheckStmt_sound T S next _ h)
    | .invoke x tag ty args, Γ, h => by
      simp only [linTypedCheckStmt] at h
      split at h; · cases h
      rename_i h1
      split at h
      · cases h
      · rename_i b hb
        split at h; · cases h
        rename_i h2
        split at h
        · cases h
        · rename_i sig hs
          split at h
          · rename_i h3
            exact .invoke (Decidable.of_not_not h1) (getLast?_eq_some_append hb)
              (Decidable.of_not_not h2) hs h3
          · cases h
    | .lit x n next fv, Γ, h => by
      simp only [linTypedCheckStmt] at h
      split at h; · cases h
      rename_i h1
      split at h; · cases h
      rename_i h2
      exact .lit (Decidable.of_not_not h1) h2 (linTypedCheckStmt_sound T S next _ h)
    | .op x a o b next fv, Γ, h => by
      simp only [linTypedCheckStmt] at h
      split at h; · cases h
      rename_i h1
      split at h; · cases h
      rename_i h2
      split at h; · cases h
      rename_i h3
      split at h; · cases h
      rename_i h4
      exact .op (Decidable.of_not_not h1) (Decidable.of_not_not h2) (Decidable.of_not_not h3) h4
        (linTypedCheckStmt_sound T S next _ h)
    | .print nl a next fv, Γ, h => by
      simp only [linTypedCheckStmt] at h
      split at h; · cases h
      rename_i h1
      split at h; · cases h
      rename_i h2
      exact .print (Decidable.of_not_not h1) (Decidable.of_not_not h2)
        (linTypedCheckStmt_sound T S next _ h)
    | .ifc s a b t e, Γ, h => by
      simp only [linTypedCheckStmt] at h
      split at h; · cases h
      rename_i h1
      split at h; · cases h
      rename_i h2
      split at h; · cases h
      rename_i h3
      split at h
      · cases h
      · rename_i ht
        exact .ifc (Decidable.of_not_not h1) (Decidable.of_not_not h2) (Decidable.of_not_not h3)
          (linTypedCheckStmt_sound T S t _ ht) (linTypedCheckStmt_sound T S e _ h)
    | .exit x, Γ, h => by
      simp only [linTypedCheckStmt] at h
      split at h; · cases h
      rename_i h1
      split at h; · cases h
      rename_i h2
      exact .exit (Decidable.of_not_not h1) (Decidable.of_not_not h2)
  theorem linTypedCheckClauses_sound (T : List TypeDecl) (S : Sigs) :
      ∀ (cs : Clauses) (pre post : Ctx), linTypedCheckClauses T S pre post cs = .ok () →
        LinTypedClauses T S pre post cs
    | .nil, _, _, _ => .nil
    | .cons x ctx body rest, pre, post, h => by
      simp only [linTypedCheckClauses] at h
      split at h
      · cases h
      · rename_i hb
        exact .cons (linTypedCheckStmt_sound T S body _ hb)
          (linTypedCheckClauses_sound T S rest pre post h)
end

theorem linTypedCheckDefs_sound (T : List TypeDecl) (S : Sigs) :
    ∀ ds : List Def, linTypedCheckDefs T S ds = .ok () → ∀ d ∈ ds, LinTyped T S d.ctx d.body
  | [], _, d, hd => by cases hd
  | d0 :: ds, h, d, hd => by
    simp only [linTypedCheckDefs] at h
    split at h
    · cases h
    · rename_i h0
      cases hd with
      | head => exact linTypedCheckStmt_sound T S _ _ h0
      | tail _ hd' => exact linTypedCheckDefs_sound T S ds h d hd'

/-- soundness of the checker -/
theorem linTypedCheck_sound (p : Prog) : linTypedCheck p = .ok () → LinTypedProg p :=
  fun h d hd => linTypedCheckDefs_sound p.types p.sigs p.defs h d hd

end Scc.AxCut
