/-
  Scc.AxCut.TypingNamedProofs — soundness of the executable checker `wtAxCheck` with respect to the
  typing relation `WTax` of `Scc/AxCut/TypingNamed.lean`.
-/
import Scc.AxCut.TypingNamed

namespace Scc.AxCut.Named

open Scc.AxCut

instance : LawfulBEq Ident where
  eq_of_beq := by
    intro a b h
    cases a; cases b
    simp only [BEq.beq, instBEqIdent.beq] at h
    simp_all
  rfl := by
    intro a; cases a; simp [BEq.beq, instBEqIdent.beq]

instance : LawfulBEq Ty where
  eq_of_beq := by
    intro a b h
    cases a <;> cases b
    · rfl
    · simp only [BEq.beq, instBEqTy.beq] at h; cases h
    · simp only [BEq.beq, instBEqTy.beq] at h; cases h
    · simp only [BEq.beq, instBEqTy.beq] at h
      rename_i x y
      have : (x == y) = true := h
      rw [eq_of_beq this]
  rfl := by
    intro a; cases a
    · simp [BEq.beq, instBEqTy.beq]
    · simp only [BEq.beq, instBEqTy.beq]
      exact (beq_self_eq_true (_ : Ident))

instance : LawfulBEq Chi where
  eq_of_beq := by
    intro a b h
    cases a <;> cases b <;> first | rfl | (simp [BEq.beq, instBEqChi.beq] at h; cases h)
  rfl := by
    intro a; cases a <;> simp [BEq.beq, instBEqChi.beq]

instance : LawfulBEq Binding where
  eq_of_beq := by
    intro a b h
    cases a; cases b
    simp only [BEq.beq, instBEqBinding.beq] at h
    rename_i v1 c1 t1 v2 c2 t2
    have h' : ((v1 == v2) && ((c1 == c2) && (t1 == t2))) = true := h
    simp only [Bool.and_eq_true, beq_iff_eq] at h'
    obtain ⟨rfl, rfl, rfl⟩ := h'
    rfl
  rfl := by
    intro a; cases a
    rename_i v c t
    show ((v == v) && ((c == c) && (t == t))) = true
    simp

theorem occOk_sound {Γ : Ctx} {b : Binding} (h : occOk Γ b = true) : lookupB Γ b.var.id = some b := by
  simpa [occOk] using h

theorem argsOk_sound {Γ : Ctx} : ∀ {args sig}, argsOk Γ args sig = true → ArgsOk Γ args sig
  | [], [], _ => .nil
  | [], _ :: _, h => by simp [argsOk] at h
  | _ :: _, [], h => by simp [argsOk] at h
  | a :: as, s :: ss, h => by
    simp only [argsOk, Bool.and_eq_true, beq_iff_eq] at h
    exact .cons (occOk_sound h.1.1.1) h.1.1.2 h.1.2 (argsOk_sound h.2)

theorem paramsOk_sound : ∀ {ps sig}, paramsOk ps sig = true → ParamsOk ps sig
  | [], [], _ => .nil
  | [], _ :: _, h => by simp [paramsOk] at h
  | _ :: _, [], h => by simp [paramsOk] at h
  | a :: as, s :: ss, h => by
    simp only [paramsOk, Bool.and_eq_true, beq_iff_eq] at h
    exact .cons h.1.1 h.1.2 (paramsOk_sound h.2)

theorem substOk_sound {Γ : Ctx} : ∀ {pairs}, substOk Γ pairs = true → SubstOk Γ pairs
  | [], _ => .nil
  | (b, old) :: rest, h => by
    simp only [substOk, Bool.and_eq_true] at h
    obtain ⟨h1, h2⟩ := h
    split at h1
    · rename_i o ho
      simp only [Bool.and_eq_true, beq_iff_eq] at h1
      exact .cons ho h1.1 h1.2 (substOk_sound h2)
    · cases h1

mutual
  theorem wtStmtB_sound (types : List TypeDecl) (sigs : List (Ident × Ctx)) :
      ∀ (Γ : Ctx) (s : Stmt), wtStmtB types sigs Γ s = true → WTStmt types sigs Γ s
    | Γ, .subst pairs next, h => by
      simp only [wtStmtB, Bool.and_eq_true] at h
      exact .subst (substOk_sound h.1) (wtStmtB_sound types sigs _ next h.2)
    | Γ, .call label args, h => by
      simp only [wtStmtB] at h
      split at h
      · rename_i ps hp
        exact .call hp (argsOk_sound h)
      · cases h
    | Γ, .letS v ty tag args next fv, h => by
      simp only [wtStmtB] at h
      split at h
      · rename_i d hd
        split at h
        · rename_i x hx
          simp only [Bool.and_eq_true] at h
          exact .letS hd hx (argsOk_sound h.1) (wtStmtB_sound types sigs _ next h.2)
        · cases h
      · cases h
    | Γ, .switch v ty cs fv, h => by
      simp only [wtStmtB, Bool.and_eq_true] at h
      obtain ⟨h1, h2⟩ := h
      split at h2
      · rename_i d hd
        exact .switch (occOk_sound h1) hd (wtClausesB_sound types sigs Γ d.xtors cs h2)
      · cases h2
    | Γ, .create v ty none cs next fc fn, h => by
      simp only [wtStmtB] at h
      split at h
      · rename_i d hd
        simp only [Bool.and_eq_true] at h
        exact .createNone hd (wtClausesB_sound types sigs Γ d.xtors cs h.1) (wtStmtB_sound types sigs _ next h.2)
      · cases h
    | Γ, .create v ty (some e) cs next fc fn, h => by
      simp only [wtStmtB] at h
      split at h
      · rename_i d hd
        simp only [Bool.and_eq_true] at h
        exact .createSome hd (argsOk_sound h.1.1) (wtClausesB_sound types sigs e d.xtors cs h.1.2)
          (wtStmtB_sound types sigs _ next h.2)
      · cases h
    | Γ, .invoke v tag ty args, h => by
      simp only [wtStmtB, Bool.and_eq_true] at h
      obtain ⟨h1, h2⟩ := h
      split at h2
      · rename_i d hd
        split at h2
        · rename_i x hx
          exact .invoke (occOk_sound h1) hd hx (argsOk_sound h2)
        · cases h2
      · cases h2
    | Γ, .lit v n next fv, h => by
      simp only [wtStmtB] at h
      exact .lit (wtStmtB_sound types sigs _ next h)
    | Γ, .op v a o b next fv, h => by
      simp only [wtStmtB, Bool.and_eq_true, intOk] at h
      exact .op (occOk_sound h.1.1) (occOk_sound h.1.2) (wtStmtB_sound types sigs _ next h.2)
    | Γ, .print nl v next fv, h => by
      simp only [wtStmtB, Bool.and_eq_true, intOk] at h
      exact .print (occOk_sound h.1) (wtStmtB_sound types sigs _ next h.2)
    | Γ, .ifc s a none t e, h => by
      simp only [wtStmtB, Bool.and_eq_true, intOk] at h
      exact .ifz (occOk_sound h.1.1.1) (wtStmtB_sound types sigs _ t h.1.2) (wtStmtB_sound types sigs _ e h.2)
    | Γ, .ifc s a (some b) t e, h => by
      simp only [wtStmtB, Bool.and_eq_true, intOk] at h
      exact .ifc (occOk_sound h.1.1.1) (occOk_sound h.1.1.2) (wtStmtB_sound types sigs _ t h.1.2)
        (wtStmtB_sound types sigs _ e h.2)
    | Γ, .exit v, h => by
      simp only [wtStmtB, intOk] at h
      exact .exit (occOk_sound h)
  theorem wtClausesB_sound (types : List TypeDecl) (sigs : List (Ident × Ctx)) :
      ∀ (Γ : Ctx) (xs : List XtorSig) (cs : Clauses), wtClausesB types sigs Γ xs cs = true →
        WTClauses types sigs Γ xs cs
    | Γ, [], .nil, _ => .nil
    | Γ, [], .cons _ _ _ _, h => by simp [wtClausesB] at h
    | Γ, _ :: _, .nil, h => by simp [wtClausesB] at h
    | Γ, x :: xs, .cons tag ctx body rest, h => by
      simp only [wtClausesB, Bool.and_eq_true, beq_iff_eq] at h
      exact .cons h.1.1.1 (paramsOk_sound h.1.1.2) (wtStmtB_sound types sigs _ body h.1.2)
        (wtClausesB_sound types sigs Γ xs rest h.2)
end

/-- the checker is sound: accepted programs are well-typed -/
theorem wtAxCheck_sound (p : Prog) (h : wtAxCheck p = .ok ()) : WTax p := by
  intro d hd
  simp only [wtAxCheck] at h
  split at h
  · rename_i hnone
    have := List.find?_eq_none.mp hnone d hd
    simp only [Bool.not_eq_true, Bool.not_eq_false', wtDefB] at this
    exact wtStmtB_sound _ _ _ _ (by simpa using this)
  · cases h

end Scc.AxCut.Named
