/-
  Scc.AxCut.SemPos — SPEC: the POSITIONAL AxCut machine of DESIGN.md §4.

  The environment is a list of values read through the statically threaded context (a list of
  bindings of the same length).  This is the machine the backends implement: nothing is looked up
  by name except through the position of an id in the current context.
    let      takes its arguments from the last |args| positions and appends the object
    switch   requires the scrutinee LAST, pops it and appends the fields of the selected clause
    create   splits off the closure environment (the last |env| positions) and appends the closure
    invoke   requires context = args ++ [closure]; jumps to the method with args ++ closure env
    call     requires the context to be the callee's parameter list (kinds and types; names and
             ids are the callee's) and jumps
    subst    builds the new list from the old one by lookup (position of the old id)
    lit/op   append;   print/ifc read;   exit stops.
  The machine is `stuck (shape …)` when a required shape is violated — that is what `LinTyped`
  (Scc/AxCut/LinTyping.lean) excludes.  Integers are `BitVec 64`; `+ - *` wrap; `/` and `%` are
  stuck on divisor 0 (`divByZero`) and on MIN / −1 (`overflow`).
  Core imports only; executable; deterministic; total (fuel).
-/
import Scc.AxCut.Syntax

namespace Scc.AxCut.Pos

open Scc.AxCut

/-- Values: integers, objects made by `let` (tag = position of the xtor in its type declaration,
as in the jump tables), closures made by `create` (the values of the closure environment, its
static context, the clauses). -/
inductive Value where
  | int (n : BitVec 64)
  | obj (tag : Nat) (fields : List Value)
  | clo (envCtx : Ctx) (env : List Value) (clauses : Clauses)

instance : Inhabited Value := ⟨.int 0⟩

inductive Why where
  | divByZero
  | overflow
  /-- the environment does not have the shape the statement requires -/
  | shape (what : String)
  /-- a variable is not in the context -/
  | unbound (what : String)
  /-- a value of the wrong sort (integer / object / closure) was found -/
  | sort (what : String)
  /-- unknown label, type, xtor; missing clause; `create` without annotated environment -/
  | lookup (what : String)
  deriving Repr, BEq, DecidableEq, Inhabited

def Why.render : Why → String
  | .divByZero => "divByZero"
  | .overflow => "overflow"
  | .shape w => "shape-" ++ w
  | .unbound w => "unbound-" ++ w
  | .sort w => "sort-" ++ w
  | .lookup w => "lookup-" ++ w

inductive Result where
  | done (v : BitVec 64)
  | stuck (why : Why)
  | outOfFuel
  deriving Repr, BEq, DecidableEq, Inhabited

structure Behaviour where
  out : List (Bool × BitVec 64)
  res : Result
  deriving Repr, BEq, DecidableEq, Inhabited

/-- machine state: static context, environment (same length), statement -/
structure State where
  ctx : Ctx
  env : List Value
  stmt : Stmt

inductive StepResult where
  | next (s : State) (out : Option (Bool × BitVec 64))
  | done (v : BitVec 64)
  | stuck (why : Why)

/-- position of the id in the context -/
def posOf (Γ : Ctx) (x : Nat) : Option Nat := Γ.findIdx? (fun b => b.var.id == x)

/-- read a variable through the context -/
def readVar (Γ : Ctx) (ρ : List Value) (x : Ident) : Except Why Value :=
  match posOf Γ x.id with
  | none => .error (.unbound x.print)
  | some i =>
    match ρ[i]? with
    | none => .error (.shape "env-shorter-than-context")
    | some v => .ok v

def readInt (Γ : Ctx) (ρ : List Value) (x : Ident) : Except Why (BitVec 64) :=
  match readVar Γ ρ x with
  | .error e => .error e
  | .ok (.int n) => .ok n
  | .ok _ => .error (.sort ("int-expected-" ++ x.print))

def minInt : BitVec 64 := BitVec.intMin 64

/-- integer operations: wrap; `/` `%` guarded -/
def evalOp (o : BinOp) (a b : BitVec 64) : Except Why (BitVec 64) :=
  match o with
  | .sum => .ok (a + b)
  | .sub => .ok (a - b)
  | .prod => .ok (a * b)
  | .div =>
    if b = 0 then .error .divByZero
    else if a = minInt ∧ b = -1 then .error .overflow
    else .ok (a.sdiv b)
  | .rem =>
    if b = 0 then .error .divByZero
    else if a = minInt ∧ b = -1 then .error .overflow
    else .ok (a.srem b)

def evalCmp (s : IfSort) (a b : BitVec 64) : Bool :=
  match s with
  | .eq => a == b
  | .ne => a != b
  | .lt => a.slt b
  | .le => a.sle b
  | .gt => b.slt a
  | .ge => b.sle a

def nthClause : Clauses → Nat → Option Clause
  | .nil, _ => none
  | .cons x c b _, 0 => some ⟨x, c, b⟩
  | .cons _ _ _ r, n + 1 => nthClause r n

/-- kinds and types of a context (names and ids dropped) -/
def chiTys (Γ : Ctx) : List (Chi × Ty) := Γ.map fun b => (b.chi, b.ty)

def findDef (defs : List Def) (l : Ident) : Option Def := defs.find? (fun d => d.name == l)

/-- position of `tag` among the xtors of the declaration of `ty` -/
def tagPosition (types : List TypeDecl) (ty : Ty) (tag : Ident) : Except Why Nat :=
  match lookupTypeDecl types ty with
  | none => .error (.lookup "type")
  | some d =>
    match xtorPosition d tag with
    | none => .error (.lookup ("xtor-" ++ tag.print))
    | some i => .ok i

/-- one step of the positional machine -/
def step (P : Prog) (st : State) : StepResult :=
  let Γ := st.ctx
  let ρ := st.env
  match st.stmt with
  | .lit x n next _ => .next ⟨Γ ++ [⟨x, .ext, .i64⟩], ρ ++ [.int (BitVec.ofInt 64 n)], next⟩ none
  | .op x a o b next _ =>
    match readInt Γ ρ a with
    | .error e => .stuck e
    | .ok va =>
      match readInt Γ ρ b with
      | .error e => .stuck e
      | .ok vb =>
        match evalOp o va vb with
        | .error e => .stuck e
        | .ok v => .next ⟨Γ ++ [⟨x, .ext, .i64⟩], ρ ++ [.int v], next⟩ none
  | .print nl a next _ =>
    match readInt Γ ρ a with
    | .error e => .stuck e
    | .ok v => .next ⟨Γ, ρ, next⟩ (some (nl, v))
  | .ifc s a b t e =>
    match readInt Γ ρ a with
    | .error err => .stuck err
    | .ok va =>
      match b with
      | none => .next ⟨Γ, ρ, if evalCmp s va 0 then t else e⟩ none
      | some b =>
        match readInt Γ ρ b with
        | .error err => .stuck err
        | .ok vb => .next ⟨Γ, ρ, if evalCmp s va vb then t else e⟩ none
  | .exit a =>
    match readInt Γ ρ a with
    | .error e => .stuck e
    | .ok v => .done v
  | .letS x ty tag args next _ =>
    -- the arguments are the last |args| positions
    let k := args.length
    if Γ.length < k ∨ ρ.length ≠ Γ.length then .stuck (.shape "let")
    else
      match tagPosition P.types ty tag with
      | .error e => .stuck e
      | .ok pos =>
        let n := Γ.length - k
        .next ⟨Γ.take n ++ [⟨x, .prd, ty⟩], ρ.take n ++ [.obj pos (ρ.drop n)], next⟩ none
  | .switch x _ clauses _ =>
    -- the scrutinee is the LAST position
    match Γ.getLast?, ρ.getLast? with
    | some b, some v =>
      if b.var.id ≠ x.id ∨ ρ.length ≠ Γ.length then .stuck (.shape "switch")
      else
        match v with
        | .obj pos fields =>
          match nthClause clauses pos with
          | none => .stuck (.lookup "clause")
          | some c =>
            if fields.length ≠ c.ctx.length then .stuck (.shape "switch-fields")
            else .next ⟨Γ.dropLast ++ c.ctx, ρ.dropLast ++ fields, c.body⟩ none
        | _ => .stuck (.sort ("obj-expected-" ++ x.print))
    | _, _ => .stuck (.shape "switch")
  | .create x ty env clauses next _ _ =>
    match env with
    | none => .stuck (.lookup "create-env")
    | some Γc =>
      -- the closure environment is the last |Γc| positions
      let k := Γc.length
      if Γ.length < k ∨ ρ.length ≠ Γ.length then .stuck (.shape "create")
      else
        let n := Γ.length - k
        .next ⟨Γ.take n ++ [⟨x, .cns, ty⟩], ρ.take n ++ [.clo Γc (ρ.drop n) clauses], next⟩ none
  | .invoke x tag ty _ =>
    -- context = arguments ++ [closure]
    match Γ.getLast?, ρ.getLast? with
    | some b, some v =>
      if b.var.id ≠ x.id ∨ ρ.length ≠ Γ.length then .stuck (.shape "invoke")
      else
        match v with
        | .clo Γc ρc clauses =>
          match tagPosition P.types ty tag with
          | .error e => .stuck e
          | .ok pos =>
            match nthClause clauses pos with
            | none => .stuck (.lookup "clause")
            | some c =>
              if Γ.length - 1 ≠ c.ctx.length then .stuck (.shape "invoke-args")
              else .next ⟨c.ctx ++ Γc, ρ.dropLast ++ ρc, c.body⟩ none
        | _ => .stuck (.sort ("clo-expected-" ++ x.print))
    | _, _ => .stuck (.shape "invoke")
  | .call l _ =>
    match findDef P.defs l with
    | none => .stuck (.lookup ("label-" ++ l.print))
    | some d =>
      -- the context is the callee's parameter list (up to names)
      if chiTys Γ ≠ chiTys d.ctx ∨ ρ.length ≠ Γ.length then .stuck (.shape "call")
      else .next ⟨d.ctx, ρ, d.body⟩ none
  | .subst pairs next =>
    -- the new list is built from the old one by lookup
    let rec build : List (Binding × Ident) → Except Why (List Value)
      | [] => .ok []
      | p :: ps =>
        match readVar Γ ρ p.2 with
        | .error e => .error e
        | .ok v =>
          match build ps with
          | .error e => .error e
          | .ok vs => .ok (v :: vs)
    match build pairs with
    | .error e => .stuck e
    | .ok vs => .next ⟨pairs.map (·.1), vs, next⟩ none

/-- iterate `step` with fuel, collecting the trace -/
def runState (P : Prog) : Nat → State → List (Bool × BitVec 64) → Behaviour
  | 0, _, out => ⟨out.reverse, .outOfFuel⟩
  | fuel + 1, st, out =>
    match step P st with
    | .done v => ⟨out.reverse, .done v⟩
    | .stuck w => ⟨out.reverse, .stuck w⟩
    | .next st' o =>
      runState P fuel st' (match o with | some x => x :: out | none => out)

/-- entry = the first definition; its parameters are the argument integers -/
def run (P : Prog) (args : List (BitVec 64)) (fuel : Nat) : Behaviour :=
  match P.defs with
  | [] => ⟨[], .stuck (.lookup "no-definition")⟩
  | d :: _ =>
    if d.ctx.length ≠ args.length then ⟨[], .stuck (.shape "entry-arity")⟩
    else runState P fuel ⟨d.ctx, args.map .int, d.body⟩ []

/-! ## line protocol -/

def renderOut (out : List (Bool × BitVec 64)) : String :=
  "[" ++ ",".intercalate (out.map fun (nl, v) => (if nl then "1:" else "0:") ++ toString v.toInt) ++ "]"

def Behaviour.render (b : Behaviour) : String :=
  "out=" ++ renderOut b.out ++ " res=" ++
    match b.res with
    | .done v => "done:" ++ toString v.toInt
    | .stuck w => "stuck:" ++ w.render
    | .outOfFuel => "outOfFuel"

def parseArgs (s : String) : Option (List (BitVec 64)) :=
  let t := s.trimAscii.toString
  if t.isEmpty || t == "-" then some []
  else (t.splitOn ",").mapM fun a => (a.trimAscii.toString.toInt?).map (BitVec.ofInt 64)

/-- `dump` = an `(axprog …)` dump of a LINEARIZED program (S5), `args` = comma-separated signed
decimals (empty or `-` for none).  Reply `OK out=[1:55,0:-73] res=done:300|stuck:<why>|outOfFuel`. -/
def runLinePos (dump args : String) (fuel : Nat) : String :=
  match Sexp.parse dump with
  | none => "ERR sexp"
  | some sx =>
    match readProg (dump.length + 10) sx with
    | none => "ERR read"
    | some p =>
      match parseArgs args with
      | none => "ERR args"
      | some as => "OK " ++ (run p as fuel).render

end Scc.AxCut.Pos
