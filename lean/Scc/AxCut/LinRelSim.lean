/-
  Scc.AxCut.LinRelSim — proof file (C05, T4, part A): if `p'` is a linearization of `p`
  (`LinRelProg p p'`, Scc/AxCut/LinRel.lean) then the named machine on `p` and the positional
  machine on `p'` run in lockstep (the positional machine additionally performs the explicit
  substitutions), hence have the same behaviour.
-/
import Scc.AxCut.LinRel
import Scc.AxCut.PosSafe
import Scc.AxCut.SemNamed
import Scc.AxCut.SemEq

namespace Scc.AxCut.Sim

open Scc.AxCut

abbrev NV := Named.Value
abbrev PV := Pos.Value

mutual
  /-- a named value and a positional value represent the same value of kind `chi`, type `ty` -/
  inductive VRel (T : List TypeDecl) (S : Sigs) : NV → PV → Chi → Ty → Prop where
    | int (n : BitVec 64) : VRel T S (.int n) (.int n) .ext .i64
    | obj {ty : Ty} {d : TypeDecl} {tag : Ident} {pos : Nat} {xt : XtorSig}
        {fs₀ : List NV} {fs' : List PV} :
        lookupTypeDecl T ty = some d → xtorPosition d tag = some pos → d.xtors[pos]? = some xt →
        FieldsRel T S fs₀ fs' xt.args.chiTys → VRel T S (.obj tag fs₀) (.obj pos fs') .prd ty
    | clo {ty : Ty} {d : TypeDecl} {ysc : List Nat} {Ec : Named.Env} {Γc : Ctx} {ρc : List PV}
        {cs₀ cs' : Clauses} :
        lookupTypeDecl T ty = some d → ClausesMatch d.xtors cs' →
        LinRelClauses T S [] ysc [] Γc cs₀ cs' → EnvRel T S ysc Ec ρc Γc.chiTys →
        VRel T S (.clo Ec cs₀) (.clo Γc ρc cs') .cns ty
  inductive FieldsRel (T : List TypeDecl) (S : Sigs) : List NV → List PV → List (Chi × Ty) → Prop where
    | nil : FieldsRel T S [] [] []
    | cons {v : NV} {w : PV} {vs : List NV} {ws : List PV} {c : Chi} {t : Ty} {cts : List (Chi × Ty)} :
        VRel T S v w c t → FieldsRel T S vs ws cts → FieldsRel T S (v :: vs) (w :: ws) ((c, t) :: cts)
  /-- `ys`, `ρ`, `cts` aligned: the named variable `ys[i]` is bound in `E` to a value represented by `ρ[i]` -/
  inductive EnvRel (T : List TypeDecl) (S : Sigs) : List Nat → Named.Env → List PV → List (Chi × Ty) → Prop where
    | nil {E : Named.Env} : EnvRel T S [] E [] []
    | cons {E : Named.Env} {y : Nat} {ys : List Nat} {v : NV} {w : PV} {ws : List PV} {c : Chi} {t : Ty}
        {cts : List (Chi × Ty)} :
        Named.lookup E y = some v → VRel T S v w c t → EnvRel T S ys E ws cts →
        EnvRel T S (y :: ys) E (w :: ws) ((c, t) :: cts)
end

variable {T : List TypeDecl} {S : Sigs}

/-! ## list lemmas -/

theorem EnvRel.lengths : ∀ {ys : List Nat} {E : Named.Env} {ρ : List PV} {cts : List (Chi × Ty)},
    EnvRel T S ys E ρ cts → ys.length = cts.length ∧ ρ.length = cts.length
  | [], _, _, _, h => by cases h; exact ⟨rfl, rfl⟩
  | _ :: _, _, _, _, h => by
    cases h with
    | cons _ _ hr => have := EnvRel.lengths hr; simp [this.1, this.2]

theorem FieldsRel.lengths : ∀ {vs : List NV} {ws : List PV} {cts : List (Chi × Ty)},
    FieldsRel T S vs ws cts → vs.length = cts.length ∧ ws.length = cts.length
  | [], _, _, h => by cases h; exact ⟨rfl, rfl⟩
  | _ :: _, _, _, h => by
    cases h with
    | cons _ hr => have := FieldsRel.lengths hr; simp [this.1, this.2]

theorem EnvRel.append : ∀ {ys1 ys2 : List Nat} {E : Named.Env} {ρ1 ρ2 : List PV}
    {c1 c2 : List (Chi × Ty)}, EnvRel T S ys1 E ρ1 c1 → EnvRel T S ys2 E ρ2 c2 →
    EnvRel T S (ys1 ++ ys2) E (ρ1 ++ ρ2) (c1 ++ c2)
  | [], _, _, _, _, _, _, h1, h2 => by cases h1; simpa using h2
  | _ :: _, _, _, _, _, _, _, h1, h2 => by
    cases h1 with
    | cons hl hv hr => exact .cons hl hv (EnvRel.append hr h2)

theorem EnvRel.split : ∀ {ys : List Nat} {E : Named.Env} {ρ : List PV} (c1 : List (Chi × Ty))
    {c2 : List (Chi × Ty)}, EnvRel T S ys E ρ (c1 ++ c2) →
    EnvRel T S (ys.take c1.length) E (ρ.take c1.length) c1 ∧
    EnvRel T S (ys.drop c1.length) E (ρ.drop c1.length) c2
  | ys, E, ρ, [], _, h => by simpa using ⟨EnvRel.nil, h⟩
  | _, _, _, (c, t) :: c1, c2, h => by
    cases h with
    | cons hl hv hr =>
      obtain ⟨h1, h2⟩ := EnvRel.split c1 hr
      exact ⟨by simpa using EnvRel.cons hl hv h1, by simpa using h2⟩

/-- the environment may change as long as the listed variables keep their values -/
theorem EnvRel.env_congr : ∀ {ys : List Nat} {E E' : Named.Env} {ρ : List PV} {cts : List (Chi × Ty)},
    EnvRel T S ys E ρ cts → (∀ y ∈ ys, Named.lookup E' y = Named.lookup E y) → EnvRel T S ys E' ρ cts
  | [], _, _, _, _, h, _ => by cases h; exact .nil
  | y :: ys, _, _, _, _, h, he => by
    cases h with
    | cons hl hv hr =>
      exact .cons (by rw [he y (by simp)]; exact hl) hv
        (EnvRel.env_congr hr (fun z hz => he z (List.mem_cons_of_mem _ hz)))

theorem EnvRel.get : ∀ {ys : List Nat} {E : Named.Env} {ρ : List PV} {cts : List (Chi × Ty)},
    EnvRel T S ys E ρ cts → ∀ (i : Nat) (y : Nat) (c : Chi) (t : Ty), ys[i]? = some y →
    cts[i]? = some (c, t) → ∃ v w, Named.lookup E y = some v ∧ ρ[i]? = some w ∧ VRel T S v w c t
  | [], _, _, _, h, i, y, c, t, hy, _ => by simp at hy
  | _ :: _, _, _, _, h, i, y, c, t, hy, hc => by
    cases h with
    | cons hl hv hr =>
      cases i with
      | zero =>
        simp at hy hc
        obtain ⟨rfl, rfl⟩ := hc
        subst hy
        exact ⟨_, _, hl, rfl, hv⟩
      | succ i =>
        simp at hy hc
        obtain ⟨v, w, h1, h2, h3⟩ := EnvRel.get hr i y c t hy hc
        exact ⟨v, w, h1, by simpa using h2, h3⟩

theorem lookup_cons_ne {E : Named.Env} {x y : Nat} {v : NV} (h : y ≠ x) :
    Named.lookup ((x, v) :: E) y = Named.lookup E y := by
  have : (x == y) = false := by simpa using fun e => h e.symm
  simp [Named.lookup, List.find?_cons, this]

theorem lookup_cons_eq {E : Named.Env} {x : Nat} {v : NV} :
    Named.lookup ((x, v) :: E) x = some v := by
  simp [Named.lookup, List.find?_cons]

/-! ## reading variables -/

theorem posOf_of_get : ∀ (Γ : Ctx) (i : Nat) (b : Binding), NodupIds Γ → Γ[i]? = some b →
    Pos.posOf Γ b.var.id = some i
  | [], i, b, _, h => by simp at h
  | c :: Γ, 0, b, _, h => by
    simp at h; subst h
    simp [Pos.posOf, List.findIdx?_cons]
  | c :: Γ, i + 1, b, hn, h => by
    simp only [NodupIds, Ctx.ids, List.map_cons, List.nodup_cons] at hn
    simp only [List.getElem?_cons_succ] at h
    have hmem : b ∈ Γ := List.mem_of_getElem? h
    have hne : (c.var.id == b.var.id) = false := by
      have : c.var.id ≠ b.var.id := fun e => hn.1 (e ▸ List.mem_map.2 ⟨b, hmem, rfl⟩)
      simpa using this
    have ih := posOf_of_get Γ i b hn.2 h
    simp only [Pos.posOf] at ih ⊢
    simp [List.findIdx?_cons, hne, ih]

theorem chiTys_get {Γ : Ctx} {i : Nat} {b : Binding} (h : Γ[i]? = some b) :
    (Ctx.chiTys Γ)[i]? = some (b.chi, b.ty) := by
  simp [Ctx.chiTys, List.getElem?_map, h]

theorem occ_read {ys : List Nat} {Γ : Ctx} {E : Named.Env} {ρ : List PV} {y : Nat} {x' : Ident}
    {c : Chi} {t : Ty} (ho : Occ ys Γ y x'.id c t) (he : EnvRel T S ys E ρ Γ.chiTys)
    (hn : NodupIds Γ) :
    ∃ v w, Named.lookup E y = some v ∧ Pos.readVar Γ ρ x' = .ok w ∧ VRel T S v w c t := by
  obtain ⟨i, b, h1, h2, h3, rfl, rfl⟩ := ho
  obtain ⟨v, w, h4, h5, h6⟩ := he.get i y b.chi b.ty h1 (chiTys_get h2)
  refine ⟨v, w, h4, ?_, h6⟩
  have := posOf_of_get Γ i b hn h2
  rw [h3] at this
  simp [Pos.readVar, this, h5]

theorem occ_int {ys : List Nat} {Γ : Ctx} {E : Named.Env} {ρ : List PV} {y : Nat} {x' : Ident}
    (ho : Occ ys Γ y x'.id .ext .i64) (he : EnvRel T S ys E ρ Γ.chiTys) (hn : NodupIds Γ) :
    ∃ n, Named.lookup E y = some (.int n) ∧ Pos.readInt Γ ρ x' = .ok n := by
  obtain ⟨v, w, h1, h2, h3⟩ := occ_read ho he hn
  cases h3 with
  | int n => exact ⟨n, h1, by simp [Pos.readInt, h2]⟩

theorem envRel_push {ys : List Nat} {E : Named.Env} {ρ : List PV} {cts : List (Chi × Ty)}
    (he : EnvRel T S ys E ρ cts) {x : Nat} (hx : x ∉ ys) {v : NV} {w : PV} {c : Chi} {t : Ty}
    (hv : VRel T S v w c t) :
    EnvRel T S (ys ++ [x]) ((x, v) :: E) (ρ ++ [w]) (cts ++ [(c, t)]) := by
  refine EnvRel.append (he.env_congr ?_) (.cons lookup_cons_eq hv .nil)
  intro y hy
  exact lookup_cons_ne (fun e => hx (e ▸ hy))

/-- arguments: the named machine's `lookupAll` against the aligned positions -/
theorem lookupAll_rel : ∀ (args : Ctx) {E : Named.Env} {ρ : List PV} {cts : List (Chi × Ty)},
    EnvRel T S args.ids E ρ cts → ∃ vs, Named.lookupAll E args = some vs ∧ FieldsRel T S vs ρ cts
  | [], _, _, _, h => by
    cases h; exact ⟨[], rfl, .nil⟩
  | a :: args, _, _, _, h => by
    simp only [Ctx.ids, List.map_cons] at h
    cases h with
    | cons hl hv hr =>
      obtain ⟨vs, h1, h2⟩ := lookupAll_rel args hr
      exact ⟨_ :: vs, by simp [Named.lookupAll, hl, h1], .cons hv h2⟩

theorem lookup_append_of_not_mem : ∀ (e : Named.Env) (E : Named.Env) (y : Nat),
    (∀ p ∈ e, p.1 ≠ y) → Named.lookup (e ++ E) y = Named.lookup E y
  | [], _, _, _ => rfl
  | p :: e, E, y, h => by
    have hp : (p.1 == y) = false := by simpa using h p (by simp)
    have ih := lookup_append_of_not_mem e E y (fun q hq => h q (List.mem_cons_of_mem _ hq))
    simp only [Named.lookup, List.cons_append, List.find?_cons, hp] at ih ⊢
    exact ih

/-- binding parameters: the named machine's `bindParams` -/
theorem bindParams_rel : ∀ (ctx : Ctx) {vs : List NV} {ws : List PV} (E : Named.Env),
    FieldsRel T S vs ws ctx.chiTys → NodupIds ctx →
    ∃ e, Named.bindParams ctx vs = some e ∧ EnvRel T S ctx.ids (e ++ E) ws ctx.chiTys ∧
      (∀ p ∈ e, p.1 ∈ ctx.ids)
  | [], _, _, E, h, _ => by
    simp only [Ctx.chiTys, List.map_nil] at h
    cases h
    exact ⟨[], rfl, .nil, by simp⟩
  | b :: ctx, [], _, E, h, _ => by
    simp only [Ctx.chiTys, List.map_cons] at h
    cases h
  | b :: ctx, v :: vs, _, E, h, hn => by
    simp only [Ctx.chiTys, List.map_cons] at h
    simp only [NodupIds, Ctx.ids, List.map_cons, List.nodup_cons] at hn
    cases h with
    | cons hv hr =>
      obtain ⟨e, h1, h2, h3⟩ := bindParams_rel ctx E hr hn.2
      refine ⟨(b.var.id, v) :: e, by simp [Named.bindParams, h1], ?_, ?_⟩
      · simp only [Ctx.ids, List.map_cons, Ctx.chiTys, List.cons_append]
        refine .cons lookup_cons_eq hv (h2.env_congr ?_)
        intro y hy
        exact lookup_cons_ne (fun e' => hn.1 (e' ▸ hy))
      · intro p hp
        rcases List.mem_cons.1 hp with rfl | hp
        · simp [Ctx.ids]
        · simp only [Ctx.ids, List.map_cons, List.mem_cons]; exact Or.inr (h3 p hp)

theorem evalOp_rel (o : BinOp) (a b : BitVec 64) :
    (∃ r, Named.evalOp o a b = .ok r ∧ Pos.evalOp o a b = .ok r) ∨
    (Named.evalOp o a b = .error "divByZero" ∧ Pos.evalOp o a b = .error .divByZero) ∨
    (Named.evalOp o a b = .error "overflow" ∧ Pos.evalOp o a b = .error .overflow) := by
  cases o <;> simp only [Named.evalOp, Pos.evalOp]
  · by_cases h1 : b = 0
    · right; left; simp [h1]
    · by_cases h2 : a = Pos.minInt ∧ b = -1
      · right; right
        have : a = Named.minInt := h2.1
        simp [h1, h2.2, this, Pos.minInt, Named.minInt] 
      · left
        refine ⟨a.sdiv b, ?_, by rw [if_neg h1, if_neg h2]⟩
        have h1' : (b == 0) = false := by simpa using h1
        have h2' : (a == Named.minInt && b == -1) = false := by
          simp only [Bool.and_eq_false_imp, beq_iff_eq]
          intro ha
          simpa using fun hb => h2 ⟨ha, hb⟩
        simp only [h1', h2', Bool.false_eq_true, ↓reduceIte]
  · exact Or.inl ⟨_, rfl, rfl⟩
  · by_cases h1 : b = 0
    · right; left; simp [h1]
    · by_cases h2 : a = Pos.minInt ∧ b = -1
      · right; right
        have : a = Named.minInt := h2.1
        simp [h1, h2.2, this, Pos.minInt, Named.minInt] 
      · left
        refine ⟨a.srem b, ?_, by rw [if_neg h1, if_neg h2]⟩
        have h1' : (b == 0) = false := by simpa using h1
        have h2' : (a == Named.minInt && b == -1) = false := by
          simp only [Bool.and_eq_false_imp, beq_iff_eq]
          intro ha
          simpa using fun hb => h2 ⟨ha, hb⟩
        simp only [h1', h2', Bool.false_eq_true, ↓reduceIte]
  · exact Or.inl ⟨_, rfl, rfl⟩
  · exact Or.inl ⟨_, rfl, rfl⟩

/-! ## tags, clauses, definitions -/

theorem go_ge (tag : Ident) : ∀ (xs : List XtorSig) (k r : Nat), xtorPosition.go tag xs k = some r → k ≤ r
  | [], _, _, h => by simp [xtorPosition.go] at h
  | x :: xs, k, r, h => by
    simp only [xtorPosition.go] at h
    split at h
    · injection h with h; omega
    · have := go_ge tag xs (k + 1) r h; omega

/-- the named machine finds the clause by its tag, the positional one by the tag's position -/
theorem clause_lookup (tag : Ident) : ∀ (xs : List XtorSig) (cs₀ cs' : Clauses) (k pos : Nat)
    (xt : XtorSig) (ysPre ysPost : List Nat) (pre post : Ctx),
    LinRelClauses T S ysPre ysPost pre post cs₀ cs' → ClausesMatch xs cs' →
    xtorPosition.go tag xs k = some (k + pos) → xs[pos]? = some xt →
    ∃ xn ctx b₀ b', Named.findClause tag cs₀ = some (ctx, b₀) ∧
      Pos.nthClause cs' pos = some ⟨xn, ctx, b'⟩ ∧ xt.args.chiTys = ctx.chiTys ∧ NodupIds ctx ∧
      (∀ i ∈ ctx.ids, i ∉ ysPre ∧ i ∉ ysPost) ∧
      LinRel T S (ysPre ++ ctx.ids ++ ysPost) (pre ++ ctx ++ post) b₀ b'
  | [], _, _, _, _, _, _, _, _, _, _, _, h, _ => by simp [xtorPosition.go] at h
  | x :: xs, cs₀, cs', k, pos, xt, ysPre, ysPost, pre, post, hr, hm, hgo, hx => by
    cases hr with
    | nil => simp [ClausesMatch] at hm
    | cons hn hf hb hrest =>
      rename_i xn ctx b₀ b' r₀ r'
      simp only [ClausesMatch] at hm
      obtain ⟨hname, hargs, hmr⟩ := hm
      simp only [xtorPosition.go] at hgo
      by_cases e : (x.name == tag) = true
      · rw [if_pos e] at hgo
        have : pos = 0 := by injection hgo with hgo; omega
        subst this
        simp only [List.getElem?_cons_zero, Option.some.injEq] at hx
        subst hx
        refine ⟨xn, ctx, b₀, b', ?_, rfl, hargs, hn, hf, hb⟩
        rw [hname] at e
        simp [Named.findClause, e]
      · rw [if_neg e] at hgo
        have hge := go_ge tag xs (k + 1) _ hgo
        obtain ⟨pos', rfl⟩ : ∃ pos', pos = pos' + 1 := ⟨pos - 1, by omega⟩
        simp only [List.getElem?_cons_succ] at hx
        have hgo' : xtorPosition.go tag xs (k + 1) = some (k + 1 + pos') := by
          rw [hgo]; congr 1; omega
        obtain ⟨xn', ctx', c₀, c', h1, h2, h3, h4, h5, h6⟩ :=
          clause_lookup tag xs r₀ r' (k + 1) pos' xt ysPre ysPost pre post hrest hmr hgo' hx
        refine ⟨xn', ctx', c₀, c', ?_, by simpa [Pos.nthClause] using h2, h3, h4, h5, h6⟩
        rw [hname] at e
        have e' : (xn == tag) = false := by simpa using e
        simp [Named.findClause, e', h1]

theorem tagPosition_ok' {T : List TypeDecl} {ty : Ty} {tag : Ident} {sig : Ctx}
    (h : lookupXtor T ty tag = some sig) :
    ∃ d xt i, lookupTypeDecl T ty = some d ∧ xtorPosition d tag = some i ∧ d.xtors[i]? = some xt ∧
      xt.args = sig ∧ Pos.tagPosition T ty tag = .ok i := by
  unfold lookupXtor at h
  cases hd : lookupTypeDecl T ty with
  | none => simp [hd] at h
  | some d =>
    simp only [hd] at h
    cases hx : d.xtors.find? (fun x => x.name == tag) with
    | none => simp [hx] at h
    | some xt =>
      simp only [hx, Option.some.injEq] at h
      obtain ⟨i, h1, h2⟩ := Pos.xtorPosition_go tag d.xtors 0 xt hx
      have hp : xtorPosition d tag = some i := by simpa [xtorPosition] using h1
      exact ⟨d, xt, i, rfl, hp, h2, h, by simp [Pos.tagPosition, hd, hp]⟩

theorem findDef_rel : ∀ (ds ds' : List Def) (l : Ident), LinRelDefs T S ds ds' →
    ∀ d, ds.find? (fun d => d.name == l) = some d →
    ∃ d', ds'.find? (fun d => d.name == l) = some d' ∧ d'.ctx = d.ctx ∧ NodupIds d.ctx ∧
      LinRel T S d.ctx.ids d.ctx d.body d'.body
  | [], _, _, _, d, h => by simp at h
  | _ :: _, [], _, hr, _, _ => by simp [LinRelDefs] at hr
  | d0 :: ds, d0' :: ds', l, hr, d, h => by
    simp only [LinRelDefs] at hr
    obtain ⟨⟨hn, hc, hnd, hl⟩, hrest⟩ := hr
    simp only [List.find?_cons] at h ⊢
    by_cases e : (d0.name == l) = true
    · simp only [e] at h
      injection h with h
      subst h
      rw [hn]; simp only [e]
      exact ⟨d0', rfl, hc, hnd, hl⟩
    · have e' : (d0.name == l) = false := by simpa using e
      simp only [e'] at h
      rw [hn]; simp only [e']
      exact findDef_rel ds ds' l hrest d h

/-! ## the lockstep simulation -/

def StateRel (T : List TypeDecl) (S : Sigs) (sn : Named.State) (sp : Pos.State) : Prop :=
  ∃ ys, LinRel T S ys sp.ctx sn.stmt sp.stmt ∧ EnvRel T S ys sn.env sp.env sp.ctx.chiTys

/-- results of one named step and one positional step correspond; `out` = trace before the step -/
def StepRel (T : List TypeDecl) (S : Sigs) (out : List (Bool × BitVec 64)) :
    Named.StepResult → Pos.StepResult → Prop
  | .next sn', .next sp' o => StateRel T S sn' sp' ∧ sn'.out = out ++ o.toList
  | .halt out' (.done v), .done w => v = w ∧ out' = out
  | .halt out' (.stuck why), .stuck why' =>
    out' = out ∧ ((why = "divByZero" ∧ why' = .divByZero) ∨ (why = "overflow" ∧ why' = .overflow))
  | _, _ => False

section steps
variable {p p' : Prog}

theorem sim_lit {ys Γ E ρ out x k n₀ n' fv₀ fv'}
    (hlen : ys.length = Γ.length) (hx : x.id ∉ ys)
    (hnext : LinRel T S (ys ++ [x.id]) (Γ ++ [⟨x, .ext, .i64⟩]) n₀ n')
    (he : EnvRel T S ys E ρ Γ.chiTys) :
    StepRel T S out (Named.step p ⟨.lit x k n₀ fv₀, E, out⟩) (Pos.step p' ⟨Γ, ρ, .lit x k n' fv'⟩) := by
  simp only [Named.step, Pos.step, StepRel, Option.toList, List.append_nil, and_true]
  refine ⟨ys ++ [x.id], hnext, ?_⟩
  simp only [Pos.chiTys_append]
  exact envRel_push he hx (.int _)

theorem sim_op {ys Γ E ρ out x a₀ a' o b₀ b' n₀ n' fv₀ fv'}
    (hn : NodupIds Γ) (ha : Occ ys Γ a₀.id a'.id .ext .i64) (hb : Occ ys Γ b₀.id b'.id .ext .i64)
    (hx : x.id ∉ ys)
    (hnext : LinRel T S (ys ++ [x.id]) (Γ ++ [⟨x, .ext, .i64⟩]) n₀ n')
    (he : EnvRel T S ys E ρ Γ.chiTys) :
    StepRel T S out (Named.step p ⟨.op x a₀ o b₀ n₀ fv₀, E, out⟩)
      (Pos.step p' ⟨Γ, ρ, .op x a' o b' n' fv'⟩) := by
  obtain ⟨va, ea, ea'⟩ := occ_int ha he hn
  obtain ⟨vb, eb, eb'⟩ := occ_int hb he hn
  simp only [Named.step, Pos.step, ea, eb, ea', eb']
  rcases evalOp_rel o va vb with ⟨r, e1, e2⟩ | ⟨e1, e2⟩ | ⟨e1, e2⟩
  · simp only [e1, e2, StepRel, Option.toList, List.append_nil, and_true]
    refine ⟨ys ++ [x.id], hnext, ?_⟩
    simp only [Pos.chiTys_append]
    exact envRel_push he hx (.int _)
  · simp [e1, e2, Named.stuck, StepRel]
  · simp [e1, e2, Named.stuck, StepRel]

theorem sim_print {ys Γ E ρ out nl a₀ a' n₀ n' fv₀ fv'}
    (hn : NodupIds Γ) (ha : Occ ys Γ a₀.id a'.id .ext .i64)
    (hnext : LinRel T S ys Γ n₀ n') (he : EnvRel T S ys E ρ Γ.chiTys) :
    StepRel T S out (Named.step p ⟨.print nl a₀ n₀ fv₀, E, out⟩)
      (Pos.step p' ⟨Γ, ρ, .print nl a' n' fv'⟩) := by
  obtain ⟨va, ea, ea'⟩ := occ_int ha he hn
  simp only [Named.step, Pos.step, ea, ea', StepRel, Option.toList, and_true]
  exact ⟨ys, hnext, he⟩

theorem sim_exit {ys Γ E ρ out a₀ a'}
    (hn : NodupIds Γ) (ha : Occ ys Γ a₀.id a'.id .ext .i64) (he : EnvRel T S ys E ρ Γ.chiTys) :
    StepRel T S out (Named.step p ⟨.exit a₀, E, out⟩) (Pos.step p' ⟨Γ, ρ, .exit a'⟩) := by
  obtain ⟨va, ea, ea'⟩ := occ_int ha he hn
  simp only [Named.step, Pos.step, ea, ea', StepRel, and_self]

theorem sim_ifc {ys Γ E ρ out s a₀ a' b₀ b' t₀ t' e₀ e'}
    (hn : NodupIds Γ) (ha : Occ ys Γ a₀.id a'.id .ext .i64)
    (hb : match b₀, b' with
          | none, none => True
          | some c₀, some c' => Occ ys Γ c₀.id c'.id .ext .i64
          | _, _ => False)
    (ht : LinRel T S ys Γ t₀ t') (hel : LinRel T S ys Γ e₀ e')
    (he : EnvRel T S ys E ρ Γ.chiTys) :
    StepRel T S out (Named.step p ⟨.ifc s a₀ b₀ t₀ e₀, E, out⟩)
      (Pos.step p' ⟨Γ, ρ, .ifc s a' b' t' e'⟩) := by
  obtain ⟨va, ea, ea'⟩ := occ_int ha he hn
  cases b₀ with
  | none =>
    cases b' with
    | some _ => simp at hb
    | none =>
      simp only [Named.step, Pos.step, ea, ea', StepRel, Option.toList, List.append_nil, and_true]
      have : Named.evalCmp s va 0 = Pos.evalCmp s va 0 := rfl
      rw [this]
      split
      · exact ⟨ys, ht, he⟩
      · exact ⟨ys, hel, he⟩
  | some c₀ =>
    cases b' with
    | none => simp at hb
    | some c' =>
      simp only at hb
      obtain ⟨vb, eb, eb'⟩ := occ_int hb he hn
      simp only [Named.step, Pos.step, ea, ea', eb, eb', StepRel, Option.toList, List.append_nil,
        and_true]
      have : Named.evalCmp s va vb = Pos.evalCmp s va vb := rfl
      rw [this]
      split
      · exact ⟨ys, ht, he⟩
      · exact ⟨ys, hel, he⟩

theorem envRel_split_ctx {ys1 ys2 : List Nat} {Γ1 Γ2 : Ctx} {E : Named.Env} {ρ : List PV}
    (hl : ys1.length = Γ1.length) (he : EnvRel T S (ys1 ++ ys2) E ρ (Ctx.chiTys (Γ1 ++ Γ2))) :
    EnvRel T S ys1 E (ρ.take Γ1.length) Γ1.chiTys ∧ EnvRel T S ys2 E (ρ.drop Γ1.length) Γ2.chiTys := by
  rw [Pos.chiTys_append] at he
  obtain ⟨h1, h2⟩ := EnvRel.split (Ctx.chiTys Γ1) he
  rw [Pos.chiTys_length, ← hl] at h1 h2
  rw [List.take_left' rfl] at h1
  rw [List.drop_left' rfl] at h2
  rw [hl] at h1 h2
  exact ⟨h1, h2⟩

theorem sim_let {ys' Γ' Γa E ρ out x ty tag args₀ args' sig n₀ n' fv₀ fv'}
    (hl : ys'.length = Γ'.length) (hk : Γa.keys = args'.keys)
    (hs : lookupXtor T ty tag = some sig) (hs' : args'.chiTys = sig.chiTys)
    (hx : x.id ∉ ys')
    (hnext : LinRel T S (ys' ++ [x.id]) (Γ' ++ [⟨x, .prd, ty⟩]) n₀ n')
    (he : EnvRel T S (ys' ++ args₀.ids) E ρ (Ctx.chiTys (Γ' ++ Γa)))
    (hT : p'.types = T) :
    StepRel T S out (Named.step p ⟨.letS x ty tag args₀ n₀ fv₀, E, out⟩)
      (Pos.step p' ⟨Γ' ++ Γa, ρ, .letS x ty tag args' n' fv'⟩) := by
  obtain ⟨d, xt, i, hd, hpos, hx', hxs, htp⟩ := tagPosition_ok' hs
  have hlen : args'.length = Γa.length := (Pos.length_of_keys hk).symm
  have hρ : ρ.length = (Γ' ++ Γa).length := by rw [he.lengths.2, Pos.chiTys_length]
  have hc : ¬ ((Γ' ++ Γa).length < args'.length ∨ ρ.length ≠ (Γ' ++ Γa).length) := by
    rw [hlen]; simp [hρ]
  have hnn : (Γ' ++ Γa).length - args'.length = Γ'.length := by rw [hlen]; simp
  obtain ⟨h1, h2⟩ := envRel_split_ctx hl he
  obtain ⟨vs, hv1, hv2⟩ := lookupAll_rel args₀ h2
  simp only [Named.step, Pos.step, hv1, if_neg hc, hT, htp, hnn, StepRel, Option.toList,
    List.append_nil, and_true]
  rw [List.take_left' rfl]
  refine ⟨ys' ++ [x.id], hnext, ?_⟩
  simp only [Pos.chiTys_append]
  refine envRel_push h1 hx (.obj hd hpos hx' ?_)
  rw [hxs, ← hs', ← Pos.chiTys_of_keys hk]
  exact hv2

theorem envRel_last {ys' : List Nat} {y : Nat} {Γ' : Ctx} {b : Binding} {E : Named.Env} {ρ : List PV}
    (hl : ys'.length = Γ'.length) (he : EnvRel T S (ys' ++ [y]) E ρ (Ctx.chiTys (Γ' ++ [b]))) :
    ∃ ρ' v w, ρ = ρ' ++ [w] ∧ EnvRel T S ys' E ρ' Γ'.chiTys ∧ Named.lookup E y = some v ∧
      VRel T S v w b.chi b.ty := by
  obtain ⟨h1, h2⟩ := envRel_split_ctx hl he
  cases hd : ρ.drop Γ'.length with
  | nil => rw [hd] at h2; cases h2
  | cons w rest =>
    rw [hd] at h2
    simp only [Ctx.chiTys, List.map_cons, List.map_nil] at h2
    cases h2 with
    | cons hl' hv hr =>
      cases hr
      exact ⟨ρ.take Γ'.length, _, w, by rw [← hd, List.take_append_drop], h1, hl', hv⟩

theorem sim_switch {ys' Γ' b E ρ out x₀ x' ty cs₀ cs' fv₀ fv' d}
    (hl : ys'.length = Γ'.length)
    (hb : b.key = (x'.id, .prd, ty)) (hd : lookupTypeDecl T ty = some d)
    (hm : ClausesMatch d.xtors cs') (hc : LinRelClauses T S ys' [] Γ' [] cs₀ cs')
    (he : EnvRel T S (ys' ++ [x₀.id]) E ρ (Ctx.chiTys (Γ' ++ [b]))) :
    StepRel T S out (Named.step p ⟨.switch x₀ ty cs₀ fv₀, E, out⟩)
      (Pos.step p' ⟨Γ' ++ [b], ρ, .switch x' ty cs' fv'⟩) := by
  obtain ⟨ρ', v, w, rfl, h1, hlk, hv⟩ := envRel_last hl he
  have hbid : b.var.id = x'.id := congrArg (·.1) hb
  have hbchi : b.chi = .prd := congrArg (·.2.1) hb
  have hbty : b.ty = ty := congrArg (·.2.2) hb
  rw [hbchi, hbty] at hv
  have hlen : (ρ' ++ [w]).length = (Γ' ++ [b]).length := by
    rw [he.lengths.2, Pos.chiTys_length]
  have hcnd : ¬ (b.var.id ≠ x'.id ∨ (ρ' ++ [w]).length ≠ (Γ' ++ [b]).length) := by
    simp [hbid, hlen]
  cases hv with
  | obj hd' hpos hx hf =>
    rename_i d' tag pos xt fs₀ fs'
    have := Pos.lookupTypeDecl_unique hd hd'
    subst this
    have hgo : xtorPosition.go tag d.xtors 0 = some (0 + pos) := by simpa [xtorPosition] using hpos
    obtain ⟨xn, ctx, b₀, b', hc1, hc2, hc3, hc4, hc5, hc6⟩ :=
      clause_lookup tag d.xtors cs₀ cs' 0 pos xt ys' [] Γ' [] hc hm hgo hx
    rw [hc3] at hf
    obtain ⟨e, hb1, hb2, hb3⟩ := bindParams_rel ctx E hf hc4
    have hfl : fs'.length = ctx.length := by rw [hf.lengths.2, Pos.chiTys_length]
    simp only [Named.step, Pos.step, hlk, hc1, hb1, List.getLast?_concat, if_neg hcnd, hc2, hfl,
      ne_eq, not_true_eq_false, if_false, List.dropLast_concat, StepRel, Option.toList,
      List.append_nil, and_true]
    refine ⟨ys' ++ ctx.ids, by simpa using hc6, ?_⟩
    simp only [Pos.chiTys_append]
    refine EnvRel.append (h1.env_congr ?_) hb2
    intro y hy
    apply lookup_append_of_not_mem
    intro q hq e'
    exact (hc5 _ (hb3 q hq)).1 (e' ▸ hy)

theorem sim_create {ysn yse Γn Γe Γc E ρ out x ty cs₀ cs' n₀ n' fc₀ fn₀ fc' fn' d}
    (hl : ysn.length = Γn.length) (hk : Γe.keys = Γc.keys)
    (hd : lookupTypeDecl T ty = some d) (hm : ClausesMatch d.xtors cs')
    (hc : LinRelClauses T S [] yse [] Γc cs₀ cs') (hx : x.id ∉ ysn)
    (hnext : LinRel T S (ysn ++ [x.id]) (Γn ++ [⟨x, .cns, ty⟩]) n₀ n')
    (he : EnvRel T S (ysn ++ yse) E ρ (Ctx.chiTys (Γn ++ Γe))) :
    StepRel T S out (Named.step p ⟨.create x ty none cs₀ n₀ fc₀ fn₀, E, out⟩)
      (Pos.step p' ⟨Γn ++ Γe, ρ, .create x ty (some Γc) cs' n' fc' fn'⟩) := by
  have hlen : Γc.length = Γe.length := (Pos.length_of_keys hk).symm
  have hρ : ρ.length = (Γn ++ Γe).length := by rw [he.lengths.2, Pos.chiTys_length]
  have hcnd : ¬ ((Γn ++ Γe).length < Γc.length ∨ ρ.length ≠ (Γn ++ Γe).length) := by
    rw [hlen]; simp [hρ]
  have hnn : (Γn ++ Γe).length - Γc.length = Γn.length := by rw [hlen]; simp
  obtain ⟨h1, h2⟩ := envRel_split_ctx hl he
  simp only [Named.step, Pos.step, if_neg hcnd, hnn, StepRel, Option.toList, List.append_nil,
    and_true]
  rw [List.take_left' rfl]
  refine ⟨ysn ++ [x.id], hnext, ?_⟩
  simp only [Pos.chiTys_append]
  refine envRel_push h1 hx (.clo hd hm hc ?_)
  rw [← Pos.chiTys_of_keys hk]
  exact h2

theorem sim_invoke {Γa b E ρ out x₀ x' tag ty args₀ args' sig}
    (hl : args₀.length = Γa.length)
    (hb : b.key = (x'.id, .cns, ty)) (hs : lookupXtor T ty tag = some sig)
    (hs' : Ctx.chiTys Γa = sig.chiTys)
    (he : EnvRel T S (args₀.ids ++ [x₀.id]) E ρ (Ctx.chiTys (Γa ++ [b])))
    (hT : p'.types = T) :
    StepRel T S out (Named.step p ⟨.invoke x₀ tag ty args₀, E, out⟩)
      (Pos.step p' ⟨Γa ++ [b], ρ, .invoke x' tag ty args'⟩) := by
  have hl' : args₀.ids.length = Γa.length := by simpa [Ctx.ids] using hl
  obtain ⟨ρ', v, w, rfl, h1, hlk, hv⟩ := envRel_last hl' he
  have hbid : b.var.id = x'.id := congrArg (·.1) hb
  have hbchi : b.chi = .cns := congrArg (·.2.1) hb
  have hbty : b.ty = ty := congrArg (·.2.2) hb
  rw [hbchi, hbty] at hv
  have hlen : (ρ' ++ [w]).length = (Γa ++ [b]).length := by
    rw [he.lengths.2, Pos.chiTys_length]
  have hcnd : ¬ (b.var.id ≠ x'.id ∨ (ρ' ++ [w]).length ≠ (Γa ++ [b]).length) := by
    simp [hbid, hlen]
  obtain ⟨d, xt, i, hd, hpos, hx, hxs, htp⟩ := tagPosition_ok' hs
  obtain ⟨vs, hv1, hv2⟩ := lookupAll_rel args₀ h1
  cases hv with
  | clo hd' hm hc hec =>
    rename_i d' ysc Ec Γc ρc cs₀ cs'
    have := Pos.lookupTypeDecl_unique hd hd'
    subst this
    have hgo : xtorPosition.go tag d.xtors 0 = some (0 + i) := by simpa [xtorPosition] using hpos
    obtain ⟨xn, ctx, b₀, b', hc1, hc2, hc3, hc4, hc5, hc6⟩ :=
      clause_lookup tag d.xtors cs₀ cs' 0 i xt [] ysc [] Γc hc hm hgo hx
    have hcts : Ctx.chiTys Γa = ctx.chiTys := by rw [hs', ← hxs, hc3]
    rw [hcts] at hv2
    obtain ⟨e, hb1, hb2, hb3⟩ := bindParams_rel ctx Ec hv2 hc4
    have hal : (Γa ++ [b]).length - 1 = ctx.length := by
      have : Γa.length = ctx.length := by
        rw [← Pos.chiTys_length Γa, hcts, Pos.chiTys_length]
      simp [this]
    simp only [Named.step, Pos.step, hlk, hc1, hv1, hb1, List.getLast?_concat, if_neg hcnd, hT,
      htp, hc2, hal, ne_eq, not_true_eq_false, if_false, List.dropLast_concat, StepRel,
      Option.toList, List.append_nil, and_true]
    refine ⟨ctx.ids ++ ysc, by simpa using hc6, ?_⟩
    simp only [Pos.chiTys_append]
    refine EnvRel.append hb2 (hec.env_congr ?_)
    intro y hy
    apply lookup_append_of_not_mem
    intro q hq e'
    exact (hc5 _ (hb3 q hq)).2 (e' ▸ hy)

theorem sim_call {ys Γ E ρ out l args₀ args' params}
    (hf : findSig S l = some params) (hc : Γ.chiTys = params.chiTys) (ha : args₀.ids = ys)
    (he : EnvRel T S ys E ρ Γ.chiTys)
    (hS : p.sigs = S) (hdefs : LinRelDefs T S p.defs p'.defs) :
    StepRel T S out (Named.step p ⟨.call l args₀, E, out⟩) (Pos.step p' ⟨Γ, ρ, .call l args'⟩) := by
  subst hS
  obtain ⟨d₀, hd₀, hctx, _⟩ := Pos.findDef_ok hf
  obtain ⟨d', hd', hc', hnd, hlin⟩ := findDef_rel p.defs p'.defs l hdefs d₀ hd₀
  subst ha
  obtain ⟨vs, hv1, hv2⟩ := lookupAll_rel args₀ he
  have hcts : Ctx.chiTys Γ = d₀.ctx.chiTys := by rw [hc, hctx]
  rw [hcts] at hv2
  obtain ⟨e, hb1, hb2, _⟩ := bindParams_rel d₀.ctx [] hv2 hnd
  have hρ : ρ.length = Γ.length := by rw [he.lengths.2, Pos.chiTys_length]
  have hcnd : ¬ (Pos.chiTys Γ ≠ Pos.chiTys d'.ctx ∨ ρ.length ≠ Γ.length) := by
    have : Pos.chiTys Γ = Pos.chiTys d'.ctx := by rw [hc']; exact hcts
    simp [this, hρ]
  have hd₀' : Named.findDef p l = some d₀ := hd₀
  have hd'' : Pos.findDef p'.defs l = some d' := hd'
  simp only [Named.step, Pos.step, hd₀', hv1, hb1, hd'', if_neg hcnd, StepRel, Option.toList,
    List.append_nil, and_true]
  refine ⟨d₀.ctx.ids, by rw [hc']; exact hlin, ?_⟩
  rw [hc']
  simpa using hb2

/-- the explicit substitution: the positional machine rebuilds its environment, the named machine
does not move -/
theorem build_rel {ys : List Nat} {Γ : Ctx} {E : Named.Env} {ρ : List PV}
    (he : EnvRel T S ys E ρ Γ.chiTys) (hn : NodupIds Γ) :
    ∀ (ys₁ : List Nat) (pairs : List (Binding × Ident)), Rearr ys Γ ys₁ pairs →
      ∃ vs, Pos.step.build Γ ρ pairs = .ok vs ∧
        EnvRel T S ys₁ E vs (Ctx.chiTys (pairs.map (·.1)))
  | [], [], _ => ⟨[], by simp [Pos.step.build], by simpa [Ctx.chiTys] using EnvRel.nil⟩
  | [], _ :: _, h => by simp [Rearr] at h
  | _ :: _, [], h => by simp [Rearr] at h
  | y :: ys₁, q :: pairs, h => by
    simp only [Rearr] at h
    obtain ⟨v, w, h1, h2, h3⟩ := occ_read h.1 he hn
    obtain ⟨vs, h4, h5⟩ := build_rel he hn ys₁ pairs h.2
    refine ⟨w :: vs, by simp [Pos.step.build, h2, h4], ?_⟩
    simpa [Ctx.chiTys] using EnvRel.cons h1 h3 h5

theorem sim_subst {ys ys₁ Γ E ρ pairs s₀ s' out} (hn : NodupIds Γ)
    (hr : Rearr ys Γ ys₁ pairs) (hnext : LinRel T S ys₁ (pairs.map (·.1)) s₀ s')
    (he : EnvRel T S ys E ρ Γ.chiTys) :
    ∃ sp', Pos.step p' ⟨Γ, ρ, .subst pairs s'⟩ = .next sp' none ∧ sp'.stmt = s' ∧
      StateRel T S ⟨s₀, E, out⟩ sp' := by
  obtain ⟨vs, h1, h2⟩ := build_rel he hn ys₁ pairs hr
  exact ⟨⟨pairs.map (·.1), vs, s'⟩, by simp only [Pos.step, h1], rfl, ys₁, hnext, h2⟩

def isSubst : Stmt → Bool
  | .subst _ _ => true
  | _ => false

/-- one step of the simulation: either the positional machine performs an explicit substitution
(and the named machine waits), or both machines do corresponding steps -/
theorem sim_step (hT : p'.types = T) (hS : p.sigs = S) (hdefs : LinRelDefs T S p.defs p'.defs)
    (sn : Named.State) (sp : Pos.State) (h : StateRel T S sn sp) :
    (isSubst sp.stmt = true ∧ ∃ sp', Pos.step p' sp = .next sp' none ∧
        sp'.stmt.size < sp.stmt.size ∧ StateRel T S sn sp') ∨
    (isSubst sp.stmt = false ∧ StepRel T S sn.out (Named.step p sn) (Pos.step p' sp)) := by
  obtain ⟨s₀, E, out⟩ := sn
  obtain ⟨Γ, ρ, s'⟩ := sp
  obtain ⟨ys, hl, he⟩ := h
  simp only at hl he
  cases hl with
  | subst hn _ hr _ hnext =>
    left
    obtain ⟨sp', h1, h2, h3⟩ := sim_subst (p' := p') (out := out) hn hr hnext he
    exact ⟨rfl, sp', h1, by rw [h2]; simp only [Stmt.size]; omega, h3⟩
  | call hn _ hf hc ha => exact Or.inr ⟨rfl, sim_call hf hc ha he hS hdefs⟩
  | letS hn e1 e2 hlen hk hs hs' _ hx hnext =>
    subst e1; subst e2; exact Or.inr ⟨rfl, sim_let hlen hk hs hs' hx hnext he hT⟩
  | switch hn e1 e2 hlen hb hd hm hc =>
    subst e1; subst e2; exact Or.inr ⟨rfl, sim_switch hlen hb hd hm hc he⟩
  | create hn e1 e2 hlen hk hd hm hc _ hx hnext =>
    subst e1; subst e2; exact Or.inr ⟨rfl, sim_create hlen hk hd hm hc hx hnext he⟩
  | invoke hn e1 e2 hlen hb hs hs' =>
    subst e1; subst e2; exact Or.inr ⟨rfl, sim_invoke hlen hb hs hs' he hT⟩
  | lit hn hlen _ hx hnext => exact Or.inr ⟨rfl, sim_lit hlen hx hnext he⟩
  | op hn _ ha hb _ hx hnext => exact Or.inr ⟨rfl, sim_op hn ha hb hx hnext he⟩
  | print hn _ ha hnext => exact Or.inr ⟨rfl, sim_print hn ha hnext he⟩
  | ifc hn _ ha hb ht hel => exact Or.inr ⟨rfl, sim_ifc hn ha hb ht hel he⟩
  | exit hn _ ha => exact Or.inr ⟨rfl, sim_exit hn ha he⟩

end steps

/-! ## behaviours -/

section runs
variable {p p' : Prog}

theorem sim_forward (hT : p'.types = T) (hS : p.sigs = S) (hdefs : LinRelDefs T S p.defs p'.defs) :
    ∀ (n : Nat) (sn : Named.State) (k : Nat) (sp : Pos.State) (acc : List (Bool × BitVec 64)),
      sp.stmt.size ≤ k → StateRel T S sn sp → sn.out = acc.reverse →
      finishedNamed (Named.iterate p n sn).res →
      ∃ m, (Pos.runState p' m sp acc).out = (Named.iterate p n sn).out ∧
        sameOutcome (Named.iterate p n sn).res (Pos.runState p' m sp acc).res := by
  intro n
  induction n with
  | zero => intro sn k sp acc _ _ _ hf; simp [Named.iterate, finishedNamed] at hf
  | succ n ih =>
    intro sn k
    induction k with
    | zero =>
      intro sp acc hk
      have : sp.stmt.size ≥ 1 := by cases sp.stmt <;> simp [Stmt.size]
      omega
    | succ k ihk =>
      intro sp acc hk h hout hf
      rcases sim_step hT hS hdefs sn sp h with ⟨_, sp', h1, h2, h3⟩ | ⟨_, hstep⟩
      · obtain ⟨m, hm1, hm2⟩ := ihk sp' acc (by omega) h3 hout hf
        exact ⟨m + 1, by simpa [Pos.runState, h1] using hm1, by simpa [Pos.runState, h1] using hm2⟩
      · simp only [Named.iterate] at hf ⊢
        cases hn : Named.step p sn with
        | next sn' =>
          rw [hn] at hstep hf
          simp only at hf ⊢
          cases hp : Pos.step p' sp with
          | done _ => rw [hp] at hstep; simp [StepRel] at hstep
          | stuck _ => rw [hp] at hstep; simp [StepRel] at hstep
          | next sp' o =>
            rw [hp] at hstep
            simp only [StepRel] at hstep
            obtain ⟨hrel, hout'⟩ := hstep
            cases o with
            | none =>
              obtain ⟨m, hm1, hm2⟩ := ih sn' sp'.stmt.size sp' acc (Nat.le_refl _) hrel
                (by rw [hout', hout]; simp) hf
              exact ⟨m + 1, by simpa [Pos.runState, hp] using hm1,
                by simpa [Pos.runState, hp] using hm2⟩
            | some x =>
              obtain ⟨m, hm1, hm2⟩ := ih sn' sp'.stmt.size sp' (x :: acc) (Nat.le_refl _) hrel
                (by rw [hout', hout]; simp) hf
              exact ⟨m + 1, by simpa [Pos.runState, hp] using hm1,
                by simpa [Pos.runState, hp] using hm2⟩
        | halt out r =>
          rw [hn] at hstep hf
          simp only at hf ⊢
          cases r with
          | outOfFuel => simp [finishedNamed] at hf
          | done v =>
            cases hp : Pos.step p' sp with
            | next _ _ => rw [hp] at hstep; simp [StepRel] at hstep
            | stuck _ => rw [hp] at hstep; simp [StepRel] at hstep
            | done w =>
              rw [hp] at hstep
              simp only [StepRel] at hstep
              refine ⟨1, ?_, ?_⟩
              · simp [Pos.runState, hp, hstep.2, hout]
              · simp [Pos.runState, hp, sameOutcome, hstep.1]
          | stuck why =>
            cases hp : Pos.step p' sp with
            | next _ _ => rw [hp] at hstep; simp [StepRel] at hstep
            | done _ => rw [hp] at hstep; simp [StepRel] at hstep
            | stuck why' =>
              rw [hp] at hstep
              simp only [StepRel] at hstep
              refine ⟨1, ?_, ?_⟩
              · simp [Pos.runState, hp, hstep.1, hout]
              · simpa [Pos.runState, hp, sameOutcome] using hstep.2

theorem sim_backward (hT : p'.types = T) (hS : p.sigs = S) (hdefs : LinRelDefs T S p.defs p'.defs) :
    ∀ (m : Nat) (sn : Named.State) (sp : Pos.State) (acc : List (Bool × BitVec 64)),
      StateRel T S sn sp → sn.out = acc.reverse →
      finishedPos (Pos.runState p' m sp acc).res →
      ∃ n, (Pos.runState p' m sp acc).out = (Named.iterate p n sn).out ∧
        sameOutcome (Named.iterate p n sn).res (Pos.runState p' m sp acc).res := by
  intro m
  induction m with
  | zero => intro sn sp acc _ _ hf; simp [Pos.runState, finishedPos] at hf
  | succ m ih =>
    intro sn sp acc h hout hf
    rcases sim_step hT hS hdefs sn sp h with ⟨_, sp', h1, _, h3⟩ | ⟨_, hstep⟩
    · simp only [Pos.runState, h1] at hf ⊢
      exact ih sn sp' acc h3 hout hf
    · cases hp : Pos.step p' sp with
      | next sp' o =>
        rw [hp] at hstep
        simp only [Pos.runState, hp] at hf ⊢
        cases hn : Named.step p sn with
        | halt _ r => rw [hn] at hstep; cases r <;> simp [StepRel] at hstep
        | next sn' =>
          rw [hn] at hstep
          simp only [StepRel] at hstep
          obtain ⟨hrel, hout'⟩ := hstep
          cases o with
          | none =>
            obtain ⟨n, hn1, hn2⟩ := ih sn' sp' acc hrel (by rw [hout', hout]; simp) hf
            exact ⟨n + 1, by simpa [Named.iterate, hn] using hn1,
              by simpa [Named.iterate, hn] using hn2⟩
          | some x =>
            obtain ⟨n, hn1, hn2⟩ := ih sn' sp' (x :: acc) hrel (by rw [hout', hout]; simp) hf
            exact ⟨n + 1, by simpa [Named.iterate, hn] using hn1,
              by simpa [Named.iterate, hn] using hn2⟩
      | done w =>
        rw [hp] at hstep
        cases hn : Named.step p sn with
        | next _ => rw [hn] at hstep; simp [StepRel] at hstep
        | halt out r =>
          rw [hn] at hstep
          cases r with
          | outOfFuel => simp [StepRel] at hstep
          | stuck _ => simp [StepRel] at hstep
          | done v =>
            simp only [StepRel] at hstep
            refine ⟨1, ?_, ?_⟩
            · simp [Pos.runState, hp, Named.iterate, hn, hstep.2, hout]
            · simp [Pos.runState, hp, Named.iterate, hn, sameOutcome, hstep.1]
      | stuck why' =>
        rw [hp] at hstep
        cases hn : Named.step p sn with
        | next _ => rw [hn] at hstep; simp [StepRel] at hstep
        | halt out r =>
          rw [hn] at hstep
          cases r with
          | outOfFuel => simp [StepRel] at hstep
          | done _ => simp [StepRel] at hstep
          | stuck why =>
            simp only [StepRel] at hstep
            refine ⟨1, ?_, ?_⟩
            · simp [Pos.runState, hp, Named.iterate, hn, hstep.1, hout]
            · simpa [Pos.runState, hp, Named.iterate, hn, sameOutcome] using hstep.2

theorem bindParams_length : ∀ (ctx : Ctx) (vs : List NV) (e : Named.Env),
    Named.bindParams ctx vs = some e → ctx.length = vs.length
  | [], [], _, _ => rfl
  | [], _ :: _, _, h => by simp [Named.bindParams] at h
  | _ :: _, [], _, h => by simp [Named.bindParams] at h
  | b :: ctx, v :: vs, e, h => by
    simp only [Named.bindParams] at h
    cases hb : Named.bindParams ctx vs with
    | none => simp [hb] at h
    | some e' => simp [bindParams_length ctx vs e' hb]

theorem ints_rel : ∀ (Γ : Ctx) (args : List (BitVec 64)), Γ.length = args.length →
    (∀ b ∈ Γ, b.chi = .ext ∧ b.ty = .i64) →
    FieldsRel T S (args.map Named.Value.int) (args.map Pos.Value.int) Γ.chiTys
  | [], [], _, _ => by simpa [Ctx.chiTys] using FieldsRel.nil
  | [], _ :: _, h, _ => by simp at h
  | _ :: _, [], h, _ => by simp at h
  | b :: Γ, a :: as, h, hb => by
    have h0 := hb b (by simp)
    have := ints_rel Γ as (by simpa using h) (fun c hc => hb c (List.mem_cons_of_mem _ hc))
    simp only [Ctx.chiTys, List.map_cons, h0.1, h0.2]
    exact .cons (.int a) this

/-- T4, part A: if `p'` is a linearization of `p` (in the sense of `LinRelProg`) and the entry
takes integers, the named machine on `p` and the positional machine on `p'` have the same
behaviour: every finished run of one is matched by a run of the other with the same trace and
the same outcome. -/
theorem linRelProg_sem (p p' : Prog) (args : List (BitVec 64)) (h : LinRelProg p p')
    (hmain : ∀ d, p.defs.head? = some d → ∀ b ∈ d.ctx, b.chi = .ext ∧ b.ty = .i64) :
    (∀ n, finishedNamed (Named.run p args n).res →
      ∃ m, (Pos.run p' args m).out = (Named.run p args n).out ∧
        sameOutcome (Named.run p args n).res (Pos.run p' args m).res) ∧
    (∀ m, finishedPos (Pos.run p' args m).res →
      ∃ n, (Pos.run p' args m).out = (Named.run p args n).out ∧
        sameOutcome (Named.run p args n).res (Pos.run p' args m).res) := by
  obtain ⟨hT, _, hdefs⟩ := h
  cases hd : p.defs with
  | nil =>
    constructor
    · intro n hf; simp [Named.run, hd, finishedNamed] at hf
    · intro m hf
      cases hd' : p'.defs with
      | nil => simp [Pos.run, hd', finishedPos] at hf
      | cons _ _ => rw [hd, hd'] at hdefs; simp [LinRelDefs] at hdefs
  | cons d ds =>
    cases hd' : p'.defs with
    | nil => rw [hd, hd'] at hdefs; simp [LinRelDefs] at hdefs
    | cons d' ds' =>
      have hdefs' := hdefs
      rw [hd, hd'] at hdefs'
      simp only [LinRelDefs] at hdefs'
      obtain ⟨⟨_, hctx, hnd, hlin⟩, _⟩ := hdefs'
      by_cases hlen : d.ctx.length = args.length
      · have hfr := ints_rel (T := p.types) (S := p.sigs) d.ctx args hlen (hmain d (by simp [hd]))
        obtain ⟨env, hb1, hb2, _⟩ := bindParams_rel d.ctx [] hfr hnd
        have hrel : StateRel p.types p.sigs ⟨d.body, env, []⟩ ⟨d'.ctx, args.map .int, d'.body⟩ :=
          ⟨d.ctx.ids, by rw [hctx]; exact hlin, by rw [hctx]; simpa using hb2⟩
        have hc : ¬ (d'.ctx.length ≠ args.length) := by rw [hctx]; simp [hlen]
        constructor
        · intro n hf
          simp only [Named.run, hd, hb1] at hf ⊢
          obtain ⟨m, hm1, hm2⟩ := sim_forward hT rfl hdefs n _ _ _ [] (Nat.le_refl _) hrel rfl hf
          exact ⟨m, by simpa [Pos.run, hd', if_neg hc] using hm1,
            by simpa [Pos.run, hd', if_neg hc] using hm2⟩
        · intro m hf
          simp only [Pos.run, hd', if_neg hc] at hf ⊢
          obtain ⟨n, hn1, hn2⟩ := sim_backward hT rfl hdefs m _ _ [] hrel rfl hf
          exact ⟨n, by simpa [Named.run, hd, hb1] using hn1, by simpa [Named.run, hd, hb1] using hn2⟩
      · constructor
        · intro n hf
          simp only [Named.run, hd] at hf
          cases hb : Named.bindParams d.ctx (args.map Named.Value.int) with
          | none => simp [hb, finishedNamed] at hf
          | some e => exact absurd (by simpa using bindParams_length _ _ _ hb) hlen
        · intro m hf
          have hc : d'.ctx.length ≠ args.length := by rw [hctx]; exact hlen
          simp [Pos.run, hd', hc, finishedPos] at hf

end runs

end Scc.AxCut.Sim
