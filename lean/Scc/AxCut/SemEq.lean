/-
  Scc.AxCut.SemEq — SPEC: what "same behaviour" means between the named AxCut machine
  (Scc/AxCut/SemNamed.lean) and the positional AxCut machine (Scc/AxCut/SemPos.lean), DESIGN.md §4:
  the runs the properties speak about are the finished ones (`done v`, or stuck with division by
  zero / overflow); two finished runs agree if they have the same trace and the same outcome.
  Core imports only.
-/
import Scc.AxCut.SemPos
import Scc.AxCut.SemNamed

namespace Scc.AxCut.Sim

open Scc.AxCut

/-- outcomes the properties speak about (named machine) -/
def finishedNamed : Named.Res → Prop
  | .done _ => True
  | .stuck why => why = "divByZero" ∨ why = "overflow"
  | .outOfFuel => False

/-- outcomes the properties speak about (positional machine) -/
def finishedPos : Pos.Result → Prop
  | .done _ => True
  | .stuck why => why = .divByZero ∨ why = .overflow
  | .outOfFuel => False

/-- same outcome: same result value, or the same arithmetic fault -/
def sameOutcome : Named.Res → Pos.Result → Prop
  | .done v, .done w => v = w
  | .stuck why, .stuck why' =>
    (why = "divByZero" ∧ why' = .divByZero) ∨ (why = "overflow" ∧ why' = .overflow)
  | _, _ => False

end Scc.AxCut.Sim
