/-
  Scc.AxCut.LinProofs — proof file (C05, T2/T3): the linearizer maps well-typed non-linear AxCut
  to ordered-linearly typed AxCut.

  Structure:
  * `WTA` — the named typing judgement on ANNOTATED statements that follows the linearizer: the
    continuation of a binding statement is typed under the context restricted to the annotated
    set (that is all that T3 needs from the free-variable annotation), binders avoid a set `A` of
    ids that were ever in scope (needed by the renaming of `Create::linearize`);
  * T2 `freeVars_WTA` — `freeVars` turns a `WT` statement into a `WTA` statement;
  * `WTA_rename` — `WTA` is stable under the id-substitutions built by `freshen`;
  * T3 `linearize_ok` — induction on the fuel.
-/
import Scc.AxCut.LinLemmas
import Scc.AxCut.WfNonLinear

namespace Scc.AxCut

/-! ## contexts as sets of keys -/

theorem HasVar.mem_ids {Γ : Ctx} {x chi ty} (h : HasVar Γ x chi ty) : x ∈ Γ.ids := by
  obtain ⟨b, hb, rfl, _, _⟩ := h
  exact List.mem_map.2 ⟨b, hb, rfl⟩

theorem hasVar_of_mem {Γ : Ctx} {b : Binding} (h : b ∈ Γ) : HasVar Γ b.var.id b.chi b.ty :=
  ⟨b, h, rfl, rfl, rfl⟩

theorem exists_hasVar_of_mem_ids {Γ : Ctx} {x : Nat} (h : x ∈ Γ.ids) : ∃ chi ty, HasVar Γ x chi ty := by
  obtain ⟨b, hb, rfl⟩ := List.mem_map.1 h
  exact ⟨b.chi, b.ty, hasVar_of_mem hb⟩

theorem hasVar_append {Γ Δ : Ctx} {x chi ty} :
    HasVar (Γ ++ Δ) x chi ty ↔ HasVar Γ x chi ty ∨ HasVar Δ x chi ty := by
  simp only [HasVar, List.mem_append]
  constructor
  · rintro ⟨b, hb | hb, h⟩
    · exact Or.inl ⟨b, hb, h⟩
    · exact Or.inr ⟨b, hb, h⟩
  · rintro (⟨b, hb, h⟩ | ⟨b, hb, h⟩)
    · exact ⟨b, Or.inl hb, h⟩
    · exact ⟨b, Or.inr hb, h⟩

theorem hasVar_singleton {b : Binding} {x chi ty} :
    HasVar [b] x chi ty ↔ b.var.id = x ∧ b.chi = chi ∧ b.ty = ty := by
  simp [HasVar]

theorem hasVar_filter {Γ : Ctx} {S : List Nat} {x chi ty} :
    HasVar (Γ.filter (inSet S)) x chi ty ↔ HasVar Γ x chi ty ∧ x ∈ S := by
  simp only [HasVar, List.mem_filter, inSet, List.contains_iff_mem]
  constructor
  · rintro ⟨b, ⟨hb, hs⟩, rfl, h⟩
    exact ⟨⟨b, hb, rfl, h⟩, hs⟩
  · rintro ⟨⟨b, hb, rfl, h⟩, hs⟩
    exact ⟨b, ⟨hb, hs⟩, rfl, h⟩

theorem hasVar_perm {Γ Γ' : Ctx} (h : Γ.Perm Γ') {x chi ty} :
    HasVar Γ x chi ty ↔ HasVar Γ' x chi ty := by
  simp only [HasVar, h.mem_iff]

theorem hasVar_filterBySet {Γ : Ctx} {S : List Nat} {x chi ty} :
    HasVar (filterBySet Γ S) x chi ty ↔ HasVar Γ x chi ty ∧ x ∈ S := by
  rw [hasVar_perm (filterBySet_perm Γ S), hasVar_filter]

theorem eq_of_nodup_map {α β} (f : α → β) : ∀ (l : List α), (l.map f).Nodup →
    ∀ a b, a ∈ l → b ∈ l → f a = f b → a = b := by
  intro l
  induction l with
  | nil => intro _ a b ha; cases ha
  | cons x xs ih =>
    intro hnd a b ha hb hf
    simp only [List.map_cons, List.nodup_cons] at hnd
    rcases List.mem_cons.1 ha with ha1 | ha1 <;> rcases List.mem_cons.1 hb with hb1 | hb1
    · rw [ha1, hb1]
    · subst ha1; exact absurd (by rw [hf]; exact List.mem_map.2 ⟨b, hb1, rfl⟩) hnd.1
    · subst hb1; exact absurd (by rw [← hf]; exact List.mem_map.2 ⟨a, ha1, rfl⟩) hnd.1
    · exact ih hnd.2 a b ha1 hb1 hf

theorem HasVar.unique {Γ : Ctx} (hn : NodupIds Γ) {x c t c' t'}
    (h : HasVar Γ x c t) (h' : HasVar Γ x c' t') : c = c' ∧ t = t' := by
  obtain ⟨b, hb, e, rfl, rfl⟩ := h
  obtain ⟨b', hb', e', rfl, rfl⟩ := h'
  have : b = b' := by
    apply eq_of_nodup_map (fun b : Binding => b.var.id) Γ hn b b' hb hb'
    show b.var.id = b'.var.id
    rw [e, e']
  subst this
  exact ⟨rfl, rfl⟩

/-- same keys (id, kind, type), as sets -/
def KeysEq (Γ Γ' : Ctx) : Prop := ∀ x chi ty, HasVar Γ x chi ty ↔ HasVar Γ' x chi ty

def KeysSub (Γ Γ' : Ctx) : Prop := ∀ x chi ty, HasVar Γ x chi ty → HasVar Γ' x chi ty

theorem KeysEq.refl (Γ : Ctx) : KeysEq Γ Γ := fun _ _ _ => Iff.rfl
theorem KeysEq.symm {Γ Γ' : Ctx} (h : KeysEq Γ Γ') : KeysEq Γ' Γ := fun x c t => (h x c t).symm
theorem KeysEq.trans {Γ Γ' Γ'' : Ctx} (h : KeysEq Γ Γ') (h' : KeysEq Γ' Γ'') : KeysEq Γ Γ'' :=
  fun x c t => (h x c t).trans (h' x c t)

theorem KeysEq.of_perm {Γ Γ' : Ctx} (h : Γ.Perm Γ') : KeysEq Γ Γ' := fun _ _ _ => hasVar_perm h

theorem KeysEq.append {Γ Γ' Δ Δ' : Ctx} (h : KeysEq Γ Γ') (h' : KeysEq Δ Δ') :
    KeysEq (Γ ++ Δ) (Γ' ++ Δ') := by
  intro x c t; rw [hasVar_append, hasVar_append, h x c t, h' x c t]

theorem KeysEq.filter {Γ Γ' : Ctx} (h : KeysEq Γ Γ') (S : List Nat) :
    KeysEq (Γ.filter (inSet S)) (Γ'.filter (inSet S)) := by
  intro x c t; rw [hasVar_filter, hasVar_filter, h x c t]

theorem KeysEq.mem_ids {Γ Γ' : Ctx} (h : KeysEq Γ Γ') {x : Nat} : x ∈ Γ.ids ↔ x ∈ Γ'.ids := by
  constructor
  · intro hx; obtain ⟨c, t, hv⟩ := exists_hasVar_of_mem_ids hx; exact ((h x c t).1 hv).mem_ids
  · intro hx; obtain ⟨c, t, hv⟩ := exists_hasVar_of_mem_ids hx; exact ((h x c t).2 hv).mem_ids

theorem KeysEq.argsIn {Γ Γ' args : Ctx} (h : KeysEq Γ Γ') (ha : ArgsIn Γ args) : ArgsIn Γ' args :=
  fun a hm => (h _ _ _).1 (ha a hm)

theorem keysEq_filterBySet (Γ : Ctx) (S : List Nat) : KeysEq (filterBySet Γ S) (Γ.filter (inSet S)) :=
  KeysEq.of_perm (filterBySet_perm Γ S)

theorem ids_append (Γ Δ : Ctx) : (Γ ++ Δ).ids = Γ.ids ++ Δ.ids := by simp [Ctx.ids]

/-! ## the annotated typing judgement followed by the linearizer -/

mutual
  def WTA (T : List TypeDecl) (S : Sigs) (M : Nat) : Stmt → List Nat → Ctx → Prop
    | .subst _ _, _, _ => False
    | .call l args, _, Γ =>
      ∃ params, findSig S l = some params ∧ (args.chiTys = params.chiTys ∧ ArgsIn Γ args)
    | .letS x ty tag args next fv, A, Γ =>
      (∃ sig, lookupXtor T ty tag = some sig ∧ args.chiTys = sig.chiTys) ∧ ArgsIn Γ args ∧
        x.id ∉ A ∧ x.id ≤ M ∧
        ∃ Sn, fv = some Sn ∧ (∀ y ∈ Sn, y ≤ M) ∧
          WTA T S M next (A ++ [x.id]) (Γ.filter (inSet Sn) ++ [⟨x, .prd, ty⟩])
    | .switch x ty cs fv, A, Γ =>
      HasVar Γ x.id .prd ty ∧
        (∃ d, lookupTypeDecl T ty = some d ∧ ClausesMatch d.xtors cs) ∧
        ∃ Sc, fv = some Sc ∧ (∀ y ∈ Sc, y ≤ M) ∧ WTAClauses T S M cs A (Γ.filter (inSet Sc)) []
    | .create x ty _ cs next fc fn, A, Γ =>
      (∃ d, lookupTypeDecl T ty = some d ∧ ClausesMatch d.xtors cs) ∧
        x.id ∉ A ∧ x.id ≤ M ∧
        ∃ Sc Sn, fc = some Sc ∧ fn = some Sn ∧ (∀ y ∈ Sc, y ≤ M) ∧ (∀ y ∈ Sn, y ≤ M) ∧
          WTAClauses T S M cs A [] (Γ.filter (inSet Sc)) ∧
          WTA T S M next (A ++ [x.id]) (Γ.filter (inSet Sn) ++ [⟨x, .cns, ty⟩])
    | .invoke x tag ty args, _, Γ =>
      HasVar Γ x.id .cns ty ∧
        (∃ sig, lookupXtor T ty tag = some sig ∧ args.chiTys = sig.chiTys) ∧ ArgsIn Γ args
    | .lit x _ next fv, A, Γ =>
      x.id ∉ A ∧ x.id ≤ M ∧
        ∃ Sn, fv = some Sn ∧ (∀ y ∈ Sn, y ≤ M) ∧
          WTA T S M next (A ++ [x.id]) (Γ.filter (inSet Sn) ++ [⟨x, .ext, .i64⟩])
    | .op x a _ b next fv, A, Γ =>
      HasVar Γ a.id .ext .i64 ∧ HasVar Γ b.id .ext .i64 ∧ x.id ∉ A ∧ x.id ≤ M ∧
        ∃ Sn, fv = some Sn ∧ (∀ y ∈ Sn, y ≤ M) ∧
          WTA T S M next (A ++ [x.id]) (Γ.filter (inSet (b.id :: a.id :: Sn)) ++ [⟨x, .ext, .i64⟩])
    | .print _ a next fv, A, Γ =>
      HasVar Γ a.id .ext .i64 ∧
        ∃ Sn, fv = some Sn ∧ (∀ y ∈ Sn, y ≤ M) ∧ WTA T S M next A (Γ.filter (inSet (a.id :: Sn)))
    | .ifc _ a b t e, A, Γ =>
      HasVar Γ a.id .ext .i64 ∧ (∀ b', b = some b' → HasVar Γ b'.id .ext .i64) ∧
        WTA T S M t A Γ ∧ WTA T S M e A Γ
    | .exit x, _, Γ => HasVar Γ x.id .ext .i64
  def WTAClauses (T : List TypeDecl) (S : Sigs) (M : Nat) : Clauses → List Nat → Ctx → Ctx → Prop
    | .nil, _, _, _ => True
    | .cons _ ctx body rest, A, pre, post =>
      NodupIds ctx ∧ (∀ i ∈ ctx.ids, i ∉ A ∧ i ≤ M) ∧
        WTA T S M body (A ++ ctx.ids) (pre ++ ctx ++ post) ∧ WTAClauses T S M rest A pre post
end

mutual
  /-- `WTA` depends on the context only through its set of keys -/
  theorem WTA_congr (T : List TypeDecl) (S : Sigs) (M : Nat) :
      ∀ (s : Stmt) (A : List Nat) (Γ Γ' : Ctx), KeysEq Γ Γ' → WTA T S M s A Γ → WTA T S M s A Γ'
    | .subst _ _, _, _, _, _, h => by simp [WTA] at h
    | .call l args, A, Γ, Γ', hk, h => by
      simp only [WTA] at h ⊢
      obtain ⟨params, h1, h2, h3⟩ := h
      exact ⟨params, h1, h2, hk.argsIn h3⟩
    | .letS x ty tag args next fv, A, Γ, Γ', hk, h => by
      simp only [WTA] at h ⊢
      obtain ⟨h1, h2, h3, h4, Sn, h5, h6, h7⟩ := h
      exact ⟨h1, hk.argsIn h2, h3, h4, Sn, h5, h6,
        WTA_congr T S M next _ _ _ ((hk.filter Sn).append (KeysEq.refl _)) h7⟩
    | .switch x ty cs fv, A, Γ, Γ', hk, h => by
      simp only [WTA] at h ⊢
      obtain ⟨h1, h2, Sc, h3, h4, h5⟩ := h
      exact ⟨(hk _ _ _).1 h1, h2, Sc, h3, h4,
        WTAClauses_congr T S M cs A _ _ _ _ (hk.filter Sc) (KeysEq.refl _) h5⟩
    | .create x ty env cs next fc fn, A, Γ, Γ', hk, h => by
      simp only [WTA] at h ⊢
      obtain ⟨h1, h2, h3, Sc, Sn, h4, h5, h6, h7, h8, h9⟩ := h
      exact ⟨h1, h2, h3, Sc, Sn, h4, h5, h6, h7,
        WTAClauses_congr T S M cs A _ _ _ _ (KeysEq.refl _) (hk.filter Sc) h8,
        WTA_congr T S M next _ _ _ ((hk.filter Sn).append (KeysEq.refl _)) h9⟩
    | .invoke x tag ty args, A, Γ, Γ', hk, h => by
      simp only [WTA] at h ⊢
      obtain ⟨h1, h2, h3⟩ := h
      exact ⟨(hk _ _ _).1 h1, h2, hk.argsIn h3⟩
    | .lit x n next fv, A, Γ, Γ', hk, h => by
      simp only [WTA] at h ⊢
      obtain ⟨h1, h2, Sn, h3, h4, h5⟩ := h
      exact ⟨h1, h2, Sn, h3, h4,
        WTA_congr T S M next _ _ _ ((hk.filter Sn).append (KeysEq.refl _)) h5⟩
    | .op x a o b next fv, A, Γ, Γ', hk, h => by
      simp only [WTA] at h ⊢
      obtain ⟨h1, h2, h3, h4, Sn, h5, h6, h7⟩ := h
      exact ⟨(hk _ _ _).1 h1, (hk _ _ _).1 h2, h3, h4, Sn, h5, h6,
        WTA_congr T S M next _ _ _ ((hk.filter _).append (KeysEq.refl _)) h7⟩
    | .print nl a next fv, A, Γ, Γ', hk, h => by
      simp only [WTA] at h ⊢
      obtain ⟨h1, Sn, h2, h3, h4⟩ := h
      exact ⟨(hk _ _ _).1 h1, Sn, h2, h3, WTA_congr T S M next _ _ _ (hk.filter _) h4⟩
    | .ifc s a b t e, A, Γ, Γ', hk, h => by
      simp only [WTA] at h ⊢
      obtain ⟨h1, h2, h3, h4⟩ := h
      exact ⟨(hk _ _ _).1 h1, fun b' hb => (hk _ _ _).1 (h2 b' hb),
        WTA_congr T S M t _ _ _ hk h3, WTA_congr T S M e _ _ _ hk h4⟩
    | .exit x, A, Γ, Γ', hk, h => by
      simp only [WTA] at h ⊢
      exact (hk _ _ _).1 h
  theorem WTAClauses_congr (T : List TypeDecl) (S : Sigs) (M : Nat) :
      ∀ (cs : Clauses) (A : List Nat) (pre pre' post post' : Ctx), KeysEq pre pre' → KeysEq post post' →
        WTAClauses T S M cs A pre post → WTAClauses T S M cs A pre' post'
    | .nil, _, _, _, _, _, _, _, _ => by simp [WTAClauses]
    | .cons x ctx body rest, A, pre, pre', post, post', hk, hk', h => by
      simp only [WTAClauses] at h ⊢
      obtain ⟨h1, h2, h3, h4⟩ := h
      exact ⟨h1, h2,
        WTA_congr T S M body _ _ _ ((hk.append (KeysEq.refl _)).append hk') h3,
        WTAClauses_congr T S M rest A _ _ _ _ hk hk' h4⟩
end

mutual
  theorem WTA_mono (T : List TypeDecl) (S : Sigs) {M M' : Nat} (hM : M ≤ M') :
      ∀ (s : Stmt) (A : List Nat) (Γ : Ctx), WTA T S M s A Γ → WTA T S M' s A Γ
    | .subst _ _, _, _, h => by simp [WTA] at h
    | .call l args, A, Γ, h => by simpa only [WTA] using h
    | .letS x ty tag args next fv, A, Γ, h => by
      simp only [WTA] at h ⊢
      obtain ⟨h1, h2, h3, h4, Sn, h5, h6, h7⟩ := h
      exact ⟨h1, h2, h3, by omega, Sn, h5, fun y hy => Nat.le_trans (h6 y hy) hM,
        WTA_mono T S hM next _ _ h7⟩
    | .switch x ty cs fv, A, Γ, h => by
      simp only [WTA] at h ⊢
      obtain ⟨h1, h2, Sc, h3, h4, h5⟩ := h
      exact ⟨h1, h2, Sc, h3, fun y hy => Nat.le_trans (h4 y hy) hM, WTAClauses_mono T S hM cs _ _ _ h5⟩
    | .create x ty env cs next fc fn, A, Γ, h => by
      simp only [WTA] at h ⊢
      obtain ⟨h1, h2, h3, Sc, Sn, h4, h5, h6, h7, h8, h9⟩ := h
      exact ⟨h1, h2, by omega, Sc, Sn, h4, h5, fun y hy => Nat.le_trans (h6 y hy) hM,
        fun y hy => Nat.le_trans (h7 y hy) hM, WTAClauses_mono T S hM cs _ _ _ h8,
        WTA_mono T S hM next _ _ h9⟩
    | .invoke x tag ty args, A, Γ, h => by simpa only [WTA] using h
    | .lit x n next fv, A, Γ, h => by
      simp only [WTA] at h ⊢
      obtain ⟨h1, h2, Sn, h3, h4, h5⟩ := h
      exact ⟨h1, by omega, Sn, h3, fun y hy => Nat.le_trans (h4 y hy) hM, WTA_mono T S hM next _ _ h5⟩
    | .op x a o b next fv, A, Γ, h => by
      simp only [WTA] at h ⊢
      obtain ⟨h1, h2, h3, h4, Sn, h5, h6, h7⟩ := h
      exact ⟨h1, h2, h3, by omega, Sn, h5, fun y hy => Nat.le_trans (h6 y hy) hM,
        WTA_mono T S hM next _ _ h7⟩
    | .print nl a next fv, A, Γ, h => by
      simp only [WTA] at h ⊢
      obtain ⟨h1, Sn, h2, h3, h4⟩ := h
      exact ⟨h1, Sn, h2, fun y hy => Nat.le_trans (h3 y hy) hM, WTA_mono T S hM next _ _ h4⟩
    | .ifc s a b t e, A, Γ, h => by
      simp only [WTA] at h ⊢
      obtain ⟨h1, h2, h3, h4⟩ := h
      exact ⟨h1, h2, WTA_mono T S hM t _ _ h3, WTA_mono T S hM e _ _ h4⟩
    | .exit x, A, Γ, h => by simpa only [WTA] using h
  theorem WTAClauses_mono (T : List TypeDecl) (S : Sigs) {M M' : Nat} (hM : M ≤ M') :
      ∀ (cs : Clauses) (A : List Nat) (pre post : Ctx),
        WTAClauses T S M cs A pre post → WTAClauses T S M' cs A pre post
    | .nil, _, _, _, _ => by simp [WTAClauses]
    | .cons x ctx body rest, A, pre, post, h => by
      simp only [WTAClauses] at h ⊢
      obtain ⟨h1, h2, h3, h4⟩ := h
      exact ⟨h1, fun i hi => ⟨(h2 i hi).1, Nat.le_trans (h2 i hi).2 hM⟩,
        WTA_mono T S hM body _ _ h3, WTAClauses_mono T S hM rest _ _ _ h4⟩
end

/-! ## renaming -/

theorem hasVar_subst (σ : Subst) {Γ : Ctx} {x chi ty} (h : HasVar Γ x chi ty) :
    HasVar (substCtx σ Γ) (substId σ x) chi ty := by
  obtain ⟨b, hb, rfl, rfl, rfl⟩ := h
  exact ⟨substBinding σ b, List.mem_map.2 ⟨b, hb, rfl⟩, substBinding_id σ b, rfl, rfl⟩

theorem argsIn_subst (σ : Subst) {Γ args : Ctx} (h : ArgsIn Γ args) :
    ArgsIn (substCtx σ Γ) (substCtx σ args) := by
  intro a ha
  obtain ⟨a0, ha0, rfl⟩ := List.mem_map.1 ha
  rw [substBinding_id]
  exact hasVar_subst σ (h a0 ha0)

theorem substCtx_fix {σ : Subst} {A : List Nat} {M M2 : Nat} (g : GoodSubst σ A M M2) {Δ : Ctx}
    (h : ∀ i ∈ Δ.ids, i ∉ A) : substCtx σ Δ = Δ := by
  unfold substCtx
  conv => rhs; rw [← List.map_id Δ]
  apply List.map_congr_left
  intro b hb
  have := g.fix b.var (h _ (List.mem_map.2 ⟨b, hb, rfl⟩))
  simp [substBinding, this]

theorem filter_subst {σ : Subst} {A : List Nat} {M M2 : Nat} (g : GoodSubst σ A M M2) {Γ : Ctx}
    {Sn : List Nat} (hΓ : ∀ i ∈ Γ.ids, i ≤ M) (hS : ∀ y ∈ Sn, y ≤ M) :
    (substCtx σ Γ).filter (inSet (Sn.map (substId σ))) = substCtx σ (Γ.filter (inSet Sn)) := by
  unfold substCtx
  rw [List.filter_map]
  congr 1
  apply List.filter_congr
  intro b hb
  simp only [Function.comp, inSet, substBinding_id]
  have hbM : b.var.id ≤ M := hΓ _ (List.mem_map.2 ⟨b, hb, rfl⟩)
  rw [Bool.eq_iff_iff]
  simp only [List.contains_iff_mem, List.mem_map]
  constructor
  · rintro ⟨y, hy, e⟩
    have := g.inj y b.var.id (hS y hy) hbM e
    rwa [← this]
  · intro h; exact ⟨_, h, rfl⟩

theorem binder_not_mem_map {σ : Subst} {A : List Nat} {M M2 : Nat} (g : GoodSubst σ A M M2)
    (hA : ∀ a ∈ A, a ≤ M) {x : Nat} (hx : x ∉ A) (hxM : x ≤ M) : x ∉ A.map (substId σ) := by
  intro h
  obtain ⟨a, ha, e⟩ := List.mem_map.1 h
  rcases g.fresh a (hA a ha) with h' | h'
  · rw [h'] at e; exact hx (e ▸ ha)
  · omega

theorem clausesMatch_subst (σ : Subst) : ∀ (xs : List XtorSig) (cs : Clauses),
    ClausesMatch xs (substClauses σ cs) ↔ ClausesMatch xs cs
  | [], .nil => by simp [substClauses]
  | [], .cons _ _ _ _ => by simp [substClauses, ClausesMatch]
  | _ :: _, .nil => by simp [substClauses, ClausesMatch]
  | x :: xs, .cons n ctx body rest => by
    simp only [substClauses, ClausesMatch, clausesMatch_subst σ xs rest]

theorem map_append_singleton_fix {σ : Subst} {A : List Nat} {M M2 : Nat} (g : GoodSubst σ A M M2)
    {x : Nat} (hx : x ∉ A) : (A ++ [x]).map (substId σ) = A.map (substId σ) ++ [x] := by
  simp [g.fixId hx]

theorem map_append_fix {σ : Subst} {A : List Nat} {M M2 : Nat} (g : GoodSubst σ A M M2)
    {xs : List Nat} (hx : ∀ i ∈ xs, i ∉ A) : (A ++ xs).map (substId σ) = A.map (substId σ) ++ xs := by
  rw [List.map_append]
  congr 1
  conv => rhs; rw [← List.map_id xs]
  apply List.map_congr_left
  intro i hi
  simpa using g.fixId (hx i hi)

theorem ids_filter_le {Γ : Ctx} {M : Nat} (h : ∀ i ∈ Γ.ids, i ≤ M) (p : Binding → Bool) :
    ∀ i ∈ Ctx.ids (Γ.filter p), i ≤ M := by
  intro i hi
  obtain ⟨b, hb, rfl⟩ := List.mem_map.1 hi
  exact h _ (List.mem_map.2 ⟨b, (List.mem_filter.1 hb).1, rfl⟩)

theorem ids_le_append_singleton {Γ : Ctx} {M : Nat} (h : ∀ i ∈ Γ.ids, i ≤ M) {b : Binding}
    (hb : b.var.id ≤ M) : ∀ i ∈ Ctx.ids (Γ ++ [b]), i ≤ M := by
  intro i hi
  rw [ids_append] at hi
  rcases List.mem_append.1 hi with hi | hi
  · exact h i hi
  · simp [Ctx.ids] at hi; omega

theorem le_append_singleton {A : List Nat} {M : Nat} (h : ∀ a ∈ A, a ≤ M) {x : Nat} (hx : x ≤ M) :
    ∀ a ∈ A ++ [x], a ≤ M := by
  intro a ha
  rcases List.mem_append.1 ha with ha | ha
  · exact h a ha
  · simp at ha; omega

mutual
  /-- `WTA` is stable under the renamings built by `freshen` -/
  theorem WTA_rename (T : List TypeDecl) (S : Sigs) (σ : Subst) {M M2 : Nat} :
      ∀ (s : Stmt) (A : List Nat) (Γ : Ctx), GoodSubst σ A M M2 → (∀ a ∈ A, a ≤ M) →
        (∀ i ∈ Γ.ids, i ≤ M) → WTA T S M s A Γ →
        WTA T S M2 (substStmt σ s) (A.map (substId σ)) (substCtx σ Γ)
    | .subst _ _, _, _, _, _, _, h => by simp [WTA] at h
    | .call l args, A, Γ, g, hA, hΓ, h => by
      simp only [WTA, substStmt] at h ⊢
      obtain ⟨params, h1, h2, h3⟩ := h
      exact ⟨params, h1, by rw [substCtx_chiTys]; exact h2, argsIn_subst σ h3⟩
    | .letS x ty tag args next fv, A, Γ, g, hA, hΓ, h => by
      simp only [WTA, substStmt] at h ⊢
      obtain ⟨h1, h2, h3, h4, Sn, h5, h6, h7⟩ := h
      subst h5
      refine ⟨by rw [substCtx_chiTys]; exact h1, argsIn_subst σ h2, binder_not_mem_map g hA h3 h4,
        Nat.le_trans h4 g.le, Sn.map (substId σ), rfl, ?_, ?_⟩
      · intro y hy
        obtain ⟨y0, hy0, rfl⟩ := List.mem_map.1 hy
        exact g.bound y0 (h6 y0 hy0)
      · have ih := WTA_rename T S σ next (A ++ [x.id]) _
          (g.mono (fun a ha => List.mem_append_left _ ha)) (le_append_singleton hA h4)
          (ids_le_append_singleton (ids_filter_le hΓ _) (b := ⟨x, .prd, ty⟩) h4) h7
        rw [map_append_singleton_fix g h3, substCtx_append, ← filter_subst g hΓ h6] at ih
        have : substCtx σ [(⟨x, .prd, ty⟩ : Binding)] = [⟨x, .prd, ty⟩] :=
          substCtx_fix g (by simp [Ctx.ids]; exact h3)
        rwa [this] at ih
    | .switch x ty cs fv, A, Γ, g, hA, hΓ, h => by
      simp only [WTA, substStmt] at h ⊢
      obtain ⟨h1, ⟨d, hd, hm⟩, Sc, h3, h4, h5⟩ := h
      subst h3
      refine ⟨by rw [substIdent_id]; exact hasVar_subst σ h1,
        ⟨d, hd, (clausesMatch_subst σ _ _).2 hm⟩, Sc.map (substId σ), rfl, ?_, ?_⟩
      · intro y hy
        obtain ⟨y0, hy0, rfl⟩ := List.mem_map.1 hy
        exact g.bound y0 (h4 y0 hy0)
      · have ih := WTAClauses_rename T S σ cs A _ [] g hA
          (by simpa using ids_filter_le hΓ (inSet Sc)) h5
        rw [← filter_subst g hΓ h4] at ih
        exact ih
    | .create x ty env cs next fc fn, A, Γ, g, hA, hΓ, h => by
      simp only [WTA, substStmt] at h ⊢
      obtain ⟨⟨d, hd, hm⟩, h2, h3, Sc, Sn, h4, h5, h6, h7, h8, h9⟩ := h
      subst h4; subst h5
      refine ⟨⟨d, hd, (clausesMatch_subst σ _ _).2 hm⟩, binder_not_mem_map g hA h2 h3,
        Nat.le_trans h3 g.le, Sc.map (substId σ), Sn.map (substId σ), rfl, rfl, ?_, ?_, ?_, ?_⟩
      · intro y hy
        obtain ⟨y0, hy0, rfl⟩ := List.mem_map.1 hy
        exact g.bound y0 (h6 y0 hy0)
      · intro y hy
        obtain ⟨y0, hy0, rfl⟩ := List.mem_map.1 hy
        exact g.bound y0 (h7 y0 hy0)
      · have ih := WTAClauses_rename T S σ cs A [] _ g hA
          (by simpa using ids_filter_le hΓ (inSet Sc)) h8
        rw [← filter_subst g hΓ h6] at ih
        exact ih
      · have ih := WTA_rename T S σ next (A ++ [x.id]) _
          (g.mono (fun a ha => List.mem_append_left _ ha)) (le_append_singleton hA h3)
          (ids_le_append_singleton (ids_filter_le hΓ _) (b := ⟨x, .cns, ty⟩) h3) h9
        rw [map_append_singleton_fix g h2, substCtx_append, ← filter_subst g hΓ h7] at ih
        have : substCtx σ [(⟨x, .cns, ty⟩ : Binding)] = [⟨x, .cns, ty⟩] :=
          substCtx_fix g (by simp [Ctx.ids]; exact h2)
        rwa [this] at ih
    | .invoke x tag ty args, A, Γ, g, hA, hΓ, h => by
      simp only [WTA, substStmt] at h ⊢
      obtain ⟨h1, h2, h3⟩ := h
      exact ⟨by rw [substIdent_id]; exact hasVar_subst σ h1, by rw [substCtx_chiTys]; exact h2,
        argsIn_subst σ h3⟩
    | .lit x n next fv, A, Γ, g, hA, hΓ, h => by
      simp only [WTA, substStmt] at h ⊢
      obtain ⟨h1, h2, Sn, h3, h4, h5⟩ := h
      subst h3
      refine ⟨binder_not_mem_map g hA h1 h2, Nat.le_trans h2 g.le, Sn.map (substId σ), rfl, ?_, ?_⟩
      · intro y hy
        obtain ⟨y0, hy0, rfl⟩ := List.mem_map.1 hy
        exact g.bound y0 (h4 y0 hy0)
      · have ih := WTA_rename T S σ next (A ++ [x.id]) _
          (g.mono (fun a ha => List.mem_append_left _ ha)) (le_append_singleton hA h2)
          (ids_le_append_singleton (ids_filter_le hΓ _) (b := ⟨x, .ext, .i64⟩) h2) h5
        rw [map_append_singleton_fix g h1, substCtx_append, ← filter_subst g hΓ h4] at ih
        have : substCtx σ [(⟨x, .ext, .i64⟩ : Binding)] = [⟨x, .ext, .i64⟩] :=
          substCtx_fix g (by simp [Ctx.ids]; exact h1)
        rwa [this] at ih
    | .op x a o b next fv, A, Γ, g, hA, hΓ, h => by
      simp only [WTA, substStmt] at h ⊢
      obtain ⟨h1, h2, h3, h4, Sn, h5, h6, h7⟩ := h
      subst h5
      have haM : a.id ≤ M := hΓ _ h1.mem_ids
      have hbM : b.id ≤ M := hΓ _ h2.mem_ids
      have hS' : ∀ y ∈ b.id :: a.id :: Sn, y ≤ M := by
        intro y hy
        simp only [List.mem_cons] at hy
        rcases hy with rfl | rfl | hy
        · exact hbM
        · exact haM
        · exact h6 y hy
      refine ⟨by rw [substIdent_id]; exact hasVar_subst σ h1,
        by rw [substIdent_id]; exact hasVar_subst σ h2, binder_not_mem_map g hA h3 h4,
        Nat.le_trans h4 g.le, Sn.map (substId σ), rfl, ?_, ?_⟩
      · intro y hy
        obtain ⟨y0, hy0, rfl⟩ := List.mem_map.1 hy
        exact g.bound y0 (h6 y0 hy0)
      · have ih := WTA_rename T S σ next (A ++ [x.id]) _
          (g.mono (fun a ha => List.mem_append_left _ ha)) (le_append_singleton hA h4)
          (ids_le_append_singleton (ids_filter_le hΓ _) (b := ⟨x, .ext, .i64⟩) h4) h7
        rw [map_append_singleton_fix g h3, substCtx_append, ← filter_subst g hΓ hS'] at ih
        have : substCtx σ [(⟨x, .ext, .i64⟩ : Binding)] = [⟨x, .ext, .i64⟩] :=
          substCtx_fix g (by simp [Ctx.ids]; exact h3)
        rw [this] at ih
        simpa only [List.map_cons, substIdent_id] using ih
    | .print nl a next fv, A, Γ, g, hA, hΓ, h => by
      simp only [WTA, substStmt] at h ⊢
      obtain ⟨h1, Sn, h2, h3, h4⟩ := h
      subst h2
      have haM : a.id ≤ M := hΓ _ h1.mem_ids
      have hS' : ∀ y ∈ a.id :: Sn, y ≤ M := by
        intro y hy
        simp only [List.mem_cons] at hy
        rcases hy with rfl | hy
        · exact haM
        · exact h3 y hy
      refine ⟨by rw [substIdent_id]; exact hasVar_subst σ h1, Sn.map (substId σ), rfl, ?_, ?_⟩
      · intro y hy
        obtain ⟨y0, hy0, rfl⟩ := List.mem_map.1 hy
        exact g.bound y0 (h3 y0 hy0)
      · have ih := WTA_rename T S σ next A _ g hA (ids_filter_le hΓ _) h4
        rw [← filter_subst g hΓ hS'] at ih
        simpa only [List.map_cons, substIdent_id] using ih
    | .ifc s a b t e, A, Γ, g, hA, hΓ, h => by
      simp only [WTA, substStmt] at h ⊢
      obtain ⟨h1, h2, h3, h4⟩ := h
      refine ⟨by rw [substIdent_id]; exact hasVar_subst σ h1, ?_,
        WTA_rename T S σ t A Γ g hA hΓ h3, WTA_rename T S σ e A Γ g hA hΓ h4⟩
      intro b' hb'
      cases b with
      | none => simp at hb'
      | some b0 =>
        simp only [Option.map_some, Option.some.injEq] at hb'
        subst hb'
        rw [substIdent_id]; exact hasVar_subst σ (h2 b0 rfl)
    | .exit x, A, Γ, g, hA, hΓ, h => by
      simp only [WTA, substStmt] at h ⊢
      rw [substIdent_id]; exact hasVar_subst σ h
  theorem WTAClauses_rename (T : List TypeDecl) (S : Sigs) (σ : Subst) {M M2 : Nat} :
      ∀ (cs : Clauses) (A : List Nat) (pre post : Ctx), GoodSubst σ A M M2 → (∀ a ∈ A, a ≤ M) →
        (∀ i ∈ (pre ++ post).ids, i ≤ M) → WTAClauses T S M cs A pre post →
        WTAClauses T S M2 (substClauses σ cs) (A.map (substId σ)) (substCtx σ pre) (substCtx σ post)
    | .nil, _, _, _, _, _, _, _ => by simp [WTAClauses, substClauses]
    | .cons x ctx body rest, A, pre, post, g, hA, hΓ, h => by
      simp only [WTAClauses, substClauses] at h ⊢
      obtain ⟨h1, h2, h3, h4⟩ := h
      refine ⟨h1, fun i hi => ⟨binder_not_mem_map g hA (h2 i hi).1 (h2 i hi).2,
        Nat.le_trans (h2 i hi).2 g.le⟩, ?_, WTAClauses_rename T S σ rest A pre post g hA hΓ h4⟩
      have hA' : ∀ a ∈ A ++ ctx.ids, a ≤ M := by
        intro a ha
        rcases List.mem_append.1 ha with ha | ha
        · exact hA a ha
        · exact (h2 a ha).2
      have hΓ' : ∀ i ∈ (pre ++ ctx ++ post).ids, i ≤ M := by
        intro i hi
        simp only [ids_append, List.mem_append] at hi hΓ
        rcases hi with (hi | hi) | hi
        · exact hΓ i (Or.inl hi)
        · exact (h2 i hi).2
        · exact hΓ i (Or.inr hi)
      have ih := WTA_rename T S σ body (A ++ ctx.ids) _
        (g.mono (fun a ha => List.mem_append_left _ ha)) hA' hΓ' h3
      rw [map_append_fix g (fun i hi => (h2 i hi).1), substCtx_append, substCtx_append,
        substCtx_fix g (fun i hi => (h2 i hi).1)] at ih
      exact ih
end

/-! ## T2: the free-variable annotation -/

theorem fv_call (l args) : freeVars (.call l args) = (.call l args, args.ids) := by rw [freeVars]
theorem fv_let (v ty tag args next fv) : freeVars (.letS v ty tag args next fv) =
    (.letS v ty tag args (freeVars next).1 (some (freeVars next).2),
      args.ids ++ setRemove v.id (freeVars next).2) := by rw [freeVars]
theorem fv_switch (v ty cs fv) : freeVars (.switch v ty cs fv) =
    (.switch v ty (freeVarsClauses cs).1 (some (freeVarsClauses cs).2), v.id :: (freeVarsClauses cs).2) := by
  rw [freeVars]
theorem fv_create (v ty env cs next a b) : freeVars (.create v ty env cs next a b) =
    (.create v ty env (freeVarsClauses cs).1 (freeVars next).1 (some (freeVarsClauses cs).2)
      (some (freeVars next).2), (freeVarsClauses cs).2 ++ setRemove v.id (freeVars next).2) := by
  rw [freeVars]
theorem fv_invoke (v tag ty args) : freeVars (.invoke v tag ty args) =
    (.invoke v tag ty args, v.id :: args.ids) := by rw [freeVars]
theorem fv_lit (v n next fv) : freeVars (.lit v n next fv) =
    (.lit v n (freeVars next).1 (some (freeVars next).2), setRemove v.id (freeVars next).2) := by
  rw [freeVars]
theorem fv_op (v a o b next fv) : freeVars (.op v a o b next fv) =
    (.op v a o b (freeVars next).1 (some (freeVars next).2),
      b.id :: a.id :: setRemove v.id (freeVars next).2) := by rw [freeVars]
theorem fv_print (nl v next fv) : freeVars (.print nl v next fv) =
    (.print nl v (freeVars next).1 (some (freeVars next).2), v.id :: (freeVars next).2) := by
  rw [freeVars]
theorem fv_ifc (s a b t e) : freeVars (.ifc s a b t e) =
    (.ifc s a b (freeVars t).1 (freeVars e).1,
      (match b with | some b => [b.id] | none => []) ++ a.id :: ((freeVars e).2 ++ (freeVars t).2)) := by
  cases b <;> simp only [freeVars]
theorem fv_exit (v) : freeVars (.exit v) = (.exit v, [v.id]) := by rw [freeVars]
theorem fvc_nil : freeVarsClauses .nil = (.nil, []) := by rw [freeVarsClauses]
theorem fvc_cons (x ctx body rest) : freeVarsClauses (.cons x ctx body rest) =
    (.cons x ctx (freeVars body).1 (freeVarsClauses rest).1,
      (freeVarsClauses rest).2 ++ setRemoveAll ctx.ids (freeVars body).2) := by rw [freeVarsClauses]

theorem mem_setRemove {x y : Nat} {s : List Nat} : y ∈ setRemove x s ↔ y ∈ s ∧ y ≠ x := by
  simp [setRemove]

theorem mem_setRemoveAll {xs : List Nat} {y : Nat} {s : List Nat} :
    y ∈ setRemoveAll xs s ↔ y ∈ s ∧ y ∉ xs := by
  simp [setRemoveAll]

theorem argsIn_ids {Γ args : Ctx} (h : ArgsIn Γ args) : ∀ y ∈ args.ids, y ∈ Γ.ids := by
  intro y hy
  obtain ⟨a, ha, rfl⟩ := List.mem_map.1 hy
  exact (h a ha).mem_ids

theorem mem_ids_append_singleton {Γ : Ctx} {b : Binding} {y : Nat} :
    y ∈ Ctx.ids (Γ ++ [b]) ↔ y ∈ Γ.ids ∨ y = b.var.id := by
  simp [Ctx.ids]

mutual
  /-- the computed free variables are in scope -/
  theorem fv_sub (T : List TypeDecl) (S : Sigs) (M : Nat) :
      ∀ (s : Stmt) (Γ : Ctx), WT T S M s Γ → ∀ y ∈ (freeVars s).2, y ∈ Γ.ids
    | .subst _ _, _, h => by simp [WT] at h
    | .call l args, Γ, h => by
      simp only [WT] at h
      obtain ⟨_, _, _, h3⟩ := h
      rw [fv_call]; exact argsIn_ids h3
    | .letS x ty tag args next fv, Γ, h => by
      simp only [WT] at h
      obtain ⟨_, h2, _, h4⟩ := h
      rw [fv_let]
      intro y hy
      rcases List.mem_append.1 hy with hy | hy
      · exact argsIn_ids h2 y hy
      · obtain ⟨hy1, hy2⟩ := mem_setRemove.1 hy
        rcases mem_ids_append_singleton.1 (fv_sub T S M next _ h4 y hy1) with h | h
        · exact h
        · exact absurd h hy2
    | .switch x ty cs fv, Γ, h => by
      simp only [WT] at h
      obtain ⟨h1, _, h3⟩ := h
      rw [fv_switch]
      intro y hy
      rcases List.mem_cons.1 hy with rfl | hy
      · exact h1.mem_ids
      · exact fvClauses_sub T S M cs Γ h3 y hy
    | .create x ty env cs next fc fn, Γ, h => by
      simp only [WT] at h
      obtain ⟨_, h2, _, h4⟩ := h
      rw [fv_create]
      intro y hy
      rcases List.mem_append.1 hy with hy | hy
      · exact fvClauses_sub T S M cs Γ h2 y hy
      · obtain ⟨hy1, hy2⟩ := mem_setRemove.1 hy
        rcases mem_ids_append_singleton.1 (fv_sub T S M next _ h4 y hy1) with h | h
        · exact h
        · exact absurd h hy2
    | .invoke x tag ty args, Γ, h => by
      simp only [WT] at h
      obtain ⟨h1, _, h3⟩ := h
      rw [fv_invoke]
      intro y hy
      rcases List.mem_cons.1 hy with rfl | hy
      · exact h1.mem_ids
      · exact argsIn_ids h3 y hy
    | .lit x n next fv, Γ, h => by
      simp only [WT] at h
      obtain ⟨_, h2⟩ := h
      rw [fv_lit]
      intro y hy
      obtain ⟨hy1, hy2⟩ := mem_setRemove.1 hy
      rcases mem_ids_append_singleton.1 (fv_sub T S M next _ h2 y hy1) with h | h
      · exact h
      · exact absurd h hy2
    | .op x a o b next fv, Γ, h => by
      simp only [WT] at h
      obtain ⟨h1, h2, _, h4⟩ := h
      rw [fv_op]
      intro y hy
      simp only [List.mem_cons] at hy
      rcases hy with rfl | rfl | hy
      · exact h2.mem_ids
      · exact h1.mem_ids
      · obtain ⟨hy1, hy2⟩ := mem_setRemove.1 hy
        rcases mem_ids_append_singleton.1 (fv_sub T S M next _ h4 y hy1) with h | h
        · exact h
        · exact absurd h hy2
    | .print nl a next fv, Γ, h => by
      simp only [WT] at h
      obtain ⟨h1, h2⟩ := h
      rw [fv_print]
      intro y hy
      rcases List.mem_cons.1 hy with rfl | hy
      · exact h1.mem_ids
      · exact fv_sub T S M next Γ h2 y hy
    | .ifc s a b t e, Γ, h => by
      simp only [WT] at h
      obtain ⟨h1, h2, h3, h4⟩ := h
      rw [fv_ifc]
      intro y hy
      simp only [List.mem_append, List.mem_cons] at hy
      rcases hy with hy | rfl | hy | hy
      · cases b with
        | none => simp at hy
        | some b0 => simp at hy; subst hy; exact (h2 b0 rfl).mem_ids
      · exact h1.mem_ids
      · exact fv_sub T S M e Γ h4 y hy
      · exact fv_sub T S M t Γ h3 y hy
    | .exit x, Γ, h => by
      simp only [WT] at h
      rw [fv_exit]
      intro y hy
      simp at hy; subst hy; exact h.mem_ids
  theorem fvClauses_sub (T : List TypeDecl) (S : Sigs) (M : Nat) :
      ∀ (cs : Clauses) (Γ : Ctx), WTClauses T S M cs Γ → ∀ y ∈ (freeVarsClauses cs).2, y ∈ Γ.ids
    | .nil, _, _ => by rw [fvc_nil]; simp
    | .cons x ctx body rest, Γ, h => by
      simp only [WTClauses] at h
      obtain ⟨_, _, h3, h4⟩ := h
      rw [fvc_cons]
      intro y hy
      rcases List.mem_append.1 hy with hy | hy
      · exact fvClauses_sub T S M rest Γ h4 y hy
      · obtain ⟨hy1, hy2⟩ := mem_setRemoveAll.1 hy
        have := fv_sub T S M body _ h3 y hy1
        rw [ids_append] at this
        rcases List.mem_append.1 this with h | h
        · exact h
        · exact absurd h hy2
end

theorem hasVar_restrict {Γ' Γ : Ctx} (hs : KeysSub Γ' Γ) (hn : NodupIds Γ) {x c t}
    (h : HasVar Γ x c t) (hx : x ∈ Γ'.ids) : HasVar Γ' x c t := by
  obtain ⟨c', t', h'⟩ := exists_hasVar_of_mem_ids hx
  obtain ⟨rfl, rfl⟩ := HasVar.unique hn h (hs _ _ _ h')
  exact h'

theorem argsIn_restrict {Γ' Γ args : Ctx} (hs : KeysSub Γ' Γ) (hn : NodupIds Γ)
    (h : ArgsIn Γ args) (hx : ∀ y ∈ args.ids, y ∈ Γ'.ids) : ArgsIn Γ' args :=
  fun a ha => hasVar_restrict hs hn (h a ha) (hx _ (List.mem_map.2 ⟨a, ha, rfl⟩))

theorem mem_ids_filter {Γ : Ctx} {S : List Nat} {i : Nat} :
    i ∈ Ctx.ids (Γ.filter (inSet S)) ↔ i ∈ Γ.ids ∧ i ∈ S := by
  simp only [Ctx.ids, List.mem_map, List.mem_filter, inSet, List.contains_iff_mem]
  constructor
  · rintro ⟨b, ⟨hb, hs⟩, rfl⟩; exact ⟨⟨b, hb, rfl⟩, hs⟩
  · rintro ⟨⟨b, hb, rfl⟩, hs⟩; exact ⟨b, ⟨hb, hs⟩, rfl⟩

theorem keysSub_filter_append {Γ' Γ : Ctx} (hs : KeysSub Γ' Γ) (S : List Nat) (Δ : Ctx) :
    KeysSub (Γ'.filter (inSet S) ++ Δ) (Γ ++ Δ) := by
  intro x c t h
  rcases hasVar_append.1 h with h | h
  · exact hasVar_append.2 (Or.inl (hs _ _ _ (hasVar_filter.1 h).1))
  · exact hasVar_append.2 (Or.inr h)

theorem nodupIds_append_singleton {Γ : Ctx} {b : Binding} (hn : NodupIds Γ) (hb : b.var.id ∉ Γ.ids) :
    NodupIds (Γ ++ [b]) := by
  unfold NodupIds at *
  rw [ids_append]
  refine List.nodup_append.2 ⟨hn, by simp [Ctx.ids], ?_⟩
  intro a ha c hc
  simp [Ctx.ids] at hc
  subst hc
  intro e; subst e; exact hb ha

theorem nodupIds_append {Γ Δ : Ctx} (hn : NodupIds Γ) (hd : NodupIds Δ)
    (hdisj : ∀ i ∈ Δ.ids, i ∉ Γ.ids) : NodupIds (Γ ++ Δ) := by
  unfold NodupIds at *
  rw [ids_append]
  refine List.nodup_append.2 ⟨hn, hd, ?_⟩
  intro a ha c hc e
  subst e
  exact hdisj a hc ha

theorem clausesMatch_freeVars : ∀ (xs : List XtorSig) (cs : Clauses),
    ClausesMatch xs (freeVarsClauses cs).1 ↔ ClausesMatch xs cs
  | [], .nil => by rw [fvc_nil]
  | [], .cons _ _ _ _ => by rw [fvc_cons]; simp [ClausesMatch]
  | _ :: _, .nil => by rw [fvc_nil]
  | x :: xs, .cons n ctx body rest => by
    rw [fvc_cons]; simp only [ClausesMatch, clausesMatch_freeVars xs rest]

theorem fv_next_in {Γ' : Ctx} {Sn full : List Nat} {x : Ident} {chi : Chi} {ty : Ty}
    (hfull : ∀ y ∈ full, y ∈ Γ'.ids) (hsub : ∀ y, y ∈ Sn → y ≠ x.id → y ∈ full) :
    ∀ y ∈ Sn, y ∈ Ctx.ids (Γ'.filter (inSet Sn) ++ [⟨x, chi, ty⟩]) := by
  intro y hy
  rw [mem_ids_append_singleton]
  by_cases e : y = x.id
  · exact Or.inr e
  · exact Or.inl (mem_ids_filter.2 ⟨hfull y (hsub y hy e), hy⟩)

mutual
  /-- T2: the annotation computed by `freeVars` is sound: the annotated statement is typed under
  every sub-context that contains its free variables, with the continuation of each binding
  statement typed under the context restricted to the annotated set. -/
  theorem freeVars_WTA (T : List TypeDecl) (S : Sigs) (M : Nat) :
      ∀ (s : Stmt) (Γ : Ctx), WT T S M s Γ → NodupIds Γ → (∀ i ∈ Γ.ids, i ≤ M) →
        ∀ Γ', KeysSub Γ' Γ → (∀ y ∈ (freeVars s).2, y ∈ Γ'.ids) →
        WTA T S M (freeVars s).1 Γ.ids Γ'
    | .subst _ _, _, h, _, _, _, _, _ => by simp [WT] at h
    | .call l args, Γ, h, hn, hM, Γ', hs, hfv => by
      simp only [WT] at h
      obtain ⟨params, h1, h2, h3⟩ := h
      rw [fv_call] at hfv ⊢
      simp only [WTA]
      exact ⟨params, h1, h2, argsIn_restrict hs hn h3 hfv⟩
    | .letS x ty tag args next fv, Γ, h, hn, hM, Γ', hs, hfv => by
      simp only [WT] at h
      obtain ⟨h1, h2, ⟨h3, h3'⟩, h4⟩ := h
      rw [fv_let] at hfv ⊢
      simp only [WTA]
      have hn1 : NodupIds (Γ ++ [⟨x, .prd, ty⟩]) := nodupIds_append_singleton hn h3
      have hM1 := ids_le_append_singleton hM (b := ⟨x, .prd, ty⟩) h3'
      refine ⟨h1, argsIn_restrict hs hn h2 (fun y hy => hfv y (List.mem_append_left _ hy)), h3, h3',
        _, rfl, fun y hy => hM1 y (fv_sub T S M next _ h4 y hy), ?_⟩
      have ih := freeVars_WTA T S M next _ h4 hn1 hM1 _ (keysSub_filter_append hs _ _)
        (fv_next_in hfv (fun y hy e => List.mem_append_right _ (mem_setRemove.2 ⟨hy, e⟩)))
      rwa [ids_append] at ih
    | .switch x ty cs fv, Γ, h, hn, hM, Γ', hs, hfv => by
      simp only [WT] at h
      obtain ⟨h1, h2, h3⟩ := h
      rw [fv_switch] at hfv ⊢
      simp only [WTA]
      refine ⟨hasVar_restrict hs hn h1 (hfv _ (by simp)),
        by
          obtain ⟨d, hd, hm⟩ := h2
          exact ⟨d, hd, (clausesMatch_freeVars _ _).2 hm⟩,
        _, rfl, fun y hy => hM y (fvClauses_sub T S M cs Γ h3 y hy), ?_⟩
      · apply freeVarsClauses_WTA T S M cs Γ h3 hn hM
        · intro y c t hv
          rw [List.append_nil] at hv
          exact hs _ _ _ (hasVar_filter.1 hv).1
        · intro y hy
          rw [List.append_nil]
          exact mem_ids_filter.2 ⟨hfv y (List.mem_cons_of_mem _ hy), hy⟩
    | .create x ty env cs next fc fn, Γ, h, hn, hM, Γ', hs, hfv => by
      simp only [WT] at h
      obtain ⟨h1, h2, ⟨h3, h3'⟩, h4⟩ := h
      rw [fv_create] at hfv ⊢
      simp only [WTA]
      have hn1 : NodupIds (Γ ++ [⟨x, .cns, ty⟩]) := nodupIds_append_singleton hn h3
      have hM1 := ids_le_append_singleton hM (b := ⟨x, .cns, ty⟩) h3'
      refine ⟨by
          obtain ⟨d, hd, hm⟩ := h1
          exact ⟨d, hd, (clausesMatch_freeVars _ _).2 hm⟩, h3, h3', _, _, rfl, rfl,
        fun y hy => hM y (fvClauses_sub T S M cs Γ h2 y hy),
        fun y hy => hM1 y (fv_sub T S M next _ h4 y hy), ?_, ?_⟩
      · apply freeVarsClauses_WTA T S M cs Γ h2 hn hM
        · intro y c t hv
          rw [List.nil_append] at hv
          exact hs _ _ _ (hasVar_filter.1 hv).1
        · intro y hy
          rw [List.nil_append]
          exact mem_ids_filter.2 ⟨hfv y (List.mem_append_left _ hy), hy⟩
      · have ih := freeVars_WTA T S M next _ h4 hn1 hM1 _ (keysSub_filter_append hs _ _)
          (fv_next_in hfv (fun y hy e => List.mem_append_right _ (mem_setRemove.2 ⟨hy, e⟩)))
        rwa [ids_append] at ih
    | .invoke x tag ty args, Γ, h, hn, hM, Γ', hs, hfv => by
      simp only [WT] at h
      obtain ⟨h1, h2, h3⟩ := h
      rw [fv_invoke] at hfv ⊢
      simp only [WTA]
      exact ⟨hasVar_restrict hs hn h1 (hfv _ (by simp)), h2,
        argsIn_restrict hs hn h3 (fun y hy => hfv y (List.mem_cons_of_mem _ hy))⟩
    | .lit x n next fv, Γ, h, hn, hM, Γ', hs, hfv => by
      simp only [WT] at h
      obtain ⟨⟨h3, h3'⟩, h4⟩ := h
      rw [fv_lit] at hfv ⊢
      simp only [WTA]
      have hn1 : NodupIds (Γ ++ [⟨x, .ext, .i64⟩]) := nodupIds_append_singleton hn h3
      have hM1 := ids_le_append_singleton hM (b := ⟨x, .ext, .i64⟩) h3'
      refine ⟨h3, h3', _, rfl, fun y hy => hM1 y (fv_sub T S M next _ h4 y hy), ?_⟩
      have ih := freeVars_WTA T S M next _ h4 hn1 hM1 _ (keysSub_filter_append hs _ _)
        (fv_next_in hfv (fun y hy e => mem_setRemove.2 ⟨hy, e⟩))
      rwa [ids_append] at ih
    | .op x a o b next fv, Γ, h, hn, hM, Γ', hs, hfv => by
      simp only [WT] at h
      obtain ⟨h1, h2, ⟨h3, h3'⟩, h4⟩ := h
      rw [fv_op] at hfv ⊢
      simp only [WTA]
      have hn1 : NodupIds (Γ ++ [⟨x, .ext, .i64⟩]) := nodupIds_append_singleton hn h3
      have hM1 := ids_le_append_singleton hM (b := ⟨x, .ext, .i64⟩) h3'
      refine ⟨hasVar_restrict hs hn h1 (hfv _ (by simp)), hasVar_restrict hs hn h2 (hfv _ (by simp)),
        h3, h3', _, rfl, fun y hy => hM1 y (fv_sub T S M next _ h4 y hy), ?_⟩
      have ih := freeVars_WTA T S M next _ h4 hn1 hM1
        (Γ'.filter (inSet (b.id :: a.id :: (freeVars next).2)) ++ [⟨x, .ext, .i64⟩])
        (keysSub_filter_append hs _ _) (by
          intro y hy
          rw [mem_ids_append_singleton]
          by_cases e : y = x.id
          · exact Or.inr e
          · refine Or.inl (mem_ids_filter.2 ⟨hfv y ?_, by simp [hy]⟩)
            simp only [List.mem_cons]
            exact Or.inr (Or.inr (mem_setRemove.2 ⟨hy, e⟩)))
      rwa [ids_append] at ih
    | .print nl a next fv, Γ, h, hn, hM, Γ', hs, hfv => by
      simp only [WT] at h
      obtain ⟨h1, h2⟩ := h
      rw [fv_print] at hfv ⊢
      simp only [WTA]
      refine ⟨hasVar_restrict hs hn h1 (hfv _ (by simp)), _, rfl,
        fun y hy => hM y (fv_sub T S M next _ h2 y hy), ?_⟩
      apply freeVars_WTA T S M next Γ h2 hn hM
      · intro y c t hv; exact hs _ _ _ (hasVar_filter.1 hv).1
      · intro y hy
        exact mem_ids_filter.2 ⟨hfv y (List.mem_cons_of_mem _ hy), by simp [hy]⟩
    | .ifc s a b t e, Γ, h, hn, hM, Γ', hs, hfv => by
      simp only [WT] at h
      obtain ⟨h1, h2, h3, h4⟩ := h
      rw [fv_ifc] at hfv ⊢
      simp only [WTA]
      refine ⟨hasVar_restrict hs hn h1 (hfv _ (by simp)), ?_,
        freeVars_WTA T S M t Γ h3 hn hM Γ' hs (fun y hy => hfv y (by simp [hy])),
        freeVars_WTA T S M e Γ h4 hn hM Γ' hs (fun y hy => hfv y (by simp [hy]))⟩
      intro b' hb'
      subst hb'
      exact hasVar_restrict hs hn (h2 b' rfl) (hfv _ (by simp))
    | .exit x, Γ, h, hn, hM, Γ', hs, hfv => by
      simp only [WT] at h
      rw [fv_exit] at hfv ⊢
      simp only [WTA]
      exact hasVar_restrict hs hn h (hfv _ (by simp))
  theorem freeVarsClauses_WTA (T : List TypeDecl) (S : Sigs) (M : Nat) :
      ∀ (cs : Clauses) (Γ : Ctx), WTClauses T S M cs Γ → NodupIds Γ → (∀ i ∈ Γ.ids, i ≤ M) →
        ∀ pre post, KeysSub (pre ++ post) Γ → (∀ y ∈ (freeVarsClauses cs).2, y ∈ (pre ++ post).ids) →
        WTAClauses T S M (freeVarsClauses cs).1 Γ.ids pre post
    | .nil, _, _, _, _, _, _, _, _ => by rw [fvc_nil]; simp [WTAClauses]
    | .cons x ctx body rest, Γ, h, hn, hM, pre, post, hs, hfv => by
      simp only [WTClauses] at h
      obtain ⟨h1, h2, h3, h4⟩ := h
      rw [fvc_cons] at hfv ⊢
      simp only [WTAClauses]
      have hn1 : NodupIds (Γ ++ ctx) := nodupIds_append hn h1 (fun i hi => (h2 i hi).1)
      have hM1 : ∀ i ∈ (Γ ++ ctx).ids, i ≤ M := by
        intro i hi
        rw [ids_append] at hi
        rcases List.mem_append.1 hi with hi | hi
        · exact hM i hi
        · exact (h2 i hi).2
      refine ⟨h1, h2, ?_, freeVarsClauses_WTA T S M rest Γ h4 hn hM pre post hs
        (fun y hy => hfv y (List.mem_append_left _ hy))⟩
      have ih := freeVars_WTA T S M body _ h3 hn1 hM1 (pre ++ ctx ++ post) (by
          intro y c t hv
          rcases hasVar_append.1 hv with hv | hv
          · rcases hasVar_append.1 hv with hv | hv
            · exact hasVar_append.2 (Or.inl (hs _ _ _ (hasVar_append.2 (Or.inl hv))))
            · exact hasVar_append.2 (Or.inr hv)
          · exact hasVar_append.2 (Or.inl (hs _ _ _ (hasVar_append.2 (Or.inr hv))))) (by
          intro y hy
          simp only [ids_append, List.mem_append]
          by_cases e : y ∈ ctx.ids
          · exact Or.inl (Or.inr e)
          · have := hfv y (List.mem_append_right _ (mem_setRemoveAll.2 ⟨hy, e⟩))
            rw [ids_append] at this
            rcases List.mem_append.1 this with h | h
            · exact Or.inl (Or.inl h)
            · exact Or.inr h)
      rwa [ids_append] at ih
end
