/-
  Scc.AxCut.Linearize — executable model of the AxCut linearization pass (S4 -> S5).

  Transcribed from /repo/lang/axcut/src:
    traits/free_vars.rs, traits/linearize.rs, traits/substitution.rs,
    syntax/context.rs (`freshen`, `filter_by_set`), syntax/names.rs (`fresh_identifier`, Subst for
    ID / Identifier), syntax/def.rs (`Def::linearize`), syntax/program.rs (`Prog::linearize`),
    and the `FreeVars` / `Subst` / `Linearizing` impls of syntax/statements/*.rs.

  Representation choices (all unobservable in the S5 dump):
  * `HashSet<ID>` is a `List Nat` used only through membership (`contains`); insertion is `::`,
    union is `++`, removal is `filter`.  Duplicates are harmless: the sets are consumed only by
    `filter_by_set` (`set.contains`) and `freshen` (`clashes.contains`).
  * `free_vars(self, vars: &mut HashSet<ID>)` is documented "The set is assumed to be empty when
    passed" and every call site passes either a fresh `HashSet::new()` or its own still untouched
    `vars`; the model therefore RETURNS the set (`freeVars : Stmt → Stmt × List Nat`).
  * `max_id: &mut ID` is threaded as an explicit state (`… → Nat → … × Nat`), updated in the same
    order as Rust evaluates.
  * `Create::linearize` calls `linearize` on a substituted copy of `next`, which is not a structural
    sub-term; `linearize` therefore takes fuel (`Stmt.size` suffices, see `linearizeDef`); running
    out of fuel is an explicit error (proved unreachable in Scc/AxCut/LinProofs*.lean).
  Rust panics are explicit `Except.error "PANIC …"` outcomes.
  Core imports only; executable.
-/
import Scc.AxCut.Syntax

namespace Scc.AxCut

/-! ## contexts (syntax/context.rs) -/

/-- context.rs: TypingContext::vars -/
def Ctx.vars (Γ : Ctx) : List Ident := Γ.map (·.var)

/-- context.rs: TypingContext::ids_set (as a list, used through membership only) -/
def Ctx.ids (Γ : Ctx) : List Nat := Γ.map (·.var.id)

/-- names.rs: fn fresh_identifier — `*max_id += 1; Identifier { name, id: *max_id }` -/
def freshIdentifier (maxId : Nat) (baseName : String) : Ident × Nat :=
  (⟨baseName, maxId + 1⟩, maxId + 1)

/-- context.rs: fn freshen.  `clashes` grows by the ids that are kept. -/
def freshen : Ctx → List Nat → Nat → Ctx × Nat
  | [], _, maxId => ([], maxId)
  | b :: rest, clashes, maxId =>
    if clashes.contains b.var.id then
      let (v, maxId1) := freshIdentifier maxId b.var.name
      let (r, maxId2) := freshen rest clashes maxId1
      (⟨v, b.chi, b.ty⟩ :: r, maxId2)
    else
      let (r, maxId2) := freshen rest (b.var.id :: clashes) maxId
      (b :: r, maxId2)

/-- context.rs: fn filter_by_set — the inner `while new_context.len() - 1 > pos` loop.
`n` is the number of remaining iterations and is always called with `n = new.length` (each
iteration that continues pops one element, so `n = 0` coincides with `new = []`, where the loop
condition is false).  Returns the new context and `found_element`.
`swap_remove(pos)` with `pos < len - 1`: the last element replaces the one at `pos`. -/
def filterWhile (set : List Nat) (pos : Nat) : Nat → List Binding → List Binding × Bool
  | 0, new => (new, false)
  | n + 1, new =>
    if new.length - 1 > pos then
      match new.getLast? with
      | none => (new, false)
      | some l =>
        if set.contains l.var.id then (new.dropLast.set pos l, true)
        else filterWhile set pos n new.dropLast
    else (new, false)

/-- context.rs: fn filter_by_set — the outer `for (pos, binding) in self.bindings.iter().enumerate()`
loop (structural over the remaining original bindings, `pos` counted explicitly). -/
def filterLoop (set : List Nat) : List Binding → Nat → List Binding → List Binding
  | [], _, new => new
  | b :: rest, pos, new =>
    if pos ≥ new.length then new
    else if !set.contains b.var.id then
      let r := filterWhile set pos new.length new
      if !r.2 then r.1.dropLast
      else filterLoop set rest (pos + 1) r.1
    else filterLoop set rest (pos + 1) new

/-- context.rs: fn filter_by_set -/
def filterBySet (Γ : Ctx) (set : List Nat) : Ctx := filterLoop set Γ 0 Γ

/-! ## substitution (traits/substitution.rs, names.rs, statements/*.rs `impl Subst`) -/

abbrev Subst := List (Nat × Ident)

/-- names.rs: impl Subst for ID -/
def substId (σ : Subst) (x : Nat) : Nat :=
  match σ.find? (fun p => p.1 == x) with
  | none => x
  | some p => p.2.id

/-- names.rs: impl Subst for Identifier -/
def substIdent (σ : Subst) (x : Ident) : Ident :=
  match σ.find? (fun p => p.1 == x.id) with
  | none => x
  | some p => p.2

/-- context.rs: impl Subst for ContextBinding -/
def substBinding (σ : Subst) (b : Binding) : Binding := { b with var := substIdent σ b.var }

/-- context.rs: impl Subst for TypingContext -/
def substCtx (σ : Subst) (Γ : Ctx) : Ctx := Γ.map (substBinding σ)

/-- substitution.rs: impl Subst for Option<HashSet<ID>> -/
def substFV (σ : Subst) : FV → FV
  | none => none
  | some s => some (s.map (substId σ))

mutual
  /-- statements/*.rs: fn subst_sim (binders `var` of let/create/lit/op and clause contexts are
  NOT renamed, exactly as in the Rust). -/
  def substStmt (σ : Subst) : Stmt → Stmt
    | .subst pairs next =>
      .subst (pairs.map fun p => (substBinding σ p.1, substIdent σ p.2)) (substStmt σ next)
    | .call l args => .call l (substCtx σ args)
    | .letS v ty tag args next fv =>
      .letS v ty tag (substCtx σ args) (substStmt σ next) (substFV σ fv)
    | .switch v ty cs fv => .switch (substIdent σ v) ty (substClauses σ cs) (substFV σ fv)
    | .create v ty env cs next fc fn =>
      .create v ty (env.map (substCtx σ)) (substClauses σ cs) (substStmt σ next)
        (substFV σ fc) (substFV σ fn)
    | .invoke v tag ty args => .invoke (substIdent σ v) tag ty (substCtx σ args)
    | .lit v n next fv => .lit v n (substStmt σ next) (substFV σ fv)
    | .op v a o b next fv =>
      .op v (substIdent σ a) o (substIdent σ b) (substStmt σ next) (substFV σ fv)
    | .print nl v next fv => .print nl (substIdent σ v) (substStmt σ next) (substFV σ fv)
    | .ifc s a b t e =>
      .ifc s (substIdent σ a) (b.map (substIdent σ)) (substStmt σ t) (substStmt σ e)
    | .exit v => .exit (substIdent σ v)
  /-- clause.rs: impl Subst for Clause (body only), substitution.rs: impl Subst for Vec<T> -/
  def substClauses (σ : Subst) : Clauses → Clauses
    | .nil => .nil
    | .cons x ctx body rest => .cons x ctx (substStmt σ body) (substClauses σ rest)
end

/-! ## free-variable annotation (traits/free_vars.rs, statements/*.rs `impl FreeVars`) -/

/-- `vars.remove(&id)` -/
def setRemove (x : Nat) (s : List Nat) : List Nat := s.filter (fun y => y != x)

/-- `for binding in &context.bindings { vars.remove(&binding.var.id) }` -/
def setRemoveAll (xs : List Nat) (s : List Nat) : List Nat := s.filter (fun y => !xs.contains y)

mutual
  /-- statements/*.rs: fn free_vars.  Returns the annotated statement and the set `vars`. -/
  def freeVars : Stmt → Stmt × List Nat
    | .subst pairs next =>
      let (next', vars) := freeVars next
      -- for (new, old) in &self.rearrange { vars.insert(old.id); vars.remove(&new.var.id); }
      (.subst pairs next',
        pairs.foldl (fun vs p => setRemove p.1.var.id (p.2.id :: vs)) vars)
    | .call l args => (.call l args, args.ids)
    | .letS v ty tag args next _ =>
      let (next', vars) := freeVars next
      (.letS v ty tag args next' (some vars), args.ids ++ setRemove v.id vars)
    | .switch v ty cs _ =>
      let (cs', vars) := freeVarsClauses cs
      (.switch v ty cs' (some vars), v.id :: vars)
    | .create v ty env cs next _ _ =>
      let (next', vars) := freeVars next
      let (cs', varsClauses) := freeVarsClauses cs
      (.create v ty env cs' next' (some varsClauses) (some vars), varsClauses ++ setRemove v.id vars)
    | .invoke v tag ty args => (.invoke v tag ty args, v.id :: args.ids)
    | .lit v n next _ =>
      let (next', vars) := freeVars next
      (.lit v n next' (some vars), setRemove v.id vars)
    | .op v a o b next _ =>
      let (next', vars) := freeVars next
      (.op v a o b next' (some vars), b.id :: a.id :: setRemove v.id vars)
    | .print nl v next _ =>
      let (next', vars) := freeVars next
      (.print nl v next' (some vars), v.id :: vars)
    | .ifc s a b t e =>
      let (t', vars) := freeVars t
      let (e', varsElse) := freeVars e
      (.ifc s a b t' e',
        (match b with | some b => [b.id] | none => []) ++ a.id :: (varsElse ++ vars))
    | .exit v => (.exit v, [v.id])
  /-- free_vars.rs: impl FreeVars for Vec<T> (a fresh set per element, then `vars.extend`);
  clause.rs: impl FreeVars for Clause -/
  def freeVarsClauses : Clauses → Clauses × List Nat
    | .nil => (.nil, [])
    | .cons x ctx body rest =>
      let (body', vars) := freeVars body
      let (rest', varsRest) := freeVarsClauses rest
      (.cons x ctx body' rest', varsRest ++ setRemoveAll ctx.ids vars)
end

/-! ## linearization (traits/linearize.rs, statements/*.rs `impl Linearizing`) -/

mutual
  def Stmt.size : Stmt → Nat
    | .subst _ next => next.size + 1
    | .call _ _ => 1
    | .letS _ _ _ _ next _ => next.size + 1
    | .switch _ _ cs _ => cs.size + 1
    | .create _ _ _ cs next _ _ => cs.size + next.size + 1
    | .invoke _ _ _ _ => 1
    | .lit _ _ next _ => next.size + 1
    | .op _ _ _ _ next _ => next.size + 1
    | .print _ _ next _ => next.size + 1
    | .ifc _ _ _ t e => t.size + e.size + 1
    | .exit _ => 1
  def Clauses.size : Clauses → Nat
    | .nil => 0
    | .cons _ _ body rest => body.size + rest.size + 1
end

def panicSubst : String :=
  "PANIC Linearization should only be done on terms without explicit substitutions"
def panicNoFV : String := "PANIC Free variables must be annotated before linearization"
def errFuel : String := "ERR linearize: out of fuel"

/-- `rearrange = new_bindings.into_iter().zip(old_context.into_iter_vars()).collect()` -/
def rearrange (newBindings : Ctx) (old : Ctx) : List (Binding × Ident) := newBindings.zip old.vars

mutual
  /-- statements/mod.rs: impl Linearizing for Statement, dispatching to statements/*.rs -/
  def linearize : Nat → Stmt → Ctx → Nat → Except String (Stmt × Nat)
    | 0, _, _, _ => .error errFuel
    | _ + 1, .subst _ _, _, _ => .error panicSubst
    -- call.rs
    | _ + 1, .call label args0, context, maxId =>
      let args : Ctx := args0          -- std::mem::take(&mut self.args.bindings)
      if context = args then .ok (.call label [], maxId)
      else
        let (freshenedContext, maxId1) := freshen args [] maxId
        .ok (.subst (rearrange freshenedContext args) (.call label []), maxId1)
    -- let.rs
    | n + 1, .letS var ty tag args next fvNext, context, maxId =>
      match fvNext with
      | none => .error panicNoFV
      | some freeVars =>
        let newContext := filterBySet context freeVars
        let contextRearrange := newContext ++ args
        let newBinding : Binding := ⟨var, .prd, ty⟩
        if context = contextRearrange then
          match linearize n next (newContext ++ [newBinding]) maxId with
          | .error e => .error e
          | .ok (next', maxId1) => .ok (.letS var ty tag args next' none, maxId1)
        else
          let (args', maxId1) := freshen args newContext.ids maxId
          let contextRearrangeFreshened := newContext ++ args'
          match linearize n next (newContext ++ [newBinding]) maxId1 with
          | .error e => .error e
          | .ok (next', maxId2) =>
            .ok (.subst (rearrange contextRearrangeFreshened contextRearrange)
                  (.letS var ty tag args' next' none), maxId2)
    -- switch.rs
    | n + 1, .switch var ty clauses fvClauses, context, maxId =>
      match fvClauses with
      | none => .error panicNoFV
      | some freeVars =>
        let newContext := filterBySet context freeVars
        let contextRearrange := newContext ++ [(⟨var, .prd, ty⟩ : Binding)]
        match linearizeClauses n clauses newContext [] maxId with
        | .error e => .error e
        | .ok (clauses', maxId1) =>
          if context = contextRearrange then .ok (.switch var ty clauses' none, maxId1)
          else
            let (var', maxId2) :=
              if newContext.ids.contains var.id then freshIdentifier maxId1 var.name
              else (var, maxId1)
            let contextRearrangeFreshened := newContext ++ [(⟨var', .prd, ty⟩ : Binding)]
            .ok (.subst (rearrange contextRearrangeFreshened contextRearrange)
                  (.switch var' ty clauses' none), maxId2)
    -- create.rs
    | n + 1, .create var ty _ clauses next fvClauses fvNext, context, maxId =>
      match fvClauses with
      | none => .error panicNoFV
      | some freeVarsClauses =>
      match fvNext with
      | none => .error panicNoFV
      | some freeVarsNext =>
        let contextClone := context
        let contextNext := filterBySet context freeVarsNext
        -- context.bindings.split_off(context_next.len()) ++ (what is left of context)
        let contextReordered := context.drop contextNext.length ++ context.take contextNext.length
        let contextClauses := filterBySet contextReordered freeVarsClauses
        match linearizeClauses n clauses [] contextClauses maxId with
        | .error e => .error e
        | .ok (clauses', maxId1) =>
          let contextRearrange := contextNext ++ contextClauses
          let newBinding : Binding := ⟨var, .cns, ty⟩
          if contextClone = contextRearrange then
            match linearize n next (contextNext ++ [newBinding]) maxId1 with
            | .error e => .error e
            | .ok (next', maxId2) =>
              .ok (.create var ty (some contextClauses) clauses' next' none none, maxId2)
          else
            let (contextNextFreshened, maxId2) := freshen contextNext contextClauses.ids maxId1
            let contextRearrangeFreshened := contextNextFreshened ++ contextClauses
            let rearr := rearrange contextRearrangeFreshened contextRearrange
            let substitutionNext : Subst := contextNext.ids.zip contextNextFreshened.vars
            let next1 := substStmt substitutionNext next
            match linearize n next1 (contextNextFreshened ++ [newBinding]) maxId2 with
            | .error e => .error e
            | .ok (next', maxId3) =>
              .ok (.subst rearr (.create var ty (some contextClauses) clauses' next' none none),
                   maxId3)
    -- invoke.rs
    | _ + 1, .invoke var tag ty args0, context, maxId =>
      let args : Ctx := args0          -- std::mem::take(&mut self.args.bindings)
      let closureBinding : Binding := ⟨var, .cns, ty⟩
      let contextRearrange := args ++ [closureBinding]
      if context = contextRearrange then .ok (.invoke var tag ty [], maxId)
      else
        let (freshenedArgs, maxId1) := freshen args [var.id] maxId
        let freshenedContext := freshenedArgs ++ [closureBinding]
        .ok (.subst (rearrange freshenedContext contextRearrange) (.invoke var tag ty []), maxId1)
    -- literal.rs
    | n + 1, .lit var lit next fvNext, context, maxId =>
      match fvNext with
      | none => .error panicNoFV
      | some freeVars =>
        let newContext := filterBySet context freeVars
        let contextRearrange := newContext
        let newBinding : Binding := ⟨var, .ext, .i64⟩
        match linearize n next (newContext ++ [newBinding]) maxId with
        | .error e => .error e
        | .ok (next', maxId1) =>
          if context = contextRearrange then .ok (.lit var lit next' none, maxId1)
          else .ok (.subst (rearrange contextRearrange contextRearrange)
                      (.lit var lit next' none), maxId1)
    -- op.rs
    | n + 1, .op var fst o snd next fvNext, context, maxId =>
      match fvNext with
      | none => .error panicNoFV
      | some freeVars0 =>
        let freeVars := snd.id :: fst.id :: freeVars0
        let newContext := filterBySet context freeVars
        let contextRearrange := newContext
        let newBinding : Binding := ⟨var, .ext, .i64⟩
        match linearize n next (newContext ++ [newBinding]) maxId with
        | .error e => .error e
        | .ok (next', maxId1) =>
          if context = contextRearrange then .ok (.op var fst o snd next' none, maxId1)
          else .ok (.subst (rearrange contextRearrange contextRearrange)
                      (.op var fst o snd next' none), maxId1)
    -- print.rs
    | n + 1, .print nl var next fvNext, context, maxId =>
      match fvNext with
      | none => .error panicNoFV
      | some freeVars0 =>
        let freeVars := var.id :: freeVars0
        let newContext := filterBySet context freeVars
        let contextRearrange := newContext
        match linearize n next newContext maxId with
        | .error e => .error e
        | .ok (next', maxId1) =>
          if context = contextRearrange then .ok (.print nl var next' none, maxId1)
          else .ok (.subst (rearrange contextRearrange contextRearrange)
                      (.print nl var next' none), maxId1)
    -- ifc.rs
    | n + 1, .ifc s fst snd thenc elsec, context, maxId =>
      match linearize n thenc context maxId with
      | .error e => .error e
      | .ok (thenc', maxId1) =>
        match linearize n elsec context maxId1 with
        | .error e => .error e
        | .ok (elsec', maxId2) => .ok (.ifc s fst snd thenc' elsec', maxId2)
    -- mod.rs: Statement::Exit(ref _exit) => self
    | _ + 1, .exit var, _, maxId => .ok (.exit var, maxId)
  /-- switch.rs / create.rs: `self.clauses.into_iter().map(|mut clause| …).collect()`; the body of
  a clause is linearized under `pre ++ clause.context ++ post` (switch: `pre` = context of the
  clauses, `post = []`; create: `pre = []`, `post` = closure environment). -/
  def linearizeClauses : Nat → Clauses → Ctx → Ctx → Nat → Except String (Clauses × Nat)
    | 0, _, _, _, _ => .error errFuel
    | _ + 1, .nil, _, _, maxId => .ok (.nil, maxId)
    | n + 1, .cons xtor ctx body rest, pre, post, maxId =>
      match linearize n body (pre ++ ctx ++ post) maxId with
      | .error e => .error e
      | .ok (body', maxId1) =>
        match linearizeClauses n rest pre post maxId1 with
        | .error e => .error e
        | .ok (rest', maxId2) => .ok (.cons xtor ctx body' rest', maxId2)
end

/-- def.rs: Def::linearize -/
def linearizeDef (d : Def) (maxId : Nat) : Except String (Def × Nat) :=
  let body := (freeVars d.body).1
  match linearize (body.size + 1) body d.ctx maxId with
  | .error e => .error e
  | .ok (body', maxId1) => .ok ({ d with body := body' }, maxId1)

/-- program.rs: Prog::linearize — the loop over the definitions -/
def linearizeDefs : List Def → Nat → Except String (List Def × Nat)
  | [], maxId => .ok ([], maxId)
  | d :: ds, maxId =>
    match linearizeDef d maxId with
    | .error e => .error e
    | .ok (d', maxId1) =>
      match linearizeDefs ds maxId1 with
      | .error e => .error e
      | .ok (ds', maxId2) => .ok (d' :: ds', maxId2)

/-- program.rs: Prog::linearize -/
def linearizeProg (p : Prog) : Except String Prog :=
  match linearizeDefs p.defs p.maxId with
  | .error e => .error e
  | .ok (defs, maxId) => .ok { p with defs := defs, maxId := maxId }

/-- Line-protocol entry: S4 dump text ↦ `OK <S5 dump>` | `PANIC …` | `ERR …`. -/
def runLine (dumpS4 : String) : String :=
  match Sexp.parse dumpS4 with
  | none => "ERR sexp"
  | some sx =>
    match readProg (dumpS4.length + 10) sx with
    | none => "ERR read"
    | some p =>
      match linearizeProg p with
      | .error e => e
      | .ok p' => "OK " ++ p'.toSexp.render

end Scc.AxCut
