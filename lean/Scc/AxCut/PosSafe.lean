/-
  Scc.AxCut.PosSafe — proof file (C05, T5): the positional machine of Scc/AxCut/SemPos.lean never
  violates a shape on an ordered-linearly typed program (type safety: preservation + progress).
-/
import Scc.AxCut.LinTyping
import Scc.AxCut.SemPos

namespace Scc.AxCut.Pos

open Scc.AxCut

mutual
  /-- value typing: an integer is `ext i64`; an object of type `ty` carries the position of one
  of the xtors of `ty` and fields of the declared kinds and types; a closure of type `ty` has
  the clauses of `ty`, typed under (parameters ++ closure context), and an environment matching
  the closure context -/
  inductive ValTyped (P : Prog) : Value → Chi → Ty → Prop where
    | int (n : BitVec 64) : ValTyped P (.int n) .ext .i64
    | obj {ty : Ty} {d : TypeDecl} {tag : Nat} {xt : XtorSig} {fields : List Value} :
        lookupTypeDecl P.types ty = some d → d.xtors[tag]? = some xt →
        FieldsTyped P fields xt.args.chiTys → ValTyped P (.obj tag fields) .prd ty
    | clo {ty : Ty} {d : TypeDecl} {Γc : Ctx} {env : List Value} {cs : Clauses} :
        lookupTypeDecl P.types ty = some d → ClausesMatch d.xtors cs →
        FieldsTyped P env Γc.chiTys → LinTypedClauses P.types P.sigs [] Γc cs →
        ValTyped P (.clo Γc env cs) .cns ty
  inductive FieldsTyped (P : Prog) : List Value → List (Chi × Ty) → Prop where
    | nil : FieldsTyped P [] []
    | cons {v : Value} {vs : List Value} {c : Chi} {t : Ty} {cts : List (Chi × Ty)} :
        ValTyped P v c t → FieldsTyped P vs cts → FieldsTyped P (v :: vs) ((c, t) :: cts)
end

variable {P : Prog}

theorem FieldsTyped.length_eq : ∀ {ρ : List Value} {cts : List (Chi × Ty)},
    FieldsTyped P ρ cts → ρ.length = cts.length
  | [], _, h => by cases h; rfl
  | _ :: vs, _, h => by
    cases h with
    | cons hv hvs => simp [FieldsTyped.length_eq hvs]

theorem FieldsTyped.append : ∀ {ρ1 ρ2 : List Value} {c1 c2 : List (Chi × Ty)},
    FieldsTyped P ρ1 c1 → FieldsTyped P ρ2 c2 → FieldsTyped P (ρ1 ++ ρ2) (c1 ++ c2)
  | [], _, _, _, h1, h2 => by cases h1; simpa using h2
  | _ :: vs, _, _, _, h1, h2 => by
    cases h1 with
    | cons hv hvs => exact .cons hv (FieldsTyped.append hvs h2)

theorem FieldsTyped.split : ∀ {ρ : List Value} (c1 : List (Chi × Ty)) {c2 : List (Chi × Ty)},
    FieldsTyped P ρ (c1 ++ c2) →
    FieldsTyped P (ρ.take c1.length) c1 ∧ FieldsTyped P (ρ.drop c1.length) c2
  | ρ, [], _, h => by simpa using ⟨FieldsTyped.nil, h⟩
  | [], _ :: _, _, h => by cases h
  | v :: vs, (c, t) :: c1, c2, h => by
    cases h with
    | cons hv hvs =>
      obtain ⟨h1, h2⟩ := FieldsTyped.split c1 hvs
      exact ⟨by simpa using FieldsTyped.cons hv h1, by simpa using h2⟩

theorem FieldsTyped.singleton {v : Value} {c : Chi} {t : Ty} (h : ValTyped P v c t) :
    FieldsTyped P [v] [(c, t)] := .cons h .nil

theorem chiTys_append (Γ Δ : Ctx) : Ctx.chiTys (Γ ++ Δ) = Ctx.chiTys Γ ++ Ctx.chiTys Δ := by
  simp [Ctx.chiTys]

theorem chiTys_length (Γ : Ctx) : (Ctx.chiTys Γ).length = Γ.length := by simp [Ctx.chiTys]

theorem chiTys_of_keys {Γ Δ : Ctx} (h : Γ.keys = Δ.keys) : Γ.chiTys = Δ.chiTys := by
  have := congrArg (List.map (fun k : Nat × Chi × Ty => k.2)) h
  simpa [Ctx.keys, Ctx.chiTys, Binding.key, Function.comp_def] using this

theorem length_of_keys {Γ Δ : Ctx} (h : Γ.keys = Δ.keys) : Γ.length = Δ.length := by
  have := congrArg List.length h
  simpa [Ctx.keys] using this

/-- reading a variable that the typing promises -/
theorem readVar_typed : ∀ (Γ : Ctx) (ρ : List Value), FieldsTyped P ρ Γ.chiTys → NodupIds Γ →
    ∀ (x : Nat) (c : Chi) (t : Ty), HasVar Γ x c t →
    ∃ i v, posOf Γ x = some i ∧ ρ[i]? = some v ∧ ValTyped P v c t
  | [], _, _, _, x, c, t, h => by obtain ⟨b, hb, _⟩ := h; cases hb
  | b :: Γ, ρ, hρ, hn, x, c, t, h => by
    cases hρ with
    | cons hv hvs =>
      rename_i v vs
      simp only [NodupIds, Ctx.ids, List.map_cons, List.nodup_cons] at hn
      by_cases e : b.var.id = x
      · refine ⟨0, v, by simp [posOf, List.findIdx?_cons, e], rfl, ?_⟩
        obtain ⟨b', hb', e', rfl, rfl⟩ := h
        rcases List.mem_cons.1 hb' with rfl | hb'
        · exact hv
        · exact absurd (List.mem_map.2 ⟨b', hb', by rw [e', e]⟩) hn.1
      · have h' : HasVar Γ x c t := by
          obtain ⟨b', hb', e', rfl, rfl⟩ := h
          rcases List.mem_cons.1 hb' with rfl | hb'
          · exact absurd e' e
          · exact ⟨b', hb', e', rfl, rfl⟩
        obtain ⟨i, v', h1, h2, h3⟩ := readVar_typed Γ vs hvs hn.2 x c t h'
        refine ⟨i + 1, v', ?_, by simpa using h2, h3⟩
        have : (b.var.id == x) = false := by simpa using e
        simp only [posOf] at h1 ⊢
        simp [List.findIdx?_cons, this, h1]

theorem readVar_ok {Γ : Ctx} {ρ : List Value} (hρ : FieldsTyped P ρ Γ.chiTys) (hn : NodupIds Γ)
    {x : Ident} {c : Chi} {t : Ty} (h : HasVar Γ x.id c t) :
    ∃ v, readVar Γ ρ x = .ok v ∧ ValTyped P v c t := by
  obtain ⟨i, v, h1, h2, h3⟩ := readVar_typed Γ ρ hρ hn x.id c t h
  exact ⟨v, by simp [readVar, h1, h2], h3⟩

theorem readInt_ok {Γ : Ctx} {ρ : List Value} (hρ : FieldsTyped P ρ Γ.chiTys) (hn : NodupIds Γ)
    {x : Ident} (h : HasVar Γ x.id .ext .i64) : ∃ n, readInt Γ ρ x = .ok n := by
  obtain ⟨v, h1, h2⟩ := readVar_ok hρ hn h
  cases h2 with
  | int n => exact ⟨n, by simp [readInt, h1]⟩

theorem evalOp_safe (o : BinOp) (a b : BitVec 64) :
    (∃ v, evalOp o a b = .ok v) ∨ evalOp o a b = .error .divByZero ∨ evalOp o a b = .error .overflow := by
  cases o <;> simp only [evalOp]
  · split
    · exact Or.inr (Or.inl rfl)
    · split
      · exact Or.inr (Or.inr rfl)
      · exact Or.inl ⟨_, rfl⟩
  · exact Or.inl ⟨_, rfl⟩
  · split
    · exact Or.inr (Or.inl rfl)
    · split
      · exact Or.inr (Or.inr rfl)
      · exact Or.inl ⟨_, rfl⟩
  · exact Or.inl ⟨_, rfl⟩
  · exact Or.inl ⟨_, rfl⟩

/-! ## lookups -/

theorem xtorPosition_go (tag : Ident) : ∀ (xs : List XtorSig) (k : Nat) (xt : XtorSig),
    xs.find? (fun x => x.name == tag) = some xt →
    ∃ i, xtorPosition.go tag xs k = some (k + i) ∧ xs[i]? = some xt
  | [], _, _, h => by simp at h
  | x :: xs, k, xt, h => by
    simp only [List.find?_cons] at h
    by_cases e : (x.name == tag) = true
    · simp only [e] at h
      injection h with h
      subst h
      exact ⟨0, by simp [xtorPosition.go, e], rfl⟩
    · have e' : (x.name == tag) = false := by simpa using e
      simp only [e'] at h
      obtain ⟨i, h1, h2⟩ := xtorPosition_go tag xs (k + 1) xt h
      refine ⟨i + 1, ?_, by simpa using h2⟩
      simp only [xtorPosition.go, e', Bool.false_eq_true, if_false]
      rw [h1]; congr 1; omega

theorem tagPosition_ok {T : List TypeDecl} {ty : Ty} {tag : Ident} {sig : Ctx}
    (h : lookupXtor T ty tag = some sig) :
    ∃ d xt i, lookupTypeDecl T ty = some d ∧ d.xtors[i]? = some xt ∧ xt.args = sig ∧
      tagPosition T ty tag = .ok i := by
  unfold lookupXtor at h
  cases hd : lookupTypeDecl T ty with
  | none => simp [hd] at h
  | some d =>
    simp only [hd] at h
    cases hx : d.xtors.find? (fun x => x.name == tag) with
    | none => simp [hx] at h
    | some xt =>
      simp only [hx, Option.some.injEq] at h
      obtain ⟨i, h1, h2⟩ := xtorPosition_go tag d.xtors 0 xt hx
      refine ⟨d, xt, i, rfl, h2, h, ?_⟩
      simp only [tagPosition, hd, xtorPosition, h1]
      simp

theorem nthClause_ok : ∀ (xs : List XtorSig) (cs : Clauses) (i : Nat) (xt : XtorSig),
    ClausesMatch xs cs → xs[i]? = some xt →
    ∃ c, nthClause cs i = some c ∧ xt.args.chiTys = c.ctx.chiTys ∧
      ∀ T S pre post, LinTypedClauses T S pre post cs → LinTyped T S (pre ++ c.ctx ++ post) c.body
  | [], _, _, _, _, h => by simp at h
  | _ :: _, .nil, _, _, hm, _ => by simp [ClausesMatch] at hm
  | x :: xs, .cons n ctx body rest, 0, xt, hm, h => by
    simp only [ClausesMatch] at hm
    simp only [List.getElem?_cons_zero, Option.some.injEq] at h
    subst h
    refine ⟨⟨n, ctx, body⟩, rfl, hm.2.1, ?_⟩
    intro T S pre post hc
    cases hc with
    | cons hb _ => exact hb
  | x :: xs, .cons n ctx body rest, i + 1, xt, hm, h => by
    simp only [ClausesMatch] at hm
    simp only [List.getElem?_cons_succ] at h
    obtain ⟨c, h1, h2, h3⟩ := nthClause_ok xs rest i xt hm.2.2 h
    refine ⟨c, by simpa [nthClause] using h1, h2, ?_⟩
    intro T S pre post hc
    cases hc with
    | cons _ hr => exact h3 T S pre post hr

theorem findDef_ok {P : Prog} {l : Ident} {params : Ctx} (h : findSig P.sigs l = some params) :
    ∃ d, findDef P.defs l = some d ∧ d.ctx = params ∧ d ∈ P.defs := by
  unfold findSig Prog.sigs at h
  rw [List.find?_map] at h
  unfold findDef
  cases hd : P.defs.find? (fun d => d.name == l) with
  | none =>
    have : List.find? ((fun s : Ident × Ctx => s.1 == l) ∘ fun d : Def => (d.name, d.ctx)) P.defs = none := hd
    simp [this] at h
  | some d =>
    have : List.find? ((fun s : Ident × Ctx => s.1 == l) ∘ fun d : Def => (d.name, d.ctx)) P.defs = some d := hd
    simp only [this, Option.map_some, Option.some.injEq] at h
    exact ⟨d, rfl, h, List.mem_of_find?_eq_some hd⟩

/-! ## type safety -/

def StateTyped (P : Prog) (st : State) : Prop :=
  LinTyped P.types P.sigs st.ctx st.stmt ∧ FieldsTyped P st.env st.ctx.chiTys

def StepSafe (P : Prog) : StepResult → Prop
  | .next st' _ => StateTyped P st'
  | .done _ => True
  | .stuck w => w = .divByZero ∨ w = .overflow

theorem env_append_singleton {Γ : Ctx} {ρ : List Value} (henv : FieldsTyped P ρ Γ.chiTys)
    {b : Binding} {v : Value} (hv : ValTyped P v b.chi b.ty) :
    FieldsTyped P (ρ ++ [v]) (Ctx.chiTys (Γ ++ [b])) := by
  rw [chiTys_append]
  exact henv.append (.singleton hv)

theorem safe_lit {Γ ρ x n next fv} (hn : NodupIds Γ) (hnext : LinTyped P.types P.sigs (Γ ++ [⟨x, .ext, .i64⟩]) next)
    (henv : FieldsTyped P ρ Γ.chiTys) : StepSafe P (step P ⟨Γ, ρ, .lit x n next fv⟩) := by
  simp only [step, StepSafe, StateTyped]
  exact ⟨hnext, env_append_singleton (b := ⟨x, .ext, .i64⟩) henv (.int _)⟩

theorem safe_op {Γ ρ x a o b next fv} (hn : NodupIds Γ) (ha : HasVar Γ a.id .ext .i64)
    (hb : HasVar Γ b.id .ext .i64)
    (hnext : LinTyped P.types P.sigs (Γ ++ [⟨x, .ext, .i64⟩]) next)
    (henv : FieldsTyped P ρ Γ.chiTys) : StepSafe P (step P ⟨Γ, ρ, .op x a o b next fv⟩) := by
  obtain ⟨va, ea⟩ := readInt_ok henv hn ha
  obtain ⟨vb, eb⟩ := readInt_ok henv hn hb
  simp only [step, ea, eb]
  rcases evalOp_safe o va vb with ⟨v, e⟩ | e | e <;> simp only [e, StepSafe, StateTyped]
  · exact ⟨hnext, env_append_singleton (b := ⟨x, .ext, .i64⟩) henv (.int _)⟩
  · exact Or.inl trivial
  · exact Or.inr trivial

theorem safe_print {Γ ρ nl a next fv} (hn : NodupIds Γ) (ha : HasVar Γ a.id .ext .i64)
    (hnext : LinTyped P.types P.sigs Γ next)
    (henv : FieldsTyped P ρ Γ.chiTys) : StepSafe P (step P ⟨Γ, ρ, .print nl a next fv⟩) := by
  obtain ⟨va, ea⟩ := readInt_ok henv hn ha
  simp only [step, ea, StepSafe, StateTyped]
  exact ⟨hnext, henv⟩

theorem safe_exit {Γ ρ a} (hn : NodupIds Γ) (ha : HasVar Γ a.id .ext .i64)
    (henv : FieldsTyped P ρ Γ.chiTys) : StepSafe P (step P ⟨Γ, ρ, .exit a⟩) := by
  obtain ⟨va, ea⟩ := readInt_ok henv hn ha
  simp only [step, ea, StepSafe]

theorem safe_ifc {Γ ρ s a b t e} (hn : NodupIds Γ) (ha : HasVar Γ a.id .ext .i64)
    (hb : ∀ b', b = some b' → HasVar Γ b'.id .ext .i64)
    (ht : LinTyped P.types P.sigs Γ t) (he : LinTyped P.types P.sigs Γ e)
    (henv : FieldsTyped P ρ Γ.chiTys) : StepSafe P (step P ⟨Γ, ρ, .ifc s a b t e⟩) := by
  obtain ⟨va, ea⟩ := readInt_ok henv hn ha
  cases b with
  | none =>
    simp only [step, ea, StepSafe, StateTyped]
    split <;> exact ⟨by assumption, henv⟩
  | some b' =>
    obtain ⟨vb, eb⟩ := readInt_ok henv hn (hb b' rfl)
    simp only [step, ea, eb, StepSafe, StateTyped]
    split <;> exact ⟨by assumption, henv⟩

theorem safe_let {Γ' Γa ρ x ty tag args sig next fv}
    (hk : Γa.keys = args.keys) (hs : lookupXtor P.types ty tag = some sig)
    (hs' : args.chiTys = sig.chiTys)
    (hnext : LinTyped P.types P.sigs (Γ' ++ [⟨x, .prd, ty⟩]) next)
    (henv : FieldsTyped P ρ (Ctx.chiTys (Γ' ++ Γa))) :
    StepSafe P (step P ⟨Γ' ++ Γa, ρ, .letS x ty tag args next fv⟩) := by
  obtain ⟨d, xt, i, hd, hx, hxs, htp⟩ := tagPosition_ok hs
  have hlen : args.length = Γa.length := (length_of_keys hk).symm
  have hρ : ρ.length = (Γ' ++ Γa).length := by rw [henv.length_eq, chiTys_length]
  have hc : ¬ ((Γ' ++ Γa).length < args.length ∨ ρ.length ≠ (Γ' ++ Γa).length) := by
    rw [hlen]; simp [hρ]
  have hn : (Γ' ++ Γa).length - args.length = Γ'.length := by rw [hlen]; simp
  simp only [step, if_neg hc, htp, hn, StepSafe, StateTyped]
  rw [chiTys_append] at henv
  obtain ⟨h1, h2⟩ := FieldsTyped.split (Ctx.chiTys Γ') henv
  rw [chiTys_length] at h1 h2
  rw [List.take_left' rfl]
  refine ⟨hnext, env_append_singleton (b := ⟨x, .prd, ty⟩) h1 (.obj hd hx ?_)⟩
  rw [hxs, ← hs', ← chiTys_of_keys hk]
  exact h2

theorem env_last {Γ' : Ctx} {b : Binding} {ρ : List Value}
    (henv : FieldsTyped P ρ (Ctx.chiTys (Γ' ++ [b]))) :
    ∃ ρ' v, ρ = ρ' ++ [v] ∧ FieldsTyped P ρ' Γ'.chiTys ∧ ValTyped P v b.chi b.ty := by
  rw [chiTys_append] at henv
  obtain ⟨h1, h2⟩ := FieldsTyped.split (Ctx.chiTys Γ') henv
  rw [chiTys_length] at h1 h2
  refine ⟨ρ.take Γ'.length, ?_⟩
  cases hd : ρ.drop Γ'.length with
  | nil => rw [hd] at h2; cases h2
  | cons v rest =>
    rw [hd] at h2
    cases h2 with
    | cons hv hr =>
      cases hr
      exact ⟨v, by rw [← hd, List.take_append_drop], h1, hv⟩

theorem lookupTypeDecl_unique {T : List TypeDecl} {ty : Ty} {d d' : TypeDecl}
    (h : lookupTypeDecl T ty = some d) (h' : lookupTypeDecl T ty = some d') : d = d' := by
  rw [h] at h'; injection h'

theorem safe_switch {Γ' b ρ x ty cs fv d}
    (hb : b.key = (x.id, .prd, ty)) (hd : lookupTypeDecl P.types ty = some d)
    (hm : ClausesMatch d.xtors cs) (hc : LinTypedClauses P.types P.sigs Γ' [] cs)
    (henv : FieldsTyped P ρ (Ctx.chiTys (Γ' ++ [b]))) :
    StepSafe P (step P ⟨Γ' ++ [b], ρ, .switch x ty cs fv⟩) := by
  obtain ⟨ρ', v, rfl, h1, hv⟩ := env_last henv
  have hbid : b.var.id = x.id := congrArg (·.1) hb
  have hbchi : b.chi = .prd := congrArg (·.2.1) hb
  have hbty : b.ty = ty := congrArg (·.2.2) hb
  rw [hbchi, hbty] at hv
  have hlen : (ρ' ++ [v]).length = (Γ' ++ [b]).length := by
    rw [henv.length_eq, chiTys_length]
  have hcnd : ¬ (b.var.id ≠ x.id ∨ (ρ' ++ [v]).length ≠ (Γ' ++ [b]).length) := by
    simp [hbid, hlen]
  cases hv with
  | obj hd' hx hf =>
    rename_i d' tag xt fields
    have := lookupTypeDecl_unique hd hd'
    subst this
    obtain ⟨c, hc1, hc2, hc3⟩ := nthClause_ok d.xtors cs tag xt hm hx
    have hfl : fields.length = c.ctx.length := by
      rw [hf.length_eq, hc2, chiTys_length]
    simp only [step, List.getLast?_concat, if_neg hcnd, hc1, hfl, ne_eq, not_true_eq_false,
      if_false, List.dropLast_concat, StepSafe, StateTyped]
    refine ⟨by simpa using hc3 _ _ _ _ hc, ?_⟩
    rw [chiTys_append]
    exact h1.append (hc2 ▸ hf)

theorem safe_create {Γn Γe Γc ρ x ty cs next fc fn d}
    (hk : Γe.keys = Γc.keys) (hd : lookupTypeDecl P.types ty = some d)
    (hm : ClausesMatch d.xtors cs) (hc : LinTypedClauses P.types P.sigs [] Γc cs)
    (hnext : LinTyped P.types P.sigs (Γn ++ [⟨x, .cns, ty⟩]) next)
    (henv : FieldsTyped P ρ (Ctx.chiTys (Γn ++ Γe))) :
    StepSafe P (step P ⟨Γn ++ Γe, ρ, .create x ty (some Γc) cs next fc fn⟩) := by
  have hlen : Γc.length = Γe.length := (length_of_keys hk).symm
  have hρ : ρ.length = (Γn ++ Γe).length := by rw [henv.length_eq, chiTys_length]
  have hcnd : ¬ ((Γn ++ Γe).length < Γc.length ∨ ρ.length ≠ (Γn ++ Γe).length) := by
    rw [hlen]; simp [hρ]
  have hn : (Γn ++ Γe).length - Γc.length = Γn.length := by rw [hlen]; simp
  simp only [step, if_neg hcnd, hn, StepSafe, StateTyped]
  rw [chiTys_append] at henv
  obtain ⟨h1, h2⟩ := FieldsTyped.split (Ctx.chiTys Γn) henv
  rw [chiTys_length] at h1 h2
  rw [List.take_left' rfl]
  refine ⟨hnext, env_append_singleton (b := ⟨x, .cns, ty⟩) h1 (.clo hd hm ?_ hc)⟩
  rw [← chiTys_of_keys hk]
  exact h2

theorem safe_invoke {Γa b ρ x tag ty args sig}
    (hb : b.key = (x.id, .cns, ty)) (hs : lookupXtor P.types ty tag = some sig)
    (hs' : Ctx.chiTys Γa = sig.chiTys)
    (henv : FieldsTyped P ρ (Ctx.chiTys (Γa ++ [b]))) :
    StepSafe P (step P ⟨Γa ++ [b], ρ, .invoke x tag ty args⟩) := by
  obtain ⟨ρ', v, rfl, h1, hv⟩ := env_last henv
  have hbid : b.var.id = x.id := congrArg (·.1) hb
  have hbchi : b.chi = .cns := congrArg (·.2.1) hb
  have hbty : b.ty = ty := congrArg (·.2.2) hb
  rw [hbchi, hbty] at hv
  have hlen : (ρ' ++ [v]).length = (Γa ++ [b]).length := by
    rw [henv.length_eq, chiTys_length]
  have hcnd : ¬ (b.var.id ≠ x.id ∨ (ρ' ++ [v]).length ≠ (Γa ++ [b]).length) := by
    simp [hbid, hlen]
  obtain ⟨d, xt, i, hd, hx, hxs, htp⟩ := tagPosition_ok hs
  cases hv with
  | clo hd' hm hf hc =>
    rename_i d' Γc env cs
    have := lookupTypeDecl_unique hd hd'
    subst this
    obtain ⟨c, hc1, hc2, hc3⟩ := nthClause_ok d.xtors cs i xt hm hx
    have hal : (Γa ++ [b]).length - 1 = c.ctx.length := by
      have : Γa.length = c.ctx.length := by
        rw [← chiTys_length Γa, hs', ← hxs, hc2, chiTys_length]
      simp [this]
    simp only [step, List.getLast?_concat, if_neg hcnd, htp, hc1, hal, ne_eq, not_true_eq_false,
      if_false, List.dropLast_concat, StepSafe, StateTyped]
    refine ⟨by simpa using hc3 _ _ _ _ hc, ?_⟩
    rw [chiTys_append]
    refine FieldsTyped.append ?_ hf
    rw [← hc2, hxs, ← hs']
    exact h1

theorem safe_call (hP : LinTypedProg P) {Γ ρ l args params}
    (hf : findSig P.sigs l = some params) (hc : Γ.chiTys = params.chiTys)
    (henv : FieldsTyped P ρ Γ.chiTys) : StepSafe P (step P ⟨Γ, ρ, .call l args⟩) := by
  obtain ⟨d, hd, hctx, hmem⟩ := findDef_ok hf
  have hρ : ρ.length = Γ.length := by rw [henv.length_eq, chiTys_length]
  have hcnd : ¬ (chiTys Γ ≠ chiTys d.ctx ∨ ρ.length ≠ Γ.length) := by
    have : chiTys Γ = chiTys d.ctx := by
      have := hc; rw [← hctx] at this; exact this
    simp [this, hρ]
  simp only [step, hd, if_neg hcnd, StepSafe, StateTyped]
  refine ⟨hP d hmem, ?_⟩
  have : Ctx.chiTys d.ctx = Ctx.chiTys Γ := by rw [hctx]; exact hc.symm
  rw [this]; exact henv

theorem build_ok {Γ : Ctx} {ρ : List Value} (henv : FieldsTyped P ρ Γ.chiTys) (hn : NodupIds Γ) :
    ∀ (pairs : List (Binding × Ident)), (∀ p ∈ pairs, HasVar Γ p.2.id p.1.chi p.1.ty) →
      ∃ vs, step.build Γ ρ pairs = .ok vs ∧ FieldsTyped P vs (Ctx.chiTys (pairs.map (·.1)))
  | [], _ => ⟨[], by simp [step.build], by simpa [Ctx.chiTys] using FieldsTyped.nil⟩
  | p :: ps, h => by
    obtain ⟨v, hv1, hv2⟩ := readVar_ok henv hn (h p (by simp))
    obtain ⟨vs, h1, h2⟩ := build_ok henv hn ps (fun q hq => h q (List.mem_cons_of_mem _ hq))
    refine ⟨v :: vs, by simp [step.build, hv1, h1], ?_⟩
    simpa [Ctx.chiTys] using FieldsTyped.cons hv2 h2

theorem safe_subst {Γ ρ pairs next} (hn : NodupIds Γ)
    (hp : ∀ p ∈ pairs, HasVar Γ p.2.id p.1.chi p.1.ty)
    (hnext : LinTyped P.types P.sigs (pairs.map (·.1)) next)
    (henv : FieldsTyped P ρ Γ.chiTys) : StepSafe P (step P ⟨Γ, ρ, .subst pairs next⟩) := by
  obtain ⟨vs, h1, h2⟩ := build_ok henv hn pairs hp
  simp only [step, h1, StepSafe, StateTyped]
  exact ⟨hnext, h2⟩

/-- preservation + progress in one step -/
theorem step_safe (hP : LinTypedProg P) (st : State) (h : StateTyped P st) :
    StepSafe P (step P st) := by
  obtain ⟨Γ, ρ, s⟩ := st
  obtain ⟨hty, henv⟩ := h
  simp only at hty henv
  cases hty with
  | subst hn hp _ hnext => exact safe_subst hn hp hnext henv
  | call hn hf hc => exact safe_call hP hf hc henv
  | letS hn e hk hs hs' _ hnext => subst e; exact safe_let hk hs hs' hnext henv
  | switch hn e hb hd hm hc => subst e; exact safe_switch hb hd hm hc henv
  | create hn e hk hd hm hc _ hnext => subst e; exact safe_create hk hd hm hc hnext henv
  | invoke hn e hb hs hs' => subst e; exact safe_invoke hb hs hs' henv
  | lit hn _ hnext => exact safe_lit hn hnext henv
  | op hn ha hb _ hnext => exact safe_op hn ha hb hnext henv
  | print hn ha hnext => exact safe_print hn ha hnext henv
  | ifc hn ha hb ht he => exact safe_ifc hn ha hb ht he henv
  | exit hn ha => exact safe_exit hn ha henv

def ResSafe : Result → Prop
  | .done _ => True
  | .outOfFuel => True
  | .stuck why => why = .divByZero ∨ why = .overflow

theorem runState_safe (hP : LinTypedProg P) : ∀ (fuel : Nat) (st : State) (out : List (Bool × BitVec 64)),
    StateTyped P st → ResSafe (runState P fuel st out).res
  | 0, _, _, _ => by simp [runState, ResSafe]
  | fuel + 1, st, out, h => by
    have hs := step_safe hP st h
    simp only [runState]
    cases hstep : step P st with
    | done v => simp [ResSafe]
    | stuck w => rw [hstep] at hs; exact hs
    | next st' o =>
      rw [hstep] at hs
      exact runState_safe hP fuel st' _ hs

theorem ints_typed : ∀ (Γ : Ctx) (args : List (BitVec 64)), Γ.length = args.length →
    (∀ b ∈ Γ, b.chi = .ext ∧ b.ty = .i64) → FieldsTyped P (args.map .int) Γ.chiTys
  | [], [], _, _ => by simpa [Ctx.chiTys] using FieldsTyped.nil
  | [], _ :: _, h, _ => by simp at h
  | _ :: _, [], h, _ => by simp at h
  | b :: Γ, a :: as, h, hb => by
    have h0 := hb b (by simp)
    have := ints_typed Γ as (by simpa using h) (fun c hc => hb c (List.mem_cons_of_mem _ hc))
    simp only [Ctx.chiTys, List.map_cons, h0.1, h0.2]
    exact .cons (.int a) this

/-- T5: on an ordered-linearly typed program whose entry takes integers the positional machine
stops only with `done`, division by zero or overflow (or runs out of fuel): no shape violation,
no unbound variable, no value of the wrong sort, no failed lookup. -/
theorem run_safe (hP : LinTypedProg P) (args : List (BitVec 64)) (fuel : Nat)
    (hentry : ∀ d, P.defs.head? = some d →
      d.ctx.length = args.length ∧ ∀ b ∈ d.ctx, b.chi = .ext ∧ b.ty = .i64)
    (hne : P.defs ≠ []) : ResSafe (run P args fuel).res := by
  unfold run
  cases hd : P.defs with
  | nil => exact absurd hd hne
  | cons d ds =>
    obtain ⟨hl, hb⟩ := hentry d (by simp [hd])
    have hc : ¬ (d.ctx.length ≠ args.length) := by simp [hl]
    simp only [if_neg hc]
    apply runState_safe hP
    exact ⟨hP d (by simp [hd]), ints_typed d.ctx args hl hb⟩

end Scc.AxCut.Pos
