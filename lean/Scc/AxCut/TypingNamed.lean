/-
  Scc.AxCut.TypingNamed — the (non-linear) typing relation of AxCut programs `WTax` that matches the
  named machine of `Scc/AxCut/SemNamed.lean`, and its executable checker `wtAxCheck`.
  This is a spec (not transcribed from Rust).   Core imports only; executable.

  Environments are lists of bindings, the newest binding in front; a variable occurrence
  `x : chi ty` is well-typed in Γ if the FIRST binding of Γ with the id of `x` is exactly
  `x : chi ty` (the machine looks variables up by id and takes the first hit).  Variables may be
  used any number of times.
  * `let x : T = K(args); s`   : `K(sig) ∈ T`, args match sig in length, kind and type, `s` under `x : prd T`
  * `switch x : T {clauses}`   : `x : prd T`, exactly one clause per xtor of `T`, in declaration
                                 order, clause parameters match the signature in kind and type
  * `create x : T = {clauses}; s` : clauses as for `switch`, typed in the captured environment
                                 (the whole Γ, or the annotated closure environment), `s` under `x : cns T`
  * `invoke x K(args)`         : `x : cns T`, `K(sig) ∈ T`, args match sig
  * `call f(args)`             : args match the parameter list of `f` in length, kind and type
  * `lit`, `op`, `print`, `ifc`, `exit` : operands are `ext i64`, results are `ext i64`
  * `subst [(new_i, old_i)]; s` : `old_i` bound with the kind and type of `new_i`, `s` under `[new_i]`
-/
import Scc.AxCut.Syntax

namespace Scc.AxCut.Named

open Scc.AxCut

/-- first binding with the given id -/
def lookupB (Γ : Ctx) (i : Nat) : Option Binding := Γ.find? (fun b => b.var.id == i)

/-- the occurrence `b` is well-typed in Γ -/
def occOk (Γ : Ctx) (b : Binding) : Bool := lookupB Γ b.var.id == some b

/-- `x : ext i64` -/
def intOk (Γ : Ctx) (x : Ident) : Bool := occOk Γ ⟨x, .ext, .i64⟩

/-- arguments against a signature: same length, kinds and types agree, every argument bound -/
def argsOk (Γ : Ctx) : Ctx → Ctx → Bool
  | [], [] => true
  | a :: as, s :: ss => occOk Γ a && a.chi == s.chi && a.ty == s.ty && argsOk Γ as ss
  | _, _ => false

/-- clause parameters against a signature: same length, kinds and types agree -/
def paramsOk : Ctx → Ctx → Bool
  | [], [] => true
  | a :: as, s :: ss => a.chi == s.chi && a.ty == s.ty && paramsOk as ss
  | _, _ => false

def findXtor (d : TypeDecl) (tag : Ident) : Option XtorSig := d.xtors.find? (fun x => x.name == tag)

def findDefSig (sigs : List (Ident × Ctx)) (f : Ident) : Option Ctx :=
  match sigs.find? (fun p => p.1 == f) with
  | some p => some p.2
  | none => none

def substOk (Γ : Ctx) : List (Binding × Ident) → Bool
  | [] => true
  | (b, old) :: rest =>
    (match lookupB Γ old.id with
     | some o => o.chi == b.chi && o.ty == b.ty
     | none => false) && substOk Γ rest

/-! ## the relation -/

inductive ArgsOk (Γ : Ctx) : Ctx → Ctx → Prop where
  | nil : ArgsOk Γ [] []
  | cons {a s : Binding} {as ss : Ctx} : lookupB Γ a.var.id = some a → a.chi = s.chi → a.ty = s.ty →
      ArgsOk Γ as ss → ArgsOk Γ (a :: as) (s :: ss)

inductive ParamsOk : Ctx → Ctx → Prop where
  | nil : ParamsOk [] []
  | cons {a s : Binding} {as ss : Ctx} : a.chi = s.chi → a.ty = s.ty → ParamsOk as ss → ParamsOk (a :: as) (s :: ss)

inductive SubstOk (Γ : Ctx) : List (Binding × Ident) → Prop where
  | nil : SubstOk Γ []
  | cons {b o : Binding} {old : Ident} {rest : List (Binding × Ident)} :
      lookupB Γ old.id = some o → o.chi = b.chi → o.ty = b.ty → SubstOk Γ rest → SubstOk Γ ((b, old) :: rest)

mutual
  /-- `WTStmt types sigs Γ s` -/
  inductive WTStmt (types : List TypeDecl) (sigs : List (Ident × Ctx)) : Ctx → Stmt → Prop where
    | subst {Γ pairs next} : SubstOk Γ pairs → WTStmt types sigs (pairs.map (·.1)) next →
        WTStmt types sigs Γ (.subst pairs next)
    | call {Γ label args params} : findDefSig sigs label = some params → ArgsOk Γ args params →
        WTStmt types sigs Γ (.call label args)
    | letS {Γ v ty tag args next fv d x} : lookupTypeDecl types ty = some d → findXtor d tag = some x →
        ArgsOk Γ args x.args → WTStmt types sigs (⟨v, .prd, ty⟩ :: Γ) next →
        WTStmt types sigs Γ (.letS v ty tag args next fv)
    | switch {Γ v ty cs fv d} : lookupB Γ v.id = some ⟨v, .prd, ty⟩ → lookupTypeDecl types ty = some d →
        WTClauses types sigs Γ d.xtors cs → WTStmt types sigs Γ (.switch v ty cs fv)
    | createNone {Γ v ty cs next fc fn d} : lookupTypeDecl types ty = some d →
        WTClauses types sigs Γ d.xtors cs → WTStmt types sigs (⟨v, .cns, ty⟩ :: Γ) next →
        WTStmt types sigs Γ (.create v ty none cs next fc fn)
    | createSome {Γ v ty env cs next fc fn d} : lookupTypeDecl types ty = some d → ArgsOk Γ env env →
        WTClauses types sigs env d.xtors cs → WTStmt types sigs (⟨v, .cns, ty⟩ :: Γ) next →
        WTStmt types sigs Γ (.create v ty (some env) cs next fc fn)
    | invoke {Γ v tag ty args d x} : lookupB Γ v.id = some ⟨v, .cns, ty⟩ → lookupTypeDecl types ty = some d →
        findXtor d tag = some x → ArgsOk Γ args x.args → WTStmt types sigs Γ (.invoke v tag ty args)
    | lit {Γ v n next fv} : WTStmt types sigs (⟨v, .ext, .i64⟩ :: Γ) next → WTStmt types sigs Γ (.lit v n next fv)
    | op {Γ v a o b next fv} : lookupB Γ a.id = some ⟨a, .ext, .i64⟩ → lookupB Γ b.id = some ⟨b, .ext, .i64⟩ →
        WTStmt types sigs (⟨v, .ext, .i64⟩ :: Γ) next → WTStmt types sigs Γ (.op v a o b next fv)
    | print {Γ nl v next fv} : lookupB Γ v.id = some ⟨v, .ext, .i64⟩ → WTStmt types sigs Γ next →
        WTStmt types sigs Γ (.print nl v next fv)
    | ifz {Γ s a t e} : lookupB Γ a.id = some ⟨a, .ext, .i64⟩ → WTStmt types sigs Γ t → WTStmt types sigs Γ e →
        WTStmt types sigs Γ (.ifc s a none t e)
    | ifc {Γ s a b t e} : lookupB Γ a.id = some ⟨a, .ext, .i64⟩ → lookupB Γ b.id = some ⟨b, .ext, .i64⟩ →
        WTStmt types sigs Γ t → WTStmt types sigs Γ e → WTStmt types sigs Γ (.ifc s a (some b) t e)
    | exit {Γ v} : lookupB Γ v.id = some ⟨v, .ext, .i64⟩ → WTStmt types sigs Γ (.exit v)
  /-- one clause per declared xtor, in declaration order; bodies under `params ++ Γ` -/
  inductive WTClauses (types : List TypeDecl) (sigs : List (Ident × Ctx)) : Ctx → List XtorSig → Clauses → Prop where
    | nil {Γ} : WTClauses types sigs Γ [] .nil
    | cons {Γ x xs tag ctx body rest} : tag = x.name → ParamsOk ctx x.args → WTStmt types sigs (ctx ++ Γ) body →
        WTClauses types sigs Γ xs rest → WTClauses types sigs Γ (x :: xs) (.cons tag ctx body rest)
end

def progSigs (p : Prog) : List (Ident × Ctx) := p.defs.map fun d => (d.name, d.ctx)

/-- every definition body is well-typed under its parameter list -/
def WTax (p : Prog) : Prop := ∀ d ∈ p.defs, WTStmt p.types (progSigs p) d.ctx d.body

/-! ## the checker -/

mutual
  def wtStmtB (types : List TypeDecl) (sigs : List (Ident × Ctx)) : Ctx → Stmt → Bool
    | Γ, .subst pairs next => substOk Γ pairs && wtStmtB types sigs (pairs.map (·.1)) next
    | Γ, .call label args =>
      match findDefSig sigs label with
      | some params => argsOk Γ args params
      | none => false
    | Γ, .letS v ty tag args next _ =>
      match lookupTypeDecl types ty with
      | some d =>
        match findXtor d tag with
        | some x => argsOk Γ args x.args && wtStmtB types sigs (⟨v, .prd, ty⟩ :: Γ) next
        | none => false
      | none => false
    | Γ, .switch v ty cs _ =>
      occOk Γ ⟨v, .prd, ty⟩ &&
      match lookupTypeDecl types ty with
      | some d => wtClausesB types sigs Γ d.xtors cs
      | none => false
    | Γ, .create v ty env cs next _ _ =>
      match lookupTypeDecl types ty with
      | some d =>
        (match env with
         | none => wtClausesB types sigs Γ d.xtors cs
         | some e => argsOk Γ e e && wtClausesB types sigs e d.xtors cs) &&
        wtStmtB types sigs (⟨v, .cns, ty⟩ :: Γ) next
      | none => false
    | Γ, .invoke v tag ty args =>
      occOk Γ ⟨v, .cns, ty⟩ &&
      match lookupTypeDecl types ty with
      | some d =>
        match findXtor d tag with
        | some x => argsOk Γ args x.args
        | none => false
      | none => false
    | Γ, .lit v _ next _ => wtStmtB types sigs (⟨v, .ext, .i64⟩ :: Γ) next
    | Γ, .op v a _ b next _ => intOk Γ a && intOk Γ b && wtStmtB types sigs (⟨v, .ext, .i64⟩ :: Γ) next
    | Γ, .print _ v next _ => intOk Γ v && wtStmtB types sigs Γ next
    | Γ, .ifc _ a b t e =>
      intOk Γ a && (match b with | none => true | some b => intOk Γ b) &&
      wtStmtB types sigs Γ t && wtStmtB types sigs Γ e
    | Γ, .exit v => intOk Γ v
  def wtClausesB (types : List TypeDecl) (sigs : List (Ident × Ctx)) : Ctx → List XtorSig → Clauses → Bool
    | _, [], .nil => true
    | Γ, x :: xs, .cons tag ctx body rest =>
      tag == x.name && paramsOk ctx x.args && wtStmtB types sigs (ctx ++ Γ) body &&
      wtClausesB types sigs Γ xs rest
    | _, _, _ => false
end

def wtDefB (p : Prog) (d : Def) : Bool := wtStmtB p.types (progSigs p) d.ctx d.body

/-- `ok ()` iff every definition passes; otherwise the name of the first ill-typed definition -/
def wtAxCheck (p : Prog) : Except String Unit :=
  match p.defs.find? (fun d => !(wtDefB p d)) with
  | none => .ok ()
  | some d => .error ("ill-typed definition " ++ d.name.print)

/-- input: text of an `(axprog ..)` dump; output `OK` | `ILL ..` | `ERR ..` -/
def checkLine (dump : String) : String :=
  match Sexp.parse dump with
  | none => "ERR sexp"
  | some sx =>
    match readProg (dump.length + 10) sx with
    | none => "ERR read"
    | some p =>
      match wtAxCheck p with
      | .ok () => "OK"
      | .error e => "ILL " ++ e

end Scc.AxCut.Named
