/-
  Scc.AxCut.SemNamed — specification of the AxCut abstract machine in NAMED mode
  (DESIGN.md §4 "AxCut machine"): the environment is an association list  id ↦ value, variables may
  be used any number of times.  This is a spec (it is not transcribed from Rust code); it gives
  the meaning of the AxCut programs produced by core2axcut (dump S4) and, through `fillArgs`, also
  of the linearized programs produced by `linearize` (dump S5).   Core imports only; executable.

  Conventions
  * variables are identified by their numeric id only (as everywhere in the axcut crate:
    `Subst`, `FreeVars`, `filter_by_set` all look at `Identifier::id`); xtor tags and labels are
    compared as whole identifiers.
  * values: `int`, `obj tag fields` (built by `let`), `clo env clauses` (built by `create`).
  * new bindings are put in FRONT of the environment, lookup takes the first hit.
  * `subst [(new_i, old_i)]` is the simultaneous rebinding: the new environment is exactly
    `[new_i ↦ env(old_i)]` (everything else is dropped, as in the positional machine).
  * `create` with an annotated closure environment (`some ctx`, linearized programs) captures
    exactly those variables; without annotation it captures the whole current environment.
  * integers are `BitVec 64`; `+ - *` wrap; `/` and `%` are `sdiv`/`srem`, stuck with
    `divByZero` on a zero divisor and with `overflow` on `MIN / -1`, `MIN % -1`.
  * `exit v` is the only way to finish: result `done env(v)`.
-/
import Scc.AxCut.Syntax

namespace Scc.AxCut.Named

open Scc.AxCut

inductive Value where
  | int (v : BitVec 64)
  | obj (tag : Ident) (fields : List Value)
  | clo (env : List (Nat × Value)) (clauses : Clauses)

instance : Inhabited Value := ⟨.int 0⟩

abbrev Env := List (Nat × Value)

inductive Res where
  | done (v : BitVec 64)
  | stuck (why : String)
  | outOfFuel

structure Behaviour where
  out : List (Bool × BitVec 64)
  res : Res

def lookup (env : Env) (i : Nat) : Option Value :=
  match env.find? (fun p => p.1 == i) with
  | some p => some p.2
  | none => none

/-- values of a list of argument bindings in the current environment -/
def lookupAll (env : Env) : Ctx → Option (List Value)
  | [] => some []
  | b :: bs =>
    match lookup env b.var.id, lookupAll env bs with
    | some v, some vs => some (v :: vs)
    | _, _ => none

/-- bind parameters positionally; `none` if the lengths differ -/
def bindParams : Ctx → List Value → Option Env
  | [], [] => some []
  | b :: bs, v :: vs =>
    match bindParams bs vs with
    | some e => some ((b.var.id, v) :: e)
    | none => none
  | _, _ => none

/-- the simultaneous rebinding of `subst`: `[new_i ↦ env(old_i)]` -/
def substEnv (env : Env) : List (Binding × Ident) → Option Env
  | [] => some []
  | (b, old) :: rest =>
    match lookup env old.id, substEnv env rest with
    | some v, some e => some ((b.var.id, v) :: e)
    | _, _ => none

def findClause (tag : Ident) : Clauses → Option (Ctx × Stmt)
  | .nil => none
  | .cons x ctx body rest => if x == tag then some (ctx, body) else findClause tag rest

def findDef (p : Prog) (label : Ident) : Option Def := p.defs.find? (fun d => d.name == label)

def minInt : BitVec 64 := BitVec.intMin 64

/-- arithmetic: `inl why` = stuck -/
def evalOp (o : BinOp) (a b : BitVec 64) : Except String (BitVec 64) :=
  match o with
  | .sum => .ok (a + b)
  | .sub => .ok (a - b)
  | .prod => .ok (a * b)
  | .div =>
    if b == 0 then .error "divByZero"
    else if a == minInt && b == -1 then .error "overflow"
    else .ok (a.sdiv b)
  | .rem =>
    if b == 0 then .error "divByZero"
    else if a == minInt && b == -1 then .error "overflow"
    else .ok (a.srem b)

def evalCmp (s : IfSort) (a b : BitVec 64) : Bool :=
  match s with
  | .eq => a == b
  | .ne => a != b
  | .lt => a.slt b
  | .le => a.sle b
  | .gt => b.slt a
  | .ge => b.sle a

structure State where
  stmt : Stmt
  env : Env
  out : List (Bool × BitVec 64)

inductive StepResult where
  | next (s : State)
  | halt (out : List (Bool × BitVec 64)) (r : Res)

def stuck (st : State) (why : String) : StepResult := .halt st.out (.stuck why)

/-- one machine step -/
def step (p : Prog) (st : State) : StepResult :=
  match st.stmt with
  | .subst pairs next =>
    match substEnv st.env pairs with
    | some env' => .next { st with stmt := next, env := env' }
    | none => stuck st "subst: unbound variable"
  | .call label args =>
    match findDef p label with
    | none => stuck st "call: unknown label"
    | some d =>
      match lookupAll st.env args with
      | none => stuck st "call: unbound argument"
      | some vs =>
        match bindParams d.ctx vs with
        | none => stuck st "call: arity"
        | some env' => .next { st with stmt := d.body, env := env' }
  | .letS v _ tag args next _ =>
    match lookupAll st.env args with
    | none => stuck st "let: unbound argument"
    | some vs => .next { st with stmt := next, env := (v.id, .obj tag vs) :: st.env }
  | .switch v _ clauses _ =>
    match lookup st.env v.id with
    | some (.obj tag fields) =>
      match findClause tag clauses with
      | none => stuck st "switch: no clause for tag"
      | some (ctx, body) =>
        match bindParams ctx fields with
        | none => stuck st "switch: arity"
        | some e => .next { st with stmt := body, env := e ++ st.env }
    | some _ => stuck st "switch: not an object"
    | none => stuck st "switch: unbound variable"
  | .create v _ envAnn clauses next _ _ =>
    match envAnn with
    | none => .next { st with stmt := next, env := (v.id, .clo st.env clauses) :: st.env }
    | some ctx =>
      match lookupAll st.env ctx with
      | none => stuck st "create: unbound closure variable"
      | some vs =>
        match bindParams ctx vs with
        | none => stuck st "create: impossible"
        | some cenv => .next { st with stmt := next, env := (v.id, .clo cenv clauses) :: st.env }
  | .invoke v tag _ args =>
    match lookup st.env v.id with
    | some (.clo cenv clauses) =>
      match findClause tag clauses with
      | none => stuck st "invoke: no clause for tag"
      | some (ctx, body) =>
        match lookupAll st.env args with
        | none => stuck st "invoke: unbound argument"
        | some vs =>
          match bindParams ctx vs with
          | none => stuck st "invoke: arity"
          | some e => .next { st with stmt := body, env := e ++ cenv }
    | some _ => stuck st "invoke: not a closure"
    | none => stuck st "invoke: unbound variable"
  | .lit v n next _ =>
    .next { st with stmt := next, env := (v.id, .int (BitVec.ofInt 64 n)) :: st.env }
  | .op v a o b next _ =>
    match lookup st.env a.id, lookup st.env b.id with
    | some (.int x), some (.int y) =>
      match evalOp o x y with
      | .ok r => .next { st with stmt := next, env := (v.id, .int r) :: st.env }
      | .error why => stuck st why
    | _, _ => stuck st "op: operand not an integer"
  | .print nl v next _ =>
    match lookup st.env v.id with
    | some (.int x) => .next { st with stmt := next, out := st.out ++ [(nl, x)] }
    | _ => stuck st "print: operand not an integer"
  | .ifc s a b thenc elsec =>
    match lookup st.env a.id with
    | some (.int x) =>
      match b with
      | none => .next { st with stmt := if evalCmp s x 0 then thenc else elsec }
      | some b =>
        match lookup st.env b.id with
        | some (.int y) => .next { st with stmt := if evalCmp s x y then thenc else elsec }
        | _ => stuck st "ifc: operand not an integer"
    | _ => stuck st "ifc: operand not an integer"
  | .exit v =>
    match lookup st.env v.id with
    | some (.int x) => .halt st.out (.done x)
    | _ => stuck st "exit: operand not an integer"

def iterate (p : Prog) : Nat → State → Behaviour
  | 0, st => ⟨st.out, .outOfFuel⟩
  | fuel + 1, st =>
    match step p st with
    | .next st' => iterate p fuel st'
    | .halt out r => ⟨out, r⟩

/-- run the first definition (`main`) on integer arguments -/
def run (p : Prog) (args : List (BitVec 64)) (fuel : Nat) : Behaviour :=
  match p.defs with
  | [] => ⟨[], .stuck "no definitions"⟩
  | d :: _ =>
    match bindParams d.ctx (args.map Value.int) with
    | none => ⟨[], .stuck "main: arity"⟩
    | some env => iterate p fuel ⟨d.body, env, []⟩

/-! ## linearized programs: restoring the implicit arguments of `call` and `invoke`

`linearize` empties the argument lists of `call` and `invoke` (`std::mem::take`): in a linearized
program the arguments are the current context (all of it for `call`, all but the last binding for
`invoke`).  `fillArgs` threads the static context exactly as the ordered-linear typing rules do
and writes the arguments back, so that the named machine can run S5 dumps. A `call`/`invoke`
that still has arguments is left alone (so `fillArgs` is the identity on S4 programs up to the
threaded context, which is only used where argument lists are empty). -/

def removeIds (ids : List Nat) (c : Ctx) : Ctx := c.filter (fun b => !(ids.contains b.var.id))

mutual
  def fillStmt (p : Prog) : Stmt → Ctx → Stmt
    | .subst pairs next, _ => .subst pairs (fillStmt p next (pairs.map (·.1)))
    | .call label args, ctx =>
      match args, findDef p label with
      | [], some d => if d.ctx.isEmpty then .call label [] else .call label ctx
      | _, _ => .call label args
    | .letS v ty tag args next fv, ctx =>
      .letS v ty tag args (fillStmt p next (removeIds (args.map (·.var.id)) ctx ++ [⟨v, .prd, ty⟩])) fv
    | .switch v ty cs fv, ctx => .switch v ty (fillClauses p cs (removeIds [v.id] ctx) true) fv
    | .create v ty env cs next fc fn, ctx =>
      let clo := env.getD ctx
      let ctxNext := match env with
        | none => ctx
        | some e => removeIds (e.map (·.var.id)) ctx
      .create v ty env (fillClauses p cs clo false) (fillStmt p next (ctxNext ++ [⟨v, .cns, ty⟩])) fc fn
    | .invoke v tag ty args, ctx =>
      match args with
      | [] => .invoke v tag ty (removeIds [v.id] ctx)
      | _ => .invoke v tag ty args
    | .lit v n next fv, ctx => .lit v n (fillStmt p next (ctx ++ [⟨v, .ext, .i64⟩])) fv
    | .op v a o b next fv, ctx => .op v a o b (fillStmt p next (ctx ++ [⟨v, .ext, .i64⟩])) fv
    | .print nl v next fv, ctx => .print nl v (fillStmt p next ctx) fv
    | .ifc s a b t e, ctx => .ifc s a b (fillStmt p t ctx) (fillStmt p e ctx)
    | .exit v, _ => .exit v
  /-- `front = true`: switch clauses run under `Γ' ++ Δ`; `false`: create clauses under `Δ ++ Γ_clo` -/
  def fillClauses (p : Prog) : Clauses → Ctx → Bool → Clauses
    | .nil, _, _ => .nil
    | .cons x c body rest, ctx, front =>
      .cons x c (fillStmt p body (if front then ctx ++ c else c ++ ctx)) (fillClauses p rest ctx front)
end

def fillArgs (p : Prog) : Prog :=
  { p with defs := p.defs.map fun d => { d with body := fillStmt p d.body d.ctx } }

/-! ## line interface -/

def showInt (v : BitVec 64) : String := toString v.toInt

def Res.render : Res → String
  | .done v => "done " ++ showInt v
  | .stuck why => "stuck " ++ why
  | .outOfFuel => "outOfFuel"

def Behaviour.render (b : Behaviour) : String :=
  "out=[" ++ ",".intercalate (b.out.map fun (nl, v) => (if nl then "nl:" else "nonl:") ++ showInt v)
    ++ "] res=" ++ b.res.render

def parseArgs (s : String) : Option (List (BitVec 64)) :=
  let ws := (s.trimAscii.toString.splitOn " ").filter (fun w => w != "")
  ws.mapM fun w => w.toInt?.map (BitVec.ofInt 64)

/-- `dump`: text of an `(axprog ..)` dump (S4, or S5 with `linearized = true`); `args`: the integer
    arguments separated by blanks.  Output `OK out=[nl:v,..] res=done v|stuck why|outOfFuel` or `ERR ..` -/
def runLineNamed (dump : String) (args : String) (fuel : Nat) (linearized : Bool := false) : String :=
  match Sexp.parse dump with
  | none => "ERR sexp"
  | some sx =>
    match readProg (dump.length + 10) sx with
    | none => "ERR read"
    | some p =>
      match parseArgs args with
      | none => "ERR args"
      | some vs => "OK " ++ (run (if linearized then fillArgs p else p) vs fuel).render

end Scc.AxCut.Named
