/-
  Scc.AxCut.SizeLin — C19 for linearization (S4 → S5).

  Measures on AxCut statements:
    `Stmt.size`      node count (Linearize.lean; statement and clause nodes)
    `weight`    node count + the lengths of all lists the nodes carry (explicit substitutions,
                     argument lists, clause contexts, closure environments)
    `binders`   the largest number of variables bound along one path (let/create/lit/op: 1, a
                     clause: its parameters)
    `argsMax`   the longest argument list of a call / let / invoke
    `ctxCap n s`     the longest context the code generator (and the positional machine) sees while it
                     walks through the LINEARIZED statement `s`, entered with a context of length `n`
                     (exact bookkeeping: a `let` consumes its arguments, a `create` its environment,
                     a `switch` its scrutinee).
  Results, for every fuel, statement, context (no typing hypothesis):
    * at most ONE explicit substitution per statement node:       |lin s| ≤ 2·|s|           (nodes)
    * every context in the output is short:
        ctxCap |Γ| (lin s Γ) ≤ 2·(|Γ| + binders s) + argsMax s + 1
      (factor 2: the substitution in front of a `create` lists the variables of the continuation AND
      those of the closure environment — a variable used by both is duplicated there)
    * the lists it adds are bounded by these contexts: quadratic bound
        weight (lin s Γ) ≤ weight s + |s|·(3 + 4·(|Γ| + binders s) + 2·argsMax s)
  Proof file.
-/
import Scc.AxCut.LinLemmas

namespace Scc.AxCut.SizeLin

open Scc.AxCut

/-! ## measures -/

mutual
  def weight : Stmt → Nat
    | .subst pairs next => 1 + pairs.length + (weight next)
    | .call _ args => 1 + args.length
    | .letS _ _ _ args next _ => 1 + args.length + (weight next)
    | .switch _ _ cs _ => 1 + (weightC cs)
    | .create _ _ env cs next _ _ => 1 + (env.getD []).length + (weightC cs) + (weight next)
    | .invoke _ _ _ args => 1 + args.length
    | .lit _ _ next _ => 1 + (weight next)
    | .op _ _ _ _ next _ => 1 + (weight next)
    | .print _ _ next _ => 1 + (weight next)
    | .ifc _ _ _ t e => 1 + (weight t) + (weight e)
    | .exit _ => 1
  def weightC : Clauses → Nat
    | .nil => 0
    | .cons _ ctx body rest => 1 + ctx.length + (weight body) + (weightC rest)
end

mutual
  def binders : Stmt → Nat
    | .subst _ next => (binders next)
    | .call _ _ => 0
    | .letS _ _ _ _ next _ => (binders next) + 1
    | .switch _ _ cs _ => (bindersC cs)
    | .create _ _ _ cs next _ _ => max (bindersC cs) ((binders next) + 1)
    | .invoke _ _ _ _ => 0
    | .lit _ _ next _ => (binders next) + 1
    | .op _ _ _ _ next _ => (binders next) + 1
    | .print _ _ next _ => (binders next)
    | .ifc _ _ _ t e => max (binders t) (binders e)
    | .exit _ => 0
  def bindersC : Clauses → Nat
    | .nil => 0
    | .cons _ ctx body rest => max (ctx.length + (binders body)) (bindersC rest)
end

mutual
  def argsMax : Stmt → Nat
    | .subst pairs next => max pairs.length (argsMax next)
    | .call _ args => args.length
    | .letS _ _ _ args next _ => max args.length (argsMax next)
    | .switch _ _ cs _ => (argsMaxC cs)
    | .create _ _ _ cs next _ _ => max (argsMaxC cs) (argsMax next)
    | .invoke _ _ _ args => args.length
    | .lit _ _ next _ => (argsMax next)
    | .op _ _ _ _ next _ => (argsMax next)
    | .print _ _ next _ => (argsMax next)
    | .ifc _ _ _ t e => max (argsMax t) (argsMax e)
    | .exit _ => 0
  def argsMaxC : Clauses → Nat
    | .nil => 0
    | .cons _ _ body rest => max (argsMax body) (argsMaxC rest)
end

mutual
  /-- the longest context while walking through a linearized statement entered with `n` variables -/
  def ctxCap : Nat → Stmt → Nat
    | n, .subst pairs next => max n (ctxCap pairs.length next)
    | n, .call _ _ => n
    | n, .letS _ _ _ args next _ => max n (ctxCap (n - args.length + 1) next)
    | n, .switch _ _ cl _ => max n (ctxCapClauses (n - 1) cl)
    | n, .create _ _ env cl next _ _ =>
      max (max n (ctxCap (n - (env.getD []).length + 1) next)) (ctxCapClauses (env.getD []).length cl)
    | n, .invoke _ _ _ _ => n
    | n, .lit _ _ next _ => max n (ctxCap (n + 1) next)
    | n, .op _ _ _ _ next _ => max n (ctxCap (n + 1) next)
    | n, .print _ _ next _ => max n (ctxCap n next)
    | n, .ifc _ _ _ t e => max n (max (ctxCap n t) (ctxCap n e))
    | n, .exit _ => n
  /-- clause bodies are entered with their parameters and `m` further variables -/
  def ctxCapClauses : Nat → Clauses → Nat
    | _, .nil => 0
    | m, .cons _ ctx b r => max (ctxCap (m + ctx.length) b) (ctxCapClauses m r)
end

theorem le_ctxCap : ∀ (n : Nat) (s : Stmt), n ≤ ctxCap n s := by
  intro n s; cases s <;> simp only [ctxCap] <;> omega

/-! ## renaming and annotation keep all measures -/

mutual
  theorem substStmt_measures (σ : Subst) : (s : Stmt) →
      (substStmt σ s).size = s.size ∧ (weight (substStmt σ s)) = (weight s) ∧
      (binders (substStmt σ s)) = (binders s) ∧ (argsMax (substStmt σ s)) = (argsMax s)
    | .subst pairs next => by
      have := substStmt_measures σ next
      simp [substStmt, Stmt.size, weight, binders, argsMax, this]
    | .call _ _ => by simp [substStmt, Stmt.size, weight, binders, argsMax, substCtx]
    | .letS _ _ _ _ next _ => by
      have := substStmt_measures σ next
      simp [substStmt, Stmt.size, weight, binders, argsMax, substCtx, this]
    | .switch _ _ cs _ => by
      have := substClauses_measures σ cs
      simp [substStmt, Stmt.size, weight, binders, argsMax, this]
    | .create _ _ env cs next _ _ => by
      have h1 := substClauses_measures σ cs
      have h2 := substStmt_measures σ next
      cases env <;>
        simp [substStmt, Stmt.size, weight, binders, argsMax, substCtx, h1, h2]
    | .invoke _ _ _ _ => by simp [substStmt, Stmt.size, weight, binders, argsMax, substCtx]
    | .lit _ _ next _ => by
      have := substStmt_measures σ next
      simp [substStmt, Stmt.size, weight, binders, argsMax, this]
    | .op _ _ _ _ next _ => by
      have := substStmt_measures σ next
      simp [substStmt, Stmt.size, weight, binders, argsMax, this]
    | .print _ _ next _ => by
      have := substStmt_measures σ next
      simp [substStmt, Stmt.size, weight, binders, argsMax, this]
    | .ifc _ _ _ t e => by
      have h1 := substStmt_measures σ t
      have h2 := substStmt_measures σ e
      simp [substStmt, Stmt.size, weight, binders, argsMax, h1, h2]
    | .exit _ => by simp [substStmt, Stmt.size, weight, binders, argsMax]
  theorem substClauses_measures (σ : Subst) : (cs : Clauses) →
      (substClauses σ cs).size = cs.size ∧ (weightC (substClauses σ cs)) = (weightC cs) ∧
      (bindersC (substClauses σ cs)) = (bindersC cs) ∧ (argsMaxC (substClauses σ cs)) = (argsMaxC cs)
    | .nil => by simp [substClauses]
    | .cons _ _ body rest => by
      have h1 := substStmt_measures σ body
      have h2 := substClauses_measures σ rest
      simp [substClauses, Clauses.size, weightC, bindersC, argsMaxC, h1, h2]
end

mutual
  theorem freeVars_measures : (s : Stmt) →
      (freeVars s).1.size = s.size ∧ (weight (freeVars s).1) = (weight s) ∧
      (binders (freeVars s).1) = (binders s) ∧ (argsMax (freeVars s).1) = (argsMax s)
    | .subst pairs next => by
      have := freeVars_measures next
      simp [freeVars, Stmt.size, weight, binders, argsMax, this]
    | .call _ _ => by simp [freeVars]
    | .letS _ _ _ _ next _ => by
      have := freeVars_measures next
      simp [freeVars, Stmt.size, weight, binders, argsMax, this]
    | .switch _ _ cs _ => by
      have := freeVarsClauses_measures cs
      simp [freeVars, Stmt.size, weight, binders, argsMax, this]
    | .create _ _ env cs next _ _ => by
      have h1 := freeVarsClauses_measures cs
      have h2 := freeVars_measures next
      simp [freeVars, Stmt.size, weight, binders, argsMax, h1, h2]
    | .invoke _ _ _ _ => by simp [freeVars]
    | .lit _ _ next _ => by
      have := freeVars_measures next
      simp [freeVars, Stmt.size, weight, binders, argsMax, this]
    | .op _ _ _ _ next _ => by
      have := freeVars_measures next
      simp [freeVars, Stmt.size, weight, binders, argsMax, this]
    | .print _ _ next _ => by
      have := freeVars_measures next
      simp [freeVars, Stmt.size, weight, binders, argsMax, this]
    | .ifc _ _ _ t e => by
      have h1 := freeVars_measures t
      have h2 := freeVars_measures e
      simp [freeVars, Stmt.size, weight, binders, argsMax, h1, h2]
    | .exit _ => by simp [freeVars]
  theorem freeVarsClauses_measures : (cs : Clauses) →
      (freeVarsClauses cs).1.size = cs.size ∧ (weightC (freeVarsClauses cs).1) = (weightC cs) ∧
      (bindersC (freeVarsClauses cs).1) = (bindersC cs) ∧ (argsMaxC (freeVarsClauses cs).1) = (argsMaxC cs)
    | .nil => by simp [freeVarsClauses]
    | .cons _ _ body rest => by
      have h1 := freeVars_measures body
      have h2 := freeVarsClauses_measures rest
      simp [freeVarsClauses, Clauses.size, weightC, bindersC, argsMaxC, h1, h2]
end

/-! ## auxiliary lengths -/

theorem freshen_length : ∀ (Γ : Ctx) (cl : List Nat) (m : Nat), (freshen Γ cl m).1.length = Γ.length
  | [], _, _ => by simp [freshen]
  | b :: rest, cl, m => by
    simp only [freshen]
    split
    · simp [freshIdentifier, freshen_length rest]
    · simp [freshen_length rest]

theorem rearrange_length (a b : Ctx) : (rearrange a b).length = min a.length b.length := by
  simp [rearrange, Ctx.vars]

/-! ## the bounds -/

/-- the bound on the contexts of the linearization of `s` entered with `g` variables -/
def bd (g : Nat) (s : Stmt) : Nat := 2 * (g + (binders s)) + (argsMax s) + 1
def bdC (m : Nat) (cs : Clauses) : Nat := 2 * (m + (bindersC cs)) + (argsMaxC cs) + 1

def LinSizeGoal (n : Nat) : Prop := ∀ s Γ m s' m', linearize n s Γ m = .ok (s', m') →
  s'.size ≤ 2 * s.size ∧ ctxCap Γ.length s' ≤ bd Γ.length s ∧
  ∀ K, 1 + 2 * bd Γ.length s ≤ K → (weight s') ≤ (weight s) + s.size * K

def LinSizeGoalC (n : Nat) : Prop := ∀ cs pre post m cs' m',
  linearizeClauses n cs pre post m = .ok (cs', m') →
  cs'.size ≤ 2 * cs.size ∧
  ctxCapClauses (pre.length + post.length) cs' ≤ bdC (pre.length + post.length) cs ∧
  ∀ K, 1 + 2 * bdC (pre.length + post.length) cs ≤ K → (weightC cs') ≤ (weightC cs) + cs.size * K

set_option hygiene false in
/-- unfold all measures everywhere (using the length equation `hg` of the context, if there is one),
    then linear arithmetic -/
local macro "fin_lin" : tactic =>
  `(tactic| ((first
      | simp only [Stmt.size, Clauses.size, weight, weightC, binders,
          bindersC, argsMax, argsMaxC, ctxCap, ctxCapClauses, bd, bdC,
          List.length_append, List.length_singleton, List.length_cons, List.length_nil,
          rearrange_length, freshen_length, Option.getD, Nat.add_mul, Nat.one_mul,
          List.length_take, List.length_drop, Nat.add_sub_cancel, Nat.zero_add, Nat.add_zero,
          Nat.min_self, hg] at *
      | simp only [Stmt.size, Clauses.size, weight, weightC, binders,
          bindersC, argsMax, argsMaxC, ctxCap, ctxCapClauses, bd, bdC,
          List.length_append, List.length_singleton, List.length_cons, List.length_nil,
          rearrange_length, freshen_length, Option.getD, Nat.add_mul, Nat.one_mul,
          List.length_take, List.length_drop, Nat.add_sub_cancel, Nat.zero_add, Nat.add_zero,
          Nat.min_self] at *); omega))

theorem lin_goals : ∀ n, LinSizeGoal n ∧ LinSizeGoalC n := by
  intro n
  induction n with
  | zero =>
    constructor
    · intro s Γ m s' m' h; simp [linearize] at h
    · intro cs pre post m cs' m' h; simp [linearizeClauses] at h
  | succ n ih =>
    obtain ⟨ihs, ihc⟩ := ih
    constructor
    · intro s Γ m s' m' h
      cases s with
      | subst pairs next => simp [linearize] at h
      | call label args =>
        simp only [linearize] at h
        split at h
        · cases h; refine ⟨by fin_lin, by fin_lin, fun K hK => by fin_lin⟩
        · cases h; refine ⟨by fin_lin, by fin_lin, fun K hK => by fin_lin⟩
      | letS var ty tag args next fv =>
        simp only [linearize] at h
        split at h
        · cases h
        · next fvs =>
          have hl := filterBySet_length_le Γ fvs
          split at h
          · next heq =>
            have hg := congrArg List.length heq
            split at h
            · cases h
            · next next' m1 hn =>
              cases h
              obtain ⟨i1, i2, i3⟩ := ihs _ _ _ _ _ hn
              refine ⟨by fin_lin, by fin_lin, fun K hK => ?_⟩
              have j := i3 K (by fin_lin)
              fin_lin
          · split at h
            · cases h
            · next next' m1 hn =>
              cases h
              obtain ⟨i1, i2, i3⟩ := ihs _ _ _ _ _ hn
              refine ⟨by fin_lin, by fin_lin, fun K hK => ?_⟩
              have j := i3 K (by fin_lin)
              fin_lin
      | switch var ty clauses fv =>
        simp only [linearize] at h
        split at h
        · cases h
        · next fvs =>
          have hl := filterBySet_length_le Γ fvs
          split at h
          · cases h
          · next clauses' m1 hc =>
            obtain ⟨i1, i2, i3⟩ := ihc _ _ _ _ _ _ hc
            split at h
            · next heq =>
              have hg := congrArg List.length heq
              cases h
              refine ⟨by fin_lin, by fin_lin, fun K hK => ?_⟩
              have j := i3 K (by fin_lin)
              fin_lin
            · cases h
              refine ⟨by fin_lin, by fin_lin, fun K hK => ?_⟩
              have j := i3 K (by fin_lin)
              fin_lin
      | create var ty env clauses next fvc fvn =>
        simp only [linearize] at h
        split at h
        · cases h
        · next fvcs =>
          split at h
          · cases h
          · next fvns =>
            have hl := filterBySet_length_le Γ fvns
            have hl2 := filterBySet_length_le
              (List.drop (filterBySet Γ fvns).length Γ ++ List.take (filterBySet Γ fvns).length Γ) fvcs
            split at h
            · cases h
            · next clauses' m1 hc =>
              obtain ⟨c1, c2, c3⟩ := ihc _ _ _ _ _ _ hc
              split at h
              · next heq =>
                have hg := congrArg List.length heq
                split at h
                · cases h
                · next next' m2 hn =>
                  cases h
                  obtain ⟨i1, i2, i3⟩ := ihs _ _ _ _ _ hn
                  refine ⟨by fin_lin, by fin_lin, fun K hK => ?_⟩
                  have j := i3 K (by fin_lin)
                  have j2 := c3 K (by fin_lin)
                  fin_lin
              · split at h
                · cases h
                · next next' m2 hn =>
                  cases h
                  obtain ⟨i1, i2, i3⟩ := ihs _ _ _ _ _ hn
                  obtain ⟨e1, e2, e3, e4⟩ := substStmt_measures
                    ((filterBySet Γ fvns).ids.zip
                      (freshen (filterBySet Γ fvns)
                        (filterBySet (List.drop (filterBySet Γ fvns).length Γ ++
                          List.take (filterBySet Γ fvns).length Γ) fvcs).ids m1).1.vars) next
                  simp only [e1, e2] at i1 i3
                  refine ⟨by fin_lin, by fin_lin, fun K hK => ?_⟩
                  have j := i3 K (by fin_lin)
                  have j2 := c3 K (by fin_lin)
                  fin_lin
      | invoke var tag ty args =>
        simp only [linearize] at h
        split at h
        · cases h; refine ⟨by fin_lin, by fin_lin, fun K hK => by fin_lin⟩
        · cases h; refine ⟨by fin_lin, by fin_lin, fun K hK => by fin_lin⟩
      | lit var k next fv =>
        simp only [linearize] at h
        split at h
        · cases h
        · next fvs =>
          have hl := filterBySet_length_le Γ fvs
          split at h
          · cases h
          · next next' m1 hn =>
            obtain ⟨i1, i2, i3⟩ := ihs _ _ _ _ _ hn
            split at h
            · next heq =>
              have hg := congrArg List.length heq
              cases h
              refine ⟨by fin_lin, by fin_lin, fun K hK => ?_⟩
              have j := i3 K (by fin_lin)
              fin_lin
            · cases h
              refine ⟨by fin_lin, by fin_lin, fun K hK => ?_⟩
              have j := i3 K (by fin_lin)
              fin_lin
      | op var a o b next fv =>
        simp only [linearize] at h
        split at h
        · cases h
        · next fvs =>
          have hl := filterBySet_length_le Γ (b.id :: a.id :: fvs)
          split at h
          · cases h
          · next next' m1 hn =>
            obtain ⟨i1, i2, i3⟩ := ihs _ _ _ _ _ hn
            split at h
            · next heq =>
              have hg := congrArg List.length heq
              cases h
              refine ⟨by fin_lin, by fin_lin, fun K hK => ?_⟩
              have j := i3 K (by fin_lin)
              fin_lin
            · cases h
              refine ⟨by fin_lin, by fin_lin, fun K hK => ?_⟩
              have j := i3 K (by fin_lin)
              fin_lin
      | print nl var next fv =>
        simp only [linearize] at h
        split at h
        · cases h
        · next fvs =>
          have hl := filterBySet_length_le Γ (var.id :: fvs)
          split at h
          · cases h
          · next next' m1 hn =>
            obtain ⟨i1, i2, i3⟩ := ihs _ _ _ _ _ hn
            split at h
            · next heq =>
              have hg := congrArg List.length heq
              cases h
              refine ⟨by fin_lin, by fin_lin, fun K hK => ?_⟩
              have j := i3 K (by fin_lin)
              fin_lin
            · cases h
              refine ⟨by fin_lin, by fin_lin, fun K hK => ?_⟩
              have j := i3 K (by fin_lin)
              fin_lin
      | ifc srt a b t e =>
        simp only [linearize] at h
        split at h
        · cases h
        · next t' m1 ht =>
          split at h
          · cases h
          · next e' m2 he =>
            cases h
            obtain ⟨i1, i2, i3⟩ := ihs _ _ _ _ _ ht
            obtain ⟨k1, k2, k3⟩ := ihs _ _ _ _ _ he
            refine ⟨by fin_lin, by fin_lin, fun K hK => ?_⟩
            have j := i3 K (by fin_lin)
            have j2 := k3 K (by fin_lin)
            fin_lin
      | exit var =>
        simp only [linearize] at h
        cases h; refine ⟨by fin_lin, by fin_lin, fun K hK => by fin_lin⟩
    · intro cs pre post m cs' m' h
      cases cs with
      | nil =>
        simp only [linearizeClauses] at h
        cases h; refine ⟨by fin_lin, by fin_lin, fun K hK => by fin_lin⟩
      | cons xtor ctx body rest =>
        simp only [linearizeClauses] at h
        split at h
        · cases h
        · next body' m1 hb =>
          split at h
          · cases h
          · next rest' m2 hr =>
            cases h
            obtain ⟨i1, i2, i3⟩ := ihs _ _ _ _ _ hb
            obtain ⟨k1, k2, k3⟩ := ihc _ _ _ _ _ _ hr
            have e : (pre ++ ctx ++ post).length = pre.length + post.length + ctx.length := by
              simp only [List.length_append]; omega
            rw [e] at i2 i3
            refine ⟨by fin_lin, by fin_lin, fun K hK => ?_⟩
            have j := i3 K (by fin_lin)
            have j2 := k3 K (by fin_lin)
            fin_lin

/-- linearization of a statement, any fuel: at most one substitution per node, short contexts,
    quadratic weight -/
theorem linearize_size {n : Nat} {s : Stmt} {Γ : Ctx} {m : Nat} {s' : Stmt} {m' : Nat}
    (h : linearize n s Γ m = .ok (s', m')) :
    s'.size ≤ 2 * s.size ∧ ctxCap Γ.length s' ≤ bd Γ.length s ∧
    ∀ K, 1 + 2 * bd Γ.length s ≤ K → (weight s') ≤ (weight s) + s.size * K :=
  (lin_goals n).1 s Γ m s' m' h

/-! ## definitions and programs -/

/-- nodes of a list of definitions (one per definition + its body): `Core2AxCut.defsSize` -/
def defsNodes : List Def → Nat
  | [] => 0
  | d :: ds => d.body.size + 1 + defsNodes ds

/-- weight of a list of definitions: 1 + parameters + weight of the body, each -/
def defsWeight : List Def → Nat
  | [] => 0
  | d :: ds => 1 + d.ctx.length + (weight d.body) + defsWeight ds

/-- the longest context in (the code generated for) a list of linearized definitions -/
def defsCap : List Def → Nat
  | [] => 0
  | d :: ds => max (ctxCap d.ctx.length d.body) (defsCap ds)

/-- the bound for it, computed on the NON-linearized definitions:
    max over the definitions of 2·(parameters + binders on a path) + longest argument list + 1 -/
def defsBound : List Def → Nat
  | [] => 0
  | d :: ds => max (bd d.ctx.length d.body) (defsBound ds)

theorem linearizeDef_size {d d' : Def} {m m' : Nat} (h : linearizeDef d m = .ok (d', m')) :
    d'.ctx = d.ctx ∧ d'.name = d.name ∧ d'.body.size ≤ 2 * d.body.size ∧
    ctxCap d.ctx.length d'.body ≤ bd d.ctx.length d.body ∧
    ∀ K, 1 + 2 * bd d.ctx.length d.body ≤ K → (weight d'.body) ≤ (weight d.body) + d.body.size * K := by
  simp only [linearizeDef] at h
  split at h
  · cases h
  · next body' m1 hb =>
    cases h
    obtain ⟨i1, i2, i3⟩ := linearize_size hb
    obtain ⟨e1, e2, e3, e4⟩ := freeVars_measures d.body
    simp only [bd, e1, e2, e3, e4] at i1 i2 i3
    exact ⟨rfl, rfl, i1, i2, i3⟩

theorem linearizeDefs_size : ∀ {ds ds' : List Def} {m m' : Nat},
    linearizeDefs ds m = .ok (ds', m') →
    ds'.map (·.ctx) = ds.map (·.ctx) ∧ ds'.map (·.name) = ds.map (·.name) ∧
    defsNodes ds' ≤ 2 * defsNodes ds ∧ defsCap ds' ≤ defsBound ds ∧
    ∀ K, 1 + 2 * defsBound ds ≤ K → defsWeight ds' ≤ defsWeight ds + defsNodes ds * K
  | [], ds', m, m', h => by
    simp only [linearizeDefs] at h; cases h
    simp [defsNodes, defsCap, defsBound, defsWeight]
  | d :: ds, ds', m, m', h => by
    simp only [linearizeDefs] at h
    split at h
    · cases h
    · next d' m1 hd =>
      split at h
      · cases h
      · next r' m2 hr =>
        cases h
        obtain ⟨a1, a2, a3, a4, a5⟩ := linearizeDef_size hd
        obtain ⟨b1, b2, b3, b4, b5⟩ := linearizeDefs_size hr
        refine ⟨by simp [a1, b1], by simp [a2, b2], ?_, ?_, fun K hK => ?_⟩
        · simp only [defsNodes]; omega
        · simp only [defsCap, defsBound, a1]; omega
        · have j1 := a5 K (by simp only [defsBound] at hK; omega)
          have j2 := b5 K (by simp only [defsBound] at hK; omega)
          simp only [defsWeight, defsNodes, a1, Nat.add_mul, Nat.one_mul]; omega

/-- C19, S4 → S5, whole programs -/
theorem linearizeProg_size {p q : Prog} (h : linearizeProg p = .ok q) :
    q.types = p.types ∧ q.defs.map (·.ctx) = p.defs.map (·.ctx) ∧
    defsNodes q.defs ≤ 2 * defsNodes p.defs ∧ defsCap q.defs ≤ defsBound p.defs ∧
    defsWeight q.defs ≤ defsWeight p.defs + defsNodes p.defs * (1 + 2 * defsBound p.defs) := by
  simp only [linearizeProg] at h
  split at h
  · cases h
  · next defs m hd =>
    cases h
    obtain ⟨b1, _, b3, b4, b5⟩ := linearizeDefs_size hd
    exact ⟨rfl, b1, b3, b4, b5 _ (Nat.le_refl _)⟩

end Scc.AxCut.SizeLin
