/-
  Scc.Props.FunSafety — TYPE SAFETY of the Fun abstract machine (`Scc.Fun.step` / `Scc.Fun.run`,
  Scc/Fun/Sem.lean, CEK style) for programs accepted by the type checker (`Scc.Fun.Check.checkProgram`,
  property C15).  All statements are for ALL accepted programs, all states / arguments, all fuel.

  Judgements (Scc/Fun/SafetyTyping.lean; `p` is the SOURCE program, whose declarations type the values,
  `p'` the checked program the machine runs):
    ATyped p Γ t τ   typing of a checked term INCLUDING the annotations the machine reads (`ty` of
                     every node, `chi` of variables / covariable arguments, clause contexts)
    VT p v τ         values: integers at i64, constructor values at instances of data types,
                     closures and thunks at instances of codata types
    KT p k τ / FT    continuation stacks / frames against the type they expect (answer type i64;
                     a label or covariable holds `cont k` with `KT p k τ`)
    ST p s           well-typed machine state

  THEOREMS (hypotheses: `programNamesOk p` — names are identifiers, what the lexer produces — and
  `checkProgram p = .ok p'`, nothing else)
    Fun_checked_annotated   the checker's output satisfies `AWT p p'`: every definition body is
                            `ATyped` against the source declarations (the annotations fun2core and
                            the machine rely on are the types of the declarative typing), the
                            machine finds every definition, and its by-name test `isCodataTy`
                            only fires at codata types
    Fun_checked_wellformed  definition names and parameter names are pairwise distinct, definition
                            bodies are closed and annotated (the conditions `Fun2Core.Sem.fragOk`
                            assumes as decidable checks "that the checker guarantees")
    Fun_preservation        ST p s → step p' s = next s' o → ST p s'
    Fun_progress            ST p s → step p' s is a transition, a result, or `stuck divByZero` /
                            `stuck overflow`: never `arity`, `unbound`, `unknownDef`, `noClause`,
                            `notInt`, `notData`, `notCodata`, `notCont`, `untyped`
    Fun_init_typed          with `validMain p'` and one argument per parameter of `main` the initial
                            state exists and is well-typed
    Fun_run_never_type_stuck   … and `Fun.run p' args fuel` never ends in a stuck state other than the
                            two arithmetic faults
    Fun_reachable_typed     every state reached (`FSteps`) from a well-typed state is well-typed
    Fun_sequenced_no_thunk  on `Sequenced` programs every reachable state is thunk-free (`NTs`,
                            Scc/Fun/SafetySeq.lean): by-name = by-value there, as Sem.lean claims
    Fun_pure_safe, Fun_pure_args_safe   (the corollary asked for by the fun2core simulation) in a
                            well-typed environment a PURE typed term / argument list (`pureTerm`,
                            the side condition of `Sequenced`) has a value (`pureVal` / `pureArgs`
                            of Scc/Fun2Core/SemPure.lean are not `none`), of the type of the term,
                            and the machine reaches it in finitely many silent steps, never stuck
    Fun_value_kinds         canonical forms: i64 ↦ integer, data ↦ constructor value of that type
                            with typed arguments, codata ↦ closure or thunk
    Fun_var_kind            a variable annotated τ is bound to a value of type τ
  Excluded by hypothesis, as documented in Sem.lean / C02Sem.lean: a wrong number of arguments and a
  `main` with a `:cns` parameter (`stuck arity(main)`, specification level: `validMain`), no `main`
  (`unknownDef(main)`).  A program that CALLS `main` is fine for the Fun machine (covered here).
  No case was found where progress fails: the machine model and the checker agree.
-/
import Scc.Pipeline
import Scc.Fun.SafetyCheck
import Scc.Fun.SafetyPure
import Scc.Fun.SafetyClosed
import Scc.Fun.SafetySeq

namespace Scc.Props
open Scc Scc.Pipeline Scc.Fun Scc.Fun.Typing Scc.Fun.Safety Scc.Fun2Core.Sem
open Scc.Fun.Check (checkProgram programNamesOk checkProgram_AWT)

/-! ## statements -/

def Fun_preservation_statement : Prop :=
  ∀ (p : Program) (p' : CheckedProgram), programNamesOk p = true → checkProgram p = .ok p' →
    ∀ (s s' : State) (o : Option (Bool × Fun.Word)), ST p s → step p' s = .next s' o → ST p s'

def Fun_progress_statement : Prop :=
  ∀ (p : Program) (p' : CheckedProgram), programNamesOk p = true → checkProgram p = .ok p' →
    ∀ (s : State), ST p s →
      (∃ s' o, step p' s = .next s' o) ∨ (∃ a, step p' s = .done a) ∨
      step p' s = .stuck .divByZero ∨ step p' s = .stuck .overflow

def Fun_run_never_type_stuck_statement : Prop :=
  ∀ (p : Program) (p' : CheckedProgram), programNamesOk p = true → checkProgram p = .ok p' →
    validMain p' = true → ∀ (args : List Fun.Word), args.length = mainArity p' →
    ∀ (fuel : Nat) (w : Why), (run p' args fuel).res = .stuck w → w = .divByZero ∨ w = .overflow

/-! ## the checker establishes the typing of the checked program -/

theorem Fun_checked_annotated (p : Program) (p' : CheckedProgram) (hp : programNamesOk p = true)
    (hc : checkProgram p = .ok p') : AWT p p' :=
  checkProgram_AWT hp hc

/-- what `Fun2Core.Sem.fragOk` / `progOk` assume as decidable checks and the checker guarantees:
definition names are pairwise distinct, the parameters of every definition are pairwise distinct,
every definition body is closed (mentions only its parameters; `fv` of Scc/Fun2Core/SemRel.lean) and
annotated -/
theorem Fun_checked_wellformed (p : Program) (p' : CheckedProgram) (hp : programNamesOk p = true)
    (hc : checkProgram p = .ok p') :
    (p'.defs.map (·.name)).Nodup ∧
    ∀ d ∈ p'.defs, (d.ctx.map (·.var)).Nodup ∧
      (fv d.body).all (fun x => (d.ctx.map (·.var)).contains x) = true ∧
      Typing.annotated d.body = true := by
  have W := checkProgram_AWT hp hc
  exact ⟨W.defNames, fun d hd => ⟨(W.defs_typed d hd).1, W.closed hd,
    (W.defs_typed d hd).2.2.2.annotated⟩⟩

/-! ## 1. preservation, 2. progress -/

theorem Fun_preservation : Fun_preservation_statement := by
  intro p p' hp hc s s' o hs h
  exact step_preserves (checkProgram_AWT hp hc) hs h

theorem Fun_progress : Fun_progress_statement := by
  intro p p' hp hc s hs
  have := step_safe (checkProgram_AWT hp hc) hs
  cases h : step p' s with
  | next s' o => exact .inl ⟨s', o, rfl⟩
  | done a => exact .inr (.inl ⟨a, rfl⟩)
  | stuck w =>
    rw [h] at this
    cases this with
    | divByZero => exact .inr (.inr (.inl rfl))
    | overflow => exact .inr (.inr (.inr rfl))

/-- progress, as "never stuck for a typing reason" -/
theorem Fun_never_type_stuck_step (p : Program) (p' : CheckedProgram)
    (hp : programNamesOk p = true) (hc : checkProgram p = .ok p') (s : State) (hs : ST p s)
    (w : Why) (h : step p' s = .stuck w) : w = .divByZero ∨ w = .overflow :=
  ArithFault.iff.mp (step_progress (checkProgram_AWT hp hc) hs h)

/-! ## whole runs -/

theorem validMain_find {p' : CheckedProgram} (hv : validMain p' = true) :
    ∃ dm, findDef p' "main" = some dm ∧ dm.ctx.length = mainArity p' ∧
      (∀ b ∈ dm.ctx, b.chi = .prd ∧ b.ty = .i64) ∧ dm.retTy = .i64 := by
  unfold validMain at hv
  split at hv
  · rename_i d hd
    have hfilter : p'.defs.filter (fun d => d.name == "main") = [d] := hd
    have hfind : findDef p' "main" = some d := by
      unfold findDef
      have := List.head?_filter (p := fun d : Def => d.name == "main") (l := p'.defs)
      rw [hfilter] at this
      simpa using this.symm
    refine ⟨d, hfind, by simp [mainArity, hd], ?_, ?_⟩
    · intro b hb
      simp only [mainSigOk, Bool.and_eq_true, List.all_eq_true] at hv
      have := hv.1.2 b hb
      refine ⟨?_, ?_⟩
      · cases hchi : b.chi with
        | prd => rfl
        | cns => rw [hchi] at this; exact absurd this.1 (by decide)
      · cases hty : b.ty with
        | i64 => rfl
        | decl n a => rw [hty] at this; simp [isI64] at this
    · simp only [mainSigOk, Bool.and_eq_true] at hv
      cases hty : d.retTy with
      | i64 => rfl
      | decl n a => rw [hty] at hv; simp [isI64] at hv
  · cases hv

theorem Fun_init_typed (p : Program) (p' : CheckedProgram) (hp : programNamesOk p = true)
    (hc : checkProgram p = .ok p') (hv : validMain p' = true) (args : List Fun.Word)
    (hlen : args.length = mainArity p') : ∃ s, initState p' args = .ok s ∧ ST p s := by
  obtain ⟨dm, hfind, hl, hsig, hret⟩ := validMain_find hv
  exact initState_typed (checkProgram_AWT hp hc) hfind hsig hret args (hlen.trans hl.symm)

theorem Fun_run_never_type_stuck : Fun_run_never_type_stuck_statement := by
  intro p p' hp hc hv args hlen fuel w h
  obtain ⟨s, hs, hst⟩ := Fun_init_typed p p' hp hc hv args hlen
  simp only [run, hs] at h
  exact ArithFault.iff.mp (runFrom_safe (checkProgram_AWT hp hc) fuel s [] hst w h)

theorem Fun_reachable_typed (p : Program) (p' : CheckedProgram) (hp : programNamesOk p = true)
    (hc : checkProgram p = .ok p') {s s' : State} {o : Out} {j : Nat} (h : FSteps p' s s' o j)
    (hs : ST p s) : ST p s' :=
  FSteps_preserves (checkProgram_AWT hp hc) h hs

/-- on `Sequenced` programs no thunk is ever created (the claim of Sem.lean: by-name and by-value
coincide there): every state reached from the initial state is well-typed and thunk-free (`NTs`:
no `thunk` value anywhere in the state, all pending terms sequenced, pending arguments pure) -/
theorem Fun_sequenced_no_thunk (p : Program) (p' : CheckedProgram) (hp : programNamesOk p = true)
    (hc : checkProgram p = .ok p') (hv : validMain p' = true) (hseq : Sequenced p' = true)
    (args : List Fun.Word) (hlen : args.length = mainArity p') :
    ∃ s, initState p' args = .ok s ∧
      ∀ (s' : State) (o : Out) (j : Nat), FSteps p' s s' o j → ST p s' ∧ NTs p' s' := by
  obtain ⟨s, hs, hst⟩ := Fun_init_typed p p' hp hc hv args hlen
  have W := checkProgram_AWT hp hc
  exact ⟨s, hs, fun s' o j h =>
    ⟨FSteps_preserves W h hst, FSteps_nt W hseq h hst (initState_nt hseq hs)⟩⟩

/-! ## 3. pure argument terms never get stuck and have values of the annotated type / kind -/

theorem Fun_pure_safe (p : Program) (p' : CheckedProgram) (hp : programNamesOk p = true)
    (hc : checkProgram p = .ok p') {ρ : Env} {Γ : Ctx} (he : EnvT p ρ Γ) {t : Term} {τ : Ty}
    (hpure : pureTerm t = true) (ht : ATyped p Γ t τ) :
    ∃ v, pureVal p' t ρ = some v ∧ VT p v τ ∧ t.getType = some τ ∧
      ∀ k, ∃ j, 1 ≤ j ∧ FSteps p' (.eval t ρ k) (.ret v k) [] j := by
  obtain ⟨v, h1, hv⟩ := pureVal_typed (checkProgram_AWT hp hc) he t τ hpure ht
  exact ⟨v, h1, hv, ht.getType, fun k => fun_pure p' t ρ v k hpure h1⟩

theorem Fun_pure_args_safe (p : Program) (p' : CheckedProgram) (hp : programNamesOk p = true)
    (hc : checkProgram p = .ok p') {ρ : Env} {Γ : Ctx} (he : EnvT p ρ Γ) {ts : Terms} {bs : Ctx}
    (hpure : pureTerms ts = true) (has : AArgs p Γ ts bs) :
    ∃ vs, pureArgs p' ts ρ = some vs ∧ VTs p vs bs ∧
      ∀ h done k, ∃ j, FSteps p' (.args h done ts ρ k) (.args h (done ++ vs) .nil ρ k) [] j := by
  obtain ⟨vs, h1, hvs⟩ := pureArgs_typed (checkProgram_AWT hp hc) he ts bs hpure has
  exact ⟨vs, h1, hvs, fun h done k => fun_pureArgs p' ts ρ vs h done k hpure h1⟩

theorem Fun_value_kinds (p : Program) (p' : CheckedProgram) (hp : programNamesOk p = true)
    (hc : checkProgram p = .ok p') {v : Value} {τ : Ty} (hw : WfTy p τ) (h : VT p v τ) :
    (τ = .i64 ∧ ∃ n, v = .int n) ∨
    (∃ d ∈ datas p, ∃ targs, τ = .decl d.name targs ∧ ∃ c ∈ d.ctors, ∃ vs, v = .con c.name vs ∧
      VTs p vs (csubst (instSubst d.typeParams targs) c.args)) ∨
    (∃ d ∈ codatas p, ∃ targs, τ = .decl d.name targs ∧
      ((∃ cs ρ, v = .obj cs ρ) ∨ (∃ t ρ, v = .thunk t ρ))) :=
  VT.kind (checkProgram_AWT hp hc).decls hw h

/-- a variable annotated τ holds a value of type τ -/
theorem Fun_var_kind (p : Program) {ρ : Env} {Γ : Ctx} (he : EnvT p ρ Γ) {x : String}
    {ty : Option Ty} {chi : Option Chi} {τ : Ty} (ht : ATyped p Γ (.var x ty chi) τ) :
    ty = some τ ∧ chi = some .prd ∧ WfTy p τ ∧ ∃ v, lookup x ρ = some v ∧ VT p v τ := by
  cases ht with
  | var b hl hc hty hw =>
    obtain ⟨v, hv, hb⟩ := he.lookup _ _ hl
    exact ⟨rfl, rfl, hw, v, hv, hty ▸ hb.prd_inv hc⟩

/-! ## a concrete program (non-vacuity) -/

/-- `data List[A] { Nil, Cons(x: A, xs: List[A]) }  codata Fun[A, B] { apply(x: A): B }`
    `def len(l: List[i64]): i64 { l.case[i64] { Cons(x, xs) => 1 + len(xs), Nil => 0 } }`
    `def main(n: i64): i64 { label a { goto a ((new { apply(y) => y / n }).apply[i64, i64](len(Cons(n, Nil)))) } }` -/
def FunSafety_example : Program := ⟨[
  .data ⟨"List", ["A"], [⟨"Nil", []⟩,
    ⟨"Cons", [⟨"x", .prd, .decl "A" .nil⟩, ⟨"xs", .prd, .decl "List" (.cons (.decl "A" .nil) .nil)⟩]⟩]⟩,
  .codata ⟨"Fun", ["A", "B"], [⟨"apply", [⟨"x", .prd, .decl "A" .nil⟩], .decl "B" .nil⟩]⟩,
  .defn ⟨"len", [⟨"l", .prd, .decl "List" (.cons .i64 .nil)⟩], .i64,
    .case (.var "l" none none) (.cons .i64 .nil)
      (.cons .data "Cons" ["x", "xs"] [] (.op (.lit 1) .sum (.call "len" (.cons (.var "xs" none none) .nil) none))
      (.cons .data "Nil" [] [] (.lit 0) .nil)) none⟩,
  .defn ⟨"main", [⟨"n", .prd, .i64⟩], .i64,
    .label "a" (.goto "a"
      (.dtor (.paren (.new (.cons .codata "apply" ["y"] []
          (.op (.var "y" none none) .div (.var "n" none none)) .nil) none)) "apply"
        (.cons .i64 (.cons .i64 .nil))
        (.cons (.call "len" (.cons (.ctor "Cons" (.cons (.var "n" none none)
          (.cons (.ctor "Nil" .nil none) .nil)) none) .nil) none) .nil)
        none) none) none⟩]⟩

theorem FunSafety_example_namesOk : programNamesOk FunSafety_example = true := by decide

/-- the hypotheses of all theorems above hold for the example -/
theorem FunSafety_example_accepted :
    ∃ p', checkProgram FunSafety_example = .ok p' ∧ validMain p' = true ∧ mainArity p' = 1 := by
  have h : (match checkProgram FunSafety_example with
      | .ok q => validMain q && mainArity q == 1
      | _ => false) = true := by decide +kernel
  cases hc : checkProgram FunSafety_example with
  | ok p' =>
    rw [hc] at h
    simp only [Bool.and_eq_true, beq_iff_eq] at h
    exact ⟨p', rfl, h.1, h.2⟩
  | diag c => rw [hc] at h; cases h
  | panic s => rw [hc] at h; cases h

/-- its runs: a result, and one of the arithmetic faults the theorems leave open -/
example : (match checkProgram FunSafety_example with
    | .ok p' => ((run p' [1] 200).render, (run p' [0] 200).render)
    | _ => ("", "")) = ("out=[] res=done:1", "out=[] res=stuck:divByZero") := by decide +kernel

/-- the initial state of the example is a well-typed state (non-vacuity of `ST`) -/
example : ∃ p' s, checkProgram FunSafety_example = .ok p' ∧ initState p' [5] = .ok s ∧
    ST FunSafety_example s := by
  obtain ⟨p', hc, hv, ha⟩ := FunSafety_example_accepted
  obtain ⟨s, hs, hst⟩ := Fun_init_typed _ p' FunSafety_example_namesOk hc hv [5] (by simp [ha])
  exact ⟨p', s, hc, hs, hst⟩

/-- `codata Fun[A, B] { apply(x: A): B }`
    `def main(n: i64): i64 { let f : Fun[i64, i64] = new { apply(y) => y + n }; f.apply[i64, i64](n) }` -/
def FunSafety_example_seq : Program := ⟨[
  .codata ⟨"Fun", ["A", "B"], [⟨"apply", [⟨"x", .prd, .decl "A" .nil⟩], .decl "B" .nil⟩]⟩,
  .defn ⟨"main", [⟨"n", .prd, .i64⟩], .i64,
    .letIn "f" (.decl "Fun" (.cons .i64 (.cons .i64 .nil)))
      (.new (.cons .codata "apply" ["y"] [] (.op (.var "y" none none) .sum (.var "n" none none)) .nil) none)
      (.dtor (.var "f" none none) "apply" (.cons .i64 (.cons .i64 .nil))
        (.cons (.var "n" none none) .nil) none) none⟩]⟩

/-- the hypotheses of `Fun_sequenced_no_thunk` hold for this program; it returns 2·n -/
example : programNamesOk FunSafety_example_seq = true ∧
    (match checkProgram FunSafety_example_seq with
      | .ok p' => validMain p' && Sequenced p' && mainArity p' == 1 &&
          (run p' [21] 100).render == "out=[] res=done:42"
      | _ => false) = true := by decide +kernel

/-- non-vacuity of the hypotheses of `Fun_pure_safe` / `Fun_var_kind`: the environment `x ↦ 5`
against `x : i64`, and the pure term `x + 1` with the checker's annotations -/
example : EnvT FunSafety_example [("x", .int 5)] ([] ++ [⟨"x", .prd, .i64⟩]) :=
  EnvT.cons ⟨"x", .prd, .i64⟩ .nil (.prd rfl .int)
example : ATyped FunSafety_example [⟨"x", .prd, .i64⟩]
    (.op (.var "x" (some .i64) (some .prd)) .sum (.lit 1)) .i64 ∧
    pureTerm (.op (.var "x" (some .i64) (some .prd)) .sum (.lit 1)) = true :=
  ⟨.op (.var ⟨"x", .prd, .i64⟩ (by simp [lookupCtx]) rfl rfl .i64) .lit, by decide⟩

/-! ## axioms -/

#print axioms Fun_checked_annotated
#print axioms Fun_checked_wellformed
#print axioms Fun_preservation
#print axioms Fun_progress
#print axioms Fun_never_type_stuck_step
#print axioms Fun_init_typed
#print axioms Fun_run_never_type_stuck
#print axioms Fun_reachable_typed
#print axioms Fun_sequenced_no_thunk
#print axioms Fun_pure_safe
#print axioms Fun_pure_args_safe
#print axioms Fun_value_kinds
#print axioms Fun_var_kind
#print axioms FunSafety_example_accepted

end Scc.Props
