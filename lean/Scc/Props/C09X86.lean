/-
  Scc.Props.C09X86 — property C09 (heap consistency) lifted from the heap MODEL (Props/C09.lean: every
  operation of `Scc.Heap.Model` preserves `Inv`) to CONCRETE x86-64 EXECUTIONS of compiled programs with
  data types, through the three-way simulation of Props/C06X86Heap.lean.

  C09 (fixed text): "At every statement boundary of every execution of generated code, on every backend,
  each heap block below the allocation frontier is in exactly one state: reachable from the live variables,
  on the immediately reusable free list, on the deferred free list, or waiting beneath a deferred block; and
  the count stored in each reachable block equals the number of references to it from live variables and
  from fields of reachable or deferred blocks, minus one. …"

  THE PREDICATE.  `HeapInvAt cfg X kinds limit` (Scc/X86/ConcInv.lean) is the predicate of the executable
  heap monitor `heapCheck` of Scc/X86/Machine.lean, on the raw machine state `X`, with the decision
  procedure `Scc.Heap.invCheckFn` replaced by the invariant it decides (`Scc.Heap.InvW`, Scc/Heap/Inv.lean:
  clauses (i)–(vi) = the property text): memory = the machine's heap words, list heads = the registers
  HEAP (rbx) and FREE (rbp), roots = the first temporaries (registers 4..15, then spill slots) of the
  non-`ext` variables listed by the `#ctx` hook, READ AS THE MONITOR READS THEM (`readLoc (tempLoc …)`, so
  they are defined), region `[heapBase, limit)`.

  THE STATEMENT BOUNDARIES.  `BoundaryOf p hooks routine ops cfg st X`: the machine state `X` is related by
  the three-way relation `Rel3` (Scc/X86/RefHeapRun.lean; for a frame of the machine configuration) to the
  state `st` of the AxCut positional machine: the program counter is at the code the generator emits for
  the statement `st.stmt` in the context `st.ctx` (with hooks: at its `#ctx` comment).  `BChain`: the
  machine passes through such states IN ORDER, by `stepN` (no fault in between) — the "k-th big step" of the
  run theorem `run3_aux`.

  PROVED (no `sorry`; axioms propext, Classical.choice, Quot.sound):
  * `C09_x86_boundary`      EVERY machine state related by `Rel3` to a positional state satisfies
                            `HeapInvAt` for the kinds of that state's context and `limit = heapBase +
                            heapBytes` (`HeapRel` ∘ `HRef.conc` ∘ agreement of the roots up to null).
  * `C09_x86_data_programs` under the hypotheses of `C06_data_programs` (programs with data types, no
                            closures; a terminating run of the positional machine): the machine, started at
                            `asm_main` on the items of the emitted routine, passes through a boundary state
                            for EVERY state `statesOf p fuel st0` of the positional run, in order, and each
                            of them satisfies `HeapInvAt`.  The heap-monitor flag of `cfg` is arbitrary
                            (`stepN` does not run the monitor).
  * `C09_x86_reachable`     the same for every `Reachable` state of the positional machine.
  * `C09_x86_every_prefix`  NO TERMINATION HYPOTHESIS: for ANY number `fuel` of steps of the positional
                            machine (a prefix of a possibly non-terminating run) the machine passes through
                            a boundary state for every state of the prefix and the invariant holds at each;
                            room hypothesis: the footprint bound of C10 (Props/C10X86.lean: `PeakAtMost Pk`
                            and `64·(Pk + A + 2) ≤ heapBytes`, `A = progMaxLet p`; with `Pk = A·fuel + 1`
                            the peak hypothesis is trivial: `C10_peak_trivial`).
  * `C09_x86_every_prefix_data`  the same with the room hypothesis stated on the SOURCE PROGRAM: `valsFields st.env ≤
                            D` for every reachable state of the positional machine (the object values held by
                            the variables have at most `D` fields) and `64·(D + A + 2) ≤ heapBytes` — no
                            hypothesis about the machine's run.  EXAMPLE `C09_boxLoop_every_boundary`: the box
                            loop of Props/C13X86Data.lean, which does not terminate: for EVERY `k` the machine
                            reaches the boundary of each of the first `k` steps and the invariant holds there.
  * `C09_x86_window`        `InvW` is monotone in the limit down to `frontier + 64`: so `HeapInvAt` holds for
                            the monitor's own limit `min (heapBase + heapBytes) (heapBase + maxHeapWritten +
                            512)` as soon as `frontier + 64 ≤ heapBase + maxHeapWritten + 512`.
  * `C09_invCheckFn_complete`  THE CHECKER IS COMPLETE (new; its soundness is `invCheckFn_sound` of
                            Props/C09.lean): on every memory that satisfies `InvW`, `Scc.Heap.invCheckFn`
                            succeeds and returns the witnesses (the live blocks in the order of its depth-first
                            traversal).  Backend independent: the monitors of all three machine models DECIDE
                            the invariant.  (Scc/Heap/ProofsCheckDfs.lean: the traversal against a rank on the
                            acyclic live blocks; Scc/Heap/ProofsCheckComplete.lean.)
  * `C09_x86_heapCheck_boundary`  hence THE EXECUTABLE CHECK `heapCheck cfg X (ctxKinds st.ctx)` of the machine
                            model RETURNS `.ok (number of blocks below the frontier)` at every statement-
                            boundary state `X` whose frontier lies inside the monitor's window.
  * `C09_parseCtx_hook`, `C09_x86_monitor_boundary`  THE MONITOR ITSELF AT A STATEMENT BOUNDARY (hooks on, on the
                            items of the routine): the item at the program counter is the `#ctx` comment of the
                            boundary's context (`post_first_hook`), the monitor's parser reads the kinds back
                            from it (printer/parser round trip of `ctxHookComment`, for variable names without
                            blanks), and `monitor cfg px X = .ok (some (blocks below the frontier))` inside the
                            window — it does not fire there.
  KEPT AS `def : Prop` — `C09_x86_monitor_statement`: "the run with `cfg.heap = true` never ends in an
  `inv:` result", for every compiled program.  THE EXACT GAP between `C09_x86_data_programs` and it:
  (1) programs with closures (`create`/`invoke`) and the side hypotheses of `C06_data_programs` (inherited
      from Theorem A∘B; runs that do not terminate are covered prefix by prefix: `C09_x86_every_prefix`);
  (2) [CLOSED: `C09_invCheckFn_complete`, `C09_x86_heapCheck_boundary`] completeness of
      `Scc.Heap.invCheckFn`;
  (3) the monitor's window: it checks `InvW` for the limit `min (heapBase + heapBytes) (heapBase +
      maxHeapWritten + 512)`; this needs `frontier + 64 ≤ heapBase + maxHeapWritten + 512`, a fact about
      the WRITE HISTORY (`maxHeapWritten` counts stores, `HeapRel` sees values: a block that was written
      with zeros is invisible to it) that the memory contracts do not track (true of the real code: every
      block below the frontier except the last block of the reusable list has been written);
  (4) the monitor runs at EVERY machine state whose program counter is at a `#ctx` comment: (a) [CLOSED:
      `C09_x86_monitor_boundary`] at a `BoundaryOf` state it finds the hook of that boundary and passes;
      (b) OPEN: the states strictly between two boundaries are not at a `#ctx` comment (the step lemmas of
      C06X86Heap only export `stepN … = .inl X'`, not the program counters in between).
-/
import Scc.X86.ConcC10
import Scc.X86.ConcCheck
import Scc.X86.ConcHook
import Scc.X86.ConcDataRun
import Scc.Props.C13X86Data
import Scc.Props.C06X86Heap

namespace Scc.X86
open Scc.AxCut Scc.AxCut.Pos Scc.Backend Scc.Backend.Abs Scc.X86.Ref Scc.X86.Conc
open Scc.Heap (InvW)
open Scc.Props.C06Generic (Reachable CodeFits statesOf stopsWithin reachable_mem_statesOf)
open Scc.Props.C14Generic (LabelSafe)

/-! ## The full statement (not proved) -/

/-- C09 on x86-64, in terms of the executable monitor: for every compiled program (built with the
statement-boundary hooks), all arguments, all fuel, the run of the SPEC machine with the heap monitor ON
never ends in a report of the heap monitor. -/
def C09_x86_monitor_statement : Prop :=
  ∀ (p : AxCut.Prog) (args : List Word) (body routine : List Code) (nargs : Nat),
    LinTypedProg p → compileX86 p true 0 = .ok (body, nargs) → intoRoutine body nargs = .ok routine →
    args.length = nargs →
    ∀ (fuel : Nat) (cfg : MonCfg), cfg.heap = true → MachOK cfg.mach →
      ∀ (items : List (Code × Nat)), (items.map (·.1)).map stripC = routine.map stripC →
      ∀ what ln, (runItems items args fuel cfg).res ≠ .invFail what ln

/-! ## Proved -/

/-- EVERY STATEMENT BOUNDARY: a machine state related by the three-way relation `Rel3` to a state of the
positional machine satisfies the heap monitor's predicate — each block below the frontier is in exactly one
of the four states (`nodup`, `cover`), stored count + 1 = number of references (`counts`), … — for the
roots the monitor reads from the first temporaries of the non-`ext` variables of that state's context. -/
theorem C09_x86_boundary {p : AxCut.Prog} {hooks : Bool} {routine : List Code} {ops : List MockOp}
    {cfg : MonCfg} (hk : cfg.consts = consts) {st : Pos.State} {X : State}
    (B : BoundaryOf p hooks routine ops cfg st X) :
    HeapInvAt cfg X (ctxKinds st.ctx) (cfg.mach.heapBase + cfg.mach.heapBytes) :=
  heapInvAt_of_boundary hk B

/-- the invariant for a smaller region: only the room for the frontier block depends on the limit -/
theorem C09_x86_window {m : Nat → Nat} {base limit limit' heap free : Nat} {roots pend lin lazy live : List Nat}
    {F : Nat} (I : InvW m base limit heap free roots pend lin lazy live F) (h1 : limit' ≤ limit)
    (h2 : F + 64 ≤ limit') : InvW m base limit' heap free roots pend lin lazy live F :=
  { I with frontier_room := h2, zero_above := fun a ha hl hm => I.zero_above a ha (by omega) hm }

/-- C09 FOR CONCRETE x86-64 EXECUTIONS OF PROGRAMS WITH DATA TYPES (no closures): along a terminating run,
the machine started at `asm_main` passes — in order, without fault — through a statement-boundary state for
EVERY state of the run of the positional machine (`statesOf`), and at each of them the machine's heap
memory, HEAP, FREE and the pointer temporaries of the live variables satisfy the invariant of C09. -/
theorem C09_x86_data_programs (p : AxCut.Prog) (args : List Word) (hooks : Bool) (body routine : List Code)
    (nargs : Nat) (d0 : Def) (ops : List MockOp) (c' : Nat)
    (hsafe : LabelSafe p = true) (htp : LinTypedProg p) (hdata : DataProg p) (hrange : ProgInRange p)
    (hcompM : (compile mockSym hooks p).run 0 = .ok ((ops, nargs), c')) (hfit : CodeFits ops)
    (hcompX : compileX86 p hooks 0 = .ok (body, nargs)) (hrout : intoRoutine body nargs = .ok routine)
    (hnd : (labs routine).Nodup)
    (hd : p.defs.head? = some d0) (hentry : ∀ b ∈ d0.ctx, b.chi = .ext ∧ b.ty = .i64)
    (hcap : ∀ st, Reachable p ⟨d0.ctx, args.map .int, d0.body⟩ st → 2 * st.ctx.length ≤ 266)
    (fuel : Nat) (out : List (Bool × Word)) (v : Word) (hfuel : fuel + 1 < 2 ^ 64)
    (hrun : Pos.run p args fuel = ⟨out, .done v⟩)
    (cfg : MonCfg) (MO : MachOK cfg.mach) (hk : cfg.consts = consts)
    (hb8 : cfg.mach.heapBase % 8 = 0) (hb0 : 0 < cfg.mach.heapBase)
    (hbytes : 128 + 64 * 134 * fuel ≤ cfg.mach.heapBytes)
    (items : List (Code × Nat)) (hitems : (items.map (·.1)).map stripC = routine.map stripC)
    (hfitX : addrAt cfg.mach.codeBase routine routine.length < 2 ^ 64) :
    (mkProg cfg.mach items).labelIdx["asm_main"]? = some 6 ∧
    ∃ n0 X0, stepN cfg (mkProg cfg.mach items) n0 (initState cfg.mach args 6) = .inl X0 ∧
      BChain cfg (mkProg cfg.mach items)
        (fun st X => BoundaryOf p hooks routine ops cfg st X ∧
          HeapInvAt cfg X (ctxKinds st.ctx) (cfg.mach.heapBase + cfg.mach.heapBytes))
        (statesOf p fuel ⟨d0.ctx, args.map .int, d0.body⟩) X0 := by
  obtain ⟨hmain, n0, X0, h0, hch, _⟩ := data_programs_chain p args hooks body routine nargs d0 ops c' hsafe htp
    ⟨hrange.1, fun d hd => ⟨hdata d hd, hrange.2 d hd⟩⟩ hcompM hfit hcompX hrout hnd hd hentry hcap fuel out v
    hfuel hrun cfg MO hb8 hb0 hbytes items hitems hfitX
  exact ⟨hmain, n0, X0, h0, BChain.mono (fun st X B => ⟨B, heapInvAt_of_boundary hk B⟩) hch⟩

/-- … in particular for EVERY state the positional machine reaches: the machine's run contains a boundary
state for it, and the invariant holds there -/
theorem C09_x86_reachable (p : AxCut.Prog) (args : List Word) (hooks : Bool) (body routine : List Code)
    (nargs : Nat) (d0 : Def) (ops : List MockOp) (c' : Nat)
    (hsafe : LabelSafe p = true) (htp : LinTypedProg p) (hdata : DataProg p) (hrange : ProgInRange p)
    (hcompM : (compile mockSym hooks p).run 0 = .ok ((ops, nargs), c')) (hfit : CodeFits ops)
    (hcompX : compileX86 p hooks 0 = .ok (body, nargs)) (hrout : intoRoutine body nargs = .ok routine)
    (hnd : (labs routine).Nodup)
    (hd : p.defs.head? = some d0) (hentry : ∀ b ∈ d0.ctx, b.chi = .ext ∧ b.ty = .i64)
    (hcap : ∀ st, Reachable p ⟨d0.ctx, args.map .int, d0.body⟩ st → 2 * st.ctx.length ≤ 266)
    (fuel : Nat) (out : List (Bool × Word)) (v : Word) (hfuel : fuel + 1 < 2 ^ 64)
    (hrun : Pos.run p args fuel = ⟨out, .done v⟩)
    (cfg : MonCfg) (MO : MachOK cfg.mach) (hk : cfg.consts = consts)
    (hb8 : cfg.mach.heapBase % 8 = 0) (hb0 : 0 < cfg.mach.heapBase)
    (hbytes : 128 + 64 * 134 * fuel ≤ cfg.mach.heapBytes)
    (items : List (Code × Nat)) (hitems : (items.map (·.1)).map stripC = routine.map stripC)
    (hfitX : addrAt cfg.mach.codeBase routine routine.length < 2 ^ 64)
    (st : Pos.State) (hr : Reachable p ⟨d0.ctx, args.map .int, d0.body⟩ st) :
    ∃ n X, stepN cfg (mkProg cfg.mach items) n (initState cfg.mach args 6) = .inl X ∧
      BoundaryOf p hooks routine ops cfg st X ∧
      HeapInvAt cfg X (ctxKinds st.ctx) (cfg.mach.heapBase + cfg.mach.heapBytes) := by
  obtain ⟨hmain, n0, X0, h0, hch, hstop⟩ := data_programs_chain p args hooks body routine nargs d0 ops c' hsafe
    htp ⟨hrange.1, fun d hd => ⟨hdata d hd, hrange.2 d hd⟩⟩ hcompM hfit hcompX hrout hnd hd hentry hcap fuel
    out v hfuel hrun cfg MO hb8 hb0 hbytes items hitems hfitX
  obtain ⟨n, X, hn, B⟩ := BChain.prepend h0 hch st (reachable_mem_statesOf p fuel _ st hstop hr)
  exact ⟨n, X, hn, B, heapInvAt_of_boundary hk B⟩

/-- THE CHECKER OF THE HEAP MONITOR IS COMPLETE: on a memory that satisfies the invariant `InvW` (any roots,
any pending blocks) `invCheckFn` succeeds and returns the linear free list, the deferred list, the frontier
and a permutation of the live blocks.  With `invCheckFn_sound` (Props/C09.lean): the monitor decides the
invariant. -/
theorem C09_invCheckFn_complete {m : Nat → Nat} {base limit heap free F : Nat}
    {roots pend lin lazy live : List Nat}
    (I : InvW m base limit heap free roots pend lin lazy live F) :
    ∃ live', Scc.Heap.invCheckFn m base limit heap free roots pend = .ok (lin, lazy, live', F) ∧
      live'.Perm live :=
  Scc.Heap.invCheckFn_complete I

/-- THE EXECUTABLE HEAP CHECK SUCCEEDS AT EVERY STATEMENT BOUNDARY (inside the monitor's window): for a machine
state related by `Rel3` to a positional state, `heapCheck` — run with the kinds of that state's context, as
the `#ctx` hook lists them — returns the number of blocks below the frontier, provided the frontier block
lies within 512 bytes above the highest heap word ever stored (the region the monitor looks at). -/
theorem C09_x86_heapCheck_boundary {p : AxCut.Prog} {hooks : Bool} {routine : List Code} {ops : List MockOp}
    {cfg : MonCfg} (hk : cfg.consts = consts) {st : Pos.State} {X : State}
    (B : BoundaryOf p hooks routine ops cfg st X) :
    ∃ below inUse, HeapShapeAt cfg X below inUse ∧
      (64 * below + 64 ≤ X.maxHeapWritten + 512 → heapCheck cfg X (ctxKinds st.ctx) = .ok below) := by
  obtain ⟨roots, h, f, lin, lazy, live, F, hr, hh, hf, I⟩ := heapInvAt_of_boundary hk B
  refine ⟨(F - cfg.mach.heapBase) / 64, live.length, ⟨h, f, _, lin, lazy, live, F, hh, hf, I, rfl, rfl⟩, ?_⟩
  intro hw
  apply heapCheck_ok hr hh hf I
  have hFb := I.frontier_block
  unfold Scc.Heap.IsBlock at hFb
  omega

/-- non-vacuity of `C09_invCheckFn_complete`: the checker accepts the initial heap (one reusable block, the
frontier behind it) — by the theorem, not by evaluation -/
example : ∃ live', Scc.Heap.invCheckFn (Scc.Heap.init 4096 8192).mem.get 4096 8192 4096 (4096 + 64) [] [] =
    .ok ([4096], [], live', 4096 + 64) ∧ live'.Perm [] :=
  C09_invCheckFn_complete (Scc.Heap.init_inv (base := 4096) (limit := 8192) (by decide) (by decide))

/-- the monitor's parser reads the kinds of a context back from its hook comment (names without blanks) -/
theorem C09_parseCtx_hook (Γ : Ctx) (h : ∀ b ∈ Γ, ' ' ∉ b.var.print.toList) :
    parseCtx (ctxHookComment Γ) = some (ctxKinds Γ) := parseCtx_hook Γ h

/-- THE HEAP MONITOR DOES NOT FIRE AT A STATEMENT BOUNDARY (hooks on; `items` = the items of the routine, with
their comment texts): at a machine state related by `Rel3` to a positional state, `monitor` finds the `#ctx`
hook of that boundary at the program counter, parses its kinds and — when the frontier lies in its window —
returns the number of blocks below the frontier. -/
theorem C09_x86_monitor_boundary {p : AxCut.Prog} {routine : List Code} {ops : List MockOp}
    {cfg : MonCfg} (hk : cfg.consts = consts) {items : List (Code × Nat)} (hitems : items.map (·.1) = routine)
    (hparse : ∀ Γ, Code.COMMENT (ctxHookComment Γ) ∈ routine → parseCtx (ctxHookComment Γ) = some (ctxKinds Γ))
    {st : Pos.State} {X : State} (B : BoundaryOf p true routine ops cfg st X) :
    ∃ below inUse, HeapShapeAt cfg X below inUse ∧
      (cfg.heap = false → monitor cfg (mkProg cfg.mach items) X = .ok none) ∧
      (cfg.heap = true → 64 * below + 64 ≤ X.maxHeapWritten + 512 →
        monitor cfg (mkProg cfg.mach items) X = .ok (some below)) := by
  obtain ⟨F, cfgA, hs, hFc, R⟩ := B
  exact monitor_boundary hFc hk hitems R hparse

/-- the round trip on a concrete context (by the theorem: `parseCtx` does not reduce in the kernel) -/
example : parseCtx (ctxHookComment [⟨⟨"x", 1⟩, .ext, .i64⟩, ⟨⟨"b", 2⟩, .prd, C06_tBox⟩]) = some [false, true] :=
  C09_parseCtx_hook _ (by decide)

/-- C09 FOR EVERY PREFIX OF EVERY RUN (terminating or not) of a program with data types: for ANY number `fuel`
of steps of the positional machine, the machine started at `asm_main` passes — in order, without fault —
through a statement-boundary state for every state the positional machine goes through, and the invariant of
C09 holds at each of them.  Room: the footprint bound of C10 (`PeakAtMost`: at no boundary more than `Pk`
blocks in use; trivial for `Pk = progMaxLet p · fuel + 1`). -/
theorem C09_x86_every_prefix (p : AxCut.Prog) (args : List Word) (hooks : Bool) (body routine : List Code)
    (nargs : Nat) (d0 : Def) (ops : List MockOp) (c' : Nat)
    (hsafe : LabelSafe p = true) (htp : LinTypedProg p) (hdata : DataProg p) (hrange : ProgInRange p)
    (hcompM : (compile mockSym hooks p).run 0 = .ok ((ops, nargs), c')) (hfit : CodeFits ops)
    (hcompX : compileX86 p hooks 0 = .ok (body, nargs)) (hrout : intoRoutine body nargs = .ok routine)
    (hnd : (labs routine).Nodup)
    (hd : p.defs.head? = some d0) (hentry : ∀ b ∈ d0.ctx, b.chi = .ext ∧ b.ty = .i64)
    (hlen : d0.ctx.length = args.length)
    (hcap : ∀ st, Reachable p ⟨d0.ctx, args.map .int, d0.body⟩ st → 2 * st.ctx.length ≤ 266)
    (fuel : Nat) (hfuel : fuel + 1 < 2 ^ 64)
    (cfg : MonCfg) (MO : MachOK cfg.mach) (hk : cfg.consts = consts)
    (hb8 : cfg.mach.heapBase % 8 = 0) (hb0 : 0 < cfg.mach.heapBase)
    (Pk : Nat) (hbytes : 64 * (Pk + progMaxLet p + 2) ≤ cfg.mach.heapBytes)
    (items : List (Code × Nat)) (hitems : (items.map (·.1)).map stripC = routine.map stripC)
    (hfitX : addrAt cfg.mach.codeBase routine routine.length < 2 ^ 64)
    (hP : PeakAtMost p hooks routine ops cfg items args Pk (progMaxLet p * fuel + 1)) :
    ∃ n0 X0, stepN cfg (mkProg cfg.mach items) n0 (initState cfg.mach args 6) = .inl X0 ∧
      BChain cfg (mkProg cfg.mach items)
        (fun st X => BoundaryOf p hooks routine ops cfg st X ∧
          HeapInvAt cfg X (ctxKinds st.ctx) (cfg.mach.heapBase + cfg.mach.heapBytes))
        (statesOf p fuel ⟨d0.ctx, args.map .int, d0.body⟩) X0 := by
  obtain ⟨_, n0, X0, h0, hch⟩ := data_programs_prefix p args hooks body routine nargs d0 ops c' hsafe htp
    ⟨hrange.1, fun d hd => ⟨hdata d hd, hrange.2 d hd⟩⟩ hcompM hfit hcompX hrout hnd hd hentry hlen hcap fuel
    hfuel cfg MO hk hb8 hb0 Pk (progMaxLet p) (letLe_progMaxLet p) hbytes items hitems hfitX hP
  exact ⟨n0, X0, h0, BChain.mono (fun st X B => ⟨B.1, heapInvAt_of_boundary hk B.1⟩) hch⟩

/-- C09 FOR EVERY PREFIX OF EVERY RUN, with the room hypothesis on the SOURCE PROGRAM: if the object values held
by the variables of the positional machine never have more than `D` fields (over all reachable states), a heap
of `64·(D + A + 2)` bytes is enough, and at every statement boundary of every prefix of the run — terminating or
not — the machine's heap satisfies the invariant of C09. -/
theorem C09_x86_every_prefix_data (p : AxCut.Prog) (args : List Word) (hooks : Bool) (body routine : List Code)
    (nargs : Nat) (d0 : Def) (ops : List MockOp) (c' : Nat)
    (hsafe : LabelSafe p = true) (htp : LinTypedProg p) (hdata : DataProg p) (hrange : ProgInRange p)
    (hcompM : (compile mockSym hooks p).run 0 = .ok ((ops, nargs), c')) (hfit : CodeFits ops)
    (hcompX : compileX86 p hooks 0 = .ok (body, nargs)) (hrout : intoRoutine body nargs = .ok routine)
    (hnd : (labs routine).Nodup)
    (hd : p.defs.head? = some d0) (hentry : ∀ b ∈ d0.ctx, b.chi = .ext ∧ b.ty = .i64)
    (hlen : d0.ctx.length = args.length)
    (hcap : ∀ st, Reachable p ⟨d0.ctx, args.map .int, d0.body⟩ st → 2 * st.ctx.length ≤ 266)
    (D : Nat) (hD : ∀ st, Reachable p ⟨d0.ctx, args.map .int, d0.body⟩ st → valsFields st.env ≤ D)
    (fuel : Nat) (hfuel : fuel + 1 < 2 ^ 64)
    (cfg : MonCfg) (MO : MachOK cfg.mach) (hk : cfg.consts = consts)
    (hb8 : cfg.mach.heapBase % 8 = 0) (hb0 : 0 < cfg.mach.heapBase)
    (hbytes : 64 * (D + progMaxLet p + 2) ≤ cfg.mach.heapBytes)
    (items : List (Code × Nat)) (hitems : (items.map (·.1)).map stripC = routine.map stripC)
    (hfitX : addrAt cfg.mach.codeBase routine routine.length < 2 ^ 64) :
    ∃ n0 X0, stepN cfg (mkProg cfg.mach items) n0 (initState cfg.mach args 6) = .inl X0 ∧
      BChain cfg (mkProg cfg.mach items)
        (fun st X => BoundaryOf p hooks routine ops cfg st X ∧
          HeapInvAt cfg X (ctxKinds st.ctx) (cfg.mach.heapBase + cfg.mach.heapBytes))
        (statesOf p fuel ⟨d0.ctx, args.map .int, d0.body⟩) X0 := by
  obtain ⟨n0, X0, h0, hch⟩ := data_programs_prefix_gen p args hooks body routine nargs d0 ops c' hsafe htp
    ⟨hrange.1, fun d hd => ⟨hdata d hd, hrange.2 d hd⟩⟩ hcompM hfit hcompX hrout hnd hd hentry hlen hcap fuel
    hfuel cfg MO hb8 hb0 D (progMaxLet p) (letLe_progMaxLet p) hbytes items hitems hfitX (peakHyp_of_data hD)
  exact ⟨n0, X0, h0, BChain.mono (fun st X B => ⟨B, heapInvAt_of_boundary hk B⟩) hch⟩

/-- THE BOX LOOP (it never terminates): for EVERY number `k` of steps of the positional machine the machine on
the routine passes through a statement boundary for each of the first `k` states, and the heap invariant holds
at each of them -/
theorem C09_boxLoop_every_boundary (k : Nat) (hk : k + 1 < 2 ^ 64) :
    ∃ n0 X0, stepN {} (mkProg ({} : MachCfg) (C13_loopBoxRoutine.map fun c => (c, 0))) n0
        (initState {} [21] 6) = .inl X0 ∧
      BChain {} (mkProg ({} : MachCfg) (C13_loopBoxRoutine.map fun c => (c, 0)))
        (fun st X => BoundaryOf C13_loopBoxProg true C13_loopBoxRoutine C13_loopBoxOps {} st X ∧
          HeapInvAt {} X (ctxKinds st.ctx) (0x10000000 + 0x2000000))
        (statesOf C13_loopBoxProg k C13_loopS0) X0 := by
  have hcompM : ∃ c, (compile mockSym true C13_loopBoxProg).run 0 = .ok ((C13_loopBoxOps, 1), c) := ⟨_, rfl⟩
  obtain ⟨c', hcompM⟩ := hcompM
  have hcompX : compileX86 C13_loopBoxProg true 0 = .ok (C13_loopBoxBody, 1) := rfl
  have hrout : intoRoutine C13_loopBoxBody 1 = .ok C13_loopBoxRoutine := rfl
  have e1 := C13_loopBox_consts.1
  exact C09_x86_every_prefix_data C13_loopBoxProg [21] true C13_loopBoxBody C13_loopBoxRoutine 1
    C13_loopBoxMain C13_loopBoxOps c'
    (by decide) (linTypedCheck_sound C13_loopBoxProg rfl) C13_loopBoxProg_data C13_loopBoxProg_inRange hcompM
    (by decide) hcompX hrout (by decide) rfl (by decide) rfl
    (fun st hr => by rcases C13_loop_reachable st hr with rfl | rfl | rfl <;> decide)
    1 (fun st hr => by rcases C13_loop_reachable st hr with rfl | rfl | rfl <;> decide)
    k hk {} machOK_default rfl (by decide) (by decide) (by rw [e1]; decide)
    (C13_loopBoxRoutine.map fun c => (c, 0)) (by simp [List.map_map, Function.comp]) C13_loopBoxRoutine_fits

/-! ### non-vacuity: the box program of C06X86Heap (let, share by `subst`, switch shared and unique) -/

/-- every hypothesis of `C09_x86_data_programs` holds for the box program started with x = 21: the machine
passes through a boundary state for each state of the positional run, and the heap invariant
holds at each (the block is allocated by `let`, shared by `subst`, loaded once shared and once unique) -/
example : ∃ n0 X0, stepN {} (mkProg ({} : MachCfg) (C06_boxRoutine.map fun c => (c, 0))) n0
      (initState {} [21] 6) = .inl X0 ∧
    BChain {} (mkProg ({} : MachCfg) (C06_boxRoutine.map fun c => (c, 0)))
      (fun st X => BoundaryOf C06_boxProg true C06_boxRoutine C06_boxOps {} st X ∧
        HeapInvAt {} X (ctxKinds st.ctx) (0x10000000 + 0x2000000))
      (statesOf C06_boxProg 20 ⟨C06_boxMain.ctx, [.int 21], C06_boxMain.body⟩) X0 := by
  have hcompM : ∃ k, (compile mockSym true C06_boxProg).run 0 = .ok ((C06_boxOps, 1), k) := ⟨_, rfl⟩
  obtain ⟨c', hcompM⟩ := hcompM
  have hcompX : compileX86 C06_boxProg true 0 = .ok (C06_boxBody, 1) := rfl
  have hrout : intoRoutine C06_boxBody 1 = .ok C06_boxRoutine := rfl
  have hrun : Pos.run C06_boxProg [21] 20 = ⟨[(true, 42)], .done 42⟩ := by decide
  exact (C09_x86_data_programs C06_boxProg [21] true C06_boxBody C06_boxRoutine 1 C06_boxMain C06_boxOps c'
    (by decide) (linTypedCheck_sound C06_boxProg rfl) C06_boxProg_data C06_boxProg_inRange hcompM (by decide)
    hcompX hrout (by decide) rfl (by decide)
    (C06_capacity_of_run C06_boxProg 20 _ (by decide) (by decide)) 20 _ _ (by decide) hrun {}
    machOK_default rfl (by decide) (by decide) (by decide)
    (C06_boxRoutine.map fun c => (c, 0)) (by simp [List.map_map, Function.comp]) C06_boxRoutine_fits).2

/-- `C09_x86_every_prefix` on the box program: the first 7 steps of the run (a proper prefix), with the
trivial peak `1·7 + 1` in the default 32 MiB heap -/
example : ∃ n0 X0, stepN {} (mkProg ({} : MachCfg) (C06_boxRoutine.map fun c => (c, 0))) n0
      (initState {} [21] 6) = .inl X0 ∧
    BChain {} (mkProg ({} : MachCfg) (C06_boxRoutine.map fun c => (c, 0)))
      (fun st X => BoundaryOf C06_boxProg true C06_boxRoutine C06_boxOps {} st X ∧
        HeapInvAt {} X (ctxKinds st.ctx) (0x10000000 + 0x2000000))
      (statesOf C06_boxProg 7 ⟨C06_boxMain.ctx, [.int 21], C06_boxMain.body⟩) X0 := by
  have hcompM : ∃ k, (compile mockSym true C06_boxProg).run 0 = .ok ((C06_boxOps, 1), k) := ⟨_, rfl⟩
  obtain ⟨c', hcompM⟩ := hcompM
  have hcompX : compileX86 C06_boxProg true 0 = .ok (C06_boxBody, 1) := rfl
  have hrout : intoRoutine C06_boxBody 1 = .ok C06_boxRoutine := rfl
  exact C09_x86_every_prefix C06_boxProg [21] true C06_boxBody C06_boxRoutine 1 C06_boxMain C06_boxOps c'
    (by decide) (linTypedCheck_sound C06_boxProg rfl) C06_boxProg_data C06_boxProg_inRange hcompM (by decide)
    hcompX hrout (by decide) rfl (by decide) rfl
    (C06_capacity_of_run C06_boxProg 20 _ (by decide) (by decide)) 7 (by decide) {}
    machOK_default rfl (by decide) (by decide) (1 * 7 + 1) (by decide)
    (C06_boxRoutine.map fun c => (c, 0)) (by simp [List.map_map, Function.comp]) C06_boxRoutine_fits
    (peakAtMost_trivial _ _ _ _ _ _ _ _)

end Scc.X86

#print axioms Scc.X86.C09_x86_boundary
#print axioms Scc.X86.C09_x86_window
#print axioms Scc.X86.C09_x86_data_programs
#print axioms Scc.X86.C09_x86_reachable
#print axioms Scc.X86.C09_x86_every_prefix
#print axioms Scc.X86.C09_x86_every_prefix_data
#print axioms Scc.X86.C09_boxLoop_every_boundary
#print axioms Scc.X86.C09_invCheckFn_complete
#print axioms Scc.X86.C09_x86_heapCheck_boundary
#print axioms Scc.X86.C09_parseCtx_hook
#print axioms Scc.X86.C09_x86_monitor_boundary
