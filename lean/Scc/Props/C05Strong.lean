/-
  Scc.Props.C05Strong — C05 (c) (linearization preserves behaviour) with the observation relation of
  C02/C03, i.e. INCLUDING runs that do not finish.

  The audit (AUDIT.md, entry C05_full) found that `C05_T4_linearize_sem` speaks about finished runs only: a
  program that prints forever is unconstrained.
  * `LinStrongSame`  the four clauses of `C02_ObsSame` / `ObsEq` for a run of the named machine and a run of
      the positional machine:
      1/2. a run of either machine that finishes with a result, `divByZero` or `overflow` is matched by a run
           of the other machine with the same trace and the same outcome (`Sim.sameOutcome`: the same value,
           or the same arithmetic fault) — these are the two clauses of `C05_T4`;
      3/4. for all fuel, the trace of either machine is a prefix of a trace of the other.
  * `C05_sem_strong`  (THEOREM)  hypotheses of `C05_T4`, conclusion `LinStrongSame`.
  * `C05_sem_traces`  (THEOREM)  finer than 3/4: the simulation is lockstep (the positional machine only
      inserts silent substitution steps), so every trace of one machine within some fuel IS a trace of the
      other within some fuel (equality, not only prefix).
  Proof: `Scc/AxCut/LinRelStrong.lean` (`sim_trace_forward`, `sim_trace_backward` from `Sim.sim_step`; no
  existing file was changed).  Stuck reasons other than the arithmetic faults do not occur on either side once
  both machines have started (`StepRel`); `C05_T5` says so for the positional machine.
-/
import Scc.Props.C05
import Scc.AxCut.LinRelStrong

namespace Scc.Props.C05
open Scc.AxCut

/-- same observable behaviour of the named machine (`src`) and the positional machine (`tgt`) -/
def LinStrongSame (src : Nat → Named.Behaviour) (tgt : Nat → Pos.Behaviour) : Prop :=
  (∀ n, Sim.finishedNamed (src n).res →
    ∃ m, (tgt m).out = (src n).out ∧ Sim.sameOutcome (src n).res (tgt m).res) ∧
  (∀ m, Sim.finishedPos (tgt m).res →
    ∃ n, (src n).out = (tgt m).out ∧ Sim.sameOutcome (src n).res (tgt m).res) ∧
  (∀ n, ∃ m, (src n).out <+: (tgt m).out) ∧ (∀ m, ∃ n, (tgt m).out <+: (src n).out)

def C05_sem_strong_statement : Prop :=
  ∀ (p p' : Prog) (args : List (BitVec 64)), WfNonLinear p → noEnvAnnProg p = true →
    (∀ d, p.defs.head? = some d → ∀ b ∈ d.ctx, b.chi = .ext ∧ b.ty = .i64) →
    linearizeProg p = .ok p' →
    LinStrongSame (Named.run p args) (Pos.run p' args)

/-- the traces of the two machines coincide, for all fuel, in both directions -/
theorem C05_sem_traces (p p' : Prog) (args : List (BitVec 64)) (hwf : WfNonLinear p)
    (hne : noEnvAnnProg p = true)
    (hmain : ∀ d, p.defs.head? = some d → ∀ b ∈ d.ctx, b.chi = .ext ∧ b.ty = .i64)
    (hlin : linearizeProg p = .ok p') :
    (∀ n, ∃ m, (Pos.run p' args m).out = (Named.run p args n).out) ∧
    (∀ m, ∃ n, (Pos.run p' args m).out = (Named.run p args n).out) :=
  Sim.linRelProg_traces p p' args (linearizeProg_linRel p p' hwf hne hlin) hmain

/-- **C05_sem_strong**: linearization preserves results, both arithmetic faults and traces, of finished and
    of unfinished runs, in both directions — for every program, all arguments, all fuel. -/
theorem C05_sem_strong : C05_sem_strong_statement := by
  intro p p' args hwf hne hmain hlin
  obtain ⟨h1, h2⟩ := C05_T4 p p' args hwf hne hmain hlin
  obtain ⟨h3, h4⟩ := C05_sem_traces p p' args hwf hne hmain hlin
  refine ⟨h1, ?_, ?_, ?_⟩
  · intro m hf
    obtain ⟨n, e, ho⟩ := h2 m hf
    exact ⟨n, e.symm, ho⟩
  · intro n
    obtain ⟨m, e⟩ := h3 n
    exact ⟨m, by rw [e]; exact List.prefix_refl _⟩
  · intro m
    obtain ⟨n, e⟩ := h4 m
    exact ⟨n, by rw [e]; exact List.prefix_refl _⟩

/-! ## non-vacuity -/

-- the theorem applied to the example of Props/C05.lean (closure, switch, call)
example : ∀ p', linearizeProg exProg = .ok p' → LinStrongSame (Named.run exProg [5]) (Pos.run p' [5]) := by
  intro p' h
  refine C05_sem_strong exProg p' [5] (by decide) (by decide) ?_ h
  intro d hd
  simp only [exProg, List.head?_cons, Option.some.injEq] at hd
  subst hd
  decide

/-- `main(a) { print a; z := 0; q := a / z; exit q }`: prints, then divides by zero -/
def divProg : Prog where
  maxId := 3
  types := []
  defs := [
    { name := ⟨"main", 0⟩, ctx := [bx "a" 1],
      body := .print true (v "a" 1)
        (.lit (v "z" 2) 0 (.op (v "q" 3) (v "a" 1) .div (v "z" 2) (.exit (v "q" 3)) none) none) none }]

/-- `main(a) { print a; main(a) }`: prints forever -/
def loopProg : Prog where
  maxId := 1
  types := []
  defs := [
    { name := ⟨"main", 0⟩, ctx := [bx "a" 1],
      body := .print true (v "a" 1) (.call ⟨"main", 0⟩ [bx "a" 1]) none }]

example : WfNonLinear divProg ∧ noEnvAnnProg divProg = true := by decide
example : WfNonLinear loopProg ∧ noEnvAnnProg loopProg = true := by decide
-- clause 1 on a fault: both machines print 7 and stop with `divByZero`
example : (Named.run divProg [7] 20).out = [(true, 7)] ∧
    Sim.finishedNamed (Named.run divProg [7] 20).res := by
  have : (Named.run divProg [7] 20).res = .stuck "divByZero" := by rfl
  refine ⟨by decide, ?_⟩
  rw [this]; exact .inl rfl
example : ∃ p', linearizeProg divProg = .ok p' ∧ Pos.run p' [7] 20 = ⟨[(true, 7)], .stuck .divByZero⟩ :=
  ⟨_, rfl, by decide⟩
-- clauses 3/4 on a run that never finishes: after 6 steps both machines have printed 3 three times
example : (Named.run loopProg [3] 6).out = [(true, 3), (true, 3), (true, 3)] := by decide
example : ∃ p' m, linearizeProg loopProg = .ok p' ∧
    Pos.run p' [3] m = ⟨[(true, 3), (true, 3), (true, 3)], .outOfFuel⟩ := ⟨_, 6, rfl, by decide⟩

#print axioms C05_sem_traces
#print axioms C05_sem_strong

end Scc.Props.C05
