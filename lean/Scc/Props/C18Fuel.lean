/-
  Scc.Props.C18Fuel — C18, lexer+parser part: the FUEL of the models is never the reason for an answer.

  The parser model (Scc.Fun.Parse) is a recursive-descent parser whose mutually recursive functions
  recurse on a fuel argument; the driver passes `fuelFor (number of tokens) = 4 n + 8` and the model
  answers the artefact `Outcome.diag .fuel` when it runs out.  `Scc.Props.C18` kept
  `C18_fuel_statement` ("the model never answers `diag .fuel`") as a `def : Prop` checked by testing.
  Here it is a THEOREM, for every literal mode and EVERY input text (no well-formedness premise):

    * C18_fuel                 : C18_fuel_statement
    * C18_fuel_tokens          the same on every token list (also lists no text lexes to)
    * C18_fuel_margin          already `2 n + 1` units of fuel (n = number of tokens) are enough for
                               `parseDecls`; `fuelFor n = 4 n + 8` is above that
    * C18_lexer_fuel           the lexer model's fuel (`lexLoop`, `fuel = number of characters`) is enough
                               as well: the token stream is the same for every larger fuel, and
                               `C18_lexStream_unfold`: `lexStream` satisfies the fuel-free recursion
                               equation of `Matcher::next` (so a `Token.bad` always stems from
                               `lexStep … = .invalid`, never from the out-of-fuel branch)
    * C18_parse_outcome        hence every outcome of the model is a program, one of the five REAL
                               diagnostics P-001 … P-005, or the literal panic
    * C18_parse_outcome_fixed  repaired literal action: a program or a real diagnostic, nothing else
    * C18_frontEnd_real_diag   `frontEnd src` (Scc.Pipeline) never reports the artefact code "FUEL"
    * C18_text_total_sharp     `C18_text_total` (Props/C12Final) with the parser diagnostic restricted to
                               the real codes: no fuel caveat is left in C18 from the text.

  Proof (Scc/Fun/ParseFuel.lean): every parser function called with fuel `F` on input `ts` is `Fine` (not
  out of fuel; a successful call returns a strictly shorter input — `parsePostfix`/`parseOpt…`: not
  longer) provided `2 * ts.length + k ≤ F`, where `k ≤ 3` is the rank of the function (length of the
  longest call chain below it that consumes no token).  Scc/Fun/LexFuel.lean: `lexStep` on a non-empty
  input returns a strictly shorter rest.
  Nothing of `C18_fuel_statement` remains open.
-/
import Scc.Fun.ParseFuel
import Scc.Fun.LexFuel
import Scc.Props.C12Final

namespace Scc.Props
open Scc.Fun Scc.Fun.Lex Scc.Fun.Parse

/-- **C18 fuel**: the parser model never answers "out of fuel", for every mode and every input text. -/
theorem C18_fuel : C18_fuel_statement := fun mode src => parse_ne_fuel mode src

/-- the same for every token list (including lists that no text lexes to) -/
theorem C18_fuel_tokens (mode : LiteralMode) (ts : List Token) : parseTokens mode ts ≠ .diag .fuel :=
  parseTokens_ne_fuel mode ts

/-- margin: `2 n + 1` units of inner fuel and `n` units of declaration fuel suffice for `n` tokens -/
theorem C18_fuel_margin (mode : LiteralMode) (fuel n : Nat) (ts : List Token)
    (hn : ts.length ≤ n) (hf : 2 * ts.length + 1 ≤ fuel) :
    parseDecls mode fuel n ts ≠ .diag .fuel := parseDecls_ne_fuel mode fuel n ts hn hf

/-- non-vacuity of the margin: the fuel the driver passes satisfies both premises -/
example (ts : List Token) : ts.length ≤ ts.length + 1 ∧ 2 * ts.length + 1 ≤ fuelFor ts.length := by
  unfold fuelFor; omega

/-- the out-of-fuel answer -/
def C18_isFuel {α : Type} : Outcome α → Bool
  | .diag .fuel => true
  | _ => false

/-- the bound is about the FUEL, not about lucky inputs: with too little fuel the model does answer
`diag .fuel` (so the statement is not vacuous) -/
example : C18_isFuel (parseDecls .diagOnOverflow 3 15
    [.kw .def_, .lower ['m'], .lparen, .rparen, .colon, .kw .i64, .lbrace, .lparen, .lparen, .num ['7'],
     .rparen, .rparen, .rbrace]) = true := by decide

/-- … and the same tokens parse with the driver's fuel -/
example : (parseTokens .diagOnOverflow
    [.kw .def_, .lower ['m'], .lparen, .rparen, .colon, .kw .i64, .lbrace, .lparen, .lparen, .num ['7'],
     .rparen, .rparen, .rbrace]).isOk = true := by decide

/-- **Lexer fuel**: the token stream does not depend on the fuel once it is at least the number of
characters (which is what `lexStream` passes). -/
theorem C18_lexer_fuel (f : Nat) (cs : List Char) (hf : cs.length ≤ f) :
    lexLoop f cs = lexStream cs := lexLoop_eq_lexStream f cs hf

/-- the token stream satisfies the fuel-free equation of the lexer loop -/
theorem C18_lexStream_unfold (c : Char) (cs : List Char) :
    lexStream (c :: cs) =
      match lexStep (c :: cs) with
      | .tok t r => t :: lexStream r
      | .skip r => lexStream r
      | .invalid => [.bad] := lexStream_cons c cs

example : lexLoop 100 ['d','e','f',' ','m'] = lexStream ['d','e','f',' ','m'] :=
  C18_lexer_fuel _ _ (by decide)

/-- the codes of the real parser (`fun::parser::result`) -/
def C18_realDiag : DiagCode → Prop
  | .p001 | .p002 | .p003 | .p004 | .p005 => True
  | .fuel => False

/-- every outcome of the model parser is a program, a REAL diagnostic, or the literal panic -/
theorem C18_parse_outcome (mode : LiteralMode) (src : String) :
    (∃ p, parse mode src = .ok p) ∨ (∃ c, parse mode src = .diag c ∧ C18_realDiag c) ∨
      parse mode src = .panic .literal := by
  have hf := C18_fuel mode src
  cases h : parse mode src with
  | ok p => exact .inl ⟨p, rfl⟩
  | diag c =>
    refine .inr (.inl ⟨c, rfl, ?_⟩)
    cases c <;> first | exact trivial | exact absurd h hf
  | panic s => cases s; exact .inr (.inr rfl)

/-- repaired literal action: a program or a real diagnostic — for EVERY input text -/
theorem C18_parse_outcome_fixed (src : String) :
    (∃ p, parse .diagOnOverflow src = .ok p) ∨
      (∃ c, parse .diagOnOverflow src = .diag c ∧ C18_realDiag c) := by
  rcases C18_parse_outcome .diagOnOverflow src with h | h | h
  · exact .inl h
  · exact .inr h
  · exact absurd h (C18_parse_statement_fixed src .literal)

/-- the strings `frontEnd` reports for the real parser diagnostics -/
def C18_realDiagStrings : List String := ["P-001", "P-002", "P-003", "P-004", "P-005"]

/-- the front end of the composed model never reports the artefact code "FUEL": a parser diagnostic
of `frontEnd` is one of the codes of the real parser -/
theorem C18_frontEnd_real_diag (src : String) (d : String)
    (h : Pipeline.frontEnd src = .parseDiag d) : d ∈ C18_realDiagStrings := by
  have hf := C18_fuel .diagOnOverflow src
  unfold Pipeline.frontEnd at h
  cases hp : parse .diagOnOverflow src with
  | diag c =>
    rw [hp] at h
    simp only [Pipeline.Outcome.parseDiag.injEq] at h
    subst h
    cases c <;> first | exact absurd hp hf | decide
  | panic s => cases s; rw [hp] at h; cases h
  | ok p =>
    rw [hp] at h
    simp only [] at h
    cases hc : Fun.Check.checkProgram p <;> rw [hc] at h <;> cases h

theorem C18_frontEnd_no_fuel (src : String) : Pipeline.frontEnd src ≠ .parseDiag "FUEL" := by
  intro h
  have := C18_frontEnd_real_diag src _ h
  revert this; decide

/-- the outcome classes of the whole compiler on a text, parser diagnostics restricted to real codes -/
def C18_textOutcomeSharp : Except String (Nat × String) → Prop
  | .ok _ => True
  | .error e => (∃ c ∈ C18_realDiagStrings, e = "S0 DIAG " ++ c) ∨ (∃ c, e = "S1 DIAG " ++ c) ∨
      e = "S6x compile: Out of temporaries"

/-- **C18 from the text, without fuel caveat**: `C18_text_total` where the parser diagnostic is one of
the real parser's codes. -/
theorem C18_text_total_sharp (src : String) (hooks : Bool) (c : Nat)
    (hmain : ∀ p p', Pipeline.frontEnd src = .ok p p' →
      Pipeline.validMain p' = true ∧ Fun.noMainCall p' = true) :
    C18_textOutcomeSharp (Pipeline.compileTextX86 hooks c src) := by
  cases hf : Pipeline.frontEnd src with
  | parseDiag d =>
    simp only [Pipeline.compileTextX86, hf]
    exact .inl ⟨d, C18_frontEnd_real_diag src d hf, rfl⟩
  | checkDiag d => simp only [Pipeline.compileTextX86, hf]; exact .inr (.inl ⟨d, rfl⟩)
  | panic s => exact absurd hf (C18_frontEnd_no_panic src s)
  | ok p p' =>
    have h := C18_text_total src hooks c hmain
    cases hr : Pipeline.compileTextX86 hooks c src with
    | ok r => trivial
    | error e =>
      rw [hr] at h
      rcases h with ⟨d, hd⟩ | h | h
      · -- not a parser diagnostic: the front end accepted the text
        obtain ⟨hv, hmc⟩ := hmain p p' hf
        obtain ⟨hp, hc⟩ := frontEnd_ok_iff.1 hf
        obtain ⟨st, hok, _, h6⟩ := C12_final_sharp .diagOnOverflow src p p' hp hc hv hmc
        have hmid : Pipeline.middleEnd p' = .ok st.s5 := Pipeline.middleEnd_ok_iff.2 ⟨st, hok, rfl⟩
        simp only [Pipeline.compileTextX86, hf, Pipeline.compileAllX86, hmid] at hr
        cases hb : Pipeline.backEndX86 hooks c st.s5 with
        | ok r => rw [hb] at hr; cases hr
        | error e' =>
          rw [hb] at hr
          have := C18_backEndX86_error h6 hooks c e' hb
          simp only [Except.error.injEq] at hr
          subst hr
          exact .inr (.inr this)
      · exact .inr (.inl h)
      · exact .inr (.inr h)

/-! ## axioms -/

#print axioms C18_fuel
#print axioms C18_fuel_tokens
#print axioms C18_fuel_margin
#print axioms C18_lexer_fuel
#print axioms C18_lexStream_unfold
#print axioms C18_parse_outcome
#print axioms C18_parse_outcome_fixed
#print axioms C18_frontEnd_real_diag
#print axioms C18_frontEnd_no_fuel
#print axioms C18_text_total_sharp

end Scc.Props
