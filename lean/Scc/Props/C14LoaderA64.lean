/-
  Scc.Props.C14LoaderA64 — THE LOADER ROUND TRIP FOR AArch64 (a C14 fact: the emitted text is
  well-formed assembly that the machine's parser `Scc.A64.parseText` reads back as the emitted items).
  The AArch64 analogue of Props/C14Loader.lean (x86-64).  Everything below is proved for ALL items /
  routines, once and for all (no evaluation, no `native_decide`).

  PROVED
    strings (Scc/StringLemmasAscii.lean, from the core lemma files, nothing assumed):
      `C14A_trimAscii`        `s.trimAscii.toString.toList = trimList s.toList`        (every string)
      `C14A_startsWith` / `C14A_endsWith`  string patterns = list prefix / suffix       (every string)
      `C14A_toNat_repr`       `(Nat.repr n).toNat? = some n`;  `Str.toNat?_eq` characterises `String.toNat?`
                              on every string (it accepts `_` separators: hence the loader's re-print check)
      `drop`/`dropEnd`/`isEmpty`/`splitOn " "`/`splitOn ":"`/`" ".intercalate`: `Str.toList_drop`, …
    per item (Scc/A64/Loader{Lemmas,Instr,Code}.lean):
      `C14A_parseLine_printCode`  every instruction constructor of `A64.Code` whose registers exist
                              (`Code.toInstr c = some i`) and whose labels are text-safe:
                              `parseLine (printCode c) = some (.instr i)`, printed on ONE line;
      `C14A_label_lines`      `LAB l` = an empty line (read as `.blank`) and `l:` (read as `.label l`);
      `C14A_directives`       `.text`, `.global l` are read as `.directive`;
      `C14A_comment_line`     `// msg` is read as `commentPLine? msg` for EVERY `msg` (no hypothesis);
      `C14A_plain_comment`, `C14A_hook_comment`: a comment not starting with `#ctx [` is `.comment`; the
                              backend's hook comment `ctxHookComment ctx` is `.hook` of the context's
                              (name, kind) list whenever no variable name contains a blank;
      `C14A_roundTrips`       `Code.roundTrips c = true` (the executable check of the test driver).
    routine (Scc/A64/LoaderText.lean):
      `C14A_loader`           `parseText (printProg cs) = .ok (numberFrom 1 (progPLines cs))`: the lines of
                              the items in order (a label contributes `.blank`, `.label l`), numbered from 1;
      `C14A_loader_lines`     the same as line list + line numbers `range' 1 n`;
      `C14A_run`              `run (printProg cs) args fuel cfg = runProg (layout (numberFrom 1 (progPLines cs))) …`
                              (monitor `wf` off): the form a later "run on items" theorem composes with.
  HYPOTHESES (all decidable, `codeTextOK`; evaluated by `#eval` on concrete routines, `decide` works too):
      registers exist (`regsOK`: logical register ≤ 29 → architectural X0..X30 without X18);
      referenced labels (`B BL ADR Bcc .global`): non-empty, no white space, none of `, : [ ] !`;
      defined labels (`LAB`): moreover not starting with `.` or `//`;
      comments: no line break, and either not starting with `#ctx [` or exactly a hook text with
      blank-free names.
    The excluded points REALLY fail in the model (they are not proof artefacts) — see the `#eval`s in the
    section "excluded points" at the end.  The backend's labels are `asm_main`, `cleanup`, `lab<n>`,
    `<def>_`, `<mangled type>_<n>`, `<base>_<xtor>` (types mangled: `[`→`_`, `, `→`_`, `]` dropped), so
    `codeTextOK` holds whenever the definition / type / xtor / variable names of the AxCut program contain
    no white space and none of `, : [ ] !` (variable names: no blank); it is decidable and meant to be
    evaluated on every compiled routine (it is `true` on the hook-instrumented example routine of
    Props/C13A64.lean by `decide`, see Props/C14LoaderA64Compose.lean).
  EVERY COMPILED ROUTINE: Props/C14LoaderA64Names.lean proves `codeTextOK` for every item the backend model
    emits, from decidable checks on the names and sizes of the PROGRAM (`C14A_routine_textOK`,
    `C14A_routine_loads`).
  COMPOSITION: Props/C14LoaderA64Compose.lean feeds `C14A_loader` into `C13_cc_never_fires_int_text`
    (whose only open hypothesis was this round trip): `C13_cc_never_fires_int_printed`.
  NOT PROVED HERE: `wfCheck (printProg routine) = .ok ()` (C14_statement, Props/C14A64.lean) — that is a
      property of the label structure of compiled routines, not of the loader; with `C14A_loader` it
      reduces to a statement about `layout (numberFrom 1 (progPLines routine))`.
  Nothing remains a `def … : Prop`.
-/
import Scc.A64.LoaderCheck

namespace Scc.A64

open Scc.A64.Loader Scc.Str

/-! ## strings -/

theorem C14A_trimAscii (s : String) : s.trimAscii.toString.toList = trimList s.toList := toList_trimAscii s

example : trimList " \t  ADD X1, X2, 3 \r\n".toList = "ADD X1, X2, 3".toList := by decide

theorem C14A_startsWith (s pat : String) : s.startsWith pat = true ↔ pat.toList <+: s.toList :=
  startsWith_iff s pat

theorem C14A_endsWith (s pat : String) : s.endsWith pat = true ↔ pat.toList <:+ s.toList :=
  endsWith_iff s pat

theorem C14A_toNat_repr (n : Nat) : (Nat.repr n).toNat? = some n := toNat?_repr n

/-- `String.toNat?` accepts digit separators: the reason for the loader's `toString n == s` check -/
example : ("1_0" : String).toNat? = some 10 := by rw [toNat?_eq]; decide

/-! ## the decidable text-safety predicate: `codeTextOK` (Scc/A64/LoaderCheck.lean) -/

/-! ## per item -/

/-- every instruction item whose registers exist and whose labels are text-safe is read back as the
    machine instruction `Code.toInstr` assigns to it; its printed form is one line -/
theorem C14A_parseLine_printCode (c : Code) (i : Instr) (hi : c.toInstr = some i) (h : codeTextOK c = true) :
    parseLine (printCode c) = some (.instr i) ∧ '\n' ∉ (printCode c).toList :=
  reads_instr c i hi (codeOK_of_codeTextOK h).2

example : parseLine (printCode (.STP_PRE_INDEX (.x 29) (.x 28) .sp (-16)))
    = some (.instr (.stpPre (.x 30) (.x 29) .sp (-16))) :=
  (C14A_parseLine_printCode _ _ rfl (by decide)).1

example : parseLine (printCode (.MOVK (.x 17) 65535 48)) = some (.instr (.movk (.x 17) 65535 48)) :=
  (C14A_parseLine_printCode _ _ rfl (by decide)).1

example : parseLine (printCode (.ADR (.x 2) "lab12_Cons")) = some (.instr (.adr (.x 2) "lab12_Cons")) :=
  (C14A_parseLine_printCode _ _ rfl (by decide)).1

/-- a label is printed as an empty line (read as `.blank`) and `l:` (read as the label) -/
theorem C14A_label_lines (l : String) (h : codeTextOK (.LAB l) = true) :
    printCode (.LAB l) = "\n" ++ (l ++ ":") ∧ parseLine "" = some .blank ∧
    parseLine (l ++ ":") = some (.label l) ∧ '\n' ∉ (l ++ ":").toList :=
  let r := reads_LAB l (codeOK_of_codeTextOK h).2
  ⟨r.1, parseLine_empty, r.2.1, r.2.2.2⟩

example : parseLine ("asm_main" ++ ":") = some (.label "asm_main") := (C14A_label_lines _ (by decide)).2.2.1

theorem C14A_directives :
    parseLine (printCode .TEXT) = some .directive ∧
    ∀ l, codeTextOK (.GLOBAL l) = true → parseLine (printCode (.GLOBAL l)) = some .directive :=
  ⟨reads_TEXT.1, fun l h => (reads_GLOBAL l (codeOK_of_codeTextOK h).2).1⟩

example : parseLine (printCode (.GLOBAL "asm_main")) = some .directive := C14A_directives.2 _ (by decide)

/-- a comment line is read as `commentPLine?` says — for EVERY comment text -/
theorem C14A_comment_line (m : String) : parseLine (printCode (.COMMENT m)) = commentPLine? m :=
  reads_COMMENT_line m

theorem C14A_plain_comment (m : String) (h : ¬ "#ctx [".toList <+: m.toList) :
    parseLine (printCode (.COMMENT m)) = some .comment := by
  rw [reads_COMMENT_line, commentPLine?_plain h]

example : parseLine (printCode (.COMMENT "####increment refcount")) = some .comment :=
  C14A_plain_comment _ (by decide)

/-- the backend's `verif_hooks` comment of a context is read as the hook of that context, provided no
    variable name contains a blank -/
theorem C14A_hook_comment (ctx : Scc.AxCut.Ctx) (h : ∀ b ∈ ctx, ' ' ∉ b.var.print.toList) :
    parseLine (printCode (.COMMENT (Scc.Backend.ctxHookComment ctx))) = some (.hook (ctxVars ctx)) := by
  rw [reads_COMMENT_line, ctxHookComment_eq, commentPLine?_hook]
  intro v hv
  obtain ⟨b, hb, rfl⟩ := List.mem_map.1 hv
  exact h b hb

example : parseLine (printCode (.COMMENT (Scc.Backend.ctxHookComment
      [⟨⟨"x", 41⟩, .ext, .i64⟩, ⟨⟨"k:0", 0⟩, .cns, .i64⟩])))
    = some (.hook [("x_41", .ext), ("k:0", .cns)]) :=
  C14A_hook_comment _ (by decide)

/-- the executable per-item check of the test driver is TRUE on every text-safe item -/
theorem C14A_roundTrips (c : Code) (h : codeTextOK c = true) : c.roundTrips = true :=
  roundTrips_of_ok c (codeOK_of_codeTextOK h).1 (codeOK_of_codeTextOK h).2

example : (Code.LDP_POST_INDEX (.x 20) (.x 21) .sp 16).roundTrips = true := C14A_roundTrips _ (by decide)

/-! ## routines -/

/-- **THE LOADER ROUND TRIP**: the printed text of a routine whose items are text-safe is read by the
    machine's parser as the lines of the items, in order, numbered from 1 (`progPLines`: a label
    contributes `.blank` and `.label l`, a directive `.directive`, a comment `.comment` or `.hook vars`,
    an instruction `.instr (toInstr c)`) -/
theorem C14A_loader (cs : List Code) (h : ∀ c ∈ cs, codeTextOK c = true) :
    parseText (printProg cs) = .ok (numberFrom 1 (progPLines cs)) :=
  parseText_printProg cs (progOK_of_codeTextOK h)

/-- the same, as the list of parsed lines and the list of their numbers -/
theorem C14A_loader_lines (cs : List Code) (h : ∀ c ∈ cs, codeTextOK c = true) (hne : cs ≠ []) :
    ∃ ls, parseText (printProg cs) = .ok ls ∧ ls.map (·.2) = cs.flatMap codePLines ∧
      ls.map (·.1) = List.range' 1 ls.length :=
  parseText_printProg_lines cs (progOK_of_codeTextOK h) hne

/-- the machine on the printed text is the machine on the layout of the items' lines -/
theorem C14A_run (cs : List Code) (h : ∀ c ∈ cs, codeTextOK c = true) (args : List Word) (fuel : Nat)
    (cfg : MonCfg) (hwf : cfg.wf = false) :
    run (printProg cs) args fuel cfg = runProg (layout (numberFrom 1 (progPLines cs))) args fuel cfg :=
  run_printProg cs (progOK_of_codeTextOK h) args fuel cfg hwf

/-- a text-safe routine: directives, labels, a hook, comments, instructions of every operand shape -/
def C14A_loaderExample : List Code :=
  [.TEXT, .GLOBAL "asm_main", .LAB "asm_main", .COMMENT "setup",
   .STP_PRE_INDEX (.x 28) (.x 29) .sp (-16), .SUBI .sp .sp 2048, .MOVR (.x 0) (.x 5),
   .COMMENT "#ctx [x_41:ext k:cns]", .MOVZ (.x 4) 65535 0, .MOVK (.x 4) 1 16, .MOVN (.x 6) 0 0,
   .ADR (.x 2) "lab0", .LDR (.x 2) (.x 1) 16, .STR (.x 17) .sp 2040, .CMPI (.x 4) 0, .BEQ "lab0_Nil",
   .LAB "lab0", .B "lab0_Nil", .B "lab0_Cons", .LAB "lab0_Nil", .MSUB (.x 4) (.x 5) (.x 6) (.x 7),
   .SDIV (.x 5) (.x 6) .xzr, .CMPR (.x 4) (.x 5), .BGE "cleanup", .BL "println_i64", .BR (.x 2),
   .LAB "lab0_Cons", .LAB "cleanup", .ADDI .sp .sp 2048, .LDP_POST_INDEX (.x 28) (.x 29) .sp 16, .RET]

example : parseText (printProg C14A_loaderExample) = .ok (numberFrom 1 (progPLines C14A_loaderExample)) :=
  C14A_loader _ (by decide)

example : ∃ ls, parseText (printProg C14A_loaderExample) = .ok ls ∧ ls.length = 36 := by
  refine ⟨_, C14A_loader _ (by decide), ?_⟩
  rw [length_numberFrom]; rfl

/-! ## excluded points: the hypotheses are necessary (evaluation of the REAL model) -/

-- a defined label that starts with `.` is taken for a directive, with `//` for a comment
#eval (parseLine ".L1:", (Code.LAB ".L1").roundTrips)          -- (none, false)
#eval (parseLine "//x:", (Code.LAB "//x").roundTrips)          -- (some comment, false)
-- a referenced label with punctuation / white space is cut into tokens or trimmed
#eval (Code.ADR (.x 1) "a[b").roundTrips                       -- false
#eval (Code.B "x\ty").roundTrips                               -- false
#eval (Code.B " x").roundTrips                                 -- false (read as label "x")
-- a malformed hook is a PARSE ERROR, a blank in a variable name splits the binding
#eval parseLine (printCode (.COMMENT "#ctx [x"))               -- none
#eval parseLine (printCode (.COMMENT "#ctx [a b:prd]"))        -- none
-- a register that does not exist
#eval (Code.ADD (.x 30) (.x 0) (.x 0)).roundTrips              -- false (`X31` is not a register)

end Scc.A64

#print axioms Scc.A64.C14A_trimAscii
#print axioms Scc.A64.C14A_startsWith
#print axioms Scc.A64.C14A_endsWith
#print axioms Scc.A64.C14A_toNat_repr
#print axioms Scc.A64.C14A_parseLine_printCode
#print axioms Scc.A64.C14A_label_lines
#print axioms Scc.A64.C14A_directives
#print axioms Scc.A64.C14A_comment_line
#print axioms Scc.A64.C14A_plain_comment
#print axioms Scc.A64.C14A_hook_comment
#print axioms Scc.A64.C14A_roundTrips
#print axioms Scc.A64.C14A_loader
#print axioms Scc.A64.C14A_loader_lines
#print axioms Scc.A64.C14A_run
