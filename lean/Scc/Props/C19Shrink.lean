/-
  Scc.Props.C19Shrink — C19-T3: the size of the output of shrinking (S3 → S4) is linear in the size of
  its input; in particular nested critical pairs cannot cause 2^k growth.

  Property C19 (as given) asks for polynomial bounds `|S4| ≤ d·|S3|·(v'+e)` with `v'` the number of
  variables in scope.  Sizes are counted here in statement, clause and definition nodes
  (`sizeStmt`, `axSizeStmt`, `defsSize`, `fsDefsSize` in Scc/Core2AxCut/Model.lean); every such node
  carries at most one context / argument list, whose length is what the factor `(v'+e)` of the
  property accounts for.  In node counts the bound is linear:

      |shrink s| + |definitions lifted out of s|  ≤  (d + 1) · |s|

  where `d` is the largest number of xtors of a declared type (including `_Cont`, so `d ≥ 1`).
  The proof (Scc/Core2AxCut/SizeProofs.lean) rests on the exact Rust condition in
  `shrink_critical_pairs` (model: `inlineExpand`): the statement of the expanded side is copied
  into every clause of the eta-expansion only if the type has at most one xtor or the statement is
  an `exit`, a `call`, or a cut that becomes an `invoke` — and then its image is ONE node and lifts
  nothing (`RecPost`, third component); otherwise it is lifted and each clause gets a `call` (one node).
  Weakening the condition in the model (e.g. treating any cut as a leaf) makes `criticalDecl_post`
  unprovable and changes the dumps.
-/
import Scc.Core2AxCut.SizeProofs

namespace Scc.Props
open Scc.Core2AxCut

/-- the constant of the bound: largest xtor count of a declared type (at least 1 for `_Cont`), plus 1 -/
def shrinkFactor (p : Core.FsProg) : Nat :=
  max (max (maxXtors p.dataTypes) (maxXtors p.codataTypes)) 1 + 1

/-- C19-T3, statement for whole programs -/
def C19_shrink_statement : Prop :=
  ∀ (p : Core.FsProg) (q : AxCut.Prog), shrinkProg p = .ok q →
    defsSize q.defs ≤ shrinkFactor p * fsDefsSize p.defs

/-- C19-T3 (FULL): `|S4| ≤ (d + 1) · |S3|` in nodes -/
theorem C19_shrink_size : C19_shrink_statement :=
  fun p q h => shrinkProg_size p q h

/-- the invariant behind it, for one statement and any fuel: the result, together with everything
    that was lifted while producing it, is at most `(d + 1)` times the input; a leaf statement
    becomes a single node and lifts nothing -/
theorem C19_shrink_stmt (env : Env) (fuel : Nat) (s : Core.FsStmt) (st : St) (r : AxCut.Stmt) (st' : St)
    (hs : sizeStmt s ≤ fuel) (h : shrinkStmt env fuel s st = .ok (r, st')) :
    ∃ new, st'.lifted = new ++ st.lifted ∧
      axSizeStmt r + defsSize new ≤ (xtorBound env + 1) * sizeStmt s ∧
      (isLeafStmt s = true → axSizeStmt r = 1 ∧ new = []) :=
  shrinkStmt_post (Nat.le_refl _) fuel s st r st' hs h

/-- the critical-pair step in isolation: one `create`, `n` clauses of one `let` each, plus either
    `n` copies of a one-node statement or `n` calls and one lifted definition -/
theorem C19_critical_pair (env : Env) (K n : Nat) (rec : Rec) (hK : xtorBound env + 1 ≤ K)
    (hrec : RecPost K n rec) (v1 s1 v2 s2 ty st r st') (hs1 : sizeStmt s1 ≤ n) (hs2 : sizeStmt s2 ≤ n)
    (h : shrinkCriticalPairs env rec v1 s1 v2 s2 ty st = .ok (r, st')) :
    ∃ new, st'.lifted = new ++ st.lifted ∧
      axSizeStmt r + defsSize new ≤ K * (sizeStmt s1 + sizeStmt s2 + 3) :=
  shrinkCriticalPairs_post hK hrec v1 s1 v2 s2 ty st r st' hs1 hs2 h

/-! ## non-vacuity -/

namespace C19Example
open Scc

def x1 : Core.Ident := ⟨"x", 1⟩
def a2 : Core.Ident := ⟨"a", 2⟩
def l3 : Core.Ident := ⟨"l", 3⟩
def b4 : Core.Ident := ⟨"b", 4⟩
def listTy : Core.Ty := .decl ⟨"List", 0⟩
def listDecl : Core.TypeDecl :=
  ⟨⟨"List", 0⟩, [⟨⟨"Nil", 0⟩, []⟩, ⟨⟨"Cons", 0⟩, [⟨⟨"x", 0⟩, .prd, .i64⟩, ⟨⟨"xs", 0⟩, .prd, listTy⟩]⟩]⟩
def body : Core.FsStmt :=
  .cut listTy (.mu .prd b4 listTy (.cut listTy (.xtor .prd ⟨"Nil", 0⟩ [] listTy) (.var .cns b4 listTy)))
    (.mu .cns l3 listTy (.print true x1 (.cut .i64 (.var .prd x1 .i64) (.var .cns a2 .i64))))
def prog : Core.FsProg :=
  ⟨[⟨⟨"main", 0⟩, [⟨x1, .prd, .i64⟩, ⟨a2, .cns, .i64⟩], body⟩], [listDecl], [], 4⟩

example : (shrinkProg prog).toOption.isSome = true := by decide
example : fsDefsSize prog.defs = 11 ∧ shrinkFactor prog = 3 := by decide
-- the actual output: `main` (8 nodes + 1) and one lifted definition (2 nodes + 1); 12 ≤ 3 · 11
example : (shrinkProg prog).toOption.map (fun q => defsSize q.defs) = some 12 := by decide

end C19Example

end Scc.Props

#print axioms Scc.Props.C19_shrink_size
#print axioms Scc.Props.C19_shrink_stmt
#print axioms Scc.Props.C19_critical_pair
