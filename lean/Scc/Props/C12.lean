/-
  Scc.Props.C12 — property C12 (fixed text): every stage's output is well-typed; no internal failure.
  "For every program accepted by the type checker, every later stage (translation to Core,
   uniquification, focusing, shrinking, linearization, code generation) terminates without an internal
   error and produces output that is well-typed in that stage's own type system … a user-facing
   capacity diagnostic is the only permitted way not to produce code."

  The statement is about THE COMPOSED MODEL `Scc.Pipeline.stages` (Scc/Pipeline.lean; tied to the real
  driver by byte equality of the final routine text, and pass by pass by the components).

  * `C12_statement_full` the property as given (def).  It is FALSE — `C12_statement_full_false`: a program
                         that CALLS `main` (`def main(n: i64): i64 { if n == 0 { 0 } else { 1 + main(n - 1) } }`)
                         is accepted, has a valid `main`, and is translated to an ILL-TYPED Core program
                         (fun2core translates `main` without a continuation parameter but appends a
                         continuation argument to every call: finding D13, a genuine defect of /repo).
  * `C12_statement`      the statement with the decidable hypothesis `Scc.Fun.noMainCall p' = true`
                         (Scc/Fun/MainCall.lean) that excludes exactly that (def).
  * `C12_chain`          the composition theorem: `C12_statement` follows from FOUR named links that are
                         not theorems yet (each restricted to accepted programs with a valid `main` that
                         do not call `main` — without the latter `C12_link_fun2core` is false by D13)
                           `C12_link_fun2core`  the translation of an accepted program succeeds, its output is a
                                                well-typed Core program with all binder ids 0 (C03's `Input`) in
                                                which no name is both a data and a codata type
                           `C12_link_focus`     … its focused form passes the scoped typing `wtFsScopedCheck`
                           `C12_link_shrink`    … the shrunk program passes `wtAxCheck` and satisfies
                                                `WfNonLinear` (the precondition of C05)
                           `C12_link_codegen`   … the three code generators return a program or a documented
                                                capacity error on the linearized program
                         and from the links that ARE theorems, used directly:
                           `C15_sound` (accepted ⇒ `WT p`, output annotated — the precondition of fun2core's
                           `expect("Types should be annotated")`), `C03_unique_binders_global` (S3 has globally
                           unique binders ⇒ the checker `uniqueBindersCheck` accepts, and ⇒ `uniqueIdsCheck`,
                           `idsBoundedCheck`), `focusPanicFree_of_wellTyped` (Scc/Pipeline/FocusNoPanic.lean,
                           proved for this composition: uniquify + focus do not panic on well-typed Core),
                           `C04_no_panic` (shrinking does not panic on `wtFsCheck` input),
                           `shrinkProg_noEnvAnn` (Scc/Pipeline/ShrinkNoEnv.lean, proved for this composition:
                           shrinking never writes a closure-environment annotation — side condition of C05_T4),
                           `C05_linearize_LinTyped` (linearization does not panic on `WfNonLinear` input and its
                           output is `LinTypedProg`), `stages_mainHead` (`main` stays the first definition and
                           keeps integer parameters ⇒ `mainIntParams`).
  * `C12_linkChecks`     ONE decidable per-program predicate: the DECIDABLE CONTENT of the three typing links on
                         the stages of one program (`stages` succeeds; S2 is C03's `Input`; S3 passes
                         `wtFsScopedCheck`; S4 passes `wtAxCheck` and `wfNonLinearCheck`).  The checks evaluate it
                         on every accepted program of every run (`Scc.Pipeline.Links.linksLine`).
  * `C12_facts_of_checks`  for ONE program: `C12_linkChecks p' = true` ⇒ everything the chain knows about its
                         stages (`C12_Facts`: also `focusPanicFree`, `uniqueBindersCheck`, `uniqueIdsCheck`,
                         `idsBoundedCheck`, `mainIntParams`, `noEnvAnnProg`, `LinTypedProg`, all DERIVED by the
                         theorems above) — no link hypothesis at all; used by Props/C01.
  * `C12_of_linkChecks`  for ONE program: the conclusion of C12 for S1 … S5 from `C12_linkChecks p' = true`.
  * `C12_facts`          the same facts from the three typing links (for all programs).
  The links quantify over the programs that occur in a compilation of an accepted source program with
  a valid `main` (not over arbitrary well-typed intermediate programs): that is exactly what C12
  claims, and it keeps each hypothesis free of side conditions about programs no front end produces
  (e.g. a type named `_Cont`).  `validMain` is needed: the checker accepts `def main(): List[i64] {..}`,
  whose translation `⟨… | μ~x. exit x⟩` is not a well-typed Core program (`exit` takes an integer) —
  /verif/gen/corpus/parse/ctor_forms.sc; without it `C12_link_fun2core` would be false.
-/
import Scc.Pipeline.Lemmas
import Scc.Pipeline.Bridges
import Scc.Pipeline.ShrinkNoEnv
import Scc.Pipeline.FocusNoPanic
import Scc.Fun.MainCall
import Scc.Props.C03
import Scc.Props.C04
import Scc.Props.C05
import Scc.Props.C15
import Scc.A64.Backend
import Scc.RV.Backend

namespace Scc.Props

open Scc Scc.Pipeline
open Scc.Fun.Check (checkProgram programNamesOk)

/-! ## the statement -/

/-- the documented ways for a code generator not to produce code: more live variables than the
    backend has temporaries / registers (x86-64, AArch64: "Out of temporaries"; RISC-V: "Out of
    registers"), more parameters of `main` than argument registers, `print` on RISC-V -/
def C12_capacityErrors : List String :=
  ["Out of temporaries", "Out of registers", "too many arguments for main",
   "not implemented in RISC-V backend"]

/-- a result or a documented capacity error (never another panic message) -/
def C12_okOrCapacity {α : Type} : Except String α → Prop
  | .ok _ => True
  | .error e => e ∈ C12_capacityErrors

/-- the three code generators on a linearized program (every hook setting, every label counter) -/
def C12_codegenTotal (q5 : AxCut.Prog) : Prop :=
  ∀ (hooks : Bool) (c : Nat),
    C12_okOrCapacity (X86.compileX86 q5 hooks c) ∧
    (∀ body nargs, X86.compileX86 q5 hooks c = .ok (body, nargs) →
      C12_okOrCapacity (X86.intoRoutine body nargs)) ∧
    C12_okOrCapacity (A64.compileProg A64.a64Backend q5 hooks c) ∧
    C12_okOrCapacity (RV.compileRoutine q5 hooks c)

/-- the conclusion of C12 for one program:
    (S1) the checker's output is annotated and the source is well-typed;
    every model stage returns `ok` (no panic outcome), and
    (S2) the Core program is well-typed, (S3) the focused program passes `wtFsCheck` and
    `uniqueBindersCheck`, (S4) the AxCut program passes `wtAxCheck`, (S5) the linearized program is
    `LinTypedProg`, (S6/S7) the code generators return a program or a capacity error. -/
def C12_conclusion (p : Fun.Program) (p' : Fun.CheckedProgram) : Prop :=
  Fun.Typing.WT p ∧ Fun.Typing.annotatedProgram p' = true ∧
  ∃ st : Stages, stages p' = .ok st ∧
    st.s2.wellTyped = true ∧
    Core2AxCut.wtFsCheck st.s3 = true ∧ Core.uniqueBindersCheck st.s3 = true ∧
    AxCut.Named.wtAxCheck st.s4 = .ok () ∧
    AxCut.LinTypedProg st.s5 ∧
    C12_codegenTotal st.s5

/-- C12 as given: for EVERY accepted program with a valid `main`.  FALSE (`C12_statement_full_false`,
    finding D13: a program that calls `main`). -/
def C12_statement_full : Prop :=
  ∀ (p : Fun.Program) (p' : Fun.CheckedProgram),
    programNamesOk p = true → checkProgram p = .ok p' → validMain p' = true → C12_conclusion p p'

/-- C12 for every accepted program with a valid `main` that does not call `main` -/
def C12_statement : Prop :=
  ∀ (p : Fun.Program) (p' : Fun.CheckedProgram),
    programNamesOk p = true → checkProgram p = .ok p' → validMain p' = true →
    Fun.noMainCall p' = true → C12_conclusion p p'

/-! ## the links that are not theorems yet -/

/-- fun2core: total on accepted programs, output well-typed with all binder ids 0 and no `ς`
    (C03's `Input`), and no name declared both as data and as codata type.
    (That `focus` does not panic on such a program is a theorem:
    `Scc.Pipeline.focusPanicFree_of_wellTyped`.) -/
def C12_link_fun2core : Prop :=
  ∀ (p : Fun.Program) (p' : Fun.CheckedProgram),
    programNamesOk p = true → checkProgram p = .ok p' → validMain p' = true →
    Fun.noMainCall p' = true →
    ∃ q2, Fun2Core.compileProg p' = .ok q2 ∧ Input q2 ∧ typesDisjoint q2 = true

/-- uniquify + focus preserve typing (shape typing and scoping of the focused program) -/
def C12_link_focus : Prop :=
  ∀ (p : Fun.Program) (p' : Fun.CheckedProgram) (q2 : Core.Prog),
    programNamesOk p = true → checkProgram p = .ok p' → validMain p' = true →
    Fun.noMainCall p' = true → Fun2Core.compileProg p' = .ok q2 →
    Core2AxCut.wtFsScopedCheck (Core.focusProg q2) = true

/-- shrinking preserves typing: the output passes the AxCut checker and is well-formed non-linear
    AxCut (scoped, typed, binders fresh and `≤ maxId`, no `subst`: the precondition of C05).
    (That it carries no closure-environment annotations — the other side condition of C05_T4 — is a
    theorem: `Scc.Pipeline.shrinkProg_noEnvAnn`.) -/
def C12_link_shrink : Prop :=
  ∀ (p : Fun.Program) (p' : Fun.CheckedProgram) (q2 : Core.Prog) (q4 : AxCut.Prog),
    programNamesOk p = true → checkProgram p = .ok p' → validMain p' = true →
    Fun.noMainCall p' = true → Fun2Core.compileProg p' = .ok q2 →
    Core2AxCut.shrinkProg (Core.focusProg q2) = .ok q4 →
    AxCut.Named.wtAxCheck q4 = .ok () ∧ AxCut.WfNonLinear q4

/-- `codegen_total`: on the linearized program of an accepted source with a valid `main` the code
    generators fail only with a capacity error -/
def C12_link_codegen : Prop :=
  ∀ (p : Fun.Program) (p' : Fun.CheckedProgram) (st : Stages),
    programNamesOk p = true → checkProgram p = .ok p' → validMain p' = true →
    Fun.noMainCall p' = true → stages p' = .ok st →
    C12_codegenTotal st.s5

/-! ## the chain -/

/-- everything that is known about the stages of an accepted program (used by C12 and C01) -/
structure C12_Facts (p : Fun.Program) (p' : Fun.CheckedProgram) (st : Stages) : Prop where
  wt : Fun.Typing.WT p
  annotated : Fun.Typing.annotatedProgram p' = true
  ok : stages p' = .ok st
  s2ok : Fun2Core.compileProg p' = .ok st.s2
  s3eq : st.s3 = Core.focusProg st.s2
  s4ok : Core2AxCut.shrinkProg st.s3 = .ok st.s4
  s5ok : AxCut.linearizeProg st.s4 = .ok st.s5
  input2 : Input st.s2
  panicFree2 : st.s2.focusPanicFree = true
  scoped3 : Core2AxCut.wtFsScopedCheck st.s3 = true
  unique3 : Core.uniqueBindersCheck st.s3 = true
  uniqueIds3 : Core2AxCut.uniqueIdsCheck st.s3 = true
  idsBounded3 : Core2AxCut.idsBoundedCheck st.s3 = true
  mainInt3 : Core2AxCut.mainIntParams st.s3 = true
  wtAx4 : AxCut.Named.wtAxCheck st.s4 = .ok ()
  wf4 : AxCut.WfNonLinear st.s4
  noEnv4 : AxCut.noEnvAnnProg st.s4 = true
  lin5 : AxCut.LinTypedProg st.s5

/-- the derived facts, for ONE compilation: from `stages p' = .ok st` and the four facts that are not
    theorems (S2 is an `Input` of C03, S3 is scoped-typed, S4 passes the AxCut checker and is
    `WfNonLinear`) to everything else, by the theorems C15_sound, C03_unique_binders_global,
    shrinkProg_noEnvAnn, C05_linearize_LinTyped, stages_mainHead -/
theorem C12_facts_core {p : Fun.Program} {p' : Fun.CheckedProgram} {st : Stages}
    (hn : programNamesOk p = true) (hc : checkProgram p = .ok p') (hv : validMain p' = true)
    (hok : stages p' = .ok st) (hin : Input st.s2)
    (hs3 : Core2AxCut.wtFsScopedCheck st.s3 = true)
    (hax : AxCut.Named.wtAxCheck st.s4 = .ok ()) (hwf : AxCut.WfNonLinear st.s4) :
    C12_Facts p p' st := by
  obtain ⟨hwt, _, _, hann⟩ := C15_sound p p' hn hc
  obtain ⟨e2, e3, e4, e5⟩ := stages_ok_iff.1 hok
  obtain ⟨hpf, e3'⟩ := focusProgE_ok_iff.1 e3
  have hglob : ∀ d ∈ st.s3.defs, Core.UniqueBindersGlobal st.s3.maxId d := by
    rw [e3']
    exact fun d hd => (C03_unique_binders_global st.s2 hin.bindersZero hin.occsOld d hd).1
  have hu : Core.uniqueBindersCheck st.s3 = true := uniqueBindersCheck_complete hglob
  have hne := shrinkProg_noEnvAnn e4
  obtain ⟨q5, e5', hlin, _⟩ := C05.C05_linearize_LinTyped st.s4 hwf
  rw [e5] at e5'
  injection e5' with e5'
  subst e5'
  obtain ⟨_, m3, _, _⟩ := stages_mainHead (validMainK_of_validMain hv) hok
  exact
    { wt := hwt, annotated := hann, ok := hok
      s2ok := e2, s3eq := e3', s4ok := e4, s5ok := e5
      input2 := hin, panicFree2 := hpf, scoped3 := hs3, unique3 := hu
      uniqueIds3 := uniqueIdsCheck_of_global hglob
      idsBounded3 := idsBoundedCheck_of_global hglob
      mainInt3 := mainIntParams_of_mainHead m3
      wtAx4 := hax, wf4 := hwf, noEnv4 := hne, lin5 := hlin }

/-- the chain S1 → S5: from the three typing links and the theorems C15_sound,
    C03_unique_binders_global, C04_no_panic, C05_linearize_LinTyped -/
theorem C12_facts (h2 : C12_link_fun2core) (h3 : C12_link_focus) (h4 : C12_link_shrink)
    (p : Fun.Program) (p' : Fun.CheckedProgram)
    (hn : programNamesOk p = true) (hc : checkProgram p = .ok p') (hv : validMain p' = true)
    (hmc : Fun.noMainCall p' = true) :
    ∃ st, C12_Facts p p' st := by
  obtain ⟨q2, e2, hin, hdis⟩ := h2 p p' hn hc hv hmc
  have hpf := focusPanicFree_of_wellTyped hdis hin.typed
  have hs3 := h3 p p' q2 hn hc hv hmc e2
  obtain ⟨q4, e4⟩ := C04_no_panic (Core.focusProg q2) (wtFsCheck_of_scoped hs3)
  obtain ⟨hax, hwf⟩ := h4 p p' q2 q4 hn hc hv hmc e2 e4
  obtain ⟨q5, e5, _, _⟩ := C05.C05_linearize_LinTyped q4 hwf
  have e3 : Core.focusProgE q2 = .ok (Core.focusProg q2) := focusProgE_ok_iff.2 ⟨hpf, rfl⟩
  refine ⟨⟨q2, Core.focusProg q2, q4, q5⟩, ?_⟩
  exact C12_facts_core hn hc hv (stages_ok_iff.2 ⟨e2, e3, e4, e5⟩) hin hs3 hax hwf

/-- **C12_chain**: C12 follows from the four links -/
theorem C12_chain (h2 : C12_link_fun2core) (h3 : C12_link_focus) (h4 : C12_link_shrink)
    (h6 : C12_link_codegen) : C12_statement := by
  intro p p' hn hc hv hmc
  obtain ⟨st, F⟩ := C12_facts h2 h3 h4 p p' hn hc hv hmc
  exact ⟨F.wt, F.annotated, st, F.ok, F.input2.typed, wtFsCheck_of_scoped F.scoped3, F.unique3,
    F.wtAx4, F.lin5, h6 p p' st hn hc hv hmc F.ok⟩

/-- the part of C12 that needs no code-generator link: S1 … S5 -/
theorem C12_chain_partial (h2 : C12_link_fun2core) (h3 : C12_link_focus) (h4 : C12_link_shrink)
    (p : Fun.Program) (p' : Fun.CheckedProgram)
    (hn : programNamesOk p = true) (hc : checkProgram p = .ok p') (hv : validMain p' = true)
    (hmc : Fun.noMainCall p' = true) :
    Fun.Typing.WT p ∧ Fun.Typing.annotatedProgram p' = true ∧
    ∃ st : Stages, stages p' = .ok st ∧ st.s2.wellTyped = true ∧
      Core2AxCut.wtFsCheck st.s3 = true ∧ Core.uniqueBindersCheck st.s3 = true ∧
      AxCut.Named.wtAxCheck st.s4 = .ok () ∧ AxCut.LinTypedProg st.s5 := by
  obtain ⟨st, F⟩ := C12_facts h2 h3 h4 p p' hn hc hv hmc
  exact ⟨F.wt, F.annotated, st, F.ok, F.input2.typed, wtFsCheck_of_scoped F.scoped3, F.unique3,
    F.wtAx4, F.lin5⟩

/-! ## links that hold unconditionally once the earlier ones do (for the record) -/

/-- no stage of the middle end panics on an accepted program (given the three typing links) -/
theorem C12_middleEnd_no_panic (h2 : C12_link_fun2core) (h3 : C12_link_focus) (h4 : C12_link_shrink)
    (p : Fun.Program) (p' : Fun.CheckedProgram)
    (hn : programNamesOk p = true) (hc : checkProgram p = .ok p') (hv : validMain p' = true)
    (hmc : Fun.noMainCall p' = true) :
    ∃ q5, middleEnd p' = .ok q5 := by
  obtain ⟨st, F⟩ := C12_facts h2 h3 h4 p p' hn hc hv hmc
  exact ⟨st.s5, middleEnd_ok_iff.2 ⟨st, F.ok, rfl⟩⟩

/-! ## the decidable content of the typing links, per program -/

def C12_isOk {α : Type} : Except String α → Bool
  | .ok _ => true
  | .error _ => false

def C12_okOrCapacityB {α : Type} : Except String α → Bool
  | .ok _ => true
  | .error e => C12_capacityErrors.contains e

/-- executable form of C03's `Input` -/
def C12_inputB (q2 : Core.Prog) : Bool :=
  q2.wellTyped && q2.noSigma &&
  decide (∀ d ∈ q2.defs, ∀ b ∈ d.ids, b = 0) &&
  decide (∀ d ∈ q2.defs, ∀ i ∈ d.body.occIds, i ≤ q2.maxId)

theorem C12_inputB_sound {q2 : Core.Prog} (h : C12_inputB q2 = true) : Input q2 := by
  simp only [C12_inputB, Bool.and_eq_true, decide_eq_true_eq] at h
  exact ⟨h.1.1.1, h.1.2, h.2, h.1.1.2⟩

/-- the facts about the stages of one compilation that are NOT theorems (they are the conclusions of
    `C12_link_fun2core`, `C12_link_focus`, `C12_link_shrink`), as ONE executable check:
    S2 is an `Input` of C03 (well-typed, binder ids 0, occurrence ids `≤ maxId`, no `ς`),
    S3 passes the scoped shape typing, S4 passes the AxCut checker and is `WfNonLinear`. -/
def C12_stageChecks (st : Stages) : Bool :=
  C12_inputB st.s2 && Core2AxCut.wtFsScopedCheck st.s3 &&
  C12_isOk (AxCut.Named.wtAxCheck st.s4) && AxCut.wfNonLinearCheck st.s4

/-- **the per-program predicate**: the middle end succeeds and its stages pass `C12_stageChecks`.
    Decidable; evaluated by the checks on every accepted program of every run
    (`Scc.Pipeline.Links.linksLine`, names `stages`, `input2`, `wtFsScoped3`, `wtAx4`, `wfNonLinear4`). -/
def C12_linkChecks (p' : Fun.CheckedProgram) : Bool :=
  match stages p' with
  | .ok st => C12_stageChecks st
  | .error _ => false

theorem C12_isOk_unit {r : Except String Unit} (h : C12_isOk r = true) : r = .ok () := by
  cases r with
  | ok u => rfl
  | error e => cases h

theorem C12_linkChecks_iff {p' : Fun.CheckedProgram} :
    C12_linkChecks p' = true ↔ ∃ st, stages p' = .ok st ∧ C12_stageChecks st = true := by
  unfold C12_linkChecks
  cases h : stages p' with
  | error e => simp
  | ok st => simp

/-- for ONE program: everything the chain knows, from the decidable predicate alone (no link
    hypothesis): the facts of `C12_stageChecks` are read off, the others are derived by the theorems
    listed at `C12_facts_core` -/
theorem C12_facts_of_checks (p : Fun.Program) (p' : Fun.CheckedProgram)
    (hn : programNamesOk p = true) (hc : checkProgram p = .ok p') (hv : validMain p' = true)
    (hlc : C12_linkChecks p' = true) : ∃ st, C12_Facts p p' st := by
  obtain ⟨st, hok, hs⟩ := C12_linkChecks_iff.1 hlc
  simp only [C12_stageChecks, Bool.and_eq_true] at hs
  obtain ⟨⟨⟨h2, h3⟩, h4⟩, h4'⟩ := hs
  exact ⟨st, C12_facts_core hn hc hv hok (C12_inputB_sound h2) h3 (C12_isOk_unit h4)
    ((AxCut.wfNonLinearCheck_iff st.s4).1 h4')⟩

/-- for ONE program: the conclusion of C12 for S1 … S5 from the decidable predicate (the code
    generators: `C12_link_codegen`) -/
theorem C12_of_linkChecks (p : Fun.Program) (p' : Fun.CheckedProgram)
    (hn : programNamesOk p = true) (hc : checkProgram p = .ok p') (hv : validMain p' = true)
    (hlc : C12_linkChecks p' = true) :
    Fun.Typing.WT p ∧ Fun.Typing.annotatedProgram p' = true ∧
    ∃ st : Stages, stages p' = .ok st ∧ st.s2.wellTyped = true ∧
      Core2AxCut.wtFsCheck st.s3 = true ∧ Core.uniqueBindersCheck st.s3 = true ∧
      AxCut.Named.wtAxCheck st.s4 = .ok () ∧ AxCut.LinTypedProg st.s5 := by
  obtain ⟨st, F⟩ := C12_facts_of_checks p p' hn hc hv hlc
  exact ⟨F.wt, F.annotated, st, F.ok, F.input2.typed, wtFsCheck_of_scoped F.scoped3, F.unique3,
    F.wtAx4, F.lin5⟩

/-- the typing links imply the predicate, for every accepted program with a valid `main` that does
    not call `main` (so `C12_linkChecks` is not an additional restriction once the links are proved) -/
theorem C12_linkChecks_of_links (h2 : C12_link_fun2core) (h3 : C12_link_focus) (h4 : C12_link_shrink)
    (p : Fun.Program) (p' : Fun.CheckedProgram)
    (hn : programNamesOk p = true) (hc : checkProgram p = .ok p') (hv : validMain p' = true)
    (hmc : Fun.noMainCall p' = true) : C12_linkChecks p' = true := by
  obtain ⟨st, F⟩ := C12_facts h2 h3 h4 p p' hn hc hv hmc
  refine C12_linkChecks_iff.2 ⟨st, F.ok, ?_⟩
  have hin := F.input2
  simp only [C12_stageChecks, C12_inputB, Bool.and_eq_true, decide_eq_true_eq]
  exact ⟨⟨⟨⟨⟨⟨hin.typed, hin.noSigma⟩, hin.bindersZero⟩, hin.occsOld⟩, F.scoped3⟩,
    by rw [F.wtAx4]; rfl⟩, (AxCut.wfNonLinearCheck_iff st.s4).2 F.wf4⟩

/-! ## non-vacuity: a concrete program satisfies the premises of `C12_statement`, and on it every
decidable fact that the links and the chain assert holds (checked by kernel evaluation of the models) -/

/-- a list sum: a polymorphic data type, a recursive definition with `case`, `let`, a call,
    `println_i64`, one integer parameter of `main` -/
def C12_exSrc : String := "data List[A] { Nil, Cons(x: A, xs: List[A]) }
def sum(l: List[i64]): i64 { l.case[i64] { Nil => 0, Cons(x, xs) => let r: i64 = sum(xs); x + r } }
def main(n: i64): i64 { let s: i64 = sum(Cons(n, Cons(2, Nil))); println_i64(s); 0 }"

/-- premises of C12 / C01 (`programNamesOk`, accepted, `validMain`, `noMainCall`), the predicate
    `C12_linkChecks`, and every fact that `C12_facts_of_checks` DERIVES from it (re-evaluated here) -/
def C12_exChecks (src : String) : Bool :=
  match Fun.Parse.parse .diagOnOverflow src with
  | .ok p =>
    programNamesOk p &&
    match checkProgram p with
    | .ok p' =>
      validMain p' && Fun.noMainCall p' && Fun.Typing.annotatedProgram p' && C12_linkChecks p' &&
      match stages p' with
      | .ok st =>
        C12_inputB st.s2 && typesDisjoint st.s2 && st.s2.focusPanicFree &&
        Core2AxCut.wtFsScopedCheck st.s3 && Core.uniqueBindersCheck st.s3 &&
        Core2AxCut.uniqueIdsCheck st.s3 && Core2AxCut.idsBoundedCheck st.s3 &&
        Core2AxCut.mainIntParams st.s3 &&
        C12_isOk (AxCut.Named.wtAxCheck st.s4) && AxCut.wfNonLinearCheck st.s4 &&
        AxCut.noEnvAnnProg st.s4 && C12_isOk (AxCut.linTypedCheck st.s5)
      | .error _ => false
    | _ => false
  | _ => false

/-- the decidable content of `C12_link_codegen` (x86-64 with hooks and without, AArch64, RISC-V) -/
def C12_exCodegen (src : String) : Bool :=
  match frontEnd src with
  | .ok _ p' =>
    match stages p' with
    | .ok st =>
      C12_isOk (backEndX86 true 0 st.s5) && C12_isOk (backEndX86 false 7 st.s5) &&
      C12_isOk (A64.compileProg A64.a64Backend st.s5 true 0) &&
      C12_okOrCapacityB (RV.compileRoutine st.s5 true 0)
    | .error _ => false
  | _ => false

set_option maxRecDepth 100000 in
theorem C12_example_checks : C12_exChecks C12_exSrc = true := by decide +kernel

set_option maxRecDepth 100000 in
theorem C12_example_codegen : C12_exCodegen C12_exSrc = true := by decide +kernel

/-- the premises of `C12_statement` (and of `C01_statement`) are satisfiable: the parser's output for
    `C12_exSrc` has identifier names, is accepted, has a valid `main` that is not called, and passes
    `C12_linkChecks` -/
theorem C12_example_premises :
    ∃ p p', Fun.Parse.parse .diagOnOverflow C12_exSrc = .ok p ∧ programNamesOk p = true ∧
      checkProgram p = .ok p' ∧ validMain p' = true ∧ Fun.noMainCall p' = true ∧
      C12_linkChecks p' = true ∧ (∃ st, stages p' = .ok st) := by
  have h := C12_example_checks
  unfold C12_exChecks at h
  cases hp : Fun.Parse.parse .diagOnOverflow C12_exSrc with
  | ok p =>
    rw [hp] at h
    simp only [Bool.and_eq_true] at h
    obtain ⟨hn, h⟩ := h
    cases hc : checkProgram p with
    | ok p' =>
      rw [hc] at h
      simp only [Bool.and_eq_true] at h
      obtain ⟨⟨⟨⟨hv, hmc⟩, _⟩, hlc⟩, h⟩ := h
      cases hs : stages p' with
      | ok st => exact ⟨p, p', rfl, hn, hc, hv, hmc, hlc, st, hs⟩
      | error e => rw [hs] at h; cases h
    | diag c => rw [hc] at h; cases h
    | panic c => rw [hc] at h; cases h
  | diag c => rw [hp] at h; cases h
  | panic c => rw [hp] at h; cases h

/-! ## the statement as given is false: finding D13 (a program that calls `main`) -/

/-- `main` calls itself: accepted by the checker, valid `main` -/
def C12_d13Src : String := "def main(n: i64): i64 { if n == 0 { 0 } else { 1 + main(n - 1) } }"

/-- on `C12_d13Src`: the premises of `C12_statement_full` hold, `noMainCall` fails, and the translation
    either fails or produces a Core program that is not well-typed -/
def C12_d13Check (src : String) : Bool :=
  match Fun.Parse.parse .diagOnOverflow src with
  | .ok p =>
    programNamesOk p &&
    match checkProgram p with
    | .ok p' =>
      validMain p' && !Fun.noMainCall p' &&
      match stages p' with
      | .ok st => !st.s2.wellTyped
      | .error _ => true
    | _ => false
  | _ => false

set_option maxRecDepth 100000 in
theorem C12_d13_checks : C12_d13Check C12_d13Src = true := by decide +kernel

/-- **`C12_statement_full` is false** (finding D13: fun2core mistranslates a program that calls `main`) -/
theorem C12_statement_full_false : ¬ C12_statement_full := by
  intro hfull
  have h := C12_d13_checks
  unfold C12_d13Check at h
  cases hp : Fun.Parse.parse .diagOnOverflow C12_d13Src with
  | ok p =>
    rw [hp] at h
    simp only [Bool.and_eq_true] at h
    obtain ⟨hn, h⟩ := h
    cases hc : checkProgram p with
    | ok p' =>
      rw [hc] at h
      simp only [Bool.and_eq_true] at h
      obtain ⟨⟨hv, _⟩, h⟩ := h
      obtain ⟨_, _, st, hok, hty, _⟩ := hfull p p' hn hc hv
      rw [hok] at h
      simp [hty] at h
    | diag c => rw [hc] at h; cases h
    | panic c => rw [hc] at h; cases h
  | diag c => rw [hp] at h; cases h
  | panic c => rw [hp] at h; cases h

#print axioms C12_facts_core
#print axioms C12_facts
#print axioms C12_chain
#print axioms C12_chain_partial
#print axioms C12_middleEnd_no_panic
#print axioms C12_facts_of_checks
#print axioms C12_of_linkChecks
#print axioms C12_linkChecks_of_links
#print axioms Scc.Pipeline.stages_mainHead
#print axioms Scc.Pipeline.shrinkProg_noEnvAnn
#print axioms Scc.Pipeline.focusPanicFree_of_wellTyped
#print axioms Scc.Pipeline.uniqueIdsCheck_of_global
#print axioms Scc.Pipeline.idsBoundedCheck_of_global
#print axioms Scc.Pipeline.mainIntParams_of_mainHead
#print axioms Scc.Pipeline.uniqueBindersCheck_complete
#print axioms C12_example_checks
#print axioms C12_example_codegen
#print axioms C12_example_premises
#print axioms C12_statement_full_false

end Scc.Props
