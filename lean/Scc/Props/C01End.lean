/-
  Scc.Props.C01End — property C01 (end-to-end correctness for x86-64): THE UNCONDITIONAL THEOREM.

  Props/C01Final.lean left two gaps as `def … : Prop` and proved `C01_final_of (hx : C01_gap_x86)
  (hc : C01_gap_fun2core) : C01_statement_final`.  Both are theorems now:
    `C01_gap_x86_holds`       from `X86.C06_programs` (Props/C06X86Full.lean: Theorem A ∘ Theorem B for ALL
                              statement forms, `create` / `invoke` included).  The shape of `C01_gap_x86`
                              (= `C01_x86_heap_statement fun _ => True`) is EXACTLY the shape of
                              `C06_programs` — same side hypotheses, same heap bound `128 + 64·134·fuel` —,
                              so no restatement is needed.
    `C01_gap_fun2core_holds`  from `C02_sem : C02_sem_full_statement` (Props/C02SemFull.lean).

  THE THEOREM
    `C01_end_to_end : C01_statement_final`      — and, with every definition of the statement unfolded,
    `C01_end_to_end_spelled`.  Hypotheses, EXACTLY:
        (1) `Fun.Parse.parse mode src = .ok p`        the parser accepts the source text (any literal mode);
        (2) `checkProgram p = .ok p'`                 the checker accepts the program;
        (3) `validMain p' = true`                     one `main`, integer parameters, integer result;
        (4) `Fun.noMainCall p' = true`                `main` is not called;
        (5) `C01_backChecks p' = true`                THE decidable predicate on the checked program
                                                      (Props/C01DataChecks.lean; equivalently
                                                      `C01_backChecksLite`, below);
      and inside the conclusion, per machine configuration `cfg`:
        (6) `C01_DataMach cfg`  = `MachOK cfg.mach`, `cfg.heap = false` (monitor off), `heapBase % 8 = 0`,
                                  `0 < heapBase`, `codeBase ≤ 2^63`;   the default `{}` is one;
        (7) `128 + 64·134·n5 ≤ cfg.mach.heapBytes`,   `n5` the number of steps of the positional AxCut
                                                      machine on S5 for this run (exhibited by the theorem).
    Conclusion (`C01_conclusionH p'`): the middle end succeeds (`stages p' = ok st`), and for every `hooks`
    and every result `(nargs, text)` of `compileAllX86 hooks 0 p'`: `nargs = mainArity p'`, and whenever the
    source semantics finishes, `srcRun p' args n = ⟨t, done v⟩` (the Fun machine when the program is
    `Sequenced`, else the Core ς-machine on the translation S2 — there C02 is not used, the composition
    starts at C03): `args.length = nargs`, the x86-64 machine on the emitted routine TEXT produces trace `t`
    and result `v` (`X86.run text args m cfg`), and the linked binary (`nativeRun`, C20) writes the decimal
    rendering `renderTrace t` and exits with status `v mod 256` (`Runtime.exitStatus v.toInt`).
    `C01_end_to_end_onMachines`: the same in the form "there is a heap size such that on every
    `C01_DataMach` with at least that heap …".
    `C01_end_compiles`: under (1)–(5) and `mainArity p' ≤ 5` (into_routine.rs passes at most five arguments
    in registers; with more it fails), `compileAllX86 hooks 0 p'` SUCCEEDS — the premise of the conclusion
    is never vacuous for such programs.

  THE PREDICATE.  `C01_backChecks` evaluates, besides `LabelSafe S5`, `progCap S5 ≤ 133`, ranges, text-safe
  names, the length of the mock code and the size of the routine, that the labels DEFINED in the emitted
  routine are pairwise distinct.  That conjunct is a THEOREM since `X86.Ref.labels_unique_x86`
  (Scc/X86/RefSideLabels.lean): `C01_backChecksLite` is `C01_backChecks` without it, and
  `C01_backChecks_iff_lite : C01_backChecks p' = true ↔ C01_backChecksLite p' = true`;
  `C01_end_to_end_lite` is the theorem with the smaller predicate.  What remains in the predicate is
  genuinely per-program: `LabelSafe` (necessary: C14 collisions), capacity 133 variables per context, ranges
  of literals / tags / substitutions, names printable for the loader, sizes below 2^64 / 2^63.

  `Scc.Pipeline.Links.linksLine` reports the tag `e2e` when (3) ∧ (4) ∧ (5) hold.

  Every link is a theorem: C16/C15 (names and typing of accepted source texts), C12 (every stage typed, middle
  end total), C02 (fun2core, full), C03, C04, C05, Theorem A, Theorem B with heap and closures (C06 ∘ C09/C10),
  C14 (loader), C20 (runtime).

  NON-VACUITY (end of file): `C01E_sumSrc`, a NON-tail-recursive list sum (`range` builds the list, `sum`
  adds it up; both recurse under a `let`, so the continuation closures capture variables; `Sequenced`), and
  `C01E_nseqSrc`, the same written with nested calls (`x + sum(xs)`; NOT `Sequenced`: `srcRun` is the Core
  machine).  (1)–(5) by `decide +kernel` (`C01E_sum_front`, `C01E_sum_back`, …); the premise
  `srcRun p' [4] … = ⟨[(true, 10)], done …⟩` by `decide +kernel` too (in `C01E_sum_front`, `C01E_nseq_front`);
  `C01_end_compiles` gives the text; `C01E_sum_conclusion`, `C01E_nseq_conclusion`, `C01E_rec_conclusion`
  (the tail-recursive list sum of Props/C01Final.lean): the conclusion for the run on the argument 4, no
  hypothesis.  The x86-64 machine keeps its memory in a `Std.HashMap`, which does not reduce in the kernel;
  `#eval` (see the comment at the examples) confirms the trace `10\n` and the exit status on the default
  configuration.
-/
import Scc.Props.C01Final
import Scc.Props.C02SemFull
import Scc.Props.C06X86Full

namespace Scc.Props

open Scc Scc.Pipeline
open Scc.Fun.Check (checkProgram programNamesOk)
open Scc.Props.C14Generic (LabelSafe)

/-! ## the two gaps are theorems -/

/-- **GAP 1 closed**: `X86.C06_programs` has exactly the shape of `C01_x86_heap_statement` with the trivial
    class of programs -/
theorem C01_gap_x86_holds : C01_gap_x86 := by
  intro p args hooks body routine nargs d0 ops c' hsafe htp _ hrange hcompM hfit hcompX hrout hnd hd
    hentry hcap fuel out v hfuel hrun cfg MO hheap hb8 hb0 hbytes items hitems hfitX
  exact X86.C06_programs p args hooks body routine nargs d0 ops c' hsafe htp hrange hcompM hfit
    hcompX hrout hnd hd hentry hcap fuel out v hfuel hrun cfg MO hheap hb8 hb0 hbytes items hitems hfitX

/-- **GAP 2 closed**: fun2core preserves meaning on all accepted sequenced programs -/
theorem C01_gap_fun2core_holds : C01_gap_fun2core := C01_gap_fun2core_of_full C02_sem

/-! ## THE THEOREM -/

/-- **C01, END TO END, UNCONDITIONAL**: for every source text accepted by parser and checker, with a valid
    `main` that is not called, whose linearized program passes the decidable side conditions
    `C01_backChecks`: whenever the source semantics finishes with trace `t` and value `v`, the x86-64
    machine on the emitted routine text produces `t` and `v`, and the native rendering is the decimal bytes
    of `t` with exit status `v mod 256` (see the header for the exact list of hypotheses). -/
theorem C01_end_to_end : C01_statement_final :=
  C01_final_of C01_gap_x86_holds C01_gap_fun2core_holds

/-- `C01_end_to_end` with `C01_statement_final`, `C01_conclusionH`, `C01_runsOnX86`, `C01_DataMach` and
    `C01_heapBound` unfolded: every hypothesis visible -/
theorem C01_end_to_end_spelled (mode : Fun.Parse.LiteralMode) (src : String) (p : Fun.Program)
    (p' : Fun.CheckedProgram)
    (hparse : Fun.Parse.parse mode src = .ok p) (hc : checkProgram p = .ok p')
    (hv : validMain p' = true) (hmc : Fun.noMainCall p' = true) (hb : C01_backChecks p' = true) :
    ∃ st : Stages, stages p' = .ok st ∧
      ∀ (hooks : Bool) (nargs : Nat) (text : String),
        compileAllX86 hooks 0 p' = .ok (nargs, text) →
        nargs = mainArity p' ∧
        ∀ (args : List Word) (n : Nat) (t : List (Bool × Word)) (v : Word),
          srcRun p' args n = ⟨t, .done v⟩ →
          args.length = nargs ∧
          ∃ n5, AxCut.Pos.run st.s5 args n5 = ⟨t, .done v⟩ ∧
            ∀ cfg : X86.MonCfg, X86.Ref.MachOK cfg.mach → cfg.heap = false →
              cfg.mach.heapBase % 8 = 0 → 0 < cfg.mach.heapBase → cfg.mach.codeBase ≤ 2 ^ 63 →
              128 + 64 * 134 * n5 ≤ cfg.mach.heapBytes →
              ∃ m, (X86.run text args m cfg).out = t ∧ (X86.run text args m cfg).res = .done v ∧
                nativeRun text nargs (argvOf args) m cfg =
                  some (renderTrace t, Runtime.exitStatus v.toInt) := by
  obtain ⟨st, hok, h⟩ := C01_end_to_end mode src p p' hparse hc hv hmc hb
  refine ⟨st, hok, fun hooks nargs text hall => ?_⟩
  obtain ⟨h1, h2⟩ := h hooks nargs text hall
  refine ⟨h1, fun args n t v hsrc => ?_⟩
  obtain ⟨h3, n5, h4, h5⟩ := h2 args n t v hsrc
  exact ⟨h3, n5, h4, fun cfg MO hm h8 h0 hcb hbytes => h5 cfg ⟨MO, hm, h8, h0, hcb⟩ hbytes⟩

/-- … in the form "given enough heap" (the shape of `C01_conclusion`, Props/C01.lean) -/
theorem C01_end_to_end_onMachines (mode : Fun.Parse.LiteralMode) (src : String) (p : Fun.Program)
    (p' : Fun.CheckedProgram)
    (hparse : Fun.Parse.parse mode src = .ok p) (hc : checkProgram p = .ok p')
    (hv : validMain p' = true) (hmc : Fun.noMainCall p' = true) (hb : C01_backChecks p' = true) :
    (∃ q5, middleEnd p' = .ok q5) ∧
    ∀ (hooks : Bool) (nargs : Nat) (text : String),
      compileAllX86 hooks 0 p' = .ok (nargs, text) →
      nargs = mainArity p' ∧
      ∀ (args : List Word) (n : Nat) (t : List (Bool × Word)) (v : Word),
        srcRun p' args n = ⟨t, .done v⟩ →
        args.length = nargs ∧
        C01_onDataMachines fun cfg m =>
          (X86.run text args m cfg).out = t ∧ (X86.run text args m cfg).res = .done v ∧
          nativeRun text nargs (argvOf args) m cfg = some (renderTrace t, Runtime.exitStatus v.toInt) :=
  C01_conclusionH_onMachines (C01_end_to_end mode src p p' hparse hc hv hmc hb)

/-! ## the compiler succeeds -/

/-- under the hypotheses of `C01_end_to_end`, when `main` has at most five parameters (into_routine.rs),
    the whole compiler succeeds: the premise `compileAllX86 hooks 0 p' = ok …` of the conclusion holds -/
theorem C01_end_compiles (mode : Fun.Parse.LiteralMode) (src : String) (p : Fun.Program)
    (p' : Fun.CheckedProgram)
    (hparse : Fun.Parse.parse mode src = .ok p) (hc : checkProgram p = .ok p')
    (hv : validMain p' = true) (hmc : Fun.noMainCall p' = true) (hb : C01_backChecks p' = true)
    (h5 : mainArity p' ≤ 5) (hooks : Bool) :
    ∃ nargs text, compileAllX86 hooks 0 p' = .ok (nargs, text) := by
  obtain ⟨_, _, _, st, F⟩ := C01_facts_of_source hparse hc hv hmc
  simp only [C01_backChecks, F.ok, Bool.and_eq_true, decide_eq_true_eq] at hb
  obtain ⟨_, ⟨⟨⟨⟨⟨⟨hcap, _⟩, _⟩, _⟩, _⟩, _⟩, _⟩⟩ := hb
  obtain ⟨_, _, _, m5⟩ := stages_mainHead (validMainK_of_validMain hv) F.ok
  obtain ⟨d5, ds5, hd5, hk5, _⟩ := m5
  have hne : st.s5.defs ≠ [] := by rw [hd5]; simp
  obtain ⟨⟨body, nargs⟩, hcomp⟩ := C12_codegen_x86_ok st.s5 F.lin5 hne
    (by simp only [C12_capacityX86, decide_eq_true_eq]; omega) hooks 0
  obtain ⟨routine, hinto⟩ := C12_routine_x86 st.s5 hooks 0 body nargs (fun d0 ds hd => by
    rw [hd5] at hd
    injection hd with e1 _
    subst e1
    omega) hcomp
  exact ⟨nargs, X86.printProg routine, compileAllX86_ok_iff.2
    ⟨st.s5, middleEnd_ok_iff.2 ⟨st, F.ok, rfl⟩, backEndX86_ok_iff.2 ⟨body, routine, hcomp, hinto, rfl⟩⟩⟩

/-! ## the predicate without the evaluated label check -/

/-- the routine that the x86-64 back end produces for `q5`, if there is one, is shorter than 2^63 bytes -/
def C01_routineSmallB (hooks : Bool) (q5 : AxCut.Prog) : Bool :=
  match X86.compileX86 q5 hooks 0 with
  | .ok (body, nargs) =>
    match X86.intoRoutine body nargs with
    | .ok routine => decide (C01_routineBytes routine < 2 ^ 63)
    | .error _ => true
  | .error _ => true

/-- `C01_backChecks` without the evaluated check that the labels of the routine are pairwise distinct -/
def C01_backChecksLite (p' : Fun.CheckedProgram) : Bool :=
  C01_labelSafe p' &&
  match stages p' with
  | .ok st =>
    decide (AxCut.Pos.progCap st.s5 ≤ 133) && C01_progInRangeB st.s5 && C01_namesTextSafe st.s5 &&
    C01_mockFitsB true st.s5 && C01_mockFitsB false st.s5 &&
    C01_routineSmallB true st.s5 && C01_routineSmallB false st.s5
  | .error _ => false

/-- for a label-safe program the label check of `C01_routineOkB` is a theorem (`X86.Ref.labels_unique_x86`) -/
theorem C01_routineOkB_iff_small {q5 : AxCut.Prog} (hsafe : LabelSafe q5 = true) (hooks : Bool) :
    C01_routineOkB hooks q5 = C01_routineSmallB hooks q5 := by
  unfold C01_routineOkB C01_routineSmallB
  cases hcomp : X86.compileX86 q5 hooks 0 with
  | error e => rfl
  | ok r =>
    obtain ⟨body, nargs⟩ := r
    simp only
    cases hinto : X86.intoRoutine body nargs with
    | error e => rfl
    | ok routine =>
      have hnd : (C01_labsB routine).Nodup := X86.Ref.labels_unique_x86 hsafe hcomp hinto
      simp [hnd]

/-- the two predicates are EQUIVALENT -/
theorem C01_backChecks_iff_lite (p' : Fun.CheckedProgram) :
    C01_backChecks p' = C01_backChecksLite p' := by
  unfold C01_backChecks C01_backChecksLite
  cases hls : C01_labelSafe p' with
  | false => rfl
  | true =>
    cases hok : stages p' with
    | error e => rfl
    | ok st =>
      have hsafe : LabelSafe st.s5 = true := by
        unfold C01_labelSafe at hls
        rw [hok] at hls
        exact hls
      simp only [C01_routineOkB_iff_small hsafe]

/-- **C01 end to end with the smaller predicate** -/
theorem C01_end_to_end_lite (mode : Fun.Parse.LiteralMode) (src : String) (p : Fun.Program)
    (p' : Fun.CheckedProgram)
    (hparse : Fun.Parse.parse mode src = .ok p) (hc : checkProgram p = .ok p')
    (hv : validMain p' = true) (hmc : Fun.noMainCall p' = true) (hb : C01_backChecksLite p' = true) :
    C01_conclusionH p' :=
  C01_end_to_end mode src p p' hparse hc hv hmc (by rw [C01_backChecks_iff_lite]; exact hb)

/-- the decidable predicate of the tag `e2e` of `Scc.Pipeline.Links.linksLine` -/
def C01_endChecks (p' : Fun.CheckedProgram) : Bool :=
  validMain p' && Fun.noMainCall p' && C01_backChecks p'

/-- `C01_end_to_end` with hypotheses (3)–(5) as the ONE predicate `C01_endChecks` -/
theorem C01_end_to_end_checks (mode : Fun.Parse.LiteralMode) (src : String) (p : Fun.Program)
    (p' : Fun.CheckedProgram)
    (hparse : Fun.Parse.parse mode src = .ok p) (hc : checkProgram p = .ok p')
    (he : C01_endChecks p' = true) : C01_conclusionH p' := by
  simp only [C01_endChecks, Bool.and_eq_true] at he
  exact C01_end_to_end mode src p p' hparse hc he.1.1 he.1.2 he.2

/-! ## non-vacuity

`C01E_sumSrc`: `range(n)` builds `[n, …, 1]`, `sum` adds the elements; BOTH recurse under a `let`, so the
continuation passed to the recursive call is a closure that captures `n` resp. `x` (`create` with a
non-empty environment, `invoke` at every return) — outside `C01_data_fragment`.  `main` prints the sum and
returns it.  On the argument 4: trace `10\n`, result 10.

`#eval` (not part of the build; the x86-64 machine's `Std.HashMap` memory does not reduce in the kernel),
with `text` the result of `compileTextX86 true 0 C01E_sumSrc`:
  `X86.run text [4] 100000 {}`            trace `[(true, 10)]`, result `done 10`
  `runLineNative text 1 [4] 100000`       `OK 31300a 10`   (bytes "10\n", exit status 10)
and for `C01E_nseqSrc`:                    trace `[(true, 10)]`, result `done 0`, `OK 31300a 0`
— as the theorem says. -/

def C01E_sumSrc : String :=
  "data List[A] { Nil, Cons(x: A, xs: List[A]) }
def range(n: i64): List[i64] { if n == 0 { Nil } else { let m: i64 = n - 1; let r: List[i64] = range(m); Cons(n, r) } }
def sum(l: List[i64]): i64 { l.case[i64] { Nil => 0, Cons(x, xs) => let r: i64 = sum(xs); x + r } }
def main(n: i64): i64 { let l: List[i64] = range(n); let s: i64 = sum(l); println_i64(s); s }"

/-- the same with nested calls: NOT `Sequenced` (`srcRun` is the Core ς-machine on S2) -/
def C01E_nseqSrc : String :=
  "data List[A] { Nil, Cons(x: A, xs: List[A]) }
def range(n: i64): List[i64] { if n == 0 { Nil } else { Cons(n, range(n - 1)) } }
def sum(l: List[i64]): i64 { l.case[i64] { Nil => 0, Cons(x, xs) => x + sum(xs) } }
def main(n: i64): i64 { println_i64(sum(range(n))); 0 }"

set_option maxRecDepth 100000 in
/-- hypotheses (3), (4) of `C01_end_to_end` on the recursive list sum (accepted: by `frontEnd`); the
    program is `Sequenced`, has closures in S5 and one parameter; and the premise of the inner implication
    on the argument 4: the source semantics (the Fun machine) finishes with trace `10\n` and result 10 -/
theorem C01E_sum_front :
    C01F_ex (fun _ p' => validMain p' && Fun.noMainCall p' && Fun.Sequenced p' && !C01F_noClosures p' &&
      decide (mainArity p' = 1) && decide (srcRun p' [4] 200 = ⟨[(true, 10)], .done 10⟩))
      C01E_sumSrc = true := by
  decide +kernel

set_option maxRecDepth 100000 in
/-- hypothesis (5): THE predicate `C01_backChecks` -/
theorem C01E_sum_back : C01F_ex (fun _ p' => C01_backChecks p') C01E_sumSrc = true := by decide +kernel

set_option maxRecDepth 100000 in
/-- the non-sequenced variant: hypotheses (3), (4), NOT `Sequenced`, closures in S5, one parameter; the
    source semantics (the Core machine on S2) finishes on the argument 4 with trace `10\n` and result 0 -/
theorem C01E_nseq_front :
    C01F_ex (fun _ p' => validMain p' && Fun.noMainCall p' && !Fun.Sequenced p' && !C01F_noClosures p' &&
      decide (mainArity p' = 1) && decide (srcRun p' [4] 100 = ⟨[(true, 10)], .done 0⟩))
      C01E_nseqSrc = true := by
  decide +kernel

set_option maxRecDepth 100000 in
theorem C01E_nseq_back : C01F_ex (fun _ p' => C01_backChecks p') C01E_nseqSrc = true := by decide +kernel

/-- the front end accepts the example -/
theorem C01E_sum_accepted : ∃ p p', frontEnd C01E_sumSrc = .ok p p' := by
  have h := C01E_sum_front
  unfold C01F_ex at h
  split at h
  · rename_i p p' hfe
    exact ⟨p, p', hfe⟩
  · cases h

/-- what the theorem says about one run `(args, t, v)` of a checked program: the compiler produces a text
    for as many arguments as `args` has, and there is a heap size such that on every `C01_DataMach` with at
    least that heap the x86-64 machine on that text produces `t` and `v`, and the linked binary writes the
    decimal rendering of `t` and exits with status `v mod 256` -/
def C01E_runsNatively (hooks : Bool) (p' : Fun.CheckedProgram) (args : List Word)
    (t : List (Bool × Word)) (v : Word) : Prop :=
  ∃ nargs text, compileAllX86 hooks 0 p' = .ok (nargs, text) ∧ args.length = nargs ∧
    C01_onDataMachines fun cfg m =>
      (X86.run text args m cfg).out = t ∧ (X86.run text args m cfg).res = .done v ∧
      nativeRun text nargs (argvOf args) m cfg = some (renderTrace t, Runtime.exitStatus v.toInt)

/-- from the evaluated hypotheses to the conclusion, for one run of a program with at most five parameters -/
theorem C01E_apply {src : String} {p : Fun.Program} {p' : Fun.CheckedProgram}
    (hfe : frontEnd src = .ok p p') (hv : validMain p' = true) (hmc : Fun.noMainCall p' = true)
    (hb : C01_backChecks p' = true) (har : mainArity p' ≤ 5) {args : List Word} {n : Nat}
    {t : List (Bool × Word)} {v : Word} (hrun : srcRun p' args n = ⟨t, .done v⟩) (hooks : Bool) :
    C01E_runsNatively hooks p' args t v := by
  obtain ⟨hparse, hc⟩ := C01F_frontEnd_ok hfe
  obtain ⟨nargs, text, hall⟩ := C01_end_compiles _ _ p p' hparse hc hv hmc hb har hooks
  obtain ⟨_, h⟩ := C01_end_to_end_onMachines _ _ p p' hparse hc hv hmc hb
  obtain ⟨_, h3⟩ := h hooks nargs text hall
  obtain ⟨hlen, h4⟩ := h3 args n t v hrun
  exact ⟨nargs, text, hall, hlen, h4⟩

/-- **the theorem applies to the recursive list sum**: for both hook settings the compiler produces a
    routine text, and on every `C01_DataMach` with enough heap the x86-64 machine on it, started with the
    argument 4, prints 10 and returns 10; the linked binary writes "10\n" and exits with status 10 -/
theorem C01E_sum_conclusion (p : Fun.Program) (p' : Fun.CheckedProgram)
    (hfe : frontEnd C01E_sumSrc = .ok p p') (hooks : Bool) :
    C01E_runsNatively hooks p' [4] [(true, 10)] 10 := by
  have h1 := C01F_ex_elim C01E_sum_front hfe
  simp only [Bool.and_eq_true, decide_eq_true_eq] at h1
  obtain ⟨⟨⟨⟨⟨hv, hmc⟩, _⟩, _⟩, har⟩, h2⟩ := h1
  exact C01E_apply hfe hv hmc (C01F_ex_elim C01E_sum_back hfe) (by omega) h2 hooks

/-- … and to the non-sequenced variant (result 0) -/
theorem C01E_nseq_conclusion (p : Fun.Program) (p' : Fun.CheckedProgram)
    (hfe : frontEnd C01E_nseqSrc = .ok p p') (hooks : Bool) :
    C01E_runsNatively hooks p' [4] [(true, 10)] 0 := by
  have h1 := C01F_ex_elim C01E_nseq_front hfe
  simp only [Bool.and_eq_true, decide_eq_true_eq] at h1
  obtain ⟨⟨⟨⟨⟨hv, hmc⟩, _⟩, _⟩, har⟩, h2⟩ := h1
  exact C01E_apply hfe hv hmc (C01F_ex_elim C01E_nseq_back hfe) (by omega) h2 hooks

/-- the bytes and the exit status of the conclusion for the example's run: "10\n", status 10; the default
    configuration is a `C01_DataMach` -/
example : renderTrace [(true, (10 : Word))] = [49, 48, 10] ∧ Runtime.exitStatus (10 : Word).toInt = 10 ∧
    C01_DataMach {} :=
  ⟨by decide, by decide, C01_dataMach_default⟩

set_option maxRecDepth 100000 in
theorem C01E_rec_front :
    C01F_ex (fun _ p' => validMain p' && Fun.noMainCall p' && decide (mainArity p' = 1)) C01F_recSrc = true := by
  decide +kernel

/-- the tail-recursive list sum of Props/C01Final.lean (`C01_recursion_needs_closures`: its back-end
    conditions `C01F_rec_back`, its run `C01F_rec_closures`) is covered too -/
theorem C01E_rec_conclusion (p : Fun.Program) (p' : Fun.CheckedProgram)
    (hfe : frontEnd C01F_recSrc = .ok p p') (hooks : Bool) :
    C01E_runsNatively hooks p' [4] [(true, 10)] 10 := by
  have h1 := C01F_ex_elim C01E_rec_front hfe
  have h2 := C01F_ex_elim C01F_rec_closures hfe
  simp only [Bool.and_eq_true, decide_eq_true_eq] at h1 h2
  exact C01E_apply hfe h1.1.1 h1.1.2 (C01F_ex_elim C01F_rec_back hfe) (by omega) h2.2 hooks

#print axioms C01_gap_x86_holds
#print axioms C01_gap_fun2core_holds
#print axioms C01_end_to_end
#print axioms C01_end_to_end_spelled
#print axioms C01_end_to_end_onMachines
#print axioms C01_end_compiles
#print axioms C01_backChecks_iff_lite
#print axioms C01_end_to_end_lite
#print axioms C01_end_to_end_checks
#print axioms C01E_sum_front
#print axioms C01E_sum_back
#print axioms C01E_nseq_front
#print axioms C01E_nseq_back
#print axioms C01E_rec_front
#print axioms C01E_sum_accepted
#print axioms C01E_apply
#print axioms C01E_sum_conclusion
#print axioms C01E_nseq_conclusion
#print axioms C01E_rec_conclusion

end Scc.Props
