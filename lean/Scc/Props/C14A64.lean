/-
  Scc.Props.C14A64 — property C14 (the emitted assembly is well-formed) for the AArch64 backend,
  part T4 "operand ranges" of DESIGN.md §5 and the table stride.

  * `C14_statement` — the full property (labels defined exactly once, referenced labels defined,
    operand ranges, table stride) as a `def : Prop` about the monitor `wfCheck` of
    Scc/A64/Machine.lean (NOT proved for whole programs; checked on every compared text by `wfLine`).
  * proved: `C14_methods_wf` — EVERY method of the backend record `a64Backend` (config.rs, code.rs,
    memory.rs, parallel_moves.rs) and `setup`/`cleanup`/`preamble` of into_routine.rs emits only
    instructions whose operands the instruction form can encode (`Code.wf` = the per-instruction
    check `Instr.wfError` of the monitor `wf`), for ALL arguments: all literals, all placements, all
    contexts; under the two capacity side conditions that the forms impose:
      `add_and_jump` immediate < 4096  (jump_length k: k ≤ 1023 xtors),
      `share_block_n` count < 4096.
    MOVZ/MOVK/MOVN halfwords < 65536 and shifts ∈ {0,16,32,48}; LDR/STR offsets multiples of 8 in
    0..32760 (spill slots, block fields, pushed registers); ADD/SUB/CMP immediates < 4096 (SPILL_SPACE,
    64, 8·count, refcount ±1); STP/LDP ±16.
  * `C14_stride`: `jump_length k = 4·k` = k machine instructions of Machine.lean's layout (every
    instruction has size 4); `C14_table_layout_statement` (the layout fact `TableAt` for a label
    followed by `B` lines) is kept as a `def : Prop`.
  No `bv_decide`.
-/
import Scc.A64.WfMemory
import Scc.A64.JumpLemmas

namespace Scc.A64
open Scc.AxCut
open Scc.Backend (GenM TempNum)

/-! ## The full statement (not proved) -/

/-- C14 for AArch64: the routine text of every compiled program passes the monitor `wf`
(`wfCheck`: parses; labels defined exactly once and not clashing with runtime symbols; referenced
labels defined; operand classes and ranges; branch reach), provided no type has more than 1023
xtors, no variable is copied 4096 times at once and the text is smaller than 1 MiB. -/
def C14_statement : Prop :=
  ∀ (p : AxCut.Prog) (body routine : List Code) (nargs : Nat),
    compileProg a64Backend p false 0 = .ok (body, nargs, routine) →
    (∀ d ∈ p.types, d.xtors.length ≤ 1023) → routine.length < 262144 →
    wfCheck (printProg routine) = .ok ()

/-- the layout fact used by the jump-table theorems: a label followed by `n` instruction lines (no
hook comment in between) yields `TableAt`. -/
def C14_table_layout_statement : Prop :=
  ∀ (pre post : List (Nat × PLine)) (ln : Nat) (l : String) (entries : List (Nat × Instr)) (c : MemCfg),
    (∀ q ∈ pre, q.2 ≠ .label l) → entries ≠ [] →
    c.codeBase + 4 * (pre.length + entries.length + post.length) < 2 ^ 64 →
    ∃ j, TableAt (layout (pre ++ [(ln, .label l)] ++ entries.map (fun e => (e.1, .instr e.2)) ++ post)) c l j entries.length

/-! ## Operand ranges of every backend method -/

structure MethodsWf : Prop where
  jump : ∀ t, t.ok → allWf (a64Backend.jump t) = true
  jumpLabel : ∀ l, allWf (a64Backend.jumpLabel l) = true ∧ allWf (a64Backend.jumpLabelFixed l) = true
  jumpLabelIf : ∀ s t1 t2 l, t1.ok → t2.ok →
    allWf (a64Backend.jumpLabelIf s t1 t2 l) = true ∧ allWf (a64Backend.jumpLabelIfZero s t1 l) = true
  loadImmediate : ∀ t (i : Int), t.ok → allWf (a64Backend.loadImmediate t i) = true
  loadLabel : ∀ t l, t.ok → allWf (a64Backend.loadLabel t l) = true
  addAndJump : ∀ t k, t.ok → k ≤ 1023 → allWf (a64Backend.addAndJump t (a64Backend.jumpLength k)) = true
  binop : ∀ o t s1 s2, t.ok → s1.ok → s2.ok → allWf (a64Backend.binop o t s1 s2) = true
  mov : ∀ t s, t.ok → s.ok → allWf (a64Backend.mov t s) = true
  printI64 : ∀ nl t ctx, t.ok → GenWf (a64Backend.printI64 nl t ctx)
  eraseBlock : ∀ t, t.ok → GenWf (a64Backend.eraseBlock t)
  shareBlockN : ∀ t n, t.ok → n < 4096 → GenWf (a64Backend.shareBlockN t n)
  store : ∀ a b, GenWf (a64Backend.store a b)
  load : ∀ a b, GenWf (a64Backend.load a b)
  storeRestore : ∀ t b, t.ok →
    allWf (a64Backend.storeTemporary t b) = true ∧ allWf (a64Backend.restoreTemporary t b) = true
  comment : ∀ m l, (a64Backend.comment m).wf = true ∧ (a64Backend.label l).wf = true
  temporaries : ∀ n ctx, GenAll (fun t => t.ok = true) (a64Backend.freshTemporary n ctx) ∧
    ∀ v, GenAll (fun t => t.ok = true) (a64Backend.variableTemporary n ctx v)
  routine : (∀ n, n ≤ 7 → ∃ codes, setup n = .ok codes ∧ allWf codes = true) ∧
    allWf cleanup = true ∧ allWf preamble = true

theorem variableTemporary_ok (number : TempNum) (ctx : Ctx) (v : Nat) :
    GenAll (fun t => t.ok = true) (variableTemporary number ctx v) := by
  unfold variableTemporary
  split
  · unfold temporaryFromPosition
    simp only []
    split
    · exact GenAll_pure (by simpa [Temporary.ok, Register.ok, REGISTER_NUM_eq] using ‹_›)
    · split
      · exact GenAll_pure (by simpa [Temporary.ok] using ‹_›)
      · exact GenAll_throw _
  · exact GenAll_throw _

/-- C14-T4 for AArch64: operand ranges of everything the backend can emit. -/
theorem C14_methods_wf : MethodsWf where
  jump := wf_jump
  jumpLabel := fun l => ⟨by simp [a64Backend, a64BackendG, allWf, wf_B], by simp [a64Backend, a64BackendG, allWf, wf_B]⟩
  jumpLabelIf := fun s t1 t2 l h1 h2 => wf_jumpLabelIf s t1 t2 h1 h2 l
  loadImmediate := fun t i h => wf_loadImmediate t h i
  loadLabel := fun t l h => wf_loadLabel t h l
  addAndJump := fun t k h hk => wf_addAndJump t h _ (okImm12_jumpLength k hk)
  binop := fun o t s1 s2 => wf_op o t s1 s2
  mov := wf_mov
  printI64 := fun nl t ctx h => GenAll_pure (wf_printI64G false nl t h ctx)
  eraseBlock := wf_eraseBlock
  shareBlockN := fun t n h hn => wf_shareBlockN t h n hn
  store := wf_store
  load := wf_load
  storeRestore := fun t b h => wf_storeRestoreTemporary t h b
  comment := fun _ _ => ⟨rfl, rfl⟩
  temporaries := fun n ctx => ⟨freshTemporary_ok n ctx, variableTemporary_ok n ctx⟩
  routine := ⟨wf_setup, wf_cleanup.1, wf_cleanup.2⟩

/-- `Code.wf` is the monitor's per-instruction check: an instruction of the model that is `wf` has
no operand error when parsed back from its printed text (the parse = `toInstr`, checked by
`Code.roundTrips` on every compared program). -/
theorem C14_wf_is_monitor_check (code : Code) (i : Instr) (h : code.toInstr = some i) :
    code.wf = true ↔ i.wfError = none := by
  simp [Code.wf, h]

/-- the table stride: `jump_length k` is the byte distance of `k` instructions in the machine's layout -/
theorem C14_stride (k : Nat) : a64Backend.jumpLength k = 4 * (k : Int) ∧ a64Backend.jumpLength 1 = 4 :=
  ⟨rfl, rfl⟩

/-! ## Non-vacuity: `GenWf` is not vacuous — the generators do succeed -/

example : ∃ cs s, (a64Backend.eraseBlock (.spill 7)).run 0 = .ok (cs, s) ∧ allWf cs = true :=
  ⟨_, _, rfl, C14_methods_wf.eraseBlock (.spill 7) (by decide) 0 _ _ rfl⟩

example : ∃ cs s, (a64Backend.store [⟨⟨"a", 1⟩, .ext, .i64⟩, ⟨⟨"b", 2⟩, .prd, .i64⟩] []).run 0 = .ok (cs, s) ∧
    allWf cs = true :=
  ⟨_, _, rfl, C14_methods_wf.store [⟨⟨"a", 1⟩, .ext, .i64⟩, ⟨⟨"b", 2⟩, .prd, .i64⟩] [] 0 _ _ rfl⟩

#print axioms C14_methods_wf
#print axioms C14_stride

end Scc.A64
