/-
  Scc.Props.Traversals — the hand-written Lean models visit exactly the fields the current sources visit.

  `Scc/Generated/Traversals.lean` is rewritten by the translator (checks/regen.py, generator `traversals`) from
  the Rust text of /repo on every run: for every implementation of a per-node traversal trait
  (UsedBinders on Fun; Uniquify / Subst / Bind / Focusing on Core; FreeVars / Subst / Linearizing on AxCut) the
  statements of the body, in source order, as rows (condition, how, field of `self`, argument), plus
  fresh_identifier.

  Technique: for each (trait, node) a SAMPLE node is built whose fields carry pairwise distinct markers (binders /
  variables / ids named after the Rust field), the MODEL's function is run on it, the markers that were
  affected are read off the result, and that observation is equated with the generated rows (`by decide`: kernel
  evaluation, no test input).  A field dropped from / added to a body in /repo changes the generated rows and
  the theorem stops compiling; a body whose shape the extractor does not recognise makes the extractor fail.
   * UsedBinders: marker = a `let` binding the field's name; observation = the names collected.
   * Uniquify: marker = a μ-binder with id 0; observation = the binders that got a fresh id, in the order of ids.
   * Subst (Core, AxCut): marker = a variable; observation = the fields in which it was replaced.
   * Bind / Focusing: the operands are the literals 1 and 2; observation = the order in which they are bound and
     which binding each operand of the focused node receives.
   * FreeVars: the generated rows are EXECUTED by a small interpreter (`Fv.run`) on the sample's values and the
     result (set and annotations) is equated with the model's.
   * Linearizing: the clash set passed to `freshen` and the composition of the context compared against are
     interpreted on a sample with a duplicated variable (`invoke x m(x)`, `call f(x, x)`, …).
  The bodies that treat binders (Mu, Clause, XVar of Core) and the contexts passed to the recursive calls of
  `linearize` are irregular; they are pinned statement by statement next to the model observation they justify.
-/
import Scc.Generated.Traversals
import Scc.Fun2Core.Model
import Scc.Core.Focus
import Scc.AxCut.Linearize

namespace Scc.Traversals
open Scc.Generated

def row (t : List (String × List Visit)) (n : String) : List Visit := (t.lookup n).getD []
def fields (vs : List Visit) : List String := vs.map (·.field)
def hows (vs : List Visit) : List (String × String) := vs.map fun v => (v.how, v.field)
def sameSet (a b : List String) : Bool := a.all (b.contains ·) && b.all (a.contains ·)
/-- the rows are unconditional visits by the method `m` -/
def plain (m : String) (vs : List Visit) : Bool := vs.all fun v => v.cond == "" && v.how == "rec" && v.arg == m
def names (t : List (String × α)) : List String := t.map (·.1)
def delegated (t : List (String × String)) : List String := (t.filter (·.2 == "rec")).map (·.1)

/-! ## 1. Fun: UsedBinders (lang/fun/src/syntax/terms/*.rs ↔ Scc.Fun2Core.usedBinders) -/
namespace FunUB
open Scc.Fun Scc.Fun2Core

/-- a term that binds `n` and nothing else -/
def mT (n : String) : Term := .letIn n .i64 (.lit 0) (.lit 0) none
def args : Terms := .cons (mT "args.entries") .nil
def clauses : Clauses := .cons .data "K" [] [] (mT "clauses") .nil

def sample : String → Option Term
  | "Op" => some (.op (mT "fst") .sum (mT "snd"))
  | "IfC" => some (.ifc .eq (mT "fst") (mT "snd") (mT "thenc") (mT "elsec") none)
  | "PrintI64" => some (.print true (mT "arg") (mT "next") none)
  | "Let" => some (.letIn "variable" .i64 (mT "bound_term") (mT "in_term") none)
  | "Call" => some (.call "f" args none)
  | "Constructor" => some (.ctor "K" args none)
  | "Destructor" => some (.dtor (mT "scrutinee") "d" .nil args none)
  | "Case" => some (.case (mT "scrutinee") .nil clauses none)
  | "New" => some (.new clauses none)
  | "Goto" => some (.goto "a" (mT "term") none)
  | "Label" => some (.label "label" (mT "term") none)
  | "Exit" => some (.exit (mT "arg") none)
  | "Paren" => some (.paren (mT "inner"))
  | _ => none

/-- the model's `usedBinders` on the sample of node `n` collects exactly the fields of the generated row -/
def visits (n : String) : Bool :=
  match sample n with
  | none => false
  | some t => sameSet (usedBinders t []) (fields (row funUsedBinders n))

/-- how each field must be visited: the binder fields are inserted, everything else is recursed into -/
def howOf (f : String) : String :=
  if f == "variable" || f == "label" then "insert" else if f == "context_names.bindings" then "insert_each" else "rec"
def howsOk (n : String) : Bool :=
  (row funUsedBinders n).all fun v => v.cond == "" && v.how == howOf v.field && (v.how != "rec" || v.arg == "used_binders(used)")
end FunUB

namespace CoreT
open Scc.Core

/-! ## 2. Core: Uniquify, Subst, Bind / Focusing (lang/core_lang/src/syntax/** ↔ Scc.Core.{Uniquify,Focus}) -/

def k : Term := .var .cns ⟨"k", 7⟩ .i64
/-- a producer that binds the covariable `n` (id 0: to be uniquified) -/
def mT (n : String) : Term := .mu .prd ⟨n, 0⟩ .i64 (.exit (.lit 0) .i64)
def mS (n : String) : Stmt := .cut .i64 (mT n) k

mutual
  def bT : Term → List Ident
    | .var _ _ _ => [] | .lit _ => [] | .op a _ b => bT a ++ bT b
    | .mu _ v _ s => v :: bS s | .xtor _ _ as _ => bA as | .xcase _ _ cl => bC cl
  def bA : Args → List Ident
    | .nil => [] | .cons _ t r => bT t ++ bA r
  def bC : Clauses → List Ident
    | .nil => [] | .cons _ ctx b r => ctx.map (·.var) ++ bS b ++ bC r
  def bS : Stmt → List Ident
    | .cut _ p c => bT p ++ bT c | .ifc _ a b t e => bT a ++ bT b ++ bS t ++ bS e
    | .ifz _ a t e => bT a ++ bS t ++ bS e | .print _ a n => bT a ++ bS n
    | .call _ as _ => bA as | .exit a _ => bT a
end

/-- names of the binders that received the fresh ids 1, 2, …, in that order -/
def fresh (bs : List Ident) : List String :=
  ((List.range 8).filterMap fun i => bs.find? fun b => b.id == i + 1).map (·.name)

def uSample : String → Option (List Ident)
  | "Op" => some (bT (uniquifyTerm (.op (mT "fst") .sum (mT "snd")) 0).1)
  | "Xtor" => some (bT (uniquifyTerm (.xtor .prd ⟨"K", 0⟩ (.cons .prd (mT "args") .nil) .i64) 0).1)
  | "XCase" => some (bT (uniquifyTerm (.xcase .cns .i64 (.cons ⟨"K", 0⟩ [] (mS "clauses") .nil)) 0).1)
  | "Cut" => some (bS (uniquifyStmt (.cut .i64 (mT "producer") (.mu .cns ⟨"consumer", 0⟩ .i64 (.exit (.lit 0) .i64))) 0).1)
  | "IfC" => some (bS (uniquifyStmt (.ifc .eq (mT "fst") (mT "snd") (mS "thenc") (mS "elsec")) 0).1)
  | "PrintI64" => some (bS (uniquifyStmt (.print true (mT "arg") (mS "next")) 0).1)
  | "Call" => some (bS (uniquifyStmt (.call ⟨"f", 0⟩ (.cons .prd (mT "args") .nil) .i64) 0).1)
  | "Exit" => some (bS (uniquifyStmt (.exit (mT "arg") .i64) 0).1)
  | "Arguments" => some (bA (uniquifyArgs (.cons .prd (mT "entries") .nil) 0).1)
  | _ => none

/-- the model's `uniquify` on the sample of node `n` renames the binders of exactly the generated fields, in that order -/
def uVisits (n : String) : Bool :=
  (uSample n).map fresh == some (fields (row coreUniquify n)) && plain "uniquify(max_id)" (row coreUniquify n)

/-- `ifz` (Rust: `snd = None`, `Option::uniquify` maps over nothing): the same row without `snd` -/
def uIfz : List String :=
  fresh (bS (uniquifyStmt (.ifz .eq (mT "fst") (mS "thenc") (mS "elsec")) 0).1)

/-! ### Subst: a variable named after the field, replaced by the same name with id 1 -/

def v (n : String) : Term := .var .prd ⟨n, 0⟩ .i64
def vS (n : String) : Stmt := .exit (v n) .i64
def σ : Subst := ["fst", "snd", "thenc", "elsec", "args", "clauses", "producer", "consumer", "arg", "next", "entries", "statement", "body"].map
  fun n => (⟨n, 0⟩, .var .prd ⟨n, 1⟩ .i64)

mutual
  def vT : Term → List Ident
    | .var _ x _ => [x] | .lit _ => [] | .op a _ b => vT a ++ vT b
    | .mu _ _ _ s => vS' s | .xtor _ _ as _ => vA as | .xcase _ _ cl => vC cl
  def vA : Args → List Ident
    | .nil => [] | .cons _ t r => vT t ++ vA r
  def vC : Clauses → List Ident
    | .nil => [] | .cons _ _ b r => vS' b ++ vC r
  def vS' : Stmt → List Ident
    | .cut _ p c => vT p ++ vT c | .ifc _ a b t e => vT a ++ vT b ++ vS' t ++ vS' e
    | .ifz _ a t e => vT a ++ vS' t ++ vS' e | .print _ a n => vT a ++ vS' n
    | .call _ as _ => vA as | .exit a _ => vT a
end

def replaced (xs : List Ident) : List String := (xs.filter (·.id == 1)).map (·.name)

def sSample : String → Option (List Ident)
  | "Op" => some (vT (substTerm σ [] (.op (v "fst") .sum (v "snd"))))
  | "Xtor" => some (vT (substTerm σ [] (.xtor .prd ⟨"K", 0⟩ (.cons .prd (v "args") .nil) .i64)))
  | "XCase" => some (vT (substTerm σ [] (.xcase .cns .i64 (.cons ⟨"K", 0⟩ [] (vS "clauses") .nil))))
  | "Cut" => some (vS' (substStmt σ [] (.cut .i64 (v "producer") (.mu .cns ⟨"x", 0⟩ .i64 (vS "consumer")))))
  | "IfC" => some (vS' (substStmt σ [] (.ifc .eq (v "fst") (v "snd") (vS "thenc") (vS "elsec"))))
  | "PrintI64" => some (vS' (substStmt σ [] (.print true (v "arg") (vS "next"))))
  | "Call" => some (vS' (substStmt σ [] (.call ⟨"f", 0⟩ (.cons .prd (v "args") .nil) .i64)))
  | "Exit" => some (vS' (substStmt σ [] (.exit (v "arg") .i64)))
  | "Arguments" => some (vA (substArgs σ [] (.cons .prd (v "entries") .nil)))
  | _ => none

/-- the model's `subst_sim` on the sample of node `n` replaces the variable in exactly the generated fields -/
def sVisits (n : String) : Bool :=
  match sSample n with
  | none => false
  | some xs => sameSet (replaced xs) (fields (row coreSubst n)) && xs.all (·.id == 1)
      && plain "subst_sim(prod_subst, cons_subst)" (row coreSubst n)

/-! ### Bind / Focusing: the order in which the operands are bound -/

/-- the chain `⟨i | μ~x. …⟩` at the top of a focused statement: (literal bound, variable it is bound to) -/
def binds : FsStmt → List (Int × Ident)
  | .cut _ (.lit i) (.mu .cns x _ r) => (i, x) :: binds r
  | _ => []
/-- the focused node under the chain: its two operands -/
def operands : FsStmt → Option (Ident × Ident)
  | .cut _ (.lit _) (.mu .cns _ _ r) => operands r
  | .cut _ (.op a _ b) _ => some (a, b)
  | .ifc _ a (some b) _ _ => some (a, b)
  | _ => none
def fieldOfLit (i : Int) : String := if i == 1 then "fst" else if i == 2 then "snd" else "?"

def kExit : Cont := fun b n => (.exit b.var, n)
def bSample : String → Option FsStmt
  | "Bind/Op" => some (bindTerm (.op (.lit 1) .sum (.lit 2)) kExit 0).1
  | "Focusing/IfC" => some (focusStmt (.ifc .eq (.lit 1) (.lit 2) (.exit (.lit 0) .i64) (.exit (.lit 0) .i64)) 0).1
  | "Focusing/Cut(Op)" => some (focusStmt (.cut .i64 (.op (.lit 1) .sum (.lit 2)) k) 0).1
  | _ => none

/-- the operands are bound in the generated order (first = outermost = evaluated first) -/
def orderOk (n : String) : Bool :=
  match bSample n, coreBindOrder.lookup n with
  | some s, some o => (binds s).map (fun p => fieldOfLit p.1) == o.map (·.1)
  | _, _ => false

/-- operand `f` of the focused node receives the binding of the generated source field -/
def wiringOk (n : String) : Bool :=
  match bSample n, coreBindOrder.lookup n, coreBindWiring.lookup n with
  | some s, some o, some w =>
    match operands s with
    | none => false
    | some (a, b) =>
      let src (x : Ident) : Option String := ((binds s).find? (·.2 == x)).map fun p => fieldOfLit p.1
      let gen (f : String) : Option String := (w.lookup f).bind fun p => (o.find? (·.2 == p)).map (·.1)
      src a == gen "fst" && src b == gen "snd" && (src a).isSome && (src b).isSome
  | _, _, _ => false

end CoreT

namespace AxT
open Scc.AxCut

/-! ## 3. AxCut: FreeVars, Subst, Linearizing (lang/axcut/src/syntax/** ↔ Scc.AxCut.Linearize) -/

def canon (l : List Nat) : List Nat := (List.range 300).filter (l.contains ·)
def b (n : String) (i : Nat) : Binding := ⟨⟨n, i⟩, .prd, .i64⟩
def T : Ty := .decl ⟨"T", 0⟩

namespace Fv
/-- state of the interpreter of FreeVars rows: the sets by name, the annotations written so far -/
structure St where
  sets : List (String × List Nat)
  annots : List (String × List Nat)
def St.get (s : St) (n : String) : List Nat := (s.sets.lookup n).getD []
def St.put (s : St) (n : String) (x : List Nat) : St := { s with sets := (n, x) :: s.sets.filter (·.1 != n) }

/-- one row.  `val f` = ids of field `f` of the sample (for a sub-statement: its free variables; `f.new` = the ids bound by a rearrangement) -/
def step (val : String → Option (List Nat)) (s : St) (v : Visit) : Option St :=
  if v.cond != "" then none
  else if v.how == "newset" then some (s.put v.arg [])
  else if v.how == "union" then some (s.put v.arg (s.get v.arg ++ s.get v.field))
  else if v.how == "annot" then some { s with annots := s.annots ++ [(v.field, canon (s.get v.arg))] }
  else if v.how == "rec" || v.how == "add" || v.how == "add_opt" || v.how == "add_each" || v.how == "add_old" then
    (val v.field).map fun x => s.put v.arg (s.get v.arg ++ x)
  else if v.how == "remove" || v.how == "remove_each" then
    (val v.field).map fun x => s.put v.arg ((s.get v.arg).filter (!x.contains ·))
  else if v.how == "remove_new" then
    (val (v.field ++ ".new")).map fun x => s.put v.arg ((s.get v.arg).filter (!x.contains ·))
  else none

def run (val : String → Option (List Nat)) (vs : List Visit) : Option (List Nat × List (String × List Nat)) :=
  (vs.foldl (fun s v => s.bind fun s => step val s v) (some ⟨[], []⟩)).map fun s => (canon (s.get "vars"), s.annots)
end Fv

def fvOf (s : Stmt) : List Nat := canon (freeVars s).2
def cfv : FV → List Nat
  | none => [999]
  | some l => canon l
/-- the annotations the model writes on the top node, in the order in which Rust writes them -/
def annotsOf : Stmt → List (String × List Nat)
  | .letS _ _ _ _ _ fv => [("free_vars_next", cfv fv)]
  | .switch _ _ _ fv => [("free_vars_clauses", cfv fv)]
  | .create _ _ _ _ _ fc fn => [("free_vars_next", cfv fn), ("free_vars_clauses", cfv fc)]
  | .lit _ _ _ fv => [("free_vars_next", cfv fv)]
  | .op _ _ _ _ _ fv => [("free_vars_next", cfv fv)]
  | .print _ _ _ fv => [("free_vars_next", cfv fv)]
  | _ => []
def modelFv (s : Stmt) : Option (List Nat × List (String × List Nat)) :=
  some (canon (freeVars s).2, annotsOf (freeVars s).1)

/-- a continuation that uses the variable `v` bound by the node (id 1) and one more variable -/
def next (m : Nat) : Stmt := .invoke ⟨"v", 1⟩ ⟨"m", 0⟩ T [b "n" m, b "a" 2]
def cls (m : Nat) : Clauses := .cons ⟨"K", 0⟩ [b "p" 20] (.invoke ⟨"p", 20⟩ ⟨"m", 0⟩ T [b "c" m, b "v" 1]) .nil
def valOf (l : List (String × List Nat)) : String → Option (List Nat) := fun f => l.lookup f

/-- (sample statement, values of its fields) per node -/
def fvSample : String → Option (Stmt × List (String × List Nat))
  | "Substitute" => some (.subst [(b "new" 5, ⟨"old", 6⟩)] (.exit ⟨"new", 5⟩),
      [("next", [5]), ("rearrange", [6]), ("rearrange.new", [5])])
  | "Call" => some (.call ⟨"f", 0⟩ [b "a" 2, b "b" 3], [("args", [2, 3])])
  | "Let" => some (.letS ⟨"v", 1⟩ T ⟨"K", 0⟩ [b "a" 2, b "b" 3] (next 4) none,
      [("var", [1]), ("args", [2, 3]), ("next", fvOf (next 4))])
  | "Switch" => some (.switch ⟨"v", 1⟩ T (cls 4) none, [("var", [1]), ("clauses", canon (freeVarsClauses (cls 4)).2)])
  | "Create" => some (.create ⟨"v", 1⟩ T none (cls 5) (next 4) none none,
      [("var", [1]), ("next", fvOf (next 4)), ("clauses", canon (freeVarsClauses (cls 5)).2)])
  | "Invoke" => some (.invoke ⟨"v", 1⟩ ⟨"m", 0⟩ T [b "a" 2, b "b" 3], [("var", [1]), ("args", [2, 3])])
  | "Literal" => some (.lit ⟨"v", 1⟩ 7 (next 4) none, [("var", [1]), ("next", fvOf (next 4))])
  | "Op" => some (.op ⟨"v", 1⟩ ⟨"x", 8⟩ .sum ⟨"y", 9⟩ (next 4) none,
      [("var", [1]), ("fst", [8]), ("snd", [9]), ("next", fvOf (next 4))])
  | "PrintI64" => some (.print true ⟨"w", 8⟩ (next 4) none, [("var", [8]), ("next", fvOf (next 4))])
  | "IfC" => some (.ifc .eq ⟨"x", 8⟩ (some ⟨"y", 9⟩) (.exit ⟨"t", 10⟩) (.exit ⟨"e", 11⟩),
      [("fst", [8]), ("snd", [9]), ("thenc", [10]), ("elsec", [11])])
  | "Exit" => some (.exit ⟨"v", 1⟩, [("var", [1])])
  | _ => none

/-- executing the generated rows of node `n` on the sample's values gives the model's set and annotations -/
def fvOk (n : String) : Bool :=
  match fvSample n with
  | none => false
  | some (s, val) => Fv.run (valOf val) (row axFreeVars n) == modelFv s && (Fv.run (valOf val) (row axFreeVars n)).isSome

/-- clause.rs: the body's variables minus the ones bound by the clause -/
def fvClauseOk : Bool :=
  Fv.run (valOf [("body", fvOf (.invoke ⟨"p", 20⟩ ⟨"m", 0⟩ T [b "c" 4, b "v" 1])), ("context", [20])]) (row axFreeVars "Clause")
    == some (canon (freeVarsClauses (cls 4)).2, [])

/-- `ifz` (Rust: `snd = None`: the `if let Some(..)` adds nothing) -/
def fvIfzOk : Bool :=
  Fv.run (valOf [("fst", [8]), ("snd", []), ("thenc", [10]), ("elsec", [11])]) (row axFreeVars "IfC")
    == modelFv (.ifc .eq ⟨"x", 8⟩ none (.exit ⟨"t", 10⟩) (.exit ⟨"e", 11⟩))

/-! ### Subst: every id i is replaced by i + 100; which fields of the top node changed -/

def σ : Subst := (List.range 40).map fun i => (i, ⟨"r", i + 100⟩)
def sIds : Stmt → List Nat
  | .exit v => [v.id]
  | _ => []
def cIds : Clauses → List Nat
  | .cons _ _ body _ => sIds body
  | .nil => []
def fvIds : FV → List Nat
  | none => [] | some l => l
/-- the Rust fields of the top node with the ids they contain -/
def fieldsOf : Stmt → List (String × List Nat)
  | .subst pairs next => [("rearrange", pairs.map (·.1.var.id) ++ pairs.map (·.2.id)), ("next", sIds next)]
  | .call _ args => [("args", args.ids)]
  | .letS v _ _ args next fv => [("var", [v.id]), ("args", args.ids), ("next", sIds next), ("free_vars_next", fvIds fv)]
  | .switch v _ cs fv => [("var", [v.id]), ("clauses", cIds cs), ("free_vars_clauses", fvIds fv)]
  | .create v _ env cs next fc fn => [("var", [v.id]), ("context", (env.getD []).ids), ("clauses", cIds cs), ("next", sIds next),
      ("free_vars_clauses", fvIds fc), ("free_vars_next", fvIds fn)]
  | .invoke v _ _ args => [("var", [v.id]), ("args", args.ids)]
  | .lit v _ next fv => [("var", [v.id]), ("next", sIds next), ("free_vars_next", fvIds fv)]
  | .op v a _ c next fv => [("var", [v.id]), ("fst", [a.id]), ("snd", [c.id]), ("next", sIds next), ("free_vars_next", fvIds fv)]
  | .print _ v next fv => [("var", [v.id]), ("next", sIds next), ("free_vars_next", fvIds fv)]
  | .ifc _ a c t e => [("fst", [a.id]), ("snd", (c.map fun x => [x.id]).getD []), ("thenc", sIds t), ("elsec", sIds e)]
  | .exit v => [("var", [v.id])]
def changed (s : Stmt) : List String := ((fieldsOf s).filter fun p => !p.2.isEmpty && p.2.all (· ≥ 100)).map (·.1)
def untouched (s : Stmt) : Bool := (fieldsOf s).all fun p => p.2.all (· ≥ 100) || p.2.all (· < 100)

def x (i : Nat) : Ident := ⟨"x", i⟩
def e (i : Nat) : Stmt := .exit (x i)
def cl (i : Nat) : Clauses := .cons ⟨"K", 0⟩ [b "p" 30] (e i) .nil
def sSample : String → Option Stmt
  | "Substitute" => some (.subst [(b "n" 1, x 2)] (e 3))
  | "Call" => some (.call ⟨"f", 0⟩ [b "a" 1])
  | "Let" => some (.letS (x 1) T ⟨"K", 0⟩ [b "a" 2] (e 3) (some [4]))
  | "Switch" => some (.switch (x 1) T (cl 2) (some [3]))
  | "Create" => some (.create (x 1) T (some [b "e" 2]) (cl 3) (e 4) (some [5]) (some [6]))
  | "Invoke" => some (.invoke (x 1) ⟨"m", 0⟩ T [b "a" 2])
  | "Literal" => some (.lit (x 1) 0 (e 2) (some [3]))
  | "Op" => some (.op (x 1) (x 2) .sum (x 3) (e 4) (some [5]))
  | "PrintI64" => some (.print true (x 1) (e 2) (some [3]))
  | "IfC" => some (.ifc .eq (x 1) (some (x 2)) (e 3) (e 4))
  | "Exit" => some (.exit (x 1))
  | _ => none

/-- the model's `subst_sim` on the sample of node `n` renames exactly the generated fields (a binder `var` is never renamed) -/
def sVisits (n : String) : Bool :=
  match sSample n with
  | none => false
  | some s => sameSet (changed (substStmt σ s)) (fields (row axSubst n)) && untouched (substStmt σ s)
      && (row axSubst n).all fun v => v.cond == "" && v.arg == "subst_sim(subst)" && v.how == (if v.field == "rearrange" then "rec_pairs" else "rec")

/-- clause.rs: only the body; the bound context is left alone -/
def sClauseOk : Bool :=
  match substClauses σ (cl 3) with
  | .cons _ ctx body _ => fields (row axSubst "Clause") == ["body"] && sIds body == [103] && ctx.ids == [30]
  | .nil => false

/-! ### Linearizing: clash sets and context comparisons, on samples with a duplicated variable -/

/-- which bindings of `new` are fresh (id above the old counter) -/
def freshPattern (maxId : Nat) (new : List Binding) : List Bool := new.map fun p => decide (p.var.id > maxId)
/-- specification of context.rs `freshen`: a binding gets a fresh name iff its id is in the clash set or occurred before -/
def specFresh : List Nat → List Nat → List Bool
  | [], _ => []
  | a :: r, seen => if seen.contains a then true :: specFresh r seen else false :: specFresh r (a :: seen)

def bx : Binding := b "x" 1
def by' : Binding := b "y" 2
/-- outcome of the model on a sample: the pairs of the explicit substitution put in front (`none`: no substitution) -/
def pairsOf : Except String (Stmt × Nat) → Option (Option (List (Binding × Ident)))
  | .ok (.subst pairs _, _) => some (some pairs)
  | .ok (_, _) => some none
  | .error _ => none
def newOf (r : Except String (Stmt × Nat)) : List Binding :=
  match pairsOf r with
  | some (some pairs) => pairs.map (·.1)
  | _ => []

/-- samples: (statement, context it is linearized in), all with max_id = 50.
  Invoke: `invoke x m(x)` in [x];  Call: `call f(x, x)` in [x];  Let: `let v = K(x); exit x` in [x];
  Create: `create v = { K() => exit x }; exit x` in [x];  Switch: `switch x { K() => exit x }` in [x] -/
def lSample : String → Option (Stmt × Ctx)
  | "Invoke" => some (.invoke ⟨"x", 1⟩ ⟨"m", 0⟩ T [bx], [bx])
  | "Call" => some (.call ⟨"f", 0⟩ [bx, bx], [bx])
  | "Let" => some ((freeVars (.letS ⟨"v", 9⟩ T ⟨"K", 0⟩ [bx] (.exit ⟨"x", 1⟩) none)).1, [bx])
  | "Create" => some ((freeVars (.create ⟨"v", 9⟩ T none (.cons ⟨"K", 0⟩ [] (.exit ⟨"x", 1⟩) .nil) (.exit ⟨"x", 1⟩) none none)).1, [bx])
  | "Switch" => some ((freeVars (.switch ⟨"x", 1⟩ T (.cons ⟨"K", 0⟩ [] (.exit ⟨"x", 1⟩) .nil) none)).1, [bx])
  | _ => none
def lRun (n : String) : Option (Except String (Stmt × Nat)) := (lSample n).map fun p => linearize 10 p.1 p.2 50

/-- meaning of the expressions of the Rust bodies on the samples: id lists -/
def idsSem (n : String) : String → Option (List Nat)
  | "HashSet::new()" => some []
  | "HashSet::from([self.var.id])" => if n == "Invoke" then some [1] else none
  | "new_context.ids_set()" => if n == "Let" then some [1] else none              -- filter_by_set([x], {x})
  | "context_clauses.ids_set()" => if n == "Create" then some [1] else none       -- closure environment [x]
  | "args" => if n == "Invoke" then some [1] else if n == "Call" then some [1, 1] else none
  | "self.args" => if n == "Let" then some [1] else none
  | "context_next" => if n == "Create" then some [1] else none
  | _ => none
/-- the part of the substitution's left-hand sides that came out of `freshen` -/
def freshenedPart (n : String) (new : List Binding) : List Binding :=
  if n == "Invoke" then new.dropLast          -- args, then the closure
  else if n == "Let" then new.drop 1           -- new_context = [x], then the arguments
  else if n == "Create" then new.take 1        -- context_next = [x], then the closure environment
  else new

/-- the bindings the model freshens on the sample are those `freshen` yields for the GENERATED receiver and clash set -/
def clashOk (n : String) : Bool :=
  match lRun n, (axLinearizeFreshen.filter (·.1 == n)) with
  | some r, [(_, recv, clash, _)] =>
    match idsSem n recv, idsSem n clash with
    | some ids, some cl => freshPattern 50 (freshenedPart n (newOf r)) == specFresh ids cl && !(newOf r).isEmpty
    | _, _ => false
  | _, _ => false

/-- switch.rs: the scrutinee gets a fresh name iff the generated condition holds (it does on the sample) -/
def switchFreshOk : Bool :=
  match lRun "Switch" with
  | some r => (axLinearizeFreshen.filter (·.1 == "Switch")) == [("Switch", "self.var", "new_context.ids_set().contains(&self.var.id)", "fresh_identifier")]
      && freshPattern 50 (newOf r) == [false, true]
  | none => false

/-- meaning of the rows of `axLinearizeExpected` on the samples `invoke z m(x, y)` / `call f(x, y)` / `let v = K(y); exit x` /
`switch z { K() => exit x }` / `create v = { K() => exit y }; exit x` / `lit`, `op`, `print` followed by `exit x` -/
def ctxSem (n : String) : String → Option Ctx
  | "std::mem::take(&mut self.args.bindings).into()" => some [bx, by']
  | "args.clone()" => some [bx, by']
  | ".bindings.push(closure_binding.clone())" => some [⟨⟨"z", 3⟩, .cns, T⟩]
  | ".bindings.push(xtor_binding)" => some [⟨⟨"z", 3⟩, .prd, T⟩]
  | "new_context.clone()" => if n == "Literal" || n == "PrintI64" || n == "Let" || n == "Switch" then some [bx] else if n == "Op" then some [bx] else none
  | ".bindings.extend(self.args.bindings.clone())" => some [by']
  | "context_next.clone()" => some [bx]
  | ".bindings.extend(context_clauses.bindings.clone())" => some [by']
  | _ => none
def expectedCtx (n : String) : Option Ctx :=
  ((axLinearizeExpected.lookup n).getD []).foldl (fun acc r => acc.bind fun a => (ctxSem n r).map fun c => a ++ c) (some [])

def tSample : String → Option Stmt
  | "Invoke" => some (.invoke ⟨"z", 3⟩ ⟨"m", 0⟩ T [bx, by'])
  | "Call" => some (.call ⟨"f", 0⟩ [bx, by'])
  | "Let" => some (freeVars (.letS ⟨"v", 9⟩ T ⟨"K", 0⟩ [by'] (.exit ⟨"x", 1⟩) none)).1
  | "Switch" => some (freeVars (.switch ⟨"z", 3⟩ T (.cons ⟨"K", 0⟩ [] (.exit ⟨"x", 1⟩) .nil) none)).1
  | "Create" => some (freeVars (.create ⟨"v", 9⟩ T none (.cons ⟨"K", 0⟩ [] (.exit ⟨"y", 2⟩) .nil) (.exit ⟨"x", 1⟩) none none)).1
  | "Literal" => some (freeVars (.lit ⟨"v", 9⟩ 0 (.exit ⟨"x", 1⟩) none)).1
  | "Op" => some (freeVars (.op ⟨"v", 9⟩ ⟨"x", 1⟩ .sum ⟨"x", 1⟩ (.exit ⟨"x", 1⟩) none)).1
  | "PrintI64" => some (freeVars (.print true ⟨"x", 1⟩ (.exit ⟨"x", 1⟩) none)).1
  | _ => none

/-- in the context put together as the GENERATED rows say, the model inserts no substitution; with one more binding in
front it does -/
def testOk (n : String) : Bool :=
  match tSample n, expectedCtx n with
  | some s, some Γ => pairsOf (linearize 10 s Γ 50) == some none && (pairsOf (linearize 10 s (b "u" 8 :: Γ) 50)).bind id != none
      && !Γ.isEmpty
  | _, _ => false

end AxT
end Scc.Traversals

namespace Scc.Props
open Scc.Generated Scc.Traversals

/-! ## C02: UsedBinders -/

theorem Tr_fun_used_binders_nodes : names funUsedBinders =
    ["Op", "IfC", "PrintI64", "Let", "Call", "Constructor", "Destructor", "Case", "New", "Goto", "Label", "Exit", "Paren", "Clause"] := by decide
theorem Tr_fun_used_binders_op : FunUB.visits "Op" = true := by decide
theorem Tr_fun_used_binders_ifc : FunUB.visits "IfC" = true := by decide
theorem Tr_fun_used_binders_ifz :
    sameSet (Fun2Core.usedBinders (.ifz .eq (FunUB.mT "fst") (FunUB.mT "thenc") (FunUB.mT "elsec") none) [])
      ((fields (row funUsedBinders "IfC")).filter (· != "snd")) = true := by decide
theorem Tr_fun_used_binders_print : FunUB.visits "PrintI64" = true := by decide
theorem Tr_fun_used_binders_let : FunUB.visits "Let" = true := by decide
theorem Tr_fun_used_binders_call : FunUB.visits "Call" = true := by decide
theorem Tr_fun_used_binders_constructor : FunUB.visits "Constructor" = true := by decide
theorem Tr_fun_used_binders_destructor : FunUB.visits "Destructor" = true := by decide
theorem Tr_fun_used_binders_case : FunUB.visits "Case" = true := by decide
theorem Tr_fun_used_binders_new : FunUB.visits "New" = true := by decide
theorem Tr_fun_used_binders_goto : FunUB.visits "Goto" = true := by decide
theorem Tr_fun_used_binders_label : FunUB.visits "Label" = true := by decide
theorem Tr_fun_used_binders_exit : FunUB.visits "Exit" = true := by decide
theorem Tr_fun_used_binders_paren : FunUB.visits "Paren" = true := by decide
/-- clause.rs: the names bound by the pattern, then the body -/
theorem Tr_fun_used_binders_clause :
    sameSet (Fun2Core.usedBindersClauses (.cons .data "K" ["context_names.bindings"] [] (FunUB.mT "body") .nil) [])
      (fields (row funUsedBinders "Clause")) = true := by decide
theorem Tr_fun_used_binders_hows : (names funUsedBinders).all FunUB.howsOk = true := by decide
/-- mod.rs: variables and literals are skipped (so does the model), every other variant delegates to a node of the table -/
theorem Tr_fun_used_binders_dispatch :
    (funUsedBindersDispatch.filter (·.2 != "rec")) = [("XVar", "skip"), ("Lit", "skip")]
    ∧ delegated funUsedBindersDispatch = (names funUsedBinders).filter (· != "Clause")
    ∧ Fun2Core.usedBinders (.var "x" none none) [] = [] ∧ Fun2Core.usedBinders (.lit 1) [] = [] := by decide
/-- used_binders.rs: Vec = every element in order, Rc = the content, Option = the content if any -/
theorem Tr_fun_used_binders_containers : funUsedBindersContainers =
    [("Vec", "for element in self { element.used_binders(used); }"), ("Rc", "(**self).used_binders(used);"),
     ("Option", "match self { None => {} Some(t) => t.used_binders(used)}")] := by rfl

/-! ## C03: Uniquify, Subst, Bind / Focusing, fresh_identifier of Core -/

theorem Tr_core_uniquify_nodes : names coreUniquify = ["Op", "Xtor", "XCase", "Cut", "IfC", "PrintI64", "Call", "Exit", "Arguments"]
    ∧ names coreSubst = names coreUniquify := by decide
theorem Tr_core_uniquify_op : CoreT.uVisits "Op" = true := by decide +kernel
theorem Tr_core_uniquify_xtor : CoreT.uVisits "Xtor" = true := by decide +kernel
theorem Tr_core_uniquify_xcase : CoreT.uVisits "XCase" = true := by decide +kernel
theorem Tr_core_uniquify_cut : CoreT.uVisits "Cut" = true := by decide +kernel
theorem Tr_core_uniquify_ifc : CoreT.uVisits "IfC" = true := by decide +kernel
theorem Tr_core_uniquify_ifz : CoreT.uIfz = (fields (row coreUniquify "IfC")).filter (· != "snd") := by decide +kernel
theorem Tr_core_uniquify_print : CoreT.uVisits "PrintI64" = true := by decide +kernel
theorem Tr_core_uniquify_call : CoreT.uVisits "Call" = true := by decide +kernel
theorem Tr_core_uniquify_exit : CoreT.uVisits "Exit" = true := by decide +kernel
theorem Tr_core_uniquify_arguments : CoreT.uVisits "Arguments" = true := by decide +kernel
theorem Tr_core_uniquify_dispatch :
    coreUniquifyTermDispatch = [("Op", "rec"), ("Mu", "rec"), ("Xtor", "rec"), ("XCase", "rec"), ("_", "skip")]
    ∧ delegated coreUniquifyStatementDispatch = ["Cut", "IfC", "PrintI64", "Call", "Exit"]
    ∧ coreUniquifyStatementDispatch.length = 5 := by decide
theorem Tr_core_uniquify_containers : coreUniquifyContainers =
    [("Rc", "Rc::new(Rc::unwrap_or_clone(self).uniquify(max_id))"), ("Option", "self.map(|t| t.uniquify(max_id))"),
     ("Vec", "self.into_iter().map(|element| element.uniquify(max_id)).collect()")] := by rfl

theorem Tr_core_subst_op : CoreT.sVisits "Op" = true := by decide
theorem Tr_core_subst_xtor : CoreT.sVisits "Xtor" = true := by decide
theorem Tr_core_subst_xcase : CoreT.sVisits "XCase" = true := by decide
theorem Tr_core_subst_cut : CoreT.sVisits "Cut" = true := by decide
theorem Tr_core_subst_ifc : CoreT.sVisits "IfC" = true := by decide
theorem Tr_core_subst_ifz :
    sameSet (CoreT.replaced (CoreT.vS' (Core.substStmt CoreT.σ [] (.ifz .eq (CoreT.v "fst") (CoreT.vS "thenc") (CoreT.vS "elsec")))))
      ((fields (row coreSubst "IfC")).filter (· != "snd")) = true := by decide
theorem Tr_core_subst_print : CoreT.sVisits "PrintI64" = true := by decide
theorem Tr_core_subst_call : CoreT.sVisits "Call" = true := by decide
theorem Tr_core_subst_exit : CoreT.sVisits "Exit" = true := by decide
theorem Tr_core_subst_arguments : CoreT.sVisits "Arguments" = true := by decide
theorem Tr_core_subst_dispatch :
    coreSubstTermPrdDispatch = [("XVar", "rec"), ("Literal", "skip"), ("Op", "rec"), ("Mu", "rec"), ("Xtor", "rec"), ("XCase", "rec")]
    ∧ coreSubstTermCnsDispatch = [("XVar", "rec"), ("Literal", "panic"), ("Op", "panic"), ("Mu", "rec"), ("Xtor", "rec"), ("XCase", "rec")]
    ∧ delegated coreSubstStatementDispatch = ["Cut", "IfC", "PrintI64", "Call", "Exit"]
    ∧ coreSubstStatementDispatch.length = 5 := by decide
theorem Tr_core_subst_containers : coreSubstContainers =
    [("Rc", "Rc::new(Rc::unwrap_or_clone(self).subst_sim(prod_subst, cons_subst))"), ("Option", "self.map(|t| t.subst_sim(prod_subst, cons_subst))"),
     ("Vec", "self.into_iter().map(|element| element.subst_sim(prod_subst, cons_subst)).collect()")] := by rfl

/-- mu.rs / clause.rs / xvar.rs: the bodies that treat binders, statement by statement, as transcribed by
`uniquifyTerm` (.mu), `uniquifyCtx` + `substIfAny` + `uniquifyClauses`, `substRemove`, `substRemoveCtx`, `substFind` -/
theorem Tr_core_binder_forms : coreBinderForms = [
  ("Uniquify/Mu", [
    ⟨"self.variable.id == 0", "let", "new_variable", "fresh_identifier(max_id, &self.variable.name)"⟩,
    ⟨"self.variable.id == 0", "let", "old_variable", "self.variable"⟩,
    ⟨"self.variable.id == 0", "set", "self.variable", "new_variable"⟩,
    ⟨"self.variable.id == 0 & self.prdcns.is_prd()", "set", "self.statement",
      "self.statement.subst_covar(old_variable, XVar::covar(self.variable.clone(), self.ty.clone()).into()).uniquify(max_id)"⟩,
    ⟨"self.variable.id == 0 & !(self.prdcns.is_prd())", "set", "self.statement",
      "self.statement.subst_var(old_variable, XVar::var(self.variable.clone(), self.ty.clone()).into()).uniquify(max_id)"⟩,
    ⟨"!(self.variable.id == 0)", "set", "self.statement", "self.statement.uniquify(max_id)"⟩,
    ⟨"", "ret", "", "self"⟩]),
  ("Subst/Mu", [
    ⟨"", "let", "prod_subst_reduced", "Vec::new()"⟩, ⟨"", "let", "cons_subst_reduced", "Vec::new()"⟩,
    ⟨"for subst in prod_subst & subst.0 != self.variable", "do", "", "prod_subst_reduced.push(subst.clone())"⟩,
    ⟨"for subst in cons_subst & subst.0 != self.variable", "do", "", "cons_subst_reduced.push(subst.clone())"⟩,
    ⟨"", "set", "self.statement", "self.statement.subst_sim(prod_subst_reduced.as_slice(), cons_subst_reduced.as_slice())"⟩,
    ⟨"", "ret", "", "self"⟩]),
  ("Uniquify/Clause", [
    ⟨"", "let", "new_context", "TypingContext::default()"⟩, ⟨"", "let", "var_subst", "Vec::new()"⟩, ⟨"", "let", "covar_subst", "Vec::new()"⟩,
    ⟨"for binding in self.context.bindings & binding.var.id == 0", "let", "new_var", "fresh_identifier(max_id, &binding.var.name)"⟩,
    ⟨"for binding in self.context.bindings & binding.var.id == 0", "do", "",
      "new_context.bindings.push(ContextBinding { var: new_var.clone(), chi: binding.chi.clone(), ty: binding.ty.clone()})"⟩,
    ⟨"for binding in self.context.bindings & binding.var.id == 0 & binding.chi == Chirality::Prd", "do", "",
      "var_subst.push((binding.var, XVar { prdcns: Prd, var: new_var, ty: binding.ty}.into()))"⟩,
    ⟨"for binding in self.context.bindings & binding.var.id == 0 & !(binding.chi == Chirality::Prd)", "do", "",
      "covar_subst.push((binding.var, XVar { prdcns: Cns, var: new_var, ty: binding.ty}.into()))"⟩,
    ⟨"for binding in self.context.bindings & !(binding.var.id == 0)", "do", "", "new_context.bindings.push(binding)"⟩,
    ⟨"", "set", "self.context", "new_context"⟩,
    ⟨"var_subst.is_empty() && covar_subst.is_empty()", "set", "self.body", "self.body.uniquify(max_id)"⟩,
    ⟨"!(var_subst.is_empty() && covar_subst.is_empty())", "set", "self.body", "self.body.subst_sim(&var_subst, &covar_subst).uniquify(max_id)"⟩,
    ⟨"", "ret", "", "self"⟩]),
  ("Subst/Clause", [
    ⟨"", "let", "prod_subst_reduced", "Vec::new()"⟩, ⟨"", "let", "cons_subst_reduced", "Vec::new()"⟩,
    ⟨"for subst in prod_subst & !self.context.vars().contains(&subst.0)", "do", "", "prod_subst_reduced.push(subst.clone())"⟩,
    ⟨"for subst in cons_subst & !self.context.vars().contains(&subst.0)", "do", "", "cons_subst_reduced.push(subst.clone())"⟩,
    ⟨"", "set", "self.body", "self.body.subst_sim(prod_subst_reduced.as_slice(), cons_subst_reduced.as_slice())"⟩,
    ⟨"", "ret", "", "self"⟩]),
  ("Subst/XVar<Prd>", [
    ⟨"prod_subst.iter().find(|(var, _)| *var == self.var) is None", "ret", "", "self.into()"⟩,
    ⟨"prod_subst.iter().find(|(var, _)| *var == self.var) is Some((_, p))", "ret", "", "p.clone()"⟩]),
  ("Subst/XVar<Cns>", [
    ⟨"cons_subst.iter().find(|(covar, _)| *covar == self.var) is None", "ret", "", "self.into()"⟩,
    ⟨"cons_subst.iter().find(|(covar, _)| *covar == self.var) is Some((_, p))", "ret", "", "p.clone()"⟩])] := by rfl

open Scc.Core in
/-- what the model does with these bodies: a μ with id 0 gets the next id and ONLY the occurrences of the opposite
chirality are renamed (prd: subst_covar, cns: subst_var); a non-zero id is kept; substitution stops under a binder of
the same identifier (Mu: `subst.0 != self.variable`, Clause: `!context.vars().contains(..)`), first match wins -/
theorem Tr_core_binder_forms_model :
    let body : Stmt := .cut .i64 (.var .prd ⟨"a", 0⟩ .i64) (.var .cns ⟨"a", 0⟩ .i64)
    let obs (r : Term × Nat) := (CoreT.bT r.1, CoreT.vT r.1, r.2)
    obs (uniquifyTerm (.mu .prd ⟨"a", 0⟩ .i64 body) 4) = ([⟨"a", 5⟩], [⟨"a", 0⟩, ⟨"a", 5⟩], 5)
    ∧ obs (uniquifyTerm (.mu .cns ⟨"a", 0⟩ .i64 body) 4) = ([⟨"a", 5⟩], [⟨"a", 5⟩, ⟨"a", 0⟩], 5)
    ∧ obs (uniquifyTerm (.mu .prd ⟨"a", 3⟩ .i64 body) 4) = ([⟨"a", 3⟩], [⟨"a", 0⟩, ⟨"a", 0⟩], 4)
    ∧ (let r := uniquifyClauses (.cons ⟨"K", 0⟩ [⟨⟨"x", 0⟩, .prd, .i64⟩, ⟨⟨"y", 2⟩, .prd, .i64⟩, ⟨⟨"a", 0⟩, .cns, .i64⟩]
          (.cut .i64 (.var .prd ⟨"x", 0⟩ .i64) (.var .cns ⟨"a", 0⟩ .i64)) .nil) 4
       (CoreT.bC r.1, CoreT.vC r.1, r.2) = ([⟨"x", 5⟩, ⟨"y", 2⟩, ⟨"a", 6⟩], [⟨"x", 5⟩, ⟨"a", 6⟩], 6))
    ∧ CoreT.vT (substTerm [(⟨"x", 0⟩, .var .prd ⟨"x", 1⟩ .i64), (⟨"y", 0⟩, .var .prd ⟨"y", 2⟩ .i64), (⟨"y", 0⟩, .var .prd ⟨"y", 3⟩ .i64)] []
        (.mu .prd ⟨"x", 0⟩ .i64 (.cut .i64 (.op (.var .prd ⟨"x", 0⟩ .i64) .sum (.var .prd ⟨"y", 0⟩ .i64)) (.var .cns ⟨"x", 0⟩ .i64))))
      = [⟨"x", 0⟩, ⟨"y", 2⟩, ⟨"x", 0⟩]
    ∧ CoreT.vC (substClauses [(⟨"x", 0⟩, .var .prd ⟨"x", 1⟩ .i64), (⟨"y", 0⟩, .var .prd ⟨"y", 2⟩ .i64), (⟨"z", 0⟩, .var .prd ⟨"z", 3⟩ .i64)] []
        (.cons ⟨"K", 0⟩ [⟨⟨"y", 0⟩, .prd, .i64⟩]
          (.cut .i64 (.op (.var .prd ⟨"x", 0⟩ .i64) .sum (.op (.var .prd ⟨"y", 0⟩ .i64) .sum (.var .prd ⟨"z", 0⟩ .i64))) CoreT.k) .nil))
      = [⟨"x", 1⟩, ⟨"y", 0⟩, ⟨"z", 3⟩, ⟨"k", 7⟩] := by
  decide +kernel

theorem Tr_core_bind_op_order : CoreT.orderOk "Bind/Op" = true := by decide
theorem Tr_core_bind_op_wiring : CoreT.wiringOk "Bind/Op" = true := by decide
theorem Tr_core_focus_ifc_order : CoreT.orderOk "Focusing/IfC" = true := by decide
theorem Tr_core_focus_ifc_wiring : CoreT.wiringOk "Focusing/IfC" = true := by decide
theorem Tr_core_focus_cut_op_order : CoreT.orderOk "Focusing/Cut(Op)" = true := by decide
theorem Tr_core_focus_cut_op_wiring : CoreT.wiringOk "Focusing/Cut(Op)" = true := by decide

/-- core_lang names.rs: `*max_id += 1` comes first, the identifier carries the NEW value -/
theorem Tr_core_fresh_identifier :
    coreFreshIdentifier = (if (Core.freshIdentifier 5 "x") = (⟨"x", 6⟩, 6) then "increment_then_use"
      else if (Core.freshIdentifier 5 "x") = (⟨"x", 5⟩, 6) then "use_then_increment" else "?") := by decide

/-! ## C05: FreeVars, Subst, Linearizing, fresh_identifier of AxCut -/

theorem Tr_ax_free_vars_nodes : names axFreeVars =
    ["Substitute", "Call", "Let", "Switch", "Create", "Invoke", "Literal", "Op", "PrintI64", "IfC", "Exit", "Clause"]
    ∧ names axSubst = names axFreeVars := by decide
theorem Tr_ax_free_vars_substitute : AxT.fvOk "Substitute" = true := by decide
theorem Tr_ax_free_vars_call : AxT.fvOk "Call" = true := by decide
theorem Tr_ax_free_vars_let : AxT.fvOk "Let" = true := by decide
theorem Tr_ax_free_vars_switch : AxT.fvOk "Switch" = true := by decide
theorem Tr_ax_free_vars_create : AxT.fvOk "Create" = true := by decide
theorem Tr_ax_free_vars_invoke : AxT.fvOk "Invoke" = true := by decide
theorem Tr_ax_free_vars_literal : AxT.fvOk "Literal" = true := by decide
theorem Tr_ax_free_vars_op : AxT.fvOk "Op" = true := by decide
theorem Tr_ax_free_vars_print : AxT.fvOk "PrintI64" = true := by decide
theorem Tr_ax_free_vars_ifc : AxT.fvOk "IfC" = true := by decide
theorem Tr_ax_free_vars_ifz : AxT.fvIfzOk = true := by decide
theorem Tr_ax_free_vars_exit : AxT.fvOk "Exit" = true := by decide
theorem Tr_ax_free_vars_clause : AxT.fvClauseOk = true := by decide
theorem Tr_ax_free_vars_dispatch :
    delegated axFreeVarsDispatch = (names axFreeVars).filter (· != "Clause") ∧ axFreeVarsDispatch.length = 11 := by decide
/-- free_vars.rs: Vec = a fresh set per element, united into `vars` (the model: `freeVarsClauses`) -/
theorem Tr_ax_free_vars_containers : axFreeVarsContainers =
    [("Rc", "Rc::new(Rc::unwrap_or_clone(self).free_vars(vars))"),
     ("Vec", "self.into_iter().map(|element| { let mut free_vars = HashSet::new(); let element = element.free_vars(&mut free_vars); vars.extend(free_vars); element }).collect()")] := by rfl

theorem Tr_ax_subst_substitute : AxT.sVisits "Substitute" = true := by decide
theorem Tr_ax_subst_call : AxT.sVisits "Call" = true := by decide
theorem Tr_ax_subst_let : AxT.sVisits "Let" = true := by decide
theorem Tr_ax_subst_switch : AxT.sVisits "Switch" = true := by decide
theorem Tr_ax_subst_create : AxT.sVisits "Create" = true := by decide
theorem Tr_ax_subst_invoke : AxT.sVisits "Invoke" = true := by decide
theorem Tr_ax_subst_literal : AxT.sVisits "Literal" = true := by decide
theorem Tr_ax_subst_op : AxT.sVisits "Op" = true := by decide
theorem Tr_ax_subst_print : AxT.sVisits "PrintI64" = true := by decide
theorem Tr_ax_subst_ifc : AxT.sVisits "IfC" = true := by decide
theorem Tr_ax_subst_exit : AxT.sVisits "Exit" = true := by decide
theorem Tr_ax_subst_clause : AxT.sClauseOk = true := by decide
theorem Tr_ax_subst_dispatch :
    delegated axSubstDispatch = (names axSubst).filter (· != "Clause") ∧ axSubstDispatch.length = 11 := by decide
/-- context.rs: a binding renames its variable, a context all its bindings (the model: `substBinding`, `substCtx`) -/
theorem Tr_ax_subst_context :
    axSubstContext = [("ContextBinding", [⟨"", "rec", "var", "subst_sim(subst)"⟩]), ("TypingContext", [⟨"", "rec", "bindings", "subst_sim(subst)"⟩])]
    ∧ (AxCut.substCtx AxT.σ [AxT.b "a" 1, AxT.b "b" 2]).ids = [101, 102] := by decide

theorem Tr_ax_linearize_dispatch : axLinearizeDispatch =
    [("Substitute", "panic"), ("Call", "rec"), ("Let", "rec"), ("Switch", "rec"), ("Create", "rec"), ("Invoke", "rec"),
     ("Literal", "rec"), ("Op", "rec"), ("PrintI64", "rec"), ("IfC", "rec"), ("Exit", "skip")] := by decide
/-- the nodes that call `freshen` / `fresh_identifier`, once each -/
theorem Tr_ax_linearize_freshen_nodes : axLinearizeFreshen.map (·.1) = ["Call", "Let", "Switch", "Create", "Invoke"] := by decide
theorem Tr_ax_linearize_invoke_clash : AxT.clashOk "Invoke" = true := by decide
theorem Tr_ax_linearize_call_clash : AxT.clashOk "Call" = true := by decide
theorem Tr_ax_linearize_let_clash : AxT.clashOk "Let" = true := by decide
theorem Tr_ax_linearize_create_clash : AxT.clashOk "Create" = true := by decide
theorem Tr_ax_linearize_switch_fresh : AxT.switchFreshOk = true := by decide
/-- one comparison of the incoming context per node, against the context put together as in `axLinearizeExpected` -/
theorem Tr_ax_linearize_test_shape : axLinearizeTest =
    [("Call", "context == args"), ("Let", "context == context_rearrange"), ("Switch", "context == context_rearrange"),
     ("Create", "context_clone == context_rearrange"), ("Invoke", "context == context_rearrange"), ("Literal", "context == context_rearrange"),
     ("Op", "context == context_rearrange"), ("PrintI64", "context == context_rearrange")]
    ∧ axLinearizeConds = [("Call", ["context == args"]), ("Let", ["context == context_rearrange"]),
     ("Switch", ["context == context_rearrange", "new_context.ids_set().contains(&self.var.id)"]), ("Create", ["context_clone == context_rearrange"]),
     ("Invoke", ["context == context_rearrange"]), ("Literal", ["context == context_rearrange"]), ("Op", ["context == context_rearrange"]),
     ("PrintI64", ["context == context_rearrange"]), ("IfC", [])] := by decide
theorem Tr_ax_linearize_invoke_test : AxT.testOk "Invoke" = true := by decide
theorem Tr_ax_linearize_call_test : AxT.testOk "Call" = true := by decide
theorem Tr_ax_linearize_let_test : AxT.testOk "Let" = true := by decide
theorem Tr_ax_linearize_switch_test : AxT.testOk "Switch" = true := by decide
theorem Tr_ax_linearize_create_test : AxT.testOk "Create" = true := by decide
theorem Tr_ax_linearize_literal_test : AxT.testOk "Literal" = true := by decide
theorem Tr_ax_linearize_op_test : AxT.testOk "Op" = true := by decide
theorem Tr_ax_linearize_print_test : AxT.testOk "PrintI64" = true := by decide
/-- the contexts handed to the recursive calls, as transcribed in `Scc.AxCut.linearize` / `linearizeClauses` -/
theorem Tr_ax_linearize_rec : axLinearizeRec = [
  ("Call", []),
  ("Let", [⟨"context == context_rearrange", "rec", "next", "new_context"⟩, ⟨"!(context == context_rearrange)", "rec", "next", "new_context"⟩]),
  ("Switch", [⟨"", "rec_each", "clauses", "new_context ++ clause.context.bindings"⟩]),
  ("Create", [⟨"", "rec_each", "clauses", "clause.context ++ context_clauses.bindings"⟩,
    ⟨"context_clone == context_rearrange", "rec", "next", "context_next"⟩,
    ⟨"!(context_clone == context_rearrange)", "rec", "next", "context_next_freshened"⟩]),
  ("Invoke", []),
  ("Literal", [⟨"", "rec", "next", "new_context"⟩]),
  ("Op", [⟨"", "rec", "next", "new_context"⟩]),
  ("PrintI64", [⟨"", "rec", "next", "new_context"⟩]),
  ("IfC", [⟨"", "rec", "thenc", "context.clone()"⟩, ⟨"", "rec", "elsec", "context"⟩])] := by rfl

/-- axcut names.rs: `*max_id += 1` comes first, the identifier carries the NEW value -/
theorem Tr_ax_fresh_identifier :
    axFreshIdentifier = (if (AxCut.freshIdentifier 5 "x") = (⟨"x", 6⟩, 6) then "increment_then_use"
      else if (AxCut.freshIdentifier 5 "x") = (⟨"x", 5⟩, 6) then "use_then_increment" else "?") := by decide

end Scc.Props

#print axioms Scc.Props.Tr_fun_used_binders_destructor
#print axioms Scc.Props.Tr_core_uniquify_ifc
#print axioms Scc.Props.Tr_core_binder_forms_model
#print axioms Scc.Props.Tr_core_bind_op_order
#print axioms Scc.Props.Tr_ax_free_vars_ifc
#print axioms Scc.Props.Tr_ax_linearize_invoke_clash
#print axioms Scc.Props.Tr_ax_fresh_identifier
