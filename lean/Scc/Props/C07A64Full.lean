/-
  Scc.Props.C07A64Full — property C07 (AArch64 code generation preserves AxCut semantics): THEOREM A ∘
  THEOREM B on the PRINTED TEXT of the emitted routine, with the side hypotheses of `C07_data_programs_text`
  (Props/C07A64Heap.lean) DISCHARGED.  The AArch64 analogue of Props/C06X86Full.lean.

  (A) CLOSURES.  The three-way simulation (AxCut positional machine ⟷ abstract backend machine ⟷ AArch64
  machine) is extended to `create` and `invoke`:
    * `C07_create_a64` (`Ref.K.create_x3`), `C07_invoke_a64` (`Ref.K.invoke_x3`);
    * `C07_step_a64_all` (`Ref.K.step3`): the three-way step for all eleven statement forms;
    * `C07_programs` (`Ref.K.programs_holds`): the run theorem on the program laid out from lines that are
      the routine, no `DataProg`; `C07_programs_text`: on `A64.run` of the PRINTED TEXT, side hypotheses
      discharged; `C07_statement_checked_holds`: in the shape of `C07_statement` (Props/C07A64.lean).
  The word part of a closure is a CODE ADDRESS: the address of the method table in the mock code on the
  abstract machine, the BYTE ADDRESS of the method table in the routine on AArch64 (`Ref.K.addrOf`:
  `codeBase + 4 ·` the number of instructions before the label — what `ADR reg, label` computes,
  `Ref.K.label_addr`).  The two generators draw different label numbers, so the two addresses are related
  PER INSTANCE of a closure (Scc/A64/RefClosDefs.lean): `κ id j` is the machine word of the closure in field
  `j` of object `id`, the machine state holds the word of a closure in a variable, and the closure invariant
  `XC` says of every closure inside every value of the environment that the mock methods stand at its
  abstract word and the AArch64 methods at its machine word, generated FOR THE SAME environment context.
  `invoke` through a table is `ADD reg, reg, #4·tag; BR reg` into the table of `B method` (stride 4 =
  `jump_length`, `TableAt`); `invoke` of a single-method closure is `BR reg` to the address of the method
  label: the machine enters the program at the ENTRY of that address (Machine.lean `layout`: the item of the
  last label before the first instruction behind it — `Ref.K.fold_entry_label`, proved for the loader), so
  `#ctx` hooks between the method label and that label are skipped; the relation is kept at the statement
  boundary and the machine is ahead by hooks only (`Ref.K.Tol`, `tol_run`).
  The closure-aware proofs live in Scc/A64/RefClosH*.lean + RefClos*.lean, namespace `Scc.A64.Ref.K`: a FORK
  of Scc/A64/RefHeap*.lean (relation `X3` with the extra argument `κ`, frame exports `KeepPos`, `SubstProv`,
  `LetProv`, `LoadProv`); the originals are unchanged because Props/C07A64Heap.lean is built on them.

  (B) SIDE HYPOTHESES.
  `C07_a64Checks : AxCut.Prog → Bool` collects what is genuinely per-program:
    * `capCheck`    every context has at most 140 variables (static bound `2·progCap p ≤ 280`, the capacity
                    of utils.rs temporary_from_position for both temporaries of every variable);
    * `sizeCheck`   `10·(1 + longest context)·nodes < 2^64` (the mock code fits the address space);
    * `C14A_inRangeB`  at most 1024 xtors per type, at most 4096 pairs per substitution (loader);
    * `C14A_namesTextSafe` the names of the program consist of symbol characters of the loader;
    * `entryIntB`   the parameters of the first definition are integers (`main` is called with integers).
  Everything else is PROVED from them, `LabelSafe p`, `LinTypedProg p` and the success of the code generator:
    * the mock code generator succeeds (`mock_compile_ok`, Scc/A64/RefMockTotal.lean);
    * its code fits the address space (`codeFits_of_size`, Scc/A64/RefSide.lean);
    * every context of every reachable state has at most 140 variables (`cap280_of_check`);
    * `fuel + 1 < 2^64` (from the heap bound and `CfgCC`);
    * the labels of the emitted routine are pairwise distinct (`labels_unique_a64`,
      Scc/A64/RefSideLabels.lean: the AArch64 analogue of `C14Generic.labels_unique`, the labels drawn
      inside the memory methods included — Scc/A64/RefSideLabMem.lean);
    * the text loads (`C14A_routine_lines`).
  What remains a hypothesis is about the machine CONFIGURATION, not the program: `CfgCC cfg.mem`,
  `heapBase % 8 = 0`, `0 < heapBase`, enough heap, the monitors `heap`/`wf` off, and the routine ends below
  2^64 (`codeBase + 4 · ninstr routine < 2^64`; `CfgCC` says nothing about the code region).
  RESULT (B): `C07_data_programs_text_checked`; `C07_data_programs_statement_checked_holds` (the `def : Prop`
  `C07_data_programs_statement` of Props/C07A64Heap.lean with the reachability hypothesis replaced by the
  static check and the code region hypothesis added — the latter is NOT derivable: see the remark there).
-/
import Scc.A64.RefSide
import Scc.A64.RefSideLabels
import Scc.Props.C07A64Heap
import Scc.A64.RefClosHRun
import Scc.Props.C07A64

namespace Scc.A64
open Scc.AxCut Scc.AxCut.Pos Scc.Backend Scc.Backend.Abs Scc.Backend.Sim Scc.Backend.Sim2 Scc.A64.Ref
open Scc.Props.C14Generic (LabelSafe)
open Scc.Props.C06Generic (Reachable WithinCapacity CodeFits EnoughHeap)
open Scc.A64.CC (CfgCC cfgCC_default)

/-! ## the per-program checks -/

/-- the parameters of the first definition are integers -/
def entryIntB (p : AxCut.Prog) : Bool :=
  match p.defs.head? with
  | some d0 => d0.ctx.all fun b => decide (b.chi = .ext ∧ b.ty = .i64)
  | none => false

/-- THE DECIDABLE PER-PROGRAM HYPOTHESIS of the AArch64 run theorem -/
def C07_a64Checks (p : AxCut.Prog) : Bool :=
  capCheck p && sizeCheck p && C14A_inRangeB p && C14A_namesTextSafe p && entryIntB p

/-- what the checks give -/
structure ChecksFacts (p : AxCut.Prog) : Prop where
  cap : capCheck p = true
  size : sizeCheck p = true
  range : C14A_inRangeB p = true
  names : C14A_namesTextSafe p = true
  entry : ∃ d0, p.defs.head? = some d0 ∧ ∀ b ∈ d0.ctx, b.chi = .ext ∧ b.ty = .i64

theorem C07_checks_facts {p : AxCut.Prog} (h : C07_a64Checks p = true) : ChecksFacts p := by
  simp only [C07_a64Checks, Bool.and_eq_true] at h
  obtain ⟨⟨⟨⟨h1, h2⟩, h3⟩, h4⟩, h5⟩ := h
  refine ⟨h1, h2, h3, h4, ?_⟩
  unfold entryIntB at h5
  cases hd : p.defs.head? with
  | none => rw [hd] at h5; cases h5
  | some d0 =>
    rw [hd] at h5
    simp only [List.all_eq_true, decide_eq_true_eq] at h5
    exact ⟨d0, rfl, h5⟩

theorem mem_of_head? {p : AxCut.Prog} {d0 : Def} (hd : p.defs.head? = some d0) : d0 ∈ p.defs := by
  cases hdefs : p.defs with
  | nil => rw [hdefs] at hd; simp at hd
  | cons d ds => rw [hdefs] at hd; simp at hd; subst hd; simp

/-- the mock code fits the address space: the check `C07_mockFits` of Props/C07A64Heap.lean follows from the
static size check -/
theorem C07_mockFits_of_size {p : AxCut.Prog} (htp : LinTypedProg p) (h : sizeCheck p = true) (hooks : Bool) :
    C07_mockFits p hooks = true := by
  unfold C07_mockFits
  cases hM : (compile mockSym hooks p).run 0 with
  | error e => rfl
  | ok r =>
    obtain ⟨⟨ops, n⟩, c'⟩ := r
    have := codeFits_of_size htp h hM
    simpa [CodeFits] using this

/-! ## (B) programs with data types: the side hypotheses discharged -/

/-- THEOREM A ∘ THEOREM B FOR PROGRAMS WITH DATA TYPES ON THE PRINTED TEXT, side hypotheses discharged: for
a label-safe, linearly typed program without closures that passes the decidable checks `C07_a64Checks` and
that the AArch64 code generator compiles, every terminating run of the AxCut positional machine is
reproduced — same trace, same result — by the AArch64 SPEC machine on the printed routine, in EVERY sane
machine configuration (`CfgCC`; heap base positive and 8-aligned; the routine ends below 2^64) whose heap
has `128 + 64·141·fuel` bytes. -/
theorem C07_data_programs_text_checked (p : AxCut.Prog) (args : List Word) (hooks : Bool)
    (body routine : List Code) (nargs : Nat)
    (hsafe : LabelSafe p = true) (htp : LinTypedProg p) (hdata : DataProg p) (hchk : C07_a64Checks p = true)
    (hcompX : compileProg a64Backend p hooks 0 = .ok (body, nargs, routine))
    (fuel : Nat) (out : List (Bool × Word)) (v : Word) (hrun : Pos.run p args fuel = ⟨out, .done v⟩)
    (cfg : MonCfg) (H : CfgCC cfg.mem) (hheap : cfg.heap = false) (hwf : cfg.wf = false)
    (hb8 : cfg.mem.heapBase % 8 = 0) (hb0 : 0 < cfg.mem.heapBase)
    (hbytes : 128 + 64 * 141 * fuel ≤ cfg.mem.heapBytes)
    (hfitX : cfg.mem.codeBase + 4 * ninstr routine < 2 ^ 64) :
    ∃ fuel', (run (printProg routine) args fuel' cfg).out = out ∧
      (run (printProg routine) args fuel' cfg).res = .done v := by
  obtain ⟨hcap, hsize, hrange, hnames, d0, hd, hentry⟩ := C07_checks_facts hchk
  exact C07_data_programs_text p args hooks body routine nargs d0 hsafe htp hdata
    (C07_mockFits_of_size htp hsize hooks) hcompX (labels_unique_a64 hsafe hcompX) hd hentry
    (cap280_of_check hcap (mem_of_head? hd) args) fuel out v hrun cfg H hheap hwf hb8 hb0 hbytes hfitX
    hrange hnames

/-- `C07_data_programs_statement` (Props/C07A64Heap.lean) AS PROVED.  Differences:
  (1) the hypothesis on all reachable states (`WithinCapacity`: the mock capacity) is replaced by the
      decidable `C07_a64Checks p` (140 variables per context, code size, loader bounds and names, integer
      parameters — the last three are hypotheses of `C07_data_programs_statement`, too);
  (2) the configuration hypothesis `codeBase + 4 · ninstr routine < 2^64` is added: `CfgCC` does not
      constrain the code region, and the jump through a table (`ADR; ADD; BR`) is proved for routines that
      do not wrap around the address space. -/
def C07_data_programs_statement_checked : Prop :=
  ∀ (p : AxCut.Prog) (args : List Word) (hooks : Bool) (body routine : List Code) (nargs : Nat),
    LabelSafe p = true → LinTypedProg p → DataProg p → C07_a64Checks p = true →
    compileProg a64Backend p hooks 0 = .ok (body, nargs, routine) →
    ∀ (fuel : Nat) (out : List (Bool × Word)) (v : Word), Pos.run p args fuel = ⟨out, .done v⟩ →
    ∃ heapBytes, ∀ (cfg : MonCfg), CfgCC cfg.mem → cfg.mem.heapBase % 8 = 0 → 0 < cfg.mem.heapBase →
      cfg.mem.codeBase + 4 * ninstr routine < 2 ^ 64 →
      heapBytes ≤ cfg.mem.heapBytes → cfg.heap = false → cfg.wf = false →
      ∃ fuel', (run (printProg routine) args fuel' cfg).out = out ∧
        (run (printProg routine) args fuel' cfg).res = .done v

theorem C07_data_programs_statement_checked_holds : C07_data_programs_statement_checked := by
  intro p args hooks body routine nargs hsafe htp hdata hchk hcompX fuel out v hrun
  refine ⟨128 + 64 * 141 * fuel, fun cfg H hb8 hb0 hfitX hbytes hheap hwf => ?_⟩
  exact C07_data_programs_text_checked p args hooks body routine nargs hsafe htp hdata hchk hcompX fuel out v
    hrun cfg H hheap hwf hb8 hb0 hbytes hfitX

/-! ### non-vacuity (B) -/

set_option maxRecDepth 100000 in
theorem C07_boxProg_checks : C07_a64Checks C07_boxProg = true := by decide +kernel

/-- the box program of Props/C07A64Heap.lean started with x = 21: every hypothesis of
`C07_data_programs_text_checked` holds, so the AArch64 machine on the PRINTED TEXT of the emitted routine
prints 42 and returns 42 -/
example : ∃ fuel',
    (run (printProg C07_boxRoutine) [21] fuel' {}).out = [(true, 42)] ∧
    (run (printProg C07_boxRoutine) [21] fuel' {}).res = .done 42 := by
  have hok : ∃ b n, compileProg a64Backend C07_boxProg true 0 = .ok (b, n, C07_boxRoutine) := ⟨_, _, rfl⟩
  obtain ⟨body, nargs, hcomp⟩ := hok
  have hrun : Pos.run C07_boxProg [21] 20 = ⟨[(true, 42)], .done 42⟩ := by decide
  exact C07_data_programs_text_checked C07_boxProg [21] true body C07_boxRoutine nargs
    (by decide) (linTypedCheck_sound C07_boxProg rfl) C07_boxProg_data C07_boxProg_checks hcomp
    20 _ _ hrun {} cfgCC_default rfl rfl (by decide) (by decide) (by decide) (by decide)


/-! ## (A) closures: `create` and `invoke` on AArch64 -/

open Scc.Heap (HState)
open Scc.Heap.Refine (FrLe Room)
open Scc.A64.CC (Holds Lines)
open Scc.A64.Loader (hookVarsOf)

section Clos

variable {c : MemCfg} (H : CfgCC c) (h8 : c.heapBase % 8 = 0) {hkf : Code → Bool} {Pm : Prog}
  {cs pre : List Code}

include H h8 in
/-- THREE-WAY SIMULATION OF `create` on AArch64: the positional machine's step, two steps of the abstract
machine (`store` of the environment, `loadLabel` of the method table), the machine's execution of
`Memory::store` and `ADR reg, table`.  The relation is re-established; the new closure is at the last
position: its abstract word is the ADDRESS `a` of the mock methods (`MethodsAt`), its machine word the BYTE
ADDRESS `w` of the AArch64 methods in the routine (`XMethodsAt`), generated for the SAME environment
context. -/
theorem C07_create_a64 (HB : Ref.K.HoldsB hkf Pm cs) (hnd : (labs cs).Nodup) (hcsC : cs = pre ++ cleanup)
    {P : Program} {hooks : Bool} {prog : AxCut.Prog} {Γ : Ctx}
    {ρ : List Value} {x : Ident} {ty : Ty} {Γc : Ctx} {clauses : Clauses} {next : Stmt} {f1 f2 : FV}
    {cfg : Config}
    (R : RelX P hooks prog ⟨Γ, ρ, .create x ty (some Γc) clauses next f1 f2⟩ cfg)
    (hk : Γc.length ≤ Γ.length)
    (hkeys : Ctx.keys (Γ.drop (Γ.length - Γc.length)) = Γc.keys)
    (hfresh : ∀ b ∈ Γ.take (Γ.length - Γc.length), b.var.id ≠ x.id)
    (hcap : 2 * (Γ.length - Γc.length + 1) + 2 < Mock.T_TEMP)
    (hnext : cfg.next < 2 ^ 64)
    {hs : HState} {ι : Nat → Nat} {κ : Nat → Nat → Word} {σ : State} {out : List (Bool × Word)} {kp : Nat}
    (X : Ref.K.X3 c Γ cfg hs ι κ σ out)
    {k k' : Nat} {items : List Code}
    (hrun : (codeStatementR a64Backend hooks natRen prog.types (.create x ty (some Γc) clauses next f1 f2) Γ).run k =
      .ok (items, k'))
    (hat : XAt cs kp items)
    (hroom : Room hs (64 * Γc.length + 64)) :
    ∃ cfg' σ' hs' ι' κ' kp', stepsTo P 2 cfg cfg' ∧
      MSteps Pm c σ (pcOf hkf cs kp) out σ' (pcOf hkf cs kp') out ∧ FrLe hs hs' (64 * Γc.length) ∧
      cfg'.out = cfg.out ∧ cfg'.next ≤ cfg.next + 1 ∧
      RelX P hooks prog ⟨Γ.take (Γ.length - Γc.length) ++ [⟨x, .cns, ty⟩],
        ρ.take (Γ.length - Γc.length) ++ [.clo Γc (ρ.drop (Γ.length - Γc.length)) clauses], next⟩ cfg' ∧
      Ref.K.X3 c (Γ.take (Γ.length - Γc.length) ++ [⟨x, .cns, ty⟩]) cfg' hs' ι' κ' σ' out ∧
      ∃ k1 k1' items', (codeStatementR a64Backend hooks natRen prog.types next
          (Γ.take (Γ.length - Γc.length) ++ [⟨x, .cns, ty⟩])).run k1 = .ok (items', k1') ∧
        XAt cs kp' items' ∧ Ref.K.LetProv Γ (Γ.length - Γc.length) cfg cfg' κ κ' σ σ' ∧
        ∃ a w, cfg'.temps.get (2 * (Γ.length - Γc.length) + 1) = some (BitVec.ofNat 64 a) ∧
          σ'.tempVal (posTemp (2 * (Γ.length - Γc.length) + 1)) = some w ∧
          MethodsAt P hooks prog.types a (Γ.drop (Γ.length - Γc.length)) clauses ∧
          Ref.K.XMethodsAt c cs hooks prog.types w (Γ.drop (Γ.length - Γc.length)) clauses :=
  Ref.K.create_x3 H h8 HB.holdsA.holds hnd HB hcsC R hk hkeys hfresh hcap hnext X hrun hat hroom

include H h8 in
/-- THREE-WAY SIMULATION OF `invoke` on AArch64: the positional machine's step; the abstract machine jumps
to the address `a` the closure holds (through the table of the mock methods, if the type has more than one
method) and loads the environment; the AArch64 machine jumps to the BYTE ADDRESS `w` the closure holds
(`BR reg`; with more than one method: `ADD reg, reg, #4·pos; BR reg` into the table of `B method` — stride
`jump_length` = 4 per method — and from there to the method) and runs `Memory::load` of the environment.
`hword … hXM`: what the closure invariant `XC` says about the closure at the last position.  The relation
is re-established at the position `kp'`; the machine itself is at item `pcR`, which is the item of `kp'` or
ahead of it by `#ctx` hooks (`Tol`; `BR reg` enters at the last label before the first instruction). -/
theorem C07_invoke_a64 (HB : Ref.K.HoldsB hkf Pm cs) (hnd : (labs cs).Nodup)
    (hfitX : c.codeBase + 4 * ninstr cs < 2 ^ 64) (hcsC : cs = pre ++ cleanup)
    {P : Program} {hooks : Bool} {prog : AxCut.Prog} {Γa : Ctx} {b : Binding}
    {ρa : List Value} {Γc : Ctx} {ρc : List Value} {clauses : Clauses} {x tag : Ident} {ty : Ty}
    {args : Ctx} {cfg : Config} {cl : Clause} {pos : Nat}
    (R : RelX P hooks prog ⟨Γa ++ [b], ρa ++ [.clo Γc ρc clauses], .invoke x tag ty args⟩ cfg)
    (hfits : Fits P)
    (hb : b.var.id = x.id) (hfresh : ∀ b' ∈ Γa, b'.var.id ≠ x.id)
    (hpos : Pos.tagPosition prog.types ty tag = .ok pos)
    (hclause : nthClause clauses pos = some cl)
    (hlenc : ∀ d, lookupTypeDecl prog.types ty = some d → clauses.length = d.xtors.length)
    (hargs : Γa.map (·.chi) = cl.ctx.map (·.chi))
    (hkinds : ρc.map Sim2.kindOf = Mock.kindsOf Γc)
    (hcap : 2 * (cl.ctx.length + Γc.length) + 2 < Mock.T_TEMP)
    {hs : HState} {ι : Nat → Nat} {κ : Nat → Nat → Word} {σ : State} {out : List (Bool × Word)} {kp : Nat}
    (X : Ref.K.X3 c (Γa ++ [b]) cfg hs ι κ σ out)
    {a : Nat} {envCtx' : Ctx} {w : Word} (hkeys : envCtx'.keys = Γc.keys)
    (hword : cfg.temps.get (2 * Γa.length + 1) = some (BitVec.ofNat 64 a))
    (hmeth : MethodsAt P hooks prog.types a envCtx' clauses)
    (hw : σ.tempVal (posTemp (2 * Γa.length + 1)) = some w)
    (hXM : Ref.K.XMethodsAt c cs hooks prog.types w envCtx' clauses)
    {k k' : Nat} {items : List Code}
    (hrun : (codeStatementR a64Backend hooks natRen prog.types (.invoke x tag ty args) (Γa ++ [b])).run k =
      .ok (items, k'))
    (hat : XAt cs kp items)
    (hcapX : 2 * (cl.ctx.length + Γc.length) ≤ 280)
    (hpos12 : pos < 1024) :
    ∃ kk cfg' σ' hs' kp' pcR, stepsTo P kk cfg cfg' ∧ MSteps Pm c σ (pcOf hkf cs kp) out σ' pcR out ∧
      Ref.K.Tol Pm (pcOf hkf cs kp') pcR ∧
      FrLe hs hs' 0 ∧ cfg'.out = cfg.out ∧ cfg'.next = cfg.next ∧
      RelX P hooks prog ⟨cl.ctx ++ envCtx', ρa ++ ρc, cl.body⟩ cfg' ∧
      Ref.K.X3 c (cl.ctx ++ envCtx') cfg' hs' ι κ σ' out ∧
      ∃ k1 k1' items', (codeStatementR a64Backend hooks natRen prog.types cl.body (cl.ctx ++ envCtx')).run k1 =
          .ok (items', k1') ∧ XAt cs kp' items' ∧ Ref.K.LoadProv Γa.length envCtx' cfg cfg' κ σ σ' :=
  Ref.K.invoke_x3 H h8 HB hnd hfitX hcsC R hfits hb hfresh hpos hclause hlenc hargs hkinds hcap X hkeys hword
    hmeth hw hXM hrun hat hcapX hpos12

end Clos

/-- THE THREE-WAY STEP FOR ALL ELEVEN STATEMENT FORMS: every step of the positional machine from a typed
state in the three-way relation `Ref.K.Rel3` (`RelX` ∧ `X3` ∧ the closure invariant `XC` ∧ the code at the
position) is reproduced by the AArch64 machine, and the relation holds again (`Ref.K.StepSim3`: with output,
bound on the object counter and on the heap frontier; after `invoke` the machine may be ahead of the
boundary position by `#ctx` hooks, `Tol`). -/
theorem C07_step_a64_all {c : MemCfg} (H : CfgCC c) (h8 : c.heapBase % 8 = 0) {hkf : Code → Bool} {Pm : Prog}
    {cs pre : List Code} (HB : Ref.K.HoldsB hkf Pm cs) (hnd : (labs cs).Nodup)
    (hfitX : c.codeBase + 4 * ninstr cs < 2 ^ 64) (hcs : cs = pre ++ cleanup)
    (hclean : "cleanup" ∉ labs pre)
    (hooks : Bool) (prog : AxCut.Prog) (kc : Nat) (code : List MockOp) (nargs kc' : Nat)
    (hcomp : (compile mockSym hooks prog).run kc = .ok ((code, nargs), kc'))
    (hsafe : LabelSafe prog = true) (htp : LinTypedProg prog) (hfit : CodeFits code)
    (DX : Ref.K.XDefsAt cs hooks prog) (hprog : Ref.K.ProgOK prog)
    (st : Pos.State) (cfg : Config) (hs : HState) (σ : State) (kp : Nat)
    (R : Ref.K.Rel3 c cs (Program.ofOps code) hooks prog st cfg hs σ kp)
    (T : Pos.StateTyped prog st) (hheap : EnoughHeap cfg)
    (hroom : Room hs (64 * 141)) :
    Ref.K.StepSim3 c hkf Pm cs (Program.ofOps code) hooks prog st cfg hs σ kp :=
  Ref.K.step3 H h8 HB hnd hfitX hcs hclean hooks prog kc code nargs kc' hcomp hsafe htp hfit DX hprog st cfg hs
    σ kp R T hheap hroom

/-- the loader holds the routine with the addresses of its labels (`HoldsB`: offsets of all items, entries
behind labels) — proved for the machine's `layout` on ANY lines that are the routine -/
theorem C07_holdsB_layout {hkv : String → Option (List (String × Kind))} {ls : List (Nat × PLine)}
    {cs : List Code} (h : Lines hkv ls cs) : Ref.K.HoldsB (CC.hkOf hkv) (layout ls) cs :=
  Ref.K.holdsB_layout h

/-! ## the run theorem for ALL programs -/

/-- jump tables of at most 1024 entries, from the loader's bound check -/
theorem C07_progOK_of_range {p : AxCut.Prog} (h : C14A_inRangeB p = true) : Ref.K.ProgOK p := by
  simp only [C14A_inRangeB, Bool.and_eq_true, List.all_eq_true, decide_eq_true_eq] at h
  intro d hd
  have := h.1 d hd
  unfold Scc.A64.Loader.maxTagsA64 at this
  exact this

/-- THEOREM A ∘ THEOREM B FOR ALL PROGRAMS (data types and closures; no `DataProg` restriction), on the
program LAID OUT from any lines that are the emitted routine, with the side hypotheses of the composition
stated explicitly (they are discharged in `C07_programs_text`). -/
theorem C07_programs (p : AxCut.Prog) (args : List Word) (hooks : Bool) (body routine : List Code)
    (nargs : Nat) (d0 : Def)
    (hsafe : LabelSafe p = true) (htp : LinTypedProg p) (hprog : ∀ d ∈ p.types, d.xtors.length ≤ 1024)
    (hfit : C07_mockFits p hooks = true)
    (hcompX : compileProg a64Backend p hooks 0 = .ok (body, nargs, routine))
    (hnd : (labs routine).Nodup)
    (hd : p.defs.head? = some d0) (hentry : ∀ b ∈ d0.ctx, b.chi = .ext ∧ b.ty = .i64)
    (hcap : ∀ st, Reachable p ⟨d0.ctx, args.map .int, d0.body⟩ st → 2 * st.ctx.length ≤ 280)
    (fuel : Nat) (out : List (Bool × Word)) (v : Word)
    (hrun : Pos.run p args fuel = ⟨out, .done v⟩)
    (cfg : MonCfg) (H : CfgCC cfg.mem) (hheap : cfg.heap = false)
    (hb8 : cfg.mem.heapBase % 8 = 0) (hb0 : 0 < cfg.mem.heapBase)
    (hbytes : 128 + 64 * 141 * fuel ≤ cfg.mem.heapBytes)
    (hfitX : cfg.mem.codeBase + 4 * ninstr routine < 2 ^ 64)
    (hkv : String → Option (List (String × Kind))) (ls : List (Nat × PLine)) (hl : Lines hkv ls routine) :
    ∃ fuel', (runProg (layout ls) args fuel' cfg).out = out ∧ (runProg (layout ls) args fuel' cfg).res = .done v := by
  have hne : p.defs ≠ [] := by intro e; rw [e] at hd; simp at hd
  obtain ⟨ops, n, c', hM⟩ := mock_compile_ok hooks p htp hne 0
  obtain ⟨c1, hcompA, _⟩ := compileProg_ok hcompX
  obtain ⟨_, _, _, _, _, _, hn2⟩ := compile_a64_entry hcompA hd
  obtain ⟨_, hn1⟩ := compile_mock_entry hM hd
  have hnn : n = nargs := by rw [hn1, hn2]
  subst hnn
  have hcf : CodeFits ops := by
    unfold C07_mockFits at hfit
    rw [hM] at hfit
    simpa [CodeFits] using hfit
  exact Ref.K.programs_holds p args hooks body routine n d0 ops c' hsafe htp hprog hM hcf hcompX hnd hd hentry
    hcap fuel out v (fuel_lt_of_heap H hbytes) hrun cfg H hheap hb8 hb0 hbytes (Ref.K.holdsB_layout hl) hfitX

/-- THEOREM A ∘ THEOREM B FOR ALL PROGRAMS ON THE PRINTED TEXT OF THE ROUTINE: for a label-safe, linearly
typed program that passes the decidable checks `C07_a64Checks` and that the AArch64 code generator compiles,
every terminating run of the AxCut positional machine is reproduced — same trace, same result — by the
AArch64 SPEC machine on the printed routine, in EVERY sane machine configuration (`CfgCC`; heap base
positive and 8-aligned; the routine ends below 2^64; monitors `heap` and `wf` off) whose heap has
`128 + 64·141·fuel` bytes. -/
theorem C07_programs_text (p : AxCut.Prog) (args : List Word) (hooks : Bool) (body routine : List Code)
    (nargs : Nat)
    (hsafe : LabelSafe p = true) (htp : LinTypedProg p) (hchk : C07_a64Checks p = true)
    (hcompX : compileProg a64Backend p hooks 0 = .ok (body, nargs, routine))
    (fuel : Nat) (out : List (Bool × Word)) (v : Word) (hrun : Pos.run p args fuel = ⟨out, .done v⟩)
    (cfg : MonCfg) (H : CfgCC cfg.mem) (hheap : cfg.heap = false) (hwf : cfg.wf = false)
    (hb8 : cfg.mem.heapBase % 8 = 0) (hb0 : 0 < cfg.mem.heapBase)
    (hbytes : 128 + 64 * 141 * fuel ≤ cfg.mem.heapBytes)
    (hfitX : cfg.mem.codeBase + 4 * ninstr routine < 2 ^ 64) :
    ∃ fuel', (run (printProg routine) args fuel' cfg).out = out ∧
      (run (printProg routine) args fuel' cfg).res = .done v := by
  obtain ⟨hcap, hsize, hrange, hnames, d0, hd, hentry⟩ := C07_checks_facts hchk
  obtain ⟨ls, hparse, hl⟩ := C14A_routine_lines hrange hnames hcompX
  obtain ⟨fuel', h1, h2⟩ := C07_programs p args hooks body routine nargs d0 hsafe htp
    (C07_progOK_of_range hrange) (C07_mockFits_of_size htp hsize hooks) hcompX (labels_unique_a64 hsafe hcompX)
    hd hentry (cap280_of_check hcap (mem_of_head? hd) args) fuel out v hrun cfg H hheap hb8 hb0 hbytes hfitX
    hookVarsOf ls hl
  refine ⟨fuel', ?_, ?_⟩ <;>
  · unfold run
    simp only [hparse, hwf, Bool.false_eq_true, if_false]
    assumption

/-! ## comparison with `C07_statement` (Props/C07A64.lean)

`C07_statement` reads: `LinTypedProg p`, `compileProg a64Backend p false 0 = .ok …`, `args.length ≤ 7` ⇒ for
every terminating run `∃ fuel' heapBytes, ∀ cfg, cfg.mem = { defaultMem with heapBytes := heapBytes } →`
same trace and result.  `C07_statement_checked` below is what is PROVED; the clauses that differ:
  (1) hypotheses `LabelSafe p = true` and `C07_a64Checks p = true` (names printable for the loader, at most
      1024 xtors per type and 4096 pairs per substitution, at most 140 variables per context, mock code size
      below 2^64, integer parameters of the first definition) — `C07_statement` has none of them;
      `args.length ≤ 7` is not needed (a run with another number of arguments is stuck, not `done`);
  (2) both hook settings (`C07_statement`: `hooks = false`);
  (3) `C07_statement` fixes the configuration to `defaultMem` with a chosen `heapBytes` (all monitors as
      `cfg` has them); proved for EVERY sane configuration: `CfgCC cfg.mem` (regions disjoint and below 2^64,
      stack top 16-aligned, room for the frame), `heapBase % 8 = 0`, `0 < heapBase`, the routine ends below
      2^64 (`codeBase + 4·ninstr routine < 2^64`), monitors `heap` and `wf` off; `defaultMem` with
      `heapBytes ≤ 0x6ff00000` is such a configuration (`cfgCC_default` for the default);
  (4) heap: every `heapBytes ≥ 128 + 64·141·fuel` (a lower bound, not one value) — stronger;
  (5) `fuel'` is chosen AFTER the configuration (`∀ cfg … ∃ fuel'`), in `C07_statement` before it;
  (6) the result clause `r.res = .done v` instead of the `match` (the same). -/

/-- C07 on AArch64 as PROVED (`C07_statement_checked_holds`) -/
def C07_statement_checked : Prop :=
  ∀ (p : AxCut.Prog) (args : List (BitVec 64)) (hooks : Bool) (body routine : List Code) (nargs : Nat),
    LabelSafe p = true → LinTypedProg p → C07_a64Checks p = true →
    compileProg a64Backend p hooks 0 = .ok (body, nargs, routine) →
    ∀ fuel v, Pos.run p args fuel = ⟨(Pos.run p args fuel).out, .done v⟩ →
      ∃ heapBytes, ∀ cfg : MonCfg, CfgCC cfg.mem → cfg.mem.heapBase % 8 = 0 → 0 < cfg.mem.heapBase →
        cfg.mem.codeBase + 4 * ninstr routine < 2 ^ 64 →
        heapBytes ≤ cfg.mem.heapBytes → cfg.heap = false → cfg.wf = false →
        ∃ fuel', (run (printProg routine) args fuel' cfg).out = (Pos.run p args fuel).out ∧
          (run (printProg routine) args fuel' cfg).res = .done v

theorem C07_statement_checked_holds : C07_statement_checked := by
  intro p args hooks body routine nargs hsafe htp hchk hcompX fuel v hrun
  refine ⟨128 + 64 * 141 * fuel, fun cfg H hb8 hb0 hfitX hbytes hheap hwf => ?_⟩
  exact C07_programs_text p args hooks body routine nargs hsafe htp hchk hcompX fuel _ v hrun cfg H hheap hwf
    hb8 hb0 hbytes hfitX

/-! ### non-vacuity: closures (single method: `BR reg`; two methods: jump table; a closure captured by a
closure, moved by `subst`, erased) -/

def C07_tFun : Ty := .decl ⟨"Fun", 0⟩
def C07_tTwo : Ty := .decl ⟨"Two", 0⟩
def C07_funDecl : TypeDecl := { name := ⟨"Fun", 0⟩, xtors := [⟨⟨"Ap", 0⟩, [⟨⟨"a", 202⟩, .ext, .i64⟩]⟩] }
def C07_twoDecl : TypeDecl :=
  { name := ⟨"Two", 0⟩, xtors := [⟨⟨"Fst", 0⟩, [⟨⟨"a", 203⟩, .ext, .i64⟩]⟩, ⟨⟨"Snd", 0⟩, [⟨⟨"a", 204⟩, .ext, .i64⟩]⟩] }

/-- main(x) { create f : Fun = (x){ Ap(a) => s <- a + x; println s; exit s }; lit n <- 5;
      subst (n := n)(f := f);
      create g : Two = (f){ Fst(a) => invoke f Ap; Snd(a) => subst (a := a); exit a };
      invoke g Fst } -/
def C07_cloMain : Def :=
  { name := ⟨"main", 0⟩, ctx := [⟨⟨"x", 1⟩, .ext, .i64⟩],
    body := .create ⟨"f", 2⟩ C07_tFun (some [⟨⟨"x", 1⟩, .ext, .i64⟩])
      (.cons ⟨"Ap", 0⟩ [⟨⟨"a", 3⟩, .ext, .i64⟩]
        (.op ⟨"s", 4⟩ ⟨"a", 3⟩ .sum ⟨"x", 1⟩ (.print true ⟨"s", 4⟩ (.exit ⟨"s", 4⟩) none) none) .nil)
      (.lit ⟨"n", 5⟩ 5
        (.subst [(⟨⟨"n", 6⟩, .ext, .i64⟩, ⟨"n", 5⟩), (⟨⟨"f", 7⟩, .cns, C07_tFun⟩, ⟨"f", 2⟩)]
          (.create ⟨"g", 8⟩ C07_tTwo (some [⟨⟨"f", 7⟩, .cns, C07_tFun⟩])
            (.cons ⟨"Fst", 0⟩ [⟨⟨"a", 9⟩, .ext, .i64⟩]
              (.invoke ⟨"f", 7⟩ ⟨"Ap", 0⟩ C07_tFun [⟨⟨"a", 9⟩, .ext, .i64⟩])
              (.cons ⟨"Snd", 0⟩ [⟨⟨"a", 10⟩, .ext, .i64⟩]
                (.subst [(⟨⟨"a", 11⟩, .ext, .i64⟩, ⟨"a", 10⟩)] (.exit ⟨"a", 11⟩)) .nil))
            (.invoke ⟨"g", 8⟩ ⟨"Fst", 0⟩ C07_tTwo [⟨⟨"n", 6⟩, .ext, .i64⟩]) none none)) none) none none }

def C07_cloProg : AxCut.Prog := { defs := [C07_cloMain], types := [C07_funDecl, C07_twoDecl], maxId := 204 }

def C07_cloRoutine : List Code :=
  match compileProg a64Backend C07_cloProg true 0 with
  | .ok (_, _, r) => r
  | .error _ => []

set_option maxRecDepth 100000 in
theorem C07_cloProg_checks : C07_a64Checks C07_cloProg = true := by decide +kernel

set_option maxRecDepth 100000 in
/-- the closure program started with x = 37: every hypothesis of `C07_programs_text` holds, so the AArch64
machine on the PRINTED TEXT of the emitted routine prints 42 and returns 42 (`g` is created, moved by
`subst`, invoked through the jump table of `Two`; `f` — captured in the environment of `g` — is invoked
through `BR reg`) -/
example : ∃ fuel',
    (run (printProg C07_cloRoutine) [37] fuel' {}).out = [(true, 42)] ∧
    (run (printProg C07_cloRoutine) [37] fuel' {}).res = .done 42 := by
  have hok : ∃ b n, compileProg a64Backend C07_cloProg true 0 = .ok (b, n, C07_cloRoutine) := ⟨_, _, rfl⟩
  obtain ⟨body, nargs, hcomp⟩ := hok
  have hrun : Pos.run C07_cloProg [37] 20 = ⟨[(true, 42)], .done 42⟩ := by decide
  exact C07_programs_text C07_cloProg [37] true body C07_cloRoutine nargs
    (by decide) (linTypedCheck_sound C07_cloProg rfl) C07_cloProg_checks hcomp
    20 _ _ hrun {} cfgCC_default rfl rfl (by decide) (by decide) (by decide) (by decide)


/-! ### non-vacuity: `BR reg` that skips a `#ctx` hook (`Tol`)

    main(x) { let u : Unit = U(); create f : FunU = (){ Ap(w) => switch w { U() => lit r <- 42; println r; exit r } };
              subst (u := u)(f := f); invoke f Ap(u) }
    The method of the single-method closure `f` has no environment and starts with a `switch` on a type with
    one xtor without fields: behind the method label `FunU_1` the routine reads
        FunU_1:  FunU_1_Ap:  // #ctx [w:prd]  // switch …  Unit_2:  Unit_2_U:  // #ctx []  // lit …  MOVZ X5, 42
    and `BR X7` to the address of `FunU_1` enters at the item of the LAST label, `Unit_2_U`: the hook
    `#ctx [w:prd]` is skipped (the statement boundary of `switch w` is never visited by the machine). -/

def C07_tUnit : Ty := .decl ⟨"Unit", 0⟩
def C07_tFunU : Ty := .decl ⟨"FunU", 0⟩
def C07_unitDecl : TypeDecl := { name := ⟨"Unit", 0⟩, xtors := [⟨⟨"U", 0⟩, []⟩] }
def C07_funUDecl : TypeDecl :=
  { name := ⟨"FunU", 0⟩, xtors := [⟨⟨"Ap", 0⟩, [⟨⟨"w", 301⟩, .prd, C07_tUnit⟩]⟩] }

def C07_hookMain : Def :=
  { name := ⟨"main", 0⟩, ctx := [⟨⟨"x", 1⟩, .ext, .i64⟩],
    body := .letS ⟨"u", 2⟩ C07_tUnit ⟨"U", 0⟩ []
      (.create ⟨"f", 3⟩ C07_tFunU (some [])
        (.cons ⟨"Ap", 0⟩ [⟨⟨"w", 4⟩, .prd, C07_tUnit⟩]
          (.switch ⟨"w", 4⟩ C07_tUnit
            (.cons ⟨"U", 0⟩ []
              (.lit ⟨"r", 5⟩ 42 (.print true ⟨"r", 5⟩ (.exit ⟨"r", 5⟩) none) none) .nil) none) .nil)
        (.subst [(⟨⟨"u", 6⟩, .prd, C07_tUnit⟩, ⟨"u", 2⟩), (⟨⟨"f", 7⟩, .cns, C07_tFunU⟩, ⟨"f", 3⟩)]
          (.invoke ⟨"f", 7⟩ ⟨"Ap", 0⟩ C07_tFunU [⟨⟨"u", 6⟩, .prd, C07_tUnit⟩])) none none) none }

def C07_hookProg : AxCut.Prog :=
  { defs := [C07_hookMain], types := [C07_unitDecl, C07_funUDecl], maxId := 301 }

def C07_hookRoutine : List Code :=
  match compileProg a64Backend C07_hookProg true 0 with
  | .ok (_, _, r) => r
  | .error _ => []

set_option maxRecDepth 100000 in
theorem C07_hookProg_checks : C07_a64Checks C07_hookProg = true := by decide +kernel

set_option maxRecDepth 100000 in
example : ∃ fuel',
    (run (printProg C07_hookRoutine) [7] fuel' {}).out = [(true, 42)] ∧
    (run (printProg C07_hookRoutine) [7] fuel' {}).res = .done 42 := by
  have hok : ∃ b n, compileProg a64Backend C07_hookProg true 0 = .ok (b, n, C07_hookRoutine) := ⟨_, _, rfl⟩
  obtain ⟨body, nargs, hcomp⟩ := hok
  have hrun : Pos.run C07_hookProg [7] 20 = ⟨[(true, 42)], .done 42⟩ := by decide
  exact C07_programs_text C07_hookProg [7] true body C07_hookRoutine nargs
    (by decide) (linTypedCheck_sound C07_hookProg rfl) C07_hookProg_checks hcomp
    20 _ _ hrun {} cfgCC_default rfl rfl (by decide) (by decide) (by decide) (by decide)

end Scc.A64

#print axioms Scc.A64.C07_data_programs_text_checked
#print axioms Scc.A64.C07_data_programs_statement_checked_holds
#print axioms Scc.A64.C07_create_a64
#print axioms Scc.A64.C07_invoke_a64
#print axioms Scc.A64.C07_step_a64_all
#print axioms Scc.A64.C07_holdsB_layout
#print axioms Scc.A64.C07_programs
#print axioms Scc.A64.C07_programs_text
#print axioms Scc.A64.C07_statement_checked_holds
