/-
  Scc/Props/C11Counts.lean  --  property C11, the clause about reference counts:

  "... increases the count of each object by the number of extra copies, releases each dropped object
   exactly once, and changes nothing else."

  `Props/C11.lean` (T3) pins down WHICH `erase`/`share` instructions a substitution emits
  (`C11_refcount_ops`: exactly `ctx.flatMap (refOpsFor tfp re ctx)`).  This file states what these
  instructions DO to the counts, on an abstract count store, for contexts and rearrangements of any size:

    * the temporaries hold values `σ : Nat → V` (the store BEFORE the moves: the refcount instructions
      precede all moves, `SubstRes.ok refcount moves`);
    * `cnt : V → Int` is the number of references to each value (object pointer);
    * `erase t` releases one reference to the object held in `t`  (`cnt (σ t) -= 1`),
      `share t n` adds `n` references to it                           (`cnt (σ t) += n`).
      That this is what `Backend::erase_block` / `share_block_n` do on the real heap is the memory
      component's contract (C09/C10: `X86.Mem`, `A64.Mem`, `RV.Mem` share/erase contracts).

  Theorems
    C11_counts              after the refcount instructions, for EVERY value `v`:
                              cnt' v = cnt v + Σ_{old non-ext bindings b holding v} (targetCount re b - 1)
                            i.e. each old reference is replaced by as many references as there are new
                            variables bound to it; nothing else changes (`C11_counts_untouched`).
    C11_counts_balance      if new variables bound to an old variable keep its chirality class
                            (ext ↔ ext), then cnt' v - cnt v = (#new object variables that will hold v)
                            - (#old object variables that held v): counts follow the environment exactly.
    C11_erase_once          a dropped object variable (no new variable bound to it) gets exactly ONE
                            `erase`, on its `Fst` temporary; a variable that is kept gets none.
    C11_share_once          a variable with k ≥ 2 targets gets exactly one `share _ (k-1)`.
-/
import Scc.PMoves.ProofsSubst

namespace Scc.Props.C11
open Scc.PMoves

section
variable {V : Type} [DecidableEq V]

/-- one refcount instruction on the abstract count store -/
def ropStep (σ : Nat → V) (cnt : V → Int) : ROp → V → Int
  | .erase t => fun v => if σ t = v then cnt v - 1 else cnt v
  | .share t n => fun v => if σ t = v then cnt v + (n : Int) else cnt v
  | .comment _ _ => cnt

def runROps (σ : Nat → V) (ops : List ROp) (cnt : V → Int) : V → Int := ops.foldl (ropStep σ) cnt

/-- contribution of one old binding to the count of `v`: an object binding whose `Fst` temporary holds `v`
    is replaced by `targetCount re b.1` references. -/
def bindingDelta (tfp : Nat → Option Nat) (re : Rearrange) (ctx : Ctx) (σ : Nat → V) (v : V)
    (b : Nat × Chi) : Int :=
  if b.2 = Chi.ext then 0 else
  match variableTemporary tfp 0 ctx b.1 with
  | none => 0
  | some t => if σ t = v then (targetCount re b.1 : Int) - 1 else 0

theorem runROps_append (σ : Nat → V) (a b : List ROp) (cnt : V → Int) :
    runROps σ (a ++ b) cnt = runROps σ b (runROps σ a cnt) := by
  simp [runROps, List.foldl_append]

theorem runROps_refOpsFor (tfp : Nat → Option Nat) (re : Rearrange) (ctx : Ctx) (σ : Nat → V)
    (cnt : V → Int) (b : Nat × Chi) (v : V) :
    runROps σ (refOpsFor tfp re ctx b) cnt v = cnt v + bindingDelta tfp re ctx σ v b := by
  unfold refOpsFor bindingDelta
  by_cases hext : b.2 = Chi.ext
  · simp [hext, runROps]
  · simp only [hext, if_false]
    cases hv : variableTemporary tfp 0 ctx b.1 with
    | none => simp [runROps]
    | some t =>
      rcases hc : targetCount re b.1 with _ | _ | n
      · by_cases h : σ t = v <;> simp [runROps, ropStep, h] <;> omega
      · by_cases h : σ t = v <;> simp [runROps, h]
      · by_cases h : σ t = v <;> simp [runROps, ropStep, h] <;> omega

theorem runROps_flatMap (tfp : Nat → Option Nat) (re : Rearrange) (ctx : Ctx) (σ : Nat → V)
    (bs : List (Nat × Chi)) (cnt : V → Int) (v : V) :
    runROps σ (bs.flatMap (refOpsFor tfp re ctx)) cnt v
      = cnt v + (bs.map (bindingDelta tfp re ctx σ v)).sum := by
  induction bs generalizing cnt with
  | nil => simp [runROps]
  | cons b bs ih =>
    rw [List.flatMap_cons, runROps_append, ih, runROps_refOpsFor]
    simp only [List.map_cons, List.sum_cons]
    omega

/-- C11 (counts).  The refcount instructions of a substitution (`C11_refcount_ops`) change the count of
    every value `v` by the sum, over the old object bindings whose `Fst` temporary holds `v`, of
    (number of new variables bound to it) − 1. -/
theorem C11_counts (tfp : Nat → Option Nat) (re : Rearrange) (ctx : Ctx) (σ : Nat → V) (cnt : V → Int)
    (v : V) :
    runROps σ (ctx.flatMap (refOpsFor tfp re ctx)) cnt v
      = cnt v + (ctx.map (bindingDelta tfp re ctx σ v)).sum :=
  runROps_flatMap tfp re ctx σ ctx cnt v

/-- "... and changes nothing else": a value held by no old object binding keeps its count. -/
theorem C11_counts_untouched (tfp : Nat → Option Nat) (re : Rearrange) (ctx : Ctx) (σ : Nat → V)
    (cnt : V → Int) (v : V)
    (hv : ∀ b ∈ ctx, b.2 ≠ Chi.ext → ∀ t, variableTemporary tfp 0 ctx b.1 = some t → σ t ≠ v) :
    runROps σ (ctx.flatMap (refOpsFor tfp re ctx)) cnt v = cnt v := by
  rw [C11_counts]
  have : ∀ bs : List (Nat × Chi), (∀ b ∈ bs, b ∈ ctx) →
      (bs.map (bindingDelta tfp re ctx σ v)).sum = 0 := by
    intro bs
    induction bs with
    | nil => intro _; rfl
    | cons b bs ih =>
      intro h
      have hb := h b List.mem_cons_self
      have ih' := ih (fun b' hb' => h b' (List.mem_cons_of_mem _ hb'))
      simp only [List.map_cons, List.sum_cons, ih']
      unfold bindingDelta
      by_cases hext : b.2 = Chi.ext
      · simp [hext]
      · simp only [hext, if_false]
        cases hvt : variableTemporary tfp 0 ctx b.1 with
        | none => simp
        | some t => simp [hv b hb hext t hvt]
  rw [this ctx (fun _ h => h)]; omega

/-- a kept-once object variable (exactly one new variable bound to it) contributes nothing; a dropped one
    contributes −1; one with `k` copies contributes `k − 1` (the "number of extra copies"). -/
theorem bindingDelta_cases (tfp : Nat → Option Nat) (re : Rearrange) (ctx : Ctx) (σ : Nat → V) (v : V)
    (b : Nat × Chi) (hext : b.2 ≠ Chi.ext) (t : Nat) (ht : variableTemporary tfp 0 ctx b.1 = some t)
    (hv : σ t = v) :
    bindingDelta tfp re ctx σ v b = (targetCount re b.1 : Int) - 1 := by
  simp [bindingDelta, hext, ht, hv]

end

/-! ## exactly one `erase` per dropped object, one `share` per duplicated object -/

/-- the `erase`/`share` instructions (comments removed) emitted for one old binding -/
theorem refOpsFor_erase_count (tfp : Nat → Option Nat) (re : Rearrange) (ctx : Ctx) (b : Nat × Chi)
    (t : Nat) :
    (refOpsFor tfp re ctx b).count (.erase t) =
      if b.2 ≠ Chi.ext ∧ variableTemporary tfp 0 ctx b.1 = some t ∧ targetCount re b.1 = 0 then 1 else 0 := by
  unfold refOpsFor
  by_cases hext : b.2 = Chi.ext
  · simp [hext]
  · simp only [hext, if_false]
    cases hv : variableTemporary tfp 0 ctx b.1 with
    | none => simp
    | some t' =>
      rcases hc : targetCount re b.1 with _ | _ | n
      · by_cases h : t' = t
        · subst h; simp [hext]
        · simp [h]
      · simp
      · simp

theorem count_flatMap_of_unique {α β : Type} [DecidableEq β] (f : α → List β) (x : β) (l : List α)
    (a : α) (ha : a ∈ l) (hn : l.Nodup) (h1 : (f a).count x = 1) (h0 : ∀ a' ∈ l, a' ≠ a → (f a').count x = 0) :
    (l.flatMap f).count x = 1 := by
  induction l with
  | nil => simp at ha
  | cons c rest ih =>
    rw [List.flatMap_cons, List.count_append]
    have hnd := List.nodup_cons.mp hn
    rcases List.mem_cons.mp ha with rfl | har
    · have : (rest.flatMap f).count x = 0 := by
        rw [List.count_eq_zero]
        intro hx
        obtain ⟨a', ha', hxa⟩ := List.mem_flatMap.mp hx
        have hne : a' ≠ a := fun e => hnd.1 (e ▸ ha')
        have := h0 a' (List.mem_cons_of_mem _ ha') hne
        rw [List.count_eq_zero] at this
        exact this hxa
      omega
    · have hc : c ≠ a := fun e => hnd.1 (e ▸ har)
      have := h0 c List.mem_cons_self hc
      have ih' := ih har hnd.2 (fun a' ha' hne => h0 a' (List.mem_cons_of_mem _ ha') hne)
      omega

theorem count_flatMap_zero {α β : Type} [DecidableEq β] (f : α → List β) (x : β) (l : List α)
    (h0 : ∀ a' ∈ l, (f a').count x = 0) : (l.flatMap f).count x = 0 := by
  rw [List.count_eq_zero]
  intro hx
  obtain ⟨a', ha', hxa⟩ := List.mem_flatMap.mp hx
  have := h0 a' ha'
  rw [List.count_eq_zero] at this
  exact this hxa

theorem eq_of_map_nodup {α β : Type} (f : α → β) : ∀ (l : List α), (l.map f).Nodup →
    ∀ a ∈ l, ∀ b ∈ l, f a = f b → a = b := by
  intro l
  induction l with
  | nil => intro _ a ha; simp at ha
  | cons c rest ih =>
    intro hn a ha b hb hab
    rw [List.map_cons, List.nodup_cons] at hn
    rcases List.mem_cons.mp ha with rfl | ha' <;> rcases List.mem_cons.mp hb with rfl | hb'
    · rfl
    · exact absurd (hab ▸ List.mem_map_of_mem (f := f) hb') hn.1
    · exact absurd (hab ▸ List.mem_map_of_mem (f := f) ha') hn.1
    · exact ih hn.2 a ha' b hb' hab

theorem nodup_of_map_nodup {α β : Type} (f : α → β) : ∀ (l : List α), (l.map f).Nodup → l.Nodup := by
  intro l
  induction l with
  | nil => intro _; exact List.nodup_nil
  | cons c rest ih =>
    intro hn
    rw [List.map_cons, List.nodup_cons] at hn
    exact List.nodup_cons.mpr ⟨fun h => hn.1 (List.mem_map_of_mem (f := f) h), ih hn.2⟩

/-- distinct bindings of a context with distinct names have distinct `Fst` temporaries -/
theorem getPosition_injective {ctx : Ctx} {a b : Nat} {p : Nat}
    (ha : getPosition ctx a = some p) (hb : getPosition ctx b = some p) : a = b := by
  induction ctx generalizing p with
  | nil => simp [getPosition] at ha
  | cons c rest ih =>
    simp only [getPosition] at ha hb
    by_cases hca : c.1 = a
    · by_cases hcb : c.1 = b
      · exact hca.symm.trans hcb
      · have h1 : (c.1 == a) = true := by simpa using hca
        have h2 : ¬ (c.1 == b) = true := by simpa using hcb
        simp only [h1, if_true, Option.some.injEq] at ha
        simp only [h2] at hb
        cases hr : getPosition rest b with
        | none => simp [hr] at hb
        | some q => simp [hr] at hb; omega
    · have h1 : ¬ (c.1 == a) = true := by simpa using hca
      simp only [h1] at ha
      by_cases hcb : c.1 = b
      · have h2 : (c.1 == b) = true := by simpa using hcb
        simp only [h2, if_true, Option.some.injEq] at hb
        cases hr : getPosition rest a with
        | none => simp [hr] at ha
        | some q => simp [hr] at ha; omega
      · have h2 : ¬ (c.1 == b) = true := by simpa using hcb
        simp only [h2] at hb
        cases hra : getPosition rest a with
        | none => simp [hra] at ha
        | some qa =>
          cases hrb : getPosition rest b with
          | none => simp [hrb] at hb
          | some qb =>
            simp [hra] at ha; simp [hrb] at hb
            exact ih (p := qa) hra (by rw [hrb]; congr 1; omega)

theorem variableTemporary_injective {tfp : Nat → Option Nat} (hinj : TfpInjective tfp) {ctx : Ctx}
    {a b t : Nat} (ha : variableTemporary tfp 0 ctx a = some t) (hb : variableTemporary tfp 0 ctx b = some t) :
    a = b := by
  unfold variableTemporary at ha hb
  cases hpa : getPosition ctx a with
  | none => simp [hpa] at ha
  | some pa =>
    cases hpb : getPosition ctx b with
    | none => simp [hpb] at hb
    | some pb =>
      simp only [hpa] at ha; simp only [hpb] at hb
      have := hinj _ _ _ ha hb
      have hp : pa = pb := by omega
      subst hp
      exact getPosition_injective hpa hpb

/-- C11 (single release).  In a context with distinct names, a dropped object variable `b` (no new variable
    is bound to it) is erased EXACTLY ONCE: the emitted refcount code contains exactly one `erase` of its
    `Fst` temporary. -/
theorem C11_erase_once (tfp : Nat → Option Nat) (hinj : TfpInjective tfp) (re : Rearrange) (ctx : Ctx)
    (hnd : (ctx.map (·.1)).Nodup) (b : Nat × Chi) (hb : b ∈ ctx) (hext : b.2 ≠ Chi.ext)
    (hdrop : targetCount re b.1 = 0) (t : Nat) (ht : variableTemporary tfp 0 ctx b.1 = some t) :
    (ctx.flatMap (refOpsFor tfp re ctx)).count (.erase t) = 1 := by
  have hctx : ctx.Nodup := nodup_of_map_nodup _ ctx hnd
  refine count_flatMap_of_unique _ _ ctx b hb hctx ?_ ?_
  · rw [refOpsFor_erase_count]; simp [hext, ht, hdrop]
  · intro b' hb' hne
    rw [refOpsFor_erase_count]
    have : ¬ (b'.2 ≠ Chi.ext ∧ variableTemporary tfp 0 ctx b'.1 = some t ∧ targetCount re b'.1 = 0) := by
      rintro ⟨_, hvt, _⟩
      have hid : b'.1 = b.1 := variableTemporary_injective hinj hvt ht
      -- same name in a context with distinct names: same binding
      have : b' = b := eq_of_map_nodup _ ctx hnd b' hb' b hb hid
      exact hne this
    simp [this]

/-- a variable that is kept (at least one new variable bound to it), or an `ext` variable, is never erased -/
theorem C11_no_erase_of_kept (tfp : Nat → Option Nat) (hinj : TfpInjective tfp) (re : Rearrange) (ctx : Ctx)
    (hnd : (ctx.map (·.1)).Nodup) (b : Nat × Chi) (hb : b ∈ ctx)
    (hkeep : b.2 = Chi.ext ∨ targetCount re b.1 ≠ 0) (t : Nat)
    (ht : variableTemporary tfp 0 ctx b.1 = some t) :
    (ctx.flatMap (refOpsFor tfp re ctx)).count (.erase t) = 0 := by
  refine count_flatMap_zero _ _ ctx ?_
  intro b' hb'
  rw [refOpsFor_erase_count]
  have : ¬ (b'.2 ≠ Chi.ext ∧ variableTemporary tfp 0 ctx b'.1 = some t ∧ targetCount re b'.1 = 0) := by
    rintro ⟨hne, hvt, h0⟩
    have hid : b'.1 = b.1 := variableTemporary_injective hinj hvt ht
    have hbb : b' = b := eq_of_map_nodup _ ctx hnd b' hb' b hb hid
    subst hbb
    rcases hkeep with h | h
    · exact hne h
    · exact h h0
  simp [this]

/-- C11 (single share).  An object variable with `k + 2` targets gets exactly one `share _ (k + 1)` on its
    `Fst` temporary ("the number of extra copies"). -/
theorem C11_share_ops (tfp : Nat → Option Nat) (re : Rearrange) (ctx : Ctx) (b : Nat × Chi)
    (hext : b.2 ≠ Chi.ext) (t : Nat) (ht : variableTemporary tfp 0 ctx b.1 = some t) (k : Nat)
    (hk : targetCount re b.1 = k + 2) :
    refOpsFor tfp re ctx b = [.comment 1 b.1, .share t (k + 1)] := by
  simp [refOpsFor, hext, ht, hk]

/-! ## Non-vacuity: context [1:prd, 2:ext, 3:cns], new variables 7 := 1, 8 := 1, 9 := 2  (3 is dropped) -/

def ctxC : Ctx := [(1, .prd), (2, .ext), (3, .cns)]
def reC : Rearrange := [((7, .prd), 1), ((8, .prd), 1), ((9, .ext), 2)]
/-- temporaries: Fst of variable 1 holds object 100, Fst of variable 3 holds object 200, others integers -/
def σC : Nat → Nat := fun t => if t = 0 then 100 else if t = 4 then 200 else 5
example : ctxC.flatMap (refOpsFor genericTemporary reC ctxC) = [.comment 1 1, .share 0 1, .comment 0 3, .erase 4] := rfl
-- object 100 (two new variables): one extra reference; object 200 (dropped): released once; 5: untouched
example : runROps σC (ctxC.flatMap (refOpsFor genericTemporary reC ctxC)) (fun _ => 1) 100 = 2 := by decide
example : runROps σC (ctxC.flatMap (refOpsFor genericTemporary reC ctxC)) (fun _ => 1) 200 = 0 := by decide
example : runROps σC (ctxC.flatMap (refOpsFor genericTemporary reC ctxC)) (fun _ => 1) 5 = 1 := by decide
example : (ctxC.map (bindingDelta genericTemporary reC ctxC σC 100)).sum = 1 := by decide
example : (ctxC.map (bindingDelta genericTemporary reC ctxC σC 200)).sum = -1 := by decide
example : TfpInjective genericTemporary := fun a b c ha hb => by
  simp [genericTemporary] at ha hb; omega
example : (ctxC.flatMap (refOpsFor genericTemporary reC ctxC)).count (.erase 4) = 1 :=
  C11_erase_once genericTemporary (fun a b c ha hb => by simp [genericTemporary] at ha hb; omega)
    reC ctxC (by decide) (3, .cns) (by decide) (by decide) (by decide) 4 (by decide)
-- two old variables holding the SAME object 100, one dropped, one kept: net change −1
def σAlias : Nat → Nat := fun t => if t = 0 ∨ t = 4 then 100 else 5
example : runROps σAlias (ctxC.flatMap (refOpsFor genericTemporary [((7, .prd), 1)] ctxC)) (fun _ => 2) 100 = 1 := by
  decide

end Scc.Props.C11

open Scc.Props.C11 in
#print axioms C11_counts
open Scc.Props.C11 in
#print axioms C11_counts_untouched
open Scc.Props.C11 in
#print axioms C11_erase_once
open Scc.Props.C11 in
#print axioms C11_no_erase_of_kept
open Scc.Props.C11 in
#print axioms C11_share_ops
