/-
  Scc.Props.C01DataChecks — the DECIDABLE per-program predicates of the end-to-end theorems of
  Props/C01Final.lean (`C01_data_fragment`, `C01_statement_final`).  Executable; kept apart from the proof
  files so that the driver `Scc.Pipeline.Links.linksLine` (linked into `sccmodel`) evaluates them on every
  program of every run (tag `data`).  Soundness of every conjunct w.r.t. the proof-side predicate it stands
  for (`X86.DataProg`, `X86.ProgInRange`, `X86.C14_namesTextSafe`, `(X86.Ref.labs routine).Nodup`,
  `C06Generic.CodeFits`, …) is proved in Props/C01Final.lean.

    `C01_backChecks p'`  what the x86-64 link needs of the linearized program S5 and of the routine emitted
                         for it, whatever the statement forms (data AND closures):
        `C01_labelSafe`      `LabelSafe S5` (C14: no two generated labels coincide on the mock code);
        capacity             `progCap S5 ≤ 133`: every context the positional machine can reach has at most
                             133 variables = 266 temporaries (utils.rs temporary_from_position; with it
                             `compileX86` cannot fail: `C12_codegen_x86_ok`);
        `C01_progInRangeB`   literals are i64 values, < 4·10^8 xtors per type, < 2^31 pairs per `subst`;
        `C01_namesTextSafe`  the names of S5 consist of symbol characters of the loader
                             (= `X86.C14_namesTextSafe`; with the range check it gives, by the THEOREM
                             `C14_routine_loads`, that the machine's parser reads the emitted text back);
        `C01_mockFitsB`      the mock code of S5 (Theorem A's code) has fewer than 2^64 instructions
                             (both hook settings);
        `C01_routineOkB`     the labels DEFINED in the emitted routine are pairwise distinct and the routine
                             is shorter than 2^63 bytes (both hook settings).
    `C01_dataProgB q5`   executable form of `X86.DataProg`: no `create`, no `invoke`.
    `C01_dataChecks p'`  = `C01_fragChecks` (fun2core's fragment) ∧ `C01_backChecks` ∧ `C01_dataProgB S5`:
                         THE hypothesis of `C01_data_fragment`.
-/
import Scc.Props.C01Checks
import Scc.X86.LoaderNames

namespace Scc.Props

open Scc Scc.Pipeline
open Scc.Props.C14Generic (LabelSafe)

mutual
  /-- executable form of `X86.Ref.DataStmt`: no closures (`create` / `invoke`) -/
  def C01_dataStmtB : AxCut.Stmt → Bool
    | .lit _ _ next _ => C01_dataStmtB next
    | .op _ _ _ _ next _ => C01_dataStmtB next
    | .print _ _ next _ => C01_dataStmtB next
    | .ifc _ _ _ t e => C01_dataStmtB t && C01_dataStmtB e
    | .exit _ => true
    | .call _ _ => true
    | .subst _ next => C01_dataStmtB next
    | .letS _ _ _ _ next _ => C01_dataStmtB next
    | .switch _ _ clauses _ => C01_dataClausesB clauses
    | .create _ _ _ _ _ _ _ => false
    | .invoke _ _ _ _ => false
  def C01_dataClausesB : AxCut.Clauses → Bool
    | .nil => true
    | .cons _ _ body rest => C01_dataStmtB body && C01_dataClausesB rest
end

/-- executable form of `X86.DataProg` (Props/C06X86Heap.lean): a program with data types, no closures -/
def C01_dataProgB (q : AxCut.Prog) : Bool := q.defs.all fun d => C01_dataStmtB d.body

/-- characters of a symbol of the x86-64 loader that are not line breaks (= `X86.Loader.okcX`) -/
def C01_okc (c : Char) : Bool := X86.isSymChar c && c != '\n'

/-- the names of the linearized program are text-safe (= `X86.C14_namesTextSafe`, Props/C14Loader.lean) -/
def C01_namesTextSafe (q : AxCut.Prog) : Bool := X86.Loader.progNamesOK C01_okc q

/-- the labels defined in a routine (= `X86.Ref.labs`) -/
def C01_labsB (cs : List X86.Code) : List String := cs.filterMap X86.codeLabelDef

/-- size of a routine in bytes -/
def C01_routineBytes (cs : List X86.Code) : Nat := (cs.map X86.codeSize).sum

/-- the mock code of `q5` has fewer than 2^64 items, hence fewer than 2^64 instructions
    (`C06Generic.CodeFits`); that the mock generator SUCCEEDS is a theorem (`Backend.Total.mock_compile_ok`) -/
def C01_mockFitsB (hooks : Bool) (q5 : AxCut.Prog) : Bool :=
  match (Backend.compile Backend.mockSym hooks q5).run 0 with
  | .ok ((ops, _), _) => decide (ops.length < 2 ^ 64)
  | .error _ => true

/-- the routine that the x86-64 back end produces for `q5`, if there is one, defines every label once
    and is shorter than 2^63 bytes -/
def C01_routineOkB (hooks : Bool) (q5 : AxCut.Prog) : Bool :=
  match X86.compileX86 q5 hooks 0 with
  | .ok (body, nargs) =>
    match X86.intoRoutine body nargs with
    | .ok routine => decide (C01_labsB routine).Nodup && decide (C01_routineBytes routine < 2 ^ 63)
    | .error _ => true
  | .error _ => true

/-- **the decidable side conditions of the x86-64 link** (data and closures alike), see the header -/
def C01_backChecks (p' : Fun.CheckedProgram) : Bool :=
  C01_labelSafe p' &&
  match stages p' with
  | .ok st =>
    decide (AxCut.Pos.progCap st.s5 ≤ 133) && C01_progInRangeB st.s5 && C01_namesTextSafe st.s5 &&
    C01_mockFitsB true st.s5 && C01_mockFitsB false st.s5 &&
    C01_routineOkB true st.s5 && C01_routineOkB false st.s5
  | .error _ => false

/-- **the data fragment, ONE predicate**: fun2core's fragment (`C01_fragChecks`: `fragOk` and `coreClosed`),
    the side conditions of the x86-64 link, and no closures in the linearized program.  Decidable.  For such
    programs `C01_data_fragment` (Props/C01Final.lean) holds with no hypothesis left. -/
def C01_dataChecks (p' : Fun.CheckedProgram) : Bool :=
  C01_fragChecks p' && C01_backChecks p' &&
  match stages p' with
  | .ok st => C01_dataProgB st.s5
  | .error _ => false

end Scc.Props
