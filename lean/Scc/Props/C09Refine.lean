/-
  Scc.Props.C09Refine — THE HEAP REFINEMENT (backend-independent part of C06–C08; the bridge that
  Props/C09.lean leaves open "from histories of heap operations to executions of generated code"):
  the abstract heap of the abstract backend machine `Scc.Backend.Abs` (objects `id ↦ (count, fields)`
  with EXACT counts, IMMEDIATE recursive erase; the heap of Theorem A, `Scc.Backend.Sim.HeapOK`) is
  represented by a state of the block-level heap model `Scc.Heap.HState` (64-byte blocks of three
  fields chained by links, linear free list + lazy free list with DEFERRED erasure; the model that the
  memory contracts of all three backends — Scc/X86/MemProofs*, Scc/A64/MemProofs*, Scc/RV/MemProofs* —
  are stated against), and every abstract heap operation commutes with the block-level operation the
  backends emit for it.

  The relation `HRef h rs next s ι` (Scc/Heap/RefineDefs.lean): `ι : id ↦ address of the head block`;
  the abstract heap is well formed (`HeapOK` w.r.t. the roots `rs`, children older than parents), the
  block-level state satisfies the C09 invariant `InvS` w.r.t. the roots `rs.map ι` (REUSED: every
  preservation proof of Scc/Heap/Proofs*.lean is used as is), every abstract object lies at `ι id` with
  the shape `store` produces (`ObjAt`), distinct objects occupy disjoint chains.  Blocks that are alive at
  block level but abstractly dead (children of deferred blocks) are exactly the blocks of `live` outside
  the chains; no clause mentions them, and none mentions the counts: `head_count_ge` (stored count =
  abstract count + references from such blocks ≥ abstract count) follows from the two counting
  invariants.

  * `HeapRefinement_statement` — the full statement (init, share, erase, load, store), a `def : Prop`.
  * PROVED, all of it: `C09R_heap_refinement : HeapRefinement_statement`, from `C09R_init`, `C09R_share`,
    `C09R_erase`, `C09R_load` (both paths of the emitted code: release / share — when an abstractly
    unique object is still referenced by a block that is alive only at block level, the emitted code
    takes the shared path although the abstract machine frees the object; the results are related all
    the same), `C09R_store` (`Memory::store` of the images of the fields of a new object, chains of any
    length; the address map is extended at the fresh id by the pointer returned; needs room for the
    blocks in the sense of C10: frontier + 64·(fields + 1) ≤ limit).  Also `C09R_count` (the counting
    lemma) and `C09R_chains_live` (every block of every abstract object is live at block level).
  * NOT covered here (the next layer): that the abstract operations are the ones Theorem A's steps
    perform and that the block-level operations are what the emitted instruction sequences compute
    (the latter: the memory contracts Scc/X86/MemProofs*, Scc/A64/MemProofs*, Scc/RV/MemProofs*).
-/
import Scc.Heap.RefineStoreObj

namespace Scc.Heap.Refine

open Scc.Heap
open Scc.Backend.Abs (Heap Obj Word)
open Scc.Backend.Sim (HeapOK)

/-! ## the statement -/

/-- `share ref k` ↔ `share_block_n` -/
def HeapRefinement_share_statement : Prop :=
  ∀ (h : Heap) (rs : List Nat) (next : Nat) (s : HState) (ι : Nat → Nat) (ref : Word) (k : Nat),
    HRef h rs next s ι → (ref ≠ 0 → ref.toNat ∈ rs) →
    ∃ h' s', h.share ref k = .ok h' ∧ shareBlock s (imgW ι ref) k = .ok s' ∧
      HRef h' (rs ++ (List.replicate k (if ref != 0 then [ref.toNat] else [])).flatten) next s' ι

/-- `erase ref` ↔ `erase_block` (the reference `ref` is a root that is given up) -/
def HeapRefinement_erase_statement : Prop :=
  ∀ (h : Heap) (rs : List Nat) (next : Nat) (s : HState) (ι : Nat → Nat) (ref : Word),
    HRef h (rs ++ (if ref != 0 then [ref.toNat] else [])) next s ι →
    ∃ h' s', h.erase ref = .ok h' ∧ eraseBlock s (imgW ι ref) = .ok s' ∧ HRef h' rs next s' ι

/-- `load` of object `id` (a root that is consumed; its children become roots) ↔ `Memory::load` -/
def HeapRefinement_load_statement : Prop :=
  ∀ (h : Heap) (rs : List Nat) (next : Nat) (s : HState) (ι : Nat → Nat) (id : Nat) (o : Obj),
    HRef h (rs ++ [id]) next s ι → h.get id = some o →
    ∃ h' s', loadAbs h id o = .ok h' ∧
      loadObj s (ι id) (o.fields.map kindB) = .ok (s', o.fields.map (fieldImg ι)) ∧
      HRef h' (rs ++ o.children) next s' ι

/-- `store` of a new object with fields `fields` (its non-null pointer fields are roots that are
consumed; the new object is a root) ↔ `Memory::store`, given room for the blocks -/
def HeapRefinement_store_statement : Prop :=
  ∀ (h : Heap) (rsKeep : List Nat) (next : Nat) (s : HState) (ι : Nat → Nat) (o : Obj),
    o.count = 0 → o.fields ≠ [] → next < 2 ^ 64 →
    HRef h (rsKeep ++ o.children) next s ι →
    (∃ lin lazy live F, InvS s ((rsKeep ++ o.children).map ι) [] lin lazy live F ∧
      F + 64 * o.fields.length + 64 ≤ s.limit) →
    ∃ s' p, storeObj s (o.fields.map (fieldImg ι)) = .ok (s', p) ∧
      HRef ((next, o) :: h) (rsKeep ++ [next]) (next + 1) s' (fun i => if i = next then p else ι i)

/-- the initial states are related -/
def HeapRefinement_init_statement : Prop :=
  ∀ (base limit : Nat) (ι : Nat → Nat), 0 < base → base + 128 ≤ limit →
    HRef [] [] 1 (init base limit) ι

/-- THE HEAP REFINEMENT -/
def HeapRefinement_statement : Prop :=
  HeapRefinement_init_statement ∧ HeapRefinement_share_statement ∧ HeapRefinement_erase_statement ∧
  HeapRefinement_load_statement ∧ HeapRefinement_store_statement

/-! ## proved -/

theorem C09R_share : HeapRefinement_share_statement :=
  fun _ _ _ _ _ ref k R hmem => href_share R ref k hmem

theorem C09R_erase : HeapRefinement_erase_statement :=
  fun _ _ _ _ _ ref R => href_erase ref R

theorem C09R_load : HeapRefinement_load_statement :=
  fun _ _ _ _ _ _ _ R hg => href_load R hg

/-- the counting lemma: the count stored in the head block is at least the abstract count -/
theorem C09R_count {h : Heap} {rs : List Nat} {next : Nat} {s : HState} {ι : Nat → Nat}
    (R : HRef h rs next s ι) {e : Nat × Obj} (he : e ∈ h) : e.2.count ≤ s.mem.get (ι e.1) :=
  head_count_ge R he

/-- every block of every abstract object is live at block level -/
theorem C09R_chains_live {h : Heap} {rs : List Nat} {next : Nat} {s : HState} {ι : Nat → Nat}
    (R : HRef h rs next s ι) {lin lazy live : List Nat} {F : Nat}
    (I : InvS s (rs.map ι) [] lin lazy live F) :
    ∀ e ∈ h, ∀ b ∈ blocksOf s.mem.get (ι e.1) e.2.fields, b ∈ live :=
  fun e he => chains_live I R.abs R.ord R.shape _ e he (Nat.le_refl _)

theorem C09R_init : HeapRefinement_init_statement := by
  intro base limit ι hb hl
  refine ⟨⟨by omega, by simp, by simp, by simp, ?_⟩, by simp, ?_, by simp, by simp⟩
  · intro id hid
    simp [Scc.Backend.Sim.refCount] at hid
  · exact ⟨[base], [], [], base + 64, init_inv hb hl⟩

theorem C09R_store : HeapRefinement_store_statement :=
  fun _ _ _ _ _ _ hc hne hn R hroom => href_store hc hne hn R hroom

/-- THE HEAP REFINEMENT holds -/
theorem C09R_heap_refinement : HeapRefinement_statement :=
  ⟨C09R_init, C09R_share, C09R_erase, C09R_load, C09R_store⟩

/-! ## non-vacuity -/

/-- an object with one integer field and one null pointer field -/
def exObj : Obj := { count := 0, fields := [{ chi := .ext, ptr := 0, val := 7 }, { chi := .prd, ptr := 0, val := 5 }] }

/-- storing `exObj` into the initial heap and loading it again: both block-level operations succeed,
the fields come back, and the final state represents the abstract heap after the abstract `load` -/
example : ∃ s1 p h2 s2, storeObj (init 4096 8192) [Field.int 7, Field.ptr 0 5] = .ok (s1, p) ∧
    loadAbs [(1, exObj)] 1 exObj = .ok h2 ∧
    loadObj s1 p [false, true] = .ok (s2, [Field.int 7, Field.ptr 0 5]) ∧
    HRef h2 [] 2 s2 (fun i => if i = 1 then p else 0) := by
  have R0 := C09R_init 4096 8192 (fun _ => 0) (by decide) (by decide)
  obtain ⟨s1, p, h1, R1⟩ := C09R_store [] [] 1 (init 4096 8192) (fun _ => 0) exObj rfl (by simp [exObj])
    (by decide) (by simpa [exObj, Obj.children] using R0)
    ⟨[4096], [], [], 4096 + 64, by
      have := init_inv (base := 4096) (limit := 8192) (by decide) (by decide)
      simpa [exObj, Obj.children] using this, by simp [exObj]; decide⟩
  obtain ⟨h2, s2, e1, e2, R2⟩ := C09R_load _ [] 2 s1 _ 1 exObj (by simpa using R1) (by rfl)
  refine ⟨s1, p, h2, s2, ?_, e1, ?_, by simpa [exObj, Obj.children] using R2⟩
  · exact h1
  · exact e2

/-! ## non-vacuity: sharing the null reference -/

/-- the initial block-level heap represents the empty abstract heap, and after sharing the null
reference it still does (the degenerate instance of `C09R_share`) -/
example : ∃ h' s', (Heap.share ([] : Heap) 0 2 = Except.ok h') ∧ shareBlock (init 4096 8192) 0 2 = .ok s' ∧
    HRef h' [] 1 s' (fun _ => 0) := by
  obtain ⟨h', s', h1, h2, R⟩ := C09R_share [] [] 1 (init 4096 8192) (fun _ => 0) 0 2
    (C09R_init 4096 8192 _ (by decide) (by decide)) (fun h => absurd rfl h)
  refine ⟨h', s', h1, by simpa [imgW] using h2, ?_⟩
  simpa using R

end Scc.Heap.Refine

#print axioms Scc.Heap.Refine.C09R_share
#print axioms Scc.Heap.Refine.C09R_erase
#print axioms Scc.Heap.Refine.C09R_load
#print axioms Scc.Heap.Refine.C09R_count
#print axioms Scc.Heap.Refine.C09R_chains_live
#print axioms Scc.Heap.Refine.C09R_init
#print axioms Scc.Heap.Refine.C09R_store
#print axioms Scc.Heap.Refine.C09R_heap_refinement
