/-
  Scc.Props.C07A64Int — property C07 (AArch64 code generation preserves AxCut semantics), THEOREM B for
  AArch64, integer fragment: the REFINEMENT abstract backend machine ⟶ AArch64 SPEC machine
  (Scc/A64/Ref*.lean) on the code emitted by `compileProg a64Backend` / `intoRoutine`, and its composition
  with Theorem A (Props/C06Generic.lean) and with the proved loader round trip (Props/C14LoaderA64*.lean).
  The AArch64 analogue of the section "Theorem B" of Props/C06X86.lean.

    `RepA64` (Scc/A64/RefDefs.lean)  the representation relation `Abs.Config ↔ A64.State × trace`: word part
      of position i (abstract temporary 2i+1) ↔ `posTemp (2i+1)` = logical register X5,X7,…,X29 (the
      machine's X5…X17, X20…X30 — the last one is the LINK REGISTER) / spill slot 1…255
      (Scc/A64/Consts.lean via utils.rs temporary_from_position); RET1 ↔ X0; scratch cell of parallel moves
      ↔ TEMP = X2 (`Mode.pm`; `mov` goes through TEMP2 = X3, so TEMP is never disturbed); equal traces; SP at
      its boundary value and the callee-save area holding the entry values of X19–X30 (`CC.Core`); program
      counters related by `At` (suffixes of mock code / routine related by the rendering relation `Seg`; the
      machine's program counter is the number of ITEMS before the list position: labels, directives and
      plain comments occupy no item of the laid-out program, `#ctx` hook comments do).
    `C07_rendering` (`seg_compile`)  whenever the AArch64 generator succeeds on a linearly typed integer
      program, the mock generator succeeds from the same label counter and the AArch64 body renders the mock
      code instruction by instruction (parametricity of Generic.lean in the backend, incl. parallel moves).
      No hypothesis on literals: `load_immediate` is correct for every `i64`.
    `C07_init` (`init_sim`)          rung 1: from the machine's entry state (≤ 7 integer arguments in X1–X7) the
      header `preamble ++ setup` (prologue, move_arguments, free pointer) reaches the first code of the body
      in a state that represents the initial abstract configuration.
    `C07_sim_step`, `C07_sim_halt`   rung 2: every step of the abstract machine on
      comment label jumplabel jif jifz li add/sub/mul/div/rem mov print save restore is simulated by the
      AArch64 machine on the rendering (`MSteps`: iterations of `runLoop`), `jumplabel cleanup` by
      `B cleanup` + epilogue, arriving at `RET` with a successful exit check.  `print`: the caller-save
      dance incl. the link register (X30 holds a variable from 13 variables on) — `C13_print_preserves`.
    `C07_int_programs`               rung 3: AxCut positional machine ⟶ AArch64 machine on the program LAID
      OUT from any lines that are the routine (`CC.Lines`, blank lines anywhere), for LabelSafe, LinTyped
      INTEGER programs within capacity (`compileProg` succeeds: ≤ 7 parameters, ≤ 140 variables).
    `C07_int_programs_text`          the same for `A64.run` on the PRINTED TEXT of the routine; the loader
      round trip is PROVED (`C14A_routine_lines`), its hypotheses are the two decidable checks on the
      program (`C14A_inRangeB`, `C14A_namesTextSafe`).
  Rung 4 (let / switch / subst with objects): Props/C07A64Heap.lean.
-/
import Scc.A64.RefCompose
import Scc.Props.C14LoaderA64Compose

namespace Scc.A64
open Scc.AxCut Scc.Backend Scc.Backend.Abs Scc.Backend.Sim Scc.A64.Ref
open Scc.Props.C06Generic (IntProg IntStmt IntCtx Reachable WithinCapacity)
open Scc.Props.C14Generic (LabelSafe)
open Scc.A64.CC (CfgCC cfgCC_default Holds Lines holds_layout)
open Scc.A64.Loader (hookVarsOf)

/-- the AArch64 body RENDERS the mock code (parametricity of the generic generator in the backend) -/
theorem C07_rendering (hooks : Bool) (p : AxCut.Prog) (htp : LinTypedProg p) (hip : IntProg p)
    {c : Nat} {body : List Code} {nargs c1 : Nat}
    (h : (compile a64Backend hooks p).run c = .ok ((body, nargs), c1)) :
    ∃ ops, (compile mockSym hooks p).run c = .ok ((ops, nargs), c1) ∧ Seg .normal ops body .normal :=
  seg_compile hooks p htp hip h

/-- rung 1, the initial state: header of the routine from the machine's entry state -/
theorem C07_init {c : MemCfg} (H : CfgCC c) {hk : Code → Bool} {P : Prog} {routine body : List Code}
    {args : List Word} (hr : intoRoutine body args.length = .ok routine) (Hp : Holds hk P routine) :
    ∃ (hdr : List Code) (σ2 : State),
      routine = hdr ++ body ++ cleanup ∧ (∀ l ∈ labs hdr, l = "asm_main") ∧
      P.labels["asm_main"]? = some (pcOf hk routine 2) ∧
      MSteps P c (entryState c args) (pcOf hk routine 2) [] σ2 (pcOf hk routine hdr.length) [] ∧
      RepA64 c .normal (initConfig 0 args) σ2 [] :=
  init_sim H hr Hp

/-- rung 2: one step of the abstract machine is simulated by the AArch64 machine on the rendering -/
theorem C07_sim_step {c : MemCfg} (H : CfgCC c) {hk : Code → Bool} {P : Prog}
    {ops : List MockOp} {cs hdr body post : List Code} (Hp : Holds hk P cs) (hcs : cs = hdr ++ body ++ post)
    (W : Seg .normal ops body .normal) (hnodup : (labelNames ops).Nodup)
    (hhdr : ∀ n ∈ labelNames ops, n ∉ labs hdr) {cfg cfg' : Config} {g : Mode} {σ : State}
    {out : List (Bool × Word)} {k : Nat}
    (hs : Abs.step (Program.ofOps ops) cfg = .next cfg') (R : RepA64 c g cfg σ out)
    (A : At ops cs cfg.pc k g) :
    ∃ k' σ' out' g', MSteps P c σ (pcOf hk cs k) out σ' (pcOf hk cs k') out' ∧
      RepA64 c g' cfg' σ' out' ∧ At ops cs cfg'.pc k' g' :=
  sim_step H Hp hcs W hnodup hhdr hs R A

/-- rung 2, exit: the halting step `jumplabel cleanup` -/
theorem C07_sim_halt {c : MemCfg} (H : CfgCC c) {hk : Code → Bool} {P : Prog}
    {ops : List MockOp} {cs hdr body : List Code} (Hp : Holds hk P cs) (hcs : cs = hdr ++ body ++ cleanup)
    (W : Seg .normal ops body .normal) (hnodup : (labelNames ops).Nodup)
    (hclean : "cleanup" ∉ labs hdr ++ labelNames ops)
    {cfg : Config} {v : Word} {g : Mode} {σ : State} {out : List (Bool × Word)} {k : Nat}
    (hs : Abs.step (Program.ofOps ops) cfg = .halt (.done v)) (R : RepA64 c g cfg σ out)
    (A : At ops cs cfg.pc k g) :
    ∃ kL σL, MSteps P c σ (pcOf hk cs k) out σL (pcOf hk cs kL) out ∧
      P.items[pcOf hk cs kL]? = some (.instr .ret) ∧ exitCheck c σL = .done v ∧ out = cfg.out :=
  sim_halt H Hp hcs W hnodup hclean hs R A

/-- the iterations `MSteps` are iterations of the machine's run loop (heap monitor off): they consume
fuel, nothing else -/
theorem C07_machine_steps {P : Prog} {cfg : MonCfg} (hh : cfg.heap = false) {σ σ' : State} {pc pc' : Nat}
    {out out' : List (Bool × Word)} (h : MSteps P cfg.mem σ pc out σ' pc' out') (steps blocks : Nat) :
    ∃ n steps', ∀ fuel,
      runLoop P cfg (n + fuel) { σ := σ, pc := pc, out := out, steps := steps, blocks := blocks } =
        runLoop P cfg fuel { σ := σ', pc := pc', out := out', steps := steps', blocks := blocks } :=
  runLoop_msteps hh h steps blocks

/-- rung 3, END TO END for integer programs: from the AxCut positional machine to the AArch64 machine on the
program LAID OUT from lines that are the emitted routine (`Lines`: every instruction parses to its machine
instruction, labels to labels, comments to plain comments or — as `hkv` decides — to `#ctx` hooks; blank
lines anywhere).  Hypotheses: `LabelSafe`, linearly typed, integer statements and `ext` contexts only
(`IntProg`), the AArch64 generator succeeds (capacity of temporary_from_position; `intoRoutine` ok: at most 7
parameters), every context of the run within the capacity of the mock numbering (as in `TheoremA_run_int`),
a sane memory configuration (`CfgCC`), heap monitor off. -/
theorem C07_int_programs (p : AxCut.Prog) (args : List Word) (hooks : Bool) (body routine : List Code)
    (nargs : Nat) (d0 : Def)
    (hsafe : LabelSafe p = true) (htp : LinTypedProg p) (hip : IntProg p)
    (hcomp : compileProg a64Backend p hooks 0 = .ok (body, nargs, routine))
    (hd : p.defs.head? = some d0)
    (hcap : ∀ st, Reachable p ⟨d0.ctx, args.map .int, d0.body⟩ st → WithinCapacity st.ctx)
    (fuel : Nat) (out : List (Bool × Word)) (v : Word) (hrun : Pos.run p args fuel = ⟨out, .done v⟩)
    (cfg : MonCfg) (H : CfgCC cfg.mem) (hheap : cfg.heap = false)
    (hkv : String → Option (List (String × Kind))) (ls : List (Nat × PLine)) (hl : Lines hkv ls routine) :
    ∃ fuel', (runProg (layout ls) args fuel' cfg).out = out ∧ (runProg (layout ls) args fuel' cfg).res = .done v :=
  int_programs_holds p args hooks body routine nargs d0 hsafe htp hip hcomp hd hcap fuel out v hrun cfg H hheap
    (holds_layout hl)

/-- rung 3 on the TEXT: `A64.run` on the printed routine.  The loader round trip is proved
(`C14A_routine_lines`): its hypotheses are the decidable bounds and names checks on the program; the
well-formedness monitor `wf` is off (with it, `run` first runs `wfCheck`, property C14). -/
theorem C07_int_programs_text (p : AxCut.Prog) (args : List Word) (hooks : Bool) (body routine : List Code)
    (nargs : Nat) (d0 : Def)
    (hsafe : LabelSafe p = true) (htp : LinTypedProg p) (hip : IntProg p)
    (hcomp : compileProg a64Backend p hooks 0 = .ok (body, nargs, routine))
    (hd : p.defs.head? = some d0)
    (hcap : ∀ st, Reachable p ⟨d0.ctx, args.map .int, d0.body⟩ st → WithinCapacity st.ctx)
    (fuel : Nat) (out : List (Bool × Word)) (v : Word) (hrun : Pos.run p args fuel = ⟨out, .done v⟩)
    (cfg : MonCfg) (H : CfgCC cfg.mem) (hheap : cfg.heap = false) (hwf : cfg.wf = false)
    (hrange : C14A_inRangeB p = true) (hnames : C14A_namesTextSafe p = true) :
    ∃ fuel', (run (printProg routine) args fuel' cfg).out = out ∧
      (run (printProg routine) args fuel' cfg).res = .done v := by
  obtain ⟨ls, hparse, hl⟩ := C14A_routine_lines hrange hnames hcomp
  obtain ⟨fuel', h1, h2⟩ := C07_int_programs p args hooks body routine nargs d0 hsafe htp hip hcomp hd hcap
    fuel out v hrun cfg H hheap hookVarsOf ls hl
  refine ⟨fuel', ?_, ?_⟩ <;>
  · unfold run
    simp only [hparse, hwf, Bool.false_eq_true, if_false]
    assumption

/-! ### non-vacuity: the counting loop through `call` (Props/C13A64.lean, compiled WITH hooks) -/

/-- the loop started with n = 3, acc = 0: every hypothesis of `C07_int_programs_text` holds, so the AArch64
machine on the PRINTED TEXT of the emitted routine prints 6 and returns 6 -/
example : ∃ (routine : List Code) (fuel' : Nat),
    (run (printProg routine) [3, 0] fuel' {}).out = [(true, 6)] ∧
    (run (printProg routine) [3, 0] fuel' {}).res = .done 6 := by
  have hok : ∃ r, compileProg a64Backend C13_loopProg true 0 = .ok r := ⟨_, rfl⟩
  obtain ⟨⟨body, nargs, routine⟩, hcomp⟩ := hok
  have hrun : Pos.run C13_loopProg [3, 0] 40 = ⟨[(true, 6)], .done 6⟩ := by decide
  obtain ⟨fuel', h1, h2⟩ := C07_int_programs_text C13_loopProg [3, 0] true body routine nargs C13_loopDef
    (by decide) (linTypedCheck_sound C13_loopProg rfl) C13_loopProg_int hcomp rfl
    (Scc.Props.C06Generic.capacity_of_run C13_loopProg 40 _ (by decide) (by decide)) 40 _ _ hrun {}
    cfgCC_default rfl rfl (by decide) (by decide)
  exact ⟨routine, fuel', h1, h2⟩

end Scc.A64

#print axioms Scc.A64.C07_rendering
#print axioms Scc.A64.C07_init
#print axioms Scc.A64.C07_sim_step
#print axioms Scc.A64.C07_sim_halt
#print axioms Scc.A64.C07_machine_steps
#print axioms Scc.A64.C07_int_programs
#print axioms Scc.A64.C07_int_programs_text
