/-
  Scc.Props.C12Codegen — the code-generator link of property C12 ("every later stage … code generation
  terminates without an internal error …; a user-facing capacity diagnostic is the only permitted way
  not to produce code") as a THEOREM about the models of the three code generators.

  What is proved (for ALL linearized programs, hook settings and label-counter values):
  * `C12_codegenTotal_of_linTyped`   `LinTypedProg q5` (what C05 proves about linearize's output) and
        `q5.defs ≠ []` imply `C12_codegenTotal q5` (Props/C12.lean): x86-64 `compileX86` and `intoRoutine`,
        AArch64 `compileProg`, RISC-V `compileRoutine` return `ok` or an error whose message is one of
        `C12_capacityErrors`.  NO other error/panic string of the models is reachable from typed input.
    Per backend, with the exact messages:
      `C12_codegen_x86`        `compileX86`: ok | "Out of temporaries"
      `C12_routine_x86`        `intoRoutine` after a successful `compileX86`: ok if the first definition has
                               at most 5 parameters (else "too many arguments for main", `X86.Total.intoRoutine_resOk`)
      `C12_codegen_a64`        `compileProg`: ok | "Out of temporaries" | "too many arguments for main"
      `C12_codegen_a64_main`   … and not the latter if the first definition has at most 7 parameters
      `C12_codegen_rv`         `compileRoutine`: ok | "Out of registers" | "not implemented in RISC-V backend"
  * under the STATIC capacity check (`Pos.progCap`, the bound of Scc/AxCut/PosCapacity.lean on the length of
    every context; decidable per program: `C12_capacityX86/A64/RV`) there is NO error at all:
      `C12_codegen_x86_ok`     2 * progCap q5 ≤ 267  ⇒ `compileX86` is `ok`
      `C12_codegen_a64_ok`     2 * progCap q5 ≤ 281 and ≤ 7 parameters of the first definition ⇒ `compileProg` is `ok`
      `C12_codegen_rv_ok`      2 * progCap q5 ≤ 28   ⇒ `compileRoutine` is `ok` | "not implemented in RISC-V backend"
    (267, 281, 28 = the number of positions with a temporary/register; tight: X86/A64/RV/Total.lean).
  * `C12_link_codegen_proved`  the link `C12_link_codegen` of Props/C12.lean FROM THE THREE TYPING LINKS
        (`LinTypedProg st.s5` is derived from them by C05; `stages p' = .ok st` alone does not give it);
    `C12_chain3`               hence `C12_statement` from the three typing links only;
    `C12_conclusion_of_linkChecks`  for ONE program: the full conclusion of C12 (code generators included)
        from the decidable predicate `C12_linkChecks p'` alone — no link hypothesis.
  What remains a `def … : Prop` in Props/C12.lean: the three typing links `C12_link_fun2core`,
  `C12_link_focus`, `C12_link_shrink` (not the subject of this file).
  Proofs: Scc/Backend/Total{Defs,PM,Subst,Keys,Gen}.lean (generic generator, any `TotalBackend`),
  Scc/X86/Total.lean, Scc/A64/Total.lean, Scc/RV/Total.lean (the three instances).
-/
import Scc.Props.C12
import Scc.Backend.TotalGen
import Scc.X86.Total
import Scc.A64.Total
import Scc.RV.Total

namespace Scc.Props

open Scc Scc.Pipeline Scc.AxCut Scc.Backend.Total
open Scc.Fun.Check (checkProgram programNamesOk)

/-! ## from `ResOk` to `C12_okOrCapacity` -/

theorem C12_okOrCapacity_of_resOk {α : Type} {cap : String → Prop}
    (hcap : ∀ e, cap e → e ∈ C12_capacityErrors) {r : Except String α} (h : ResOk cap r) :
    C12_okOrCapacity r := by
  cases r with
  | ok a => trivial
  | error e => exact hcap e h

theorem ResOk.false_ok {α : Type} {r : Except String α} (h : ResOk (fun _ => False) r) :
    ∃ a, r = .ok a := by
  cases r with
  | ok a => exact ⟨a, rfl⟩
  | error e => exact absurd h id

/-- the number of arguments returned by `compile` is the length of the first definition's context -/
theorem compile_nargs {Code T : Type} (B : Backend.Backend Code T) (hooks : Bool) (p : Prog) (c : Nat)
    (body : List Code) (nargs k : Nat)
    (h : (Backend.compile B hooks p).run c = .ok ((body, nargs), k)) :
    ∃ d0 ds, p.defs = d0 :: ds ∧ nargs = d0.ctx.length := by
  unfold Backend.compile Backend.compileR at h
  cases hd : p.defs with
  | nil => rw [hd] at h; cases h
  | cons d0 ds =>
    rw [hd] at h
    dsimp only at h
    rw [← hd] at h
    simp only [StateT.run_bind] at h
    cases ht : (Backend.translateR B hooks Backend.natRen p.types p.defs).run c with
    | error e => rw [ht] at h; cases h
    | ok r =>
      obtain ⟨blocks, k'⟩ := r
      rw [ht] at h
      have h' : (Except.ok ((Backend.assemble B blocks (p.defs.map (·.name)), d0.ctx.length), k') :
          Except String ((List Code × Nat) × Nat)) = .ok ((body, nargs), k) := h
      injection h' with h'
      injection h' with h1 h2
      injection h1 with h3 h4
      exact ⟨d0, ds, rfl, h4.symm⟩

/-! ## the three code generators on linearly typed programs -/

/-- x86-64, axcut2backend + axcut2x86_64: code or "Out of temporaries" -/
theorem C12_codegen_x86 (q5 : Prog) (htp : LinTypedProg q5) (hne : q5.defs ≠ []) (hooks : Bool)
    (c : Nat) : ResOk X86.Total.capX86 (X86.compileX86 q5 hooks c) :=
  X86.Total.compileX86_resOk_of hooks c q5
    (compile_resOk X86.Total.x86_total hooks q5 htp hne trivial c)

/-- x86-64, into_routine.rs: no failure when the first definition has at most 5 parameters -/
theorem C12_routine_x86 (q5 : Prog) (hooks : Bool) (c : Nat) (body : List X86.Code) (nargs : Nat)
    (hmain : ∀ d0 ds, q5.defs = d0 :: ds → d0.ctx.length ≤ 5)
    (h : X86.compileX86 q5 hooks c = .ok (body, nargs)) : ∃ r, X86.intoRoutine body nargs = .ok r := by
  unfold X86.compileX86 at h
  cases hr : (Backend.compile X86.x86Backend hooks q5).run c with
  | error e => rw [hr] at h; cases h
  | ok r =>
    obtain ⟨⟨body', nargs'⟩, k⟩ := r
    rw [hr] at h
    injection h with h
    injection h with h1 h2
    subst h1 h2
    obtain ⟨d0, ds, hd, hn⟩ := compile_nargs _ _ _ _ _ _ _ hr
    exact X86.Total.intoRoutine_ok body' (by rw [hn]; exact hmain d0 ds hd)

/-- AArch64, axcut2backend + axcut2aarch64 + into_routine.rs -/
theorem C12_codegen_a64 (q5 : Prog) (htp : LinTypedProg q5) (hne : q5.defs ≠ []) (hooks : Bool)
    (c : Nat) :
    ResOk (fun e => e = "Out of temporaries" ∨ e = "too many arguments for main")
      (A64.compileProg A64.a64Backend q5 hooks c) :=
  A64.Total.compileProg_resOk A64.a64Backend q5 hooks c
    (compile_resOk A64.Total.a64_total hooks q5 htp hne trivial c)

/-- AArch64 with at most 7 parameters of the first definition: code or "Out of temporaries" -/
theorem C12_codegen_a64_main (q5 : Prog) (htp : LinTypedProg q5) (hne : q5.defs ≠ []) (hooks : Bool)
    (c : Nat) (hmain : ∀ d0 ds, q5.defs = d0 :: ds → d0.ctx.length ≤ 7) :
    ResOk A64.Total.capA64 (A64.compileProg A64.a64Backend q5 hooks c) := by
  have h := compile_resOk A64.Total.a64_total hooks q5 htp hne trivial c
  unfold A64.compileProg
  cases hr : (Backend.compile A64.a64Backend hooks q5).run c with
  | error e => rw [hr] at h; exact h
  | ok r =>
    obtain ⟨⟨body, nargs⟩, k⟩ := r
    dsimp only
    obtain ⟨d0, ds, hd, hn⟩ := compile_nargs _ _ _ _ _ _ _ hr
    obtain ⟨rt, hrt⟩ := A64.Total.intoRoutine_ok body (nargs := nargs) (by rw [hn]; exact hmain d0 ds hd)
    rw [hrt]
    trivial

/-- RISC-V, axcut2backend + axcut2rv64: code, "Out of registers", or the unimplemented print -/
theorem C12_codegen_rv (q5 : Prog) (htp : LinTypedProg q5) (hne : q5.defs ≠ []) (hooks : Bool)
    (c : Nat) : ResOk RV.Total.capRV (RV.compileRoutine q5 hooks c) :=
  RV.Total.compileRoutine_resOk q5 hooks c (compile_resOk RV.Total.rv_total hooks q5 htp hne trivial c)

/-- **`codegen_total`**: on a linearly typed program with at least one definition the three code
    generators return a program or one of the documented capacity errors — for every hook setting and
    every value of the label counter -/
theorem C12_codegenTotal_of_linTyped (q5 : Prog) (htp : LinTypedProg q5) (hne : q5.defs ≠ []) :
    C12_codegenTotal q5 := by
  intro hooks c
  refine ⟨?_, ?_, ?_, ?_⟩
  · refine C12_okOrCapacity_of_resOk ?_ (C12_codegen_x86 q5 htp hne hooks c)
    intro e he; rw [he]; decide
  · intro body nargs _
    refine C12_okOrCapacity_of_resOk ?_ (X86.Total.intoRoutine_resOk body nargs)
    intro e he; rw [he]; decide
  · refine C12_okOrCapacity_of_resOk ?_ (C12_codegen_a64 q5 htp hne hooks c)
    rintro e (he | he) <;> (rw [he]; decide)
  · refine C12_okOrCapacity_of_resOk ?_ (C12_codegen_rv q5 htp hne hooks c)
    rintro e (he | he) <;> (rw [he]; decide)

/-! ## under the static capacity check: no error at all -/

/-- the decidable capacity checks: every context the generator visits (`Pos.progCap`) has a
    temporary / register for both parts of every variable -/
def C12_capacityX86 (q5 : Prog) : Bool := decide (2 * Pos.progCap q5 ≤ 267)
def C12_capacityA64 (q5 : Prog) : Bool := decide (2 * Pos.progCap q5 ≤ 281)
def C12_capacityRV (q5 : Prog) : Bool := decide (2 * Pos.progCap q5 ≤ 28)

theorem C12_codegen_x86_ok (q5 : Prog) (htp : LinTypedProg q5) (hne : q5.defs ≠ [])
    (hcap : C12_capacityX86 q5 = true) (hooks : Bool) (c : Nat) :
    ∃ r, X86.compileX86 q5 hooks c = .ok r := by
  simp only [C12_capacityX86, decide_eq_true_eq] at hcap
  have h := compile_resOk X86.Total.x86_total_fits hooks q5 htp hne (X86.Total.fitsX86_of_le hcap) c
  obtain ⟨a, ha⟩ := ResOk.false_ok h
  unfold X86.compileX86
  rw [ha]
  exact ⟨_, rfl⟩

theorem C12_codegen_a64_ok (q5 : Prog) (htp : LinTypedProg q5) (hne : q5.defs ≠ [])
    (hcap : C12_capacityA64 q5 = true) (hmain : ∀ d0 ds, q5.defs = d0 :: ds → d0.ctx.length ≤ 7)
    (hooks : Bool) (c : Nat) : ∃ r, A64.compileProg A64.a64Backend q5 hooks c = .ok r := by
  simp only [C12_capacityA64, decide_eq_true_eq] at hcap
  have h := compile_resOk A64.Total.a64_total_fits hooks q5 htp hne (A64.Total.fitsA64_of_le hcap) c
  obtain ⟨a, ha⟩ := ResOk.false_ok h
  obtain ⟨⟨body, nargs⟩, k⟩ := a
  obtain ⟨d0, ds, hd, hn⟩ := compile_nargs _ _ _ _ _ _ _ ha
  obtain ⟨rt, hrt⟩ := A64.Total.intoRoutine_ok body (nargs := nargs) (by rw [hn]; exact hmain d0 ds hd)
  unfold A64.compileProg
  rw [ha]
  dsimp only
  rw [hrt]
  exact ⟨_, rfl⟩

theorem C12_codegen_rv_ok (q5 : Prog) (htp : LinTypedProg q5) (hne : q5.defs ≠ [])
    (hcap : C12_capacityRV q5 = true) (hooks : Bool) (c : Nat) :
    ResOk (fun e => e = "not implemented in RISC-V backend") (RV.compileRoutine q5 hooks c) := by
  simp only [C12_capacityRV, decide_eq_true_eq] at hcap
  have h := compile_resOk RV.Total.rv_total_fits hooks q5 htp hne (RV.Total.fitsRV_of_le hcap) c
  unfold RV.compileRoutine
  cases hr : (Backend.compile RV.rvBackend hooks q5).run c with
  | error e => rw [hr] at h; exact h
  | ok r => obtain ⟨⟨ins, n⟩, k⟩ := r; trivial

/-! ## the link of Props/C12.lean -/

/-- **the link `C12_link_codegen`, from the three typing links** (which give `LinTypedProg st.s5` by
    C05 and a first definition by `stages_mainHead`) -/
theorem C12_link_codegen_proved (h2 : C12_link_fun2core) (h3 : C12_link_focus) (h4 : C12_link_shrink) :
    C12_link_codegen := by
  intro p p' st hn hc hv hmc hok
  obtain ⟨st', F⟩ := C12_facts h2 h3 h4 p p' hn hc hv hmc
  have hst : st' = st := by
    have := F.ok; rw [hok] at this; injection this with this; exact this.symm
  subst hst
  obtain ⟨_, _, _, d, ds, hd, _⟩ := stages_mainHead (validMainK_of_validMain hv) hok
  exact C12_codegenTotal_of_linTyped st'.s5 F.lin5 (by rw [hd]; exact List.cons_ne_nil _ _)

/-- **C12 from the three typing links only** -/
theorem C12_chain3 (h2 : C12_link_fun2core) (h3 : C12_link_focus) (h4 : C12_link_shrink) :
    C12_statement :=
  C12_chain h2 h3 h4 (C12_link_codegen_proved h2 h3 h4)

/-- for ONE program: the FULL conclusion of C12 (S1 … S7, code generators included) from the decidable
    predicate `C12_linkChecks p'` — no link hypothesis at all -/
theorem C12_conclusion_of_linkChecks (p : Fun.Program) (p' : Fun.CheckedProgram)
    (hn : programNamesOk p = true) (hc : checkProgram p = .ok p') (hv : validMain p' = true)
    (hlc : C12_linkChecks p' = true) : C12_conclusion p p' := by
  obtain ⟨st, F⟩ := C12_facts_of_checks p p' hn hc hv hlc
  obtain ⟨_, _, _, d, ds, hd, _⟩ := stages_mainHead (validMainK_of_validMain hv) F.ok
  exact ⟨F.wt, F.annotated, st, F.ok, F.input2.typed, wtFsCheck_of_scoped F.scoped3, F.unique3,
    F.wtAx4, F.lin5,
    C12_codegenTotal_of_linTyped st.s5 F.lin5 (by rw [hd]; exact List.cons_ne_nil _ _)⟩

/-- the code generators on the stages of ONE program that passes `C12_linkChecks`, with the parameters
    of `main` counted: x86-64 `intoRoutine` cannot fail when `main` has at most 5 parameters -/
theorem C12_routine_x86_of_linkChecks (p' : Fun.CheckedProgram) (st : Stages)
    (hv : validMain p' = true) (hok : stages p' = .ok st) (hk : mainArity p' ≤ 5)
    (hooks : Bool) (c : Nat) (body : List X86.Code) (nargs : Nat)
    (h : X86.compileX86 st.s5 hooks c = .ok (body, nargs)) : ∃ r, X86.intoRoutine body nargs = .ok r := by
  obtain ⟨_, _, _, d, ds, hd, hlen, _⟩ := stages_mainHead (validMainK_of_validMain hv) hok
  refine C12_routine_x86 st.s5 hooks c body nargs ?_ h
  intro d0 ds0 hd0
  rw [hd] at hd0
  injection hd0 with h1 _
  rw [← h1, hlen]; exact hk

/-! ## non-vacuity: a linearly typed program with a data type, a closure, a recursive call, `subst` with
duplication-free renaming, `let`, `switch`, `create`, `invoke`, `print` -/

private def tList : Ty := .decl ⟨"List", 0⟩
private def tFun : Ty := .decl ⟨"Fun", 0⟩
private def bx (n : String) (i : Nat) : Binding := ⟨⟨n, i⟩, .ext, .i64⟩

def C12cg_main : Def :=
  { name := ⟨"main", 0⟩, ctx := [bx "x" 1],
    body := .create ⟨"f", 2⟩ tFun (some [bx "x" 1])
      (.cons ⟨"Ap", 0⟩ [bx "a" 3]
        (.op ⟨"s", 4⟩ ⟨"a", 3⟩ .sum ⟨"x", 1⟩ (.print true ⟨"s", 4⟩ (.exit ⟨"s", 4⟩) none) none) .nil)
      (.lit ⟨"n", 5⟩ 5
        (.subst [(bx "n" 6, ⟨"n", 5⟩), (⟨⟨"f", 7⟩, .cns, tFun⟩, ⟨"f", 2⟩)]
          (.invoke ⟨"f", 7⟩ ⟨"Ap", 0⟩ tFun [bx "n" 6])) none) none none }

def C12cg_h : Def :=
  { name := ⟨"h", 0⟩, ctx := [bx "n" 1],
    body := .letS ⟨"l", 2⟩ tList ⟨"Nil", 0⟩ []
      (.subst [(⟨⟨"l", 3⟩, .prd, tList⟩, ⟨"l", 2⟩)] (.call ⟨"g", 0⟩ [])) none }

def C12cg_g : Def :=
  { name := ⟨"g", 0⟩, ctx := [⟨⟨"xs", 1⟩, .prd, tList⟩],
    body := .switch ⟨"xs", 1⟩ tList
      (.cons ⟨"Nil", 0⟩ [] (.lit ⟨"z", 2⟩ 0 (.exit ⟨"z", 2⟩) none)
        (.cons ⟨"Cons", 0⟩ [bx "y" 3, ⟨⟨"ys", 4⟩, .prd, tList⟩]
          (.subst [(bx "y" 5, ⟨"y", 3⟩), (bx "w" 6, ⟨"y", 3⟩)]
            (.ifc .lt ⟨"y", 5⟩ (some ⟨"w", 6⟩) (.exit ⟨"y", 5⟩) (.exit ⟨"w", 6⟩))) .nil)) none }

def C12cg_ex : Prog :=
  { defs := [C12cg_main, C12cg_h, C12cg_g],
    types := [{ name := ⟨"List", 0⟩,
                xtors := [⟨⟨"Nil", 0⟩, []⟩, ⟨⟨"Cons", 0⟩, [bx "x" 100, ⟨⟨"xs", 101⟩, .prd, tList⟩]⟩] },
              { name := ⟨"Fun", 0⟩, xtors := [⟨⟨"Ap", 0⟩, [bx "a" 102]⟩] }],
    maxId := 202 }

set_option maxRecDepth 100000 in
theorem C12cg_ex_checked : C12_isOk (linTypedCheck C12cg_ex) = true := by decide +kernel

/-- the example satisfies the hypotheses of every theorem of this file -/
theorem C12cg_ex_linTyped : LinTypedProg C12cg_ex :=
  linTypedCheck_sound _ (C12_isOk_unit C12cg_ex_checked)

example : C12cg_ex.defs ≠ [] := by simp [C12cg_ex]
example : ∀ d0 ds, C12cg_ex.defs = d0 :: ds → d0.ctx.length ≤ 5 := by
  intro d0 ds h; simp only [C12cg_ex, List.cons.injEq] at h; rw [← h.1]; decide
example : Pos.progCap C12cg_ex = 3 ∧ C12_capacityX86 C12cg_ex = true ∧ C12_capacityA64 C12cg_ex = true ∧
    C12_capacityRV C12cg_ex = true := by decide +kernel
example : C12_codegenTotal C12cg_ex :=
  C12_codegenTotal_of_linTyped _ C12cg_ex_linTyped (by simp [C12cg_ex])

def C12_errIs {α : Type} (msg : String) : Except String α → Bool
  | .error e => e == msg
  | .ok _ => false

/- what the models really return on the example: code on x86-64 and AArch64, and the RISC-V backend
    reaches its documented "not implemented" (the program prints) — an instance of the permitted error -/
set_option maxRecDepth 100000 in
example : C12_isOk (X86.compileX86 C12cg_ex true 0) = true ∧
    C12_isOk (A64.compileProg A64.a64Backend C12cg_ex true 0) = true ∧
    C12_errIs "not implemented in RISC-V backend" (RV.compileRoutine C12cg_ex true 0) = true := by
  decide +kernel

/-- the hypothesis `LinTypedProg` cannot be dropped: on an ill-typed program (the variable of `exit` is
    not in the context) the generator panics with a message that is NOT a capacity error -/
def C12cg_bad : Prog :=
  { defs := [{ name := ⟨"main", 0⟩, ctx := [bx "x" 1], body := .exit ⟨"y", 2⟩ }], types := [], maxId := 2 }

set_option maxRecDepth 100000 in
example : C12_errIs "Variable 2 not found in context" (X86.compileX86 C12cg_bad true 0) = true ∧
    C12_okOrCapacityB (X86.compileX86 C12cg_bad true 0) = false ∧
    C12_isOk (linTypedCheck C12cg_bad) = false := by decide +kernel

#print axioms C12_codegenTotal_of_linTyped
#print axioms C12_codegen_x86
#print axioms C12_routine_x86
#print axioms C12_codegen_a64
#print axioms C12_codegen_a64_main
#print axioms C12_codegen_rv
#print axioms C12_codegen_x86_ok
#print axioms C12_codegen_a64_ok
#print axioms C12_codegen_rv_ok
#print axioms C12_link_codegen_proved
#print axioms C12_chain3
#print axioms C12_conclusion_of_linkChecks
#print axioms C12_routine_x86_of_linkChecks
#print axioms C12cg_ex_linTyped
#print axioms Scc.Backend.Total.Tot_codeStatementR
#print axioms Scc.Backend.Total.Tot_compileR
#print axioms Scc.Backend.Total.parallelMoves_ok
#print axioms Scc.Backend.Total.LinTyped.of_keys
#print axioms Scc.X86.Total.x86_total
#print axioms Scc.X86.Total.x86_total_fits
#print axioms Scc.A64.Total.a64_total
#print axioms Scc.A64.Total.a64_total_fits
#print axioms Scc.RV.Total.rv_total
#print axioms Scc.RV.Total.rv_total_fits

end Scc.Props
