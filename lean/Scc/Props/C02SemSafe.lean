/-
  Scc.Props.C02SemSafe — discharges the hypothesis `C02_funSafe_statement` of Props/C02Sem.lean (the
  Fun machine never gets stuck for a reason other than an arithmetic fault on checked programs with a
  valid `main`) by the type-safety theorem of Props/FunSafety.lean, and states the consequence: on the
  fragment `Fun2Core.Sem.fragOk` the semantic part of C02 holds with ALL FOUR clauses of `ObsSame`
  (forward and backward) for every accepted program with a valid `main` and every argument list of
  the right length — no safety hypothesis left.
-/
import Scc.Props.C02Sem
import Scc.Props.FunSafety

namespace Scc.Props
open Scc Scc.Pipeline
open Scc.Fun.Check (checkProgram programNamesOk)

/-- type safety of the CEK machine, in the shape asked for by Props/C02Sem.lean -/
theorem C02_funSafe : C02_funSafe_statement := by
  intro p p' hp hc hv args hlen n
  obtain ⟨dm, hfind, hl, _, _⟩ := validMain_find hv
  have hlen' : args.length = mainArity p' := by
    have hf : p'.defs.find? (fun d => d.name == "main") = some dm := hfind
    rw [hf] at hlen
    simpa [hl] using hlen
  have hsafe := Fun_run_never_type_stuck p p' hp hc hv args hlen' n
  cases hr : (Fun.run p' args n).res with
  | done v => right; simp only [ofFun, hr]; trivial
  | outOfFuel => left; simp only [ofFun, hr]
  | stuck w =>
    right
    simp only [ofFun, hr]
    rcases hsafe w hr with rfl | rfl
    · exact .inl rfl
    · exact .inr rfl

/-- **C02, semantic part, both halves, fragment**: for every accepted program with a valid `main` in the
fragment `fragOk`, whose translation is `q2` (with every translated definition closed), and every
argument list of the right length, the Fun machine on the program and the Core ς-machine on `q2`
have the same observable behaviour (all four clauses of `ObsSame`) -/
theorem C02_sem_frag (p : Fun.Program) (p' : Fun.CheckedProgram) (q2 : Core.Prog)
    (hn : programNamesOk p = true) (hck : checkProgram p = .ok p') (hvm : validMain p' = true)
    (hf : Fun2Core.Sem.fragOk p' = true) (hc : Fun2Core.compileProg p' = .ok q2)
    (hq : Fun2Core.Sem.coreClosed q2 = true) (args : List Word)
    (hlen : args.length = (p'.defs.find? (·.name == "main")).elim 0 (·.ctx.length)) :
    C02_ObsSame (fun n => ofFun (Fun.run p' args n)) (fun n => ofCore (Core.run q2 args n)) :=
  C02_sem_frag_modulo_safety C02_funSafe p p' q2 hn hck hvm hf hc hq args hlen

#print axioms C02_funSafe
#print axioms C02_sem_frag

end Scc.Props
