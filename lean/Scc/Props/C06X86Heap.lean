/-
  Scc.Props.C06X86Heap — property C06 (x86-64 code generation preserves AxCut semantics), Theorem B for
  x86-64 WITH THE HEAP (rung 4): allocation (`let`) and pattern matching (`switch`) on data types.

  The relation is THREE-WAY at statement boundaries (Scc/X86/RefHeapDefs.lean):
        AxCut positional machine  ⟷  abstract backend machine  ⟷  x86-64 machine
  * left half: Theorem A's `Sim2.RelX` (C06Generic) — reused as it is, statement by statement
    (`sim2_let`, `load_enter`, the jump through the table of `sim2_switch`);
  * right half: `X3 F Γ cfg hs ι st` — typed by the context `Γ` (an integer is the same word on both
    machines, the tag of an object is the xtor position `n` on the abstract machine and `jump_length n =
    5·n` on x86-64, a reference is an object id resp. the address `ι id` of the head block); the abstract
    heap is represented by the machine memory through the heap refinement `HRef` (Props/C09Refine.lean)
    composed with the memory contracts' `HeapRel` (Props/C06X86.lean);
  * code: as in Theorem A, the code at the program counter is the code the generator emits for the
    current statement in the current context from SOME label counter (`XAt`), so the different label
    numbers of the two code generators (the x86 backend draws labels inside erase/share/store/load)
    never have to be related.

  PROVED (no `sorry`, axioms: propext, Classical.choice, Quot.sound):
  * `C06_store_refines` (`store_x3`): the abstract `store kinds n` against the emitted `Memory::store`:
    from related states the code runs to its end (`execFwd`) and the states are related again, the new
    object being represented at the pointer returned (`store_contract` ∘ `href_store`).
  * `C06_load_refines` (`load_x3`): the abstract `load kinds n` (unique: the object is freed; shared:
    count decremented, children shared) against the emitted `Memory::load` (`load_contract` ∘
    `href_load_full`); the "no overflow" side condition of the shared branch of `load_contract` is
    DISCHARGED from the counting invariant (`live_header_lt`: a stored count is below
    |roots| + 3·(number of blocks)).
  * `C06_let_x86` (`let_x3`): three-way simulation of `let`: the positional machine's step, two steps of
    the abstract machine and the machine's execution of comments, `Memory::store`, tag load; relation and
    code invariant re-established.  Hypotheses besides those of `sim2_let`: room for the blocks (C10:
    frontier + 64·(fields + 1) ≤ limit) and `fitsI64 (5·tag)`.
  * `C06_switch_x86` (`switch_x3`): three-way simulation of `switch` on an object: single clause (fall
    through) and jump table (`lea; add; jmp TEMP` lands on the tag/5-th 5-byte `jmp` of the table:
    byte addresses of the loaded routine, `LoadedA`/`addrAt_table`), then `Memory::load` of the clause.
    Hypothesis besides those of `sim2_switch`: the routine fits below 2^64 (`hfitX`) and the capacity
    `2·(|Γ'| + |clause ctx|) ≤ 266` of utils.rs temporary_from_position.
  * `C06_subst_x86` (`subst_x3`): three-way simulation of `subst` on arbitrary contexts: erase / share of
    object variables against `HRef` (`erase_x3`, `share_x3`: the memory contracts ∘ `href_erase`/`href_share`),
    parallel moves of both temporaries of every position (shadow configuration, `run_cwc3`).
  * `C06_step_x86` (`step3`): Theorem A's `TheoremA_full` with the machine carried along, for every
    statement form of programs without closures (lit, op, print, ifc, exit, call, subst, let, switch).
  * `C06_data_programs` (`data_programs_items`): END TO END for programs with data types (no closures), on
    the items of the emitted routine: a terminating run of the positional machine is reproduced, trace and
    result, by the x86-64 SPEC machine started at `asm_main`.  The heap frontier is tracked along the run
    (`FrLe` / `Room`, Scc/Heap/RefineFrontier.lean): 64·134 bytes per step suffice.
  KEPT AS `def : Prop`: `C06_data_programs_statement`, the run theorem without the side hypotheses of
  `C06_data_programs` that are not yet derived from the others (all decidable on the program / the
  emitted routine): success of the mock code generator and `CodeFits` of its code, pairwise distinct
  labels of the routine, routine below 2^64, contexts of at most 133 variables, `fuel + 1 < 2^64`,
  `0 < heapBase`.
-/
import Scc.X86.RefHeapRun
import Scc.Props.C06X86

namespace Scc.X86
open Scc.AxCut Scc.AxCut.Pos Scc.Backend Scc.Backend.Abs Scc.Backend.Sim Scc.Backend.Sim2 Scc.X86.Ref
open Scc.Heap (HState InvS)
open Scc.Heap.Refine (FrLe Room)

section Heap4

variable {F : Frame} (H : FrameOK F) (h8 : F.c.heapBase % 8 = 0)

include H h8 in
/-- the abstract `store` (at least one field) against the emitted `Memory::store` -/
theorem C06_store_refines {la : String → Option Nat}
    {Γ : Ctx} {cfg cfg1 : Config} {hs : HState} {ι : Nat → Nat} {st : State}
    (X : X3 F Γ cfg hs ι st) {n : Nat} (hn : n < Γ.length) {fields : List Abs.Field}
    (hf : readFields cfg.temps (Mock.kindsOf (Γ.drop n)) n = some fields)
    (hch : Obj.children ⟨0, fields⟩ = roots.go cfg.temps (Γ.drop n) n)
    (hnext : cfg.next < 2 ^ 64)
    (hlow : ∀ t, t < 2 * n → cfg1.temps.get t = cfg.temps.get t)
    (hheap : cfg1.heap = (cfg.next, ⟨0, fields⟩) :: cfg.heap) (hnx : cfg1.next = cfg.next + 1)
    (hout : cfg1.out = cfg.out)
    (hroom : Room hs (64 * (Γ.length - n) + 64)) (kk : Nat) :
    ∃ code kk', (store (Γ.drop n) (Γ.take n)).run kk = .ok (code, kk') ∧ kk ≤ kk' ∧ LabsIn code kk kk' ∧
      ∃ st' hs' p, execFwd F.c la code st = .ok (st', .next) ∧ st'.pc = st.pc ∧
        X3R F (Γ.take n) cfg1 (roots (Γ.take n) cfg.temps ++ [cfg.next]) hs'
          (fun i => if i = cfg.next then p else ι i) st' ∧
        tempVal F.sp st' (posTemp (2 * n)) = some (BitVec.ofNat 64 p) ∧ p ≠ 0 ∧ p < 2 ^ 64 ∧
        FrLe hs hs' (64 * (Γ.length - n)) :=
  store_x3 H h8 X hn hf hch hnext hlow hheap hnx hout hroom kk

include H h8 in
/-- the abstract `load` (at least one field) against the emitted `Memory::load` -/
theorem C06_load_refines {la : String → Option Nat}
    {Γ' Δ : Ctx} {b : Binding} {cfg cfg4 cfg' : Config} {hs : HState} {ι : Nat → Nat} {st : State}
    {r : Word} {o : Obj} {h' : Heap}
    (X : X3 F (Γ' ++ [b]) cfg hs ι st) (hb : b.chi ≠ .ext)
    (hr : cfg.temps.get (2 * Γ'.length) = some r) (hr0 : r ≠ 0)
    (hg : cfg.heap.get r.toNat = some o)
    (hk : o.fields.map (·.chi) = Mock.kindsOf Δ) (hne : o.fields ≠ [])
    (hcapΔ : 2 * (Γ'.length + Δ.length) ≤ 266)
    (h4next : cfg4.next = cfg.next) (h4out : cfg4.out = cfg.out)
    (h4temps : ∀ t, t < 2 * (Γ'.length + 1) → cfg4.temps.get t = cfg.temps.get t)
    (hlo : Scc.Heap.Refine.loadAbs cfg.heap r.toNat o = .ok h')
    (hcfg' : cfg' =
      { cfg4 with pc := cfg4.pc + 1, temps := writeFields (clobberTemp cfg4.temps) o.fields Γ'.length, heap := h' })
    (kk : Nat) :
    ∃ code kk', (load Δ Γ').run kk = .ok (code, kk') ∧ kk ≤ kk' ∧ LabsIn code kk kk' ∧
      ∃ st' hs', execFwd F.c la code st = .ok (st', .next) ∧ st'.pc = st.pc ∧
        X3 F (Γ' ++ Δ) cfg' hs' ι st' ∧ FrLe hs hs' 0 :=
  load_x3 H h8 X hb hr hr0 hg hk hne hcapΔ h4next h4out h4temps hlo hcfg' kk

variable {mon : MonCfg} (hmon : mon.mach = F.c) {px : X86.Prog} {cs : List Code}

include H h8 hmon in
/-- THREE-WAY SIMULATION OF `let` on x86-64 -/
theorem C06_let_x86 (L : Loaded px cs) (hnd : (labs cs).Nodup)
    {P : Program} {hooks : Bool} {prog : AxCut.Prog} {Γ : Ctx} {ρ : List Value} {x : Ident}
    {ty : Ty} {tag : Ident} {args : Ctx} {next : Stmt} {fv : FV} {cfg : Config} {pos : Nat}
    (R : RelX P hooks prog ⟨Γ, ρ, .letS x ty tag args next fv⟩ cfg)
    (hk : args.length ≤ Γ.length)
    (hfresh : ∀ b ∈ Γ.take (Γ.length - args.length), b.var.id ≠ x.id)
    (hpos : Pos.tagPosition prog.types ty tag = .ok pos)
    (hcap : 2 * (Γ.length - args.length + 1) + 2 < Mock.T_TEMP)
    (hnext : cfg.next < 2 ^ 64)
    {hs : HState} {ι : Nat → Nat} {st : State} (X : X3 F Γ cfg hs ι st)
    {k k' : Nat} {items : List Code}
    (hrun : (codeStatementR x86Backend hooks natRen prog.types (.letS x ty tag args next fv) Γ).run k =
      .ok (items, k'))
    (hat : XAt cs st.pc items)
    (hroom : Room hs (64 * args.length + 64))
    (hfit : fitsI64 (jumpLength pos) = true) :
    ∃ cfg' st' hs' ι' n, stepsTo P 2 cfg cfg' ∧ stepN mon px n st = .inl st' ∧ FrLe hs hs' (64 * args.length) ∧
      cfg'.out = cfg.out ∧ cfg'.next ≤ cfg.next + 1 ∧
      RelX P hooks prog ⟨Γ.take (Γ.length - args.length) ++ [⟨x, .prd, ty⟩],
        ρ.take (Γ.length - args.length) ++ [.obj pos (ρ.drop (Γ.length - args.length))], next⟩ cfg' ∧
      X3 F (Γ.take (Γ.length - args.length) ++ [⟨x, .prd, ty⟩]) cfg' hs' ι' st' ∧
      ∃ k1 k1' items', (codeStatementR x86Backend hooks natRen prog.types next
          (Γ.take (Γ.length - args.length) ++ [⟨x, .prd, ty⟩])).run k1 = .ok (items', k1') ∧
        XAt cs st'.pc items' :=
  let_x3 H h8 hmon L hnd R hk hfresh hpos hcap hnext X hrun hat hroom hfit

include H h8 hmon in
/-- THREE-WAY SIMULATION OF `switch` on x86-64 -/
theorem C06_switch_x86 (LA : LoadedA F.c px cs) (hnd : (labs cs).Nodup)
    (hfitX : addrAt F.c.codeBase cs cs.length < 2 ^ 64)
    {P : Program} {hooks : Bool} {prog : AxCut.Prog} {Γ' : Ctx} {b : Binding}
    {ρ' : List Value} {pos : Nat} {fields : List Value} {x : Ident} {ty : Ty} {clauses : Clauses}
    {fv : FV} {cfg : Config} {c : Clause}
    (R : RelX P hooks prog ⟨Γ' ++ [b], ρ' ++ [.obj pos fields], .switch x ty clauses fv⟩ cfg)
    (hfits : Fits P)
    (hb : b.var.id = x.id) (hfresh : ∀ b' ∈ Γ', b'.var.id ≠ x.id)
    (hclause : nthClause clauses pos = some c)
    (hkinds : fields.map Sim2.kindOf = Mock.kindsOf c.ctx)
    (hcap : 2 * (Γ'.length + c.ctx.length) + 2 < Mock.T_TEMP)
    {hs : HState} {ι : Nat → Nat} {st : State} (X : X3 F (Γ' ++ [b]) cfg hs ι st)
    {k k' : Nat} {items : List Code}
    (hrun : (codeStatementR x86Backend hooks natRen prog.types (.switch x ty clauses fv) (Γ' ++ [b])).run k =
      .ok (items, k'))
    (hat : XAt cs st.pc items)
    (hcapX : 2 * (Γ'.length + c.ctx.length) ≤ 266) :
    ∃ kk cfg' st' hs' n, stepsTo P kk cfg cfg' ∧ stepN mon px n st = .inl st' ∧ FrLe hs hs' 0 ∧
      cfg'.out = cfg.out ∧ cfg'.next = cfg.next ∧
      RelX P hooks prog ⟨Γ' ++ c.ctx, ρ' ++ fields, c.body⟩ cfg' ∧
      X3 F (Γ' ++ c.ctx) cfg' hs' ι st' ∧
      ∃ k1 k1' items', (codeStatementR x86Backend hooks natRen prog.types c.body (Γ' ++ c.ctx)).run k1 =
          .ok (items', k1') ∧ XAt cs st'.pc items' :=
  switch_x3 H h8 hmon LA hnd hfitX R hfits hb hfresh hclause hkinds hcap X hrun hat hcapX

include H h8 hmon in
/-- THREE-WAY SIMULATION OF `subst` on x86-64 (arbitrary contexts: erase, share, moves) -/
theorem C06_subst_x86 (L : Loaded px cs) (hnd : (labs cs).Nodup)
    {P : Program} {hooks : Bool} {prog : AxCut.Prog} {Γ : Ctx} {ρ : List Value}
    {pairs : List (Binding × Ident)} {next : Stmt} {cfg : Config} {vs : List Value}
    (R : RelX P hooks prog ⟨Γ, ρ, .subst pairs next⟩ cfg)
    (hΓ : (Γ.map (·.var.id)).Nodup)
    (hnew : (pairs.map (·.1.var.id)).Nodup)
    (hold : ∀ p ∈ pairs, ∃ b ∈ Γ, b.var.id = p.2.id ∧ b.chi = p.1.chi)
    (hcap : 2 * pairs.length + 2 < Mock.T_TEMP)
    (hvs : Pos.step.build Γ ρ pairs = .ok vs)
    {hsX : HState} {ι : Nat → Nat} {st : State} (X : X3 F Γ cfg hsX ι st)
    {kx kx' : Nat} {items : List Code}
    (hrunX : (codeStatementR x86Backend hooks natRen prog.types (.subst pairs next) Γ).run kx = .ok (items, kx'))
    (hatX : XAt cs st.pc items)
    (hpl : pairs.length < 2 ^ 31) (hcapX : 2 * pairs.length ≤ 266) :
    ∃ k cfg' st' hs' n, stepsTo P k cfg cfg' ∧ stepN mon px n st = .inl st' ∧ FrLe hsX hs' 0 ∧
      cfg'.out = cfg.out ∧ cfg'.next = cfg.next ∧
      RelX P hooks prog ⟨pairs.map (·.1), vs, next⟩ cfg' ∧
      X3 F (pairs.map (·.1)) cfg' hs' ι st' ∧
      ∃ k1 k1' items', (codeStatementR x86Backend hooks natRen prog.types next (pairs.map (·.1))).run k1 =
          .ok (items', k1') ∧ XAt cs st'.pc items' :=
  subst_x3 H h8 hmon L hnd R hΓ hnew hold hcap hvs X hrunX hatX hpl hcapX

end Heap4

/-! ## the run theorem for programs with data types -/

open Scc.Props.C06Generic (Reachable WithinCapacity CodeFits EnoughHeap)
open Scc.Props.C14Generic (LabelSafe)

/-- THE THREE-WAY STEP: every step of the positional machine on a statement of a program without closures
from a typed state in the three-way relation is reproduced by the x86-64 machine, and the relation holds
again (`StepSim3`: with output, bound on the object counter and on the heap frontier) -/
theorem C06_step_x86 {F : Frame} (HF : FrameOK F) (h8 : F.c.heapBase % 8 = 0) {mon : MonCfg}
    (hmon : mon.mach = F.c) {px : X86.Prog} {cs pre : List Code} (LA : LoadedA F.c px cs)
    (hnd : (labs cs).Nodup) (hfitX : addrAt F.c.codeBase cs cs.length < 2 ^ 64) (hcs : cs = pre ++ cleanup)
    (hclean : "cleanup" ∉ labs pre) {st0 : State} {h : Word} (E : EntryFacts F st0 h)
    (hooks : Bool) (prog : AxCut.Prog) (c : Nat) (code : List MockOp) (nargs c' : Nat)
    (hcomp : (compile mockSym hooks prog).run c = .ok ((code, nargs), c'))
    (hsafe : LabelSafe prog = true) (htp : LinTypedProg prog) (hfit : CodeFits code)
    (DX : XDefsAt cs hooks prog) (hprog : ProgOK prog)
    (st : Pos.State) (cfg : Config) (hs : HState) (X : State)
    (R : Rel3 F cs (Program.ofOps code) hooks prog st cfg hs X)
    (T : Pos.StateTyped prog st) (hheap : EnoughHeap cfg) (hok : StmtOK st.stmt)
    (hroom : Room hs (64 * 134)) :
    StepSim3 F mon px cs (Program.ofOps code) hooks prog st cfg hs X :=
  step3 HF h8 hmon LA hnd hfitX hcs hclean E hooks prog c code nargs c' hcomp hsafe htp hfit DX hprog st cfg hs X
    R T hheap hok hroom

/-- programs with data types: no closures -/
def DataProg (p : AxCut.Prog) : Prop := ∀ d ∈ p.defs, DataStmt d.body

/-- END TO END for programs with data types, on the ITEMS of the emitted routine (the analogue of
`C06_int_programs`; `heapBytes`: enough heap for the run), FULL STRENGTH.  Proved with further decidable
side hypotheses as `C06_data_programs`. -/
def C06_data_programs_statement : Prop :=
  ∀ (p : AxCut.Prog) (args : List Word) (hooks : Bool) (body routine : List Code) (nargs : Nat) (d0 : Def),
    LabelSafe p = true → LinTypedProg p → DataProg p → ProgInRange p →
    compileX86 p hooks 0 = .ok (body, nargs) → intoRoutine body nargs = .ok routine →
    p.defs.head? = some d0 → (∀ b ∈ d0.ctx, b.chi = .ext ∧ b.ty = .i64) →
    (∀ st, Reachable p ⟨d0.ctx, args.map .int, d0.body⟩ st → WithinCapacity st.ctx) →
    ∀ (fuel : Nat) (out : List (Bool × Word)) (v : Word), Pos.run p args fuel = ⟨out, .done v⟩ →
    ∃ heapBytes, ∀ (cfg : MonCfg), MachOK cfg.mach → cfg.mach.heapBase % 8 = 0 →
      heapBytes ≤ cfg.mach.heapBytes → cfg.heap = false →
      ∀ (items : List (Code × Nat)), (items.map (·.1)).map stripC = routine.map stripC →
      ∃ fuel', (runItems items args fuel' cfg).out = out ∧ (runItems items args fuel' cfg).res = .done v

/-- THEOREM A ∘ THEOREM B FOR PROGRAMS WITH DATA TYPES (no closures), on the ITEMS of the emitted routine:
a terminating run of the AxCut positional machine is reproduced — same trace, same result — by the x86-64
SPEC machine started at `asm_main` on any item list that agrees with the emitted routine up to the text of
comments.  Side hypotheses (all decidable on the program, the emitted code or the machine configuration):
the mock code generator succeeds and its code fits the address space (`hcompM`, `hfit`: Theorem A), the
labels of the routine are pairwise distinct (`hnd`), the routine ends below 2^64 (`hfitX`), every context
of the run has at most 133 variables (utils.rs temporary_from_position), the heap has 64·134 bytes per
step of the run, `0 < heapBase` and `heapBase % 8 = 0`. -/
theorem C06_data_programs (p : AxCut.Prog) (args : List Word) (hooks : Bool) (body routine : List Code)
    (nargs : Nat) (d0 : Def) (ops : List MockOp) (c' : Nat)
    (hsafe : LabelSafe p = true) (htp : LinTypedProg p) (hdata : DataProg p) (hrange : ProgInRange p)
    (hcompM : (compile mockSym hooks p).run 0 = .ok ((ops, nargs), c')) (hfit : CodeFits ops)
    (hcompX : compileX86 p hooks 0 = .ok (body, nargs)) (hrout : intoRoutine body nargs = .ok routine)
    (hnd : (labs routine).Nodup)
    (hd : p.defs.head? = some d0) (hentry : ∀ b ∈ d0.ctx, b.chi = .ext ∧ b.ty = .i64)
    (hcap : ∀ st, Reachable p ⟨d0.ctx, args.map .int, d0.body⟩ st → 2 * st.ctx.length ≤ 266)
    (fuel : Nat) (out : List (Bool × Word)) (v : Word) (hfuel : fuel + 1 < 2 ^ 64)
    (hrun : Pos.run p args fuel = ⟨out, .done v⟩)
    (cfg : MonCfg) (MO : MachOK cfg.mach) (hheap : cfg.heap = false)
    (hb8 : cfg.mach.heapBase % 8 = 0) (hb0 : 0 < cfg.mach.heapBase)
    (hbytes : 128 + 64 * 134 * fuel ≤ cfg.mach.heapBytes)
    (items : List (Code × Nat)) (hitems : (items.map (·.1)).map stripC = routine.map stripC)
    (hfitX : addrAt cfg.mach.codeBase routine routine.length < 2 ^ 64) :
    ∃ fuel', (runItems items args fuel' cfg).out = out ∧ (runItems items args fuel' cfg).res = .done v :=
  data_programs_items p args hooks body routine nargs d0 ops c' hsafe htp
    ⟨hrange.1, fun d hd => ⟨hdata d hd, hrange.2 d hd⟩⟩ hcompM hfit hcompX hrout hnd hd hentry hcap fuel out v
    hfuel hrun cfg MO hheap hb8 hb0 hbytes items hitems hfitX

/-- what `mkProg` builds is loaded with addresses (the world of `C06_switch_x86`) -/
theorem C06_loadedA (c : MachCfg) (items : List (Code × Nat)) (cs : List Code)
    (h : (items.map (·.1)).map stripC = cs.map stripC) : LoadedA c (mkProg c items) cs :=
  loadedA_mkProg c items cs h

/-! ### non-vacuity: objects (let, subst with duplication = share, switch shared and unique) -/

def C06_tBox : Ty := .decl ⟨"Box", 0⟩
def C06_boxDecl : TypeDecl := { name := ⟨"Box", 0⟩, xtors := [⟨⟨"B", 0⟩, [⟨⟨"v", 102⟩, .ext, .i64⟩]⟩] }

/-- main(x) { let b = B(x); subst (b1 := b)(b2 := b); switch b2 { B(y) => subst (y := y)(b1 := b1);
      switch b1 { B(z) => s <- y + z; println s; exit s } } } -/
def C06_boxMain : Def :=
  { name := ⟨"main", 0⟩, ctx := [⟨⟨"x", 1⟩, .ext, .i64⟩],
    body := .letS ⟨"b", 2⟩ C06_tBox ⟨"B", 0⟩ [⟨⟨"x", 1⟩, .ext, .i64⟩]
      (.subst [(⟨⟨"b1", 3⟩, .prd, C06_tBox⟩, ⟨"b", 2⟩), (⟨⟨"b2", 4⟩, .prd, C06_tBox⟩, ⟨"b", 2⟩)]
        (.switch ⟨"b2", 4⟩ C06_tBox
          (.cons ⟨"B", 0⟩ [⟨⟨"y", 5⟩, .ext, .i64⟩]
            (.subst [(⟨⟨"y", 6⟩, .ext, .i64⟩, ⟨"y", 5⟩), (⟨⟨"b1", 7⟩, .prd, C06_tBox⟩, ⟨"b1", 3⟩)]
              (.switch ⟨"b1", 7⟩ C06_tBox
                (.cons ⟨"B", 0⟩ [⟨⟨"z", 8⟩, .ext, .i64⟩]
                  (.op ⟨"s", 9⟩ ⟨"y", 6⟩ .sum ⟨"z", 8⟩
                    (.print true ⟨"s", 9⟩ (.exit ⟨"s", 9⟩) none) none) .nil) none))
            .nil) none)) none }

def C06_boxProg : AxCut.Prog := { defs := [C06_boxMain], types := [C06_boxDecl], maxId := 102 }

def C06_boxOps : List MockOp :=
  match (compile mockSym true C06_boxProg).run 0 with
  | .ok ((code, _), _) => code
  | .error _ => []

def C06_boxBody : List Code :=
  match compileX86 C06_boxProg true 0 with
  | .ok (body, _) => body
  | .error _ => []

def C06_boxRoutine : List Code :=
  match intoRoutine C06_boxBody 1 with
  | .ok r => r
  | .error _ => []

theorem C06_boxProg_inRange : ProgInRange C06_boxProg := by
  refine ⟨?_, ?_⟩
  · intro d hd
    simp only [C06_boxProg, List.mem_singleton] at hd
    subst hd
    simp [C06_boxDecl, maxTagsX86]
  · intro d hd
    simp only [C06_boxProg, List.mem_singleton] at hd
    subst hd
    simp [C06_boxMain, StmtB, ClausesB, maxSubstX86]

theorem C06_boxProg_data : DataProg C06_boxProg := by
  intro d hd
  simp only [C06_boxProg, List.mem_singleton] at hd
  subst hd
  simp [C06_boxMain, DataStmt, DataClauses]

/-- 266-capacity of all reachable states, checked on the finitely many states of a terminating run -/
theorem C06_capacity_of_run (prog : AxCut.Prog) (fuel : Nat) (st0 : Pos.State)
    (hstop : Scc.Props.C06Generic.stopsWithin prog fuel st0 = true)
    (hall : (Scc.Props.C06Generic.statesOf prog fuel st0).all (fun st => decide (2 * st.ctx.length ≤ 266)) = true) :
    ∀ st, Reachable prog st0 st → 2 * st.ctx.length ≤ 266 := by
  intro st hr
  have := Scc.Props.C06Generic.reachable_mem_statesOf prog fuel st0 st hstop hr
  rw [List.all_eq_true] at hall
  simpa using hall st this

set_option maxRecDepth 100000 in
theorem C06_boxRoutine_fits :
    addrAt ({} : MachCfg).codeBase C06_boxRoutine C06_boxRoutine.length < 2 ^ 64 := by decide

/-- the box program started with x = 21: every hypothesis of `C06_data_programs` holds, so the x86-64
machine on the items of the emitted routine prints 42 and returns 42 (the block is allocated by `let`,
shared by `subst`, loaded once shared and once unique — and freed) -/
example : ∃ fuel',
    (runItems (C06_boxRoutine.map fun c => (c, 0)) [21] fuel' {}).out = [(true, 42)] ∧
    (runItems (C06_boxRoutine.map fun c => (c, 0)) [21] fuel' {}).res = .done 42 := by
  have hcompM : ∃ k, (compile mockSym true C06_boxProg).run 0 = .ok ((C06_boxOps, 1), k) := ⟨_, rfl⟩
  obtain ⟨c', hcompM⟩ := hcompM
  have hcompX : compileX86 C06_boxProg true 0 = .ok (C06_boxBody, 1) := rfl
  have hrout : intoRoutine C06_boxBody 1 = .ok C06_boxRoutine := rfl
  have hrun : Pos.run C06_boxProg [21] 20 = ⟨[(true, 42)], .done 42⟩ := by decide
  exact C06_data_programs C06_boxProg [21] true C06_boxBody C06_boxRoutine 1 C06_boxMain C06_boxOps c'
    (by decide) (linTypedCheck_sound C06_boxProg rfl) C06_boxProg_data C06_boxProg_inRange hcompM (by decide)
    hcompX hrout (by decide) rfl (by decide)
    (C06_capacity_of_run C06_boxProg 20 _ (by decide) (by decide)) 20 _ _ (by decide) hrun {}
    machOK_default rfl (by decide) (by decide) (by decide)
    (C06_boxRoutine.map fun c => (c, 0)) (by simp [List.map_map, Function.comp]) C06_boxRoutine_fits

end Scc.X86

#print axioms Scc.X86.C06_store_refines
#print axioms Scc.X86.C06_load_refines
#print axioms Scc.X86.C06_let_x86
#print axioms Scc.X86.C06_switch_x86
#print axioms Scc.X86.C06_subst_x86
#print axioms Scc.X86.C06_step_x86
#print axioms Scc.X86.C06_data_programs
#print axioms Scc.X86.C06_loadedA
