/-
  Scc.Props.C09A64Mon — property C09 in terms of THE EXECUTABLE HEAP MONITOR on AArch64, ALL PROGRAMS (data types and
  closures), EVERY AMOUNT OF MACHINE FUEL: the AArch64 counterpart of Props/C09X86Mon.lean.
  "the run of the SPEC machine with the heap monitor on never ends in a report `inv:` of the heap monitor".

  On AArch64 a `#ctx` hook is an ITEM of the laid-out program; the run loop calls `heapMonitor` exactly when the
  program counter is at a hook item.  Every configuration strictly between two statement boundaries — and the header
  of the routine, the configuration the `BR reg` of an `invoke` lands on (BEHIND the hooks of the method), the final
  `RET` — is NOT at a hook item: the step lemmas of all eleven statement forms, of the header and of `exit` export
  `Ref.K.MStepsH` (Scc/A64/ConcKMid.lean: a run whose only hook step, if any, is its FIRST step, at the hook of the
  statement boundary, in the boundary state; the blocks of the generated code contain no `#ctx [` comment:
  Scc/A64/ConcKNoHk.lean) — `Ref.K.step3M` (Scc/A64/ConcKMStep.lean); `ConcK.run3_peakM` / `run3_progressM`
  (Scc/A64/ConcKMRun.lean) carry passing counted runs along terminating runs and runs that are still going;
  `ConcK.programs_monitor_size` (Scc/A64/ConcKMon.lean) composes them with the run loop.

  PROVED (no `sorry`; axioms propext, Classical.choice, Quot.sound):
  * `C09_a64_monitor_outcome` / `C09_a64_monitor_never_fires`   under the hypotheses of `C07_programs_text`
        (label-safe, linearly typed, `C07_a64Checks`, compiled with or without hooks), the positional machine never
        stuck, at most `D` fields of object and closure data held by the variables, a heap of `64·(D + A + 2)`
        bytes, the validator `wf` off or the routine shorter than 2^18 items, and THE TWO HYPOTHESES ABOUT THE RUN
        `ConcK.HooksKinds`, `ConcK.WindowOK (D + 1)`: for every fuel (below `2^64 / (M + 1)`) and every monitor
        configuration (`cfg.heap = true` included) the machine's entry point `run` on the PRINTED TEXT of the
        routine ends in `outOfFuel` or in `done v` (the result of the positional machine) — never in
        `invFail what ln`.  UNLIKE x86-64: stated on the text (the loader theorem `C14A_routine_lines` gives lines
        WITH the hook variables `hookVarsOf`), and no hypothesis `AllHF` (on AArch64 `C14A_namesTextSafe`, part of
        `C07_a64Checks`, excludes `#` from every name: `ConcK.allHF_of_progNames`).
  * `C09_a64_monitor_never_fires_small`   `D ≤ 6`: the window hypothesis is discharged.
  * `C09_a64_monitor_never_fires_closed`  `D ≤ 6` and no hook of the routine lists more than one variable
        (`C09A_hooksOneVar routine = true`, decidable): NO hypothesis about the run is left.
  * `C09A_thunkLoop_monitor_never_fires`  NON-VACUITY: the thunk loop of Props/C09X86Mon.lean (creates a closure,
        invokes it through `BR reg`, frees its environment and calls itself, forever) — with the heap monitor AND
        the validator ON, for every fuel below 2^61 the machine does not end in a report of the heap monitor.

  WHAT REMAINS of the monitor statement, as on x86-64:
  (3)  THE WINDOW (`ConcK.WindowOK`): `64·below + 64 ≤ ⌈maxHeap/64⌉·64 + 512` at the boundaries — a fact about the
       write history; discharged only while at most 7 blocks lie below the frontier.
  (4c) THE KINDS OF THE HOOK (`ConcK.HooksKinds`): the hook item at the program counter lists variables of the kinds
       of the positional state's context.  True when the names of the variables of the GENERATOR's context have no
       blanks (`commentPLine?_hook`, Scc/A64/LoaderInstr.lean); but `Ref.K.Rel3` (and the closure invariant, which
       hides the context the methods of a closure were generated with) track `Ctx.keys` only, not names.
       Discharged here for routines whose hooks list at most one variable.
  (5)  the side hypotheses: `LabelSafe`, `C07_a64Checks`, sane machine configurations, the positional machine does
       not get stuck (division by zero), the room hypothesis (`D`), fuel below `2^64 / (M + 1)`.
-/
import Scc.Props.C09A64All
import Scc.Props.C09X86Mon
import Scc.A64.ConcKHook

namespace Scc.A64
open Scc.AxCut Scc.AxCut.Pos Scc.Backend Scc.Backend.Abs Scc.A64.Ref
open Scc.Props.C06Generic (Reachable CodeFits)
open Scc.Props.C14Generic (LabelSafe)
open Scc.A64.CC (CfgCC cfgCC_default Lines hkOf)
open Scc.A64.Loader (hookVarsOf)
open Scc.X86.Ref.K (AllocLe progMaxAlloc allocLe_progMaxAlloc)
open Scc.X86.Conc (ctxKinds valsFields stmtSize progMaxSize stmtSize_le_progMaxSize)
open Scc.A64.ConcK (MS StepsN BoundaryOf BoundaryAt HooksKinds WindowOK initMS hookKinds)

/-! ## the two hypotheses about the run; every fuel; the text of the routine -/

/-- THE OUTCOMES WITH THE HEAP MONITOR ON OR OFF, all programs, every amount of machine fuel, under the two
hypotheses about the run: `run` on the printed routine ends in `outOfFuel` or returns the result of the positional
machine -/
theorem C09_a64_monitor_outcome (p : AxCut.Prog) (args : List Word) (hooks : Bool) (body routine : List Code)
    (nargs : Nat) (d0 : Def)
    (hsafe : LabelSafe p = true) (htp : LinTypedProg p) (hchk : C07_a64Checks p = true)
    (hcompX : compileProg a64Backend p hooks 0 = .ok (body, nargs, routine))
    (hd : p.defs.head? = some d0) (hargs : args.length = nargs)
    (hnostuck : ∀ fuel w, (Pos.run p args fuel).res ≠ .stuck w)
    (D : Nat) (hD : ∀ st, Reachable p ⟨d0.ctx, args.map .int, d0.body⟩ st → valsFields st.env ≤ D)
    (cfg : MonCfg) (H : CfgCC cfg.mem) (hwf : cfg.wf = true → routine.length < 262144)
    (hb8 : cfg.mem.heapBase % 8 = 0) (hb0 : 0 < cfg.mem.heapBase)
    (hbytes : 64 * (D + progMaxAlloc p + 2) ≤ cfg.mem.heapBytes)
    (hfitX : cfg.mem.codeBase + 4 * ninstr routine < 2 ^ 64)
    (fuel' : Nat) (hf : fuel' * (progMaxSize p + 1) + stmtSize d0.body + 1 < 2 ^ 64)
    (hKinds : ∀ ops c' ls, (compile mockSym hooks p).run 0 = .ok ((ops, nargs), c') →
      parseText (printProg routine) = .ok ls →
      HooksKinds p hooks routine ops cfg.mem (hkOf hookVarsOf) (layout ls) args)
    (hWin : ∀ ops c' ls, (compile mockSym hooks p).run 0 = .ok ((ops, nargs), c') →
      parseText (printProg routine) = .ok ls →
      WindowOK p hooks routine ops cfg.mem (hkOf hookVarsOf) (layout ls) args (D + 1)) :
    (run (printProg routine) args fuel' cfg).res = .outOfFuel ∨
      ∃ v out, Pos.run p args (fuel' * (progMaxSize p + 1) + stmtSize d0.body) = ⟨out, .done v⟩ ∧
        (run (printProg routine) args fuel' cfg).res = .done v := by
  obtain ⟨ops, c', ls, S⟩ := C07_setup_of_checks p args hooks body routine nargs d0 hsafe htp hchk hcompX hd
  rw [C09_run_eq_runProg S.parse (C09_wf_ok hsafe htp hchk hcompX hwf)]
  exact ConcK.programs_monitor_size p args hooks body routine nargs d0 ops c' hsafe htp S.progOK S.compM S.fit
    hcompX S.nd hd S.entry (by rw [← S.nargs, hargs]) S.cap hnostuck D hD cfg H hb8 hb0 (progMaxAlloc p)
    (progMaxSize p) (allocLe_progMaxAlloc p) (stmtSize_le_progMaxSize p) hbytes (Ref.K.holdsB_layout S.lines)
    NoHk.hK_hookVarsOf (ConcK.allHF_of_progNames (C07_checks_facts hchk).names) hfitX fuel' hf
    (hKinds ops c' ls S.compM S.parse) (hWin ops c' ls S.compM S.parse)

/-- THE HEAP MONITOR NEVER REPORTS, all programs, every amount of machine fuel, on the text of the routine, under
the two hypotheses about the run (`HooksKinds`: the hook at the program counter lists the right kinds; `WindowOK`:
gap (3)) -/
theorem C09_a64_monitor_never_fires (p : AxCut.Prog) (args : List Word) (hooks : Bool) (body routine : List Code)
    (nargs : Nat) (d0 : Def)
    (hsafe : LabelSafe p = true) (htp : LinTypedProg p) (hchk : C07_a64Checks p = true)
    (hcompX : compileProg a64Backend p hooks 0 = .ok (body, nargs, routine))
    (hd : p.defs.head? = some d0) (hargs : args.length = nargs)
    (hnostuck : ∀ fuel w, (Pos.run p args fuel).res ≠ .stuck w)
    (D : Nat) (hD : ∀ st, Reachable p ⟨d0.ctx, args.map .int, d0.body⟩ st → valsFields st.env ≤ D)
    (cfg : MonCfg) (H : CfgCC cfg.mem) (hwf : cfg.wf = true → routine.length < 262144)
    (hb8 : cfg.mem.heapBase % 8 = 0) (hb0 : 0 < cfg.mem.heapBase)
    (hbytes : 64 * (D + progMaxAlloc p + 2) ≤ cfg.mem.heapBytes)
    (hfitX : cfg.mem.codeBase + 4 * ninstr routine < 2 ^ 64)
    (fuel' : Nat) (hf : fuel' * (progMaxSize p + 1) + stmtSize d0.body + 1 < 2 ^ 64)
    (hKinds : ∀ ops c' ls, (compile mockSym hooks p).run 0 = .ok ((ops, nargs), c') →
      parseText (printProg routine) = .ok ls →
      HooksKinds p hooks routine ops cfg.mem (hkOf hookVarsOf) (layout ls) args)
    (hWin : ∀ ops c' ls, (compile mockSym hooks p).run 0 = .ok ((ops, nargs), c') →
      parseText (printProg routine) = .ok ls →
      WindowOK p hooks routine ops cfg.mem (hkOf hookVarsOf) (layout ls) args (D + 1)) :
    ∀ what ln, (run (printProg routine) args fuel' cfg).res ≠ .invFail what ln := by
  intro what ln h
  rcases C09_a64_monitor_outcome p args hooks body routine nargs d0 hsafe htp hchk hcompX hd hargs hnostuck D hD cfg
    H hwf hb8 hb0 hbytes hfitX fuel' hf hKinds hWin with h1 | ⟨v, _, _, h1⟩ <;>
  · rw [h1] at h; cases h

/-- … for at most 6 fields of data: the frontier block is always inside the monitor's window -/
theorem C09_a64_monitor_never_fires_small (p : AxCut.Prog) (args : List Word) (hooks : Bool)
    (body routine : List Code) (nargs : Nat) (d0 : Def)
    (hsafe : LabelSafe p = true) (htp : LinTypedProg p) (hchk : C07_a64Checks p = true)
    (hcompX : compileProg a64Backend p hooks 0 = .ok (body, nargs, routine))
    (hd : p.defs.head? = some d0) (hargs : args.length = nargs)
    (hnostuck : ∀ fuel w, (Pos.run p args fuel).res ≠ .stuck w)
    (D : Nat) (hD6 : D ≤ 6)
    (hD : ∀ st, Reachable p ⟨d0.ctx, args.map .int, d0.body⟩ st → valsFields st.env ≤ D)
    (cfg : MonCfg) (H : CfgCC cfg.mem) (hwf : cfg.wf = true → routine.length < 262144)
    (hb8 : cfg.mem.heapBase % 8 = 0) (hb0 : 0 < cfg.mem.heapBase)
    (hbytes : 64 * (D + progMaxAlloc p + 2) ≤ cfg.mem.heapBytes)
    (hfitX : cfg.mem.codeBase + 4 * ninstr routine < 2 ^ 64)
    (fuel' : Nat) (hf : fuel' * (progMaxSize p + 1) + stmtSize d0.body + 1 < 2 ^ 64)
    (hKinds : ∀ ops c' ls, (compile mockSym hooks p).run 0 = .ok ((ops, nargs), c') →
      parseText (printProg routine) = .ok ls →
      HooksKinds p hooks routine ops cfg.mem (hkOf hookVarsOf) (layout ls) args) :
    ∀ what ln, (run (printProg routine) args fuel' cfg).res ≠ .invFail what ln :=
  C09_a64_monitor_never_fires p args hooks body routine nargs d0 hsafe htp hchk hcompX hd hargs hnostuck D hD cfg H hwf
    hb8 hb0 hbytes hfitX fuel' hf hKinds
    (fun ops _ ls _ _ => ConcK.windowOK_small p hooks routine ops cfg.mem _ _ args (by omega))

/-! ## a decidable sufficient condition for the kinds: hooks with at most one variable -/

/-- no `#ctx [` comment of the list has a blank behind the bracket: every hook lists at most one variable -/
def C09A_hooksOneVar (cs : List Code) : Bool :=
  cs.all fun c =>
    match c with
    | .COMMENT msg => !(msg.toList.take 6 == "#ctx [".toList) || !((msg.toList.drop 6).contains ' ')
    | _ => true

/-- what the loader reads from the hook of a context, in a routine whose hooks list at most one variable -/
theorem C09A_hookVars_of_oneVar {routine : List Code} (h1 : C09A_hooksOneVar routine = true) (Γ : Ctx)
    (hmem : Code.COMMENT (ctxHookComment Γ) ∈ routine) :
    hookVarsOf (ctxHookComment Γ) = some (Scc.A64.ctxVars Γ) := by
  have hnb : ∀ v ∈ Scc.A64.ctxVars Γ, ' ' ∉ v.1.toList := by
    intro v hv hblank
    obtain ⟨b, hb, rfl⟩ := List.mem_map.1 hv
    simp only at hblank
    let W : List String := Γ.map fun b => b.var.print ++ ":" ++ chiStr b.chi
    have hmsg : (ctxHookComment Γ).toList = "#ctx [".toList ++ ((" ".intercalate W).toList ++ [']']) := by
      show ("#ctx [" ++ " ".intercalate W ++ "]").toList = _
      rw [String.toList_append, String.toList_append, List.append_assoc]
      rfl
    unfold C09A_hooksOneVar at h1
    rw [List.all_eq_true] at h1
    have := h1 _ hmem
    simp only at this
    have htake : (ctxHookComment Γ).toList.take 6 = "#ctx [".toList := by
      rw [hmsg]; rfl
    have hdrop : (ctxHookComment Γ).toList.drop 6 = (" ".intercalate W).toList ++ [']'] := by
      rw [hmsg]; rfl
    rw [htake, hdrop] at this
    simp only [beq_self_eq_true, Bool.not_true, Bool.false_or, Bool.not_eq_true', List.contains_eq_mem,
      decide_eq_false_iff_not] at this
    apply this
    apply List.mem_append.2
    left
    rw [Scc.Str.intercalate_space]
    apply Scc.X86.ConcK.mem_intercalate_of_mem (W.map String.toList) (b.var.print ++ ":" ++ chiStr b.chi).toList
      (List.mem_map.2 ⟨_, List.mem_map.2 ⟨b, hb, rfl⟩, rfl⟩)
    rw [String.toList_append, String.toList_append]
    exact List.mem_append.2 (Or.inl (List.mem_append.2 (Or.inl hblank)))
  unfold hookVarsOf
  rw [Scc.A64.ctxHookComment_eq, Loader.commentPLine?_hook _ hnb]

/-- the kinds a hook reports are the kinds of the context -/
theorem C09A_hookKinds_ctxVars (Γ : Ctx) : hookKinds (Scc.A64.ctxVars Γ) = ctxKinds Γ := by
  unfold hookKinds Scc.A64.ctxVars ctxKinds
  rw [List.map_map]
  apply List.map_congr_left
  intro b _
  cases hb : b.chi <;> simp [Function.comp, Scc.A64.chiKind, hb] <;> rfl

/-- THE HOOKS LIST THE RIGHT KINDS in a routine (compiled WITH hooks) whose hooks list at most one variable -/
theorem C09A_hooksKinds_of_oneVar {p : AxCut.Prog} {routine : List Code} {ops : List MockOp} {c : MemCfg}
    {ls : List (Nat × PLine)} {args : List Word} (hl : Lines hookVarsOf ls routine)
    (h1 : C09A_hooksOneVar routine = true) :
    HooksKinds p true routine ops c (hkOf hookVarsOf) (layout ls) args := by
  intro n X st vs _ ⟨cfgA, hs, kp, e, _, R⟩ hv
  obtain ⟨Γ', ι, κ, hkeys, RX, X3h, _, k, k', its, hrun, hat⟩ := R
  obtain ⟨rest, hfirst⟩ := ConcK.post_first_hook natRen p.types st.stmt Γ' k its k' hrun
  obtain ⟨cs1, cs2, hcs, hlen⟩ := hat
  have hget : routine[kp]? = some (Code.COMMENT (ctxHookComment Γ')) := by
    rw [hcs, hfirst, ← hlen]
    simp
  have hvars := C09A_hookVars_of_oneVar h1 Γ' (List.mem_of_getElem? hget)
  have hit := ConcK.layout_hook_vs hl hget hvars
  rw [e, hit] at hv
  simp only [Option.some.injEq, Item.hook.injEq] at hv
  rw [← hv, C09A_hookKinds_ctxVars, Scc.X86.Conc.ctxKinds_keys hkeys]

/-- THE HEAP MONITOR NEVER REPORTS, NO HYPOTHESIS ABOUT THE RUN LEFT: at most 6 fields of data, and no hook of the
routine (compiled with hooks) lists more than one variable -/
theorem C09_a64_monitor_never_fires_closed (p : AxCut.Prog) (args : List Word) (body routine : List Code)
    (nargs : Nat) (d0 : Def)
    (hsafe : LabelSafe p = true) (htp : LinTypedProg p) (hchk : C07_a64Checks p = true)
    (hcompX : compileProg a64Backend p true 0 = .ok (body, nargs, routine))
    (hd : p.defs.head? = some d0) (hargs : args.length = nargs)
    (hnostuck : ∀ fuel w, (Pos.run p args fuel).res ≠ .stuck w)
    (hone : C09A_hooksOneVar routine = true)
    (D : Nat) (hD6 : D ≤ 6)
    (hD : ∀ st, Reachable p ⟨d0.ctx, args.map .int, d0.body⟩ st → valsFields st.env ≤ D)
    (cfg : MonCfg) (H : CfgCC cfg.mem) (hwf : cfg.wf = true → routine.length < 262144)
    (hb8 : cfg.mem.heapBase % 8 = 0) (hb0 : 0 < cfg.mem.heapBase)
    (hbytes : 64 * (D + progMaxAlloc p + 2) ≤ cfg.mem.heapBytes)
    (hfitX : cfg.mem.codeBase + 4 * ninstr routine < 2 ^ 64)
    (fuel' : Nat) (hf : fuel' * (progMaxSize p + 1) + stmtSize d0.body + 1 < 2 ^ 64) :
    ∀ what ln, (run (printProg routine) args fuel' cfg).res ≠ .invFail what ln := by
  obtain ⟨ops0, c0', ls0, S⟩ := C07_setup_of_checks p args true body routine nargs d0 hsafe htp hchk hcompX hd
  exact C09_a64_monitor_never_fires_small p args true body routine nargs d0 hsafe htp hchk hcompX hd hargs hnostuck D
    hD6 hD cfg H hwf hb8 hb0 hbytes hfitX fuel' hf
    (fun ops _ ls _ hparse => by
      have e : ls = ls0 := by
        have := S.parse
        rw [hparse] at this
        injection this
      subst e
      exact C09A_hooksKinds_of_oneVar S.lines hone)

/-! ## non-vacuity: the thunk loop of Props/C09X86Mon.lean, the heap monitor and the validator ON -/

open Scc.X86 (C09_thunkProg C09_thunkMain C09_thunk_nostuck C09_thunk_size C09_thunk_consts)

def C09A_thunkRoutine : List Code :=
  match compileProg a64Backend C09_thunkProg true 0 with
  | .ok (_, _, r) => r
  | .error _ => []

theorem C09A_thunk_compiles : ∃ body nargs,
    compileProg a64Backend C09_thunkProg true 0 = .ok (body, nargs, C09A_thunkRoutine) := by
  have hok : ∃ r, compileProg a64Backend C09_thunkProg true 0 = .ok r := ⟨_, rfl⟩
  obtain ⟨⟨body, nargs, routine⟩, hcomp⟩ := hok
  refine ⟨body, nargs, ?_⟩
  rw [hcomp]
  congr 3
  unfold C09A_thunkRoutine
  rw [hcomp]

set_option maxRecDepth 100000 in
theorem C09A_thunkProg_checks : C07_a64Checks C09_thunkProg = true := by decide +kernel

set_option maxRecDepth 100000 in
theorem C09A_thunkRoutine_fits : ({} : MonCfg).mem.codeBase + 4 * ninstr C09A_thunkRoutine < 2 ^ 64 := by decide

set_option maxRecDepth 100000 in
/-- every hook of the routine of the loop lists one variable -/
theorem C09A_thunk_hooksOneVar : C09A_hooksOneVar C09A_thunkRoutine = true := by decide +kernel

theorem C09A_thunk_nargs {body : List Code} {nargs : Nat}
    (h : compileProg a64Backend C09_thunkProg true 0 = .ok (body, nargs, C09A_thunkRoutine)) : [5].length = nargs := by
  obtain ⟨c1, hcompA, _⟩ := compileProg_ok h
  obtain ⟨_, _, _, _, _, _, hn2⟩ := Ref.K.compile_a64_entry (d0 := C09_thunkMain) hcompA rfl
  rw [hn2]; rfl

set_option maxRecDepth 100000 in
/-- THE HEAP MONITOR NEVER REPORTS ON THE THUNK LOOP: the machine WITH THE HEAP MONITOR AND THE VALIDATOR ON, on the
TEXT of the routine of the loop (hooks on), started with x = 5: for EVERY fuel below 2^61 the run does not end in a
report of the heap monitor — the program does not terminate: it allocates the environment of a closure, invokes the
closure through `BR reg` (landing behind the `#ctx` hook of the method), frees the environment and calls itself,
forever; the monitor runs `heapMonitor` at the hooks of the statement boundaries the machine passes through -/
theorem C09A_thunkLoop_monitor_never_fires (fuel' : Nat) (hf : fuel' < 2 ^ 61) (what : String) (ln : Nat) :
    (run (printProg C09A_thunkRoutine) [5] fuel' { heap := true, wf := true }).res ≠ .invFail what ln := by
  obtain ⟨body, nargs, hcomp⟩ := C09A_thunk_compiles
  obtain ⟨e1, e2, e3⟩ := C09_thunk_consts
  exact C09_a64_monitor_never_fires_closed C09_thunkProg [5] body C09A_thunkRoutine nargs C09_thunkMain
    (by decide) (linTypedCheck_sound C09_thunkProg rfl) C09A_thunkProg_checks hcomp rfl (C09A_thunk_nargs hcomp)
    C09_thunk_nostuck C09A_thunk_hooksOneVar 1 (by decide) C09_thunk_size
    { heap := true, wf := true } cfgCC_default (fun _ => by decide) (by decide) (by decide) (by rw [e1]; decide)
    C09A_thunkRoutine_fits fuel' (by rw [e2, e3]; omega) what ln

set_option maxRecDepth 100000 in
/-- the loop does not end either: with the monitors on, the machine is out of fuel for every fuel below 2^61 -/
theorem C09A_thunkLoop_outOfFuel (fuel' : Nat) (hf : fuel' < 2 ^ 61) :
    (run (printProg C09A_thunkRoutine) [5] fuel' { heap := true, wf := true }).res = .outOfFuel := by
  obtain ⟨body, nargs, hcomp⟩ := C09A_thunk_compiles
  obtain ⟨e1, e2, e3⟩ := C09_thunk_consts
  obtain ⟨ops0, c0', ls0, S⟩ := C07_setup_of_checks C09_thunkProg [5] true body C09A_thunkRoutine nargs C09_thunkMain
    (by decide) (linTypedCheck_sound C09_thunkProg rfl) C09A_thunkProg_checks hcomp rfl
  rcases C09_a64_monitor_outcome C09_thunkProg [5] true body C09A_thunkRoutine nargs C09_thunkMain
    (by decide) (linTypedCheck_sound C09_thunkProg rfl) C09A_thunkProg_checks hcomp rfl (C09A_thunk_nargs hcomp)
    C09_thunk_nostuck 1 C09_thunk_size
    { heap := true, wf := true } cfgCC_default (fun _ => by decide) (by decide) (by decide) (by rw [e1]; decide)
    C09A_thunkRoutine_fits fuel' (by rw [e2, e3]; omega)
    (fun ops _ ls _ hparse => by
      have e : ls = ls0 := by
        have := S.parse
        rw [hparse] at this
        injection this
      subst e
      exact C09A_hooksKinds_of_oneVar S.lines C09A_thunk_hooksOneVar)
    (fun ops _ ls _ _ => ConcK.windowOK_small _ _ _ ops _ _ _ _ (by decide)) with h | ⟨v, out, hr, _⟩
  · exact h
  · exfalso
    have hrs : Pos.run C09_thunkProg [5] (fuel' * (progMaxSize C09_thunkProg + 1) + stmtSize C09_thunkMain.body) =
        Pos.runState C09_thunkProg _ Scc.X86.C09_thunkS0 [] :=
      Scc.X86.Conc.run_eq_runState (p := C09_thunkProg) (d0 := C09_thunkMain) rfl rfl _
    have := (Scc.X86.C09_thunk_runs (fuel' * (progMaxSize C09_thunkProg + 1) + stmtSize C09_thunkMain.body) []).1
    rw [← hrs, hr] at this
    cases this

end Scc.A64

#print axioms Scc.A64.C09_a64_monitor_outcome
#print axioms Scc.A64.C09_a64_monitor_never_fires
#print axioms Scc.A64.C09_a64_monitor_never_fires_small
#print axioms Scc.A64.C09A_hookVars_of_oneVar
#print axioms Scc.A64.C09A_hooksKinds_of_oneVar
#print axioms Scc.A64.C09_a64_monitor_never_fires_closed
#print axioms Scc.A64.C09A_thunkLoop_monitor_never_fires
#print axioms Scc.A64.C09A_thunkLoop_outOfFuel
