/-
  Scc.Props.C13X86All — property C13 (calling convention), DYNAMIC part, for ALL PROGRAMS — data types AND
  CLOSURES — on x86-64: the port of Props/C13X86Data.lean (programs without closures, built on the three-way
  relation of Scc/X86/RefHeap*.lean) to the closure-aware relation `Scc.X86.Ref.K` of Props/C06X86Full.lean
  (Scc/X86/ConcK*.lean), with the side hypotheses of the composition DISCHARGED as in `C06_programs_text`
  (`C06_setup_of_checks`: from `LabelSafe`, `LinTypedProg`, the decidable checks `C06_x86Checks` and the
  success of the code generator: the mock code generator succeeds, its code fits, every reachable context has
  at most 133 variables, the labels of the routine are distinct, the text loads).

  The new ingredient for closures is the INDIRECT JUMP of `invoke` (`jmp reg`): it is safe by the closure clause
  `XC` of the relation — the code pointer a closure holds is the byte address of a method table of the routine
  — and it lands on the first item of non-zero size behind the method label, so the machine may be ahead of the
  statement boundary by labels and comments (`Tol`); the closure environment is a heap object like a
  constructor object (`create` stores, `invoke` loads), so the heap-side lemmas carry over.

  PROVED (axioms propext, Classical.choice, Quot.sound):
  * `C13_all_terminating`      every terminating run of the positional machine (hypotheses of
                               `C06_programs_text`): for EVERY machine fuel and EVERY heap-monitor setting the
                               result of `run (printProg routine)` is `outOfFuel`, `done v` or a report of the HEAP
                               monitor — never `cc-violation`, `misaligned-call`, `ret-to-non-sentinel`,
                               `read-undefined …`.
  * `C13_cc_never_fires_terminating`  hence `CCSafe`, and `C13_allowed` with the heap monitor off.
  * `C13_all_fuel` / `C13_cc_never_fires_all`  RUNS THAT DO NOT TERMINATE INCLUDED (the positional machine must
                               not get stuck: no division by zero / overflow): for every machine fuel `fuel'` with
                               `fuel'·(M + 1) + |main| + 1 < 2^64` (`M = progMaxSize p`) the calling-convention
                               monitor never fires.  Heap: the footprint bound of C10 (`PeakAtMost Pk`, at no
                               statement boundary more than `Pk` blocks in use, and `64·(Pk + A + 2) ≤ heapBytes`,
                               `A = progMaxAlloc p`: the largest number of fields of a `let` / of variables captured
                               by a `create`).  From PROGRESS (Scc/X86/ConcKProgress.lean): every `call` and every
                               `invoke` makes the machine execute an instruction, every other step moves to a
                               smaller statement, and the statement an `invoke` continues with — a clause of a
                               closure VALUE — is a sub-statement of a definition (`hered_step`).
  * `C13_cc_never_fires_all_size`  the same with the heap hypothesis on the SOURCE PROGRAM: `valsFields st.env ≤
                               D` for every reachable state (fields of the object AND closure values held by the
                               variables) and `64·(D + A + 2) ≤ heapBytes`.
  * items-level forms with the side hypotheses explicit: `C13_all_fuel_items`, `C13_cc_never_fires_all_items`.
  WHAT REMAINS of `C13_statement` (Props/C13X86.lean): machine fuel beyond `2^64 / (M + 1)`, runs of the
  positional machine that get stuck on a division (the machine faults with `div-by-zero` / `div-overflow`, which
  `C13_allowed` permits, but the simulation says nothing about stuck steps), the hypotheses `LabelSafe` and
  `C06_x86Checks`, the sane machine configurations (`MachOK`, heap base positive and 8-aligned, routine below
  2^64), and the peak / data-size hypothesis.
-/
import Scc.Props.C06X86Full
import Scc.Props.C10X86
import Scc.X86.ConcKAllFuel

namespace Scc.X86
open Scc.AxCut Scc.AxCut.Pos Scc.Backend Scc.Backend.Abs Scc.Backend.Sim Scc.X86.Ref
open Scc.X86.CC (CCSafe)
open Scc.Props.C06Generic (Reachable CodeFits)
open Scc.Props.C14Generic (LabelSafe)
open Scc.X86.Ref.K (AllocLe progMaxAlloc allocLe_progMaxAlloc)
open Scc.X86.Conc (stmtSize progMaxSize stmtSize_le_progMaxSize valsFields monOff runItems_monitor_indep
  withHeapBytes)

/-! ## the side hypotheses of the composition, from the checks -/

/-- what `LabelSafe`, `LinTypedProg`, the checks `C06_x86Checks` and the success of the x86-64 code generator
give: every side hypothesis of the run theorems on the items of the routine -/
structure C06_Setup (p : AxCut.Prog) (args : List Word) (hooks : Bool) (routine : List Code) (nargs : Nat)
    (d0 : Def) (ops : List MockOp) (c' : Nat) (items : List (Code × Nat)) : Prop where
  range : ProgInRange p
  compM : (compile mockSym hooks p).run 0 = .ok ((ops, nargs), c')
  fit : CodeFits ops
  nd : (labs routine).Nodup
  mem : d0 ∈ p.defs
  entry : ∀ b ∈ d0.ctx, b.chi = .ext ∧ b.ty = .i64
  nargs : nargs = d0.ctx.length
  cap : ∀ st, Reachable p ⟨d0.ctx, args.map .int, d0.body⟩ st → 2 * st.ctx.length ≤ 266
  parse : parseText (printProg routine) = .ok items
  items : (items.map (·.1)).map stripC = routine.map stripC

theorem C06_Setup.progOK {p : AxCut.Prog} {args : List Word} {hooks : Bool} {routine : List Code} {nargs : Nat}
    {d0 : Def} {ops : List MockOp} {c' : Nat} {items : List (Code × Nat)}
    (S : C06_Setup p args hooks routine nargs d0 ops c' items) : Ref.K.ProgOK p :=
  ⟨S.range.1, fun d hd => S.range.2 d hd⟩

/-- THE SIDE HYPOTHESES ARE DISCHARGED (as in `C06_programs_text`) -/
theorem C06_setup_of_checks (p : AxCut.Prog) (args : List Word) (hooks : Bool) (body routine : List Code)
    (nargs : Nat) (d0 : Def)
    (hsafe : LabelSafe p = true) (htp : LinTypedProg p) (hchk : C06_x86Checks p = true)
    (hcompX : compileX86 p hooks 0 = .ok (body, nargs)) (hrout : intoRoutine body nargs = .ok routine)
    (hd : p.defs.head? = some d0) :
    ∃ ops c' items, C06_Setup p args hooks routine nargs d0 ops c' items := by
  obtain ⟨hcap, hsize, hrange, hnames, d0', hd', hentry⟩ := C06_checks_facts hchk
  rw [hd] at hd'
  injection hd' with hd'
  subst hd'
  have hnd : (labs routine).Nodup := labels_unique_x86 hsafe hcompX hrout
  have hmem : d0 ∈ p.defs := by
    cases hdefs : p.defs with
    | nil => rw [hdefs] at hd; simp at hd
    | cons d ds => rw [hdefs] at hd; simp at hd; subst hd; simp
  have hne : p.defs ≠ [] := fun e => by rw [e] at hmem; cases hmem
  obtain ⟨ops, nargsM, c', hcompM⟩ := mock_compile_ok hooks p htp hne 0
  obtain ⟨_, hn⟩ := compile_mock_entry hcompM hd
  have hnargs : nargs = d0.ctx.length := by
    unfold compileX86 at hcompX
    cases hx : (compile x86Backend hooks p).run 0 with
    | error e => rw [hx] at hcompX; cases hcompX
    | ok r =>
      obtain ⟨⟨body', nargs'⟩, c''⟩ := r
      rw [hx] at hcompX
      simp only [Except.ok.injEq, Prod.mk.injEq] at hcompX
      obtain ⟨rfl, rfl⟩ := hcompX
      obtain ⟨d0', ds, hd', hn'⟩ := compile_nargs' _ _ _ _ _ _ _ hx
      rw [hd'] at hd
      simp only [List.head?_cons, Option.some.injEq] at hd
      subst hd
      exact hn'
  have hnM : nargsM = nargs := by rw [hn, hnargs]
  subst hnM
  obtain ⟨items, hparse, hitems⟩ := C14_routine_loads hrange hnames hcompX hrout
  exact ⟨ops, c', items, hrange, hcompM, codeFits_of_size htp hsize hcompM, hnd, hmem, hentry, hnargs,
    cap266_of_check hcap hmem args, hparse, hitems⟩

/-! ## the statement (kept as a `def : Prop`) -/

/-- the full statement for all programs: every run (terminating or not) of every compiled program ends in an
allowed outcome (`C13_statement` of Props/C13X86.lean on the items of the routine) -/
def C13_all_statement : Prop :=
  ∀ (p : AxCut.Prog) (args : List Word) (hooks : Bool) (body routine : List Code) (nargs : Nat),
    LinTypedProg p → compileX86 p hooks 0 = .ok (body, nargs) →
    intoRoutine body nargs = .ok routine → args.length = nargs →
    ∀ (fuel : Nat) (cfg : MonCfg), cfg.heap = false → MachOK cfg.mach →
      ∀ (items : List (Code × Nat)), (items.map (·.1)).map stripC = routine.map stripC →
      C13_allowed (runItems items args fuel cfg).res

/-! ## terminating runs -/

/-- the outcome of a run with an arbitrary heap-monitor flag from the outcome with the monitor off -/
theorem C13_of_monOff {items : List (Code × Nat)} {args : List Word} {fuel' : Nat} {cfg : MonCfg}
    (hoff : (runItems items args fuel' (monOff cfg)).res = .outOfFuel ∨
      ∃ v, (runItems items args fuel' (monOff cfg)).res = .done v) :
    (runItems items args fuel' cfg).res = .outOfFuel ∨ (∃ v, (runItems items args fuel' cfg).res = .done v) ∨
      ∃ what ln, cfg.heap = true ∧ (runItems items args fuel' cfg).res = .invFail what ln := by
  cases hh : cfg.heap with
  | false =>
    have e : monOff cfg = cfg := by
      cases cfg; simp only [monOff] at *; rw [hh]
    rw [e] at hoff
    rcases hoff with h | h
    · exact Or.inl h
    · exact Or.inr (Or.inl h)
  | true =>
    rcases runItems_monitor_indep items args fuel' cfg with h | ⟨e, ln, h⟩
    · rw [h]
      rcases hoff with h' | h'
      · exact Or.inl h'
      · exact Or.inr (Or.inl h')
    · exact Or.inr (Or.inr ⟨e, ln, rfl, h⟩)

theorem C13_safe_of_outcome {r : Res} {heap : Bool}
    (h : r = .outOfFuel ∨ (∃ v, r = .done v) ∨ ∃ what ln, heap = true ∧ r = .invFail what ln) :
    CCSafe r ∧ (heap = false → C13_allowed r) := by
  rcases h with h | ⟨v, h⟩ | ⟨e, ln, hh, h⟩
  · rw [h]; exact ⟨trivial, fun _ => trivial⟩
  · rw [h]; exact ⟨trivial, fun _ => trivial⟩
  · rw [h]; exact ⟨trivial, fun h0 => by rw [hh] at h0; cases h0⟩

/-- C13 FOR TERMINATING RUNS OF ALL PROGRAMS, on the text of the routine: under the hypotheses of
`C06_programs_text`, for EVERY amount of machine fuel and every setting of the heap monitor the machine on the
printed routine ends in `outOfFuel`, in `done v`, or (heap monitor on) in a report of the heap monitor. -/
theorem C13_all_terminating (p : AxCut.Prog) (args : List Word) (hooks : Bool) (body routine : List Code)
    (nargs : Nat)
    (hsafe : LabelSafe p = true) (htp : LinTypedProg p) (hchk : C06_x86Checks p = true)
    (hcompX : compileX86 p hooks 0 = .ok (body, nargs)) (hrout : intoRoutine body nargs = .ok routine)
    (fuel : Nat) (out : List (Bool × Word)) (v : Word) (hrun : Pos.run p args fuel = ⟨out, .done v⟩)
    (cfg : MonCfg) (MO : MachOK cfg.mach)
    (hb8 : cfg.mach.heapBase % 8 = 0) (hb0 : 0 < cfg.mach.heapBase)
    (hbytes : 128 + 64 * 134 * fuel ≤ cfg.mach.heapBytes)
    (hfitX : addrAt cfg.mach.codeBase routine routine.length < 2 ^ 64) (fuel' : Nat) :
    (run (printProg routine) args fuel' cfg).res = .outOfFuel ∨
      (∃ v, (run (printProg routine) args fuel' cfg).res = .done v) ∨
      ∃ what ln, cfg.heap = true ∧ (run (printProg routine) args fuel' cfg).res = .invFail what ln := by
  obtain ⟨_, _, hrange, hnames, _, _, _⟩ := C06_checks_facts hchk
  obtain ⟨items, hparse, hitems⟩ := C14_routine_loads hrange hnames hcompX hrout
  obtain ⟨f0, _, h2⟩ := C06_programs_text p args hooks body routine nargs hsafe htp hchk hcompX hrout fuel out v hrun
    (monOff cfg) MO rfl hb8 hb0 hbytes hfitX
  rw [run_eq_runItems hparse] at h2 ⊢
  have hoff := CC.runItems_res_of_done (items := items) (args := args) (cfg := monOff cfg) (f0 := f0) (v := v)
    h2 fuel'
  exact C13_of_monOff (by
    rcases hoff with h | h
    · exact Or.inl h
    · exact Or.inr ⟨v, h⟩)

/-- C13 (b) FOR ALL PROGRAMS, terminating runs: the calling-convention monitor never fires — all machine fuel,
every monitor configuration; with the heap monitor off the result is an outcome `C13_allowed` permits -/
theorem C13_cc_never_fires_terminating (p : AxCut.Prog) (args : List Word) (hooks : Bool)
    (body routine : List Code) (nargs : Nat)
    (hsafe : LabelSafe p = true) (htp : LinTypedProg p) (hchk : C06_x86Checks p = true)
    (hcompX : compileX86 p hooks 0 = .ok (body, nargs)) (hrout : intoRoutine body nargs = .ok routine)
    (fuel : Nat) (out : List (Bool × Word)) (v : Word) (hrun : Pos.run p args fuel = ⟨out, .done v⟩)
    (cfg : MonCfg) (MO : MachOK cfg.mach)
    (hb8 : cfg.mach.heapBase % 8 = 0) (hb0 : 0 < cfg.mach.heapBase)
    (hbytes : 128 + 64 * 134 * fuel ≤ cfg.mach.heapBytes)
    (hfitX : addrAt cfg.mach.codeBase routine routine.length < 2 ^ 64) (fuel' : Nat) :
    CCSafe (run (printProg routine) args fuel' cfg).res ∧
      (cfg.heap = false → C13_allowed (run (printProg routine) args fuel' cfg).res) :=
  C13_safe_of_outcome (C13_all_terminating p args hooks body routine nargs hsafe htp hchk hcompX hrout fuel out v
    hrun cfg MO hb8 hb0 hbytes hfitX fuel')

/-! ## every amount of machine fuel: runs that do not terminate -/

/-- C13 FOR ALL RUNS OF ALL PROGRAMS on the ITEMS of the routine, side hypotheses explicit: whatever the machine
fuel (below `2^64 / (M + 1)`), the machine ends in `outOfFuel` or in `done v` (or in a report of the heap monitor
when that is on) — never in `cc-violation`, `misaligned-call`, `ret-to-non-sentinel`, `read-undefined …`, nor in
any other fault. -/
theorem C13_all_fuel_items (p : AxCut.Prog) (args : List Word) (hooks : Bool) (body routine : List Code)
    (nargs : Nat) (d0 : Def) (ops : List MockOp) (c' : Nat)
    (hsafe : LabelSafe p = true) (htp : LinTypedProg p) (hrange : ProgInRange p)
    (hcompM : (compile mockSym hooks p).run 0 = .ok ((ops, nargs), c')) (hfit : CodeFits ops)
    (hcompX : compileX86 p hooks 0 = .ok (body, nargs)) (hrout : intoRoutine body nargs = .ok routine)
    (hnd : (labs routine).Nodup)
    (hd : p.defs.head? = some d0) (hentry : ∀ b ∈ d0.ctx, b.chi = .ext ∧ b.ty = .i64)
    (hlen : d0.ctx.length = args.length)
    (hcap : ∀ st, Reachable p ⟨d0.ctx, args.map .int, d0.body⟩ st → 2 * st.ctx.length ≤ 266)
    (hnostuck : ∀ fuel w, (Pos.run p args fuel).res ≠ .stuck w)
    (cfg : MonCfg) (MO : MachOK cfg.mach) (hk : cfg.consts = consts)
    (hb8 : cfg.mach.heapBase % 8 = 0) (hb0 : 0 < cfg.mach.heapBase)
    (Pk : Nat) (hbytes : 64 * (Pk + progMaxAlloc p + 2) ≤ cfg.mach.heapBytes)
    (items : List (Code × Nat)) (hitems : (items.map (·.1)).map stripC = routine.map stripC)
    (hfitX : addrAt cfg.mach.codeBase routine routine.length < 2 ^ 64)
    (fuel' : Nat) (hf : fuel' * (progMaxSize p + 1) + stmtSize d0.body + 1 < 2 ^ 64)
    (hP : ConcK.PeakAtMost p hooks routine ops cfg items args Pk
      (progMaxAlloc p * (fuel' * (progMaxSize p + 1) + stmtSize d0.body) + 1)) :
    (runItems items args fuel' cfg).res = .outOfFuel ∨ (∃ v, (runItems items args fuel' cfg).res = .done v) ∨
      ∃ what ln, cfg.heap = true ∧ (runItems items args fuel' cfg).res = .invFail what ln := by
  have hPoff : ConcK.PeakAtMost p hooks routine ops (monOff cfg) items args Pk
      (progMaxAlloc p * (fuel' * (progMaxSize p + 1) + stmtSize d0.body) + 1) := by
    intro n X st hn hB below inUse hsh hb
    have hn' : stepN cfg (mkProg cfg.mach items) n (initState cfg.mach args 6) = .inl X := by
      rw [← Conc.stepN_monOff]; exact hn
    exact hP n X st hn' hB below inUse hsh hb
  have hoff := ConcK.programs_all_fuel_gen p args hooks body routine nargs d0 ops c' hsafe htp
    ⟨hrange.1, fun d hd => hrange.2 d hd⟩ hcompM hfit hcompX hrout hnd hd hentry hlen hcap hnostuck
    (monOff cfg) MO rfl hb8 hb0 Pk (progMaxAlloc p) (progMaxSize p) (allocLe_progMaxAlloc p)
    (stmtSize_le_progMaxSize p) hbytes items hitems hfitX fuel' hf
    (ConcK.peakHyp_of_peakAtMost (cfg := monOff cfg) hk hPoff)
  exact C13_of_monOff (by
    rcases hoff with h | ⟨v, _, _, h⟩
    · exact Or.inl h
    · exact Or.inr ⟨v, h⟩)

/-- C13 (b) FOR ALL PROGRAMS, ALL RUNS, on the items of the routine -/
theorem C13_cc_never_fires_all_items (p : AxCut.Prog) (args : List Word) (hooks : Bool) (body routine : List Code)
    (nargs : Nat) (d0 : Def) (ops : List MockOp) (c' : Nat)
    (hsafe : LabelSafe p = true) (htp : LinTypedProg p) (hrange : ProgInRange p)
    (hcompM : (compile mockSym hooks p).run 0 = .ok ((ops, nargs), c')) (hfit : CodeFits ops)
    (hcompX : compileX86 p hooks 0 = .ok (body, nargs)) (hrout : intoRoutine body nargs = .ok routine)
    (hnd : (labs routine).Nodup)
    (hd : p.defs.head? = some d0) (hentry : ∀ b ∈ d0.ctx, b.chi = .ext ∧ b.ty = .i64)
    (hlen : d0.ctx.length = args.length)
    (hcap : ∀ st, Reachable p ⟨d0.ctx, args.map .int, d0.body⟩ st → 2 * st.ctx.length ≤ 266)
    (hnostuck : ∀ fuel w, (Pos.run p args fuel).res ≠ .stuck w)
    (cfg : MonCfg) (MO : MachOK cfg.mach) (hk : cfg.consts = consts)
    (hb8 : cfg.mach.heapBase % 8 = 0) (hb0 : 0 < cfg.mach.heapBase)
    (Pk : Nat) (hbytes : 64 * (Pk + progMaxAlloc p + 2) ≤ cfg.mach.heapBytes)
    (items : List (Code × Nat)) (hitems : (items.map (·.1)).map stripC = routine.map stripC)
    (hfitX : addrAt cfg.mach.codeBase routine routine.length < 2 ^ 64)
    (fuel' : Nat) (hf : fuel' * (progMaxSize p + 1) + stmtSize d0.body + 1 < 2 ^ 64)
    (hP : ConcK.PeakAtMost p hooks routine ops cfg items args Pk
      (progMaxAlloc p * (fuel' * (progMaxSize p + 1) + stmtSize d0.body) + 1)) :
    CCSafe (runItems items args fuel' cfg).res ∧
      (cfg.heap = false → C13_allowed (runItems items args fuel' cfg).res) :=
  C13_safe_of_outcome (C13_all_fuel_items p args hooks body routine nargs d0 ops c' hsafe htp hrange hcompM hfit
    hcompX hrout hnd hd hentry hlen hcap hnostuck cfg MO hk hb8 hb0 Pk hbytes items hitems hfitX fuel' hf hP)

/-- C13 FOR ALL RUNS OF ALL PROGRAMS ON THE TEXT OF THE ROUTINE, side hypotheses discharged: for a label-safe,
linearly typed program that passes the checks `C06_x86Checks` and that the code generator compiles, started with
as many arguments as the first definition has parameters, whose run on the positional machine never gets stuck:
in every sane machine configuration whose heap holds the peak (`PeakAtMost Pk`, `64·(Pk + A + 2) ≤ heapBytes`)
the machine's entry point `run` on the printed routine ends, for every fuel below `2^64 / (M + 1)`, in
`outOfFuel`, in `done v`, or (heap monitor on) in a report of the heap monitor. -/
theorem C13_all_fuel (p : AxCut.Prog) (args : List Word) (hooks : Bool) (body routine : List Code)
    (nargs : Nat) (d0 : Def)
    (hsafe : LabelSafe p = true) (htp : LinTypedProg p) (hchk : C06_x86Checks p = true)
    (hcompX : compileX86 p hooks 0 = .ok (body, nargs)) (hrout : intoRoutine body nargs = .ok routine)
    (hd : p.defs.head? = some d0) (hargs : args.length = nargs)
    (hnostuck : ∀ fuel w, (Pos.run p args fuel).res ≠ .stuck w)
    (cfg : MonCfg) (MO : MachOK cfg.mach) (hk : cfg.consts = consts)
    (hb8 : cfg.mach.heapBase % 8 = 0) (hb0 : 0 < cfg.mach.heapBase)
    (Pk : Nat) (hbytes : 64 * (Pk + progMaxAlloc p + 2) ≤ cfg.mach.heapBytes)
    (hfitX : addrAt cfg.mach.codeBase routine routine.length < 2 ^ 64)
    (fuel' : Nat) (hf : fuel' * (progMaxSize p + 1) + stmtSize d0.body + 1 < 2 ^ 64)
    (hP : ∀ ops c' items, (compile mockSym hooks p).run 0 = .ok ((ops, nargs), c') →
      parseText (printProg routine) = .ok items → ConcK.PeakAtMost p hooks routine ops cfg items args Pk
        (progMaxAlloc p * (fuel' * (progMaxSize p + 1) + stmtSize d0.body) + 1)) :
    (run (printProg routine) args fuel' cfg).res = .outOfFuel ∨
      (∃ v, (run (printProg routine) args fuel' cfg).res = .done v) ∨
      ∃ what ln, cfg.heap = true ∧ (run (printProg routine) args fuel' cfg).res = .invFail what ln := by
  obtain ⟨ops, c', items, S⟩ := C06_setup_of_checks p args hooks body routine nargs d0 hsafe htp hchk hcompX hrout hd
  rw [run_eq_runItems S.parse]
  exact C13_all_fuel_items p args hooks body routine nargs d0 ops c' hsafe htp S.range S.compM S.fit hcompX hrout
    S.nd hd S.entry (by rw [← S.nargs, hargs]) S.cap hnostuck cfg MO hk hb8 hb0 Pk hbytes items S.items hfitX fuel' hf
    (hP ops c' items S.compM S.parse)

/-- C13 (b) FOR ALL PROGRAMS, ALL RUNS, ON THE TEXT: THE CALLING-CONVENTION MONITOR NEVER FIRES, whatever the
machine fuel (below `2^64 / (M + 1)`) and the monitor configuration; with the heap monitor off the result is an
outcome `C13_allowed` permits -/
theorem C13_cc_never_fires_all (p : AxCut.Prog) (args : List Word) (hooks : Bool) (body routine : List Code)
    (nargs : Nat) (d0 : Def)
    (hsafe : LabelSafe p = true) (htp : LinTypedProg p) (hchk : C06_x86Checks p = true)
    (hcompX : compileX86 p hooks 0 = .ok (body, nargs)) (hrout : intoRoutine body nargs = .ok routine)
    (hd : p.defs.head? = some d0) (hargs : args.length = nargs)
    (hnostuck : ∀ fuel w, (Pos.run p args fuel).res ≠ .stuck w)
    (cfg : MonCfg) (MO : MachOK cfg.mach) (hk : cfg.consts = consts)
    (hb8 : cfg.mach.heapBase % 8 = 0) (hb0 : 0 < cfg.mach.heapBase)
    (Pk : Nat) (hbytes : 64 * (Pk + progMaxAlloc p + 2) ≤ cfg.mach.heapBytes)
    (hfitX : addrAt cfg.mach.codeBase routine routine.length < 2 ^ 64)
    (fuel' : Nat) (hf : fuel' * (progMaxSize p + 1) + stmtSize d0.body + 1 < 2 ^ 64)
    (hP : ∀ ops c' items, (compile mockSym hooks p).run 0 = .ok ((ops, nargs), c') →
      parseText (printProg routine) = .ok items → ConcK.PeakAtMost p hooks routine ops cfg items args Pk
        (progMaxAlloc p * (fuel' * (progMaxSize p + 1) + stmtSize d0.body) + 1)) :
    CCSafe (run (printProg routine) args fuel' cfg).res ∧
      (cfg.heap = false → C13_allowed (run (printProg routine) args fuel' cfg).res) :=
  C13_safe_of_outcome (C13_all_fuel p args hooks body routine nargs d0 hsafe htp hchk hcompX hrout hd hargs hnostuck
    cfg MO hk hb8 hb0 Pk hbytes hfitX fuel' hf hP)

/-- C13 (b) FOR ALL PROGRAMS, ALL RUNS, heap hypothesis on the SOURCE PROGRAM: if the object and closure values
held by the variables of the positional machine never have more than `D` fields (over all reachable states),
then in a heap of `64·(D + A + 2)` bytes the machine on the printed routine never reports a violation of the
calling convention, whatever the fuel (below `2^64 / (M + 1)`) and the monitor configuration. -/
theorem C13_cc_never_fires_all_size (p : AxCut.Prog) (args : List Word) (hooks : Bool) (body routine : List Code)
    (nargs : Nat) (d0 : Def)
    (hsafe : LabelSafe p = true) (htp : LinTypedProg p) (hchk : C06_x86Checks p = true)
    (hcompX : compileX86 p hooks 0 = .ok (body, nargs)) (hrout : intoRoutine body nargs = .ok routine)
    (hd : p.defs.head? = some d0) (hargs : args.length = nargs)
    (hnostuck : ∀ fuel w, (Pos.run p args fuel).res ≠ .stuck w)
    (D : Nat) (hD : ∀ st, Reachable p ⟨d0.ctx, args.map .int, d0.body⟩ st → valsFields st.env ≤ D)
    (cfg : MonCfg) (MO : MachOK cfg.mach)
    (hb8 : cfg.mach.heapBase % 8 = 0) (hb0 : 0 < cfg.mach.heapBase)
    (hbytes : 64 * (D + progMaxAlloc p + 2) ≤ cfg.mach.heapBytes)
    (hfitX : addrAt cfg.mach.codeBase routine routine.length < 2 ^ 64)
    (fuel' : Nat) (hf : fuel' * (progMaxSize p + 1) + stmtSize d0.body + 1 < 2 ^ 64) :
    CCSafe (run (printProg routine) args fuel' cfg).res ∧
      (cfg.heap = false → C13_allowed (run (printProg routine) args fuel' cfg).res) := by
  obtain ⟨ops, c', items, S⟩ := C06_setup_of_checks p args hooks body routine nargs d0 hsafe htp hchk hcompX hrout hd
  rw [run_eq_runItems S.parse]
  have hoff := (ConcK.programs_dsize_all p args hooks body routine nargs d0 ops c' hsafe htp S.progOK S.compM S.fit
    hcompX hrout S.nd hd S.entry (by rw [← S.nargs, hargs]) S.cap hnostuck D hD (monOff cfg) MO rfl hb8 hb0
    (progMaxAlloc p) (progMaxSize p) (allocLe_progMaxAlloc p) (stmtSize_le_progMaxSize p) hbytes items S.items
    hfitX fuel' hf).1
  exact C13_safe_of_outcome (C13_of_monOff (by
    rcases hoff with h | ⟨v, _, _, h⟩
    · exact Or.inl h
    · exact Or.inr ⟨v, h⟩))

/-! ### non-vacuity: the closure program of Props/C06X86Full.lean (a single-method closure invoked by `jmp reg`,
a two-method closure invoked through its jump table, a closure captured by a closure, moved by `subst`) -/

theorem C06_cloProg_consts : progMaxAlloc C06_cloProg = 1 ∧ progMaxSize C06_cloProg = 14 ∧
    stmtSize C06_cloMain.body = 14 := by decide

/-- every hypothesis of `C13_cc_never_fires_terminating` holds for the closure program started with x = 37 -/
example (fuel' : Nat) : CCSafe (run (printProg C06_cloRoutine) [37] fuel' {}).res ∧
    (({} : MonCfg).heap = false → C13_allowed (run (printProg C06_cloRoutine) [37] fuel' {}).res) := by
  have hrun : Pos.run C06_cloProg [37] 20 = ⟨[(true, 42)], .done 42⟩ := by decide
  exact C13_cc_never_fires_terminating C06_cloProg [37] true C06_cloBody C06_cloRoutine 1
    (by decide) (linTypedCheck_sound C06_cloProg rfl) C06_cloProg_checks rfl rfl
    20 _ _ hrun {} machOK_default (by decide) (by decide) (by decide) C06_cloRoutine_fits fuel'

/-- every hypothesis of `C13_cc_never_fires_all_size` holds for the closure program started with x = 37 (`D = 2`:
at no state do the variables hold more than two fields of closure data — `g` captures `f`, `f` captures `x`):
for EVERY fuel below 2^58 the calling-convention monitor does not fire -/
example (fuel' : Nat) (hf : fuel' < 2 ^ 58) : CCSafe (run (printProg C06_cloRoutine) [37] fuel' {}).res ∧
    (({} : MonCfg).heap = false → C13_allowed (run (printProg C06_cloRoutine) [37] fuel' {}).res) := by
  have hrun : Pos.run C06_cloProg [37] 20 = ⟨[(true, 42)], .done 42⟩ := by decide
  obtain ⟨e1, e2, e3⟩ := C06_cloProg_consts
  obtain ⟨hnostuck, _⟩ := C10_done_unique hrun
  exact C13_cc_never_fires_all_size C06_cloProg [37] true C06_cloBody C06_cloRoutine 1 C06_cloMain
    (by decide) (linTypedCheck_sound C06_cloProg rfl) C06_cloProg_checks rfl rfl rfl rfl hnostuck 2
    (C10_dataSize_of_run C06_cloProg 20 _ 2 (by decide) (by decide))
    {} machOK_default (by decide) (by decide) (by rw [e1]; decide) C06_cloRoutine_fits
    fuel' (by rw [e2, e3]; omega)

/-! ### non-vacuity of the all-fuel theorems: a loop that creates a closure and invokes it FOREVER -/

/-- main(x) { create f : Fun = (x){ Ap(a) => subst (y := a); main(y) }; lit n <- 5;
      subst (n := n)(f := f); invoke f Ap(n) } -/
def C13_cloLoopMain : Def :=
  { name := ⟨"main", 0⟩, ctx := [⟨⟨"x", 1⟩, .ext, .i64⟩],
    body := .create ⟨"f", 2⟩ C06_tFun (some [⟨⟨"x", 1⟩, .ext, .i64⟩])
      (.cons ⟨"Ap", 0⟩ [⟨⟨"a", 3⟩, .ext, .i64⟩]
        (.subst [(⟨⟨"y", 4⟩, .ext, .i64⟩, ⟨"a", 3⟩)] (.call ⟨"main", 0⟩ [⟨⟨"y", 4⟩, .ext, .i64⟩])) .nil)
      (.lit ⟨"n", 5⟩ 5
        (.subst [(⟨⟨"n", 6⟩, .ext, .i64⟩, ⟨"n", 5⟩), (⟨⟨"f", 7⟩, .cns, C06_tFun⟩, ⟨"f", 2⟩)]
          (.invoke ⟨"f", 7⟩ ⟨"Ap", 0⟩ C06_tFun [⟨⟨"n", 6⟩, .ext, .i64⟩])) none) none none }

def C13_cloLoopProg : AxCut.Prog := { defs := [C13_cloLoopMain], types := [C06_funDecl], maxId := 204 }

def C13_cloLoopBody : List Code :=
  match compileX86 C13_cloLoopProg true 0 with
  | .ok (body, _) => body
  | .error _ => []

def C13_cloLoopRoutine : List Code :=
  match intoRoutine C13_cloLoopBody 1 with
  | .ok r => r
  | .error _ => []

/-- the clauses of the closure -/
def C13_cloLoopClauses : Clauses :=
  .cons ⟨"Ap", 0⟩ [⟨⟨"a", 3⟩, .ext, .i64⟩]
    (.subst [(⟨⟨"y", 4⟩, .ext, .i64⟩, ⟨"a", 3⟩)] (.call ⟨"main", 0⟩ [⟨⟨"y", 4⟩, .ext, .i64⟩])) .nil

def C13_cloLoopClo : Pos.Value := .clo [⟨⟨"x", 1⟩, .ext, .i64⟩] [.int 5] C13_cloLoopClauses

/-- the six states of the loop (started with x = 5) -/
def C13_cloS0 : Pos.State := ⟨C13_cloLoopMain.ctx, [.int 5], C13_cloLoopMain.body⟩
def C13_cloS1 : Pos.State :=
  ⟨[⟨⟨"f", 2⟩, .cns, C06_tFun⟩], [C13_cloLoopClo],
   .lit ⟨"n", 5⟩ 5
     (.subst [(⟨⟨"n", 6⟩, .ext, .i64⟩, ⟨"n", 5⟩), (⟨⟨"f", 7⟩, .cns, C06_tFun⟩, ⟨"f", 2⟩)]
       (.invoke ⟨"f", 7⟩ ⟨"Ap", 0⟩ C06_tFun [⟨⟨"n", 6⟩, .ext, .i64⟩])) none⟩
def C13_cloS2 : Pos.State :=
  ⟨[⟨⟨"f", 2⟩, .cns, C06_tFun⟩, ⟨⟨"n", 5⟩, .ext, .i64⟩], [C13_cloLoopClo, .int 5],
   .subst [(⟨⟨"n", 6⟩, .ext, .i64⟩, ⟨"n", 5⟩), (⟨⟨"f", 7⟩, .cns, C06_tFun⟩, ⟨"f", 2⟩)]
     (.invoke ⟨"f", 7⟩ ⟨"Ap", 0⟩ C06_tFun [⟨⟨"n", 6⟩, .ext, .i64⟩])⟩
def C13_cloS3 : Pos.State :=
  ⟨[⟨⟨"n", 6⟩, .ext, .i64⟩, ⟨⟨"f", 7⟩, .cns, C06_tFun⟩], [.int 5, C13_cloLoopClo],
   .invoke ⟨"f", 7⟩ ⟨"Ap", 0⟩ C06_tFun [⟨⟨"n", 6⟩, .ext, .i64⟩]⟩
def C13_cloS4 : Pos.State :=
  ⟨[⟨⟨"a", 3⟩, .ext, .i64⟩, ⟨⟨"x", 1⟩, .ext, .i64⟩], [.int 5, .int 5],
   .subst [(⟨⟨"y", 4⟩, .ext, .i64⟩, ⟨"a", 3⟩)] (.call ⟨"main", 0⟩ [⟨⟨"y", 4⟩, .ext, .i64⟩])⟩
def C13_cloS5 : Pos.State :=
  ⟨[⟨⟨"y", 4⟩, .ext, .i64⟩], [.int 5], .call ⟨"main", 0⟩ [⟨⟨"y", 4⟩, .ext, .i64⟩]⟩

theorem C13_cloLoop_step0 : Pos.step C13_cloLoopProg C13_cloS0 = .next C13_cloS1 none := by rfl
theorem C13_cloLoop_step1 : Pos.step C13_cloLoopProg C13_cloS1 = .next C13_cloS2 none := by rfl
theorem C13_cloLoop_step2 : Pos.step C13_cloLoopProg C13_cloS2 = .next C13_cloS3 none := by rfl
theorem C13_cloLoop_step3 : Pos.step C13_cloLoopProg C13_cloS3 = .next C13_cloS4 none := by rfl
theorem C13_cloLoop_step4 : Pos.step C13_cloLoopProg C13_cloS4 = .next C13_cloS5 none := by rfl
theorem C13_cloLoop_step5 : Pos.step C13_cloLoopProg C13_cloS5 = .next C13_cloS0 none := by rfl

theorem C13_cloLoop_reachable (st : Pos.State) (h : Reachable C13_cloLoopProg C13_cloS0 st) :
    st = C13_cloS0 ∨ st = C13_cloS1 ∨ st = C13_cloS2 ∨ st = C13_cloS3 ∨ st = C13_cloS4 ∨ st = C13_cloS5 := by
  induction h with
  | refl => exact Or.inl rfl
  | step _ hs ih =>
    rcases ih with rfl | rfl | rfl | rfl | rfl | rfl
    · rw [C13_cloLoop_step0] at hs; injection hs with e; exact Or.inr (Or.inl e.symm)
    · rw [C13_cloLoop_step1] at hs; injection hs with e; exact Or.inr (Or.inr (Or.inl e.symm))
    · rw [C13_cloLoop_step2] at hs; injection hs with e; exact Or.inr (Or.inr (Or.inr (Or.inl e.symm)))
    · rw [C13_cloLoop_step3] at hs; injection hs with e
      exact Or.inr (Or.inr (Or.inr (Or.inr (Or.inl e.symm))))
    · rw [C13_cloLoop_step4] at hs; injection hs with e
      exact Or.inr (Or.inr (Or.inr (Or.inr (Or.inr e.symm))))
    · rw [C13_cloLoop_step5] at hs; injection hs with e; exact Or.inl e.symm

/-- the loop never ends and never gets stuck -/
theorem C13_cloLoop_runs : ∀ (fuel : Nat) (acc : List (Bool × Word)),
    (Pos.runState C13_cloLoopProg fuel C13_cloS0 acc).res = .outOfFuel ∧
    (Pos.runState C13_cloLoopProg fuel C13_cloS1 acc).res = .outOfFuel ∧
    (Pos.runState C13_cloLoopProg fuel C13_cloS2 acc).res = .outOfFuel ∧
    (Pos.runState C13_cloLoopProg fuel C13_cloS3 acc).res = .outOfFuel ∧
    (Pos.runState C13_cloLoopProg fuel C13_cloS4 acc).res = .outOfFuel ∧
    (Pos.runState C13_cloLoopProg fuel C13_cloS5 acc).res = .outOfFuel
  | 0, _ => ⟨rfl, rfl, rfl, rfl, rfl, rfl⟩
  | fuel + 1, acc => by
    obtain ⟨h0, h1, h2, h3, h4, h5⟩ := C13_cloLoop_runs fuel acc
    refine ⟨?_, ?_, ?_, ?_, ?_, ?_⟩
    · simp only [Pos.runState, C13_cloLoop_step0]; exact h1
    · simp only [Pos.runState, C13_cloLoop_step1]; exact h2
    · simp only [Pos.runState, C13_cloLoop_step2]; exact h3
    · simp only [Pos.runState, C13_cloLoop_step3]; exact h4
    · simp only [Pos.runState, C13_cloLoop_step4]; exact h5
    · simp only [Pos.runState, C13_cloLoop_step5]; exact h0

theorem C13_cloLoop_nostuck (fuel : Nat) (w : Pos.Why) : (Pos.run C13_cloLoopProg [5] fuel).res ≠ .stuck w := by
  intro h
  have hrs : Pos.run C13_cloLoopProg [5] fuel = Pos.runState C13_cloLoopProg fuel C13_cloS0 [] :=
    Conc.run_eq_runState rfl rfl fuel
  rw [hrs, (C13_cloLoop_runs fuel []).1] at h
  cases h

/-- at no state of the loop do the variables hold more than one field of closure data -/
theorem C13_cloLoop_size (st : Pos.State) (h : Reachable C13_cloLoopProg C13_cloS0 st) : valsFields st.env ≤ 1 := by
  rcases C13_cloLoop_reachable st h with rfl | rfl | rfl | rfl | rfl | rfl <;> decide

set_option maxRecDepth 100000 in
theorem C13_cloLoopProg_checks : C06_x86Checks C13_cloLoopProg = true := by decide +kernel

set_option maxRecDepth 100000 in
theorem C13_cloLoopRoutine_fits :
    addrAt ({} : MachCfg).codeBase C13_cloLoopRoutine C13_cloLoopRoutine.length < 2 ^ 64 := by decide

theorem C13_cloLoop_consts : progMaxAlloc C13_cloLoopProg = 1 ∧ progMaxSize C13_cloLoopProg = 7 ∧
    stmtSize C13_cloLoopMain.body = 7 := by decide

/-- THE CLOSURE LOOP NEVER VIOLATES THE CALLING CONVENTION: the machine on the TEXT of the routine of the closure
loop, started with x = 5 in the default configuration: for EVERY fuel below 2^59 the calling-convention monitor
does not fire and the result is an allowed outcome — the program does not terminate (it allocates the environment
of a closure, invokes the closure through `jmp reg`, frees the environment, and calls itself, forever) -/
theorem C13_cloLoop_never_fires (fuel' : Nat) (hf : fuel' < 2 ^ 59) :
    CCSafe (run (printProg C13_cloLoopRoutine) [5] fuel' {}).res ∧
    (({} : MonCfg).heap = false → C13_allowed (run (printProg C13_cloLoopRoutine) [5] fuel' {}).res) := by
  obtain ⟨e1, e2, e3⟩ := C13_cloLoop_consts
  exact C13_cc_never_fires_all_size C13_cloLoopProg [5] true C13_cloLoopBody C13_cloLoopRoutine 1 C13_cloLoopMain
    (by decide) (linTypedCheck_sound C13_cloLoopProg rfl) C13_cloLoopProg_checks rfl rfl rfl rfl
    C13_cloLoop_nostuck 1 C13_cloLoop_size
    {} machOK_default (by decide) (by decide) (by rw [e1]; decide) C13_cloLoopRoutine_fits
    fuel' (by rw [e2, e3]; omega)

end Scc.X86

#print axioms Scc.X86.C06_setup_of_checks
#print axioms Scc.X86.C13_all_terminating
#print axioms Scc.X86.C13_cc_never_fires_terminating
#print axioms Scc.X86.C13_all_fuel_items
#print axioms Scc.X86.C13_cc_never_fires_all_items
#print axioms Scc.X86.C13_all_fuel
#print axioms Scc.X86.C13_cc_never_fires_all
#print axioms Scc.X86.C13_cc_never_fires_all_size
#print axioms Scc.X86.C13_cloLoop_never_fires
