/-
  Scc.Props.C01Checks — the DECIDABLE per-program predicates that the composition theorems of C01
  (Scc/Props/C01.lean: `C01_composition`, `C01_middle`) take as hypotheses.  Executable; kept apart from
  Props/C01.lean so that the driver `Scc.Pipeline.Links.linksLine` (linked into `sccmodel`) can evaluate
  them on every program of every run without linking the proof files of C04/C06
  (`fragOk` / `coreClosed` live in the proof files Scc/Fun2Core/Sem*.lean of agent pf-c02sem; they are
  executable, core imports only).
-/
import Scc.Props.C12
import Scc.Props.C14Generic
import Scc.Fun2Core.SemFrag
import Scc.Fun2Core.SemProg
import Scc.AxCut.PosCapacity
import Scc.Backend.Mock
import Scc.X86.Backend
import Scc.X86.Machine

namespace Scc.Props

open Scc Scc.Pipeline
open Scc.Props.C14Generic (LabelSafe)

/-- **the decidable per-program predicate of the composition**: the middle end succeeds on `p'` and its
    stages pass the executable checks of the facts that are not theorems yet (`C12_stageChecks`: S2 is
    an `Input` of C03, S3 passes `wtFsScopedCheck`, S4 passes `wtAxCheck` and `wfNonLinearCheck`).
    Everything else the composition needs about the stages is DERIVED from it by theorems
    (`C12_facts_of_checks`). -/
def C01_linkChecks (p' : Fun.CheckedProgram) : Bool := C12_linkChecks p'

/-- the names of the linearized program are label-safe (C14): no two labels of the emitted text
    coincide (`C14Generic.labels_unique`).  Decidable.  Needed by the x86-64 link only. -/
def C01_labelSafe (p' : Fun.CheckedProgram) : Bool :=
  match stages p' with
  | .ok st => LabelSafe st.s5
  | .error _ => false

/-- the fragment in which the forward semantics of fun2core is a THEOREM (`C02_sem_forward_frag`,
    Props/C02Sem.lean): the program is in `Fun2Core.Sem.fragOk` (sequenced, `main` not called, no codata
    declarations / `new` / destructor calls, distinct names, closed bodies) and every definition of its
    translation mentions only its parameters (`coreClosed`).  Decidable.  For such programs
    `C01_composition_frag` needs no fun2core hypothesis. -/
def C01_fragChecks (p' : Fun.CheckedProgram) : Bool :=
  Fun2Core.Sem.fragOk p' &&
  match Fun2Core.compileProg p' with
  | .ok q2 => Fun2Core.Sem.coreClosed q2
  | .error _ => false

/-- every context that the positional machine can reach on the linearized program fits the numbering
    of temporaries of the mock backend (`2 * progCap S5 + 2 < T_TEMP = 1000001`; `progCap`:
    Scc/AxCut/PosCapacity.lean).  Decidable.  The capacity condition of Theorem A
    (`C06Generic.ProgWithinCapacity`, Props/C06Capacity.lean) on the stages of `p'`; needed only by the
    statements that go through the abstract backend machine. -/
def C01_capacity (p' : Fun.CheckedProgram) : Bool :=
  match stages p' with
  | .ok st => decide (2 * AxCut.Pos.progCap st.s5 + 2 < Backend.Mock.T_TEMP)
  | .error _ => false

/-! ## the integer fragment: executable forms of `IntProg`, `ProgInRange`, `TextLoads` -/

/-- executable form of `C06Generic.IntStmt`: no `let`, `switch`, `create`, `invoke` -/
def C01_intStmtB : AxCut.Stmt → Bool
  | .lit _ _ next _ => C01_intStmtB next
  | .op _ _ _ _ next _ => C01_intStmtB next
  | .print _ _ next _ => C01_intStmtB next
  | .ifc _ _ _ t e => C01_intStmtB t && C01_intStmtB e
  | .exit _ => true
  | .call _ _ => true
  | .subst _ next => C01_intStmtB next
  | _ => false

/-- executable form of `C06Generic.IntProg`: every parameter is an integer, every body an integer
    statement -/
def C01_intProgB (q : AxCut.Prog) : Bool :=
  q.defs.all fun d => d.ctx.all (fun b => decide (b.chi = .ext)) && C01_intStmtB d.body

mutual
  /-- executable form of `X86.StmtB (fitsI64 · = true) maxSubstX86`: literals are i64 values,
      substitution lists have fewer than 2^31 pairs -/
  def C01_stmtRangeB : AxCut.Stmt → Bool
    | .subst pairs next => decide (pairs.length ≤ 2147483647) && C01_stmtRangeB next
    | .call _ _ => true
    | .letS _ _ _ _ next _ => C01_stmtRangeB next
    | .switch _ _ clauses _ => C01_clausesRangeB clauses
    | .create _ _ _ clauses next _ _ => C01_clausesRangeB clauses && C01_stmtRangeB next
    | .invoke _ _ _ _ => true
    | .lit _ n next _ => X86.fitsI64 n && C01_stmtRangeB next
    | .op _ _ _ _ next _ => C01_stmtRangeB next
    | .print _ _ next _ => C01_stmtRangeB next
    | .ifc _ _ _ t e => C01_stmtRangeB t && C01_stmtRangeB e
    | .exit _ => true
  def C01_clausesRangeB : AxCut.Clauses → Bool
    | .nil => true
    | .cons _ _ body rest => C01_stmtRangeB body && C01_clausesRangeB rest
end

/-- executable form of `X86.ProgInRange` (Scc/X86/ProofsWfProg.lean) -/
def C01_progInRangeB (q : AxCut.Prog) : Bool :=
  q.types.all (fun d => decide (d.xtors.length ≤ 400000000)) &&
  q.defs.all (fun d => C01_stmtRangeB d.body)

/-- comments carry no semantics (= `X86.Ref.stripC`) -/
def C01_stripC : X86.Code → X86.Code
  | .COMMENT _ => .COMMENT ""
  | c => c

/-- executable form of `X86.TextLoads routine`: the machine's parser reads the printed routine back,
    up to the text of comments -/
def C01_textLoadsB (routine : List X86.Code) : Bool :=
  match X86.parseText (X86.printProg routine) with
  | .ok items => decide ((items.map (·.1)).map C01_stripC = routine.map C01_stripC)
  | .error _ => false

/-- the routine that the x86-64 back end produces for `q5` loads, if there is one (capacity errors
    produce no routine) -/
def C01_routineLoadsB (hooks : Bool) (q5 : AxCut.Prog) : Bool :=
  match X86.compileX86 q5 hooks 0 with
  | .ok (body, nargs) =>
    match X86.intoRoutine body nargs with
    | .ok routine => C01_textLoadsB routine
    | .error _ => true
  | .error _ => true

/-- **the integer fragment of the back end**: the linearized program is an integer program
    (`IntProg`) with literals in range (`ProgInRange`), within the capacity of Theorem A, and the text
    of its routine (with hooks and without) loads.  Decidable.  For such programs the x86-64 link is
    a THEOREM (`X86.C06_int_programs_text`): `C01_x86_int`. -/
def C01_intChecks (p' : Fun.CheckedProgram) : Bool :=
  C01_capacity p' &&
  match stages p' with
  | .ok st =>
    C01_intProgB st.s5 && C01_progInRangeB st.s5 &&
    C01_routineLoadsB true st.s5 && C01_routineLoadsB false st.s5
  | .error _ => false

end Scc.Props
