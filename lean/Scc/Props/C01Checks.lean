/-
  Scc.Props.C01Checks — the DECIDABLE per-program predicates that the composition theorems of C01
  (Scc/Props/C01.lean: `C01_composition`, `C01_middle`) take as hypotheses.  Executable; kept apart from
  Props/C01.lean so that the driver `Scc.Pipeline.Links.linksLine` (linked into `sccmodel`) can evaluate
  them on every program of every run without linking the proof files of C04/C06
  (`fragOk` / `coreClosed` live in the proof files Scc/Fun2Core/Sem*.lean of agent pf-c02sem; they are
  executable, core imports only).
-/
import Scc.Props.C12
import Scc.Props.C14Generic
import Scc.Fun2Core.SemFrag
import Scc.Fun2Core.SemProg
import Scc.AxCut.PosCapacity
import Scc.Backend.Mock

namespace Scc.Props

open Scc Scc.Pipeline
open Scc.Props.C14Generic (LabelSafe)

/-- **the decidable per-program predicate of the composition**: the middle end succeeds on `p'` and its
    stages pass the executable checks of the facts that are not theorems yet (`C12_stageChecks`: S2 is
    an `Input` of C03, S3 passes `wtFsScopedCheck`, S4 passes `wtAxCheck` and `wfNonLinearCheck`).
    Everything else the composition needs about the stages is DERIVED from it by theorems
    (`C12_facts_of_checks`). -/
def C01_linkChecks (p' : Fun.CheckedProgram) : Bool := C12_linkChecks p'

/-- the names of the linearized program are label-safe (C14): no two labels of the emitted text
    coincide (`C14Generic.labels_unique`).  Decidable.  Needed by the x86-64 link only. -/
def C01_labelSafe (p' : Fun.CheckedProgram) : Bool :=
  match stages p' with
  | .ok st => LabelSafe st.s5
  | .error _ => false

/-- the fragment in which the forward semantics of fun2core is a THEOREM (`C02_sem_forward_frag`,
    Props/C02Sem.lean): the program is in `Fun2Core.Sem.fragOk` (sequenced, `main` not called, no codata
    declarations / `new` / destructor calls, distinct names, closed bodies) and every definition of its
    translation mentions only its parameters (`coreClosed`).  Decidable.  For such programs
    `C01_composition_frag` needs no fun2core hypothesis. -/
def C01_fragChecks (p' : Fun.CheckedProgram) : Bool :=
  Fun2Core.Sem.fragOk p' &&
  match Fun2Core.compileProg p' with
  | .ok q2 => Fun2Core.Sem.coreClosed q2
  | .error _ => false

/-- every context that the positional machine can reach on the linearized program fits the numbering
    of temporaries of the mock backend (`2 * progCap S5 + 2 < T_TEMP = 1000001`; `progCap`:
    Scc/AxCut/PosCapacity.lean).  Decidable.  The capacity condition of Theorem A
    (`C06Generic.ProgWithinCapacity`, Props/C06Capacity.lean) on the stages of `p'`; needed only by the
    statements that go through the abstract backend machine. -/
def C01_capacity (p' : Fun.CheckedProgram) : Bool :=
  match stages p' with
  | .ok st => decide (2 * AxCut.Pos.progCap st.s5 + 2 < Backend.Mock.T_TEMP)
  | .error _ => false

end Scc.Props
