/-
  Scc.Props.C13X86Data — property C13 (calling convention), DYNAMIC part, extended from integer programs
  (Props/C13X86.lean: `C13_cc_never_fires_int`, `C13_int_terminating`) to PROGRAMS WITH DATA TYPES
  (`let` / `switch` on data types, no closures) on x86-64, through Theorem A∘B with the heap
  (`C06_data_programs`, Props/C06X86Heap.lean).

  Why the integer proof does not extend as it is: its invariant is purely about rsp, the save area and the
  return word; the code of `let` / `switch` / `subst` on objects stores through registers other than rsp
  (`mov [r + d], x` in `Memory::store`, `share`, `erase`) and jumps indirectly (`jmp TEMP` into the jump
  table).  Such a store cannot reach the callee-save area or the return word — and such a jump lands on an
  instruction — only if the base register holds a HEAP pointer resp. a table address; this is what the
  three-way relation `Rel3` provides at every statement boundary (`X3`: pointer temporaries hold `ι id`,
  heads of represented objects, inside `[heapBase, heapBase + heapBytes)`, disjoint from the stack by
  `CfgOK.heapBelow`; the frame clause `X3R.frame` keeps the save area and everything above it as the
  prologue left it), and what the memory contracts use statement by statement.

  PROVED (axioms propext, Classical.choice, Quot.sound):
  * `C13_data_terminating`      under the hypotheses of `C06_data_programs` (a terminating run of the AxCut
                                positional machine of a linearly typed program with data types), for EVERY
                                amount of machine fuel and EVERY heap-monitor setting the result of the SPEC
                                machine on the items of the routine is `outOfFuel`, `done v` or a report of
                                the HEAP monitor (`inv:`, only possible with `cfg.heap = true`) — never
                                `cc-violation`, `misaligned-call`, `ret-to-non-sentinel`, `read-undefined …`.
  * `C13_cc_never_fires_data`   hence `CCSafe`: THE CALLING-CONVENTION MONITOR NEVER FIRES on these runs;
                                with the heap monitor off the result satisfies the full `C13_allowed`.
  WHAT REMAINS of `C13_statement` for programs with heap statements: runs that do NOT terminate (the
  simulation is a terminating-run theorem; the integer theorem needs no termination because its invariant
  needs no typing), programs with closures (`create` / `invoke`), the side hypotheses of
  `C06_data_programs`, and the parser round trip (`TextLoads`).
-/
import Scc.Props.C13X86
import Scc.Props.C06X86Heap
import Scc.X86.ConcCC

namespace Scc.X86
open Scc.AxCut Scc.AxCut.Pos Scc.Backend Scc.Backend.Abs Scc.X86.Ref Scc.X86.Conc
open Scc.X86.CC (CCSafe)
open Scc.Props.C06Generic (Reachable CodeFits)
open Scc.Props.C14Generic (LabelSafe)

/-- the full statement for programs with data types: every run (terminating or not) of every compiled
program ends in an allowed outcome (kept as a `def : Prop`; `C13_statement` of Props/C13X86.lean
restricted to `DataProg`) -/
def C13_data_statement : Prop :=
  ∀ (p : AxCut.Prog) (args : List Word) (hooks : Bool) (body routine : List Code) (nargs : Nat),
    LinTypedProg p → DataProg p → compileX86 p hooks 0 = .ok (body, nargs) →
    intoRoutine body nargs = .ok routine → args.length = nargs →
    ∀ (fuel : Nat) (cfg : MonCfg), cfg.heap = false → MachOK cfg.mach →
      ∀ (items : List (Code × Nat)), (items.map (·.1)).map stripC = routine.map stripC →
      C13_allowed (runItems items args fuel cfg).res

/-- C13 for TERMINATING RUNS OF PROGRAMS WITH DATA TYPES: if the AxCut positional machine finishes with
`done v`, then for EVERY amount of fuel and every setting of the heap monitor the machine on the items of
the routine ends in `outOfFuel`, in `done v`, or (heap monitor on) in a report of the heap monitor. -/
theorem C13_data_terminating (p : AxCut.Prog) (args : List Word) (hooks : Bool) (body routine : List Code)
    (nargs : Nat) (d0 : Def) (ops : List MockOp) (c' : Nat)
    (hsafe : LabelSafe p = true) (htp : LinTypedProg p) (hdata : DataProg p) (hrange : ProgInRange p)
    (hcompM : (compile mockSym hooks p).run 0 = .ok ((ops, nargs), c')) (hfit : CodeFits ops)
    (hcompX : compileX86 p hooks 0 = .ok (body, nargs)) (hrout : intoRoutine body nargs = .ok routine)
    (hnd : (labs routine).Nodup)
    (hd : p.defs.head? = some d0) (hentry : ∀ b ∈ d0.ctx, b.chi = .ext ∧ b.ty = .i64)
    (hcap : ∀ st, Reachable p ⟨d0.ctx, args.map .int, d0.body⟩ st → 2 * st.ctx.length ≤ 266)
    (fuel : Nat) (out : List (Bool × Word)) (v : Word) (hfuel : fuel + 1 < 2 ^ 64)
    (hrun : Pos.run p args fuel = ⟨out, .done v⟩)
    (cfg : MonCfg) (MO : MachOK cfg.mach)
    (hb8 : cfg.mach.heapBase % 8 = 0) (hb0 : 0 < cfg.mach.heapBase)
    (hbytes : 128 + 64 * 134 * fuel ≤ cfg.mach.heapBytes)
    (items : List (Code × Nat)) (hitems : (items.map (·.1)).map stripC = routine.map stripC)
    (hfitX : addrAt cfg.mach.codeBase routine routine.length < 2 ^ 64) (fuel' : Nat) :
    (runItems items args fuel' cfg).res = .outOfFuel ∨ (runItems items args fuel' cfg).res = .done v ∨
      ∃ what ln, cfg.heap = true ∧ (runItems items args fuel' cfg).res = .invFail what ln := by
  obtain ⟨f0, _, h2⟩ := C06_data_programs p args hooks body routine nargs d0 ops c' hsafe htp hdata hrange
    hcompM hfit hcompX hrout hnd hd hentry hcap fuel out v hfuel hrun (monOff cfg) MO rfl hb8 hb0 hbytes items
    hitems hfitX
  have hoff := CC.runItems_res_of_done (items := items) (args := args) (cfg := monOff cfg) (f0 := f0) (v := v)
    h2 fuel'
  cases hh : cfg.heap with
  | false =>
    have e : monOff cfg = cfg := by
      cases cfg; simp only [monOff] at *; rw [hh]
    rw [e] at hoff
    rcases hoff with h | h
    · exact Or.inl h
    · exact Or.inr (Or.inl h)
  | true =>
    rcases runItems_monitor_indep items args fuel' cfg with h | ⟨e, ln, h⟩
    · rw [h]
      rcases hoff with h' | h'
      · exact Or.inl h'
      · exact Or.inr (Or.inl h')
    · exact Or.inr (Or.inr ⟨e, ln, rfl, h⟩)

/-- C13 (b) FOR PROGRAMS WITH DATA TYPES, terminating runs: the result is never a report of the
calling-convention monitor — all machine fuel, every monitor configuration; with the heap monitor off it is
an outcome `C13_allowed` permits -/
theorem C13_cc_never_fires_data (p : AxCut.Prog) (args : List Word) (hooks : Bool) (body routine : List Code)
    (nargs : Nat) (d0 : Def) (ops : List MockOp) (c' : Nat)
    (hsafe : LabelSafe p = true) (htp : LinTypedProg p) (hdata : DataProg p) (hrange : ProgInRange p)
    (hcompM : (compile mockSym hooks p).run 0 = .ok ((ops, nargs), c')) (hfit : CodeFits ops)
    (hcompX : compileX86 p hooks 0 = .ok (body, nargs)) (hrout : intoRoutine body nargs = .ok routine)
    (hnd : (labs routine).Nodup)
    (hd : p.defs.head? = some d0) (hentry : ∀ b ∈ d0.ctx, b.chi = .ext ∧ b.ty = .i64)
    (hcap : ∀ st, Reachable p ⟨d0.ctx, args.map .int, d0.body⟩ st → 2 * st.ctx.length ≤ 266)
    (fuel : Nat) (out : List (Bool × Word)) (v : Word) (hfuel : fuel + 1 < 2 ^ 64)
    (hrun : Pos.run p args fuel = ⟨out, .done v⟩)
    (cfg : MonCfg) (MO : MachOK cfg.mach)
    (hb8 : cfg.mach.heapBase % 8 = 0) (hb0 : 0 < cfg.mach.heapBase)
    (hbytes : 128 + 64 * 134 * fuel ≤ cfg.mach.heapBytes)
    (items : List (Code × Nat)) (hitems : (items.map (·.1)).map stripC = routine.map stripC)
    (hfitX : addrAt cfg.mach.codeBase routine routine.length < 2 ^ 64) (fuel' : Nat) :
    CCSafe (runItems items args fuel' cfg).res ∧
      (cfg.heap = false → C13_allowed (runItems items args fuel' cfg).res) := by
  have h := C13_data_terminating p args hooks body routine nargs d0 ops c' hsafe htp hdata hrange hcompM hfit
    hcompX hrout hnd hd hentry hcap fuel out v hfuel hrun cfg MO hb8 hb0 hbytes items hitems hfitX fuel'
  rcases h with h | h | ⟨e, ln, hh, h⟩
  · rw [h]; exact ⟨trivial, fun _ => trivial⟩
  · rw [h]; exact ⟨trivial, fun _ => trivial⟩
  · rw [h]; exact ⟨trivial, fun h0 => by rw [hh] at h0; cases h0⟩

/-! ### non-vacuity: the box program of C06X86Heap (let, share, switch shared and unique, print) -/

example (fuel' : Nat) : CCSafe (runItems (C06_boxRoutine.map fun c => (c, 0)) [21] fuel' {}).res ∧
    (({} : MonCfg).heap = false → C13_allowed (runItems (C06_boxRoutine.map fun c => (c, 0)) [21] fuel' {}).res) := by
  have hcompM : ∃ k, (compile mockSym true C06_boxProg).run 0 = .ok ((C06_boxOps, 1), k) := ⟨_, rfl⟩
  obtain ⟨c', hcompM⟩ := hcompM
  have hcompX : compileX86 C06_boxProg true 0 = .ok (C06_boxBody, 1) := rfl
  have hrout : intoRoutine C06_boxBody 1 = .ok C06_boxRoutine := rfl
  have hrun : Pos.run C06_boxProg [21] 20 = ⟨[(true, 42)], .done 42⟩ := by decide
  exact C13_cc_never_fires_data C06_boxProg [21] true C06_boxBody C06_boxRoutine 1 C06_boxMain C06_boxOps c'
    (by decide) (linTypedCheck_sound C06_boxProg rfl) C06_boxProg_data C06_boxProg_inRange hcompM (by decide)
    hcompX hrout (by decide) rfl (by decide)
    (C06_capacity_of_run C06_boxProg 20 _ (by decide) (by decide)) 20 _ _ (by decide) hrun {}
    machOK_default (by decide) (by decide) (by decide)
    (C06_boxRoutine.map fun c => (c, 0)) (by simp [List.map_map, Function.comp]) C06_boxRoutine_fits fuel'

end Scc.X86

#print axioms Scc.X86.C13_data_terminating
#print axioms Scc.X86.C13_cc_never_fires_data
