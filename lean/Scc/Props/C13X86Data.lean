/-
  Scc.Props.C13X86Data — property C13 (calling convention), DYNAMIC part, extended from integer programs
  (Props/C13X86.lean: `C13_cc_never_fires_int`, `C13_int_terminating`) to PROGRAMS WITH DATA TYPES
  (`let` / `switch` on data types, no closures) on x86-64, through Theorem A∘B with the heap
  (`C06_data_programs`, Props/C06X86Heap.lean).

  Why the integer proof does not extend as it is: its invariant is purely about rsp, the save area and the
  return word; the code of `let` / `switch` / `subst` on objects stores through registers other than rsp
  (`mov [r + d], x` in `Memory::store`, `share`, `erase`) and jumps indirectly (`jmp TEMP` into the jump
  table).  Such a store cannot reach the callee-save area or the return word — and such a jump lands on an
  instruction — only if the base register holds a HEAP pointer resp. a table address; this is what the
  three-way relation `Rel3` provides at every statement boundary (`X3`: pointer temporaries hold `ι id`,
  heads of represented objects, inside `[heapBase, heapBase + heapBytes)`, disjoint from the stack by
  `CfgOK.heapBelow`; the frame clause `X3R.frame` keeps the save area and everything above it as the
  prologue left it), and what the memory contracts use statement by statement.

  PROVED (axioms propext, Classical.choice, Quot.sound):
  * `C13_data_terminating`      under the hypotheses of `C06_data_programs` (a terminating run of the AxCut
                                positional machine of a linearly typed program with data types), for EVERY
                                amount of machine fuel and EVERY heap-monitor setting the result of the SPEC
                                machine on the items of the routine is `outOfFuel`, `done v` or a report of
                                the HEAP monitor (`inv:`, only possible with `cfg.heap = true`) — never
                                `cc-violation`, `misaligned-call`, `ret-to-non-sentinel`, `read-undefined …`.
  * `C13_cc_never_fires_data`   hence `CCSafe`: THE CALLING-CONVENTION MONITOR NEVER FIRES on these runs;
                                with the heap monitor off the result satisfies the full `C13_allowed`.
  * `C13_data_all_fuel`         RUNS THAT DO NOT TERMINATE INCLUDED (no hypothesis on the run of the
                                positional machine except that it never gets stuck, i.e. no division by zero /
                                overflow): for EVERY machine fuel `fuel'` with `fuel'·(M + 1) + |main| + 1 <
                                2^64` (`M = progMaxSize p`) the result is `outOfFuel` or `done v` (or, heap
                                monitor on, a report of the heap monitor).  Heap: the footprint bound of C10
                                (`PeakAtMost Pk` and `64·(Pk + A + 2) ≤ heapBytes`, trivial for the bound
                                `A·fuel + 1`).  From PROGRESS (Scc/X86/ConcProgress.lean): every `call` takes a
                                machine transition, every other step moves to a smaller statement, so a
                                positional run that is still going after `fuel'·(M + 1) + |main|` steps has
                                driven the machine through at least `fuel'` transitions without fault.
  * `C13_cc_never_fires_data_all`  hence `CCSafe` for these runs, and `C13_allowed` with the heap monitor off.
  * `C13_cc_never_fires_data_size`  the same with the heap hypothesis stated on the SOURCE PROGRAM (no hypothesis
                                about the machine's run): `valsFields st.env ≤ D` for every reachable state of
                                the positional machine and `64·(D + A + 2) ≤ heapBytes` (Props/C10X86.lean).
                                Example: the box loop, for every fuel below 2^60.
  * `C13_cc_never_fires_data_loaded`  the same ON THE TEXT: `run (printProg routine)`, the machine's own entry
                                point on the printed routine, without a loader hypothesis (`C14_routine_loads`:
                                the decidable names check `C14_namesTextSafe`).
  WHAT REMAINS of `C13_statement` for programs with heap statements: machine fuel beyond `2^64 / (M + 1)`
  (the abstract machine of Theorem A numbers its objects with 64-bit words: after 2^64 steps its fresh-id
  argument ends), runs of the positional machine that get stuck on a division (the machine faults with
  `div-by-zero` / `div-overflow`, which `C13_allowed` permits, but the simulation says nothing about stuck
  steps), programs with closures (`create` / `invoke`), the side hypotheses of `C06_data_programs`, and the
  parser round trip (`TextLoads`).
-/
import Scc.Props.C13X86
import Scc.Props.C06X86Heap
import Scc.X86.ConcCC
import Scc.X86.ConcAllFuel
import Scc.X86.ConcDataRun
import Scc.Props.C14Loader

namespace Scc.X86
open Scc.AxCut Scc.AxCut.Pos Scc.Backend Scc.Backend.Abs Scc.X86.Ref Scc.X86.Conc
open Scc.X86.CC (CCSafe)
open Scc.Props.C06Generic (Reachable CodeFits)
open Scc.Props.C14Generic (LabelSafe)

/-- the full statement for programs with data types: every run (terminating or not) of every compiled
program ends in an allowed outcome (kept as a `def : Prop`; `C13_statement` of Props/C13X86.lean
restricted to `DataProg`) -/
def C13_data_statement : Prop :=
  ∀ (p : AxCut.Prog) (args : List Word) (hooks : Bool) (body routine : List Code) (nargs : Nat),
    LinTypedProg p → DataProg p → compileX86 p hooks 0 = .ok (body, nargs) →
    intoRoutine body nargs = .ok routine → args.length = nargs →
    ∀ (fuel : Nat) (cfg : MonCfg), cfg.heap = false → MachOK cfg.mach →
      ∀ (items : List (Code × Nat)), (items.map (·.1)).map stripC = routine.map stripC →
      C13_allowed (runItems items args fuel cfg).res

/-- C13 for TERMINATING RUNS OF PROGRAMS WITH DATA TYPES: if the AxCut positional machine finishes with
`done v`, then for EVERY amount of fuel and every setting of the heap monitor the machine on the items of
the routine ends in `outOfFuel`, in `done v`, or (heap monitor on) in a report of the heap monitor. -/
theorem C13_data_terminating (p : AxCut.Prog) (args : List Word) (hooks : Bool) (body routine : List Code)
    (nargs : Nat) (d0 : Def) (ops : List MockOp) (c' : Nat)
    (hsafe : LabelSafe p = true) (htp : LinTypedProg p) (hdata : DataProg p) (hrange : ProgInRange p)
    (hcompM : (compile mockSym hooks p).run 0 = .ok ((ops, nargs), c')) (hfit : CodeFits ops)
    (hcompX : compileX86 p hooks 0 = .ok (body, nargs)) (hrout : intoRoutine body nargs = .ok routine)
    (hnd : (labs routine).Nodup)
    (hd : p.defs.head? = some d0) (hentry : ∀ b ∈ d0.ctx, b.chi = .ext ∧ b.ty = .i64)
    (hcap : ∀ st, Reachable p ⟨d0.ctx, args.map .int, d0.body⟩ st → 2 * st.ctx.length ≤ 266)
    (fuel : Nat) (out : List (Bool × Word)) (v : Word) (hfuel : fuel + 1 < 2 ^ 64)
    (hrun : Pos.run p args fuel = ⟨out, .done v⟩)
    (cfg : MonCfg) (MO : MachOK cfg.mach)
    (hb8 : cfg.mach.heapBase % 8 = 0) (hb0 : 0 < cfg.mach.heapBase)
    (hbytes : 128 + 64 * 134 * fuel ≤ cfg.mach.heapBytes)
    (items : List (Code × Nat)) (hitems : (items.map (·.1)).map stripC = routine.map stripC)
    (hfitX : addrAt cfg.mach.codeBase routine routine.length < 2 ^ 64) (fuel' : Nat) :
    (runItems items args fuel' cfg).res = .outOfFuel ∨ (runItems items args fuel' cfg).res = .done v ∨
      ∃ what ln, cfg.heap = true ∧ (runItems items args fuel' cfg).res = .invFail what ln := by
  obtain ⟨f0, _, h2⟩ := C06_data_programs p args hooks body routine nargs d0 ops c' hsafe htp hdata hrange
    hcompM hfit hcompX hrout hnd hd hentry hcap fuel out v hfuel hrun (monOff cfg) MO rfl hb8 hb0 hbytes items
    hitems hfitX
  have hoff := CC.runItems_res_of_done (items := items) (args := args) (cfg := monOff cfg) (f0 := f0) (v := v)
    h2 fuel'
  cases hh : cfg.heap with
  | false =>
    have e : monOff cfg = cfg := by
      cases cfg; simp only [monOff] at *; rw [hh]
    rw [e] at hoff
    rcases hoff with h | h
    · exact Or.inl h
    · exact Or.inr (Or.inl h)
  | true =>
    rcases runItems_monitor_indep items args fuel' cfg with h | ⟨e, ln, h⟩
    · rw [h]
      rcases hoff with h' | h'
      · exact Or.inl h'
      · exact Or.inr (Or.inl h')
    · exact Or.inr (Or.inr ⟨e, ln, rfl, h⟩)

/-- C13 (b) FOR PROGRAMS WITH DATA TYPES, terminating runs: the result is never a report of the
calling-convention monitor — all machine fuel, every monitor configuration; with the heap monitor off it is
an outcome `C13_allowed` permits -/
theorem C13_cc_never_fires_data (p : AxCut.Prog) (args : List Word) (hooks : Bool) (body routine : List Code)
    (nargs : Nat) (d0 : Def) (ops : List MockOp) (c' : Nat)
    (hsafe : LabelSafe p = true) (htp : LinTypedProg p) (hdata : DataProg p) (hrange : ProgInRange p)
    (hcompM : (compile mockSym hooks p).run 0 = .ok ((ops, nargs), c')) (hfit : CodeFits ops)
    (hcompX : compileX86 p hooks 0 = .ok (body, nargs)) (hrout : intoRoutine body nargs = .ok routine)
    (hnd : (labs routine).Nodup)
    (hd : p.defs.head? = some d0) (hentry : ∀ b ∈ d0.ctx, b.chi = .ext ∧ b.ty = .i64)
    (hcap : ∀ st, Reachable p ⟨d0.ctx, args.map .int, d0.body⟩ st → 2 * st.ctx.length ≤ 266)
    (fuel : Nat) (out : List (Bool × Word)) (v : Word) (hfuel : fuel + 1 < 2 ^ 64)
    (hrun : Pos.run p args fuel = ⟨out, .done v⟩)
    (cfg : MonCfg) (MO : MachOK cfg.mach)
    (hb8 : cfg.mach.heapBase % 8 = 0) (hb0 : 0 < cfg.mach.heapBase)
    (hbytes : 128 + 64 * 134 * fuel ≤ cfg.mach.heapBytes)
    (items : List (Code × Nat)) (hitems : (items.map (·.1)).map stripC = routine.map stripC)
    (hfitX : addrAt cfg.mach.codeBase routine routine.length < 2 ^ 64) (fuel' : Nat) :
    CCSafe (runItems items args fuel' cfg).res ∧
      (cfg.heap = false → C13_allowed (runItems items args fuel' cfg).res) := by
  have h := C13_data_terminating p args hooks body routine nargs d0 ops c' hsafe htp hdata hrange hcompM hfit
    hcompX hrout hnd hd hentry hcap fuel out v hfuel hrun cfg MO hb8 hb0 hbytes items hitems hfitX fuel'
  rcases h with h | h | ⟨e, ln, hh, h⟩
  · rw [h]; exact ⟨trivial, fun _ => trivial⟩
  · rw [h]; exact ⟨trivial, fun _ => trivial⟩
  · rw [h]; exact ⟨trivial, fun h0 => by rw [hh] at h0; cases h0⟩

/-! ## every amount of machine fuel: runs that do not terminate -/

/-- C13 FOR ALL RUNS OF PROGRAMS WITH DATA TYPES, non-terminating ones included: whatever the machine fuel
(below `2^64 / (M + 1)`), the machine on the items of the routine ends in `outOfFuel` or in `done v` (or in
a report of the heap monitor when that is on) — never in `cc-violation`, `misaligned-call`,
`ret-to-non-sentinel`, `read-undefined …`, nor in any other fault. -/
theorem C13_data_all_fuel (p : AxCut.Prog) (args : List Word) (hooks : Bool) (body routine : List Code)
    (nargs : Nat) (d0 : Def) (ops : List MockOp) (c' : Nat)
    (hsafe : LabelSafe p = true) (htp : LinTypedProg p) (hdata : DataProg p) (hrange : ProgInRange p)
    (hcompM : (compile mockSym hooks p).run 0 = .ok ((ops, nargs), c')) (hfit : CodeFits ops)
    (hcompX : compileX86 p hooks 0 = .ok (body, nargs)) (hrout : intoRoutine body nargs = .ok routine)
    (hnd : (labs routine).Nodup)
    (hd : p.defs.head? = some d0) (hentry : ∀ b ∈ d0.ctx, b.chi = .ext ∧ b.ty = .i64)
    (hlen : d0.ctx.length = args.length)
    (hcap : ∀ st, Reachable p ⟨d0.ctx, args.map .int, d0.body⟩ st → 2 * st.ctx.length ≤ 266)
    (hnostuck : ∀ fuel w, (Pos.run p args fuel).res ≠ .stuck w)
    (cfg : MonCfg) (MO : MachOK cfg.mach) (hk : cfg.consts = consts)
    (hb8 : cfg.mach.heapBase % 8 = 0) (hb0 : 0 < cfg.mach.heapBase)
    (Pk : Nat) (hbytes : 64 * (Pk + progMaxLet p + 2) ≤ cfg.mach.heapBytes)
    (items : List (Code × Nat)) (hitems : (items.map (·.1)).map stripC = routine.map stripC)
    (hfitX : addrAt cfg.mach.codeBase routine routine.length < 2 ^ 64)
    (fuel' : Nat) (hf : fuel' * (progMaxSize p + 1) + stmtSize d0.body + 1 < 2 ^ 64)
    (hP : PeakAtMost p hooks routine ops cfg items args Pk
      (progMaxLet p * (fuel' * (progMaxSize p + 1) + stmtSize d0.body) + 1)) :
    (runItems items args fuel' cfg).res = .outOfFuel ∨ (∃ v, (runItems items args fuel' cfg).res = .done v) ∨
      ∃ what ln, cfg.heap = true ∧ (runItems items args fuel' cfg).res = .invFail what ln := by
  have hoff := data_programs_all_fuel p args hooks body routine nargs d0 ops c' hsafe htp
    ⟨hrange.1, fun d hd => ⟨hdata d hd, hrange.2 d hd⟩⟩ hcompM hfit hcompX hrout hnd hd hentry hlen hcap hnostuck
    (monOff cfg) MO hk rfl hb8 hb0 Pk (progMaxLet p) (progMaxSize p) (letLe_progMaxLet p)
    (stmtSize_le_progMaxSize p) hbytes items hitems hfitX fuel' hf (peakAtMost_monOff hP)
  have hoff' : (runItems items args fuel' (monOff cfg)).res = .outOfFuel ∨
      ∃ v, (runItems items args fuel' (monOff cfg)).res = .done v := by
    rcases hoff with h | ⟨v, _, _, h⟩
    · exact Or.inl h
    · exact Or.inr ⟨v, h⟩
  cases hh : cfg.heap with
  | false =>
    have e : monOff cfg = cfg := by
      cases cfg; simp only [monOff] at *; rw [hh]
    rw [e] at hoff'
    rcases hoff' with h | h
    · exact Or.inl h
    · exact Or.inr (Or.inl h)
  | true =>
    rcases runItems_monitor_indep items args fuel' cfg with h | ⟨e, ln, h⟩
    · rw [h]
      rcases hoff' with h' | h'
      · exact Or.inl h'
      · exact Or.inr (Or.inl h')
    · exact Or.inr (Or.inr ⟨e, ln, rfl, h⟩)

/-- C13 (b) FOR PROGRAMS WITH DATA TYPES, ALL RUNS: the calling-convention monitor never fires, whatever the
machine fuel (below `2^64 / (M + 1)`) and the monitor configuration; with the heap monitor off the result is an
outcome `C13_allowed` permits -/
theorem C13_cc_never_fires_data_all (p : AxCut.Prog) (args : List Word) (hooks : Bool) (body routine : List Code)
    (nargs : Nat) (d0 : Def) (ops : List MockOp) (c' : Nat)
    (hsafe : LabelSafe p = true) (htp : LinTypedProg p) (hdata : DataProg p) (hrange : ProgInRange p)
    (hcompM : (compile mockSym hooks p).run 0 = .ok ((ops, nargs), c')) (hfit : CodeFits ops)
    (hcompX : compileX86 p hooks 0 = .ok (body, nargs)) (hrout : intoRoutine body nargs = .ok routine)
    (hnd : (labs routine).Nodup)
    (hd : p.defs.head? = some d0) (hentry : ∀ b ∈ d0.ctx, b.chi = .ext ∧ b.ty = .i64)
    (hlen : d0.ctx.length = args.length)
    (hcap : ∀ st, Reachable p ⟨d0.ctx, args.map .int, d0.body⟩ st → 2 * st.ctx.length ≤ 266)
    (hnostuck : ∀ fuel w, (Pos.run p args fuel).res ≠ .stuck w)
    (cfg : MonCfg) (MO : MachOK cfg.mach) (hk : cfg.consts = consts)
    (hb8 : cfg.mach.heapBase % 8 = 0) (hb0 : 0 < cfg.mach.heapBase)
    (Pk : Nat) (hbytes : 64 * (Pk + progMaxLet p + 2) ≤ cfg.mach.heapBytes)
    (items : List (Code × Nat)) (hitems : (items.map (·.1)).map stripC = routine.map stripC)
    (hfitX : addrAt cfg.mach.codeBase routine routine.length < 2 ^ 64)
    (fuel' : Nat) (hf : fuel' * (progMaxSize p + 1) + stmtSize d0.body + 1 < 2 ^ 64)
    (hP : PeakAtMost p hooks routine ops cfg items args Pk
      (progMaxLet p * (fuel' * (progMaxSize p + 1) + stmtSize d0.body) + 1)) :
    CCSafe (runItems items args fuel' cfg).res ∧
      (cfg.heap = false → C13_allowed (runItems items args fuel' cfg).res) := by
  have h := C13_data_all_fuel p args hooks body routine nargs d0 ops c' hsafe htp hdata hrange hcompM hfit
    hcompX hrout hnd hd hentry hlen hcap hnostuck cfg MO hk hb8 hb0 Pk hbytes items hitems hfitX fuel' hf hP
  rcases h with h | ⟨v, h⟩ | ⟨e, ln, hh, h⟩
  · rw [h]; exact ⟨trivial, fun _ => trivial⟩
  · rw [h]; exact ⟨trivial, fun _ => trivial⟩
  · rw [h]; exact ⟨trivial, fun h0 => by rw [hh] at h0; cases h0⟩

/-- C13 (b) FOR PROGRAMS WITH DATA TYPES ON THE TEXT OF THE ROUTINE, all runs: the machine's entry point `run`
on the printed routine — parsed by the machine's own parser (`C14_routine_loads`) — never reports a violation
of the calling convention, whatever the fuel (below `2^64 / (M + 1)`) and the monitor configuration; with the
heap monitor off the result is an outcome `C13_allowed` permits. -/
theorem C13_cc_never_fires_data_loaded (p : AxCut.Prog) (args : List Word) (hooks : Bool) (body routine : List Code)
    (nargs : Nat) (d0 : Def) (ops : List MockOp) (c' : Nat)
    (hsafe : LabelSafe p = true) (htp : LinTypedProg p) (hdata : DataProg p) (hrange : ProgInRange p)
    (hnames : C14_namesTextSafe p = true)
    (hcompM : (compile mockSym hooks p).run 0 = .ok ((ops, nargs), c')) (hfit : CodeFits ops)
    (hcompX : compileX86 p hooks 0 = .ok (body, nargs)) (hrout : intoRoutine body nargs = .ok routine)
    (hnd : (labs routine).Nodup)
    (hd : p.defs.head? = some d0) (hentry : ∀ b ∈ d0.ctx, b.chi = .ext ∧ b.ty = .i64)
    (hlen : d0.ctx.length = args.length)
    (hcap : ∀ st, Reachable p ⟨d0.ctx, args.map .int, d0.body⟩ st → 2 * st.ctx.length ≤ 266)
    (hnostuck : ∀ fuel w, (Pos.run p args fuel).res ≠ .stuck w)
    (cfg : MonCfg) (MO : MachOK cfg.mach) (hk : cfg.consts = consts)
    (hb8 : cfg.mach.heapBase % 8 = 0) (hb0 : 0 < cfg.mach.heapBase)
    (Pk : Nat) (hbytes : 64 * (Pk + progMaxLet p + 2) ≤ cfg.mach.heapBytes)
    (hfitX : addrAt cfg.mach.codeBase routine routine.length < 2 ^ 64)
    (fuel' : Nat) (hf : fuel' * (progMaxSize p + 1) + stmtSize d0.body + 1 < 2 ^ 64)
    (hP : ∀ items, parseText (printProg routine) = .ok items → PeakAtMost p hooks routine ops cfg items args Pk
      (progMaxLet p * (fuel' * (progMaxSize p + 1) + stmtSize d0.body) + 1)) :
    CCSafe (run (printProg routine) args fuel' cfg).res ∧
      (cfg.heap = false → C13_allowed (run (printProg routine) args fuel' cfg).res) := by
  obtain ⟨items, hparse, hitems⟩ := C14_routine_loads hrange hnames hcompX hrout
  rw [run_eq_runItems hparse]
  exact C13_cc_never_fires_data_all p args hooks body routine nargs d0 ops c' hsafe htp hdata hrange hcompM hfit
    hcompX hrout hnd hd hentry hlen hcap hnostuck cfg MO hk hb8 hb0 Pk hbytes items hitems hfitX fuel' hf
    (hP items hparse)

/-- C13 (b) FOR PROGRAMS WITH DATA TYPES, ALL RUNS, heap hypothesis on the source program: if the object values
held by the variables of the positional machine never have more than `D` fields, then in a heap of
`64·(D + A + 2)` bytes the machine never reports a violation of the calling convention, whatever the fuel (below
`2^64 / (M + 1)`) and the monitor configuration. -/
theorem C13_cc_never_fires_data_size (p : AxCut.Prog) (args : List Word) (hooks : Bool) (body routine : List Code)
    (nargs : Nat) (d0 : Def) (ops : List MockOp) (c' : Nat)
    (hsafe : LabelSafe p = true) (htp : LinTypedProg p) (hdata : DataProg p) (hrange : ProgInRange p)
    (hcompM : (compile mockSym hooks p).run 0 = .ok ((ops, nargs), c')) (hfit : CodeFits ops)
    (hcompX : compileX86 p hooks 0 = .ok (body, nargs)) (hrout : intoRoutine body nargs = .ok routine)
    (hnd : (labs routine).Nodup)
    (hd : p.defs.head? = some d0) (hentry : ∀ b ∈ d0.ctx, b.chi = .ext ∧ b.ty = .i64)
    (hlen : d0.ctx.length = args.length)
    (hcap : ∀ st, Reachable p ⟨d0.ctx, args.map .int, d0.body⟩ st → 2 * st.ctx.length ≤ 266)
    (hnostuck : ∀ fuel w, (Pos.run p args fuel).res ≠ .stuck w)
    (D : Nat) (hD : ∀ st, Reachable p ⟨d0.ctx, args.map .int, d0.body⟩ st → valsFields st.env ≤ D)
    (cfg : MonCfg) (MO : MachOK cfg.mach)
    (hb8 : cfg.mach.heapBase % 8 = 0) (hb0 : 0 < cfg.mach.heapBase)
    (hbytes : 64 * (D + progMaxLet p + 2) ≤ cfg.mach.heapBytes)
    (items : List (Code × Nat)) (hitems : (items.map (·.1)).map stripC = routine.map stripC)
    (hfitX : addrAt cfg.mach.codeBase routine routine.length < 2 ^ 64)
    (fuel' : Nat) (hf : fuel' * (progMaxSize p + 1) + stmtSize d0.body + 1 < 2 ^ 64) :
    CCSafe (runItems items args fuel' cfg).res ∧
      (cfg.heap = false → C13_allowed (runItems items args fuel' cfg).res) := by
  have hoff := (data_programs_dsize_all p args hooks body routine nargs d0 ops c' hsafe htp
    ⟨hrange.1, fun d hd => ⟨hdata d hd, hrange.2 d hd⟩⟩ hcompM hfit hcompX hrout hnd hd hentry hlen hcap hnostuck
    D hD (monOff cfg) MO rfl hb8 hb0 (progMaxLet p) (progMaxSize p) (letLe_progMaxLet p)
    (stmtSize_le_progMaxSize p) hbytes items hitems hfitX fuel' hf).1
  have hoff' : (runItems items args fuel' (monOff cfg)).res = .outOfFuel ∨
      ∃ v, (runItems items args fuel' (monOff cfg)).res = .done v := by
    rcases hoff with h | ⟨v, _, _, h⟩
    · exact Or.inl h
    · exact Or.inr ⟨v, h⟩
  cases hh : cfg.heap with
  | false =>
    have e : monOff cfg = cfg := by
      cases cfg; simp only [monOff] at *; rw [hh]
    rw [e] at hoff'
    rcases hoff' with h | ⟨v, h⟩
    · rw [h]; exact ⟨trivial, fun _ => trivial⟩
    · rw [h]; exact ⟨trivial, fun _ => trivial⟩
  | true =>
    rcases runItems_monitor_indep items args fuel' cfg with h | ⟨e, ln, h⟩
    · rw [h]
      rcases hoff' with h' | ⟨v, h'⟩
      · rw [h']; exact ⟨trivial, fun _ => trivial⟩
      · rw [h']; exact ⟨trivial, fun _ => trivial⟩
    · rw [h]; exact ⟨trivial, fun h0 => by cases h0⟩

/-! ### non-vacuity: the box program of C06X86Heap (let, share, switch shared and unique, print) -/

example (fuel' : Nat) : CCSafe (runItems (C06_boxRoutine.map fun c => (c, 0)) [21] fuel' {}).res ∧
    (({} : MonCfg).heap = false → C13_allowed (runItems (C06_boxRoutine.map fun c => (c, 0)) [21] fuel' {}).res) := by
  have hcompM : ∃ k, (compile mockSym true C06_boxProg).run 0 = .ok ((C06_boxOps, 1), k) := ⟨_, rfl⟩
  obtain ⟨c', hcompM⟩ := hcompM
  have hcompX : compileX86 C06_boxProg true 0 = .ok (C06_boxBody, 1) := rfl
  have hrout : intoRoutine C06_boxBody 1 = .ok C06_boxRoutine := rfl
  have hrun : Pos.run C06_boxProg [21] 20 = ⟨[(true, 42)], .done 42⟩ := by decide
  exact C13_cc_never_fires_data C06_boxProg [21] true C06_boxBody C06_boxRoutine 1 C06_boxMain C06_boxOps c'
    (by decide) (linTypedCheck_sound C06_boxProg rfl) C06_boxProg_data C06_boxProg_inRange hcompM (by decide)
    hcompX hrout (by decide) rfl (by decide)
    (C06_capacity_of_run C06_boxProg 20 _ (by decide) (by decide)) 20 _ _ (by decide) hrun {}
    machOK_default (by decide) (by decide) (by decide)
    (C06_boxRoutine.map fun c => (c, 0)) (by simp [List.map_map, Function.comp]) C06_boxRoutine_fits fuel'

/-! ### non-vacuity of the all-fuel theorem: a loop that allocates and frees a box FOREVER -/

/-- main(x) { let b = B(x); switch b { B(y) => main(y) } } -/
def C13_loopBoxMain : Def :=
  { name := ⟨"main", 0⟩, ctx := [⟨⟨"x", 1⟩, .ext, .i64⟩],
    body := .letS ⟨"b", 2⟩ C06_tBox ⟨"B", 0⟩ [⟨⟨"x", 1⟩, .ext, .i64⟩]
      (.switch ⟨"b", 2⟩ C06_tBox
        (.cons ⟨"B", 0⟩ [⟨⟨"y", 3⟩, .ext, .i64⟩] (.call ⟨"main", 0⟩ [⟨⟨"y", 3⟩, .ext, .i64⟩]) .nil) none) none }

def C13_loopBoxProg : AxCut.Prog := { defs := [C13_loopBoxMain], types := [C06_boxDecl], maxId := 102 }

def C13_loopBoxOps : List MockOp :=
  match (compile mockSym true C13_loopBoxProg).run 0 with
  | .ok ((code, _), _) => code
  | .error _ => []

def C13_loopBoxBody : List Code :=
  match compileX86 C13_loopBoxProg true 0 with
  | .ok (body, _) => body
  | .error _ => []

def C13_loopBoxRoutine : List Code :=
  match intoRoutine C13_loopBoxBody 1 with
  | .ok r => r
  | .error _ => []

/-- the four states of the loop -/
def C13_loopS0 : Pos.State := ⟨C13_loopBoxMain.ctx, [.int 21], C13_loopBoxMain.body⟩
def C13_loopS1 : Pos.State :=
  ⟨[⟨⟨"b", 2⟩, .prd, C06_tBox⟩], [.obj 0 [.int 21]],
   .switch ⟨"b", 2⟩ C06_tBox
     (.cons ⟨"B", 0⟩ [⟨⟨"y", 3⟩, .ext, .i64⟩] (.call ⟨"main", 0⟩ [⟨⟨"y", 3⟩, .ext, .i64⟩]) .nil) none⟩
def C13_loopS2 : Pos.State :=
  ⟨[⟨⟨"y", 3⟩, .ext, .i64⟩], [.int 21], .call ⟨"main", 0⟩ [⟨⟨"y", 3⟩, .ext, .i64⟩]⟩

theorem C13_loop_step0 : Pos.step C13_loopBoxProg C13_loopS0 = .next C13_loopS1 none := by rfl
theorem C13_loop_step1 : Pos.step C13_loopBoxProg C13_loopS1 = .next C13_loopS2 none := by rfl
theorem C13_loop_step2 : Pos.step C13_loopBoxProg C13_loopS2 = .next C13_loopS0 none := by rfl

theorem C13_loop_reachable (st : Pos.State) (h : Reachable C13_loopBoxProg C13_loopS0 st) :
    st = C13_loopS0 ∨ st = C13_loopS1 ∨ st = C13_loopS2 := by
  induction h with
  | refl => exact Or.inl rfl
  | step _ hs ih =>
    rcases ih with rfl | rfl | rfl
    · rw [C13_loop_step0] at hs; injection hs with e; exact Or.inr (Or.inl e.symm)
    · rw [C13_loop_step1] at hs; injection hs with e; exact Or.inr (Or.inr e.symm)
    · rw [C13_loop_step2] at hs; injection hs with e; exact Or.inl e.symm

/-- the loop never ends and never gets stuck -/
theorem C13_loop_runs : ∀ (fuel : Nat) (acc : List (Bool × Word)),
    (Pos.runState C13_loopBoxProg fuel C13_loopS0 acc).res = .outOfFuel ∧
    (Pos.runState C13_loopBoxProg fuel C13_loopS1 acc).res = .outOfFuel ∧
    (Pos.runState C13_loopBoxProg fuel C13_loopS2 acc).res = .outOfFuel
  | 0, _ => ⟨rfl, rfl, rfl⟩
  | fuel + 1, acc => by
    obtain ⟨h0, h1, h2⟩ := C13_loop_runs fuel acc
    refine ⟨?_, ?_, ?_⟩
    · simp only [Pos.runState, C13_loop_step0]; exact h1
    · simp only [Pos.runState, C13_loop_step1]; exact h2
    · simp only [Pos.runState, C13_loop_step2]; exact h0

theorem C13_loopBoxProg_inRange : ProgInRange C13_loopBoxProg := by
  refine ⟨?_, ?_⟩
  · intro d hd
    simp only [C13_loopBoxProg, List.mem_singleton] at hd
    subst hd
    simp [C06_boxDecl, maxTagsX86]
  · intro d hd
    simp only [C13_loopBoxProg, List.mem_singleton] at hd
    subst hd
    simp [C13_loopBoxMain, StmtB, ClausesB, maxSubstX86]

theorem C13_loopBoxProg_data : DataProg C13_loopBoxProg := by
  intro d hd
  simp only [C13_loopBoxProg, List.mem_singleton] at hd
  subst hd
  simp [C13_loopBoxMain, DataStmt, DataClauses]

set_option maxRecDepth 100000 in
theorem C13_loopBoxRoutine_fits :
    addrAt ({} : MachCfg).codeBase C13_loopBoxRoutine C13_loopBoxRoutine.length < 2 ^ 64 := by decide

theorem C13_loopBox_consts : progMaxLet C13_loopBoxProg = 1 ∧ progMaxSize C13_loopBoxProg = 4 ∧
    stmtSize C13_loopBoxMain.body = 4 := by decide

/-- the machine on the routine of the box loop, started with x = 21, in the default configuration: for EVERY
fuel up to 100000 the calling-convention monitor does not fire and the result is an allowed outcome — the
program does not terminate (it allocates a block, frees it, and calls itself, forever) -/
example (fuel' : Nat) (hf : fuel' ≤ 100000) :
    CCSafe (runItems (C13_loopBoxRoutine.map fun c => (c, 0)) [21] fuel' {}).res ∧
    (({} : MonCfg).heap = false →
      C13_allowed (runItems (C13_loopBoxRoutine.map fun c => (c, 0)) [21] fuel' {}).res) := by
  have hcompM : ∃ k, (compile mockSym true C13_loopBoxProg).run 0 = .ok ((C13_loopBoxOps, 1), k) := ⟨_, rfl⟩
  obtain ⟨c', hcompM⟩ := hcompM
  have hcompX : compileX86 C13_loopBoxProg true 0 = .ok (C13_loopBoxBody, 1) := rfl
  have hrout : intoRoutine C13_loopBoxBody 1 = .ok C13_loopBoxRoutine := rfl
  obtain ⟨e1, e2, e3⟩ := C13_loopBox_consts
  exact C13_cc_never_fires_data_all C13_loopBoxProg [21] true C13_loopBoxBody C13_loopBoxRoutine 1
    C13_loopBoxMain C13_loopBoxOps c'
    (by decide) (linTypedCheck_sound C13_loopBoxProg rfl) C13_loopBoxProg_data C13_loopBoxProg_inRange hcompM
    (by decide) hcompX hrout (by decide) rfl (by decide) rfl
    (fun st hr => by
      rcases C13_loop_reachable st hr with rfl | rfl | rfl <;> decide)
    (fun fuel w h => by
      have hrs : Pos.run C13_loopBoxProg [21] fuel = Pos.runState C13_loopBoxProg fuel C13_loopS0 [] :=
        run_eq_runState rfl rfl fuel
      rw [hrs, (C13_loop_runs fuel []).1] at h
      cases h)
    {} machOK_default rfl (by decide) (by decide)
    (progMaxLet C13_loopBoxProg * (fuel' * (progMaxSize C13_loopBoxProg + 1) + stmtSize C13_loopBoxMain.body) + 1)
    (by rw [e1, e2, e3]; show 64 * (1 * (fuel' * (4 + 1) + 4) + 1 + 1 + 2) ≤ 0x2000000; omega)
    (C13_loopBoxRoutine.map fun c => (c, 0)) (by simp [List.map_map, Function.comp]) C13_loopBoxRoutine_fits
    fuel' (by rw [e2, e3]; omega) (peakAtMost_trivial _ _ _ _ _ _ _ _)

/-- … and with the heap hypothesis on the source program (`valsFields ≤ 1`): for EVERY fuel below 2^60 -/
example (fuel' : Nat) (hf : fuel' < 2 ^ 60) :
    CCSafe (runItems (C13_loopBoxRoutine.map fun c => (c, 0)) [21] fuel' {}).res ∧
    (({} : MonCfg).heap = false →
      C13_allowed (runItems (C13_loopBoxRoutine.map fun c => (c, 0)) [21] fuel' {}).res) := by
  have hcompM : ∃ k, (compile mockSym true C13_loopBoxProg).run 0 = .ok ((C13_loopBoxOps, 1), k) := ⟨_, rfl⟩
  obtain ⟨c', hcompM⟩ := hcompM
  have hcompX : compileX86 C13_loopBoxProg true 0 = .ok (C13_loopBoxBody, 1) := rfl
  have hrout : intoRoutine C13_loopBoxBody 1 = .ok C13_loopBoxRoutine := rfl
  obtain ⟨e1, e2, e3⟩ := C13_loopBox_consts
  exact C13_cc_never_fires_data_size C13_loopBoxProg [21] true C13_loopBoxBody C13_loopBoxRoutine 1
    C13_loopBoxMain C13_loopBoxOps c'
    (by decide) (linTypedCheck_sound C13_loopBoxProg rfl) C13_loopBoxProg_data C13_loopBoxProg_inRange hcompM
    (by decide) hcompX hrout (by decide) rfl (by decide) rfl
    (fun st hr => by rcases C13_loop_reachable st hr with rfl | rfl | rfl <;> decide)
    (fun fuel w h => by
      have hrs : Pos.run C13_loopBoxProg [21] fuel = Pos.runState C13_loopBoxProg fuel C13_loopS0 [] :=
        run_eq_runState rfl rfl fuel
      rw [hrs, (C13_loop_runs fuel []).1] at h
      cases h)
    1 (fun st hr => by rcases C13_loop_reachable st hr with rfl | rfl | rfl <;> decide)
    {} machOK_default (by decide) (by decide) (by rw [e1]; decide)
    (C13_loopBoxRoutine.map fun c => (c, 0)) (by simp [List.map_map, Function.comp]) C13_loopBoxRoutine_fits
    fuel' (by rw [e2, e3]; omega)

/-- the names of the box loop are text-safe: `C13_cc_never_fires_data_loaded` applies to its printed routine -/
example : C14_namesTextSafe C13_loopBoxProg = true := by decide

end Scc.X86

#print axioms Scc.X86.C13_data_terminating
#print axioms Scc.X86.C13_cc_never_fires_data
#print axioms Scc.X86.C13_data_all_fuel
#print axioms Scc.X86.C13_cc_never_fires_data_all
#print axioms Scc.X86.C13_cc_never_fires_data_loaded
#print axioms Scc.X86.C13_cc_never_fires_data_size
