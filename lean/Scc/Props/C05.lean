/-
  Scc.Props.C05 — property C05 (linearization: exact environments, same behaviour).

  Property text: "For every well-typed AxCut program the linearized program behaves identically,
  and it is well-typed under the ordered, linear discipline the backends assume: at each statement
  the environment is exactly the list that statement expects (call: the callee's parameters;
  invoke: arguments then closure; let: rest then arguments; switch: rest then scrutinee; create:
  rest then captured environment), positions agree in kind and type, and values are duplicated,
  dropped or reordered only by explicit substitutions. Operands of arithmetic, comparison and
  print remain available afterwards."

  Model: Scc/AxCut/Linearize.lean (transcription of /repo/lang/axcut/src/traits + syntax, tied to
  the code by exact S5 dump equality).  Spec: Scc/AxCut/LinTyping.lean (`LinTyped`),
  Scc/AxCut/WfNonLinear.lean (`WfNonLinear`, the decidable precondition), Scc/AxCut/SemPos.lean
  and Scc/AxCut/SemNamed.lean (the two machines).  Proofs: Scc/AxCut/LinLemmas.lean (T1),
  LinProofs.lean (T2), LinMain.lean (T3).

  PROVED here, for ALL programs:  T1 (`filterBySet`, `freshen`), T2 (`freeVars` sound, in the
  form needed by T3), T3 = parts (a) and (b) of the property (`C05_linearize_LinTyped`),
  T4 = part (c): the named machine on `p` and the positional machine on `linearize p` have the same
  behaviour (`C05_T4`; via the declarative relation `LinRel`, Scc/AxCut/LinRel*.lean),
  T5 (type safety of the positional machine on `LinTyped` programs, `C05_T5`).
-/
import Scc.AxCut.LinMain
import Scc.AxCut.PosSafe
import Scc.AxCut.LinRelSim
import Scc.AxCut.LinRelLin
import Scc.AxCut.SemPos
import Scc.AxCut.SemNamed

namespace Scc.Props.C05

open Scc.AxCut

/-! ## T1: `filter_by_set` and `freshen` -/

/-- the result of `filter_by_set` is a permutation of the order-preserving filter -/
theorem C05_T1_filterBySet_perm (Γ : Ctx) (S : List Nat) :
    (filterBySet Γ S).Perm (Γ.filter (fun b => S.contains b.var.id)) := filterBySet_perm Γ S

/-- duplicate-free if Γ is -/
theorem C05_T1_filterBySet_nodup (Γ : Ctx) (S : List Nat) (h : NodupIds Γ) :
    NodupIds (filterBySet Γ S) := filterBySet_nodup h

/-- its id set is `ids Γ ∩ S` -/
theorem C05_T1_filterBySet_ids (Γ : Ctx) (S : List Nat) (i : Nat) :
    i ∈ (filterBySet Γ S).ids ↔ i ∈ Γ.ids ∧ i ∈ S := mem_ids_filterBySet

/-- every kept binding is a binding of Γ: it keeps its name, kind and type -/
theorem C05_T1_filterBySet_keeps (Γ : Ctx) (S : List Nat) (b : Binding) :
    b ∈ filterBySet Γ S ↔ b ∈ Γ ∧ b.var.id ∈ S := mem_filterBySet

/-- "preserves positions": a kept binding whose position still exists in the result does not move -/
theorem C05_T1_filterBySet_positions (Γ : Ctx) (S : List Nat) (j : Nat) (b : Binding)
    (hj : Γ[j]? = some b) (hb : b.var.id ∈ S) (hlt : j < (filterBySet Γ S).length) :
    (filterBySet Γ S)[j]? = some b := filterBySet_positions Γ S j b hj hb hlt

/-- fuel sufficiency of the inner loop: `new.length` iterations are enough -/
theorem C05_T1_filterWhile_fuel (S : List Nat) (pos k : Nat) (new : List Binding) :
    filterWhile S pos (new.length + k) new = filterWhile S pos new.length new :=
  filterWhile_fuel S pos k new

/-- `freshen`: `max_id` only grows; length, kinds and types are preserved position by position;
every binding is either kept or gets an id in `(maxId, maxId']`; the new ids are pairwise distinct
and outside the clash set (all ids involved being `≤ maxId`). -/
theorem C05_T1_freshen (Γ : Ctx) (C : List Nat) (M : Nat)
    (hΓ : ∀ i ∈ Γ.ids, i ≤ M) (hC : ∀ i ∈ C, i ≤ M) :
    M ≤ (freshen Γ C M).2 ∧
    (freshen Γ C M).1.length = Γ.length ∧
    (∀ p ∈ Γ.zip (freshen Γ C M).1, p.2.chi = p.1.chi ∧ p.2.ty = p.1.ty ∧
        (p.2 = p.1 ∨ (M < p.2.var.id ∧ p.2.var.id ≤ (freshen Γ C M).2))) ∧
    NodupIds (freshen Γ C M).1 ∧
    (∀ i ∈ (freshen Γ C M).1.ids, i ∉ C) ∧
    (∀ i ∈ (freshen Γ C M).1.ids, i ∈ Γ.ids ∨ (M < i ∧ i ≤ (freshen Γ C M).2)) :=
  freshen_spec M Γ C M hΓ hC (Nat.le_refl _)

/-! ## T2: the free-variable annotation -/

/-- the sets computed by `freeVars` only contain variables in scope -/
theorem C05_T2_freeVars_in_scope (T : List TypeDecl) (S : Sigs) (M : Nat) (s : Stmt) (Γ : Ctx)
    (h : WT T S M s Γ) : ∀ y ∈ (freeVars s).2, y ∈ Γ.ids := fv_sub T S M s Γ h

/-- `freeVars_sound` in the form T3 uses: the annotated statement is typed (`WTA`) under every
sub-context containing the computed free variables, where `WTA` types the continuation of every
binding statement under the context RESTRICTED to the annotated set. -/
theorem C05_T2_freeVars_sound (T : List TypeDecl) (S : Sigs) (M : Nat) (s : Stmt) (Γ : Ctx)
    (h : WT T S M s Γ) (hn : NodupIds Γ) (hM : ∀ i ∈ Γ.ids, i ≤ M) (Γ' : Ctx)
    (hs : KeysSub Γ' Γ) (hfv : ∀ y ∈ (freeVars s).2, y ∈ Γ'.ids) :
    WTA T S M (freeVars s).1 Γ.ids Γ' := freeVars_WTA T S M s Γ h hn hM Γ' hs hfv

/-! ## T3: the linearized program is ordered-linearly typed (parts a, b of the property) -/

/-- C05 (a), (b) — statement -/
def C05_linearize_LinTyped_statement : Prop :=
  ∀ p : Prog, WfNonLinear p →
    ∃ p', linearizeProg p = .ok p' ∧ LinTypedProg p' ∧
      p'.types = p.types ∧ p'.sigs = p.sigs ∧ p.maxId ≤ p'.maxId

/-- C05 (a), (b): for every well-formed non-linear program the linearizer does not panic and
every definition of its output is `LinTyped` under the definition's parameter list. -/
theorem C05_linearize_LinTyped : C05_linearize_LinTyped_statement :=
  fun p h => linearizeProg_LinTyped p h

/-- the verified checker accepts ⇒ `LinTypedProg` (used on the IMPLEMENTATION's S5 output) -/
theorem C05_linTypedCheck_sound (p : Prog) (h : linTypedCheck p = .ok ()) : LinTypedProg p :=
  linTypedCheck_sound p h

/-! ## T4 / T5: semantics (stated) -/

/-- T4 (C05 c) — statement: the named machine on `p` and the positional machine on
`linearize p` have the same behaviour: every finished run of one (result `done v`, or stuck with
division by zero / overflow) is matched by a run of the other with the same trace and the same
outcome.  (`Sim.finishedNamed`, `Sim.finishedPos`, `Sim.sameOutcome` are defined in
Scc/AxCut/SemEq.lean.)  Side conditions: the input carries no closure-environment annotations
(`noEnvAnnProg`: they are written by the linearizer; true of every S4 dump) and the entry point
takes integers. -/
def C05_T4_linearize_sem : Prop :=
  ∀ (p p' : Prog) (args : List (BitVec 64)), WfNonLinear p → noEnvAnnProg p = true →
    (∀ d, p.defs.head? = some d → ∀ b ∈ d.ctx, b.chi = .ext ∧ b.ty = .i64) →
    linearizeProg p = .ok p' →
    (∀ n, Sim.finishedNamed (Named.run p args n).res →
      ∃ m, (Pos.run p' args m).out = (Named.run p args n).out ∧
        Sim.sameOutcome (Named.run p args n).res (Pos.run p' args m).res) ∧
    (∀ m, Sim.finishedPos (Pos.run p' args m).res →
      ∃ n, (Pos.run p' args m).out = (Named.run p args n).out ∧
        Sim.sameOutcome (Named.run p args n).res (Pos.run p' args m).res)

/-- T4 (proved): `linearize` output is a linearization of the input in the sense of the
declarative relation `LinRel` (Scc/AxCut/LinRel.lean, proved in LinRelLin.lean), and `LinRel`
implies a lockstep simulation between the two machines (LinRelSim.lean). -/
theorem C05_T4 : C05_T4_linearize_sem :=
  fun p p' args hwf hne hmain hlin =>
    Sim.linRelProg_sem p p' args (linearizeProg_linRel p p' hwf hne hlin) hmain

/-- T5 — statement: the positional machine never violates a shape on a `LinTyped` program whose
entry takes integers: the only ways to stop are `done`, division by zero, overflow (or running out
of fuel).  `Pos.ResSafe r` is: `r = done _ ∨ r = outOfFuel ∨ r = stuck divByZero ∨ r = stuck overflow`
(no `shape`, `unbound`, `sort`, `lookup`). -/
def C05_T5_LinTyped_safe : Prop :=
  ∀ (p : Prog) (args : List (BitVec 64)) (fuel : Nat), LinTypedProg p →
    (∀ d, p.defs.head? = some d →
      d.ctx.length = args.length ∧ ∀ b ∈ d.ctx, b.chi = .ext ∧ b.ty = .i64) →
    p.defs ≠ [] →
    Pos.ResSafe (Pos.run p args fuel).res

/-- T5 (proved): type safety of the positional machine w.r.t. `LinTyped` — what the backends
assume about their input. -/
theorem C05_T5 : C05_T5_LinTyped_safe :=
  fun _ args fuel hP hentry hne => Pos.run_safe hP args fuel hentry hne

/-- T3 + T5: the OUTPUT OF THE LINEARIZER runs on the positional machine without ever violating
a shape. -/
theorem C05_linearize_safe (p p' : Prog) (args : List (BitVec 64)) (fuel : Nat)
    (hwf : WfNonLinear p) (hlin : linearizeProg p = .ok p')
    (hentry : ∀ d, p'.defs.head? = some d →
      d.ctx.length = args.length ∧ ∀ b ∈ d.ctx, b.chi = .ext ∧ b.ty = .i64)
    (hne : p'.defs ≠ []) : Pos.ResSafe (Pos.run p' args fuel).res := by
  obtain ⟨p'', e, hty, _⟩ := C05_linearize_LinTyped p hwf
  rw [hlin] at e
  injection e with e
  subst e
  exact C05_T5 p' args fuel hty hentry hne

/-- the full property -/
def C05_statement : Prop :=
  C05_linearize_LinTyped_statement ∧ C05_T4_linearize_sem ∧ C05_T5_LinTyped_safe

/-- C05 in full: (a), (b) ordered-linear typing of the output, (c) same behaviour, and progress -/
theorem C05_full : C05_statement := ⟨C05_linearize_LinTyped, C05_T4, C05_T5⟩

/-! ## non-vacuity -/

def tyList : Ty := .decl ⟨"List", 0⟩
def tyCont : Ty := .decl ⟨"Cont", 0⟩
def v (n : String) (i : Nat) : Ident := ⟨n, i⟩
def bx (n : String) (i : Nat) : Binding := ⟨⟨n, i⟩, .ext, .i64⟩

/-- a non-linear program: `a` is used three times, `b` once in one branch only, the closure
captures `a`, the scrutinee `l` is dead after the switch, `f` ignores its second parameter. -/
def exProg : Prog where
  maxId := 12
  types := [
    ⟨⟨"List", 0⟩, [⟨⟨"Nil", 0⟩, []⟩, ⟨⟨"Cons", 0⟩, [bx "x" 0, ⟨⟨"xs", 0⟩, .prd, tyList⟩]⟩]⟩,
    ⟨⟨"Cont", 0⟩, [⟨⟨"Ret", 0⟩, [bx "r" 0]⟩]⟩]
  defs := [
    { name := ⟨"main", 0⟩, ctx := [bx "a" 1],
      body :=
        .lit (v "b" 2) 1
          (.letS (v "n" 3) tyList ⟨"Nil", 0⟩ []
            (.letS (v "l" 4) tyList ⟨"Cons", 0⟩ [bx "a" 1, ⟨v "n" 3, .prd, tyList⟩]
              (.create (v "k" 5) tyCont none
                (.cons ⟨"Ret", 0⟩ [bx "r" 6]
                  (.op (v "s" 7) (v "r" 6) .sum (v "a" 1) (.exit (v "s" 7)) none) .nil)
                (.switch (v "l" 4) tyList
                  (.cons ⟨"Nil", 0⟩ [] (.invoke (v "k" 5) ⟨"Ret", 0⟩ tyCont [bx "b" 2])
                    (.cons ⟨"Cons", 0⟩ [bx "h" 8, ⟨v "t" 9, .prd, tyList⟩]
                      (.call ⟨"f", 0⟩ [bx "h" 8, bx "a" 1, ⟨v "k" 5, .cns, tyCont⟩]) .nil))
                  none)
                none none)
              none)
            none)
          none },
    { name := ⟨"f", 0⟩, ctx := [bx "u" 10, bx "w" 11, ⟨v "k" 12, .cns, tyCont⟩],
      body := .print true (v "u" 10) (.invoke (v "k" 12) ⟨"Ret", 0⟩ tyCont [bx "u" 10]) none }]

/-- the precondition of T3 is satisfiable -/
example : WfNonLinear exProg := by decide

/-- … and on this program the linearizer really inserts explicit substitutions, and the verified
checker accepts the result -/
example : ∃ p', linearizeProg exProg = .ok p' ∧ (linTypedCheck p').toBool = true ∧
    p'.maxId = 14 := by
  refine ⟨_, rfl, ?_, ?_⟩ <;> decide

/-- the side conditions of T4 hold for the example -/
example : noEnvAnnProg exProg = true ∧
    (∀ d, exProg.defs.head? = some d → ∀ b ∈ d.ctx, b.chi = .ext ∧ b.ty = .i64) := by
  refine ⟨by decide, ?_⟩
  intro d hd
  simp only [exProg, List.head?_cons, Option.some.injEq] at hd
  subst hd
  decide

/-- … and the named machine on the example finishes (so T4 is not vacuous): `main(5)` prints 5
and returns 10, exactly as the positional machine on the linearized program (next example) -/
example : (Named.run exProg [5] 100).out = [(true, 5)] ∧
    Sim.finishedNamed (Named.run exProg [5] 100).res ∧
    Sim.sameOutcome (Named.run exProg [5] 100).res (.done 10) := by
  refine ⟨by decide, ?_, ?_⟩
  · have : (Named.run exProg [5] 100).res = .done 10 := by rfl
    rw [this]; trivial
  · have : (Named.run exProg [5] 100).res = .done 10 := by rfl
    rw [this]; rfl

/-- the hypotheses of T5 / `C05_linearize_safe` are satisfiable, and the run is not trivial:
`main(5)` builds a list, creates a closure capturing `a`, switches, calls `f`, which prints 5 and
invokes the closure: result 5 + 5 -/
example : ∃ p', linearizeProg exProg = .ok p' ∧
    (∀ d, p'.defs.head? = some d →
      d.ctx.length = [(5 : BitVec 64)].length ∧ ∀ b ∈ d.ctx, b.chi = .ext ∧ b.ty = .i64) ∧
    Pos.run p' [5] 100 = ⟨[(true, 5)], .done 10⟩ := by
  refine ⟨_, rfl, ?_, ?_⟩
  · intro d hd
    simp only [List.head?_cons, Option.some.injEq] at hd
    subst hd
    decide
  · decide

/-- T1 hypotheses are satisfiable; the example shows a reordering by `swap_remove` -/
example : filterBySet [bx "a" 1, bx "b" 2, bx "c" 3, bx "d" 4] [1, 4] = [bx "a" 1, bx "d" 4] := by
  decide

example : (freshen [bx "a" 1, bx "b" 2, bx "a" 1] [2] 7).1 = [bx "a" 1, bx "b" 8, bx "a" 9] := by
  decide

#print axioms C05_T1_filterBySet_perm
#print axioms C05_T1_filterBySet_nodup
#print axioms C05_T1_filterBySet_ids
#print axioms C05_T1_filterBySet_keeps
#print axioms C05_T1_filterBySet_positions
#print axioms C05_T1_filterWhile_fuel
#print axioms C05_T1_freshen
#print axioms C05_T2_freeVars_in_scope
#print axioms C05_T2_freeVars_sound
#print axioms C05_linearize_LinTyped
#print axioms C05_linTypedCheck_sound
#print axioms C05_T5
#print axioms C05_linearize_safe
#print axioms C05_T4
#print axioms C05_full

end Scc.Props.C05
