/-
  Scc.Props.C05 — property C05 (linearization: exact environments, same behaviour).

  Property text: "For every well-typed AxCut program the linearized program behaves identically,
  and it is well-typed under the ordered, linear discipline the backends assume: at each statement
  the environment is exactly the list that statement expects (call: the callee's parameters;
  invoke: arguments then closure; let: rest then arguments; switch: rest then scrutinee; create:
  rest then captured environment), positions agree in kind and type, and values are duplicated,
  dropped or reordered only by explicit substitutions. Operands of arithmetic, comparison and
  print remain available afterwards."

  Model: Scc/AxCut/Linearize.lean (transcription of /repo/lang/axcut/src/traits + syntax, tied to
  the code by exact S5 dump equality).  Spec: Scc/AxCut/LinTyping.lean (`LinTyped`),
  Scc/AxCut/WfNonLinear.lean (`WfNonLinear`, the decidable precondition), Scc/AxCut/SemPos.lean
  and Scc/AxCut/SemNamed.lean (the two machines).  Proofs: Scc/AxCut/LinLemmas.lean (T1),
  LinProofs.lean (T2), LinMain.lean (T3).

  PROVED here, for ALL programs:  T1 (`filterBySet`, `freshen`), T2 (`freeVars` sound, in the
  form needed by T3), T3 = parts (a) and (b) of the property (`C05_linearize_LinTyped`).
  STATED only (`def … : Prop`): T4 (named ≈ positional semantics through `linearize`) and
  T5 (progress of the positional machine on `LinTyped` programs); they are validated by the
  differential runs of the check (named machine on S4 vs positional machine on S5).
-/
import Scc.AxCut.LinMain
import Scc.AxCut.SemPos
import Scc.AxCut.SemNamed

namespace Scc.Props.C05

open Scc.AxCut

/-! ## T1: `filter_by_set` and `freshen` -/

/-- the result of `filter_by_set` is a permutation of the order-preserving filter -/
theorem C05_T1_filterBySet_perm (Γ : Ctx) (S : List Nat) :
    (filterBySet Γ S).Perm (Γ.filter (fun b => S.contains b.var.id)) := filterBySet_perm Γ S

/-- duplicate-free if Γ is -/
theorem C05_T1_filterBySet_nodup (Γ : Ctx) (S : List Nat) (h : NodupIds Γ) :
    NodupIds (filterBySet Γ S) := filterBySet_nodup h

/-- its id set is `ids Γ ∩ S` -/
theorem C05_T1_filterBySet_ids (Γ : Ctx) (S : List Nat) (i : Nat) :
    i ∈ (filterBySet Γ S).ids ↔ i ∈ Γ.ids ∧ i ∈ S := mem_ids_filterBySet

/-- every kept binding is a binding of Γ: it keeps its name, kind and type -/
theorem C05_T1_filterBySet_keeps (Γ : Ctx) (S : List Nat) (b : Binding) :
    b ∈ filterBySet Γ S ↔ b ∈ Γ ∧ b.var.id ∈ S := mem_filterBySet

/-- fuel sufficiency of the inner loop: `new.length` iterations are enough -/
theorem C05_T1_filterWhile_fuel (S : List Nat) (pos k : Nat) (new : List Binding) :
    filterWhile S pos (new.length + k) new = filterWhile S pos new.length new :=
  filterWhile_fuel S pos k new

/-- `freshen`: `max_id` only grows; length, kinds and types are preserved position by position;
every binding is either kept or gets an id in `(maxId, maxId']`; the new ids are pairwise distinct
and outside the clash set (all ids involved being `≤ maxId`). -/
theorem C05_T1_freshen (Γ : Ctx) (C : List Nat) (M : Nat)
    (hΓ : ∀ i ∈ Γ.ids, i ≤ M) (hC : ∀ i ∈ C, i ≤ M) :
    M ≤ (freshen Γ C M).2 ∧
    (freshen Γ C M).1.length = Γ.length ∧
    (∀ p ∈ Γ.zip (freshen Γ C M).1, p.2.chi = p.1.chi ∧ p.2.ty = p.1.ty ∧
        (p.2 = p.1 ∨ (M < p.2.var.id ∧ p.2.var.id ≤ (freshen Γ C M).2))) ∧
    NodupIds (freshen Γ C M).1 ∧
    (∀ i ∈ (freshen Γ C M).1.ids, i ∉ C) ∧
    (∀ i ∈ (freshen Γ C M).1.ids, i ∈ Γ.ids ∨ (M < i ∧ i ≤ (freshen Γ C M).2)) :=
  freshen_spec M Γ C M hΓ hC (Nat.le_refl _)

/-! ## T2: the free-variable annotation -/

/-- the sets computed by `freeVars` only contain variables in scope -/
theorem C05_T2_freeVars_in_scope (T : List TypeDecl) (S : Sigs) (M : Nat) (s : Stmt) (Γ : Ctx)
    (h : WT T S M s Γ) : ∀ y ∈ (freeVars s).2, y ∈ Γ.ids := fv_sub T S M s Γ h

/-- `freeVars_sound` in the form T3 uses: the annotated statement is typed (`WTA`) under every
sub-context containing the computed free variables, where `WTA` types the continuation of every
binding statement under the context RESTRICTED to the annotated set. -/
theorem C05_T2_freeVars_sound (T : List TypeDecl) (S : Sigs) (M : Nat) (s : Stmt) (Γ : Ctx)
    (h : WT T S M s Γ) (hn : NodupIds Γ) (hM : ∀ i ∈ Γ.ids, i ≤ M) (Γ' : Ctx)
    (hs : KeysSub Γ' Γ) (hfv : ∀ y ∈ (freeVars s).2, y ∈ Γ'.ids) :
    WTA T S M (freeVars s).1 Γ.ids Γ' := freeVars_WTA T S M s Γ h hn hM Γ' hs hfv

/-! ## T3: the linearized program is ordered-linearly typed (parts a, b of the property) -/

/-- C05 (a), (b) — statement -/
def C05_linearize_LinTyped_statement : Prop :=
  ∀ p : Prog, WfNonLinear p →
    ∃ p', linearizeProg p = .ok p' ∧ LinTypedProg p' ∧
      p'.types = p.types ∧ p'.sigs = p.sigs ∧ p.maxId ≤ p'.maxId

/-- C05 (a), (b): for every well-formed non-linear program the linearizer does not panic and
every definition of its output is `LinTyped` under the definition's parameter list. -/
theorem C05_linearize_LinTyped : C05_linearize_LinTyped_statement :=
  fun p h => linearizeProg_LinTyped p h

/-- the verified checker accepts ⇒ `LinTypedProg` (used on the IMPLEMENTATION's S5 output) -/
theorem C05_linTypedCheck_sound (p : Prog) (h : linTypedCheck p = .ok ()) : LinTypedProg p :=
  linTypedCheck_sound p h

/-! ## T4 / T5: semantics (stated) -/

/-- outcomes the property speaks about -/
def finishedNamed : Named.Res → Prop
  | .done _ => True
  | .stuck why => why = "divByZero" ∨ why = "overflow"
  | .outOfFuel => False

def finishedPos : Pos.Result → Prop
  | .done _ => True
  | .stuck why => why = .divByZero ∨ why = .overflow
  | .outOfFuel => False

def sameOutcome : Named.Res → Pos.Result → Prop
  | .done v, .done w => v = w
  | .stuck why, .stuck why' =>
    (why = "divByZero" ∧ why' = .divByZero) ∨ (why = "overflow" ∧ why' = .overflow)
  | _, _ => False

/-- T4 (C05 c): the named machine on `p` and the positional machine on `linearize p` have the
same behaviour: every finished run of one is matched (same trace, same outcome) by a run of the
other. STATED, not proved. -/
def C05_T4_linearize_sem : Prop :=
  ∀ (p p' : Prog) (args : List (BitVec 64)), WfNonLinear p → linearizeProg p = .ok p' →
    (∀ n, finishedNamed (Named.run p args n).res →
      ∃ m, (Pos.run p' args m).out = (Named.run p args n).out ∧
        sameOutcome (Named.run p args n).res (Pos.run p' args m).res) ∧
    (∀ m, finishedPos (Pos.run p' args m).res →
      ∃ n, (Pos.run p' args m).out = (Named.run p args n).out ∧
        sameOutcome (Named.run p args n).res (Pos.run p' args m).res)

/-- T5: the positional machine never violates a shape on a `LinTyped` program whose entry takes
integers: the only ways to stop are `done`, division by zero, overflow (or running out of fuel).
STATED, not proved. -/
def C05_T5_LinTyped_safe : Prop :=
  ∀ (p : Prog) (args : List (BitVec 64)) (fuel : Nat), LinTypedProg p →
    (∀ d, p.defs.head? = some d → d.ctx.length = args.length ∧ ∀ b ∈ d.ctx, b.chi = .ext ∧ b.ty = .i64) →
    p.defs ≠ [] →
    match (Pos.run p args fuel).res with
    | .done _ => True
    | .outOfFuel => True
    | .stuck why => why = .divByZero ∨ why = .overflow

/-- the full property -/
def C05_statement : Prop :=
  C05_linearize_LinTyped_statement ∧ C05_T4_linearize_sem ∧ C05_T5_LinTyped_safe

/-- proved part of C05: (a) and (b); missing: T4 (same behaviour) and T5 (progress), see above -/
theorem C05_partial : C05_linearize_LinTyped_statement := C05_linearize_LinTyped

/-! ## non-vacuity -/

def tyList : Ty := .decl ⟨"List", 0⟩
def tyCont : Ty := .decl ⟨"Cont", 0⟩
def v (n : String) (i : Nat) : Ident := ⟨n, i⟩
def bx (n : String) (i : Nat) : Binding := ⟨⟨n, i⟩, .ext, .i64⟩

/-- a non-linear program: `a` is used three times, `b` once in one branch only, the closure
captures `a`, the scrutinee `l` is dead after the switch, `f` ignores its second parameter. -/
def exProg : Prog where
  maxId := 12
  types := [
    ⟨⟨"List", 0⟩, [⟨⟨"Nil", 0⟩, []⟩, ⟨⟨"Cons", 0⟩, [bx "x" 0, ⟨⟨"xs", 0⟩, .prd, tyList⟩]⟩]⟩,
    ⟨⟨"Cont", 0⟩, [⟨⟨"Ret", 0⟩, [bx "r" 0]⟩]⟩]
  defs := [
    { name := ⟨"main", 0⟩, ctx := [bx "a" 1],
      body :=
        .lit (v "b" 2) 1
          (.letS (v "n" 3) tyList ⟨"Nil", 0⟩ []
            (.letS (v "l" 4) tyList ⟨"Cons", 0⟩ [bx "a" 1, ⟨v "n" 3, .prd, tyList⟩]
              (.create (v "k" 5) tyCont none
                (.cons ⟨"Ret", 0⟩ [bx "r" 6]
                  (.op (v "s" 7) (v "r" 6) .sum (v "a" 1) (.exit (v "s" 7)) none) .nil)
                (.switch (v "l" 4) tyList
                  (.cons ⟨"Nil", 0⟩ [] (.invoke (v "k" 5) ⟨"Ret", 0⟩ tyCont [bx "b" 2])
                    (.cons ⟨"Cons", 0⟩ [bx "h" 8, ⟨v "t" 9, .prd, tyList⟩]
                      (.call ⟨"f", 0⟩ [bx "h" 8, bx "a" 1, ⟨v "k" 5, .cns, tyCont⟩]) .nil))
                  none)
                none none)
              none)
            none)
          none },
    { name := ⟨"f", 0⟩, ctx := [bx "u" 10, bx "w" 11, ⟨v "k" 12, .cns, tyCont⟩],
      body := .print true (v "u" 10) (.invoke (v "k" 12) ⟨"Ret", 0⟩ tyCont [bx "u" 10]) none }]

/-- the precondition of T3 is satisfiable -/
example : WfNonLinear exProg := by decide

/-- … and on this program the linearizer really inserts explicit substitutions, and the verified
checker accepts the result -/
example : ∃ p', linearizeProg exProg = .ok p' ∧ (linTypedCheck p').toBool = true ∧
    p'.maxId = 14 := by
  refine ⟨_, rfl, ?_, ?_⟩ <;> decide

/-- T1 hypotheses are satisfiable; the example shows a reordering by `swap_remove` -/
example : filterBySet [bx "a" 1, bx "b" 2, bx "c" 3, bx "d" 4] [1, 4] = [bx "a" 1, bx "d" 4] := by
  decide

example : (freshen [bx "a" 1, bx "b" 2, bx "a" 1] [2] 7).1 = [bx "a" 1, bx "b" 8, bx "a" 9] := by
  decide

#print axioms C05_T1_filterBySet_perm
#print axioms C05_T1_filterBySet_nodup
#print axioms C05_T1_filterBySet_ids
#print axioms C05_T1_filterBySet_keeps
#print axioms C05_T1_filterWhile_fuel
#print axioms C05_T1_freshen
#print axioms C05_T2_freeVars_in_scope
#print axioms C05_T2_freeVars_sound
#print axioms C05_linearize_LinTyped
#print axioms C05_linTypedCheck_sound
#print axioms C05_partial

end Scc.Props.C05
