/-
  Scc.Props.C04Strong — C04 (shrinking preserves behaviour) with the observation relation of C02/C03.

  The audit (AUDIT.md, entry C04_sem) found `SameBehaviour` of Props/C04.lean weaker than it reads:
  (a) it has no divergence clause (a program that prints forever is unconstrained);
  (b) a stuck source is matched by ANY stuck target (`ResMatch: stuck _ => ∃ w, …`): a division by zero
      could become an overflow or any other reason.
  * `StrongSame`  the four clauses of `C02_ObsSame` (Props/C02Sem.lean) / `ObsEq` (Props/C03.lean):
      1/2. a run of either machine that finishes with a result, `divByZero` or `overflow` is matched by a run
           of the other machine with the SAME behaviour (trace and result, the fault kind included);
      3/4. for all fuel, the trace of either machine is a prefix of a trace of the other (divergence).
  * `C04_sem_strong`  (THEOREM)  same hypotheses as `C04_sem`, conclusion `StrongSame`.
  * `C04_sem_reasons`  (THEOREM)  finer than clause 1/2: once both machines have started, EVERY stuck reason
      `e` of the Core machine is reported by the AxCut machine as `e.render`, and conversely.
  `StrongSame` and `SameBehaviour` are to be read together: stuck reasons other than the arithmetic ones are
  constrained by `SameBehaviour` (some stuck target) and `C04_sem_reasons` (the same reason) only.
  Proof: `Scc/Core2AxCut/SemStrong.lean` — the rule lemmas of the forward simulation again with `ResMatchS`
  (only the error branches of `sim_opMu`/`sim_opVar` change: `evalOp_err`, the two machines name their
  arithmetic faults alike), the generic forward/backward lemmas of `SemRun.lean` for `ResMatchS`, and two new
  lemmas for traces of unfinished runs (`sim_prefix_forward`, `sim_prefix_backward`; the AxCut machine only
  appends to its trace: `iterate_mono`).  No existing file was changed.
-/
import Scc.Props.C04Sem
import Scc.Core2AxCut.SemStrong

namespace Scc.Props
open Scc.Core2AxCut

/-- outcomes the property speaks about: a result, or one of the two arithmetic faults
    (`C02_ObsFinished` on the behaviours of the AxCut machines) -/
def ArithFinished : AxCut.Named.Res → Prop
  | .done _ => True
  | .stuck w => w = "divByZero" ∨ w = "overflow"
  | .outOfFuel => False

/-- same observable behaviour of two fuel-indexed runs (the shape of `C02_ObsSame`) -/
def StrongSame (src tgt : Nat → AxCut.Named.Behaviour) : Prop :=
  (∀ n, ArithFinished (src n).res → ∃ m, tgt m = src n) ∧
  (∀ m, ArithFinished (tgt m).res → ∃ n, src n = tgt m) ∧
  (∀ n, ∃ m, (src n).out <+: (tgt m).out) ∧ (∀ m, ∃ n, (tgt m).out <+: (src n).out)

def C04_sem_strong_statement : Prop :=
  ∀ (p : Core.FsProg) (q : AxCut.Prog) (args : List (BitVec 64)),
    wtFsScopedCheck p = true → uniqueIdsCheck p = true → idsBoundedCheck p = true → mainIntParams p = true →
    (∃ d ds, p.defs = d :: ds ∧ d.name.name = "main") → shrinkProg p = .ok q →
    StrongSame (coreFsRun p args) (AxCut.Named.run q args)

theorem beh_ext {a b : AxCut.Named.Behaviour} (h1 : a.out = b.out) (h2 : a.res = b.res) : a = b := by
  cases a; cases b; simp_all

/-- from a strong step-wise simulation to `StrongSame` -/
theorem strongSame_of_sim {p : Core.FsProg} {q : AxCut.Prog} {R : Core.FsState → AxCut.Named.State → Prop}
    (hsim : ∀ cs as, R cs as → Sem.Strong.SimGoalS p q R cs as) (hout : ∀ cs as, R cs as → cs.out = as.out)
    {cs : Core.FsState} {as : AxCut.Named.State} (hr : R cs as) :
    StrongSame (fun n => coreBehaviour (Core.fsStepN p n cs)) (fun m => AxCut.Named.iterate q m as) := by
  refine ⟨?_, ?_, ?_, ?_⟩
  · intro n hf
    have hc : Sem.CFin (Core.fsStepN p n cs).res := by
      simp only [coreBehaviour] at hf
      cases hres : (Core.fsStepN p n cs).res with
      | done v => exact .inl ⟨v, rfl⟩
      | stuck w => exact .inr ⟨w, rfl⟩
      | outOfFuel => simp [hres, ArithFinished] at hf
    obtain ⟨m, ho, hm⟩ := Sem.Strong.sim_forwardS hsim n cs as hr hc
    refine ⟨m, beh_ext (by simpa [coreBehaviour] using ho) ?_⟩
    simp only [coreBehaviour]
    cases hres : (Core.fsStepN p n cs).res with
    | done v => rw [hres] at hm; exact hm
    | stuck w => rw [hres] at hm; exact hm
    | outOfFuel => rw [hres] at hm; cases hm
  · intro m hf
    have hc : Sem.Fin (AxCut.Named.iterate q m as).res := by
      cases hres : (AxCut.Named.iterate q m as).res with
      | done v => exact .inl ⟨v, rfl⟩
      | stuck w => exact .inr ⟨w, rfl⟩
      | outOfFuel => simp [hres, ArithFinished] at hf
    obtain ⟨n, ho, hm⟩ := Sem.Strong.sim_backwardS hsim m _ cs as hr (Nat.le_refl _) hc
    refine ⟨n, beh_ext (by simpa [coreBehaviour] using ho) ?_⟩
    simp only [coreBehaviour]
    cases hres : (Core.fsStepN p n cs).res with
    | done v => rw [hres] at hm; exact hm.symm
    | stuck w => rw [hres] at hm; exact hm.symm
    | outOfFuel => rw [hres] at hm; cases hm
  · intro n
    obtain ⟨m, h⟩ := Sem.Strong.sim_prefix_forward hsim hout n cs as hr
    exact ⟨m, by simp only [coreBehaviour]; rw [h]; exact List.prefix_refl _⟩
  · intro m
    obtain ⟨n, h⟩ := Sem.Strong.sim_prefix_backward hsim hout m _ cs as hr (Nat.le_refl _)
    exact ⟨n, by simpa [coreBehaviour] using h⟩

theorem stRel_out {E q cs as} (h : Sem.StRel E q cs as) : cs.out = as.out := by
  obtain ⟨_, _, _, _, ho⟩ := h
  exact ho

/-- **C04_sem_strong**: shrinking preserves results, BOTH arithmetic faults (as such) and traces, of
    finished and of unfinished runs, in both directions — for every program, all arguments, all fuel. -/
theorem C04_sem_strong : C04_sem_strong_statement := by
  intro p q args hwt hu hb hint hmain h
  obtain ⟨hp, hstart | ⟨hcore, hax⟩⟩ := Sem.Strong.sem_entry args hwt hu hb hint hmain h
  · obtain ⟨cs, as, hrel, _, hcore, hax⟩ := hstart
    have := strongSame_of_sim (p := p) (q := q) (fun cs as => Sem.Strong.sim_stRel hp cs as)
      (fun _ _ => stRel_out) hrel
    have e1 : coreFsRun p args = fun n => coreBehaviour (Core.fsStepN p n cs) := by
      funext n; simp [coreFsRun, hcore]
    have e2 : AxCut.Named.run q args = fun m => AxCut.Named.iterate q m as := by
      funext m; exact hax m
    rw [e1, e2]
    exact this
  · -- both machines refuse to start: no result, no arithmetic fault, empty traces
    refine ⟨?_, ?_, ?_, ?_⟩
    · intro n hf
      simp [coreFsRun, coreBehaviour, hcore, ArithFinished, Core.Why.render] at hf
    · intro m hf
      simp [hax, ArithFinished] at hf
    · intro n; exact ⟨0, by simp [coreFsRun, coreBehaviour, hcore, hax]⟩
    · intro m; exact ⟨0, by simp [coreFsRun, coreBehaviour, hcore, hax]⟩

/-- finer than clauses 1/2 of `StrongSame`: unless `main` is called with a wrong number of arguments (both
    machines refuse to start, reporting `arity` / `main: arity`), EVERY finished run of either machine is
    matched by a run of the other with the SAME behaviour, whatever the reason of getting stuck. -/
theorem C04_sem_reasons (p : Core.FsProg) (q : AxCut.Prog) (args : List (BitVec 64))
    (hwt : wtFsScopedCheck p = true) (hu : uniqueIdsCheck p = true) (hb : idsBoundedCheck p = true)
    (hint : mainIntParams p = true) (hmain : ∃ d ds, p.defs = d :: ds ∧ d.name.name = "main")
    (h : shrinkProg p = .ok q) (hargs : ∀ n, (Core.fsRun p args n).res ≠ .stuck .arity) :
    (∀ n, (coreFsRun p args n).res ≠ .outOfFuel → ∃ m, AxCut.Named.run q args m = coreFsRun p args n) ∧
    (∀ m, (AxCut.Named.run q args m).res ≠ .outOfFuel → ∃ n, coreFsRun p args n = AxCut.Named.run q args m) := by
  obtain ⟨hp, hstart | ⟨hcore, _⟩⟩ := Sem.Strong.sem_entry args hwt hu hb hint hmain h
  · obtain ⟨cs, as, hrel, _, hcore, hax⟩ := hstart
    have hsim := fun cs as => Sem.Strong.sim_stRel (p := p) hp cs as
    constructor
    · intro n hf
      have hc : Sem.CFin (Core.fsStepN p n cs).res := by
        simp only [coreFsRun, coreBehaviour, hcore] at hf
        cases hres : (Core.fsStepN p n cs).res with
        | done v => exact .inl ⟨v, rfl⟩
        | stuck w => exact .inr ⟨w, rfl⟩
        | outOfFuel => simp [hres] at hf
      obtain ⟨m, ho, hm⟩ := Sem.Strong.sim_forwardS hsim n cs as hrel hc
      refine ⟨m, beh_ext (by simpa [coreFsRun, coreBehaviour, hcore, hax] using ho) ?_⟩
      simp only [coreFsRun, coreBehaviour, hcore, hax]
      cases hres : (Core.fsStepN p n cs).res with
      | done v => rw [hres] at hm; exact hm
      | stuck w => rw [hres] at hm; exact hm
      | outOfFuel => rw [hres] at hm; cases hm
    · intro m hf
      have hc : Sem.Fin (AxCut.Named.iterate q m as).res := by
        rw [hax] at hf
        cases hres : (AxCut.Named.iterate q m as).res with
        | done v => exact .inl ⟨v, rfl⟩
        | stuck w => exact .inr ⟨w, rfl⟩
        | outOfFuel => exact absurd hres hf
      obtain ⟨n, ho, hm⟩ := Sem.Strong.sim_backwardS hsim m _ cs as hrel (Nat.le_refl _) hc
      refine ⟨n, beh_ext (by simpa [coreFsRun, coreBehaviour, hcore, hax] using ho) ?_⟩
      simp only [coreFsRun, coreBehaviour, hcore, hax]
      cases hres : (Core.fsStepN p n cs).res with
      | done v => rw [hres] at hm; exact hm.symm
      | stuck w => rw [hres] at hm; exact hm.symm
      | outOfFuel => rw [hres] at hm; cases hm
  · exact absurd (by rw [hcore 0]) (hargs 0)

/-! ## non-vacuity -/

deriving instance DecidableEq for AxCut.Named.Res
deriving instance DecidableEq for AxCut.Named.Behaviour
instance (r : AxCut.Named.Res) : Decidable (ArithFinished r) := by
  cases r <;> simp only [ArithFinished] <;> infer_instance

-- the hypotheses on the program of `C04SemExample` (a lifted critical pair), and the theorem applied to it
example : ∀ q, shrinkProg C04SemExample.prog = .ok q →
    StrongSame (coreFsRun C04SemExample.prog []) (AxCut.Named.run q []) := fun q hq =>
  C04_sem_strong _ q [] (by decide) (by decide) (by decide) (by decide) ⟨_, _, rfl, rfl⟩ hq

namespace C04StrongExample
open Scc C04SemExample

def y2 : Core.Ident := ⟨"y", 2⟩
def z5 : Core.Ident := ⟨"z", 5⟩
/-- `main(x) { print x; ⟨ x / y | μ~z. exit z ⟩ }` with `y := 0`: prints, then divides by zero -/
def bodyDiv : Core.FsStmt :=
  .cut .i64 (.lit 0) (.mu .cns y2 .i64
    (.print true x1 (.cut .i64 (.op x1 .div y2) (.mu .cns z5 .i64 (.exit z5)))))
def progDiv : Core.FsProg := ⟨[⟨⟨"main", 0⟩, [⟨x1, .prd, .i64⟩], bodyDiv⟩], [], [], 5⟩

example : wtFsScopedCheck progDiv = true ∧ uniqueIdsCheck progDiv = true ∧ idsBoundedCheck progDiv = true ∧
    mainIntParams progDiv = true := by decide
example : ∃ d ds, progDiv.defs = d :: ds ∧ d.name.name = "main" := ⟨_, _, rfl, rfl⟩
-- clause 1 is not vacuous on faults: the Core machine prints 7 and stops with `divByZero`, and so does
-- the AxCut machine (same trace, same fault)
example : coreFsRun progDiv [7#64] 20 = ⟨[(true, 7#64)], .stuck "divByZero"⟩ := by decide
example : ArithFinished (coreFsRun progDiv [7#64] 20).res := by decide
example : (shrinkProg progDiv).toOption.map (fun q => AxCut.Named.run q [7#64] 20) =
    some ⟨[(true, 7#64)], .stuck "divByZero"⟩ := by decide

/-- `main(x) { print x; main(x) }`: prints forever; clauses 3/4 constrain it, clauses 1/2 do not -/
def bodyLoop : Core.FsStmt := .print true x1 (.call ⟨"main", 0⟩ [⟨x1, .prd, .i64⟩])
def progLoop : Core.FsProg := ⟨[⟨⟨"main", 0⟩, [⟨x1, .prd, .i64⟩], bodyLoop⟩], [], [], 1⟩

example : wtFsScopedCheck progLoop = true ∧ uniqueIdsCheck progLoop = true ∧ idsBoundedCheck progLoop = true ∧
    mainIntParams progLoop = true := by decide
example : coreFsRun progLoop [3#64] 6 = ⟨[(true, 3#64), (true, 3#64), (true, 3#64)], .outOfFuel⟩ := by decide
example : (shrinkProg progLoop).toOption.map (fun q => AxCut.Named.run q [3#64] 6) =
    some ⟨[(true, 3#64), (true, 3#64), (true, 3#64)], .outOfFuel⟩ := by decide

end C04StrongExample

end Scc.Props

#print axioms Scc.Props.C04_sem_strong
#print axioms Scc.Props.C04_sem_reasons
