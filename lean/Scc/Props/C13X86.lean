/-
  Scc.Props.C13X86 — property C13 (calling convention) for the x86-64 backend, on the SPEC machine
  Scc/X86/Machine.lean with undefined-value tracking ("poison": the external call makes rax rcx rdx rsi
  rdi r8–r11, the flags and all stack memory below rsp undefined; any USE of an undefined value faults).

  * `C13_statement` — the full property, kept as a `def : Prop` (NOT proved as a whole).
  * PROVED, PER METHOD (for every context):
      `C13_prologue_epilogue`  setup ++ body ++ cleanup restores rbx rbp r12–r15 and rsp and keeps the
                               caller's stack, for ANY body that has rsp at its boundaries where the
                               prologue put it and does not write the save area or above
      `C13_exit_check`         with that, the machine's exit check (`retCheck`: return sentinel, rsp,
                               every callee-saved register, defined result in rax) succeeds
      `C13_sp_invariant`       rsp ≡ 8 (mod 16) at statement boundaries (every Theorem-B lemma of C06
                               returns `Boundary … sp` with the same `sp`)
      `C13_print_alignment`    FOR EVERY CONTEXT (any length, any kinds): the save sequence leaves
                               rsp ≡ 0 (mod 16) at the call (parity of registers_to_save − backup_registers_used)
      `C13_print_preserves`    FOR EVERY CONTEXT and source placement: save; mov arg; call; restore on the
                               poison machine runs without fault, prints exactly the source's value and
                               preserves rsp, HEAP, FREE, every temporary of every live variable
                               (registers and spill slots) and the heap
  * PROVED, WHOLE PROGRAMS, STATIC (text level; ANY program that `compileX86` accepts, no other
    hypothesis — capacity = the compiler succeeds; proofs: Scc/Backend/ProofsShape.lean = induction over
    the generic code generator, Scc/X86/CCProofsStatic.lean, CCProofsSites.lean):
      `C13_static_shape`       the body is a sequence of PLAIN instructions (`plainCC`: not push / pop /
                               call / ret, `rsp` not written, `rsp`-relative operands inside the spill
                               area) and of WHOLE print blocks `printI64 nl t ctx`, `t` the `Snd` temporary
                               of a variable of `ctx` (= the context of the `print` statement)
      (i)  `C13_static_call_sites`   every `call` of the body is the call of a print block: preceded by
                               argument staging + save sequence + argument move, followed by the restore
                               sequence, of ONE context; `C13_static_saved_exact`: the saved registers are
                               EXACTLY the caller-save registers rax…r11 holding a live temporary of that
                               context; `C13_static_save_restore_mirror`: restore = save undone (same
                               backup registers, padding removed iff added, pops in reverse push order);
                               `C13_static_backup_free`: backup registers are free callee-saved r12…r15
      (ii) `C13_static_call_parity`  at every call site of the ROUTINE the static displacement of rsp
                               from the routine entry is ≡ 8 (mod 16) (⇒ rsp ≡ 0 at the call, given the
                               ABI entry condition: `call_aligned_of_parity`); `C13_static_balanced`: the
                               displacement at the final `ret` is 0
      (iii) `C13_static_routine`     routine = head ++ body ++ epilogue ++ [ret]; the prologue pushes
                               `calleeSaved` (ALL callee-saved registers of the machine model) and the
                               epilogue pops them in reverse order; `C13_static_spill_area`: every
                               rsp-relative operand of the routine lies in the 2048 bytes the prologue
                               reserves
      (iv) `C13_static_sp_writers`   an instruction of the body that writes rsp (or is a push / pop /
                               call / ret) lies inside a print block; `C13_codeWrites_sound`: `codeWrites`
                               / `codeMems` are sound for the machine (`execCode_fr`).
          rbp is NOT a frame pointer in this backend: it is the allocator register FREE, an ordinary
          callee-saved register that the prologue saves and the epilogue restores (like rbx = HEAP).
  * PROVED, WHOLE PROGRAMS, DYNAMIC, INTEGER PROGRAMS (`IntProg` of C06Generic + `LinTypedProg`, or the
    syntactic `IntProgC`; Scc/X86/CCProofsFrame.lean, CCProofsSeg.lean, CCProofsRun.lean):
      `C13_cc_never_fires_int`  THE CALLING-CONVENTION MONITOR NEVER FIRES: for all arguments (any
                               number ≤ 5, any values), ALL fuel (non-terminating runs included), every
                               monitor configuration, the result of the machine on the items of the
                               routine is never `cc-violation`, never `misaligned-call`, never
                               `ret-to-non-sentinel` (`CCSafe`).  No typing or definedness hypothesis is
                               used: the invariant is purely about rsp, the save area and the return word.
                               `C13_cc_never_fires_int_text`: the same for `run (printProg routine)` given
                               that the text loads (`TextLoads` of C06X86: parser ∘ printer, not proved).
      `C13_int_terminating`    with Theorem A∘B for integer programs (`C06_int_programs`): if the AxCut run
                               terminates, then for EVERY fuel the machine result is `outOfFuel` or `done v`
                               — the full `C13_allowed` for these runs.
    WHAT REMAINS of `C13_statement`: (1) programs with heap statements: a store through a register
    other than rsp could reach the save area unless the register holds a heap pointer — needs the heap
    invariant of Theorem A∘B for `let/switch/create/invoke` (memory contracts exist per method, the
    composition does not); the STATIC theorems above already cover these programs; (2) "no undefined
    value is ever used" for runs that do not terminate (needs the step-indexed simulation, not only its
    terminating corollary); (3) the parser round trip (`TextLoads`).
    CALLER_SAVE_FIRST = 4, CALLER_SAVE_LAST = 11, REGISTER_NUM = 16, RESERVED = 4 enter through
    Scc/X86/Consts.lean (`callerSaveRegistersInfo`, `backupRegistersUsed`).
-/
import Scc.X86.ProofsPrint
import Scc.AxCut.LinTyping
import Scc.X86.CCProofsRun
import Scc.Backend.ProofsShapeInt
import Scc.Props.C06X86

namespace Scc.X86
open Scc.AxCut

/-! ## The full statement (not proved) -/

/-- the machine outcomes the property allows: normal return, fuel, the excluded divisions and running
out of heap/stack region; NOT: `cc-violation`, `misaligned-call`, `read-undefined …`, `ret-to-non-sentinel` -/
def C13_allowed : Res → Prop
  | .done _ => True
  | .outOfFuel => True
  | .fault why _ => why = "div-by-zero" ∨ why = "div-overflow" ∨ why.startsWith "oob"
  | _ => False

/-- C13: for every compiled program, all arguments (callee-saved registers hold arbitrary sentinels,
caller-saved registers / flags / stack below rsp are undefined at entry and after every call of the
print runtime), the run ends only in an allowed outcome: at `ret` callee-saved registers and rsp are
restored and the result is in rax; rsp is 16-aligned at every call; no undefined value is ever used. -/
def C13_statement : Prop :=
  ∀ (p : AxCut.Prog) (args : List (BitVec 64)) (hooks : Bool) (body routine : List Code) (nargs : Nat),
    LinTypedProg p → compileX86 p hooks 0 = .ok (body, nargs) → intoRoutine body nargs = .ok routine →
    args.length = nargs →
    ∀ (fuel : Nat) (cfg : MonCfg), cfg.heap = false → CfgOK cfg.mach →
      C13_allowed (run (printProg routine) args fuel cfg).res

/-! ## Proved -/

variable {c : MachCfg} {la : String → Option Nat}

/-- into_routine.rs: `setup n = prologue ++ move_arguments n`, `cleanup = epilogue ++ [ret]`. -/
theorem C13_routine_shape (n : Nat) (moves : List Code) (h : moveArguments n = .ok moves) :
    setup n = .ok (prologue ++ moves) ∧ cleanup = epilogue ++ [.RET] :=
  ⟨setup_eq n moves h, cleanup_eq⟩

/-- prologue_epilogue: (1) the prologue saves rbx rbp r12–r15 below the entry rsp `m`, sets
`rsp = m − 48 − 2048`, HEAP = rdi, FREE = rdi + 64; (2) for ANY body result `st2` with that rsp and with
the save area and everything above it unchanged, the epilogue ends with rsp = m, the six registers at
their entry contents, every other register as the body left it (rax!), the caller's stack intact. -/
theorem C13_prologue_epilogue {st0 : State} {m : Nat} (E : EntryOK c st0 m) {h : Word}
    (h7 : st0.regs[7]? = some (some h)) :
    ∃ st1, execStraight c la prologue st0 = .ok st1 ∧ AfterPrologueM st0 st1 m h ∧
      ∀ st2 : State, st2.regs.size = 16 → st2.regs[0]? = st1.regs[0]? →
        (∀ n, m - 48 ≤ n → st2.stackMem[n]? = st1.stackMem[n]?) →
        ∃ st3, execStraight c la epilogue st2 = .ok st3 ∧ Same st2 st3 ∧ st3.regs.size = 16 ∧
          st3.regs[0]? = some (some (BitVec.ofNat 64 m)) ∧
          (∀ r, r ∈ [2, 3, 12, 13, 14, 15] → st3.regs[r]? = st0.regs[r]?) ∧
          (∀ r : Nat, r < 16 → r ≠ 0 → r ∉ [2, 3, 12, 13, 14, 15] → st3.regs[r]? = st2.regs[r]?) ∧
          (∀ n, m ≤ n → st3.stackMem[n]? = st0.stackMem[n]?) := by
  obtain ⟨st1, e1, P⟩ := prologue_machine (la := la) E h7
  exact ⟨st1, e1, P, fun st2 hs hr hm => prologue_epilogue_machine E P hs hr hm⟩

/-- the exit check of the machine succeeds in the state the epilogue produces from `initState` -/
theorem C13_exit_check (hc : CfgOK c) {st : State} {v : Word} (h16 : c.stackTop % 8 = 0)
    (hroom : c.stackLow + 8 ≤ c.stackTop)
    (hsp : st.regs[0]? = some (some (BitVec.ofNat 64 (c.stackTop - 8))))
    (hret : st.stackMem[c.stackTop - 8]? = some retSentinel)
    (hcs : ∀ r ∈ calleeSaved, st.regs[r]? = some (some (calleeSentinel r)))
    (hrax : st.regs[4]? = some (some v)) :
    retCheck c st = .ok v := retCheck_ok hc h16 hroom hsp hret hcs hrax

/-- sp_invariant: entry `rsp = m ≡ 8 (mod 16)` ⟹ after the prologue `rsp = m − 2096 ≡ 8 (mod 16)` -/
theorem C13_sp_invariant {m : Nat} (h : m % 16 = 8) (hm : 2096 ≤ m) : (m - 2096) % 16 = 8 :=
  sp_invariant h hm

/-- print_alignment, for EVERY context. -/
theorem C13_print_alignment (hc : CfgOK c) (ctx : Ctx) {st : State} {m : Nat}
    (hsize : st.regs.size = 16) (hsp : st.regs[0]? = some (some (BitVec.ofNat 64 m)))
    (h16 : m % 16 = 8) (hlow : c.stackLow + 72 ≤ m) (htop : m ≤ c.stackTop) :
    ∃ st' m', execStraight c la (saveCallerSaveRegisters (callerSaveRegistersInfo ctx).1
        (callerSaveRegistersInfo ctx).2) st = .ok st' ∧ Same st st' ∧
      st'.regs[0]? = some (some (BitVec.ofNat 64 m')) ∧ m' % 16 = 0 ∧ m' ≤ m ∧ m ≤ m' + 72 :=
  print_alignment_machine hc ctx hsize hsp h16 hlow htop

/-- print_preserves, for EVERY context and source placement (`execSeq` = straight-line execution in
which `call f` is the machine's external call `callExt`, exactly as in `step`). -/
theorem C13_print_preserves (hc : CfgOK c) (nl : Bool) (ctx : Ctx) (src : Temporary)
    (hsrc : TempOK src) (hlive : ∀ r, src = .reg r → r < 2 * ctx.length + 4)
    {st : State} {m : Nat} (hsize : st.regs.size = 16)
    (hsp : st.regs[0]? = some (some (BitVec.ofNat 64 m))) (h16 : m % 16 = 8)
    (hlow : c.stackLow + 72 ≤ m) (htop : m + 2048 ≤ c.stackTop)
    {x : Word} (hx : tempVal (BitVec.ofNat 64 m) st src = some x) :
    ∃ st', execSeq c la (printI64 nl src ctx) st = .ok st' ∧ st'.out = (nl, x) :: st.out ∧
      PrintKeptM ctx st st' m :=
  print_preserves_machine hc nl ctx src hsrc hlive hsize hsp h16 hlow htop hx

/-! ## Non-vacuity -/

/-- the initial state of the machine satisfies the entry conditions (default configuration) -/
example : EntryOK {} (initState {} [5#64] 0) (0x7fff0000 - 8) :=
  ⟨cfgOK_default, rfl, rfl, by decide, by decide, by decide⟩

/-- a boundary state for the print lemmas: rsp ≡ 8 (mod 16), x in rdi = position 1's word -/
def exPrintState : State :=
  { regs := #[some (BitVec.ofNat 64 0x7ffef008), none, some 0x10000000#64, some 0x10000040#64, none,
              some 1#64, none, some 42#64, none, none, none, none, none, none, none, none],
    flags := none, heapMem := ∅, stackMem := ∅, pc := 0, out := [], maxHeapWritten := 0, steps := 0 }

/-- print of the second of two integer variables: the trace gets `(true, 42)`, rdx and rdi survive -/
example : ∃ st', execSeq {} (fun _ => none)
      (printI64 true (.reg 7) [⟨⟨"a", 1⟩, .ext, .i64⟩, ⟨⟨"b", 2⟩, .ext, .i64⟩]) exPrintState = .ok st' ∧
      st'.out = [(true, 42#64)] ∧ st'.regs[7]? = some (some 42#64) ∧ st'.regs[5]? = some (some 1#64) := by
  obtain ⟨st', h1, h2, K⟩ := C13_print_preserves (c := {}) (la := fun _ => none) cfgOK_default true
    [⟨⟨"a", 1⟩, .ext, .i64⟩, ⟨⟨"b", 2⟩, .ext, .i64⟩] (.reg 7) ⟨by decide, by decide⟩
    (fun r h => by cases h; decide) (st := exPrintState) (m := 0x7ffef008) rfl rfl (by decide) (by decide)
    (by decide) (x := 42#64) rfl
  refine ⟨st', h1, h2, ?_, ?_⟩
  · exact K.snd 1 _ rfl (by decide)
  · exact K.snd 0 _ rfl (by decide)

/-! ## WHOLE PROGRAMS: static (text-level) facts — every program the compiler accepts -/

open Scc.Backend.Shape (IntProgC intProgC_of_intProg)
open Scc.Props.C06Generic (IntProg)

/-- SHAPE: plain instructions and whole print blocks -/
theorem C13_static_shape {p : AxCut.Prog} {hooks : Bool} {c0 : Nat} {body : List Code} {nargs : Nat}
    (h : compileX86 p hooks c0 = .ok (body, nargs)) : CCShape plainCC body := compile_ccShape h

/-- what "plain" means: not push / pop / call / ret; `rsp` not written; `rsp`-relative operands in the
spill area -/
theorem C13_plain_spec {code : Code} (h : plainCC code = true) :
    isStackOp code = false ∧ 0 ∉ codeWrites code ∧ ∀ bi ∈ codeMems code, bi.1 = 0 → slotOK bi.2 = true :=
  plainCC_spec h

/-- (i) every call site is the call of a print block of ONE context -/
theorem C13_static_call_sites {p : AxCut.Prog} {hooks : Bool} {c0 : Nat} {body : List Code} {nargs : Nat}
    (h : compileX86 p hooks c0 = .ok (body, nargs)) {pre post : List Code} {f : String}
    (e : body = pre ++ Code.CALL f :: post) :
    ∃ pre' nl t ctx post', PrintSrc ctx t ∧ CCShape plainCC pre' ∧ CCShape plainCC post' ∧
      f = printFn nl ∧ pre = pre' ++ blockBefore t ctx ∧ post = blockAfter ctx ++ post' :=
  ccShape_call_site (compile_ccShape h) e

/-- (i) the registers the block saves are EXACTLY the caller-save registers holding a live temporary -/
theorem C13_static_saved_exact (ctx : Ctx) (r : Nat) :
    r ∈ (callerSaveRegistersInfo ctx).2 ↔ (4 ≤ r ∧ r ≤ 11 ∧ LiveReg ctx r) := mem_callerSave_iff ctx r

/-- (i) the restore sequence is the save sequence undone -/
theorem C13_static_save_restore_mirror (first : Nat) (L : List Nat) :
    ∃ (moved pushed : List Nat) (pad : Bool), moved ++ pushed = L ∧
      saveCallerSaveRegisters first L =
        backupMoves first moved 0 ++ pushed.map Code.PUSH ++ (if pad then [Code.SUBI 0 8] else []) ∧
      restoreCallerSaveRegisters first L =
        restoreMoves first moved 0 ++ (if pad then [Code.ADDI 0 8] else []) ++ pushed.reverse.map Code.POP :=
  save_restore_mirror first L

/-- (i) the backup registers are free callee-saved registers -/
theorem C13_static_backup_free (ctx : Ctx) :
    12 ≤ (callerSaveRegistersInfo ctx).1 ∧ 2 * ctx.length + 4 ≤ (callerSaveRegistersInfo ctx).1 ∧
    ((callerSaveRegistersInfo ctx).1 + backupRegistersUsed (callerSaveRegistersInfo ctx).1
      (callerSaveRegistersInfo ctx).2 ≤ 16 ∨
     backupRegistersUsed (callerSaveRegistersInfo ctx).1 (callerSaveRegistersInfo ctx).2 = 0) :=
  backupRegs_free ctx

/-- (ii) parity of the pushes between the routine entry and every call site -/
theorem C13_static_call_parity {p : AxCut.Prog} {hooks : Bool} {c0 : Nat} {body routine : List Code}
    {nargs : Nat} (h : compileX86 p hooks c0 = .ok (body, nargs)) (hr : intoRoutine body nargs = .ok routine)
    {pre post : List Code} {f : String} (e : routine = pre ++ Code.CALL f :: post) : spSum pre % 16 = 8 :=
  routine_call_parity (compile_ccShape h) hr e

/-- (ii)/(iii) the routine is balanced: displacement 0 at the final `ret` -/
theorem C13_static_balanced {p : AxCut.Prog} {hooks : Bool} {c0 : Nat} {body routine : List Code}
    {nargs : Nat} (h : compileX86 p hooks c0 = .ok (body, nargs)) (hr : intoRoutine body nargs = .ok routine) :
    spSum routine.dropLast = 0 ∧ routine.getLast? = some Code.RET :=
  routine_balanced (compile_ccShape h) hr

/-- (iii) anatomy of the routine and pairing of prologue and epilogue -/
theorem C13_static_routine {body routine : List Code} {n : Nat} (h : intoRoutine body n = .ok routine) :
    (∃ moves, moveArguments n = .ok moves ∧
      routine = routineHead moves ++ body ++ (epilogue ++ [Code.RET])) ∧
    prologue = [Code.COMMENT "setup", Code.COMMENT "save registers"] ++ calleeSaved.map Code.PUSH ++
      [Code.COMMENT "reserve space for register spills", Code.SUBI 0 2048,
       Code.COMMENT "initialize heap pointer", Code.MOV 2 7, Code.COMMENT "initialize free pointer",
       Code.MOV 3 2, Code.ADDI 3 64] ∧
    epilogue = [Code.LAB "cleanup", Code.COMMENT "free space for register spills", Code.ADDI 0 2048,
       Code.COMMENT "restore registers"] ++ calleeSaved.reverse.map Code.POP :=
  ⟨routine_anatomy h, prologue_epilogue_pairing⟩

/-- (iii) every rsp-relative operand of the routine lies inside the reserved spill area -/
theorem C13_static_spill_area {p : AxCut.Prog} {hooks : Bool} {c0 : Nat} {body routine : List Code}
    {nargs : Nat} (h : compileX86 p hooks c0 = .ok (body, nargs)) (hr : intoRoutine body nargs = .ok routine) :
    routine.all spillRefsOK = true := routine_spill_refs (compile_ccShape h) hr

/-- (iv) whatever writes rsp (or pushes / pops / calls / returns) in the body is part of a print block -/
theorem C13_static_sp_writers {p : AxCut.Prog} {hooks : Bool} {c0 : Nat} {body : List Code} {nargs : Nat}
    (h : compileX86 p hooks c0 = .ok (body, nargs)) (k : Nat) (code : Code) (hk : body[k]? = some code)
    (hw : isStackOp code = true ∨ 0 ∈ codeWrites code) :
    ∃ j nl t ctx, PrintSrc ctx t ∧ j ≤ k ∧ k < j + (printI64 nl t ctx).length ∧
      (body.drop j).take (printI64 nl t ctx).length = printI64 nl t ctx := by
  apply ccShape_nonplain_in_block (compile_ccShape h) k code hk
  cases hp : plainCC code with
  | false => rfl
  | true =>
    obtain ⟨h1, h2, _⟩ := plainCC_spec hp
    rcases hw with hw | hw
    · rw [h1] at hw; cases hw
    · exact absurd hw h2

/-- (iv) soundness of `codeWrites` / `codeMems` for the machine: an instruction other than push / pop
changes at most the registers it is said to write and the stack words its memory operands address -/
theorem C13_codeWrites_sound {c : MachCfg} {la : String → Option Nat} {code : Code} {s s' : State} {ctl : Ctl}
    (h : execCode c la code s = .ok (s', ctl)) (hns : isStackOp code = false) :
    Fr (codeWrites code) (MemAddrs s code) s s' := execCode_fr h hns

/-! ## WHOLE PROGRAMS: dynamic — the calling-convention monitor never fires (integer programs) -/

open Scc.X86.CC (CCSafe CfgCC cfgCC_default)

/-- C13 (b) for INTEGER PROGRAMS, every run: the result is never a report of the calling-convention
monitor.  `items`: any item list that agrees with the routine up to the text of comments (what the
machine's parser produces). -/
theorem C13_cc_never_fires_int (p : AxCut.Prog) (htp : LinTypedProg p) (hip : IntProg p) (hooks : Bool)
    (c0 : Nat) (body routine : List Code) (nargs : Nat) (hc : compileX86 p hooks c0 = .ok (body, nargs))
    (hr : intoRoutine body nargs = .ok routine) (cfg : MonCfg) (H : CfgCC cfg.mach)
    (items : List (Code × Nat)) (hitems : (items.map (·.1)).map CC.stripC = routine.map CC.stripC)
    (args : List Word) (fuel : Nat) :
    CCSafe (CC.runItems items args fuel cfg).res :=
  CC.cc_safe_items (intProgC_of_intProg hip htp) hc hr cfg H items hitems args fuel

theorem stripC_eq : Ref.stripC = CC.stripC := by
  funext code
  cases code <;> rfl

theorem runItems_eq : @Ref.runItems = @CC.runItems := rfl

/-- … on the TEXT of the routine, given that it loads (`TextLoads`, Props/C06X86.lean) -/
theorem C13_cc_never_fires_int_text (p : AxCut.Prog) (htp : LinTypedProg p) (hip : IntProg p) (hooks : Bool)
    (c0 : Nat) (body routine : List Code) (nargs : Nat) (hc : compileX86 p hooks c0 = .ok (body, nargs))
    (hr : intoRoutine body nargs = .ok routine) (cfg : MonCfg) (H : CfgCC cfg.mach)
    (hload : TextLoads routine) (args : List Word) (fuel : Nat) :
    CCSafe (run (printProg routine) args fuel cfg).res := by
  obtain ⟨items, hparse, hitems⟩ := hload
  rw [stripC_eq] at hitems
  exact CC.cc_safe_run (intProgC_of_intProg hip htp) hc hr cfg H hparse hitems args fuel

/-! ## WHOLE PROGRAMS: terminating runs of integer programs satisfy the full statement -/

open Scc.Props.C06Generic (Reachable WithinCapacity) in
open Scc.Props.C14Generic (LabelSafe) in
/-- C13 for TERMINATING RUNS OF INTEGER PROGRAMS (through Theorem A∘B, `C06_int_programs`): if the
AxCut positional machine finishes with `done v`, then for EVERY amount of fuel the machine on the items
of the routine ends in `outOfFuel` or `done v` — both allowed by `C13_allowed`: at `ret` the
callee-saved registers and rsp are restored, every call was aligned, nothing undefined was used. -/
theorem C13_int_terminating (p : AxCut.Prog) (args : List Word) (hooks : Bool) (body routine : List Code)
    (nargs : Nat) (d0 : Def)
    (hsafe : LabelSafe p = true) (htp : LinTypedProg p) (hip : IntProg p) (hrange : ProgInRange p)
    (hcompX : compileX86 p hooks 0 = .ok (body, nargs)) (hrout : intoRoutine body nargs = .ok routine)
    (hd : p.defs.head? = some d0)
    (hcap : ∀ st, Reachable p ⟨d0.ctx, args.map .int, d0.body⟩ st → WithinCapacity st.ctx)
    (fuel : Nat) (out : List (Bool × Word)) (v : Word) (hrun : Pos.run p args fuel = ⟨out, .done v⟩)
    (cfg : MonCfg) (MO : Ref.MachOK cfg.mach) (hheap : cfg.heap = false)
    (items : List (Code × Nat)) (hitems : (items.map (·.1)).map Ref.stripC = routine.map Ref.stripC) :
    ∀ fuel', C13_allowed (Ref.runItems items args fuel' cfg).res := by
  obtain ⟨f0, _, h2⟩ := C06_int_programs p args hooks body routine nargs d0 hsafe htp hip hrange hcompX
    hrout hd hcap fuel out v hrun cfg MO hheap items hitems
  intro fuel'
  rcases CC.runItems_res_of_done (items := items) (args := args) (cfg := cfg) (f0 := f0) (v := v) h2 fuel'
    with h | h
  · show C13_allowed (CC.runItems items args fuel' cfg).res
    rw [h]; trivial
  · show C13_allowed (CC.runItems items args fuel' cfg).res
    rw [h]; trivial

/-! ## Non-vacuity of the whole-program theorems: the counting loop of C06X86 (a `println`, an `ifc`,
arithmetic, a substitution and a `call` back to the entry) -/

/-- its body has the shape, its routine the parity / balance / spill-area properties -/
example : ∃ body routine, compileX86 C06_loopProg true 0 = .ok (body, 2) ∧
    intoRoutine body 2 = .ok routine ∧ CCShape plainCC body ∧ routine.all spillRefsOK = true ∧
    spSum routine.dropLast = 0 := by
  have hok : ∃ r, compileX86 C06_loopProg true 0 = .ok r := ⟨_, rfl⟩
  obtain ⟨⟨body, nargs⟩, hcomp⟩ := hok
  have hnargs : nargs = 2 := by
    have : compileX86 C06_loopProg true 0 = .ok ((compileX86 C06_loopProg true 0 |>.toOption.getD ([], 0)).1, 2) := rfl
    rw [hcomp] at this
    injection this with this
    injection this
  subst hnargs
  have hok2 : ∃ r, intoRoutine body 2 = .ok r := by
    have : ∃ moves, moveArguments 2 = .ok moves := ⟨_, rfl⟩
    obtain ⟨moves, hm⟩ := this
    exact ⟨_, by unfold intoRoutine; rw [setup_eq 2 moves hm]⟩
  obtain ⟨routine, hrout⟩ := hok2
  exact ⟨body, routine, hcomp, hrout, C13_static_shape hcomp, C13_static_spill_area hcomp hrout,
    (C13_static_balanced hcomp hrout).1⟩

/-- … and on its routine the calling-convention monitor never fires, for ALL arguments and ALL fuel
(the loop does not terminate for every argument within a given fuel) -/
example : ∃ routine : List Code, ∀ (args : List Word) (fuel : Nat),
    CCSafe (CC.runItems (routine.map fun c => (c, 0)) args fuel {}).res := by
  have hok : ∃ r, compileX86 C06_loopProg true 0 = .ok r := ⟨_, rfl⟩
  obtain ⟨⟨body, nargs⟩, hcomp⟩ := hok
  have hnargs : nargs = 2 := by
    have : compileX86 C06_loopProg true 0 = .ok ((compileX86 C06_loopProg true 0 |>.toOption.getD ([], 0)).1, 2) := rfl
    rw [hcomp] at this
    injection this with this
    injection this
  subst hnargs
  have hok2 : ∃ r, intoRoutine body 2 = .ok r := by
    have : ∃ moves, moveArguments 2 = .ok moves := ⟨_, rfl⟩
    obtain ⟨moves, hm⟩ := this
    exact ⟨_, by unfold intoRoutine; rw [setup_eq 2 moves hm]⟩
  obtain ⟨routine, hrout⟩ := hok2
  exact ⟨routine, fun args fuel => C13_cc_never_fires_int C06_loopProg (linTypedCheck_sound C06_loopProg rfl)
    C06_loopProg_int true 0 body routine 2 hcomp hrout {} cfgCC_default _
    (by simp [List.map_map, Function.comp]) args fuel⟩

/-- … and started with n = 3, acc = 0 (a terminating run) every amount of fuel gives an allowed result -/
example : ∃ routine : List Code, ∀ fuel' : Nat,
    C13_allowed (Ref.runItems (routine.map fun c => (c, 0)) [3, 0] fuel' {}).res := by
  have hok : ∃ r, compileX86 C06_loopProg true 0 = .ok r := ⟨_, rfl⟩
  obtain ⟨⟨body, nargs⟩, hcomp⟩ := hok
  have hnargs : nargs = 2 := by
    have : compileX86 C06_loopProg true 0 = .ok ((compileX86 C06_loopProg true 0 |>.toOption.getD ([], 0)).1, 2) := rfl
    rw [hcomp] at this
    injection this with this
    injection this
  subst hnargs
  have hok2 : ∃ r, intoRoutine body 2 = .ok r := by
    have : ∃ moves, moveArguments 2 = .ok moves := ⟨_, rfl⟩
    obtain ⟨moves, hm⟩ := this
    exact ⟨_, by unfold intoRoutine; rw [setup_eq 2 moves hm]⟩
  obtain ⟨routine, hrout⟩ := hok2
  have hrun : Pos.run C06_loopProg [3, 0] 40 = ⟨[(true, 6)], .done 6⟩ := by decide
  exact ⟨routine, C13_int_terminating C06_loopProg [3, 0] true body routine 2 C06_loopDef
    (by decide) (linTypedCheck_sound C06_loopProg rfl) C06_loopProg_int C06_loopProg_inRange hcomp hrout rfl
    (Scc.Props.C06Generic.capacity_of_run C06_loopProg 40 _ (by decide) (by decide)) 40 _ _ hrun {}
    Ref.machOK_default rfl (routine.map fun c => (c, 0)) (by simp [List.map_map, Function.comp])⟩

end Scc.X86

#print axioms Scc.X86.C13_static_shape
#print axioms Scc.X86.C13_static_call_sites
#print axioms Scc.X86.C13_static_saved_exact
#print axioms Scc.X86.C13_static_call_parity
#print axioms Scc.X86.C13_static_balanced
#print axioms Scc.X86.C13_static_routine
#print axioms Scc.X86.C13_static_spill_area
#print axioms Scc.X86.C13_static_sp_writers
#print axioms Scc.X86.C13_codeWrites_sound
#print axioms Scc.X86.C13_cc_never_fires_int
#print axioms Scc.X86.C13_cc_never_fires_int_text
#print axioms Scc.X86.C13_int_terminating

#print axioms Scc.X86.C13_prologue_epilogue
#print axioms Scc.X86.C13_exit_check
#print axioms Scc.X86.C13_sp_invariant
#print axioms Scc.X86.C13_print_alignment
#print axioms Scc.X86.C13_print_preserves
