/-
  Scc.Props.C13X86 — property C13 (calling convention) for the x86-64 backend, on the SPEC machine
  Scc/X86/Machine.lean with undefined-value tracking ("poison": the external call makes rax rcx rdx rsi
  rdi r8–r11, the flags and all stack memory below rsp undefined; any USE of an undefined value faults).

  * `C13_statement` — the full property, kept as a `def : Prop` (NOT proved as a whole: it needs the
    per-statement frame lemmas of C06 composed over whole runs).
  * PROVED:
      `C13_prologue_epilogue`  setup ++ body ++ cleanup restores rbx rbp r12–r15 and rsp and keeps the
                               caller's stack, for ANY body that has rsp at its boundaries where the
                               prologue put it and does not write the save area or above
      `C13_exit_check`         with that, the machine's exit check (`retCheck`: return sentinel, rsp,
                               every callee-saved register, defined result in rax) succeeds
      `C13_sp_invariant`       rsp ≡ 8 (mod 16) at statement boundaries (every Theorem-B lemma of C06
                               returns `Boundary … sp` with the same `sp`)
      `C13_print_alignment`    FOR EVERY CONTEXT (any length, any kinds): the save sequence leaves
                               rsp ≡ 0 (mod 16) at the call (parity of registers_to_save − backup_registers_used)
      `C13_print_preserves`    FOR EVERY CONTEXT and source placement: save; mov arg; call; restore on the
                               poison machine runs without fault, prints exactly the source's value and
                               preserves rsp, HEAP, FREE, every temporary of every live variable
                               (registers and spill slots) and the heap
    CALLER_SAVE_FIRST = 4, CALLER_SAVE_LAST = 11, REGISTER_NUM = 16, RESERVED = 4 enter through
    Scc/X86/Consts.lean (`callerSaveRegistersInfo`, `backupRegistersUsed`).
-/
import Scc.X86.ProofsPrint
import Scc.AxCut.LinTyping

namespace Scc.X86
open Scc.AxCut

/-! ## The full statement (not proved) -/

/-- the machine outcomes the property allows: normal return, fuel, the excluded divisions and running
out of heap/stack region; NOT: `cc-violation`, `misaligned-call`, `read-undefined …`, `ret-to-non-sentinel` -/
def C13_allowed : Res → Prop
  | .done _ => True
  | .outOfFuel => True
  | .fault why _ => why = "div-by-zero" ∨ why = "div-overflow" ∨ why.startsWith "oob"
  | _ => False

/-- C13: for every compiled program, all arguments (callee-saved registers hold arbitrary sentinels,
caller-saved registers / flags / stack below rsp are undefined at entry and after every call of the
print runtime), the run ends only in an allowed outcome: at `ret` callee-saved registers and rsp are
restored and the result is in rax; rsp is 16-aligned at every call; no undefined value is ever used. -/
def C13_statement : Prop :=
  ∀ (p : AxCut.Prog) (args : List (BitVec 64)) (hooks : Bool) (body routine : List Code) (nargs : Nat),
    LinTypedProg p → compileX86 p hooks 0 = .ok (body, nargs) → intoRoutine body nargs = .ok routine →
    args.length = nargs →
    ∀ (fuel : Nat) (cfg : MonCfg), cfg.heap = false → CfgOK cfg.mach →
      C13_allowed (run (printProg routine) args fuel cfg).res

/-! ## Proved -/

variable {c : MachCfg} {la : String → Option Nat}

/-- into_routine.rs: `setup n = prologue ++ move_arguments n`, `cleanup = epilogue ++ [ret]`. -/
theorem C13_routine_shape (n : Nat) (moves : List Code) (h : moveArguments n = .ok moves) :
    setup n = .ok (prologue ++ moves) ∧ cleanup = epilogue ++ [.RET] :=
  ⟨setup_eq n moves h, cleanup_eq⟩

/-- prologue_epilogue: (1) the prologue saves rbx rbp r12–r15 below the entry rsp `m`, sets
`rsp = m − 48 − 2048`, HEAP = rdi, FREE = rdi + 64; (2) for ANY body result `st2` with that rsp and with
the save area and everything above it unchanged, the epilogue ends with rsp = m, the six registers at
their entry contents, every other register as the body left it (rax!), the caller's stack intact. -/
theorem C13_prologue_epilogue {st0 : State} {m : Nat} (E : EntryOK c st0 m) {h : Word}
    (h7 : st0.regs[7]? = some (some h)) :
    ∃ st1, execStraight c la prologue st0 = .ok st1 ∧ AfterPrologueM st0 st1 m h ∧
      ∀ st2 : State, st2.regs.size = 16 → st2.regs[0]? = st1.regs[0]? →
        (∀ n, m - 48 ≤ n → st2.stackMem[n]? = st1.stackMem[n]?) →
        ∃ st3, execStraight c la epilogue st2 = .ok st3 ∧ Same st2 st3 ∧ st3.regs.size = 16 ∧
          st3.regs[0]? = some (some (BitVec.ofNat 64 m)) ∧
          (∀ r, r ∈ [2, 3, 12, 13, 14, 15] → st3.regs[r]? = st0.regs[r]?) ∧
          (∀ r : Nat, r < 16 → r ≠ 0 → r ∉ [2, 3, 12, 13, 14, 15] → st3.regs[r]? = st2.regs[r]?) ∧
          (∀ n, m ≤ n → st3.stackMem[n]? = st0.stackMem[n]?) := by
  obtain ⟨st1, e1, P⟩ := prologue_machine (la := la) E h7
  exact ⟨st1, e1, P, fun st2 hs hr hm => prologue_epilogue_machine E P hs hr hm⟩

/-- the exit check of the machine succeeds in the state the epilogue produces from `initState` -/
theorem C13_exit_check (hc : CfgOK c) {st : State} {v : Word} (h16 : c.stackTop % 8 = 0)
    (hroom : c.stackLow + 8 ≤ c.stackTop)
    (hsp : st.regs[0]? = some (some (BitVec.ofNat 64 (c.stackTop - 8))))
    (hret : st.stackMem[c.stackTop - 8]? = some retSentinel)
    (hcs : ∀ r ∈ calleeSaved, st.regs[r]? = some (some (calleeSentinel r)))
    (hrax : st.regs[4]? = some (some v)) :
    retCheck c st = .ok v := retCheck_ok hc h16 hroom hsp hret hcs hrax

/-- sp_invariant: entry `rsp = m ≡ 8 (mod 16)` ⟹ after the prologue `rsp = m − 2096 ≡ 8 (mod 16)` -/
theorem C13_sp_invariant {m : Nat} (h : m % 16 = 8) (hm : 2096 ≤ m) : (m - 2096) % 16 = 8 :=
  sp_invariant h hm

/-- print_alignment, for EVERY context. -/
theorem C13_print_alignment (hc : CfgOK c) (ctx : Ctx) {st : State} {m : Nat}
    (hsize : st.regs.size = 16) (hsp : st.regs[0]? = some (some (BitVec.ofNat 64 m)))
    (h16 : m % 16 = 8) (hlow : c.stackLow + 72 ≤ m) (htop : m ≤ c.stackTop) :
    ∃ st' m', execStraight c la (saveCallerSaveRegisters (callerSaveRegistersInfo ctx).1
        (callerSaveRegistersInfo ctx).2) st = .ok st' ∧ Same st st' ∧
      st'.regs[0]? = some (some (BitVec.ofNat 64 m')) ∧ m' % 16 = 0 ∧ m' ≤ m ∧ m ≤ m' + 72 :=
  print_alignment_machine hc ctx hsize hsp h16 hlow htop

/-- print_preserves, for EVERY context and source placement (`execSeq` = straight-line execution in
which `call f` is the machine's external call `callExt`, exactly as in `step`). -/
theorem C13_print_preserves (hc : CfgOK c) (nl : Bool) (ctx : Ctx) (src : Temporary)
    (hsrc : TempOK src) (hlive : ∀ r, src = .reg r → r < 2 * ctx.length + 4)
    {st : State} {m : Nat} (hsize : st.regs.size = 16)
    (hsp : st.regs[0]? = some (some (BitVec.ofNat 64 m))) (h16 : m % 16 = 8)
    (hlow : c.stackLow + 72 ≤ m) (htop : m + 2048 ≤ c.stackTop)
    {x : Word} (hx : tempVal (BitVec.ofNat 64 m) st src = some x) :
    ∃ st', execSeq c la (printI64 nl src ctx) st = .ok st' ∧ st'.out = (nl, x) :: st.out ∧
      PrintKeptM ctx st st' m :=
  print_preserves_machine hc nl ctx src hsrc hlive hsize hsp h16 hlow htop hx

/-! ## Non-vacuity -/

/-- the initial state of the machine satisfies the entry conditions (default configuration) -/
example : EntryOK {} (initState {} [5#64] 0) (0x7fff0000 - 8) :=
  ⟨cfgOK_default, rfl, rfl, by decide, by decide, by decide⟩

/-- a boundary state for the print lemmas: rsp ≡ 8 (mod 16), x in rdi = position 1's word -/
def exPrintState : State :=
  { regs := #[some (BitVec.ofNat 64 0x7ffef008), none, some 0x10000000#64, some 0x10000040#64, none,
              some 1#64, none, some 42#64, none, none, none, none, none, none, none, none],
    flags := none, heapMem := ∅, stackMem := ∅, pc := 0, out := [], maxHeapWritten := 0, steps := 0 }

/-- print of the second of two integer variables: the trace gets `(true, 42)`, rdx and rdi survive -/
example : ∃ st', execSeq {} (fun _ => none)
      (printI64 true (.reg 7) [⟨⟨"a", 1⟩, .ext, .i64⟩, ⟨⟨"b", 2⟩, .ext, .i64⟩]) exPrintState = .ok st' ∧
      st'.out = [(true, 42#64)] ∧ st'.regs[7]? = some (some 42#64) ∧ st'.regs[5]? = some (some 1#64) := by
  obtain ⟨st', h1, h2, K⟩ := C13_print_preserves (c := {}) (la := fun _ => none) cfgOK_default true
    [⟨⟨"a", 1⟩, .ext, .i64⟩, ⟨⟨"b", 2⟩, .ext, .i64⟩] (.reg 7) ⟨by decide, by decide⟩
    (fun r h => by cases h; decide) (st := exPrintState) (m := 0x7ffef008) rfl rfl (by decide) (by decide)
    (by decide) (x := 42#64) rfl
  refine ⟨st', h1, h2, ?_, ?_⟩
  · exact K.snd 1 _ rfl (by decide)
  · exact K.snd 0 _ rfl (by decide)

end Scc.X86

#print axioms Scc.X86.C13_prologue_epilogue
#print axioms Scc.X86.C13_exit_check
#print axioms Scc.X86.C13_sp_invariant
#print axioms Scc.X86.C13_print_alignment
#print axioms Scc.X86.C13_print_preserves
