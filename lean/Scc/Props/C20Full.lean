/-
  C20 at full strength for the CURRENT sources.  Compiles only if bin/regen found that io.c
  computes the magnitude without signed overflow and that the generated driver converts arguments
  with a 64-bit conversion; otherwise the check searches for a failing value.
-/
import Scc.Props.C20Cur

namespace Scc.Props
open Scc.Runtime Scc.Generated

/-- io.c computes the magnitude without signed overflow (generated fact). -/
theorem C20_neg_style_safe : negStyle = .unsignedMag := by decide

/-- the generated driver converts arguments with full 64-bit range (generated fact). -/
theorem C20_arg_conv_wide : argConv = .strtoll := by decide

theorem C20_current_full : C20_current_statement := by
  refine ⟨fun v => ?_, fun v h1 h2 => ?_⟩
  · have h := C20_print_fixed_full C20_cap_sufficient v
    simpa [printI64Cur, printlnI64Cur, C20_neg_style_safe] using h
  · have h := C20_strtoll_full v h1 h2
    simpa [argToParamCur, C20_arg_conv_wide] using h

end Scc.Props
